// Facts for C11 from src/build/incrementality.go (RuntimeHash, the runtime block of ruleHash),
// src/core/utils.go (IterRuntimeFiles) and src/test/test_step.go (needToRun, the reuse gate, cachedTestResults,
// cacheOutputFiles and its call site, RemoveTestOutputs, moveOutputFile, verifyHash):
//   - what RuntimeHash is made of and, per runtime file, what is written into the digest (hash only? name too?);
//   - what ruleHash adds when runtime = true, in order;
//   - the order of the sources of IterRuntimeFiles and its de-duplication key;
//   - the conditions of needToRun in order, the gate in front of it, and what guards the store of a result.
//
// Roles are recorded (call names, selectors), not local variable names.
package main

import (
	"go/ast"
	"go/token"
	"strconv"
	"strings"

	"verif/harness/xlib"
)

// closure finds `name := func(...) {...}` inside fn.
func closure(f *xlib.File, fn *ast.FuncDecl, name string) *ast.FuncLit {
	var lit *ast.FuncLit
	ast.Inspect(fn.Body, func(n ast.Node) bool {
		as, ok := n.(*ast.AssignStmt)
		if !ok || len(as.Lhs) != 1 || len(as.Rhs) != 1 {
			return true
		}
		if id, ok := as.Lhs[0].(*ast.Ident); ok && id.Name == name {
			if fl, ok := as.Rhs[0].(*ast.FuncLit); ok {
				lit = fl
			}
		}
		return true
	})
	if lit == nil {
		xlib.Unreadable("closure %s not found in %s", name, fn.Name.Name)
	}
	return lit
}

func returnsLit(f *xlib.File, body *ast.BlockStmt, want string) bool {
	for _, st := range body.List {
		if r, ok := st.(*ast.ReturnStmt); ok && len(r.Results) == 1 && f.Src(r.Results[0]) == want {
			return true
		}
	}
	return false
}

func callName(f *xlib.File, e ast.Expr) string {
	if c, ok := e.(*ast.CallExpr); ok {
		s := f.Src(c.Fun)
		if i := strings.LastIndex(s, "."); i >= 0 {
			return s[i+1:]
		}
		return s
	}
	return ""
}

// conj splits a && b && c.
func conj(e ast.Expr) []ast.Expr {
	if p, ok := e.(*ast.ParenExpr); ok {
		return conj(p.X)
	}
	if b, ok := e.(*ast.BinaryExpr); ok && b.Op == token.LAND {
		return append(conj(b.X), conj(b.Y)...)
	}
	return []ast.Expr{e}
}

func main() {
	inc := xlib.Parse("src/build/incrementality.go")
	utl := xlib.Parse("src/core/utils.go")
	ts := xlib.Parse("src/test/test_step.go")
	hf := xlib.Parse("src/fs/hash.go")
	fgf := xlib.Parse("src/build/filegroup.go")
	out := xlib.NewOut("C11", inc.Path, utl.Path, ts.Path, hf.Path, fgf.Path)
	pathHasherFacts(hf, fgf, inc, out)

	// ---------------------------------------------------------------- RuntimeHash
	rh := inc.Func("RuntimeHash")
	var parts []string
	var loopIter string
	var loopWrites []string
	loopVars := 0
	loopAbsolute := ""
	digestAppended := false
	classify := func(e ast.Expr) string {
		s := inc.Src(e)
		switch {
		case strings.HasPrefix(s, "RuleHash("):
			c := e.(*ast.CallExpr)
			if len(c.Args) == 4 {
				return "rule(runtime=" + inc.Src(c.Args[2]) + ",postBuild=" + inc.Src(c.Args[3]) + ")"
			}
			return "rule(?)"
		case strings.HasSuffix(s, "Hashes.Config"):
			return "config"
		case strings.HasSuffix(s, ".Sum(nil)"):
			digestAppended = true
			return "files-digest"
		}
		return "other:" + s
	}
	var walkAppend func(e ast.Expr)
	walkAppend = func(e ast.Expr) {
		c, ok := e.(*ast.CallExpr)
		if !ok || inc.Src(c.Fun) != "append" {
			return
		}
		for i, a := range c.Args {
			if i == 0 {
				if ac, ok := a.(*ast.CallExpr); ok && inc.Src(ac.Fun) == "append" {
					walkAppend(a)
					continue
				}
				if _, ok := a.(*ast.Ident); ok {
					continue // the accumulator itself
				}
			}
			parts = append(parts, classify(a))
		}
	}
	for _, st := range rh.Body.List {
		switch x := st.(type) {
		case *ast.AssignStmt:
			for _, r := range x.Rhs {
				walkAppend(r)
			}
		case *ast.ReturnStmt:
			for _, r := range x.Results {
				walkAppend(r)
			}
		case *ast.RangeStmt:
			if c, ok := x.X.(*ast.CallExpr); ok {
				loopIter = callName(inc, c)
			}
			if x.Key != nil {
				loopVars++
			}
			if x.Value != nil {
				loopVars++
			}
			// roles of the two values IterRuntimeFiles yields: key = path to hash (source), value = destination name
			keyName, valName := "\x00", "\x00"
			if id, ok := x.Key.(*ast.Ident); ok {
				keyName = id.Name
			}
			if id, ok := x.Value.(*ast.Ident); ok {
				valName = id.Name
			}
			if c, ok := x.X.(*ast.CallExpr); ok && len(c.Args) == 4 {
				loopAbsolute = inc.Src(c.Args[2])
			}
			ast.Inspect(x.Body, func(n ast.Node) bool {
				if call, ok := n.(*ast.CallExpr); ok && strings.HasSuffix(inc.Src(call.Fun), ".Write") && len(call.Args) == 1 {
					arg := inc.Src(call.Args[0])
					switch {
					case arg == "[]byte{0}" || arg == "[]byte{0x0}" || arg == "[]byte{0x00}":
						loopWrites = append(loopWrites, "nul") // terminator: names cannot contain it
					case arg == "[]byte("+valName+")":
						loopWrites = append(loopWrites, "name:dest")
					case arg == "[]byte("+keyName+")":
						loopWrites = append(loopWrites, "name:src")
					case strings.HasPrefix(arg, "[]byte("):
						loopWrites = append(loopWrites, "bytes:"+arg)
					default:
						loopWrites = append(loopWrites, "hash")
					}
				}
				return true
			})
		}
	}
	if len(parts) == 0 || loopIter == "" || !digestAppended {
		xlib.Unreadable("RuntimeHash: parts %v loop %q digest %v", parts, loopIter, digestAppended)
	}
	out.Def("runtimeHashParts", "List String", xlib.LeanStrList(parts))
	out.Def("runtimeHashLoopIter", "String", xlib.LeanStr(loopIter))
	out.Def("runtimeHashLoopWrites", "List String", xlib.LeanStrList(loopWrites))
	out.Def("runtimeHashLoopVars", "Nat", strconv.Itoa(loopVars))
	out.Def("runtimeHashLoopAbsoluteNames", "String", xlib.LeanStr(loopAbsolute))

	// ---------------------------------------------------------------- ruleHash: the `if runtime { … }` block
	ruh := inc.Func("ruleHash")
	var rtWrites []string
	found := false
	for _, st := range ruh.Body.List {
		is, ok := st.(*ast.IfStmt)
		if !ok {
			continue
		}
		if id, ok := is.Cond.(*ast.Ident); !ok || id.Name != "runtime" {
			continue
		}
		found = true
		ast.Inspect(is.Body, func(n ast.Node) bool {
			switch x := n.(type) {
			case *ast.RangeStmt:
				// for _, v := range X { h.Write([]byte(f(v))) }
				inner := ""
				ast.Inspect(x.Body, func(m ast.Node) bool {
					if call, ok := m.(*ast.CallExpr); ok && strings.HasSuffix(inc.Src(call.Fun), ".Write") && len(call.Args) == 1 {
						inner = inc.Src(call.Args[0])
					}
					return true
				})
				src := inc.Src(x.X)
				if i := strings.Index(src, "."); i >= 0 {
					src = src[i+1:]
				}
				mode := "raw"
				if strings.Contains(inner, ".String()") {
					mode = "String"
				}
				rtWrites = append(rtWrites, "each:"+src+":"+mode)
				return false
			case *ast.CallExpr:
				fn := inc.Src(x.Fun)
				switch {
				case strings.HasSuffix(fn, ".Write") && len(x.Args) == 1:
					a := inc.Src(x.Args[0])
					a = strings.TrimSuffix(strings.TrimPrefix(a, "[]byte("), ")")
					if i := strings.Index(a, "."); i >= 0 {
						a = a[i+1:]
					}
					rtWrites = append(rtWrites, "write:"+a)
					return false
				case fn == "hashOptionalBool" || fn == "hashBool":
					a := inc.Src(x.Args[1])
					if i := strings.Index(a, "."); i >= 0 {
						a = a[i+1:]
					}
					rtWrites = append(rtWrites, fn+":"+a)
					return false
				}
			}
			return true
		})
	}
	if !found {
		xlib.Unreadable("ruleHash: no `if runtime` block")
	}
	out.Def("ruleHashRuntimeWrites", "List String", xlib.LeanStrList(rtWrites))

	// ---------------------------------------------------------------- IterRuntimeFiles: order of sources, dedup key
	irf := utl.Func("IterRuntimeFiles")
	var order []string
	dedupKey := ""
	ast.Inspect(irf.Body, func(n ast.Node) bool {
		switch x := n.(type) {
		case *ast.RangeStmt:
			if c, ok := x.X.(*ast.CallExpr); ok {
				name := callName(utl, c)
				switch name {
				case "Outputs", "AllData", "AllTestTools", "AllDebugData", "AllDebugTools":
					order = append(order, name)
				case "IterAllRuntimeDependencies":
					if sel, ok := c.Fun.(*ast.SelectorExpr); ok {
						if id, ok := sel.X.(*ast.Ident); ok && isParam(irf, id.Name) {
							order = append(order, "OwnRuntimeDeps")
						} else {
							order = append(order, "RuntimeDepsOfPrevious")
						}
					}
				}
			}
		case *ast.IfStmt:
			// if !done[KEY] { done[KEY] = true … }
			if u, ok := x.Cond.(*ast.UnaryExpr); ok && u.Op == token.NOT {
				if ix, ok := u.X.(*ast.IndexExpr); ok {
					if id, ok := ix.Index.(*ast.Ident); ok && dedupKey == "" {
						dedupKey = id.Name
					}
				}
			}
		}
		return true
	})
	// role of the dedup key: which parameter of the push closure it is (0 = source path, 1 = destination)
	keyRole := "?"
	ast.Inspect(irf.Body, func(n ast.Node) bool {
		if fl, ok := n.(*ast.FuncLit); ok && fl.Type.Params != nil && keyRole == "?" {
			idx := 0
			for _, p := range fl.Type.Params.List {
				for _, nm := range p.Names {
					if nm.Name == dedupKey {
						keyRole = []string{"src", "dest", "third"}[min(idx, 2)]
					}
					idx++
				}
			}
		}
		return true
	})
	if len(order) == 0 || dedupKey == "" {
		xlib.Unreadable("IterRuntimeFiles: order %v dedup %q", order, dedupKey)
	}
	out.Def("iterRuntimeFilesOrder", "List String", xlib.LeanStrList(order))
	out.Def("iterRuntimeFilesDedupBy", "String", xlib.LeanStr(keyRole))

	// ---------------------------------------------------------------- test(): needToRun
	tf := ts.Func("test")
	hashVar := ""
	ast.Inspect(tf.Body, func(n ast.Node) bool {
		if as, ok := n.(*ast.AssignStmt); ok && len(as.Rhs) == 1 && callName(ts, as.Rhs[0]) == "runtimeHash" && len(as.Lhs) >= 1 && hashVar == "" {
			if id, ok := as.Lhs[0].(*ast.Ident); ok {
				hashVar = id.Name
			}
		}
		return true
	})
	if hashVar == "" {
		xlib.Unreadable("test: no `h, err := runtimeHash(…)`")
	}
	ntr := closure(ts, tf, "needToRun")
	var conds []string
	var states []string
	forceFirst := false
	checksExist, verifiesResults, verifyNegated := false, false, false
	fallback := ""
	for i, st := range ntr.Body.List {
		switch x := st.(type) {
		case *ast.IfStmt:
			cond := ts.Src(x.Cond)
			if x.Init != nil {
				cond = ts.Src(x.Init) + "; " + cond
			}
			switch {
			case strings.HasSuffix(ts.Src(x.Cond), "ForceRerun") && returnsLit(ts, x.Body, "true"):
				conds = append(conds, "force")
				if i == 0 {
					forceFirst = true
				}
			case strings.Contains(cond, "State()"):
				conds = append(conds, "state-and-results")
				ast.Inspect(x.Cond, func(n ast.Node) bool {
					if be, ok := n.(*ast.BinaryExpr); ok && be.Op == token.EQL {
						if sel, ok := be.Y.(*ast.SelectorExpr); ok {
							states = append(states, sel.Sel.Name)
						}
					}
					if c, ok := n.(*ast.CallExpr); ok && callName(ts, c) == "PathExists" && strings.Contains(ts.Src(c.Args[0]), "TestResultsFile") {
						checksExist = true
					}
					return true
				})
				// inside: `else if !verifyHash(state, target.TestResultsFile(), hash) { return true }` … `return false`
				ast.Inspect(x.Body, func(n ast.Node) bool {
					if is, ok := n.(*ast.IfStmt); ok {
						for _, c := range conj(is.Cond) {
							if u, ok := c.(*ast.UnaryExpr); ok && u.Op == token.NOT {
								if call, ok := u.X.(*ast.CallExpr); ok && callName(ts, call) == "verifyHash" && len(call.Args) == 3 &&
									strings.Contains(ts.Src(call.Args[1]), "TestResultsFile") && callNameIs(ts, call.Args[2], hashVar) {
									verifiesResults = true
									verifyNegated = returnsLit(ts, is.Body, "true")
								}
							}
						}
					}
					return true
				})
				if !returnsLit(ts, x.Body, "false") {
					verifiesResults = false
				}
			}
		case *ast.ReturnStmt:
			if len(x.Results) == 1 {
				fallback = ts.Src(x.Results[0])
				if i := strings.Index(fallback, "("); i >= 0 {
					fallback = fallback[:i]
				}
			}
		}
	}
	if len(conds) == 0 {
		xlib.Unreadable("needToRun: no conditions recognised")
	}
	out.Def("needToRunConds", "List String", xlib.LeanStrList(conds))
	out.Def("needToRunForceFirst", "Bool", xlib.LeanBool(forceFirst))
	out.Def("needToRunStates", "List String", xlib.LeanStrList(states))
	out.Def("needToRunChecksResultsExist", "Bool", xlib.LeanBool(checksExist))
	out.Def("needToRunVerifiesResultsHash", "Bool", xlib.LeanBool(verifiesResults && verifyNegated))
	out.Def("needToRunFallback", "String", xlib.LeanStr(fallback))

	// ---------------------------------------------------------------- the gate: if A && B && !needToRun() { cached… return }
	var gate []string
	gateUsesCached := false
	removeAfterGate := false
	gateSeen := false
	storeCallGuard := ""
	for _, st := range tf.Body.List {
		is, ok := st.(*ast.IfStmt)
		if ok && strings.Contains(ts.Src(is.Cond), "needToRun()") {
			gateSeen = true
			for _, c := range conj(is.Cond) {
				gate = append(gate, strings.ReplaceAll(ts.Src(c), " ", ""))
			}
			ast.Inspect(is.Body, func(n ast.Node) bool {
				if c, ok := n.(*ast.CallExpr); ok && callName(ts, c) == "cachedTestResults" {
					gateUsesCached = true
				}
				return true
			})
			continue
		}
		if ok && gateSeen {
			// `if err := RemoveTestOutputs(target); err != nil`
			if is.Init != nil && strings.Contains(ts.Src(is.Init), "RemoveTestOutputs(") && storeCallGuard == "" {
				removeAfterGate = true
			}
			// the run block: find the call of cacheOutputFiles and the condition of the innermost enclosing if
			var walk func(n ast.Node, guard string)
			walk = func(n ast.Node, guard string) {
				switch x := n.(type) {
				case *ast.IfStmt:
					g := callName(ts, x.Cond)
					if g == "" {
						g = guard
					}
					walk(x.Body, g)
					if x.Else != nil {
						walk(x.Else, guard)
					}
				case *ast.BlockStmt:
					for _, s := range x.List {
						walk(s, guard)
					}
				case *ast.ExprStmt:
					if callName(ts, x.X) == "cacheOutputFiles" {
						storeCallGuard = guard
					}
				}
			}
			walk(is, "")
		}
	}
	if !gateSeen {
		xlib.Unreadable("test: gate `… && !needToRun()` not found")
	}
	out.Def("reuseGate", "List String", xlib.LeanStrList(gate))
	out.Def("reuseGateUsesCachedResults", "Bool", xlib.LeanBool(gateUsesCached))
	out.Def("removeOutputsBeforeRun", "Bool", xlib.LeanBool(removeAfterGate))
	out.Def("storeCallGuard", "String", xlib.LeanStr(storeCallGuard))

	// ---------------------------------------------------------------- cacheOutputFiles: early returns, what is stored with which hash
	cof := closure(ts, tf, "cacheOutputFiles")
	var inner []string
	storesResultsWithHash := false
	for _, st := range cof.Body.List {
		is, ok := st.(*ast.IfStmt)
		if !ok {
			continue
		}
		if is.Init == nil && returnsLit(ts, is.Body, "false") {
			inner = append(inner, strings.ReplaceAll(ts.Src(is.Cond), " ", ""))
		}
		if is.Init != nil {
			if as, ok := is.Init.(*ast.AssignStmt); ok && len(as.Rhs) == 1 {
				if c, ok := as.Rhs[0].(*ast.CallExpr); ok && callName(ts, c) == "moveOutputFile" && len(c.Args) == 5 &&
					callNameIs(ts, c.Args[1], hashVar) && strings.Contains(ts.Src(c.Args[3]), "TestResultsFile") {
					storesResultsWithHash = true
				}
			}
		}
	}
	out.Def("storeInnerGuards", "List String", xlib.LeanStrList(inner))
	out.Def("storeRecordsRuntimeHashOnResults", "Bool", xlib.LeanBool(storesResultsWithHash))

	// ---------------------------------------------------------------- cachedTestResults: rejects a stored result that is not AllSucceeded
	ctr := closure(ts, tf, "cachedTestResults")
	rejects := false
	ast.Inspect(ctr.Body, func(n ast.Node) bool {
		if is, ok := n.(*ast.IfStmt); ok {
			var chk func(is *ast.IfStmt)
			chk = func(is *ast.IfStmt) {
				if u, ok := is.Cond.(*ast.UnaryExpr); ok && u.Op == token.NOT && callName(ts, u.X) == "AllSucceeded" && returnsLit(ts, is.Body, "nil") {
					rejects = true
				}
				if e, ok := is.Else.(*ast.IfStmt); ok {
					chk(e)
				}
			}
			chk(is)
		}
		return true
	})
	out.Def("cachedRejectsNotAllSucceeded", "Bool", xlib.LeanBool(rejects))

	// ---------------------------------------------------------------- moveOutputFile records the hash; verifyHash compares it
	mof := ts.Func("moveOutputFile")
	records := false
	if last, ok := mof.Body.List[len(mof.Body.List)-1].(*ast.ReturnStmt); ok && len(last.Results) == 1 {
		if c, ok := last.Results[0].(*ast.CallExpr); ok && callName(ts, c) == "RecordAttr" && len(c.Args) >= 3 &&
			callNameIs(ts, c.Args[1], paramName(mof, 1)) && callNameIs(ts, c.Args[2], "xattrName") {
			records = true
		}
	}
	out.Def("moveOutputFileRecordsHash", "Bool", xlib.LeanBool(records))
	vh := ts.Func("verifyHash")
	verifyEq := false
	if len(vh.Body.List) == 1 {
		if r, ok := vh.Body.List[0].(*ast.ReturnStmt); ok && len(r.Results) == 1 {
			if c, ok := r.Results[0].(*ast.CallExpr); ok && ts.Src(c.Fun) == "bytes.Equal" && len(c.Args) == 2 {
				a, b := ts.Src(c.Args[0]), ts.Src(c.Args[1])
				hp, fp := paramName(vh, 2), paramName(vh, 1)
				if (a == hp && strings.Contains(b, "ReadAttr("+fp) && strings.Contains(b, "xattrName")) ||
					(b == hp && strings.Contains(a, "ReadAttr("+fp) && strings.Contains(a, "xattrName")) {
					verifyEq = true
				}
			}
		}
	}
	out.Def("verifyHashIsEqualityWithRecorded", "Bool", xlib.LeanBool(verifyEq))
	// RemoveTestOutputs removes the results file
	rto := ts.Func("RemoveTestOutputs")
	rmResults := false
	ast.Inspect(rto.Body, func(n ast.Node) bool {
		if c, ok := n.(*ast.CallExpr); ok && callName(ts, c) == "RemoveAll" && len(c.Args) == 1 && strings.Contains(ts.Src(c.Args[0]), "TestResultsFile") {
			rmResults = true
		}
		return true
	})
	out.Def("removeTestOutputsRemovesResults", "Bool", xlib.LeanBool(rmResults))
	out.Write()
}

func paramName(fn *ast.FuncDecl, idx int) string {
	i := 0
	for _, p := range fn.Type.Params.List {
		for _, nm := range p.Names {
			if i == idx {
				return nm.Name
			}
			i++
		}
	}
	return "\x00"
}

func isParam(fn *ast.FuncDecl, name string) bool {
	for i := 0; i < 8; i++ {
		if paramName(fn, i) == name {
			return true
		}
	}
	return false
}

// pathHasherFacts: what makes the hash RuntimeHash gets for a path a function of the path's CURRENT contents even when
// the path is a filegroup output, i.e. a hard link whose inode (and xattrs) is shared with a user-editable source file:
//   - CopyHash -> moveOrCopyHash(copy = true): when the source hash is not memoised the destination is MARKED
//     (memo[newPath] = nil), under the condition `copy` alone;
//   - Hash: a marked path gets store = false and recalc = true, and the worker is called with read = !recalc;
//   - hash(): the xattr is read only under `read`, and stored only under `store`;
//   - the filegroup builder calls CopyHash(from, to) on both of its completion paths;
//   - RuntimeHash hashes through PathHasher.Hash (not MustHash / a private walk).
func pathHasherFacts(hf, fgf, inc *xlib.File, out *xlib.Out) {
	mc := hf.Func("PathHasher.moveOrCopyHash")
	copyParam := paramName(mc, 2)
	newParam := paramName(mc, 1)
	markCond, marksNil := "", false
	ast.Inspect(mc.Body, func(n ast.Node) bool {
		is, ok := n.(*ast.IfStmt)
		if !ok {
			return true
		}
		for cur := is; cur != nil; {
			for _, st := range cur.Body.List {
				if as, ok := st.(*ast.AssignStmt); ok && len(as.Lhs) == 1 && len(as.Rhs) == 1 && hf.Src(as.Rhs[0]) == "nil" {
					if ix, ok := as.Lhs[0].(*ast.IndexExpr); ok && hf.Src(ix.Index) == newParam && strings.HasSuffix(hf.Src(ix.X), "memo") {
						marksNil = true
						markCond = strings.ReplaceAll(hf.Src(cur.Cond), copyParam, "<copy>")
					}
				}
			}
			next, _ := cur.Else.(*ast.IfStmt)
			cur = next
		}
		return false
	})
	out.Def("copyHashMarksDestination", "Bool", xlib.LeanBool(marksNil))
	out.Def("copyHashMarkCondition", "String", xlib.LeanStr(markCond))
	ch := hf.Func("PathHasher.CopyHash")
	copyIsTrue := false
	ast.Inspect(ch.Body, func(n ast.Node) bool {
		if c, ok := n.(*ast.CallExpr); ok && callName(hf, c) == "moveOrCopyHash" && len(c.Args) == 3 && hf.Src(c.Args[2]) == "true" {
			copyIsTrue = true
		}
		return true
	})
	out.Def("copyHashPassesCopyTrue", "Bool", xlib.LeanBool(copyIsTrue))

	// Hash: the branch for a marked path (`else if present`) and the call of the worker
	hs := hf.Func("PathHasher.Hash")
	recalcParam, storeParam := paramName(hs, 1), paramName(hs, 2)
	var marked []string
	workerArgs := []string{}
	ast.Inspect(hs.Body, func(n ast.Node) bool {
		switch x := n.(type) {
		case *ast.IfStmt:
			if e, ok := x.Else.(*ast.IfStmt); ok && strings.Contains(hf.Src(x.Cond), "!= nil") {
				for _, st := range e.Body.List {
					if as, ok := st.(*ast.AssignStmt); ok && len(as.Lhs) == 1 {
						l := hf.Src(as.Lhs[0])
						switch l {
						case recalcParam:
							l = "recalc"
						case storeParam:
							l = "store"
						}
						marked = append(marked, l+"="+hf.Src(as.Rhs[0]))
					}
				}
			}
		case *ast.CallExpr:
			if callName(hf, x) == "hash" && len(x.Args) == 4 {
				for _, a := range x.Args {
					v := hf.Src(a)
					v = strings.ReplaceAll(v, recalcParam, "recalc")
					v = strings.ReplaceAll(v, storeParam, "store")
					workerArgs = append(workerArgs, v)
				}
			}
		}
		return true
	})
	out.Def("hashMarkedPathAssigns", "List String", xlib.LeanStrList(marked))
	out.Def("hashWorkerArgs", "List String", xlib.LeanStrList(workerArgs))

	// hash(): guards of the xattr read and of the xattr store
	hw := hf.Func("PathHasher.hash")
	wStore, wRead := paramName(hw, 1), paramName(hw, 2)
	readGuarded, storeGuarded := false, false
	ast.Inspect(hw.Body, func(n ast.Node) bool {
		is, ok := n.(*ast.IfStmt)
		if !ok {
			return true
		}
		for cur := is; cur != nil; {
			body := hf.Src(cur.Body)
			hasName := func(name string) bool {
				for _, c := range conj(cur.Cond) {
					if hf.Src(c) == name {
						return true
					}
				}
				return false
			}
			if strings.Contains(body, "xattr.LGet") && !strings.Contains(body, "storeHash") {
				readGuarded = hasName(wRead)
			}
			if strings.Contains(body, "storeHash(") {
				storeGuarded = hasName(wStore)
			}
			next, _ := cur.Else.(*ast.IfStmt)
			cur = next
		}
		return true
	})
	xattrReads, xattrStores := 0, 0
	ast.Inspect(hw.Body, func(n ast.Node) bool {
		if c, ok := n.(*ast.CallExpr); ok {
			if hf.Src(c.Fun) == "xattr.LGet" {
				xattrReads++
			}
			if callName(hf, c) == "storeHash" {
				xattrStores++
			}
		}
		return true
	})
	out.Def("hashWorkerReadGuardedByRead", "Bool", xlib.LeanBool(readGuarded && xattrReads == 1))
	out.Def("hashWorkerStoreGuardedByStore", "Bool", xlib.LeanBool(storeGuarded && xattrStores == 1))

	// filegroup builder: every `builder.built[to] = …` is followed by CopyHash(from, to)
	fb := fgf.Func("filegroupBuilder.Build")
	from, to := paramName(fb, 2), paramName(fb, 3)
	var seq []string
	ast.Inspect(fb.Body, func(n ast.Node) bool {
		switch x := n.(type) {
		case *ast.AssignStmt:
			if len(x.Lhs) == 1 {
				if ix, ok := x.Lhs[0].(*ast.IndexExpr); ok && strings.HasSuffix(fgf.Src(ix.X), "built") && fgf.Src(ix.Index) == to {
					seq = append(seq, "built")
				}
			}
		case *ast.CallExpr:
			if callName(fgf, x) == "CopyHash" && len(x.Args) == 2 && fgf.Src(x.Args[0]) == from && fgf.Src(x.Args[1]) == to {
				seq = append(seq, "CopyHash")
			}
		}
		return true
	})
	out.Def("filegroupBuildSequence", "List String", xlib.LeanStrList(seq))

	// RuntimeHash hashes each path through PathHasher.Hash(src, recalc=false, store=…, …)
	rh := inc.Func("RuntimeHash")
	via := ""
	ast.Inspect(rh.Body, func(n ast.Node) bool {
		if rs, ok := n.(*ast.RangeStmt); ok {
			ast.Inspect(rs.Body, func(m ast.Node) bool {
				if c, ok := m.(*ast.CallExpr); ok && strings.HasSuffix(inc.Src(c.Fun), "PathHasher.Hash") && len(c.Args) == 4 {
					via = "PathHasher.Hash(recalc=" + inc.Src(c.Args[1]) + ")"
				}
				return true
			})
		}
		return true
	})
	out.Def("runtimeHashPathVia", "String", xlib.LeanStr(via))
}

func callNameIs(f *xlib.File, e ast.Expr, want string) bool { return f.Src(e) == want }

func min(a, b int) int {
	if a < b {
		return a
	}
	return b
}
