// Facts for C08 / C07 / C10 from src/build/incrementality.go and src/core/build_target.go:
// the body of ruleHash linearised into a *write schema* (a sequence of recognised write idioms, each mapped to
// a target attribute by the hand-written tables below), the shapes of hashMap / hashBool / hashOptionalBool,
// and for every accessor ruleHash goes through whether it sorts what it collected from a map.
//
// Any statement that touches the hash object and is not a recognised idiom, and any expression that is not in
// the tables, makes the facts tie unreadable (exit 3): the run then relies on lean/Expected/C08.lean plus the
// thorough correspondence (sha1(ruleSer t) = build.RuleHash(t)).
package main

import (
	"fmt"
	"go/ast"
	"go/token"
	"os"
	"path/filepath"
	"strconv"
	"strings"

	"verif/harness/xlib"
)

var f *xlib.File

// ---- tables: canonical Go expression -> model attribute

var strAttrs = map[string]string{
	"target.Label.String()":        ".label",
	"target.GetCommand(state)":     ".command",
	"target.FileContent":           ".fileContent",
	"target.GetTestCommand(state)": ".testCommand",
	"target.Test.ArgsPlaceholder":  ".testArgsPlaceholder",
}

// list attribute and whether its elements are rendered with .String()
var listAttrs = map[string]struct {
	attr   string
	render bool
}{
	"target.DeclaredDependencies()":   {".deps", true},
	"target.Visibility":               {".visibility", true},
	"target.Hashes":                   {".hashes", false},
	"target.Sources":                  {".srcs", true},
	"state.Config.Build.HashCheckers": {".hashCheckers", false},
	"target.DeclaredOutputs()":        {".outs", false},
	"target.Licences":                 {".licences", false},
	"target.OptionalOutputs":          {".optionalOuts", false},
	"target.Labels":                   {".labels", false},
	"target.Secrets":                  {".secrets", false},
	"target.Requires":                 {".requires", false},
	"target.OutputDirectories":        {".outputDirs", false},
	"target.AllData()":                {".data", true},
	"target.Test.Outputs":             {".testOutputs", false},
}

var boolAttrs = map[string]string{
	"target.IsBinary":                    ".isBinary",
	"target.IsSubrepo":                   ".isSubrepo",
	"target.Sandbox":                     ".sandbox",
	"target.NeedsTransitiveDependencies": ".needsTransitiveDeps",
	"target.OutputIsComplete":            ".outputIsComplete",
	"target.Stamp":                       ".stamp",
	"target.IsFilegroup":                 ".isFilegroup",
	"target.IsTextFile":                  ".isTextFile",
	"target.IsRemoteFile":                ".isRemoteFile",
	"target.Local":                       ".isLocal",
	"target.SrcListFiles":                ".srcListFiles",
	"target.ExitOnError":                 ".exitOnError",
	"target.PreBuildFunction != nil":     ".preBuild",
	"target.PostBuildFunction != nil":    ".postBuild",
	"target.Test.Sandbox":                ".testSandbox",
	"target.Test.NoOutput":               ".testNoOutput",
}

var mapAttrs = map[string]string{
	"target.EntryPoints": ".entryPoints",
	"target.Env":         ".env",
}

// ---- helpers

func mentions(n ast.Node, name string) bool {
	found := false
	ast.Inspect(n, func(x ast.Node) bool {
		if id, ok := x.(*ast.Ident); ok && id.Name == name {
			found = true
		}
		return !found
	})
	return found
}

func canon(n ast.Node, roles map[string]string) string {
	var touched []*ast.Ident
	var old []string
	ast.Inspect(n, func(x ast.Node) bool {
		if id, ok := x.(*ast.Ident); ok {
			if r, ok := roles[id.Name]; ok {
				touched = append(touched, id)
				old = append(old, id.Name)
				id.Name = r
			}
		}
		return true
	})
	s := f.Src(n)
	for i, id := range touched {
		id.Name = old[i]
	}
	return s
}

func bad(n ast.Node, format string, a ...any) {
	xlib.Unreadable("%s:%d: %s: %s", f.Path, f.Line(n), fmt.Sprintf(format, a...), f.Src(n))
}

// byteConv returns x for `[]byte(x)`.
func byteConv(e ast.Expr) ast.Expr {
	c, ok := e.(*ast.CallExpr)
	if !ok || len(c.Args) != 1 {
		return nil
	}
	at, ok := c.Fun.(*ast.ArrayType)
	if !ok || at.Len != nil {
		return nil
	}
	if el, ok := at.Elt.(*ast.Ident); !ok || el.Name != "byte" {
		return nil
	}
	return c.Args[0]
}

type ex struct {
	h     string
	roles map[string]string
	items []string // "(.always, .str .label)" ...
	guard string
	// local assignments: name -> canonical rhs
	assigned map[string]string
	// collected key slices: name -> (map expr canonical, sorted?)
	keys            map[string]*keyInfo
	providesSorted  *bool
	namedSrcsSorted *bool
	passEnvSep      []int
}

type keyInfo struct {
	mapExpr string
	sorted  bool
}

func (x *ex) emit(item string) { x.items = append(x.items, "("+x.guard+", "+item+")") }

// writeArg returns the argument of `h.Write(arg)` if s is that statement.
func (x *ex) writeArg(s ast.Stmt) ast.Expr {
	es, ok := s.(*ast.ExprStmt)
	if !ok {
		return nil
	}
	c, ok := es.X.(*ast.CallExpr)
	if !ok || len(c.Args) != 1 {
		return nil
	}
	sel, ok := c.Fun.(*ast.SelectorExpr)
	if !ok || sel.Sel.Name != "Write" {
		return nil
	}
	if id, ok := sel.X.(*ast.Ident); !ok || id.Name != x.h {
		return nil
	}
	return c.Args[0]
}

// elemWrite: body is exactly `h.Write([]byte(v))` or `h.Write([]byte(v.String()))`; returns rendered?, ok.
func (x *ex) elemWrite(body []ast.Stmt, v string) (bool, bool) {
	if len(body) != 1 {
		return false, false
	}
	a := x.writeArg(body[0])
	if a == nil {
		return false, false
	}
	in := byteConv(a)
	if in == nil {
		return false, false
	}
	if id, ok := in.(*ast.Ident); ok && id.Name == v {
		return false, true
	}
	if c, ok := in.(*ast.CallExpr); ok && len(c.Args) == 0 {
		if sel, ok := c.Fun.(*ast.SelectorExpr); ok && sel.Sel.Name == "String" {
			if id, ok := sel.X.(*ast.Ident); ok && id.Name == v {
				return true, true
			}
		}
	}
	return false, false
}

func rangeVars(r *ast.RangeStmt) (key, val string) {
	if id, ok := r.Key.(*ast.Ident); ok {
		key = id.Name
	}
	if id, ok := r.Value.(*ast.Ident); ok {
		val = id.Name
	}
	return
}

func (x *ex) block(stmts []ast.Stmt) {
	for i := 0; i < len(stmts); i++ {
		s := stmts[i]
		switch st := s.(type) {
		case *ast.AssignStmt:
			if len(st.Lhs) == 1 && len(st.Rhs) == 1 {
				if id, ok := st.Lhs[0].(*ast.Ident); ok {
					if mentions(st.Rhs[0], x.h) && id.Name != x.h {
						bad(s, "assignment reads the hash")
					}
					x.assigned[id.Name] = canon(st.Rhs[0], x.roles)
					continue
				}
			}
			if mentions(s, x.h) {
				bad(s, "unrecognised assignment touching the hash")
			}
		case *ast.ExprStmt:
			if a := x.writeArg(s); a != nil {
				in := byteConv(a)
				if in == nil {
					bad(s, "write of something other than []byte(<string>)")
				}
				attr, ok := strAttrs[canon(in, x.roles)]
				if !ok {
					bad(s, "written expression is not in the attribute table")
				}
				x.emit(".str " + attr)
				continue
			}
			if c, ok := st.X.(*ast.CallExpr); ok {
				if id, ok := c.Fun.(*ast.Ident); ok && len(c.Args) == 2 {
					if a0, ok := c.Args[0].(*ast.Ident); ok && a0.Name == x.h {
						arg := canon(c.Args[1], x.roles)
						switch id.Name {
						case "hashBool", "hashOptionalBool":
							attr, ok := boolAttrs[arg]
							if !ok {
								bad(s, "boolean expression is not in the attribute table")
							}
							if id.Name == "hashBool" {
								x.emit(".bool " + attr)
							} else {
								x.emit(".optBool " + attr)
							}
							continue
						case "hashMap":
							attr, ok := mapAttrs[arg]
							if !ok {
								bad(s, "map expression is not in the attribute table")
							}
							x.emit(".kv " + attr)
							continue
						}
					}
				}
				// sort.Strings(keys)
				if sel, ok := c.Fun.(*ast.SelectorExpr); ok && len(c.Args) == 1 {
					if p, ok := sel.X.(*ast.Ident); ok && p.Name == "sort" && sel.Sel.Name == "Strings" {
						if id, ok := c.Args[0].(*ast.Ident); ok {
							if ki := x.keys[id.Name]; ki != nil {
								ki.sorted = true
								continue
							}
						}
					}
				}
			}
			if mentions(s, x.h) {
				bad(s, "unrecognised statement touching the hash")
			}
		case *ast.RangeStmt:
			x.rangeStmt(st)
		case *ast.IfStmt:
			x.ifStmt(st)
		case *ast.ReturnStmt:
			// return h.Sum(nil)
		default:
			if mentions(s, x.h) {
				bad(s, "unrecognised statement touching the hash")
			}
		}
	}
}

func (x *ex) rangeStmt(r *ast.RangeStmt) {
	k, v := rangeVars(r)
	over := canon(r.X, x.roles)
	// key collection: for k := range M { keys = append(keys, k) }
	if v == "" && k != "" && k != "_" && len(r.Body.List) == 1 && !mentions(r.Body, x.h) {
		if as, ok := r.Body.List[0].(*ast.AssignStmt); ok && len(as.Lhs) == 1 && len(as.Rhs) == 1 {
			if c, ok := as.Rhs[0].(*ast.CallExpr); ok && len(c.Args) == 2 {
				if fn, ok := c.Fun.(*ast.Ident); ok && fn.Name == "append" {
					dst, _ := as.Lhs[0].(*ast.Ident)
					a0, _ := c.Args[0].(*ast.Ident)
					a1, _ := c.Args[1].(*ast.Ident)
					if dst != nil && a0 != nil && a1 != nil && dst.Name == a0.Name && a1.Name == k {
						x.keys[dst.Name] = &keyInfo{mapExpr: over}
						return
					}
				}
			}
		}
	}
	if !mentions(r, x.h) {
		return
	}
	if k != "" && k != "_" {
		bad(r, "range with a key variable writes into the hash")
	}
	// plain list
	if la, ok := listAttrs[over]; ok {
		rendered, ok := x.elemWrite(r.Body.List, v)
		if !ok {
			bad(r, "list loop body is not a single element write")
		}
		if rendered != la.render {
			bad(r, "list elements rendered differently from the attribute table")
		}
		x.emit(".strs " + la.attr)
		return
	}
	// named outputs: for _, name := range target.DeclaredOutputNames() { write name; for _, out := range outs[name] { write out } }
	if over == "target.DeclaredOutputNames()" {
		if x.groupBody(r.Body.List, v, "target.DeclaredNamedOutputs()", false) {
			x.emit(".groups .namedOuts")
			return
		}
		bad(r, "named-outputs loop has an unrecognised body")
	}
	// provides: for _, lang := range provideKeys { vs := target.Provides[lang]; write lang; for _, l := range vs { write l.String() } }
	if id, ok := r.X.(*ast.Ident); ok {
		if ki := x.keys[id.Name]; ki != nil && ki.mapExpr == "target.Provides" {
			if x.groupBody(r.Body.List, v, "target.Provides", true) {
				srt := ki.sorted
				x.providesSorted = &srt
				x.emit(".groups .provides")
				return
			}
			bad(r, "provides loop has an unrecognised body")
		}
	}
	// named sources: for _, name := range srcNames { write name; for _, s := range target.NamedSources[name] { write s.String() } }
	if id, ok := r.X.(*ast.Ident); ok {
		if ki := x.keys[id.Name]; ki != nil && ki.mapExpr == "target.NamedSources" {
			if x.groupBody(r.Body.List, v, "target.NamedSources", true) {
				srt := ki.sorted
				x.namedSrcsSorted = &srt
				x.emit(".groups .namedSrcs")
				return
			}
			bad(r, "named-sources loop has an unrecognised body")
		}
	}
	bad(r, "unrecognised loop writing into the hash")
}

// groupBody: [optional `vs := M[name]`] ; write(name) ; for _, e := range (M[name] | vs | local bound to M) { write e }
func (x *ex) groupBody(body []ast.Stmt, name, mapExpr string, rendered bool) bool {
	local := ""
	if len(body) == 3 {
		as, ok := body[0].(*ast.AssignStmt)
		if !ok || len(as.Lhs) != 1 || len(as.Rhs) != 1 {
			return false
		}
		if !x.isIndexOf(as.Rhs[0], mapExpr, name) {
			return false
		}
		local = as.Lhs[0].(*ast.Ident).Name
		body = body[1:]
	}
	if len(body) != 2 {
		return false
	}
	a := x.writeArg(body[0])
	if a == nil {
		return false
	}
	if id, ok := byteConv(a).(*ast.Ident); !ok || id.Name != name {
		return false
	}
	inner, ok := body[1].(*ast.RangeStmt)
	if !ok {
		return false
	}
	ik, iv := rangeVars(inner)
	if ik != "" && ik != "_" {
		return false
	}
	if id, ok := inner.X.(*ast.Ident); ok && local != "" && id.Name == local {
		// ranges over the local
	} else if !x.isIndexOf(inner.X, mapExpr, name) {
		return false
	}
	r, ok := x.elemWrite(inner.Body.List, iv)
	return ok && r == rendered
}

// isIndexOf: e is `M[name]` where M is mapExpr itself or a local assigned from it.
func (x *ex) isIndexOf(e ast.Expr, mapExpr, name string) bool {
	ix, ok := e.(*ast.IndexExpr)
	if !ok {
		return false
	}
	if id, ok := ix.Index.(*ast.Ident); !ok || id.Name != name {
		return false
	}
	m := canon(ix.X, x.roles)
	if m == mapExpr {
		return true
	}
	if id, ok := ix.X.(*ast.Ident); ok && x.assigned[id.Name] == mapExpr {
		return true
	}
	return false
}

func (x *ex) ifStmt(is *ast.IfStmt) {
	if !mentions(is, x.h) {
		return
	}
	if is.Init != nil || is.Else != nil {
		bad(is, "if with init/else touching the hash")
	}
	cond := canon(is.Cond, x.roles)
	switch {
	case cond == "runtime" && x.guard == ".always":
		x.guard = ".runtime"
		x.block(is.Body.List)
		x.guard = ".always"
	case cond == "target.IsTest()" && x.guard == ".runtime":
		x.guard = ".runtimeTest"
		x.block(is.Body.List)
		x.guard = ".runtime"
	case cond == "len(target.Hashes) > 0" && x.guard == ".always":
		x.guard = ".hasHashes"
		x.block(is.Body.List)
		x.guard = ".always"
	case cond == "target.PassEnv != nil":
		// for _, env := range *target.PassEnv { write env; write {'='}; write os.Getenv(env) }
		if len(is.Body.List) != 1 {
			bad(is, "pass_env block")
		}
		r, ok := is.Body.List[0].(*ast.RangeStmt)
		if !ok || canon(r.X, x.roles) != "*target.PassEnv" {
			bad(is, "pass_env loop")
		}
		_, v := rangeVars(r)
		if len(r.Body.List) != 3 {
			bad(r, "pass_env loop body")
		}
		a0, a1, a2 := x.writeArg(r.Body.List[0]), x.writeArg(r.Body.List[1]), x.writeArg(r.Body.List[2])
		if a0 == nil || a1 == nil || a2 == nil {
			bad(r, "pass_env loop body")
		}
		if id, ok := byteConv(a0).(*ast.Ident); !ok || id.Name != v {
			bad(r, "pass_env: first write is not the name")
		}
		cl, ok := a1.(*ast.CompositeLit)
		if !ok {
			bad(r, "pass_env: separator is not a byte literal")
		}
		var sep []int
		for _, e := range cl.Elts {
			bl, ok := e.(*ast.BasicLit)
			if !ok {
				bad(r, "pass_env: separator element")
			}
			switch bl.Kind {
			case token.CHAR:
				s, _ := strconv.Unquote(bl.Value)
				sep = append(sep, int(s[0]))
			case token.INT:
				n, _ := strconv.ParseInt(bl.Value, 0, 32)
				sep = append(sep, int(n))
			default:
				bad(r, "pass_env: separator element")
			}
		}
		ge := byteConv(a2)
		if ge == nil || canon(ge, x.roles) != "os.Getenv("+v+")" {
			bad(r, "pass_env: third write is not os.Getenv(name)")
		}
		x.passEnvSep = sep
		x.emit(".passEnv")
	default:
		bad(is, "unrecognised condition around writes")
	}
}

// sortedAfterFill: in fn, is there a call `sort.<Fn>(v)` (v an identifier) after the last range loop?
func sortedAfterFill(fn *ast.FuncDecl, sortFns ...string) bool {
	lastRange, sortPos := token.NoPos, token.NoPos
	for _, s := range fn.Body.List {
		switch st := s.(type) {
		case *ast.RangeStmt:
			lastRange = st.Pos()
		case *ast.ExprStmt:
			if c, ok := st.X.(*ast.CallExpr); ok {
				if sel, ok := c.Fun.(*ast.SelectorExpr); ok {
					if p, ok := sel.X.(*ast.Ident); ok && p.Name == "sort" {
						for _, n := range sortFns {
							if sel.Sel.Name == n {
								sortPos = st.Pos()
							}
						}
					}
				}
			}
		}
	}
	return sortPos != token.NoPos && lastRange != token.NoPos && sortPos > lastRange
}

func byteVar(name string) []int {
	cl, ok := f.VarValue(name).(*ast.CompositeLit)
	if !ok {
		xlib.Unreadable("%s is not a composite literal", name)
	}
	var out []int
	for _, e := range cl.Elts {
		bl, ok := e.(*ast.BasicLit)
		if !ok || bl.Kind != token.INT {
			xlib.Unreadable("%s element is not an int literal", name)
		}
		v, _ := strconv.ParseInt(bl.Value, 0, 32)
		out = append(out, int(v))
	}
	return out
}

func main() {
	f = xlib.Parse("src/build/incrementality.go")
	fn := f.Func("ruleHash")
	var params []string
	for _, fl := range fn.Type.Params.List {
		for _, nm := range fl.Names {
			params = append(params, nm.Name)
		}
	}
	if len(params) != 3 {
		xlib.Unreadable("ruleHash: expected (state, target, runtime), found %d parameters", len(params))
	}
	x := &ex{roles: map[string]string{params[0]: "state", params[1]: "target", params[2]: "runtime"},
		guard: ".always", assigned: map[string]string{}, keys: map[string]*keyInfo{}}
	// h := sha1.New()
	algo := ""
	for _, s := range fn.Body.List {
		if as, ok := s.(*ast.AssignStmt); ok && len(as.Lhs) == 1 && len(as.Rhs) == 1 {
			if c, ok := as.Rhs[0].(*ast.CallExpr); ok {
				if sel, ok := c.Fun.(*ast.SelectorExpr); ok && sel.Sel.Name == "New" {
					x.h = as.Lhs[0].(*ast.Ident).Name
					algo = sel.X.(*ast.Ident).Name
				}
			}
			break
		}
	}
	if x.h == "" {
		xlib.Unreadable("ruleHash: hash object not found")
	}
	x.block(fn.Body.List[1:])
	if x.providesSorted == nil {
		xlib.Unreadable("ruleHash: provides idiom not found")
	}

	// hashMap: collect keys, sort.Strings, write key + sep + value
	hm := f.Func("hashMap")
	w, m := hm.Type.Params.List[0].Names[0].Name, hm.Type.Params.List[1].Names[0].Name
	hmSorted, hmSep, hmOK := false, "", false
	var keysName, loopVar string
	for _, s := range hm.Body.List {
		switch st := s.(type) {
		case *ast.RangeStmt:
			k, v := rangeVars(st)
			if id, ok := st.X.(*ast.Ident); ok && id.Name == m && v == "" {
				if as, ok := st.Body.List[0].(*ast.AssignStmt); ok {
					keysName = as.Lhs[0].(*ast.Ident).Name
				}
				_ = k
			} else if ok && id.Name == keysName {
				loopVar = v
				if len(st.Body.List) == 1 {
					if es, ok := st.Body.List[0].(*ast.ExprStmt); ok {
						got := canon(es.X, map[string]string{w: "w", m: "m", loopVar: "k"})
						for _, sep := range []string{"=", ":", "\x00"} {
							if got == `w.Write([]byte(k + `+strconv.Quote(sep)+` + m[k]))` {
								hmSep, hmOK = sep, true
							}
						}
					}
				}
			}
		case *ast.ExprStmt:
			if canon(st.X, map[string]string{keysName: "keys"}) == "sort.Strings(keys)" && loopVar == "" {
				hmSorted = true
			}
		}
	}
	if !hmOK {
		xlib.Unreadable("hashMap: unrecognised shape")
	}
	// hashBool / hashOptionalBool
	hb := f.Func("hashBool")
	if canon(hb.Body, map[string]string{hb.Type.Params.List[0].Names[0].Name: "w", hb.Type.Params.List[1].Names[0].Name: "b"}) !=
		"{ if b { w.Write(boolTrueHashValue) } else { w.Write(boolFalseHashValue) } }" {
		xlib.Unreadable("hashBool: unrecognised shape")
	}
	hob := f.Func("hashOptionalBool")
	if canon(hob.Body, map[string]string{hob.Type.Params.List[0].Names[0].Name: "w", hob.Type.Params.List[1].Names[0].Name: "b"}) !=
		"{ if b { hashBool(w, b) } }" {
		xlib.Unreadable("hashOptionalBool: unrecognised shape")
	}
	bt, bf := byteVar("boolTrueHashValue"), byteVar("boolFalseHashValue")

	// ---- accessors in core
	incr := f
	f = xlib.Parse("src/core/build_target.go")
	depsSorted := sortedAfterFill(f.Func("BuildTarget.DeclaredDependencies"), "Sort", "Stable")
	namesSorted := sortedAfterFill(f.Func("BuildTarget.DeclaredOutputNames"), "Strings")
	// allBuildInputs: keys collected, sorted, then appended in key order
	abi := f.Func("BuildTarget.allBuildInputs")
	inputsSorted := false
	{
		var firstRange, sortPos, secondRange token.Pos
		for _, s := range abi.Body.List {
			switch st := s.(type) {
			case *ast.RangeStmt:
				if firstRange == token.NoPos {
					firstRange = st.Pos()
				} else {
					secondRange = st.Pos()
				}
			case *ast.ExprStmt:
				if strings.HasPrefix(f.Src(st), "sort.Strings(") {
					sortPos = st.Pos()
				}
			}
		}
		if firstRange == token.NoPos || secondRange == token.NoPos {
			xlib.Unreadable("allBuildInputs: unrecognised shape")
		}
		inputsSorted = sortPos > firstRange && sortPos < secondRange
	}
	shape := func(name, want string) {
		fd := f.Func(name)
		roles := map[string]string{fd.Recv.List[0].Names[0].Name: "target"}
		for _, fl := range fd.Type.Params.List {
			for i, nm := range fl.Names {
				roles[nm.Name] = fmt.Sprintf("p%d", i)
			}
		}
		if got := canon(fd.Body, roles); got != want {
			xlib.Unreadable("%s has an unmodelled shape: %s", name, got)
		}
	}
	shape("BuildTarget.AllData", "{ if target.NamedData == nil { return target.Data } return target.allBuildInputs(target.Data, target.NamedData) }")
	shape("BuildTarget.GetCommand", "{ return target.getCommand(p0, target.Commands, target.Command) }")
	shape("BuildTarget.GetTestCommand", "{ return target.getCommand(p0, target.Test.Commands, target.Test.Command) }")
	shape("BuildTarget.DeclaredOutputs", "{ return target.outputs }")
	shape("BuildTarget.DeclaredNamedOutputs", "{ return target.namedOutputs }")
	shape("BuildTarget.IsTest", "{ return target.Test != nil }")

	var b strings.Builder
	b.WriteString("def facts : Facts := {\n  items := [\n")
	for i, it := range x.items {
		b.WriteString("    " + it)
		if i+1 < len(x.items) {
			b.WriteString(",")
		}
		b.WriteString("\n")
	}
	b.WriteString("  ],\n")
	fmt.Fprintf(&b, "  boolTrue := %s,\n  boolFalse := %s,\n  optBoolWritesFalse := false,\n", xlib.LeanNatList(bt), xlib.LeanNatList(bf))
	sepBytes := []int{}
	for _, c := range []byte(hmSep) {
		sepBytes = append(sepBytes, int(c))
	}
	fmt.Fprintf(&b, "  hashMapSorted := %s,\n  hashMapSep := %s,\n  passEnvSep := %s,\n", xlib.LeanBool(hmSorted), xlib.LeanNatList(sepBytes), xlib.LeanNatList(x.passEnvSep))
	if x.namedSrcsSorted == nil {
		xlib.Unreadable("ruleHash: named-sources idiom not found")
	}
	fmt.Fprintf(&b, "  providesSorted := %s,\n  depsSorted := %s,\n  outputNamesSorted := %s,\n  buildInputsSorted := %s,\n  namedSrcsSorted := %s }\n",
		xlib.LeanBool(*x.providesSorted), xlib.LeanBool(depsSorted), xlib.LeanBool(namesSorted), xlib.LeanBool(inputsSorted), xlib.LeanBool(*x.namedSrcsSorted))
	fmt.Fprintf(&b, "def hashAlgo : String := %s\n", xlib.LeanStr(algo))
	fmt.Fprintf(&b, "def earlyRuleHashCalls : List String := %s\n", xlib.LeanStrList(earlyRuleHashCalls()))
	write("C08", "import PlzVerif.Model.RuleHash", "open PlzVerif.RuleHash", incr.Path+", src/core/build_target.go", b.String())
}

func write(name, imports, opens, sources, body string) {
	s := imports + "\n-- REGENERATED from " + sources + " by /verif/harness/extract/" + strings.ToLower(name) +
		" on every run. Do not edit.\nnamespace PlzVerif.Generated." + name + "\n" + opens + "\n" + body +
		"end PlzVerif.Generated." + name + "\n"
	dir := os.Getenv("VERIF_GENERATED")
	if dir == "" {
		dir = "/verif/lean/PlzVerif/Generated"
	}
	os.MkdirAll(dir, 0o755)
	p := filepath.Join(dir, name+".lean")
	if old, err := os.ReadFile(p); err == nil && string(old) == s {
		return
	}
	if err := os.WriteFile(p, []byte(s), 0o644); err != nil {
		panic(err)
	}
}

// earlyRuleHashCalls: RuleHash memoises the pre-build rule hash in target.RuleHash on its first non-runtime call and
// nothing resets it, so the first such call must come AFTER the target's pre-build function has run (set_command,
// add_out, add_dep … change what is hashed).  This lists every call, in Build() before buildTarget() and in
// buildTarget() up to the RunPreBuildFunction call, of a function of package build that (transitively) reaches a
// memoising RuleHash call — call ARGUMENTS (e.g. of log statements) included, deferred closures excluded.
func earlyRuleHashCalls() []string {
	files, _ := filepath.Glob(filepath.Join(xlib.Repo(), "src/build/*.go"))
	funcs := map[string]*ast.FuncDecl{}
	var step *xlib.File
	for _, p := range files {
		if strings.HasSuffix(p, "_test.go") || strings.HasSuffix(p, "_verif.go") || strings.HasSuffix(p, "_noverif.go") {
			continue
		}
		rel, _ := filepath.Rel(xlib.Repo(), p)
		pf := xlib.Parse(rel)
		if filepath.Base(p) == "build_step.go" {
			step = pf
		}
		for _, d := range pf.AST.Decls {
			if fd, ok := d.(*ast.FuncDecl); ok && fd.Recv == nil && fd.Body != nil {
				funcs[fd.Name.Name] = fd
			}
		}
	}
	if step == nil || funcs["Build"] == nil || funcs["buildTarget"] == nil || funcs["RuleHash"] == nil {
		xlib.Unreadable("src/build: Build / buildTarget / RuleHash not found")
	}
	calleeName := func(c *ast.CallExpr) string {
		switch f := c.Fun.(type) {
		case *ast.Ident:
			return f.Name
		case *ast.SelectorExpr:
			if id, ok := f.X.(*ast.Ident); ok && id.Name == "build" {
				return f.Sel.Name
			}
		}
		return ""
	}
	// memo: functions that can memoise target.RuleHash
	memo := map[string]bool{}
	directly := func(n ast.Node) bool {
		hit := false
		ast.Inspect(n, func(x ast.Node) bool {
			if c, ok := x.(*ast.CallExpr); ok && calleeName(c) == "RuleHash" && len(c.Args) == 4 {
				if id, ok := c.Args[2].(*ast.Ident); !ok || id.Name != "true" { // runtime hashes are never memoised
					hit = true
				}
			}
			return !hit
		})
		return hit
	}
	for name, fd := range funcs {
		if name != "RuleHash" && directly(fd.Body) {
			memo[name] = true
		}
	}
	memo["RuleHash"] = true
	for changed := true; changed; {
		changed = false
		for name, fd := range funcs {
			if memo[name] {
				continue
			}
			ast.Inspect(fd.Body, func(x ast.Node) bool {
				if c, ok := x.(*ast.CallExpr); ok && memo[calleeName(c)] && calleeName(c) != "RuleHash" {
					memo[name], changed = true, true
				}
				return !memo[name]
			})
		}
	}
	var out []string
	scan := func(where string, n ast.Node) {
		ast.Inspect(n, func(x ast.Node) bool {
			switch y := x.(type) {
			case *ast.DeferStmt, *ast.FuncLit:
				return false // runs later
			case *ast.CallExpr:
				name := calleeName(y)
				if name == "RuleHash" && len(y.Args) == 4 {
					if id, ok := y.Args[2].(*ast.Ident); ok && id.Name == "true" {
						return true
					}
				}
				if memo[name] {
					out = append(out, where+": "+step.Src(y))
				}
			}
			return true
		})
	}
	contains := func(n ast.Node, fn string) bool {
		hit := false
		ast.Inspect(n, func(x ast.Node) bool {
			if c, ok := x.(*ast.CallExpr); ok {
				if calleeName(c) == fn {
					hit = true
				}
				if sel, ok := c.Fun.(*ast.SelectorExpr); ok && sel.Sel.Name == fn {
					hit = true
				}
			}
			return !hit
		})
		return hit
	}
	// Build(): everything before the statement that calls buildTarget
	found := false
	for _, st := range funcs["Build"].Body.List {
		if contains(st, "buildTarget") {
			found = true
			break
		}
		scan("Build", st)
	}
	if !found {
		xlib.Unreadable("Build: call of buildTarget not found")
	}
	// buildTarget(): everything up to the RunPreBuildFunction call
	found = false
	for _, st := range funcs["buildTarget"].Body.List {
		if contains(st, "RunPreBuildFunction") {
			is, ok := st.(*ast.IfStmt)
			if !ok {
				xlib.Unreadable("buildTarget: the pre-build call is not inside an if statement")
			}
			scan("buildTarget", is.Cond)
			for _, inner := range is.Body.List {
				if contains(inner, "RunPreBuildFunction") {
					break
				}
				scan("buildTarget", inner)
			}
			found = true
			break
		}
		scan("buildTarget", st)
	}
	if !found {
		xlib.Unreadable("buildTarget: RunPreBuildFunction call not found")
	}
	return out
}
