// Facts for C34 from src/fs/copy.go and src/fs/fs.go: the dispatch order of the walk callback in
// RecursiveCopyOrLinkFile, how a non-directory `from` is handled, CopyOrLinkFile's link / fallback structure,
// copySymlink, WriteFile's default mode, and the arguments RecursiveCopy / RecursiveLink pass.
package main

import (
	"go/ast"
	"go/token"
	"strconv"
	"strings"

	"verif/harness/xlib"
)

func sel(e ast.Expr) string {
	switch x := e.(type) {
	case *ast.Ident:
		return x.Name
	case *ast.SelectorExpr:
		if s := sel(x.X); s != "" {
			return s + "." + x.Sel.Name
		}
	}
	return ""
}

// callName of `return f(...)`
func retCall(s ast.Stmt) (*ast.CallExpr, bool) {
	rs, ok := s.(*ast.ReturnStmt)
	if !ok || len(rs.Results) != 1 {
		return nil, false
	}
	ce, ok := rs.Results[0].(*ast.CallExpr)
	return ce, ok
}

func main() {
	f := xlib.Parse("src/fs/copy.go")

	// ---- RecursiveCopyOrLinkFile
	fn := f.Func("RecursiveCopyOrLinkFile")
	var params []string
	for _, fl := range fn.Type.Params.List {
		for _, n := range fl.Names {
			params = append(params, n.Name)
		}
	}
	if len(params) != 5 {
		xlib.Unreadable("RecursiveCopyOrLinkFile: expected 5 parameters")
	}
	from, to := params[0], params[1]
	usesLstat := false
	var order []string
	topSymlinkAware := false
	destExpr := ""
	var dirIf *ast.IfStmt
	infoVar := ""
	for i, st := range fn.Body.List {
		switch s := st.(type) {
		case *ast.AssignStmt:
			if len(s.Rhs) == 1 {
				if ce, ok := s.Rhs[0].(*ast.CallExpr); ok && (sel(ce.Fun) == "os.Lstat" || sel(ce.Fun) == "os.Stat") && len(ce.Args) == 1 && sel(ce.Args[0]) == from {
					usesLstat = sel(ce.Fun) == "os.Lstat"
					infoVar = sel(s.Lhs[0])
					continue
				}
			}
		case *ast.IfStmt:
			src := f.Src(s.Cond)
			if src == "err != nil" {
				continue
			}
			if src == infoVar+".IsDir()" && dirIf == nil {
				dirIf = s
				continue
			}
			// a symlink test on the top-level entry, of exactly this form, whose body is `return copySymlink(from, to)`
			if dirIf != nil && s.Else == nil && s.Init == nil && len(s.Body.List) == 1 &&
				(src == infoVar+".Mode()&os.ModeSymlink != 0" || src == "("+infoVar+".Mode() & os.ModeSymlink) != 0") {
				if ce, ok := retCall(s.Body.List[0]); ok && sel(ce.Fun) == "copySymlink" && len(ce.Args) == 2 &&
					sel(ce.Args[0]) == from && sel(ce.Args[1]) == to {
					topSymlinkAware = true
					continue
				}
			}
		case *ast.ReturnStmt:
			if ce, ok := retCall(s); ok && i == len(fn.Body.List)-1 && sel(ce.Fun) == "CopyOrLinkFile" && len(ce.Args) == 6 &&
				sel(ce.Args[0]) == from && sel(ce.Args[1]) == to && f.Src(ce.Args[2]) == infoVar+".Mode()" {
				continue
			}
		}
		xlib.Unreadable("RecursiveCopyOrLinkFile: unexpected statement (line %d): %s", f.Line(st), f.Src(st))
	}
	if dirIf == nil || len(dirIf.Body.List) != 1 {
		xlib.Unreadable("RecursiveCopyOrLinkFile: `if info.IsDir() { return WalkMode(...) }` not found")
	}
	wc, ok := retCall(dirIf.Body.List[0])
	if !ok || sel(wc.Fun) != "WalkMode" || len(wc.Args) != 2 || sel(wc.Args[0]) != from {
		xlib.Unreadable("RecursiveCopyOrLinkFile: directory branch does not return WalkMode(from, callback)")
	}
	cb, ok := wc.Args[1].(*ast.FuncLit)
	if !ok || cb.Type.Params.NumFields() != 2 {
		xlib.Unreadable("RecursiveCopyOrLinkFile: walk callback is not a two-parameter function literal")
	}
	var cbp []string
	for _, fl := range cb.Type.Params.List {
		for _, n := range fl.Names {
			cbp = append(cbp, n.Name)
		}
	}
	name, fm := cbp[0], cbp[1]
	destVar := ""
	for _, st := range cb.Body.List {
		switch s := st.(type) {
		case *ast.AssignStmt:
			if s.Tok == token.DEFINE && len(s.Lhs) == 1 && len(s.Rhs) == 1 && destVar == "" {
				destVar = sel(s.Lhs[0])
				destExpr = strings.NewReplacer(to, "$to", name, "$name", from, "$from").Replace(f.Src(s.Rhs[0]))
				continue
			}
		case *ast.IfStmt:
			if len(s.Body.List) == 1 && s.Else == nil {
				if ce, ok := retCall(s.Body.List[0]); ok {
					switch f.Src(s.Cond) + " -> " + sel(ce.Fun) {
					case fm + ".IsDir() -> os.MkdirAll":
						if len(ce.Args) == 2 && sel(ce.Args[0]) == destVar {
							order = append(order, "dir:MkdirAll")
							continue
						}
					case fm + ".IsSymlink() -> copySymlink":
						if len(ce.Args) == 2 && sel(ce.Args[0]) == name && sel(ce.Args[1]) == destVar {
							order = append(order, "symlink:copySymlink")
							continue
						}
					}
				}
			}
		case *ast.ReturnStmt:
			if ce, ok := retCall(s); ok && sel(ce.Fun) == "CopyOrLinkFile" && len(ce.Args) == 6 && sel(ce.Args[0]) == name &&
				sel(ce.Args[1]) == destVar && f.Src(ce.Args[2]) == fm+".ModeType()" {
				order = append(order, "else:CopyOrLinkFile")
				continue
			}
		}
		xlib.Unreadable("RecursiveCopyOrLinkFile callback: unexpected statement (line %d): %s", f.Line(st), f.Src(st))
	}

	// ---- CopyOrLinkFile
	col := f.Func("CopyOrLinkFile")
	cs := f.Src(col.Body)
	linkRecreates := strings.Contains(cs, "if (fromMode & os.ModeSymlink) != 0 {") && strings.Contains(cs, "os.Readlink(from)") &&
		strings.Contains(cs, "return os.Symlink(dest, to)")
	linkThenFallback := strings.Contains(cs, "if err := os.Link(from, to); err == nil || !fallback { return err }")
	fallbackSourceMode := strings.Contains(cs, "info, err := os.Lstat(from)") && strings.Contains(cs, "toMode = info.Mode()")
	endsWithCopy := strings.HasSuffix(strings.TrimSpace(strings.TrimSuffix(strings.TrimSpace(cs), "}")), "return CopyFile(from, to, toMode)")
	linkGuard := strings.HasPrefix(strings.TrimSpace(strings.TrimPrefix(strings.TrimSpace(cs), "{")), "if link {")

	// ---- copySymlink
	ss := f.Src(f.Func("copySymlink").Body)
	symlinkVerbatim := strings.Contains(ss, ":= os.Readlink(name)") && strings.Contains(ss, "return os.Symlink(resolvedPath, dest)")

	// ---- RecursiveCopy / RecursiveLink
	argsOf := func(fnName string) string {
		d := f.Func(fnName)
		if len(d.Body.List) != 1 {
			xlib.Unreadable("%s: expected a single return", fnName)
		}
		ce, ok := retCall(d.Body.List[0])
		if !ok || sel(ce.Fun) != "RecursiveCopyOrLinkFile" || len(ce.Args) != 5 {
			xlib.Unreadable("%s does not return RecursiveCopyOrLinkFile(...)", fnName)
		}
		var a []string
		for _, x := range ce.Args[2:] {
			a = append(a, f.Src(x))
		}
		return strings.Join(a, ",")
	}
	rcArgs, rlArgs := argsOf("RecursiveCopy"), argsOf("RecursiveLink")

	// ---- WriteFile / CopyFile in fs.go
	g := xlib.Parse("src/fs/fs.go")
	defaultMode := -1
	ast.Inspect(g.Func("WriteFile").Body, func(n ast.Node) bool {
		if is, ok := n.(*ast.IfStmt); ok && g.Src(is.Cond) == "mode == 0" && len(is.Body.List) == 1 {
			if as, ok := is.Body.List[0].(*ast.AssignStmt); ok && len(as.Rhs) == 1 {
				if bl, ok := as.Rhs[0].(*ast.BasicLit); ok && bl.Kind == token.INT {
					if v, err := strconv.ParseInt(bl.Value, 0, 64); err == nil {
						defaultMode = int(v)
					}
				}
			}
		}
		return true
	})
	ws := g.Src(g.Func("WriteFile").Body)
	// temp file NEXT TO the destination (`dir, file := filepath.Split(to)` ... `os.CreateTemp(dir, file)`), chmod, rename:
	// only then is rename(2) on one file system and never falls back to renameFile's in-place copy
	tempThenRename := strings.Contains(ws, ":= filepath.Split(to)") && strings.Contains(ws, "os.CreateTemp(dir, file)") &&
		strings.Contains(ws, "os.Chmod(tempFile.Name(), mode)") && strings.Contains(ws, "return renameFile(tempFile.Name(), to)")
	tempElsewhere := !tempThenRename && strings.Contains(ws, "os.CreateTemp(") && strings.Contains(ws, "return renameFile(tempFile.Name(), to)")
	writesInPlace := strings.Contains(ws, "os.Create(to)") || strings.Contains(ws, "os.OpenFile(to")
	if !tempThenRename && !writesInPlace && !tempElsewhere {
		xlib.Unreadable("WriteFile: neither temp-file-next-to-destination + rename, nor a temp file elsewhere, nor an in-place os.Create/OpenFile(to)")
	}
	cfs := g.Src(g.Func("CopyFile").Body)
	copyOpens := strings.Contains(cfs, "os.Open(from)") && strings.Contains(cfs, "return WriteFile(fromFile, to, mode)")

	for what, ok := range map[string]bool{"CopyOrLinkFile starts with `if link {`": linkGuard,
		"CopyOrLinkFile: os.Link then `err == nil || !fallback`": linkThenFallback, "CopyOrLinkFile ends with CopyFile(from, to, toMode)": endsWithCopy,
		"CopyFile opens from and calls WriteFile": copyOpens,
		"WriteFile default mode literal": defaultMode >= 0, "callback computes dest": destExpr != ""} {
		if !ok {
			xlib.Unreadable("shape not recognised: %s", what)
		}
	}

	out := xlib.NewOut("C34", f.Path, g.Path)
	out.Def("usesLstat", "Bool", xlib.LeanBool(usesLstat))
	out.Def("callbackOrder", "List String", xlib.LeanStrList(order))
	out.Def("destExpr", "String", xlib.LeanStr(destExpr))
	out.Def("topLevelSymlinkAware", "Bool", xlib.LeanBool(topSymlinkAware))
	out.Def("linkRecreatesSymlink", "Bool", xlib.LeanBool(linkRecreates))
	out.Def("fallbackUsesSourceMode", "Bool", xlib.LeanBool(fallbackSourceMode))
	out.Def("symlinkVerbatim", "Bool", xlib.LeanBool(symlinkVerbatim))
	out.Def("defaultMode", "Nat", strconv.Itoa(defaultMode))
	out.Def("tempThenRename", "Bool", xlib.LeanBool(tempThenRename))
	out.Def("recursiveCopyArgs", "String", xlib.LeanStr(rcArgs))
	out.Def("recursiveLinkArgs", "String", xlib.LeanStr(rlArgs))
	out.Write()
}
