// Facts for C36 from src/core/build_target.go and src/core/state.go: the wildcard and separator literals,
// the implicit test label, the order of the include and exclude loops in BuildTarget.ShouldInclude, the
// default when no include is given, and which tests BuildState.ShouldInclude / expandOriginalPseudoTarget use.
package main

import (
	"go/ast"
	"go/token"
	"sort"
	"strconv"
	"strings"

	"verif/harness/xlib"
)

func strLit(e ast.Expr) (string, bool) {
	if b, ok := e.(*ast.BasicLit); ok && (b.Kind == token.STRING || b.Kind == token.CHAR) {
		if s, err := strconv.Unquote(b.Value); err == nil {
			return s, true
		}
	}
	return "", false
}

func literals(n ast.Node) []string {
	set := map[string]bool{}
	ast.Inspect(n, func(nd ast.Node) bool {
		if b, ok := nd.(*ast.BasicLit); ok {
			if s, ok := strLit(b); ok {
				set[s] = true
			}
		}
		return true
	})
	out := []string{}
	for k := range set {
		out = append(out, k)
	}
	sort.Strings(out)
	return out
}

func calls(f *xlib.File, n ast.Node, name string) []*ast.CallExpr {
	var out []*ast.CallExpr
	ast.Inspect(n, func(nd ast.Node) bool {
		if c, ok := nd.(*ast.CallExpr); ok && f.Src(c.Fun) == name {
			out = append(out, c)
		}
		return true
	})
	return out
}

func methodCalls(n ast.Node, name string) []*ast.CallExpr {
	var out []*ast.CallExpr
	ast.Inspect(n, func(nd ast.Node) bool {
		if c, ok := nd.(*ast.CallExpr); ok {
			if s, ok := c.Fun.(*ast.SelectorExpr); ok && s.Sel.Name == name {
				out = append(out, c)
			}
		}
		return true
	})
	return out
}

func paramNames(fn *ast.FuncDecl) []string {
	var ps []string
	for _, fl := range fn.Type.Params.List {
		for _, nm := range fl.Names {
			ps = append(ps, nm.Name)
		}
	}
	return ps
}

func main() {
	bt := xlib.Parse("src/core/build_target.go")
	st := xlib.Parse("src/core/state.go")
	bl := xlib.Parse("src/core/build_label.go")
	out := xlib.NewOut("C36", bt.Path, st.Path, bl.Path)

	// match(pattern, s): equality, HasSuffix(pattern, "*"), HasPrefix(s, pattern[:len(pattern)-1])
	m := bt.Func("match")
	mp := paramNames(m)
	if len(mp) != 2 {
		xlib.Unreadable("match: expected two parameters")
	}
	suf, pre := calls(bt, m, "strings.HasSuffix"), calls(bt, m, "strings.HasPrefix")
	if len(suf) != 1 || len(pre) != 1 {
		xlib.Unreadable("match: expected one HasSuffix and one HasPrefix")
	}
	star, ok := strLit(suf[0].Args[1])
	if !ok || len(star) != 1 {
		xlib.Unreadable("match: wildcard is not a one-character literal")
	}
	out.Def("star", "Char", xlib.LeanChar(rune(star[0])))
	role := func(e ast.Expr) string {
		if id, ok := e.(*ast.Ident); ok {
			for i, p := range mp {
				if p == id.Name {
					return "param" + strconv.Itoa(i)
				}
			}
		}
		if sl, ok := e.(*ast.SliceExpr); ok {
			if id, ok := sl.X.(*ast.Ident); ok {
				for i, p := range mp {
					if p == id.Name {
						hi := ""
						if sl.High != nil {
							hi = strings.ReplaceAll(bt.Src(sl.High), id.Name, "P")
						}
						lo := ""
						if sl.Low != nil {
							lo = bt.Src(sl.Low)
						}
						return "param" + strconv.Itoa(i) + "[" + lo + ":" + hi + "]"
					}
				}
			}
		}
		return "other"
	}
	out.Def("matchSuffixOf", "String", xlib.LeanStr(role(suf[0].Args[0])))
	out.Def("matchPrefixArgs", "List String", xlib.LeanStrList([]string{role(pre[0].Args[0]), role(pre[0].Args[1])}))
	eq := false
	ast.Inspect(m.Body, func(nd ast.Node) bool {
		if b, ok := nd.(*ast.BinaryExpr); ok && b.Op == token.EQL && role(b.X) != "other" && role(b.Y) != "other" {
			eq = true
		}
		return true
	})
	out.Def("matchHasEquality", "Bool", xlib.LeanBool(eq))

	// HasLabel: match(label, l) with the queried label as the pattern; implicit test label
	hl := bt.Func("BuildTarget.HasLabel")
	hp := paramNames(hl)
	mc := calls(bt, hl, "match")
	if len(mc) != 1 || len(hp) != 1 {
		xlib.Unreadable("HasLabel: expected one call of match and one parameter")
	}
	out.Def("hasLabelPatternIsQuery", "Bool", xlib.LeanBool(bt.Src(mc[0].Args[0]) == hp[0]))
	tl := ""
	ast.Inspect(hl.Body, func(nd ast.Node) bool {
		if b, ok := nd.(*ast.BinaryExpr); ok && b.Op == token.EQL {
			for _, e := range []ast.Expr{b.X, b.Y} {
				if s, ok := strLit(e); ok {
					tl = s
				}
			}
		}
		return true
	})
	out.Def("testLabel", "String", xlib.LeanStr(tl))
	out.Def("testLabelNeedsIsTest", "Bool", xlib.LeanBool(len(methodCalls(hl, "IsTest")) == 1))
	// HasAllLabels: `if !target.HasLabel(x) { return false }` in a loop, `return true` at the end
	hal := bt.Func("BuildTarget.HasAllLabels")
	halShape := []string{}
	ast.Inspect(hal.Body, func(nd ast.Node) bool {
		switch x := nd.(type) {
		case *ast.RangeStmt:
			halShape = append(halShape, "range")
		case *ast.UnaryExpr:
			if x.Op == token.NOT && len(methodCalls(x.X, "HasLabel")) == 1 {
				halShape = append(halShape, "not-HasLabel")
			}
		case *ast.ReturnStmt:
			if len(x.Results) == 1 {
				halShape = append(halShape, "return "+bt.Src(x.Results[0]))
			}
		}
		return true
	})
	out.Def("hasAllLabelsShape", "List String", xlib.LeanStrList(halShape))

	// BuildTarget.ShouldInclude: order of the loops over the two parameters, separator, default
	si := bt.Func("BuildTarget.ShouldInclude")
	sp := paramNames(si)
	if len(sp) != 2 {
		xlib.Unreadable("ShouldInclude: expected two parameters")
	}
	order := []string{}
	assigns := []string{}
	for _, stmt := range si.Body.List {
		if rs, ok := stmt.(*ast.RangeStmt); ok {
			x := bt.Src(rs.X)
			which := "other"
			if x == sp[0] {
				which = "includes"
			} else if x == sp[1] {
				which = "excludes"
			}
			order = append(order, which)
			val := ""
			ast.Inspect(rs.Body, func(nd ast.Node) bool {
				if as, ok := nd.(*ast.AssignStmt); ok && len(as.Rhs) == 1 {
					val = bt.Src(as.Rhs[0])
				}
				return true
			})
			brk := false
			ast.Inspect(rs.Body, func(nd ast.Node) bool {
				if b, ok := nd.(*ast.BranchStmt); ok && b.Tok == token.BREAK {
					brk = true
				}
				return true
			})
			assigns = append(assigns, which+"="+val+map[bool]string{true: ";break", false: ""}[brk])
			if len(methodCalls(rs.Body, "HasAllLabels")) != 1 {
				xlib.Unreadable("ShouldInclude: a loop does not test HasAllLabels")
			}
		}
	}
	out.Def("loopOrder", "List String", xlib.LeanStrList(order))
	out.Def("loopAssigns", "List String", xlib.LeanStrList(assigns))
	seps := map[string]bool{}
	for _, c := range calls(bt, si, "strings.Split") {
		if s, ok := strLit(c.Args[1]); ok {
			seps[s] = true
		}
	}
	if len(seps) != 1 {
		xlib.Unreadable("ShouldInclude: expected one separator literal")
	}
	for s := range seps {
		if len(s) != 1 {
			xlib.Unreadable("ShouldInclude: separator is not one character")
		}
		out.Def("sep", "Char", xlib.LeanChar(rune(s[0])))
	}
	// default: the variable returned is initialised with `len(includes) == 0`
	def := ""
	for _, stmt := range si.Body.List {
		if as, ok := stmt.(*ast.AssignStmt); ok && as.Tok == token.DEFINE && len(as.Rhs) == 1 {
			def = strings.ReplaceAll(bt.Src(as.Rhs[0]), sp[0], "INCLUDES")
		}
	}
	out.Def("defaultInit", "String", xlib.LeanStr(def))
	early := ""
	if is, ok := si.Body.List[0].(*ast.IfStmt); ok {
		early = strings.ReplaceAll(strings.ReplaceAll(bt.Src(is.Cond), sp[0], "INCLUDES"), sp[1], "EXCLUDES")
	}
	out.Def("earlyReturnCond", "String", xlib.LeanStr(early))

	// BuildState.ShouldInclude: ExcludeTargets through Includes, then the label filter with Include/Exclude
	ss := st.Func("BuildState.ShouldInclude")
	exclVia := ""
	for _, stmt := range ss.Body.List {
		if rs, ok := stmt.(*ast.RangeStmt); ok && strings.HasSuffix(st.Src(rs.X), "ExcludeTargets") {
			for _, nm := range []string{"Includes", "Matches"} {
				if len(methodCalls(rs.Body, nm)) == 1 {
					exclVia += nm
				}
			}
			ast.Inspect(rs.Body, func(nd ast.Node) bool {
				if r, ok := nd.(*ast.ReturnStmt); ok && len(r.Results) == 1 {
					exclVia += ":" + st.Src(r.Results[0])
				}
				return true
			})
		}
	}
	out.Def("stateExcludeTargetsVia", "String", xlib.LeanStr(exclVia))
	tail := ""
	if r, ok := ss.Body.List[len(ss.Body.List)-1].(*ast.ReturnStmt); ok && len(r.Results) == 1 {
		if c, ok := r.Results[0].(*ast.CallExpr); ok && len(c.Args) == 2 {
			if s, ok := c.Fun.(*ast.SelectorExpr); ok {
				a0, a1 := st.Src(c.Args[0]), st.Src(c.Args[1])
				tail = s.Sel.Name + "(" + a0[strings.LastIndex(a0, ".")+1:] + "," + a1[strings.LastIndex(a1, ".")+1:] + ")"
			}
		}
	}
	out.Def("stateTailCall", "String", xlib.LeanStr(tail))

	// SetIncludeAndExclude: label-like excludes become ExcludeTargets
	sie := st.Func("BuildState.SetIncludeAndExclude")
	out.Def("setSplitsOnLooksLike", "Bool", xlib.LeanBool(len(calls(st, sie, "LooksLikeABuildLabel")) == 1 && len(calls(st, sie, "parseMaybeRelativeBuildLabel")) == 1))
	out.Def("looksLikeLits", "List String", xlib.LeanStrList(literals(bl.Func("LooksLikeABuildLabel").Body)))

	// expandOriginalPseudoTarget
	ex := st.Func("BuildState.expandOriginalPseudoTarget")
	cond := ""
	ast.Inspect(ex.Body, func(nd ast.Node) bool {
		if is, ok := nd.(*ast.IfStmt); ok && len(methodCalls(is.Cond, "ShouldInclude")) == 1 {
			cond = st.Src(is.Cond)
		}
		return true
	})
	cond = strings.Join(strings.Fields(cond), " ")
	shape := []string{}
	if len(methodCalls(ex, "ShouldInclude")) == 1 {
		shape = append(shape, "ShouldInclude")
	}
	if strings.Contains(cond, "&& (!") && len(methodCalls(ex, "IsTest")) == 1 {
		shape = append(shape, "and(not-justTests-or-IsTest)")
	}
	if len(methodCalls(ex, "IsAllTargets")) == 1 && len(methodCalls(ex, "PackageByLabel")) == 1 {
		shape = append(shape, "all:PackageByLabel")
	}
	if len(methodCalls(ex, "PackageMap")) == 1 && len(methodCalls(ex, "Includes")) == 1 {
		shape = append(shape, "subtree:PackageMap+Includes")
	}
	if len(calls(st, ex, "sort.Sort")) == 1 {
		shape = append(shape, "sorted")
	}
	out.Def("expandShape", "List String", xlib.LeanStrList(shape))
	out.Write()
}
