// Facts for C21 from src/fs/glob.go and src/parse/asp/builtins.go:
//   * toRegexString: the wrap ("^" + pattern + "$") and the ordered chain of strings.ReplaceAll(pattern, A, B) calls
//     (the Lean model *interprets* this list);
//   * patternToMatcher: the literal that selects the regexp matcher and that the builtin matcher is used when it is absent;
//   * walkDir: the plz-out literal and its `rootPath == "."` guard, the sub-package test, symlink bucket;
//   * glob: the three filters (sub-packages, hidden, excludes); isInDirectories / isHidden shapes;
//   * builtins.go glob(): BUILD file names appended to the excludes.
package main

import (
	"go/ast"
	"go/token"
	"strconv"
	"strings"

	"verif/harness/xlib"
)

func strLit(e ast.Expr) (string, bool) {
	bl, ok := e.(*ast.BasicLit)
	if !ok || bl.Kind != token.STRING {
		return "", false
	}
	s, err := strconv.Unquote(bl.Value)
	return s, err == nil
}

func sel(e ast.Expr) string {
	switch x := e.(type) {
	case *ast.Ident:
		return x.Name
	case *ast.SelectorExpr:
		if s := sel(x.X); s != "" {
			return s + "." + x.Sel.Name
		}
	}
	return ""
}

func chars(s string) string { return xlib.LeanCharList([]rune(s)) }

func main() {
	f := xlib.Parse("src/fs/glob.go")

	// ---- toRegexString
	fn := f.Func("toRegexString")
	if fn.Type.Params.NumFields() != 1 || len(fn.Type.Params.List[0].Names) != 1 {
		xlib.Unreadable("toRegexString: expected one parameter")
	}
	pv := fn.Type.Params.List[0].Names[0].Name
	var wrapL, wrapR string
	var reps [][2]string
	wrapped, returned := false, false
	for _, st := range fn.Body.List {
		switch s := st.(type) {
		case *ast.AssignStmt:
			if len(s.Lhs) != 1 || len(s.Rhs) != 1 || sel(s.Lhs[0]) != pv || s.Tok != token.ASSIGN {
				xlib.Unreadable("toRegexString: unexpected assignment (line %d)", f.Line(st))
			}
			switch r := s.Rhs[0].(type) {
			case *ast.BinaryExpr: // "^" + pattern + "$"
				inner, ok := r.X.(*ast.BinaryExpr)
				if !ok || r.Op != token.ADD || inner.Op != token.ADD || sel(inner.Y) != pv || wrapped || len(reps) > 0 {
					xlib.Unreadable("toRegexString: unexpected wrap expression (line %d)", f.Line(st))
				}
				l, ok1 := strLit(inner.X)
				rr, ok2 := strLit(r.Y)
				if !ok1 || !ok2 {
					xlib.Unreadable("toRegexString: wrap is not literal + pattern + literal")
				}
				wrapL, wrapR, wrapped = l, rr, true
			case *ast.CallExpr:
				if sel(r.Fun) != "strings.ReplaceAll" || len(r.Args) != 3 || sel(r.Args[0]) != pv {
					xlib.Unreadable("toRegexString: unexpected call (line %d): %s", f.Line(st), f.Src(r))
				}
				a, ok1 := strLit(r.Args[1])
				b, ok2 := strLit(r.Args[2])
				if !ok1 || !ok2 || a == "" {
					xlib.Unreadable("toRegexString: ReplaceAll with non-literal arguments (line %d)", f.Line(st))
				}
				reps = append(reps, [2]string{a, b})
			default:
				xlib.Unreadable("toRegexString: unexpected statement (line %d)", f.Line(st))
			}
		case *ast.ReturnStmt:
			if len(s.Results) != 1 || sel(s.Results[0]) != pv {
				xlib.Unreadable("toRegexString: unexpected return")
			}
			returned = true
		default:
			xlib.Unreadable("toRegexString: unexpected statement (line %d)", f.Line(st))
		}
	}
	if !wrapped || !returned {
		xlib.Unreadable("toRegexString: wrap or return not found")
	}

	// ---- patternToMatcher
	pm := f.Func("patternToMatcher")
	doubleStar, builtinWhenAbsent, joinsRoot := "", false, false
	ast.Inspect(pm.Body, func(n ast.Node) bool {
		switch x := n.(type) {
		case *ast.IfStmt:
			if u, ok := x.Cond.(*ast.UnaryExpr); ok && u.Op == token.NOT {
				if ce, ok := u.X.(*ast.CallExpr); ok && sel(ce.Fun) == "strings.Contains" && len(ce.Args) == 2 {
					if s, ok := strLit(ce.Args[1]); ok {
						doubleStar = s
						builtinWhenAbsent = strings.Contains(f.Src(x.Body), "builtInGlob(")
					}
				}
			}
		case *ast.CallExpr:
			if sel(x.Fun) == "filepath.Join" && len(x.Args) == 2 {
				joinsRoot = true
			}
		}
		return true
	})
	if doubleStar == "" {
		xlib.Unreadable("patternToMatcher: `if !strings.Contains(pattern, <literal>)` not found")
	}
	regexFromFull := strings.Contains(f.Src(pm.Body), "regexp.Compile(toRegexString(")

	// ---- walkDir
	wd := f.Func("Globber.walkDir")
	outDir, outGuardDot := "", false
	subPkgSkip := false
	ast.Inspect(wd.Body, func(n ast.Node) bool {
		is, ok := n.(*ast.IfStmt)
		if !ok {
			return true
		}
		src := f.Src(is.Cond)
		if be, ok := is.Cond.(*ast.BinaryExpr); ok && be.Op == token.LAND {
			for _, side := range []ast.Expr{be.X, be.Y} {
				if c, ok := side.(*ast.BinaryExpr); ok && c.Op == token.EQL {
					if s, ok := strLit(c.Y); ok {
						if strings.HasSuffix(f.Src(c.X), ".Name()") {
							outDir = s
						} else if s == "." {
							outGuardDot = true
						}
					}
				}
			}
		}
		if strings.HasPrefix(src, "isBuildFile(") && strings.Contains(f.Src(is.Body), "subPackages = append(") &&
			strings.Contains(f.Src(is.Body), "return filepath.SkipDir") && strings.Contains(f.Src(is.Body), "!= rootPath") {
			subPkgSkip = true
		}
		return true
	})
	if outDir == "" {
		xlib.Unreadable("walkDir: `d.Name() == <literal> && rootPath == \".\"` not found")
	}
	symlinkBucket := strings.Contains(f.Src(wd.Body), "IsSymlink()") && strings.Contains(f.Src(wd.Body), "dir.symlinks = append(")

	// ---- glob: the filters
	gl := f.Src(f.Func("Globber.glob").Body)
	filterSub := strings.Contains(gl, "if isInDirectories(m, walkedDir.subPackages) { continue }")
	// where hidden entries are dropped, and what the walk cache is keyed by (facts of the Globber state machine)
	hiddenPerMatch := strings.Contains(gl, "if !includeHidden && isHidden(m) { continue }")
	hiddenAtWalk := strings.Contains(f.Src(wd.Body), "isHidden(")
	keyHasHidden, keySeen := false, false
	var wdParams []string
	for _, fl := range wd.Type.Params.List {
		for _, n := range fl.Names {
			wdParams = append(wdParams, n.Name)
		}
	}
	ast.Inspect(wd.Body, func(n ast.Node) bool {
		ix, ok := n.(*ast.IndexExpr)
		if !ok || !strings.HasSuffix(sel(ix.X), ".walkedDirs") {
			return true
		}
		keySeen = true
		if id, ok := ix.Index.(*ast.Ident); ok && len(wdParams) > 0 && id.Name == wdParams[0] {
			return true // keyed by the root path alone
		}
		src := f.Src(ix.Index)
		mentions := false
		for _, p := range wdParams[1:] {
			if strings.Contains(src, p) {
				mentions = true
			}
		}
		if !mentions {
			xlib.Unreadable("walkDir: cache key %s is neither the root path nor built from the other parameters", src)
		}
		keyHasHidden = true
		return true
	})
	if !keySeen {
		xlib.Unreadable("walkDir: no look-up in globber.walkedDirs found")
	}
	filterExcl := strings.Contains(gl, "shouldExcludeMatch(rootPath, m, excludes)") && strings.Contains(gl, "if shouldExclude { continue }")

	// ---- isInDirectories, isHidden
	ind := f.Src(f.Func("isInDirectories").Body)
	inDirsComponent := strings.Contains(ind, `strings.HasPrefix(name, dir+"/") || name == dir`)
	hid := f.Func("isHidden")
	var hiddenPrefix, wrapP, wrapS string
	hiddenOnBase := strings.Contains(f.Src(hid.Body), ":= filepath.Base(")
	ast.Inspect(hid.Body, func(n ast.Node) bool {
		if rs, ok := n.(*ast.ReturnStmt); ok && len(rs.Results) == 1 {
			if or, ok := rs.Results[0].(*ast.BinaryExpr); ok && or.Op == token.LOR {
				if ce, ok := or.X.(*ast.CallExpr); ok && sel(ce.Fun) == "strings.HasPrefix" {
					hiddenPrefix, _ = strLit(ce.Args[1])
				}
				y := or.Y
				if p, ok := y.(*ast.ParenExpr); ok {
					y = p.X
				}
				if and, ok := y.(*ast.BinaryExpr); ok && and.Op == token.LAND {
					if a, ok := and.X.(*ast.CallExpr); ok && sel(a.Fun) == "strings.HasPrefix" {
						wrapP, _ = strLit(a.Args[1])
					}
					if b, ok := and.Y.(*ast.CallExpr); ok && sel(b.Fun) == "strings.HasSuffix" {
						wrapS, _ = strLit(b.Args[1])
					}
				}
			}
		}
		return true
	})
	if hiddenPrefix == "" || wrapP == "" || wrapP != wrapS {
		xlib.Unreadable("isHidden: expected HasPrefix(file, p) || (HasPrefix(file, w) && HasSuffix(file, w))")
	}

	// ---- shouldExcludeMatch, isBuildFile, the two Match methods
	se := f.Src(f.Func("shouldExcludeMatch").Body)
	excludeShape := strings.Contains(se, "if isBathPathOf(match, filepath.Join(root, excl)) { return true, nil }") &&
		strings.Contains(se, "if strings.ContainsRune(match, '/') && !strings.ContainsRune(excl, '/') { m = filepath.Base(match) rootPath = \"\" }") &&
		strings.Contains(se, "matcher, err := patternToMatcher(rootPath, excl)") && strings.Contains(se, "match, err := matcher.Match(m)")
	bp := f.Src(f.Func("isBathPathOf").Body)
	basePathShape := strings.Contains(bp, "if !strings.HasPrefix(path, base) { return false }") &&
		strings.Contains(bp, `return rest == "" || rest[0] == filepath.Separator`)
	ib := f.Src(f.Func("isBuildFile").Body)
	buildFileShape := strings.Contains(ib, ":= filepath.Base(name)") && strings.Contains(ib, "== buildFileName { return true }")
	regexUnanchored := strings.Contains(f.Src(f.Func("regexGlob.Match").Body), ".regex.MatchString(name)")
	builtinIsFilepathMatch := strings.Contains(f.Src(f.Func("builtInGlob.Match").Body), "filepath.Match(string(p), name)")

	// ---- builtins.go: glob() appends the BUILD file names to the excludes and calls Globber.Glob with the package name
	b := xlib.Parse("src/parse/asp/builtins.go")
	// the call `<x>.Glob(pkgName, include, EXCL, hidden, includeSymlinks)` and, before it, `EXCL = append(EXCL, <...>.BuildFileName...)`
	aspAppends, aspCall := false, false
	exclVar := ""
	gfn := b.Func("glob")
	ast.Inspect(gfn.Body, func(n ast.Node) bool {
		if ce, ok := n.(*ast.CallExpr); ok && strings.HasSuffix(sel(ce.Fun), ".Glob") && len(ce.Args) == 5 {
			if id, ok := ce.Args[2].(*ast.Ident); ok && strings.HasSuffix(sel(ce.Args[0]), ".pkg.Name") {
				aspCall, exclVar = true, id.Name
			}
		}
		return true
	})
	if !aspCall {
		xlib.Unreadable("builtins.go glob(): call of Globber.Glob(s.pkg.Name, include, <exclude var>, hidden, includeSymlinks) not found")
	}
	ast.Inspect(gfn.Body, func(n ast.Node) bool {
		as, ok := n.(*ast.AssignStmt)
		if !ok || len(as.Lhs) != 1 || len(as.Rhs) != 1 || sel(as.Lhs[0]) != exclVar {
			return true
		}
		if ce, ok := as.Rhs[0].(*ast.CallExpr); ok && sel(ce.Fun) == "append" && len(ce.Args) == 2 && ce.Ellipsis.IsValid() &&
			sel(ce.Args[0]) == exclVar && strings.HasSuffix(sel(ce.Args[1]), ".BuildFileName") {
			aspAppends = true
		}
		return true
	})
	// structural checks are by source shape: a shape that is not recognised makes the facts unreadable (the run then
	// relies on lean/Expected/C21.lean plus the thorough correspondence) instead of producing a wrong `false`
	for name, ok := range map[string]bool{"patternToMatcher uses builtInGlob without **": builtinWhenAbsent,
		"patternToMatcher joins root": joinsRoot, "regexp from toRegexString(fullPattern)": regexFromFull,
		"plz-out guarded by rootPath == \".\"": outGuardDot, "sub-package SkipDir": subPkgSkip, "symlink bucket": symlinkBucket,
		"glob filters sub-packages": filterSub, "glob filters excludes": filterExcl,
		"isInDirectories by dir+\"/\"": inDirsComponent, "isHidden on filepath.Base": hiddenOnBase,
		"shouldExcludeMatch: base path, file-name-only rule, matcher": excludeShape, "isBathPathOf": basePathShape,
		"isBuildFile by base name": buildFileShape, "regexGlob.Match = regexp.MatchString (unanchored)": regexUnanchored,
		"builtInGlob.Match = filepath.Match": builtinIsFilepathMatch} {
		if !ok {
			xlib.Unreadable("shape not recognised: %s", name)
		}
	}

	out := xlib.NewOut("C21", f.Path, b.Path)
	out.Def("reWrap", "List Char × List Char", "("+chars(wrapL)+", "+chars(wrapR)+")")
	parts := make([]string, len(reps))
	for i, r := range reps {
		parts[i] = "(" + chars(r[0]) + ", " + chars(r[1]) + ")"
		out.Raw("-- ReplaceAll " + strconv.Quote(r[0]) + " -> " + strconv.Quote(r[1]))
	}
	out.Def("replacements", "List (List Char × List Char)", "["+strings.Join(parts, ", ")+"]")
	out.Def("doubleStar", "List Char", chars(doubleStar))
	out.Def("outDir", "List Char", chars(outDir))
	out.Def("hiddenPrefix", "List Char", chars(hiddenPrefix))
	out.Def("hiddenWrap", "List Char", chars(wrapP))
	out.Def("builtinWhenNoDoubleStar", "Bool", xlib.LeanBool(builtinWhenAbsent))
	out.Def("matcherJoinsRoot", "Bool", xlib.LeanBool(joinsRoot))
	out.Def("regexFromFullPattern", "Bool", xlib.LeanBool(regexFromFull))
	out.Def("outDirOnlyAtDotRoot", "Bool", xlib.LeanBool(outGuardDot))
	out.Def("subPackageSkip", "Bool", xlib.LeanBool(subPkgSkip))
	out.Def("symlinkBucket", "Bool", xlib.LeanBool(symlinkBucket))
	out.Def("filterSubPackages", "Bool", xlib.LeanBool(filterSub))
	out.Def("filterHidden", "Bool", xlib.LeanBool(hiddenPerMatch || hiddenAtWalk))
	out.Def("cacheKeyHasHidden", "Bool", xlib.LeanBool(keyHasHidden))
	out.Def("hiddenAtWalk", "Bool", xlib.LeanBool(hiddenAtWalk))
	out.Def("hiddenPerMatch", "Bool", xlib.LeanBool(hiddenPerMatch))
	out.Def("filterExcludes", "Bool", xlib.LeanBool(filterExcl))
	out.Def("inDirsComponentwise", "Bool", xlib.LeanBool(inDirsComponent))
	out.Def("hiddenOnBaseName", "Bool", xlib.LeanBool(hiddenOnBase))
	out.Def("aspAppendsBuildNames", "Bool", xlib.LeanBool(aspAppends))
	out.Def("aspCallsGlobWithPkgName", "Bool", xlib.LeanBool(aspCall))
	out.Write()
}
