// Facts for C37 from src/core/command_replacements.go:
//   - the table of replacement passes of replaceSequencesInternal, in source order: keyword of the regex,
//     slice offset of the callback, and the five flags handed to replaceSequence;
//   - quote(): the character set it reacts to and the wrappers it adds;
//   - the guards of checkAndReplaceSequence as sorted conjunctions of role-named atoms.
//
// Shapes the extractor does not recognise make it exit 3 (facts unreadable), never guess.
package main

import (
	"crypto/sha256"
	"encoding/hex"
	"go/ast"
	"go/token"
	"regexp"
	"sort"
	"strconv"
	"strings"

	"verif/harness/xlib"
)

var seqRe = regexp.MustCompile(`^\\\$\\\(([a-z_]+) \(\[\^\\\)\]\+\)\\\)$`)

func strLit(e ast.Expr) (string, bool) {
	bl, ok := e.(*ast.BasicLit)
	if !ok || bl.Kind != token.STRING {
		return "", false
	}
	s, err := strconv.Unquote(bl.Value)
	return s, err == nil
}

func boolLit(e ast.Expr) (bool, bool) {
	id, ok := e.(*ast.Ident)
	if !ok || (id.Name != "true" && id.Name != "false") {
		return false, false
	}
	return id.Name == "true", true
}

func paramNames(fn *ast.FuncDecl) []string {
	var ps []string
	for _, fl := range fn.Type.Params.List {
		for _, n := range fl.Names {
			ps = append(ps, n.Name)
		}
	}
	return ps
}

func main() {
	f := xlib.Parse("src/core/command_replacements.go")
	out := xlib.NewOut("C37", f.Path)

	// regex variables: name -> keyword
	kwOf := map[string]string{}
	for _, d := range f.AST.Decls {
		gd, ok := d.(*ast.GenDecl)
		if !ok || gd.Tok != token.VAR {
			continue
		}
		for _, s := range gd.Specs {
			vs := s.(*ast.ValueSpec)
			if len(vs.Names) != 1 || len(vs.Values) != 1 {
				continue
			}
			cl, ok := vs.Values[0].(*ast.CompositeLit)
			if !ok {
				continue
			}
			for _, el := range cl.Elts {
				kv, ok := el.(*ast.KeyValueExpr)
				if !ok {
					continue
				}
				if k, ok := kv.Key.(*ast.Ident); ok && k.Name == "Re" {
					if re, ok := strLit(kv.Value); ok {
						if m := seqRe.FindStringSubmatch(re); m != nil {
							kwOf[vs.Names[0].Name] = m[1]
						}
					}
				}
			}
		}
	}

	// the passes of replaceSequencesInternal
	fn := f.Func("replaceSequencesInternal")
	ps := paramNames(fn)
	if len(ps) != 4 {
		xlib.Unreadable("replaceSequencesInternal: expected 4 parameters, found %d", len(ps))
	}
	testParam := ps[3]
	var rows []string
	npass := 0
	chained := true
	prevVar := ps[2] // the first pass reads the command parameter
	for _, st := range fn.Body.List {
		as, ok := st.(*ast.AssignStmt)
		if !ok || len(as.Rhs) != 1 {
			continue
		}
		call, ok := as.Rhs[0].(*ast.CallExpr)
		if !ok {
			continue
		}
		sel, ok := call.Fun.(*ast.SelectorExpr)
		if !ok || sel.Sel.Name != "ReplaceAllStringFunc" {
			continue
		}
		rv, ok := sel.X.(*ast.Ident)
		if !ok {
			xlib.Unreadable("ReplaceAllStringFunc on a non-identifier: %s", f.Src(sel.X))
		}
		npass++
		if len(call.Args) == 2 {
			if id, ok := call.Args[0].(*ast.Ident); !ok || id.Name != prevVar {
				chained = false // a pass that does not read the previous pass's result drops that pass
			}
		}
		if len(as.Lhs) == 1 {
			if id, ok := as.Lhs[0].(*ast.Ident); ok {
				prevVar = id.Name
			}
		}
		kw, ok := kwOf[rv.Name]
		if !ok {
			xlib.Unreadable("pass %d uses regex variable %s whose pattern is not \\$\\(kw ([^\\)]+)\\)", npass, rv.Name)
		}
		if len(call.Args) != 2 {
			xlib.Unreadable("pass %s: expected 2 arguments", kw)
		}
		fl, ok := call.Args[1].(*ast.FuncLit)
		if !ok || len(fl.Type.Params.List) != 1 || len(fl.Type.Params.List[0].Names) != 1 || len(fl.Body.List) != 1 {
			xlib.Unreadable("pass %s: callback is not a one-statement function literal", kw)
		}
		in := fl.Type.Params.List[0].Names[0].Name
		ret, ok := fl.Body.List[0].(*ast.ReturnStmt)
		if !ok || len(ret.Results) != 1 {
			xlib.Unreadable("pass %s: callback does not return one value", kw)
		}
		rc, ok := ret.Results[0].(*ast.CallExpr)
		if !ok {
			xlib.Unreadable("pass %s: callback does not return a call", kw)
		}
		if id, ok := rc.Fun.(*ast.Ident); !ok || id.Name != "replaceSequence" || len(rc.Args) != 9 {
			xlib.Unreadable("pass %s: callback does not call replaceSequence with 9 arguments: %s", kw, f.Src(rc))
		}
		sl, ok := rc.Args[2].(*ast.SliceExpr)
		if !ok || sl.Slice3 || sl.Low == nil || sl.High == nil {
			xlib.Unreadable("pass %s: third argument is not in[a:b]: %s", kw, f.Src(rc.Args[2]))
		}
		if id, ok := sl.X.(*ast.Ident); !ok || id.Name != in {
			xlib.Unreadable("pass %s: slices something other than the match", kw)
		}
		lo, ok := sl.Low.(*ast.BasicLit)
		if !ok || lo.Kind != token.INT {
			xlib.Unreadable("pass %s: slice start is not a constant", kw)
		}
		if strings.Join(strings.Fields(f.Src(sl.High)), "") != "len("+in+")-1" {
			xlib.Unreadable("pass %s: slice end is %s, expected len(%s)-1", kw, f.Src(sl.High), in)
		}
		var flags []string
		for _, a := range rc.Args[3:8] {
			b, ok := boolLit(a)
			if !ok {
				xlib.Unreadable("pass %s: flag %s is not a boolean literal", kw, f.Src(a))
			}
			flags = append(flags, xlib.LeanBool(b))
		}
		if id, ok := rc.Args[8].(*ast.Ident); !ok || id.Name != testParam {
			xlib.Unreadable("pass %s: last argument is %s, expected the test parameter", kw, f.Src(rc.Args[8]))
		}
		rows = append(rows, "("+xlib.LeanCharList([]rune(kw))+", "+lo.Value+", "+strings.Join(flags, ", ")+")")
	}
	if npass == 0 {
		xlib.Unreadable("no ReplaceAllStringFunc passes found in replaceSequencesInternal")
	}
	out.Def("seqs", "List (List Char × Nat × Bool × Bool × Bool × Bool × Bool)", "["+strings.Join(rows, ", ")+"]")

	// quote
	q := f.Func("quote")
	qp := paramNames(q)
	if len(qp) != 1 || len(q.Body.List) != 2 {
		xlib.Unreadable("quote: expected one parameter and two statements")
	}
	ifs, ok := q.Body.List[0].(*ast.IfStmt)
	if !ok || ifs.Else != nil || len(ifs.Body.List) != 1 {
		xlib.Unreadable("quote: first statement is not a plain if")
	}
	cc, ok := ifs.Cond.(*ast.CallExpr)
	if !ok || f.Src(cc.Fun) != "strings.ContainsAny" || len(cc.Args) != 2 || f.Src(cc.Args[0]) != qp[0] {
		xlib.Unreadable("quote: condition is not strings.ContainsAny(%s, …): %s", qp[0], f.Src(ifs.Cond))
	}
	chars, ok := strLit(cc.Args[1])
	if !ok {
		xlib.Unreadable("quote: character set is not a string literal")
	}
	r1, ok := ifs.Body.List[0].(*ast.ReturnStmt)
	if !ok || len(r1.Results) != 1 {
		xlib.Unreadable("quote: if body is not a return")
	}
	// left + s + right
	var parts []ast.Expr
	var flat func(e ast.Expr)
	flat = func(e ast.Expr) {
		if be, ok := e.(*ast.BinaryExpr); ok && be.Op == token.ADD {
			flat(be.X)
			flat(be.Y)
			return
		}
		parts = append(parts, e)
	}
	flat(r1.Results[0])
	if len(parts) != 3 || f.Src(parts[1]) != qp[0] {
		xlib.Unreadable("quote: wrapped form is not left + %s + right: %s", qp[0], f.Src(r1.Results[0]))
	}
	left, ok1 := strLit(parts[0])
	right, ok2 := strLit(parts[2])
	if !ok1 || !ok2 {
		xlib.Unreadable("quote: wrappers are not string literals")
	}
	r2, ok := q.Body.List[1].(*ast.ReturnStmt)
	if !ok || len(r2.Results) != 1 || f.Src(r2.Results[0]) != qp[0] {
		xlib.Unreadable("quote: fall-through does not return the argument unchanged")
	}
	out.Def("quoteChars", "List Char", xlib.LeanCharList([]rune(chars)))
	out.Def("quoteLeft", "List Char", xlib.LeanCharList([]rune(left)))
	out.Def("quoteRight", "List Char", xlib.LeanCharList([]rune(right)))

	// guards of checkAndReplaceSequence
	cr := f.Func("checkAndReplaceSequence")
	roles := []string{"state", "target", "dep", "ep", "in", "runnable", "multiple", "dir", "outPrefix", "hash", "test", "allOutputs", "tool"}
	cps := paramNames(cr)
	if len(cps) != len(roles) {
		xlib.Unreadable("checkAndReplaceSequence: expected %d parameters, found %d", len(roles), len(cps))
	}
	roleOf := map[string]string{}
	for i, p := range cps {
		roleOf[p] = roles[i]
	}
	localAcc := map[string]string{}     // local variable -> accessor of dep it holds
	accessorOf := map[string][]string{} // normalised length atom -> accessors counted
	var atom func(e ast.Expr) string
	atom = func(e ast.Expr) string {
		switch x := e.(type) {
		case *ast.ParenExpr:
			return atom(x.X)
		case *ast.Ident:
			if r, ok := roleOf[x.Name]; ok {
				return r
			}
		case *ast.UnaryExpr:
			if x.Op == token.NOT {
				if id, ok := x.X.(*ast.Ident); ok {
					if r, ok := roleOf[id.Name]; ok {
						return "!" + r
					}
				}
				if se, ok := x.X.(*ast.SelectorExpr); ok && se.Sel.Name == "IsBinary" {
					if id, ok := se.X.(*ast.Ident); ok && roleOf[id.Name] == "dep" {
						return "!dep.IsBinary"
					}
				}
			}
		case *ast.BinaryExpr:
			switch x.Op {
			case token.GTR, token.GEQ, token.LSS, token.LEQ, token.EQL, token.NEQ:
				l := strings.Join(strings.Fields(f.Src(x.X)), "")
				// len(dep.<Accessor>()) or len(v) with v := dep.<Accessor>(): the atom is normalised to Outputs(), WHICH
				// accessor is counted is a fact of its own (Outputs: declared + named + filegroup-derived; DeclaredOutputs:
				// the plain outs list only)
				acc := ""
				for p, r := range roleOf {
					if r == "dep" && strings.HasPrefix(l, "len("+p+".") && strings.HasSuffix(l, "())") {
						acc = l[len("len("+p+".") : len(l)-3]
					}
				}
				if strings.HasPrefix(l, "len(") && strings.HasSuffix(l, ")") {
					if a, ok := localAcc[l[4:len(l)-1]]; ok {
						acc = a
					}
				}
				if acc != "" {
					if n, ok := x.Y.(*ast.BasicLit); ok && n.Kind == token.INT {
						a := "len(dep.Outputs())" + x.Op.String() + n.Value
						accessorOf[a] = append(accessorOf[a], acc)
						return a
					}
				}
				if id, ok := x.X.(*ast.Ident); ok && roleOf[id.Name] == "ep" {
					if s, ok := strLit(x.Y); ok && s == "" {
						return "ep" + x.Op.String() + `""`
					}
				}
			}
		}
		xlib.Unreadable("checkAndReplaceSequence: unrecognised guard atom %s", f.Src(e))
		return ""
	}
	var conj func(e ast.Expr) []string
	conj = func(e ast.Expr) []string {
		if be, ok := e.(*ast.BinaryExpr); ok && be.Op == token.LAND {
			return append(conj(be.X), conj(be.Y)...)
		}
		if pe, ok := e.(*ast.ParenExpr); ok {
			return conj(pe.X)
		}
		return []string{atom(e)}
	}
	// the guard chain(s): leading if/else-if statements whose branches all panic, possibly separated by plain
	// `v := dep.Accessor()` assignments; everything from the first other statement on is the tail
	var guards []string
	tailIdx := 0
	depName := ""
	for p, r := range roleOf {
		if r == "dep" {
			depName = p
		}
	}
scan:
	for i, st := range cr.Body.List {
		tailIdx = i
		switch x := st.(type) {
		case *ast.AssignStmt:
			if len(x.Lhs) == 1 && len(x.Rhs) == 1 && x.Tok == token.DEFINE {
				src := strings.Join(strings.Fields(f.Src(x.Rhs[0])), "")
				if id, ok := x.Lhs[0].(*ast.Ident); ok && strings.HasPrefix(src, depName+".") && strings.HasSuffix(src, "()") {
					localAcc[id.Name] = src[len(depName)+1 : len(src)-2]
					continue
				}
			}
			break scan
		case *ast.IfStmt:
			for cur := x; cur != nil; {
				if len(cur.Body.List) != 1 || !strings.HasPrefix(f.Src(cur.Body.List[0]), "panic(") {
					if cur == x {
						break scan // not a guard: the tail starts here
					}
					xlib.Unreadable("checkAndReplaceSequence: a guard branch does not panic: %s", f.Src(cur.Cond))
				}
				as := conj(cur.Cond)
				sort.Strings(as)
				guards = append(guards, strings.Join(as, " && "))
				switch e := cur.Else.(type) {
				case nil:
					cur = nil
				case *ast.IfStmt:
					cur = e
				default:
					xlib.Unreadable("checkAndReplaceSequence: guard chain ends in a plain else")
				}
			}
		default:
			break scan
		}
	}
	if len(guards) == 0 {
		xlib.Unreadable("checkAndReplaceSequence: does not start with a guard chain")
	}
	one := func(atom string) string {
		as := accessorOf[atom]
		if len(as) == 0 {
			return "none"
		}
		for _, a := range as {
			if a != as[0] {
				return "mixed"
			}
		}
		return as[0]
	}
	out.Def("multiGuardAccessor", "String", xlib.LeanStr(one("len(dep.Outputs())>1")))
	out.Def("zeroGuardAccessor", "String", xlib.LeanStr(one("len(dep.Outputs())==0")))
	// which accessor the output loop ranges over
	loopAcc := "none"
	ast.Inspect(cr.Body, func(n ast.Node) bool {
		if rs, ok := n.(*ast.RangeStmt); ok && loopAcc == "none" {
			src := strings.Join(strings.Fields(f.Src(rs.X)), "")
			if strings.HasPrefix(src, depName+".") && strings.HasSuffix(src, "()") {
				loopAcc = src[len(depName)+1 : len(src)-2]
			} else if a, ok := localAcc[src]; ok {
				loopAcc = a
			}
		}
		return true
	})
	out.Def("loopAccessor", "String", xlib.LeanStr(loopAcc))
	out.Def("guards", "List String", xlib.LeanStrList(guards))
	out.Def("passesChained", "Bool", xlib.LeanBool(chained))

	// skeletons: the remaining code the model transcribes, with parameters named by position, locals by order
	// of declaration and message texts blanked — insensitive to renaming, sensitive to any change of structure,
	// operator, constant, call or order.
	bt := xlib.Parse("src/core/build_target.go") // what Outputs() and DeclaredOutputs() consist of
	for _, sk := range []struct {
		name string
		text string
	}{
		{"skelCheckTail", skeleton(f, cr, tailIdx)},
		{"skelFileDestination", skeleton(f, f.Func("fileDestination"), 0)},
		{"skelHandleDir", skeleton(f, f.Func("handleDir"), 0)},
		{"skelReplaceSequenceLabel", skeleton(f, f.Func("replaceSequenceLabel"), 0)},
		{"skelReplaceSequence", skeleton(f, f.Func("replaceSequence"), 0)},
		{"skelSplitEntryPoint", skeleton(f, f.Func("splitEntryPoint"), 0)},
		{"skelSourcesOrTools", skeleton(f, f.Func("sourcesOrTools"), 0)},
		{"skelOutputs", skeleton(bt, bt.Func("BuildTarget.Outputs"), 0)},
		{"skelDeclaredOutputs", skeleton(bt, bt.Func("BuildTarget.DeclaredOutputs"), 0)},
		{"skelFilegroupOutputs", skeleton(bt, bt.Func("BuildTarget.filegroupOutputs"), 0)},
	} {
		// the kernel compares short strings quickly, long ones not: the fact is the digest, the text is kept for the reader
		sum := sha256.Sum256([]byte(sk.text))
		out.Raw("-- " + sk.name + ": " + sk.text)
		out.Def(sk.name, "String", xlib.LeanStr(hex.EncodeToString(sum[:12])))
	}
	out.Write()
}

// skeleton renders the statements of fn's body from index `from` on, canonically.
func skeleton(f *xlib.File, fn *ast.FuncDecl, from int) string {
	names := map[*ast.Object]string{}
	np := 0
	for _, fl := range fn.Type.Params.List {
		for _, n := range fl.Names {
			if n.Obj != nil {
				names[n.Obj] = "p" + strconv.Itoa(np)
			}
			np++
		}
	}
	nv := 0
	ast.Inspect(fn.Body, func(n ast.Node) bool {
		if id, ok := n.(*ast.Ident); ok && id.Obj != nil && id.Obj.Kind == ast.Var {
			if _, seen := names[id.Obj]; !seen {
				if d, ok := id.Obj.Decl.(ast.Node); ok && d.Pos() >= fn.Body.Pos() && d.End() <= fn.Body.End() {
					names[id.Obj] = "v" + strconv.Itoa(nv)
					nv++
				}
			}
		}
		return true
	})
	ast.Inspect(fn.Body, func(n ast.Node) bool {
		switch x := n.(type) {
		case *ast.Ident:
			if nm, ok := names[x.Obj]; ok && x.Obj != nil {
				x.Name = nm
			}
		case *ast.BasicLit:
			if x.Kind == token.STRING && len(x.Value) > 6 && strings.Contains(x.Value, " ") {
				x.Value = `"…"`
			}
		}
		return true
	})
	var parts []string
	for _, st := range fn.Body.List[from:] {
		parts = append(parts, f.Src(st))
	}
	return strings.Join(parts, " ; ")
}
