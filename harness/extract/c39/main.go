// Facts for C39 from src/core/config.go and src/please.go:
//   - the config file locations in reading order (defaultGlobalConfigFiles + defaultConfigFiles), symbolically;
//   - the shape of the ReadConfigFiles loop (where the profile files are read, how their name is formed);
//   - what readConfigFile does around the read (plugin reset / merge), that a missing file is ignored;
//   - the setDefault(...) slice defaults and where they sit, setDefault's own condition;
//   - the scalar and slice values pre-populated by DefaultConfiguration;
//   - how -o overrides are applied (after the files; key lower-cased; slice = replaced by the comma split).
//
// Everything is recorded by role/structure, not by local variable names.
package main

import (
	"go/ast"
	"go/token"
	"sort"
	"strconv"
	"strings"

	"verif/harness/xlib"
)

var consts = map[string]ast.Expr{}

// sym evaluates a string-valued expression symbolically. env maps local identifiers to symbols.
func sym(f *xlib.File, e ast.Expr, env map[string]string) string {
	switch x := e.(type) {
	case *ast.BasicLit:
		if x.Kind == token.STRING {
			s, _ := strconv.Unquote(x.Value)
			return s
		}
		return x.Value
	case *ast.Ident:
		if v, ok := env[x.Name]; ok {
			return v
		}
		if c, ok := consts[x.Name]; ok {
			return sym(f, c, env)
		}
		if x.Name == "RepoRoot" {
			return "$ROOT"
		}
		return "?" + x.Name
	case *ast.SelectorExpr:
		s := f.Src(x)
		switch s {
		case "runtime.GOOS":
			return "$GOOS"
		case "runtime.GOARCH":
			return "$GOARCH"
		}
		return "?" + s
	case *ast.BinaryExpr:
		if x.Op == token.ADD {
			return sym(f, x.X, env) + sym(f, x.Y, env)
		}
	case *ast.ParenExpr:
		return sym(f, x.X, env)
	case *ast.CallExpr:
		fn := f.Src(x.Fun)
		switch {
		case strings.HasSuffix(fn, "ExpandHomePath") && len(x.Args) == 1:
			return sym(f, x.Args[0], env) // keeps the leading ~
		case fn == "filepath.Join" || fn == "path.Join":
			parts := []string{}
			for _, a := range x.Args {
				parts = append(parts, sym(f, a, env))
			}
			return strings.Join(parts, "/")
		}
		return "?" + f.Src(x)
	}
	return "?" + f.Src(e)
}

// envOf finds which environment variable a local is bound to, looking at `x := os.Getenv("N")` in s.
func getenvName(f *xlib.File, e ast.Expr) string {
	if c, ok := e.(*ast.CallExpr); ok && f.Src(c.Fun) == "os.Getenv" && len(c.Args) == 1 {
		if bl, ok := c.Args[0].(*ast.BasicLit); ok {
			s, _ := strconv.Unquote(bl.Value)
			return s
		}
	}
	return ""
}

// collectFiles walks the body of a function that builds a []string of config file names and returns the
// symbolic names in order.
func collectFiles(f *xlib.File, body *ast.BlockStmt, env map[string]string, out *[]string, calls map[string]func() []string) {
	var walkStmts func(list []ast.Stmt, env map[string]string)
	handleAppendArgs := func(args []ast.Expr, env map[string]string) {
		for _, a := range args {
			*out = append(*out, sym(f, a, env))
		}
	}
	var handleExpr func(e ast.Expr, env map[string]string)
	handleExpr = func(e ast.Expr, env map[string]string) {
		switch x := e.(type) {
		case *ast.CompositeLit:
			handleAppendArgs(x.Elts, env)
		case *ast.CallExpr:
			fn := f.Src(x.Fun)
			if fn == "append" && len(x.Args) >= 1 {
				handleExpr(x.Args[0], env) // base first (may be a call to the other function or the accumulator)
				handleAppendArgs(x.Args[1:], env)
			} else if g, ok := calls[fn]; ok {
				*out = append(*out, g()...)
			}
		case *ast.Ident:
			// the accumulator itself: nothing new
		}
	}
	walkStmts = func(list []ast.Stmt, env map[string]string) {
		for _, s := range list {
			switch x := s.(type) {
			case *ast.AssignStmt:
				for _, r := range x.Rhs {
					handleExpr(r, env)
				}
			case *ast.ReturnStmt:
				for _, r := range x.Results {
					handleExpr(r, env)
				}
			case *ast.IfStmt:
				e2 := map[string]string{}
				for k, v := range env {
					e2[k] = v
				}
				if as, ok := x.Init.(*ast.AssignStmt); ok && len(as.Lhs) == 1 && len(as.Rhs) == 1 {
					if n := getenvName(f, as.Rhs[0]); n != "" {
						e2[as.Lhs[0].(*ast.Ident).Name] = "$" + n
					}
				}
				walkStmts(x.Body.List, e2)
			case *ast.RangeStmt:
				e2 := map[string]string{}
				for k, v := range env {
					e2[k] = v
				}
				// for _, p := range strings.Split(<envvar>, ":")  -> p is one entry of that variable
				src := f.Src(x.X)
				for k, v := range env {
					if strings.Contains(src, k) && strings.HasPrefix(v, "$") {
						if id, ok := x.Value.(*ast.Ident); ok {
							e2[id.Name] = v + "[i]"
						}
					}
				}
				walkStmts(x.Body.List, e2)
			}
		}
	}
	walkStmts(body.List, env)
}

func fieldPath(f *xlib.File, e ast.Expr) string {
	// config.A.B or &config.A.B -> "a.b"
	if u, ok := e.(*ast.UnaryExpr); ok && u.Op == token.AND {
		e = u.X
	}
	s := f.Src(e)
	parts := strings.Split(s, ".")
	if len(parts) != 3 {
		return ""
	}
	return strings.ToLower(parts[1] + "." + parts[2])
}

func litStrings(f *xlib.File, es []ast.Expr) ([]string, bool) {
	out := []string{}
	for _, e := range es {
		bl, ok := e.(*ast.BasicLit)
		if !ok || bl.Kind != token.STRING {
			return nil, false
		}
		s, _ := strconv.Unquote(bl.Value)
		out = append(out, s)
	}
	return out, true
}

func pairList(ps [][2]string) string {
	p := make([]string, len(ps))
	for i, x := range ps {
		p[i] = "(" + xlib.LeanStr(x[0]) + ", " + xlib.LeanStr(x[1]) + ")"
	}
	return "[" + strings.Join(p, ", ") + "]"
}

type sl struct {
	k string
	v []string
}

func slList(ps []sl) string {
	p := make([]string, len(ps))
	for i, x := range ps {
		p[i] = "(" + xlib.LeanStr(x.k) + ", " + xlib.LeanStrList(x.v) + ")"
	}
	return "[" + strings.Join(p, ", ") + "]"
}

func main() {
	f := xlib.Parse("src/core/config.go")
	out := xlib.NewOut("C39", f.Path, "src/please.go")
	for _, d := range f.AST.Decls {
		gd, ok := d.(*ast.GenDecl)
		if !ok || (gd.Tok != token.CONST && gd.Tok != token.VAR) {
			continue
		}
		for _, s := range gd.Specs {
			vs := s.(*ast.ValueSpec)
			for i, n := range vs.Names {
				if i < len(vs.Values) {
					consts[n.Name] = vs.Values[i]
				}
			}
		}
	}

	// 1. file order
	var global []string
	collectFiles(f, f.Func("defaultGlobalConfigFiles").Body, map[string]string{}, &global, nil)
	var all []string
	collectFiles(f, f.Func("defaultConfigFiles").Body, map[string]string{}, &all, map[string]func() []string{
		"defaultGlobalConfigFiles": func() []string { return global },
	})
	if len(all) == 0 {
		xlib.Unreadable("no config file names found in defaultConfigFiles")
	}
	for _, a := range all {
		if strings.Contains(a, "?") {
			xlib.Unreadable("cannot evaluate config file name %q", a)
		}
	}
	out.Def("fileOrder", "List String", xlib.LeanStrList(all))

	// which function ReadDefaultConfigFiles passes as file list
	rd := f.Func("ReadDefaultConfigFiles")
	uses := ""
	ast.Inspect(rd.Body, func(n ast.Node) bool {
		if c, ok := n.(*ast.CallExpr); ok && f.Src(c.Fun) == "ReadConfigFiles" && len(c.Args) == 3 {
			uses = f.Src(c.Args[1])
		}
		return true
	})
	out.Def("defaultReaderFiles", "String", xlib.LeanStr(uses))

	// 2. loop shape of ReadConfigFiles
	rc := f.Func("ReadConfigFiles")
	params := []string{}
	for _, fl := range rc.Type.Params.List {
		for _, nm := range fl.Names {
			params = append(params, nm.Name)
		}
	}
	if len(params) != 3 {
		xlib.Unreadable("ReadConfigFiles: expected 3 parameters")
	}
	filesParam, profilesParam := params[1], params[2]
	var shape []string
	profilePath, reader := "", ""
	loopIdx, firstDefaultIdx, lastDefaultIdx := -1, -1, -1
	defaults := []sl{}
	seenDefault := map[string]bool{}
	var addDefault func(c *ast.CallExpr)
	addDefault = func(c *ast.CallExpr) {
		if f.Src(c.Fun) != "setDefault" || len(c.Args) < 1 {
			return
		}
		k := fieldPath(f, c.Args[0])
		v, ok := litStrings(f, c.Args[1:])
		if k == "" || !ok {
			xlib.Unreadable("setDefault call not understood: %s", f.Src(c))
		}
		if !seenDefault[k] {
			seenDefault[k] = true
			defaults = append(defaults, sl{k, v})
		}
	}
	callsIn := func(s ast.Stmt, fileVar string, env map[string]string) (kind string) {
		ast.Inspect(s, func(n ast.Node) bool {
			// locals defined on the way (name := expr) are evaluated symbolically too
			if as, ok := n.(*ast.AssignStmt); ok && as.Tok == token.DEFINE && len(as.Lhs) == 1 && len(as.Rhs) == 1 {
				if id, ok := as.Lhs[0].(*ast.Ident); ok {
					if v := sym(f, as.Rhs[0], env); !strings.Contains(v, "?") {
						env[id.Name] = v
					}
				}
			}
			c, ok := n.(*ast.CallExpr)
			if !ok || len(c.Args) < 3 {
				return true
			}
			fn := f.Src(c.Fun)
			if !strings.HasPrefix(fn, "readConfigFile") {
				return true
			}
			reader = fn
			p := sym(f, c.Args[2], env)
			if p == "$F" {
				kind = "file"
			} else {
				kind = "profile"
				profilePath = p
			}
			return true
		})
		return
	}
	for i, s := range rc.Body.List {
		switch x := s.(type) {
		case *ast.RangeStmt:
			if f.Src(x.X) == filesParam {
				if loopIdx >= 0 {
					// a second loop over the files: profiles after all files?
					fv := x.Value.(*ast.Ident).Name
					for _, b := range x.Body.List {
						if r, ok := b.(*ast.RangeStmt); ok && f.Src(r.X) == profilesParam {
							env := map[string]string{fv: "$F", r.Value.(*ast.Ident).Name: "$P"}
							if callsIn(r, fv, env) == "profile" {
								shape = append(shape, "loop2:profiles")
							}
						}
					}
					continue
				}
				loopIdx = i
				fv := x.Value.(*ast.Ident).Name
				for _, b := range x.Body.List {
					if r, ok := b.(*ast.RangeStmt); ok && f.Src(r.X) == profilesParam {
						env := map[string]string{fv: "$F", r.Value.(*ast.Ident).Name: "$P"}
						if callsIn(r, fv, env) == "profile" {
							shape = append(shape, "profiles")
						}
						continue
					}
					if k := callsIn(b, fv, map[string]string{fv: "$F"}); k == "file" {
						shape = append(shape, "file")
					}
				}
			}
		case *ast.ExprStmt:
			if c, ok := x.X.(*ast.CallExpr); ok && f.Src(c.Fun) == "setDefault" {
				addDefault(c)
				if firstDefaultIdx < 0 {
					firstDefaultIdx = i
				}
				lastDefaultIdx = i
			}
		case *ast.IfStmt:
			// if usingBazelWorkspace { setDefault(A) } else { setDefault(B) }: the non-Bazel branch is the documented one
			if f.Src(x.Cond) == "usingBazelWorkspace" {
				if eb, ok := x.Else.(*ast.BlockStmt); ok {
					for _, b := range eb.List {
						if es, ok := b.(*ast.ExprStmt); ok {
							if c, ok := es.X.(*ast.CallExpr); ok {
								addDefault(c)
							}
						}
					}
				}
			}
		}
	}
	mode := ""
	switch strings.Join(shape, ",") {
	case "file,profiles":
		mode = "after-each-file"
	case "profiles,file":
		mode = "before-each-file"
	case "file,loop2:profiles":
		mode = "after-all-files"
	case "file":
		mode = "none"
	default:
		xlib.Unreadable("ReadConfigFiles loop shape not understood: %v", shape)
	}
	out.Def("profileMode", "String", xlib.LeanStr(mode))
	out.Def("profilePath", "String", xlib.LeanStr(profilePath))
	out.Def("reader", "String", xlib.LeanStr(reader))
	out.Def("defaultsAfterLoop", "Bool", xlib.LeanBool(loopIdx >= 0 && firstDefaultIdx > loopIdx && lastDefaultIdx > loopIdx))
	out.Def("sliceDefaults", "List (String × List String)", slList(defaults))

	// setDefault's own condition and assignment
	sd := f.Func("setDefault")
	cond, assign := "", ""
	if len(sd.Body.List) == 1 {
		if is, ok := sd.Body.List[0].(*ast.IfStmt); ok && is.Else == nil && len(is.Body.List) == 1 {
			p0 := sd.Type.Params.List[0].Names[0].Name
			p1 := sd.Type.Params.List[1].Names[0].Name
			cond = strings.ReplaceAll(f.Src(is.Cond), p0, "CONF")
			assign = strings.ReplaceAll(strings.ReplaceAll(f.Src(is.Body.List[0]), p0, "CONF"), p1, "DEF")
		}
	}
	out.Def("setDefaultCond", "String", xlib.LeanStr(cond))
	out.Def("setDefaultAssign", "String", xlib.LeanStr(assign))

	// 3. readConfigFile: what happens around the read
	rf := f.Func("readConfigFile")
	var steps []string
	for _, s := range rf.Body.List {
		src := f.Src(s)
		switch {
		case strings.Contains(src, ".Plugin = map["):
			steps = append(steps, "reset-plugins")
		case strings.Contains(src, "readConfigFileOnly("):
			steps = append(steps, "read")
		case strings.Contains(src, "normaliseAndMergePluginConfig("):
			steps = append(steps, "merge-plugins")
		}
	}
	out.Def("readFileSteps", "List String", xlib.LeanStrList(steps))
	// merge: old value copied only when the new file did not set the key
	nm := f.Func("normaliseAndMergePluginConfig")
	keepNew := false
	ast.Inspect(nm.Body, func(n ast.Node) bool {
		if is, ok := n.(*ast.IfStmt); ok && is.Init != nil {
			s := f.Src(is)
			if strings.Contains(f.Src(is.Init), ".ExtraValues[") && strings.Contains(f.Src(is.Cond), "!") && strings.Contains(s, ".ExtraValues[") {
				keepNew = true
			}
		}
		return true
	})
	out.Def("pluginMergeKeepsNew", "Bool", xlib.LeanBool(keepNew))

	// missing file ignored
	ro := f.Func("readConfigFileOnly")
	missing := false
	ast.Inspect(ro.Body, func(n ast.Node) bool {
		if is, ok := n.(*ast.IfStmt); ok && strings.Contains(f.Src(is.Cond), "IsNotExist(") && len(is.Body.List) == 1 {
			if f.Src(is.Body.List[0]) == "return nil" {
				missing = true
			}
		}
		return true
	})
	out.Def("missingFileIgnored", "Bool", xlib.LeanBool(missing))

	// 4. DefaultConfiguration
	dc := f.Func("DefaultConfiguration")
	var scal [][2]string
	var pre []sl
	for _, s := range dc.Body.List {
		as, ok := s.(*ast.AssignStmt)
		if !ok || len(as.Lhs) != 1 || len(as.Rhs) != 1 || as.Tok != token.ASSIGN {
			continue
		}
		k := fieldPath(f, as.Lhs[0])
		if k == "" {
			continue
		}
		switch v := as.Rhs[0].(type) {
		case *ast.BasicLit:
			scal = append(scal, [2]string{k, sym(f, v, nil)})
		case *ast.Ident:
			if v.Name == "true" || v.Name == "false" {
				scal = append(scal, [2]string{k, v.Name})
			}
		case *ast.CompositeLit:
			if _, isArr := v.Type.(*ast.ArrayType); isArr {
				if l, ok := litStrings(f, v.Elts); ok {
					pre = append(pre, sl{k, l})
				} else {
					pre = append(pre, sl{k, []string{"?"}})
				}
			}
		}
	}
	sort.Slice(scal, func(i, j int) bool { return scal[i][0] < scal[j][0] })
	out.Def("scalarDefaults", "List (String × String)", pairList(scal))
	out.Def("prepopulatedSlices", "List (String × List String)", slList(pre))

	// 5. overrides
	ao := f.Func("Configuration.ApplyOverrides")
	lowered := false
	ast.Inspect(ao.Body, func(n ast.Node) bool {
		if c, ok := n.(*ast.CallExpr); ok && f.Src(c.Fun) == "strings.Split" && len(c.Args) == 2 {
			if strings.HasPrefix(f.Src(c.Args[0]), "strings.ToLower(") {
				lowered = true
			}
		}
		return true
	})
	out.Def("overrideKeyLowered", "Bool", xlib.LeanBool(lowered))
	of := f.Func("applyOverrideOnSectionField")
	sliceOp := ""
	ast.Inspect(of.Body, func(n ast.Node) bool {
		cc, ok := n.(*ast.CaseClause)
		if !ok || len(cc.List) != 1 || f.Src(cc.List[0]) != "reflect.Slice" {
			return true
		}
		// the last else-branch handles plain string slices
		var last *ast.BlockStmt
		for _, s := range cc.Body {
			if is, ok := s.(*ast.IfStmt); ok {
				var cur ast.Stmt = is
				for {
					i2, ok := cur.(*ast.IfStmt)
					if !ok {
						break
					}
					if i2.Else == nil {
						break
					}
					if b, ok := i2.Else.(*ast.BlockStmt); ok {
						last = b
						break
					}
					cur = i2.Else
				}
			}
		}
		if last == nil {
			return false
		}
		sep, setOp, from := "", "", ""
		for _, s := range last.List {
			src := f.Src(s)
			if as, ok := s.(*ast.AssignStmt); ok && len(as.Rhs) == 1 {
				if c, ok := as.Rhs[0].(*ast.CallExpr); ok && f.Src(c.Fun) == "strings.Split" && len(c.Args) == 2 {
					sep = sym(f, c.Args[1], nil)
					from = f.Src(as.Lhs[0])
				}
			}
			if strings.HasPrefix(src, "field.Set(reflect.ValueOf(") {
				setOp = "set:" + strings.TrimSuffix(strings.TrimPrefix(src, "field.Set(reflect.ValueOf("), "))")
			} else if strings.HasPrefix(src, "field.Set(reflect.Append") {
				setOp = "append"
			}
		}
		if from != "" {
			setOp = strings.ReplaceAll(setOp, from, "SPLIT")
		}
		sliceOp = setOp + " sep=" + sep
		return false
	})
	out.Def("overrideSliceOp", "String", xlib.LeanStr(sliceOp))
	po := f.Func("applyPluginOverride")
	pluginOp := ""
	for _, s := range po.Body.List {
		if as, ok := s.(*ast.AssignStmt); ok && strings.Contains(f.Src(as.Lhs[0]), ".ExtraValues[") {
			pluginOp = strings.ReplaceAll(f.Src(as.Rhs[0]), po.Type.Params.List[len(po.Type.Params.List)-1].Names[len(po.Type.Params.List[len(po.Type.Params.List)-1].Names)-1].Name, "VALUE")
			if strings.Contains(f.Src(as.Lhs[0]), "strings.ToLower(") {
				pluginOp += " key-lowered"
			}
		}
	}
	out.Def("overridePluginOp", "String", xlib.LeanStr(pluginOp))

	// src/please.go readConfig: overrides applied to the result of reading the files
	pf := xlib.Parse("src/please.go")
	rcf := pf.Func("readConfig")
	var seq []string
	ast.Inspect(rcf.Body, func(n ast.Node) bool {
		if c, ok := n.(*ast.CallExpr); ok {
			fn := pf.Src(c.Fun)
			if strings.HasSuffix(fn, "ReadDefaultConfigFiles") {
				seq = append(seq, "read-files")
			} else if strings.HasSuffix(fn, ".ApplyOverrides") {
				seq = append(seq, "apply-overrides")
			}
		}
		return true
	})
	out.Def("readConfigSeq", "List String", xlib.LeanStrList(seq))
	// cli.Version.UnmarshalFlag is applied to the value a lower layer left behind: does it assign IsGTE on every call
	// (top-level statement of the function), or only ever turn it on inside the `>=` branch?
	cf := xlib.Parse("src/cli/flags.go")
	uf := cf.Func("Version.UnmarshalFlag")
	resets := false
	for _, st := range uf.Body.List {
		if as, ok := st.(*ast.AssignStmt); ok && len(as.Lhs) == 1 && strings.HasSuffix(cf.Src(as.Lhs[0]), ".IsGTE") {
			resets = true
		}
	}
	out.Def("versionResetsGTE", "Bool", xlib.LeanBool(resets))

	out.Write()
}
