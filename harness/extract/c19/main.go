// Facts for C19 (and the lexer model shared with C38) from src/parse/asp/{lexer,grammar_parse,errors}.go:
// sentinel count and look-ahead offsets, the byte classes and per-clause behaviour summary of nextToken's
// switch, every panic site and what it panics with, the shape of parseFileInput's recovery, the keyword /
// operator / type-name tables of the grammar, and Go's unicode.Letter / unicode.Nd tables.
package main

import (
	"fmt"
	"go/ast"
	"go/token"
	"sort"
	"strconv"
	"strings"
	"unicode"

	"verif/harness/xlib"
)

func charVal(e ast.Expr) (int, bool) {
	bl, ok := e.(*ast.BasicLit)
	if !ok {
		return 0, false
	}
	switch bl.Kind {
	case token.CHAR:
		s, err := strconv.Unquote(bl.Value)
		if err != nil || len([]rune(s)) != 1 {
			return 0, false
		}
		return int([]rune(s)[0]), true
	case token.INT:
		n, err := strconv.Atoi(bl.Value)
		return n, err == nil
	}
	return 0, false
}

// isBytesIndex recognises X.bytes[ X.pos (+|-) K ] and returns the signed offset.
func bytesIndexOffset(e ast.Expr) (int, bool) {
	ix, ok := e.(*ast.IndexExpr)
	if !ok {
		return 0, false
	}
	sel, ok := ix.X.(*ast.SelectorExpr)
	if !ok || sel.Sel.Name != "bytes" {
		return 0, false
	}
	isPos := func(e ast.Expr) bool {
		s, ok := e.(*ast.SelectorExpr)
		return ok && s.Sel.Name == "pos"
	}
	if isPos(ix.Index) {
		return 0, true
	}
	if be, ok := ix.Index.(*ast.BinaryExpr); ok && isPos(be.X) {
		if k, ok := charVal(be.Y); ok {
			if be.Op == token.ADD {
				return k, true
			}
			if be.Op == token.SUB {
				return -k, true
			}
		}
	}
	return 0, false
}

func callName(c *ast.CallExpr) string {
	switch f := c.Fun.(type) {
	case *ast.Ident:
		return f.Name
	case *ast.SelectorExpr:
		return f.Sel.Name
	}
	return "?"
}

// clauseSummary: a rename-robust description of what a case body does: calls made (method names), buffer
// offsets read, state fields assigned / incremented, token types returned, whether it falls through.
func clauseSummary(f *xlib.File, body []ast.Stmt) string {
	feats := map[string]bool{}
	for _, st := range body {
		ast.Inspect(st, func(n ast.Node) bool {
			switch x := n.(type) {
			case *ast.CallExpr:
				nm := callName(x)
				if nm != "rune" && nm != "string" && nm != "append" && nm != "Position" && nm != "len" {
					feats["call:"+nm] = true
				}
			case *ast.IndexExpr:
				if k, ok := bytesIndexOffset(x); ok {
					feats[fmt.Sprintf("read:%+d", k)] = true
				}
			case *ast.IncDecStmt:
				if s, ok := x.X.(*ast.SelectorExpr); ok {
					feats["field:"+s.Sel.Name+x.Tok.String()] = true
				}
			case *ast.AssignStmt:
				for _, l := range x.Lhs {
					if s, ok := l.(*ast.SelectorExpr); ok {
						feats["field:"+s.Sel.Name+x.Tok.String()] = true
					}
				}
			case *ast.KeyValueExpr:
				if k, ok := x.Key.(*ast.Ident); ok && k.Name == "Type" {
					// `rune(<the byte just read>)` whatever the local is called, else the constant's name
					if c, ok := x.Value.(*ast.CallExpr); ok && callName(c) == "rune" {
						feats["type:literal"] = true
					} else {
						feats["type:"+f.Src(x.Value)] = true
					}
				}
			case *ast.BranchStmt:
				if x.Tok == token.FALLTHROUGH {
					feats["fallthrough"] = true
				}
				if x.Tok == token.CONTINUE && x.Label == nil {
					feats["continue"] = true
				}
			}
			return true
		})
	}
	delete(feats, "field:line++")
	delete(feats, "field:col++")
	delete(feats, "field:col=")
	delete(feats, "field:col+=")
	keys := make([]string, 0, len(feats))
	for k := range feats {
		keys = append(keys, k)
	}
	sort.Strings(keys)
	return strings.Join(keys, " ")
}

func endsControl(body []ast.Stmt, failName string) bool {
	if len(body) == 0 {
		return false
	}
	switch x := body[len(body)-1].(type) {
	case *ast.ReturnStmt:
		return true
	case *ast.BranchStmt:
		return x.Tok == token.FALLTHROUGH || (x.Tok == token.CONTINUE && x.Label == nil)
	case *ast.ExprStmt:
		if c, ok := x.X.(*ast.CallExpr); ok {
			return callName(c) == failName
		}
	}
	return false
}

type panicSite struct{ fn, kind string }

func panicSites(f *xlib.File) []panicSite {
	var out []panicSite
	for _, d := range f.AST.Decls {
		fd, ok := d.(*ast.FuncDecl)
		if !ok || fd.Body == nil {
			continue
		}
		ast.Inspect(fd.Body, func(n ast.Node) bool {
			c, ok := n.(*ast.CallExpr)
			if !ok {
				return true
			}
			if id, ok := c.Fun.(*ast.Ident); !ok || id.Name != "panic" || len(c.Args) != 1 {
				return true
			}
			kind := "other:" + f.Src(c.Args[0])
			switch a := c.Args[0].(type) {
			case *ast.BasicLit:
				kind = "lit:" + a.Value
			case *ast.CallExpr:
				kind = "call:" + callName(a)
			}
			out = append(out, panicSite{fd.Name.Name, kind})
			return true
		})
	}
	return out
}

func leanPairs(ps []panicSite) string {
	p := make([]string, len(ps))
	for i, s := range ps {
		p[i] = "(" + xlib.LeanStr(s.fn) + ", " + xlib.LeanStr(s.kind) + ")"
	}
	return "[" + strings.Join(p, ", ") + "]"
}

func rangeTable(t *unicode.RangeTable) string {
	var p []string
	for _, r := range t.R16 {
		p = append(p, fmt.Sprintf("(%d, %d, %d)", r.Lo, r.Hi, r.Stride))
	}
	for _, r := range t.R32 {
		p = append(p, fmt.Sprintf("(%d, %d, %d)", r.Lo, r.Hi, r.Stride))
	}
	return "[" + strings.Join(p, ", ") + "]"
}

func resultIsError(fd *ast.FuncDecl) bool {
	if fd.Type.Results == nil || len(fd.Type.Results.List) != 1 {
		return false
	}
	id, ok := fd.Type.Results.List[0].Type.(*ast.Ident)
	return ok && id.Name == "error"
}

func stringKeys(f *xlib.File, e ast.Expr) []string {
	cl, ok := e.(*ast.CompositeLit)
	if !ok {
		xlib.Unreadable("expected a composite literal in %s", f.Path)
	}
	var out []string
	for _, el := range cl.Elts {
		kv, ok := el.(*ast.KeyValueExpr)
		if !ok {
			xlib.Unreadable("expected key: value in %s", f.Path)
		}
		bl, ok := kv.Key.(*ast.BasicLit)
		if !ok || bl.Kind != token.STRING {
			xlib.Unreadable("expected string key in %s", f.Path)
		}
		s, _ := strconv.Unquote(bl.Value)
		out = append(out, s)
	}
	sort.Strings(out)
	return out
}

func main() {
	lx := xlib.Parse("src/parse/asp/lexer.go")
	gp := xlib.Parse("src/parse/asp/grammar_parse.go")
	er := xlib.Parse("src/parse/asp/errors.go")
	gr := xlib.Parse("src/parse/asp/grammar.go")
	out := xlib.NewOut("C19", lx.Path, gp.Path, er.Path, gr.Path, "Go unicode tables")

	// token type enum
	out.Def("tokenTypes", "List String", xlib.LeanStrList(lx.ConstBlockNames("EOF")))

	// newLexer: sentinels and newline fix-up
	nl := lx.Func("newLexer")
	sent, fix := -1, false
	ast.Inspect(nl.Body, func(n ast.Node) bool {
		switch x := n.(type) {
		case *ast.KeyValueExpr:
			if k, ok := x.Key.(*ast.Ident); ok && k.Name == "bytes" {
				if c, ok := x.Value.(*ast.CallExpr); ok && callName(c) == "append" {
					sent = 0
					for _, a := range c.Args[1:] {
						if v, ok := charVal(a); ok && v == 0 {
							sent++
						} else {
							xlib.Unreadable("newLexer appends something other than NUL: %s", lx.Src(a))
						}
					}
				}
			}
		case *ast.IfStmt:
			// if len(b) > 0 && b[len(b)-1] != '\n' { b = append(b, '\n') }
			src := lx.Src(x.Cond)
			if strings.Contains(src, "!= '\\n'") && len(x.Body.List) == 1 && strings.Contains(lx.Src(x.Body.List[0]), "append(") && strings.Contains(lx.Src(x.Body.List[0]), "'\\n'") {
				fix = true
			}
		}
		return true
	})
	if sent < 0 {
		xlib.Unreadable("newLexer: `bytes: append(b, 0, …)` not found")
	}
	out.Def("sentinels", "Nat", strconv.Itoa(sent))
	out.Def("newlineFixup", "Bool", xlib.LeanBool(fix))

	// look-ahead offsets over the whole lexer, and the largest constant jump of l.pos
	maxLA, minLA, maxJump := 0, 0, 1
	ast.Inspect(lx.AST, func(n ast.Node) bool {
		switch x := n.(type) {
		case *ast.IndexExpr:
			if k, ok := bytesIndexOffset(x); ok {
				if k > maxLA {
					maxLA = k
				}
				if k < minLA {
					minLA = k
				}
			}
		case *ast.AssignStmt:
			if x.Tok == token.ADD_ASSIGN && len(x.Lhs) == 1 {
				if s, ok := x.Lhs[0].(*ast.SelectorExpr); ok && s.Sel.Name == "pos" {
					if k, ok := charVal(x.Rhs[0]); ok && k > maxJump {
						maxJump = k
					}
				}
			}
		}
		return true
	})
	out.Def("maxLookahead", "Nat", strconv.Itoa(maxLA))
	out.Def("maxLookbehind", "Nat", strconv.Itoa(-minLA))
	out.Def("maxPosJump", "Nat", strconv.Itoa(maxJump))

	// nextToken's switch
	nt := lx.Func("lex.nextToken")
	var sw *ast.SwitchStmt
	// either the switch is a top-level statement (skipped input is handled by `return l.nextToken()`), or the whole
	// body is one unconditional `for { … }` (skipped input is handled by `continue`: every iteration redoes
	// stripSpaces / pos / the pending-unindent test exactly as a fresh call did)
	shape := "recursive"
	stmts := nt.Body.List
	if len(stmts) == 1 {
		if fl, ok := stmts[0].(*ast.ForStmt); ok && fl.Init == nil && fl.Cond == nil && fl.Post == nil {
			shape = "loop"
			stmts = fl.Body.List
		}
	}
	for _, st := range stmts {
		if s, ok := st.(*ast.SwitchStmt); ok {
			if sw != nil {
				xlib.Unreadable("nextToken: more than one top-level switch")
			}
			sw = s
		}
	}
	out.Def("nextTokenShape", "String", xlib.LeanStr(shape))
	if sw == nil {
		xlib.Unreadable("nextToken: switch not found")
	}
	var cases []string
	var sums []string
	classes := map[string][]int{}
	exhaustive := true
	hasDefault := false
	for _, c := range sw.Body.List {
		cc := c.(*ast.CaseClause)
		var vals []int
		for _, e := range cc.List {
			v, ok := charVal(e)
			if !ok {
				xlib.Unreadable("nextToken: non-constant case %s", lx.Src(e))
			}
			vals = append(vals, v)
		}
		sum := clauseSummary(lx, cc.Body)
		if cc.List == nil {
			hasDefault = true
			cases = append(cases, "[]")
		} else {
			cases = append(cases, xlib.LeanNatList(vals))
		}
		sums = append(sums, sum)
		if !endsControl(cc.Body, "fail") {
			exhaustive = false
		}
		switch {
		case strings.Contains(sum, "field:braces++"):
			classes["open"] = append(classes["open"], vals...)
		case strings.Contains(sum, "field:braces--"):
			classes["close"] = append(classes["close"], vals...)
		case strings.Contains(sum, "type:LexOperator") && strings.Contains(sum, "fallthrough"):
			classes["eqop"] = append(classes["eqop"], vals...)
		case sum == "type:literal":
			classes["single"] = append(classes["single"], vals...)
		}
	}
	out.Def("switchCases", "List (List Nat)", "["+strings.Join(cases, ", ")+"]")
	out.Def("switchSummaries", "List String", xlib.LeanStrList(sums))
	out.Def("switchHasDefault", "Bool", xlib.LeanBool(hasDefault))
	// every clause ends in return / fallthrough / l.fail, so the statement after the switch is dead
	out.Def("switchClausesAllLeave", "Bool", xlib.LeanBool(exhaustive))
	out.Def("openBraces", "List Nat", xlib.LeanNatList(classes["open"]))
	out.Def("closeBraces", "List Nat", xlib.LeanNatList(classes["close"]))
	out.Def("eqOps", "List Nat", xlib.LeanNatList(classes["eqop"]))
	out.Def("singles", "List Nat", xlib.LeanNatList(classes["single"]))

	// fail call sites of the lexer: first argument must be a position variable
	var failArgs, failMsgs []string
	ast.Inspect(lx.AST, func(n ast.Node) bool {
		if c, ok := n.(*ast.CallExpr); ok {
			if s, ok := c.Fun.(*ast.SelectorExpr); ok && s.Sel.Name == "fail" && len(c.Args) >= 2 {
				failArgs = append(failArgs, lx.Src(c.Args[0]))
				if bl, ok := c.Args[1].(*ast.BasicLit); ok {
					m, _ := strconv.Unquote(bl.Value)
					failMsgs = append(failMsgs, m)
				} else {
					failMsgs = append(failMsgs, "?")
				}
			}
		}
		return true
	})
	out.Def("lexFailPosArgs", "List String", xlib.LeanStrList(failArgs))
	out.Def("lexFailMsgs", "List String", xlib.LeanStrList(failMsgs))

	// panic sites
	out.Def("lexerPanics", "List (String × String)", leanPairs(panicSites(lx)))
	out.Def("grammarPanics", "List (String × String)", leanPairs(panicSites(gp)))
	var failPanics []panicSite
	for _, p := range panicSites(er) {
		if p.fn == "fail" {
			failPanics = append(failPanics, p)
		}
	}
	out.Def("failPanics", "List (String × String)", leanPairs(failPanics))
	out.Def("addStackFrameReturnsError", "Bool", xlib.LeanBool(resultIsError(er.Func("AddStackFrame"))))
	// fail's body is the single panic statement (it never returns)
	fb := er.Func("fail").Body.List
	failOnlyPanics := false
	if len(fb) == 1 {
		if es, ok := fb[0].(*ast.ExprStmt); ok {
			if c, ok := es.X.(*ast.CallExpr); ok && callName(c) == "panic" {
				failOnlyPanics = true
			}
		}
	}
	out.Def("failOnlyPanics", "Bool", xlib.LeanBool(failOnlyPanics))
	// lex.fail and parser.fail delegate to fail(filename, pos, …) with their own position argument
	deleg := func(f *xlib.File, name string) string {
		fd := f.Func(name)
		if len(fd.Body.List) != 1 {
			return "other"
		}
		es, ok := fd.Body.List[0].(*ast.ExprStmt)
		if !ok {
			return "other"
		}
		c, ok := es.X.(*ast.CallExpr)
		if !ok || callName(c) != "fail" || len(c.Args) < 2 {
			return "other"
		}
		// which parameter supplies the position (by index), and through which selector
		params := []string{}
		for _, fl := range fd.Type.Params.List {
			for _, nm := range fl.Names {
				params = append(params, nm.Name)
			}
		}
		arg := c.Args[1]
		suffix := ""
		if s, ok := arg.(*ast.SelectorExpr); ok {
			arg, suffix = s.X, "."+s.Sel.Name
		}
		if id, ok := arg.(*ast.Ident); ok {
			for i, p := range params {
				if p == id.Name {
					return "param" + strconv.Itoa(i) + suffix
				}
			}
		}
		return "other"
	}
	out.Def("lexFailDelegates", "String", xlib.LeanStr(deleg(lx, "lex.fail")))
	out.Def("parserFailDelegates", "String", xlib.LeanStr(deleg(gp, "parser.fail")))

	// recovery in parseFileInput: `err = r.(error)` (unchecked assertion) inside a deferred recover()
	pf := gp.Func("parseFileInput")
	rec := "none"
	ast.Inspect(pf.Body, func(n ast.Node) bool {
		if d, ok := n.(*ast.DeferStmt); ok {
			ast.Inspect(d, func(m ast.Node) bool {
				if as, ok := m.(*ast.AssignStmt); ok && len(as.Rhs) == 1 {
					if ta, ok := as.Rhs[0].(*ast.TypeAssertExpr); ok && ta.Type != nil {
						if len(as.Lhs) == 1 {
							rec = "unchecked:" + gp.Src(ta.Type)
						} else {
							rec = "checked:" + gp.Src(ta.Type)
						}
					}
				}
				return true
			})
		}
		return true
	})
	out.Def("recoverAssertion", "String", xlib.LeanStr(rec))

	// the grammar functions: for every method of *parser, the calls it makes on p / p.l in source order, with the
	// constant arguments of the token-consuming primitives (rename-robust fingerprint of what Model/AspParse.lean
	// transcribes)
	var pc []string
	for _, d := range gp.AST.Decls {
		fd, ok := d.(*ast.FuncDecl)
		if !ok || fd.Recv == nil || fd.Body == nil || len(fd.Recv.List) != 1 || len(fd.Recv.List[0].Names) != 1 {
			continue
		}
		self := fd.Recv.List[0].Names[0].Name
		var seq []string
		ast.Inspect(fd.Body, func(n ast.Node) bool {
			c, ok := n.(*ast.CallExpr)
			if !ok {
				return true
			}
			sel, ok := c.Fun.(*ast.SelectorExpr)
			if !ok {
				return true
			}
			recv := ""
			switch x := sel.X.(type) {
			case *ast.Ident:
				recv = x.Name
			case *ast.SelectorExpr:
				if id, ok := x.X.(*ast.Ident); ok {
					recv = id.Name + "." + x.Sel.Name
				}
			}
			if recv != self && recv != self+".l" {
				return true
			}
			nm := sel.Sel.Name
			var args []string
			for _, a := range c.Args {
				if bl, ok := a.(*ast.BasicLit); ok && (bl.Kind == token.CHAR || bl.Kind == token.STRING) {
					args = append(args, bl.Value)
				} else if id, ok := a.(*ast.Ident); ok && (id.Name == "EOL" || id.Name == "Ident" || id.Name == "String" || id.Name == "Unindent" || id.Name == "Int" || id.Name == "EOF") {
					args = append(args, id.Name)
				}
			}
			if len(args) > 0 && nm != "fail" && nm != "assert" {
				nm += "(" + strings.Join(args, ",") + ")"
			}
			seq = append(seq, nm)
			return true
		})
		pc = append(pc, "("+xlib.LeanStr(fd.Name.Name)+", "+xlib.LeanStr(strings.Join(seq, " "))+")")
	}
	out.Def("parserCalls", "List (String × String)", "[\n  "+strings.Join(pc, ",\n  ")+"]")

	// concatStrings: does the "plain string, then f-string" branch test for an f-string without variables before
	// it indexes Vars[0]?
	guard, guardBoth := false, false
	ast.Inspect(gp.Func("concatStrings").Body, func(n ast.Node) bool {
		is, ok := n.(*ast.IfStmt)
		if !ok || len(is.Body.List) == 0 {
			return true
		}
		c := strings.ReplaceAll(gp.Src(is.Cond), " ", "")
		guarded := false
		if inner, ok := is.Body.List[0].(*ast.IfStmt); ok {
			ic := strings.ReplaceAll(gp.Src(inner.Cond), " ", "")
			guarded = strings.HasPrefix(ic, "len(") && strings.HasSuffix(ic, ".FString.Vars)==0") && endsControl(inner.Body.List, "fail")
		}
		switch {
		case strings.Contains(c, ".FString==nil&&") && strings.HasSuffix(c, ".FString!=nil"):
			guard = guarded
		case strings.Contains(c, ".FString!=nil&&") && strings.HasSuffix(c, ".FString!=nil"):
			guardBoth = guarded
		}
		return true
	})
	out.Def("concatGuardsBareFString", "Bool", xlib.LeanBool(guard))
	// the same test in the "both are f-strings" branch (grammar_parse.go:433)
	out.Def("concatGuardsBothFString", "Bool", xlib.LeanBool(guardBoth))

	// grammar tables
	out.Def("keywords", "List String", xlib.LeanStrList(stringKeys(gp, gp.VarValue("keywords"))))
	out.Def("operators", "List String", xlib.LeanStrList(stringKeys(gr, gr.VarValue("operators"))))
	var argTypes []string
	ast.Inspect(gp.Func("parser.parseArgument").Body, func(n ast.Node) bool {
		if c, ok := n.(*ast.CallExpr); ok && callName(c) == "oneofval" && argTypes == nil {
			for _, a := range c.Args {
				if bl, ok := a.(*ast.BasicLit); ok && bl.Kind == token.STRING {
					s, _ := strconv.Unquote(bl.Value)
					argTypes = append(argTypes, s)
				}
			}
		}
		return true
	})
	out.Def("argTypeNames", "List String", xlib.LeanStrList(argTypes))
	// the int-literal length guard of parseValueExpression: `len(tok.Value) < K`
	intLen := -1
	ast.Inspect(gp.Func("parser.parseValueExpression").Body, func(n ast.Node) bool {
		if be, ok := n.(*ast.BinaryExpr); ok && be.Op == token.LSS {
			if c, ok := be.X.(*ast.CallExpr); ok && callName(c) == "len" && strings.Contains(gp.Src(c.Args[0]), "Value") {
				if k, ok := charVal(be.Y); ok {
					intLen = k
				}
			}
		}
		return true
	})
	if intLen < 0 {
		xlib.Unreadable("parseValueExpression: int literal length guard not found")
	}
	out.Def("intLitMaxLen", "Nat", strconv.Itoa(intLen))

	// knownTypeNames (objects.go): the Type() string of each element of knownTypes, in order
	ob := xlib.Parse("src/parse/asp/objects.go")
	typeStr := map[string]string{}
	for _, d := range ob.AST.Decls {
		fd, ok := d.(*ast.FuncDecl)
		if !ok || fd.Name.Name != "Type" || fd.Recv == nil || fd.Body == nil || len(fd.Body.List) != 1 {
			continue
		}
		rs, ok := fd.Body.List[0].(*ast.ReturnStmt)
		if !ok || len(rs.Results) != 1 {
			continue
		}
		bl, ok := rs.Results[0].(*ast.BasicLit)
		if !ok || bl.Kind != token.STRING {
			continue
		}
		t := fd.Recv.List[0].Type
		if st, ok := t.(*ast.StarExpr); ok {
			t = st.X
		}
		if id, ok := t.(*ast.Ident); ok {
			typeStr[id.Name], _ = strconv.Unquote(bl.Value)
		}
	}
	var goType func(e ast.Expr, depth int) string
	goType = func(e ast.Expr, depth int) string {
		switch x := e.(type) {
		case *ast.CallExpr:
			if id, ok := x.Fun.(*ast.Ident); ok {
				return id.Name
			}
		case *ast.CompositeLit:
			if id, ok := x.Type.(*ast.Ident); ok {
				return id.Name
			}
		case *ast.UnaryExpr:
			return goType(x.X, depth)
		case *ast.Ident:
			if depth < 3 {
				return goType(ob.VarValue(x.Name), depth+1)
			}
		}
		return "?"
	}
	var known []string
	kt, ok := ob.VarValue("knownTypes").(*ast.CompositeLit)
	if !ok {
		xlib.Unreadable("knownTypes is not a composite literal")
	}
	for _, el := range kt.Elts {
		nm, ok := typeStr[goType(el, 0)]
		if !ok {
			xlib.Unreadable("cannot resolve Type() of knownTypes element %s", ob.Src(el))
		}
		known = append(known, nm)
	}
	out.Def("knownTypeNames", "List String", xlib.LeanStrList(known))

	out.Def("letterRanges", "List (Nat × Nat × Nat)", rangeTable(unicode.Letter))
	out.Def("digitRanges", "List (Nat × Nat × Nat)", rangeTable(unicode.Digit))
	out.Write()
}
