// Facts for C29 from src/remote/fs/fs.go:
//   - findNode: the order in which the three node lists are searched and where the "has to be a directory"
//     cut sits between them; the "." and ".." special cases;
//   - open: that it calls itself on a symlink node, how many parameters it has (a depth limit would need
//     one more, or a counter), and that the absolute-target check precedes the recursion;
//   - dir.ReadDir: the order of the three loops, whether the dir value carries any integer state (a read
//     offset) and whether io.EOF is ever returned.
package main

import (
	"go/ast"
	"go/token"
	"strconv"
	"strings"

	"verif/harness/xlib"
)

func main() {
	f := xlib.Parse("src/remote/fs/fs.go")
	out := xlib.NewOut("C29", f.Path)

	// ---- findNode
	fn := f.Func("CASFileSystem.findNode")
	var order []string
	dot, dotdot := false, false
	for _, st := range fn.Body.List {
		switch s := st.(type) {
		case *ast.RangeStmt:
			sel, ok := s.X.(*ast.SelectorExpr)
			if !ok {
				xlib.Unreadable("findNode: range over %s", f.Src(s.X))
			}
			order = append(order, sel.Sel.Name)
		case *ast.IfStmt:
			c := f.Src(s.Cond)
			switch {
			case strings.Contains(c, `== "."`):
				dot = true
			case strings.Contains(c, `== ".."`):
				dotdot = true
				if len(s.Body.List) != 1 || !strings.Contains(f.Src(s.Body.List[0]), "ErrNotExist") {
					xlib.Unreadable("findNode: the \"..\" case does not return ErrNotExist")
				}
			default:
				if id, ok := s.Cond.(*ast.Ident); ok && len(s.Body.List) == 1 && strings.Contains(f.Src(s.Body.List[0]), "ErrNotExist") {
					_ = id
					order = append(order, "mustBeDir")
				} else {
					xlib.Unreadable("findNode: unrecognised top-level if %s", c)
				}
			}
		}
	}
	out.Def("findOrder", "List String", xlib.LeanStrList(order))
	out.Def("findDot", "Bool", xlib.LeanBool(dot))
	out.Def("findDotDot", "Bool", xlib.LeanBool(dotdot))

	// ---- open
	op := f.Func("CASFileSystem.open")
	nparams := 0
	for _, fl := range op.Type.Params.List {
		nparams += len(fl.Names)
	}
	selfCalls, absBefore := 0, false
	sawAbs := false
	ast.Inspect(op.Body, func(n ast.Node) bool {
		if c, ok := n.(*ast.CallExpr); ok {
			src := f.Src(c.Fun)
			if strings.HasSuffix(src, ".IsAbs") {
				sawAbs = true
			}
			if sel, ok := c.Fun.(*ast.SelectorExpr); ok && sel.Sel.Name == "open" {
				selfCalls++
				if sawAbs {
					absBefore = true
				}
			}
		}
		return true
	})
	// any loop or counter that could bound the recursion
	bounded := false
	ast.Inspect(op.Body, func(n ast.Node) bool {
		switch n.(type) {
		case *ast.ForStmt, *ast.IncDecStmt:
			bounded = true
		}
		return true
	})
	out.Def("openParams", "Nat", strconv.Itoa(nparams))
	out.Def("openSelfCalls", "Nat", strconv.Itoa(selfCalls))
	out.Def("openAbsCheckFirst", "Bool", xlib.LeanBool(absBefore))
	out.Def("openHasLoopOrCounter", "Bool", xlib.LeanBool(bounded))

	// ---- dir.ReadDir
	rd := f.Func("dir.ReadDir")
	var rdOrder []string
	eof := false
	ast.Inspect(rd.Body, func(n ast.Node) bool {
		switch s := n.(type) {
		case *ast.RangeStmt:
			if sel, ok := s.X.(*ast.SelectorExpr); ok {
				rdOrder = append(rdOrder, sel.Sel.Name)
			}
		case *ast.SelectorExpr:
			if s.Sel.Name == "EOF" {
				eof = true
			}
		}
		return true
	})
	out.Def("readDirOrder", "List String", xlib.LeanStrList(rdOrder))
	out.Def("readDirReturnsEOF", "Bool", xlib.LeanBool(eof))
	// integer-typed fields of the dir struct (a read offset would be one)
	intFields := 0
	found := false
	for _, d := range f.AST.Decls {
		gd, ok := d.(*ast.GenDecl)
		if !ok || gd.Tok != token.TYPE {
			continue
		}
		for _, s := range gd.Specs {
			ts := s.(*ast.TypeSpec)
			if ts.Name.Name != "dir" {
				continue
			}
			st, ok := ts.Type.(*ast.StructType)
			if !ok {
				xlib.Unreadable("type dir is not a struct")
			}
			found = true
			for _, fl := range st.Fields.List {
				if id, ok := fl.Type.(*ast.Ident); ok && strings.HasPrefix(id.Name, "int") || strings.HasPrefix(f.Src(fl.Type), "uint") {
					intFields += len(fl.Names)
				}
			}
		}
	}
	if !found {
		xlib.Unreadable("type dir not found")
	}
	out.Def("dirIntFields", "Nat", strconv.Itoa(intFields))
	// ReadDir assigns to a field of the receiver?
	mut := false
	recv := ""
	if rd.Recv != nil && len(rd.Recv.List) == 1 && len(rd.Recv.List[0].Names) == 1 {
		recv = rd.Recv.List[0].Names[0].Name
	}
	ast.Inspect(rd.Body, func(n ast.Node) bool {
		if as, ok := n.(*ast.AssignStmt); ok {
			for _, l := range as.Lhs {
				if sel, ok := l.(*ast.SelectorExpr); ok {
					if id, ok := sel.X.(*ast.Ident); ok && id.Name == recv {
						mut = true
					}
				}
			}
		}
		return true
	})
	out.Def("readDirMutatesReceiver", "Bool", xlib.LeanBool(mut))
	out.Write()
}
