// Facts for C29 from src/remote/fs/fs.go:
//   - findNode: the order in which the three node lists are searched and where the "has to be a directory"
//     cut sits between them; the "." and ".." special cases;
//   - open: that it calls itself on a symlink node, how many parameters it has (a depth limit would need
//     one more, or a counter), and that the absolute-target check precedes the recursion;
//   - dir.ReadDir: the order of the three loops, whether the dir value carries any integer state (a read
//     offset) and whether io.EOF is ever returned.
package main

import (
	"crypto/sha256"
	"encoding/hex"
	"go/ast"
	"go/token"
	"strconv"
	"strings"

	"verif/harness/xlib"
)

func main() {
	f := xlib.Parse("src/remote/fs/fs.go")
	out := xlib.NewOut("C29", f.Path)

	// ---- findNode
	fn := f.Func("CASFileSystem.findNode")
	var order []string
	dot, dotdot := false, false
	for _, st := range fn.Body.List {
		switch s := st.(type) {
		case *ast.RangeStmt:
			sel, ok := s.X.(*ast.SelectorExpr)
			if !ok {
				xlib.Unreadable("findNode: range over %s", f.Src(s.X))
			}
			order = append(order, sel.Sel.Name)
		case *ast.IfStmt:
			c := f.Src(s.Cond)
			switch {
			case strings.Contains(c, `== "."`):
				dot = true
			case strings.Contains(c, `== ".."`):
				dotdot = true
				if len(s.Body.List) != 1 || !strings.Contains(f.Src(s.Body.List[0]), "ErrNotExist") {
					xlib.Unreadable("findNode: the \"..\" case does not return ErrNotExist")
				}
			default:
				if id, ok := s.Cond.(*ast.Ident); ok && len(s.Body.List) == 1 && strings.Contains(f.Src(s.Body.List[0]), "ErrNotExist") {
					_ = id
					order = append(order, "mustBeDir")
				} else {
					xlib.Unreadable("findNode: unrecognised top-level if %s", c)
				}
			}
		}
	}
	out.Def("findOrder", "List String", xlib.LeanStrList(order))
	out.Def("findDot", "Bool", xlib.LeanBool(dot))
	out.Def("findDotDot", "Bool", xlib.LeanBool(dotdot))

	// ---- open
	op := f.Func("CASFileSystem.open")
	nparams := 0
	for _, fl := range op.Type.Params.List {
		nparams += len(fl.Names)
	}
	selfCalls, absBefore := 0, false
	sawAbs := false
	ast.Inspect(op.Body, func(n ast.Node) bool {
		if c, ok := n.(*ast.CallExpr); ok {
			src := f.Src(c.Fun)
			if strings.HasSuffix(src, ".IsAbs") {
				sawAbs = true
			}
			if sel, ok := c.Fun.(*ast.SelectorExpr); ok && sel.Sel.Name == "open" {
				selfCalls++
				if sawAbs {
					absBefore = true
				}
			}
		}
		return true
	})
	// any loop or counter that could bound the recursion
	bounded := false
	ast.Inspect(op.Body, func(n ast.Node) bool {
		switch n.(type) {
		case *ast.ForStmt, *ast.IncDecStmt:
			bounded = true
		}
		return true
	})
	// a depth limit: the function starts with `if <second parameter> > <constant> { return … }`
	limit := "none"
	if nparams == 2 && len(op.Body.List) > 0 {
		var pnames []string
		for _, fl := range op.Type.Params.List {
			for _, n := range fl.Names {
				pnames = append(pnames, n.Name)
			}
		}
		if ifs, ok := op.Body.List[0].(*ast.IfStmt); ok {
			if be, ok := ifs.Cond.(*ast.BinaryExpr); ok && be.Op == token.GTR {
				if id, ok := be.X.(*ast.Ident); ok && id.Name == pnames[1] && len(ifs.Body.List) == 1 {
					if _, ok := ifs.Body.List[0].(*ast.ReturnStmt); ok {
						var v ast.Expr = be.Y
						if cid, ok := be.Y.(*ast.Ident); ok {
							v = f.VarValue(cid.Name)
						}
						if bl, ok := v.(*ast.BasicLit); ok && bl.Kind == token.INT {
							limit = "some " + bl.Value
						}
					}
				}
			}
		}
		// the recursive call must pass the counter plus one
		okInc := false
		ast.Inspect(op.Body, func(n ast.Node) bool {
			if c, ok := n.(*ast.CallExpr); ok {
				if sel, ok := c.Fun.(*ast.SelectorExpr); ok && sel.Sel.Name == "open" && len(c.Args) == 2 {
					if strings.Join(strings.Fields(f.Src(c.Args[1])), "") == pnames[1]+"+1" {
						okInc = true
					}
				}
			}
			return true
		})
		if !okInc {
			limit = "none"
		}
	}
	out.Def("openDepthLimit", "Option Nat", limit)
	out.Def("openParams", "Nat", strconv.Itoa(nparams))
	out.Def("openSelfCalls", "Nat", strconv.Itoa(selfCalls))
	out.Def("openAbsCheckFirst", "Bool", xlib.LeanBool(absBefore))
	out.Def("openHasLoopOrCounter", "Bool", xlib.LeanBool(bounded))

	// ---- dir.ReadDir
	rd := f.Func("dir.ReadDir")
	var rdOrder []string
	eof := false
	ast.Inspect(rd.Body, func(n ast.Node) bool {
		switch s := n.(type) {
		case *ast.RangeStmt:
			if sel, ok := s.X.(*ast.SelectorExpr); ok {
				rdOrder = append(rdOrder, sel.Sel.Name)
			}
		case *ast.SelectorExpr:
			if s.Sel.Name == "EOF" {
				eof = true
			}
		}
		return true
	})
	out.Def("readDirOrder", "List String", xlib.LeanStrList(rdOrder))
	out.Def("readDirReturnsEOF", "Bool", xlib.LeanBool(eof))
	// integer-typed fields of the dir struct (a read offset would be one)
	intFields := 0
	found := false
	for _, d := range f.AST.Decls {
		gd, ok := d.(*ast.GenDecl)
		if !ok || gd.Tok != token.TYPE {
			continue
		}
		for _, s := range gd.Specs {
			ts := s.(*ast.TypeSpec)
			if ts.Name.Name != "dir" {
				continue
			}
			st, ok := ts.Type.(*ast.StructType)
			if !ok {
				xlib.Unreadable("type dir is not a struct")
			}
			found = true
			for _, fl := range st.Fields.List {
				if id, ok := fl.Type.(*ast.Ident); ok && strings.HasPrefix(id.Name, "int") || strings.HasPrefix(f.Src(fl.Type), "uint") {
					intFields += len(fl.Names)
				}
			}
		}
	}
	if !found {
		xlib.Unreadable("type dir not found")
	}
	out.Def("dirIntFields", "Nat", strconv.Itoa(intFields))
	// ReadDir assigns to a field of the receiver?
	mut := false
	recv := ""
	if rd.Recv != nil && len(rd.Recv.List) == 1 && len(rd.Recv.List[0].Names) == 1 {
		recv = rd.Recv.List[0].Names[0].Name
	}
	ast.Inspect(rd.Body, func(n ast.Node) bool {
		if as, ok := n.(*ast.AssignStmt); ok {
			for _, l := range as.Lhs {
				if sel, ok := l.(*ast.SelectorExpr); ok {
					if id, ok := sel.X.(*ast.Ident); ok && id.Name == recv {
						mut = true
					}
				}
			}
		}
		return true
	})
	out.Def("readDirMutatesReceiver", "Bool", xlib.LeanBool(mut))
	// the handle keeps a read offset: an integer field, advanced by ReadDir, and io.EOF at the end
	out.Def("readDirHasOffset", "Bool", xlib.LeanBool(intFields > 0 && mut && eof))

	// canonical skeletons of everything the model transcribes (digests; the text is kept as a comment)
	emitSkeleton(out, "skelFindNode", skeleton(f, fn, 0))
	emitSkeleton(out, "skelOpenRec", skeleton(f, op, 0))
	emitSkeleton(out, "skelReadDir", skeleton(f, rd, 0))
	emitSkeleton(out, "skelOpen", skeleton(f, f.Func("CASFileSystem.Open"), 0))
	emitSkeleton(out, "skelFindNodeAPI", skeleton(f, f.Func("CASFileSystem.FindNode"), 0))
	emitSkeleton(out, "skelStat", skeleton(f, f.Func("CASFileSystem.Stat"), 0))
	emitSkeleton(out, "skelNew", skeleton(f, f.Func("New"), 0))
	emitSkeleton(out, "skelChangeDir", skeleton(f, f.Func("CASFileSystem.ChangeDir"), 0))
	emitSkeleton(out, "skelOpenDir", skeleton(f, f.Func("CASFileSystem.openDir"), 0))
	emitSkeleton(out, "skelOpenFile", skeleton(f, f.Func("CASFileSystem.openFile"), 0))
	g := xlib.Parse("src/remote/fs/info.go")
	for _, n := range []string{"newFileInfo", "newDirInfo", "newSymlinkInfo", "info.withProperties"} {
		emitSkeleton(out, "skelInfo_"+strings.ReplaceAll(n, ".", "_"), skeleton(g, g.Func(n), 0))
	}
	out.Write()
}

// skeleton renders the statements of fn's body from index `from` on, canonically: parameters and receiver
// named by position, locals by order of declaration, long message strings blanked.
func skeleton(f *xlib.File, fn *ast.FuncDecl, from int) string {
	names := map[*ast.Object]string{}
	np := 0
	if fn.Recv != nil {
		for _, fl := range fn.Recv.List {
			for _, n := range fl.Names {
				if n.Obj != nil {
					names[n.Obj] = "r" + strconv.Itoa(np)
				}
				np++
			}
		}
	}
	np = 0
	for _, fl := range fn.Type.Params.List {
		for _, n := range fl.Names {
			if n.Obj != nil {
				names[n.Obj] = "p" + strconv.Itoa(np)
			}
			np++
		}
	}
	nv := 0
	ast.Inspect(fn.Body, func(n ast.Node) bool {
		if id, ok := n.(*ast.Ident); ok && id.Obj != nil && id.Obj.Kind == ast.Var {
			if _, seen := names[id.Obj]; !seen {
				if d, ok := id.Obj.Decl.(ast.Node); ok && d.Pos() >= fn.Body.Pos() && d.End() <= fn.Body.End() {
					names[id.Obj] = "v" + strconv.Itoa(nv)
					nv++
				}
			}
		}
		return true
	})
	ast.Inspect(fn.Body, func(n ast.Node) bool {
		switch x := n.(type) {
		case *ast.Ident:
			if x.Obj != nil {
				if nm, ok := names[x.Obj]; ok {
					x.Name = nm
				}
			}
		case *ast.BasicLit:
			if x.Kind == token.STRING && len(x.Value) > 6 && strings.Contains(x.Value, " ") {
				x.Value = `"…"`
			}
		}
		return true
	})
	var parts []string
	for _, st := range fn.Body.List[from:] {
		parts = append(parts, f.Src(st))
	}
	return strings.Join(parts, " ; ")
}

func emitSkeleton(out *xlib.Out, name, text string) {
	sum := sha256.Sum256([]byte(text))
	out.Raw("-- " + name + ": " + text)
	out.Def(name, "String", xlib.LeanStr(hex.EncodeToString(sum[:12])))
}
