// Facts for C20 from src/core/build_label.go, src/core/build_target.go, src/core/state.go and
// src/parse/asp/targets.go: the character sets and reserved suffixes of the label validators, the
// literals the label parser dispatches on, which validators the parser calls, and — for every place a
// pattern is tested against a package name — whether the test is by path component (`+ "/"` with an
// equality disjunct) or a raw strings.HasPrefix.
package main

import (
	"go/ast"
	"go/token"
	"sort"
	"strconv"
	"strings"

	"verif/harness/xlib"
)

// calls returns every call expression in n whose callee renders as name (e.g. "strings.HasPrefix", "validateTargetName").
func calls(f *xlib.File, n ast.Node, name string) []*ast.CallExpr {
	var out []*ast.CallExpr
	ast.Inspect(n, func(nd ast.Node) bool {
		if c, ok := nd.(*ast.CallExpr); ok && f.Src(c.Fun) == name {
			out = append(out, c)
		}
		return true
	})
	return out
}

// methodCalls returns calls of the form <expr>.name(...).
func methodCalls(n ast.Node, name string) []*ast.CallExpr {
	var out []*ast.CallExpr
	ast.Inspect(n, func(nd ast.Node) bool {
		if c, ok := nd.(*ast.CallExpr); ok {
			if s, ok := c.Fun.(*ast.SelectorExpr); ok && s.Sel.Name == name {
				out = append(out, c)
			}
		}
		return true
	})
	return out
}

func strLit(e ast.Expr) (string, bool) {
	if b, ok := e.(*ast.BasicLit); ok && (b.Kind == token.STRING || b.Kind == token.CHAR) {
		s, err := strconv.Unquote(b.Value)
		if err == nil {
			return s, true
		}
	}
	return "", false
}

// plusSlash reports whether e is `<something> + "/"`.
func plusSlash(e ast.Expr) bool {
	if p, ok := e.(*ast.ParenExpr); ok {
		return plusSlash(p.X)
	}
	if b, ok := e.(*ast.BinaryExpr); ok && b.Op == token.ADD {
		if s, ok := strLit(b.Y); ok && s == "/" {
			return true
		}
	}
	return false
}

// literals: all string and char literals under n, sorted and de-duplicated.
func literals(n ast.Node) []string {
	set := map[string]bool{}
	ast.Inspect(n, func(nd ast.Node) bool {
		if b, ok := nd.(*ast.BasicLit); ok {
			if s, ok := strLit(b); ok {
				set[s] = true
			}
		}
		return true
	})
	var out []string
	for k := range set {
		out = append(out, k)
	}
	sort.Strings(out)
	return out
}

func hasLit(n ast.Node, lit string) bool {
	for _, l := range literals(n) {
		if l == lit {
			return true
		}
	}
	return false
}

// comparesWithLit: n contains `x == "lit"` (either side).
func comparesWithLit(n ast.Node, lit string) bool {
	found := false
	ast.Inspect(n, func(nd ast.Node) bool {
		if b, ok := nd.(*ast.BinaryExpr); ok && b.Op == token.EQL {
			for _, e := range []ast.Expr{b.X, b.Y} {
				if s, ok := strLit(e); ok && s == lit {
					found = true
				}
			}
		}
		return true
	})
	return found
}

func containsAnySet(f *xlib.File, fn *ast.FuncDecl) []rune {
	cs := calls(f, fn, "strings.ContainsAny")
	if len(cs) != 1 || len(cs[0].Args) != 2 {
		xlib.Unreadable("%s: expected exactly one strings.ContainsAny call", fn.Name.Name)
	}
	s, ok := strLit(cs[0].Args[1])
	if !ok {
		xlib.Unreadable("%s: ContainsAny set is not a literal", fn.Name.Name)
	}
	return []rune(s)
}

// prefixMode classifies the strings.HasPrefix tests in n: "slash" when every one extends the pattern by "/",
// "raw" when none does.
func prefixMode(f *xlib.File, n ast.Node, what string) string {
	cs := calls(f, n, "strings.HasPrefix")
	if len(cs) == 0 {
		return "none"
	}
	slash, raw := 0, 0
	for _, c := range cs {
		if len(c.Args) == 2 && plusSlash(c.Args[1]) {
			slash++
		} else {
			raw++
		}
	}
	if slash > 0 && raw > 0 {
		xlib.Unreadable("%s: mixed HasPrefix forms", what)
	}
	if slash > 0 {
		return "slash"
	}
	return "raw"
}

func main() {
	bl := xlib.Parse("src/core/build_label.go")
	bt := xlib.Parse("src/core/build_target.go")
	st := xlib.Parse("src/core/state.go")
	tg := xlib.Parse("src/parse/asp/targets.go")
	out := xlib.NewOut("C20", bl.Path, bt.Path, st.Path, tg.Path)

	// validators
	vp, vt := bl.Func("validatePackageName"), bl.Func("validateTargetName")
	out.Def("pkgBadChars", "List Char", xlib.LeanCharList(containsAnySet(bl, vp)))
	out.Def("tgtBadChars", "List Char", xlib.LeanCharList(containsAnySet(bl, vt)))
	dbl := false
	for _, c := range calls(bl, vp, "strings.Contains") {
		if s, ok := strLit(c.Args[1]); ok && s == "//" {
			dbl = true
		}
	}
	out.Def("pkgForbidsDoubleSlash", "Bool", xlib.LeanBool(dbl))
	edge := []string{}
	for _, l := range literals(vp.Body) {
		if len(l) == 1 {
			edge = append(edge, l)
		}
	}
	out.Def("pkgSingleCharLits", "List String", xlib.LeanStrList(edge))
	tl := []string{}
	for _, l := range literals(vt.Body) {
		if l != string(containsAnySet(bl, vt)) {
			tl = append(tl, l)
		}
	}
	out.Def("tgtOtherLits", "List String", xlib.LeanStrList(tl))
	sufArgs := []string{}
	for _, c := range calls(bl, vt, "strings.HasSuffix") {
		sufArgs = append(sufArgs, bl.Src(c.Args[1]))
	}
	sort.Strings(sufArgs)
	out.Def("tgtSuffixChecks", "List String", xlib.LeanStrList(sufArgs))
	for _, nm := range []string{"buildDirSuffix", "testDirSuffix"} {
		s, ok := strLit(bt.VarValue(nm))
		if !ok {
			xlib.Unreadable("%s is not a string literal", nm)
		}
		out.Def(nm, "String", xlib.LeanStr(s))
	}
	vs := bl.Func("validateSuffixes")
	out.Def("validateSuffixesChecks", "Nat", strconv.Itoa(len(calls(bl, vs, "strings.HasSuffix"))))

	// parser
	pp, ps := bl.Func("ParseBuildLabelParts"), bl.Func("parseBuildLabelSubrepo")
	out.Def("parseLits", "List String", xlib.LeanStrList(literals(pp.Body)))
	out.Def("subrepoLits", "List String", xlib.LeanStrList(literals(ps.Body)))
	out.Def("parseValidateTargetCalls", "Nat", strconv.Itoa(len(calls(bl, pp, "validateTargetName"))))
	out.Def("parseValidatePackageCalls", "Nat", strconv.Itoa(len(calls(bl, pp, "validatePackageName"))))
	out.Def("subrepoValidateCalls", "Nat", strconv.Itoa(len(calls(bl, ps, "validateTargetName"))+len(calls(bl, ps, "validatePackageName"))+len(calls(bl, ps, "validateNames"))))
	ints := []string{}
	ast.Inspect(pp.Body, func(nd ast.Node) bool {
		if b, ok := nd.(*ast.BinaryExpr); ok && b.Op == token.LSS {
			if l, ok := b.Y.(*ast.BasicLit); ok && l.Kind == token.INT {
				ints = append(ints, l.Value)
			}
		}
		return true
	})
	out.Def("parseMinLen", "List String", xlib.LeanStrList(ints))
	tp := bl.Func("TryParseBuildLabel")
	out.Def("tryParseRejectsEmptyName", "Bool", xlib.LeanBool(strings.Contains(bl.Src(tp.Body), `name != ""`)))

	// printing
	sf := bl.Func("BuildLabel.String")
	out.Def("stringLits", "List String", xlib.LeanStrList(literals(sf.Body)))

	// pseudo-target names, Parent
	out.Def("allSubpackagesName", "List String", xlib.LeanStrList(literals(bl.Func("BuildLabel.IsAllSubpackages").Body)))
	out.Def("allTargetsName", "List String", xlib.LeanStrList(literals(bl.Func("BuildLabel.IsAllTargets").Body)))
	out.Def("parentLits", "List String", xlib.LeanStrList(literals(bl.Func("BuildLabel.Parent").Body)))
	out.Def("originalTarget", "List String", xlib.LeanStrList(literals(bl.VarValue("OriginalTarget"))))

	// Includes
	inc := bl.Func("BuildLabel.Includes")
	m := prefixMode(bl, inc, "Includes")
	if m == "none" {
		xlib.Unreadable("Includes: no strings.HasPrefix test")
	}
	out.Def("includesSlash", "Bool", xlib.LeanBool(m == "slash"))

	// Matches
	mt := bl.Func("BuildLabel.Matches")
	mm := prefixMode(bl, mt, "Matches")
	if mm == "none" || len(methodCalls(mt, "Includes")) > 0 {
		xlib.Unreadable("Matches: prefix test has a shape the model does not know")
	}
	out.Def("matchesSlash", "Bool", xlib.LeanBool(mm == "slash"))
	out.Def("matchesDot", "Bool", xlib.LeanBool(comparesWithLit(mt, ".")))
	out.Def("matchesLits", "List String", xlib.LeanStrList(literals(mt.Body)))
	out.Def("matchesUsesParent", "Bool", xlib.LeanBool(len(methodCalls(mt, "Parent")) == 1))

	// experimental directories
	ie := bl.Func("BuildLabel.isExperimental")
	out.Def("isExperimentalUsesIncludes", "Bool", xlib.LeanBool(len(methodCalls(ie, "Includes")) == 1 && len(calls(bl, ie, "strings.HasPrefix")) == 0))
	out.Def("isExperimentalChecksSubrepo", "Bool", xlib.LeanBool(strings.Contains(bl.Src(ie.Body), `label.Subrepo != ""`) || strings.Contains(bl.Src(ie.Body), `Subrepo != ""`)))
	nbs := st.Func("NewBuildState")
	expName := ""
	ast.Inspect(nbs.Body, func(nd ast.Node) bool {
		if as, ok := nd.(*ast.AssignStmt); ok && strings.Contains(st.Src(as.Lhs[0]), "experimentalLabels") {
			ast.Inspect(as.Rhs[0], func(x ast.Node) bool {
				if kv, ok := x.(*ast.KeyValueExpr); ok && st.Src(kv.Key) == "Name" {
					expName, _ = strLit(kv.Value)
				}
				return true
			})
		}
		return true
	})
	out.Def("experimentalLabelName", "String", xlib.LeanStr(expName))

	// validateSandbox
	sb := tg.Func("validateSandbox")
	wlMethod, expMode := "", ""
	ast.Inspect(sb.Body, func(nd ast.Node) bool {
		rs, ok := nd.(*ast.RangeStmt)
		if !ok {
			return true
		}
		src := tg.Src(rs.X)
		switch {
		case strings.HasSuffix(src, "ExcludeableTargets"):
			for _, nm := range []string{"Matches", "Includes"} {
				if len(methodCalls(rs.Body, nm)) == 1 {
					wlMethod += nm
				}
			}
		case strings.HasSuffix(src, "ExperimentalDir"):
			expMode = prefixMode(tg, rs.Body, "validateSandbox experimental dirs")
		}
		return true
	})
	if wlMethod != "Matches" {
		xlib.Unreadable("validateSandbox: whitelist test is %q, the model knows Matches", wlMethod)
	}
	if expMode != "raw" && expMode != "slash" {
		xlib.Unreadable("validateSandbox: experimental-dir test has a shape the model does not know (%s)", expMode)
	}
	out.Def("sandboxWhitelistMethod", "String", xlib.LeanStr(wlMethod))
	out.Def("sandboxExpSlash", "Bool", xlib.LeanBool(expMode == "slash"))
	out.Def("sandboxLits", "List String", xlib.LeanStrList(literals(sb.Body)))
	out.Write()
}
