// Facts for C13 from src/cache/http_cache.go and cmd_cache.go: what each cache's writer does when walking an output
// fails (go on / stop, cancel the command, close the pipe normally or with the error), the order of Lstat, header,
// Open and copy in storeFile, and what the readers do with an error, with end-of-input, with 404 / non-200, and with
// the retrieve command's exit status.
package main

import (
	"go/ast"
	"go/token"
	"strings"

	"verif/harness/xlib"
)

func callName(c *ast.CallExpr) string {
	switch f := c.Fun.(type) {
	case *ast.SelectorExpr:
		if id, ok := f.X.(*ast.Ident); ok {
			return id.Name + "." + f.Sel.Name
		}
		return "?." + f.Sel.Name
	case *ast.Ident:
		return f.Name
	}
	return "?"
}

func paramNames(fn *ast.FuncDecl) []string {
	var out []string
	for _, fl := range fn.Type.Params.List {
		for _, n := range fl.Names {
			out = append(out, n.Name)
		}
	}
	return out
}

// what the `if err := fs.Walk(...); err != nil { ... }` inside the range over the outputs does
func onWalkError(f *xlib.File, fn *ast.FuncDecl) (found bool, acts []string) {
	ast.Inspect(fn.Body, func(n ast.Node) bool {
		rs, ok := n.(*ast.RangeStmt)
		if !ok {
			return true
		}
		for _, st := range rs.Body.List {
			is, ok := st.(*ast.IfStmt)
			if !ok || is.Init == nil || !strings.Contains(f.Src(is.Init), "fs.Walk(") {
				continue
			}
			found = true
			for _, b := range is.Body.List {
				switch x := b.(type) {
				case *ast.ReturnStmt:
					acts = append(acts, "return")
				case *ast.BranchStmt:
					acts = append(acts, strings.ToLower(x.Tok.String()))
				case *ast.ExprStmt:
					if c, ok := x.X.(*ast.CallExpr); ok {
						name := callName(c)
						switch {
						case strings.HasPrefix(name, "log."):
						case strings.HasSuffix(name, ".CloseWithError"):
							acts = append(acts, "close-with-error")
						default:
							acts = append(acts, "call:"+name)
						}
					}
				default:
					acts = append(acts, "other")
				}
			}
		}
		return true
	})
	return
}

// deferred lists the deferred Close calls of a writer function by the ROLE of what is closed, not by its name:
// the first parameter is the pipe, a variable made by gzip.NewWriter is the gzip layer, one made by tar.NewWriter the tar layer.
func deferred(f *xlib.File, fn *ast.FuncDecl) []string {
	role := map[string]string{}
	if ps := paramNames(fn); len(ps) > 0 {
		role[ps[0]] = "pipe"
	}
	ast.Inspect(fn.Body, func(n ast.Node) bool {
		if as, ok := n.(*ast.AssignStmt); ok && len(as.Lhs) == 1 && len(as.Rhs) == 1 {
			if c, ok := as.Rhs[0].(*ast.CallExpr); ok {
				if id, ok := as.Lhs[0].(*ast.Ident); ok {
					switch callName(c) {
					case "gzip.NewWriter":
						role[id.Name] = "gzip"
					case "tar.NewWriter":
						role[id.Name] = "tar"
					}
				}
			}
		}
		return true
	})
	var out []string
	for _, st := range fn.Body.List {
		if d, ok := st.(*ast.DeferStmt); ok {
			name := callName(d.Call)
			if recv, method, ok := strings.Cut(name, "."); ok && role[recv] != "" {
				name = role[recv] + "." + method
			}
			out = append(out, name)
		}
	}
	return out
}

func main() {
	hf := xlib.Parse("src/cache/http_cache.go")
	cf := xlib.Parse("src/cache/cmd_cache.go")
	out := xlib.NewOut("C13", hf.Path, cf.Path)

	// ---- httpCache.write
	hw := hf.Func("httpCache.write")
	hp := paramNames(hw)
	ok, acts := onWalkError(hf, hw)
	if !ok {
		xlib.Unreadable("httpCache.write: no `if err := fs.Walk(...)` inside a range over the outputs")
	}
	out.Def("httpOnWalkError", "List String", xlib.LeanStrList(acts))
	defs := deferred(hf, hw)
	out.Def("httpDeferred", "List String", xlib.LeanStrList(defs))
	pipeClosed := false
	for _, d := range defs {
		if d == "pipe.Close" {
			pipeClosed = true
		}
	}
	_ = hp
	out.Def("httpClosesPipeNormally", "Bool", xlib.LeanBool(pipeClosed))

	// ---- storeFile: Lstat, header, Open, copy
	sf := hf.Func("storeFile")
	var order []string
	ast.Inspect(sf.Body, func(n ast.Node) bool {
		if c, ok := n.(*ast.CallExpr); ok {
			switch name := callName(c); {
			case name == "os.Lstat":
				order = append(order, "lstat")
			case strings.HasSuffix(name, ".WriteHeader"):
				order = append(order, "header")
			case name == "os.Open":
				order = append(order, "open")
			case name == "io.Copy":
				order = append(order, "copy")
			}
		}
		return true
	})
	out.Def("storeFileOrder", "List String", xlib.LeanStrList(order))

	// ---- readTar: every return statement, labelled by the call whose error guards it
	//   next-eof    `if err == io.EOF { return true, nil }`      next-error  the other return under `hdr, err := tr.Next()`
	//   mkdirall / open / copy / close / symlink                  the `if … err := <call>; err != nil { return … }` arms
	rt := hf.Func("readTar")
	siteOf := func(is *ast.IfStmt) string {
		src := ""
		if is.Init != nil {
			src = hf.Src(is.Init)
		}
		switch {
		case strings.Contains(src, "os.MkdirAll("):
			return "mkdirall"
		case strings.Contains(src, "openFile(") || strings.Contains(src, "os.OpenFile("):
			return "open"
		case strings.Contains(src, "io.Copy("):
			return "copy"
		case strings.Contains(src, ".Close()"):
			return "close"
		case strings.Contains(src, "os.Symlink("):
			return "symlink"
		case hf.Src(is.Cond) == "err == io.EOF":
			return "next-eof"
		case is.Init == nil && hf.Src(is.Cond) == "err != nil":
			return "next-error"
		}
		return "other"
	}
	var rets []string
	var stack []ast.Node
	ast.Inspect(rt.Body, func(n ast.Node) bool {
		if n == nil {
			stack = stack[:len(stack)-1]
			return true
		}
		stack = append(stack, n)
		if r, ok := n.(*ast.ReturnStmt); ok {
			site := "top"
			// the innermost enclosing if whose BODY (not else-chain) holds this return
			for i := len(stack) - 2; i >= 0; i-- {
				if is, ok := stack[i].(*ast.IfStmt); ok {
					inBody := i+1 < len(stack) && stack[i+1] == ast.Node(is.Body)
					if inBody {
						site = siteOf(is)
						break
					}
				}
			}
			var rs []string
			for _, e := range r.Results {
				rs = append(rs, hf.Src(e))
			}
			rets = append(rets, site+" -> "+strings.Join(rs, ", "))
		}
		return true
	})
	out.Def("readTarReturns", "List String", xlib.LeanStrList(rets))
	// no way out of the loop other than a return
	loopOnlyReturns := true
	ast.Inspect(rt.Body, func(n ast.Node) bool {
		if b, ok := n.(*ast.BranchStmt); ok && (b.Tok == token.BREAK || b.Tok == token.GOTO) {
			loopOnlyReturns = false
		}
		return true
	})
	out.Def("readTarLoopLeftOnlyByReturn", "Bool", xlib.LeanBool(loopOnlyReturns))

	// ---- httpCache.retrieve: 404 -> false, nil ; != 200 -> false, error
	hr := hf.Func("httpCache.retrieve")
	nf, non200 := false, false
	ast.Inspect(hr.Body, func(n ast.Node) bool {
		is, ok := n.(*ast.IfStmt)
		for ok && is != nil {
			cond := hf.Src(is.Cond)
			last := ""
			if len(is.Body.List) > 0 {
				last = hf.Src(is.Body.List[len(is.Body.List)-1])
			}
			if strings.HasSuffix(cond, "== http.StatusNotFound") && strings.HasPrefix(last, "return false, nil") {
				nf = true
			}
			if strings.HasSuffix(cond, "!= http.StatusOK") && strings.HasPrefix(last, "return false, ") && !strings.HasPrefix(last, "return false, nil") {
				non200 = true
			}
			is, ok = is.Else.(*ast.IfStmt)
		}
		return true
	})
	out.Def("httpNotFoundIsMiss", "Bool", xlib.LeanBool(nf))
	out.Def("httpNon200IsError", "Bool", xlib.LeanBool(non200))

	// ---- command cache: write
	cw := cf.Func("write")
	cp := paramNames(cw)
	ok, acts = onWalkError(cf, cw)
	if !ok {
		xlib.Unreadable("cmd write: no `if err := fs.Walk(...)` inside a range over the outputs")
	}
	for i, a := range acts {
		if len(cp) == 4 && a == "call:"+cp[3] {
			acts[i] = "cancel"
		}
	}
	out.Def("cmdOnWalkError", "List String", xlib.LeanStrList(acts))
	out.Def("cmdDeferred", "List String", xlib.LeanStrList(deferred(cf, cw)))
	// is the tar writer closed as the LAST statement of write (reached only when every output was walked)?
	tarVar := ""
	ast.Inspect(cw.Body, func(n ast.Node) bool {
		if as, ok := n.(*ast.AssignStmt); ok && len(as.Lhs) == 1 && len(as.Rhs) == 1 {
			if c, ok := as.Rhs[0].(*ast.CallExpr); ok && callName(c) == "tar.NewWriter" {
				if id, ok := as.Lhs[0].(*ast.Ident); ok {
					tarVar = id.Name
				}
			}
		}
		return true
	})
	closedAtEnd := false
	if n := len(cw.Body.List); n > 0 && tarVar != "" {
		if es, ok := cw.Body.List[n-1].(*ast.ExprStmt); ok {
			if c, ok := es.X.(*ast.CallExpr); ok && callName(c) == tarVar+".Close" {
				closedAtEnd = true
			}
		}
	}
	out.Def("cmdTarClosedAtEndOfSuccessPath", "Bool", xlib.LeanBool(closedAtEnd))

	// ---- command cache: Store runs the command under a cancellable context; Retrieve ands the exit status
	cs := cf.Func("cmdCache.Store")
	ctxCmd, passesCancel := false, false
	ast.Inspect(cs.Body, func(n ast.Node) bool {
		switch x := n.(type) {
		case *ast.CallExpr:
			if callName(x) == "exec.CommandContext" {
				ctxCmd = true
			}
		case *ast.GoStmt:
			if callName(x.Call) == "write" && len(x.Call.Args) == 4 && cf.Src(x.Call.Args[3]) == "cancel" {
				passesCancel = true
			}
		}
		return true
	})
	out.Def("cmdStoreCancellable", "Bool", xlib.LeanBool(ctxCmd && passesCancel))
	cr := cf.Func("cmdCache.Retrieve")
	ands := false
	for _, st := range cr.Body.List {
		if rs, ok := st.(*ast.ReturnStmt); ok && len(rs.Results) == 1 {
			if be, ok := rs.Results[0].(*ast.BinaryExpr); ok && be.Op == token.LAND {
				if _, isRecv := be.Y.(*ast.UnaryExpr); isRecv {
					ands = true
				}
			}
		}
	}
	out.Def("cmdRetrieveAndsExitStatus", "Bool", xlib.LeanBool(ands))
	// the reader's input never ends by itself: cmd.Stdout is the pipe's write end, nobody closes it, and the goroutine that
	// waits for the command closes the READ end afterwards - so a hit needs tar's own end marker
	var pipeR, pipeW string
	closesRead, closesWrite, stdoutIsW := false, false, false
	ast.Inspect(cr.Body, func(n ast.Node) bool {
		switch x := n.(type) {
		case *ast.AssignStmt:
			if len(x.Lhs) == 2 && len(x.Rhs) == 1 {
				if c, ok := x.Rhs[0].(*ast.CallExpr); ok && callName(c) == "io.Pipe" {
					pipeR, pipeW = cf.Src(x.Lhs[0]), cf.Src(x.Lhs[1])
				}
			}
			if len(x.Lhs) == 1 && len(x.Rhs) == 1 && strings.HasSuffix(cf.Src(x.Lhs[0]), ".Stdout") && pipeW != "" && cf.Src(x.Rhs[0]) == pipeW {
				stdoutIsW = true
			}
		case *ast.CallExpr:
			if pipeR != "" && callName(x) == pipeR+".Close" {
				closesRead = true
			}
			if pipeW != "" && (callName(x) == pipeW+".Close" || callName(x) == pipeW+".CloseWithError") {
				closesWrite = true
			}
		}
		return true
	})
	out.Def("cmdRetrieveInputNeverEndsCleanly", "Bool", xlib.LeanBool(stdoutIsW && closesRead && !closesWrite))
	out.Write()
}
