// Facts for C13 from src/cache/http_cache.go and cmd_cache.go: what each cache's writer does when walking an output
// fails (go on / stop, cancel the command, close the pipe normally or with the error), the order of Lstat, header,
// Open and copy in storeFile, and what the readers do with an error, with end-of-input, with 404 / non-200, and with
// the retrieve command's exit status.
package main

import (
	"go/ast"
	"go/token"
	"strings"

	"verif/harness/xlib"
)

func callName(c *ast.CallExpr) string {
	switch f := c.Fun.(type) {
	case *ast.SelectorExpr:
		if id, ok := f.X.(*ast.Ident); ok {
			return id.Name + "." + f.Sel.Name
		}
		return "?." + f.Sel.Name
	case *ast.Ident:
		return f.Name
	}
	return "?"
}

func paramNames(fn *ast.FuncDecl) []string {
	var out []string
	for _, fl := range fn.Type.Params.List {
		for _, n := range fl.Names {
			out = append(out, n.Name)
		}
	}
	return out
}

// what the `if err := fs.Walk(...); err != nil { ... }` inside the range over the outputs does
func onWalkError(f *xlib.File, fn *ast.FuncDecl) (found bool, acts []string) {
	ast.Inspect(fn.Body, func(n ast.Node) bool {
		rs, ok := n.(*ast.RangeStmt)
		if !ok {
			return true
		}
		for _, st := range rs.Body.List {
			is, ok := st.(*ast.IfStmt)
			if !ok || is.Init == nil || !strings.Contains(f.Src(is.Init), "fs.Walk(") {
				continue
			}
			found = true
			for _, b := range is.Body.List {
				switch x := b.(type) {
				case *ast.ReturnStmt:
					acts = append(acts, "return")
				case *ast.BranchStmt:
					acts = append(acts, strings.ToLower(x.Tok.String()))
				case *ast.ExprStmt:
					if c, ok := x.X.(*ast.CallExpr); ok {
						name := callName(c)
						switch {
						case strings.HasPrefix(name, "log."):
						case strings.HasSuffix(name, ".CloseWithError"):
							acts = append(acts, "close-with-error")
						default:
							acts = append(acts, "call:"+name)
						}
					}
				default:
					acts = append(acts, "other")
				}
			}
		}
		return true
	})
	return
}

func deferred(f *xlib.File, fn *ast.FuncDecl) []string {
	var out []string
	for _, st := range fn.Body.List {
		if d, ok := st.(*ast.DeferStmt); ok {
			out = append(out, callName(d.Call))
		}
	}
	return out
}

func main() {
	hf := xlib.Parse("src/cache/http_cache.go")
	cf := xlib.Parse("src/cache/cmd_cache.go")
	out := xlib.NewOut("C13", hf.Path, cf.Path)

	// ---- httpCache.write
	hw := hf.Func("httpCache.write")
	hp := paramNames(hw)
	ok, acts := onWalkError(hf, hw)
	if !ok {
		xlib.Unreadable("httpCache.write: no `if err := fs.Walk(...)` inside a range over the outputs")
	}
	out.Def("httpOnWalkError", "List String", xlib.LeanStrList(acts))
	defs := deferred(hf, hw)
	out.Def("httpDeferred", "List String", xlib.LeanStrList(defs))
	pipeClosed := false
	for _, d := range defs {
		if d == hp[0]+".Close" {
			pipeClosed = true
		}
	}
	out.Def("httpClosesPipeNormally", "Bool", xlib.LeanBool(pipeClosed))

	// ---- storeFile: Lstat, header, Open, copy
	sf := hf.Func("storeFile")
	var order []string
	ast.Inspect(sf.Body, func(n ast.Node) bool {
		if c, ok := n.(*ast.CallExpr); ok {
			switch name := callName(c); {
			case name == "os.Lstat":
				order = append(order, "lstat")
			case strings.HasSuffix(name, ".WriteHeader"):
				order = append(order, "header")
			case name == "os.Open":
				order = append(order, "open")
			case name == "io.Copy":
				order = append(order, "copy")
			}
		}
		return true
	})
	out.Def("storeFileOrder", "List String", xlib.LeanStrList(order))

	// ---- readTar: err from Next: io.EOF -> true, nil ; anything else -> false, err
	rt := hf.Func("readTar")
	eofHit, errMiss, otherFalse := false, false, true
	ast.Inspect(rt.Body, func(n ast.Node) bool {
		switch x := n.(type) {
		case *ast.IfStmt:
			if hf.Src(x.Cond) == "err == io.EOF" && len(x.Body.List) == 1 && hf.Src(x.Body.List[0]) == "return true, nil" {
				eofHit = true
			}
		case *ast.ReturnStmt:
			if len(x.Results) == 2 {
				a, b := hf.Src(x.Results[0]), hf.Src(x.Results[1])
				if a == "false" && b == "err" {
					errMiss = true
				}
				if a == "true" && b != "nil" {
					otherFalse = false
				}
			}
		}
		return true
	})
	out.Def("readTarEofIsHit", "Bool", xlib.LeanBool(eofHit))
	out.Def("readTarErrorIsMiss", "Bool", xlib.LeanBool(errMiss && otherFalse))

	// ---- httpCache.retrieve: 404 -> false, nil ; != 200 -> false, error
	hr := hf.Func("httpCache.retrieve")
	nf, non200 := false, false
	ast.Inspect(hr.Body, func(n ast.Node) bool {
		is, ok := n.(*ast.IfStmt)
		for ok && is != nil {
			cond := hf.Src(is.Cond)
			last := ""
			if len(is.Body.List) > 0 {
				last = hf.Src(is.Body.List[len(is.Body.List)-1])
			}
			if strings.HasSuffix(cond, "== http.StatusNotFound") && strings.HasPrefix(last, "return false, nil") {
				nf = true
			}
			if strings.HasSuffix(cond, "!= http.StatusOK") && strings.HasPrefix(last, "return false, ") && !strings.HasPrefix(last, "return false, nil") {
				non200 = true
			}
			is, ok = is.Else.(*ast.IfStmt)
		}
		return true
	})
	out.Def("httpNotFoundIsMiss", "Bool", xlib.LeanBool(nf))
	out.Def("httpNon200IsError", "Bool", xlib.LeanBool(non200))

	// ---- command cache: write
	cw := cf.Func("write")
	cp := paramNames(cw)
	ok, acts = onWalkError(cf, cw)
	if !ok {
		xlib.Unreadable("cmd write: no `if err := fs.Walk(...)` inside a range over the outputs")
	}
	for i, a := range acts {
		if len(cp) == 4 && a == "call:"+cp[3] {
			acts[i] = "cancel"
		}
	}
	out.Def("cmdOnWalkError", "List String", xlib.LeanStrList(acts))
	out.Def("cmdDeferred", "List String", xlib.LeanStrList(deferred(cf, cw)))

	// ---- command cache: Store runs the command under a cancellable context; Retrieve ands the exit status
	cs := cf.Func("cmdCache.Store")
	ctxCmd, passesCancel := false, false
	ast.Inspect(cs.Body, func(n ast.Node) bool {
		switch x := n.(type) {
		case *ast.CallExpr:
			if callName(x) == "exec.CommandContext" {
				ctxCmd = true
			}
		case *ast.GoStmt:
			if callName(x.Call) == "write" && len(x.Call.Args) == 4 && cf.Src(x.Call.Args[3]) == "cancel" {
				passesCancel = true
			}
		}
		return true
	})
	out.Def("cmdStoreCancellable", "Bool", xlib.LeanBool(ctxCmd && passesCancel))
	cr := cf.Func("cmdCache.Retrieve")
	ands := false
	for _, st := range cr.Body.List {
		if rs, ok := st.(*ast.ReturnStmt); ok && len(rs.Results) == 1 {
			if be, ok := rs.Results[0].(*ast.BinaryExpr); ok && be.Op == token.LAND {
				if _, isRecv := be.Y.(*ast.UnaryExpr); isRecv {
					ands = true
				}
			}
		}
	}
	out.Def("cmdRetrieveAndsExitStatus", "Bool", xlib.LeanBool(ands))
	out.Write()
}
