// Facts for C25 from src/gc/gc.go: the root test of targetsToRemove, the order of its passes, the test pass, what
// feeds keepSrcs, the removal test (gcSibling / HasParent / keepTargets / isIncluded), what addTarget follows, how
// publicDependencies and gcSibling decide.  Parameters are named by POSITION, locals by their defining statement.
package main

import (
	"go/ast"
	"go/token"
	"strings"

	"verif/harness/xlib"
)

func ident(e ast.Expr) string {
	if id, ok := e.(*ast.Ident); ok {
		return id.Name
	}
	return ""
}

func paramNames(fn *ast.FuncDecl) []string {
	var out []string
	for _, fl := range fn.Type.Params.List {
		for _, nm := range fl.Names {
			out = append(out, nm.Name)
		}
	}
	return out
}

func norm(f *xlib.File, n ast.Node, roles map[string]string) string {
	s := f.Src(n)
	var b strings.Builder
	cur := ""
	flush := func() {
		if r, ok := roles[cur]; ok {
			b.WriteString(r)
		} else {
			b.WriteString(cur)
		}
		cur = ""
	}
	for _, c := range s {
		if c == '_' || (c >= 'a' && c <= 'z') || (c >= 'A' && c <= 'Z') || (c >= '0' && c <= '9') {
			cur += string(c)
		} else {
			flush()
			b.WriteRune(c)
		}
	}
	flush()
	return b.String()
}

// withLocals extends roles with positional names v1, v2, … for every identifier declared inside fn (by :=,
// range or if-init), in source order, so that renaming a local does not change the facts.
func withLocals(fn *ast.FuncDecl, roles map[string]string) map[string]string {
	return withLocalsNode(fn.Body, roles)
}

// withLocalsNode numbers the locals declared inside one statement (numbering restarts per statement, so a rename
// in one loop does not shift the names in another).
func withLocalsNode(body ast.Node, roles map[string]string) map[string]string {
	out := map[string]string{}
	for k, v := range roles {
		out[k] = v
	}
	k := 0
	decl := func(e ast.Expr) {
		if id, ok := e.(*ast.Ident); ok && id.Name != "_" {
			if _, seen := out[id.Name]; !seen {
				k++
				out[id.Name] = "v" + string(rune('0'+k/10)) + string(rune('0'+k%10))
			}
		}
	}
	ast.Inspect(body, func(n ast.Node) bool {
		switch x := n.(type) {
		case *ast.AssignStmt:
			if x.Tok == token.DEFINE {
				for _, l := range x.Lhs {
					decl(l)
				}
			}
		case *ast.RangeStmt:
			if x.Tok == token.DEFINE {
				if x.Key != nil {
					decl(x.Key)
				}
				if x.Value != nil {
					decl(x.Value)
				}
			}
		}
		return true
	})
	return out
}

// callsTo lists, in source order, the normalised calls to function `name` inside n.
func callsTo(f *xlib.File, n ast.Node, name string, roles map[string]string) []string {
	var out []string
	ast.Inspect(n, func(x ast.Node) bool {
		if c, ok := x.(*ast.CallExpr); ok && ident(c.Fun) == name {
			out = append(out, norm(f, c, roles))
		}
		return true
	})
	return out
}

func isLogCall(s ast.Stmt) bool {
	es, ok := s.(*ast.ExprStmt)
	if !ok {
		return false
	}
	c, ok := es.X.(*ast.CallExpr)
	if !ok {
		return false
	}
	sel, ok := c.Fun.(*ast.SelectorExpr)
	return ok && ident(sel.X) == "log"
}

func main() {
	f := xlib.Parse("src/gc/gc.go")
	out := xlib.NewOut("C25", f.Path)

	// ---------------------------------------------------------------- targetsToRemove
	fn := f.Func("targetsToRemove")
	p := paramNames(fn)
	if len(p) != 6 {
		xlib.Unreadable("targetsToRemove has %d parameters", len(p))
	}
	roles := map[string]string{p[0]: "GRAPH", p[1]: "FILTER", p[2]: "ARGS", p[3]: "NAMED", p[4]: "KEEPLABELS", p[5]: "INCLUDETESTS"}
	// locals: the keep map (first := of a composite literal), keepSrcs, ret, retSrcs
	var passes []string
	keepMap, keepSrcs := "", ""
	for _, s := range fn.Body.List {
		switch st := s.(type) {
		case *ast.AssignStmt:
			if len(st.Lhs) == 1 && st.Tok == token.DEFINE {
				name := ident(st.Lhs[0])
				if cl, ok := st.Rhs[0].(*ast.CompositeLit); ok {
					switch f.Src(cl.Type) {
					case "targetMap":
						keepMap = name
						roles[name] = "KEEP"
					case "map[string]bool":
						keepSrcs = name
						roles[name] = "KEEPSRCS"
					}
				}
				if c, ok := st.Rhs[0].(*ast.CallExpr); ok && ident(c.Fun) == "make" {
					roles[name] = "RET"
				}
				if cl, ok := st.Rhs[0].(*ast.CompositeLit); ok && f.Src(cl.Type) == "[]string" {
					roles[name] = "RETSRCS"
				}
			}
		}
	}
	if keepMap == "" || keepSrcs == "" {
		xlib.Unreadable("keep map / keepSrcs not found")
	}
	describeRange := func(rs *ast.RangeStmt) string {
		x := norm(f, rs.X, roles)
		loopRoles := withLocalsNode(rs, roles)
		var body []string
		for _, s := range rs.Body.List {
			if isLogCall(s) {
				continue
			}
			body = append(body, norm(f, s, loopRoles))
		}
		return "range " + x + " { " + strings.Join(body, " ; ") + " }"
	}
	stripLogs := func(s string) string { // log lines inside nested blocks
		for {
			i := strings.Index(s, "log.")
			if i < 0 {
				return s
			}
			j := strings.Index(s[i:], ") ")
			if j < 0 {
				return s
			}
			s = s[:i] + s[i+j+2:]
		}
	}
	for _, s := range fn.Body.List {
		switch st := s.(type) {
		case *ast.RangeStmt:
			passes = append(passes, stripLogs(describeRange(st)))
		case *ast.IfStmt:
			r2 := withLocalsNode(st, roles)
			passes = append(passes, stripLogs("if "+norm(f, st.Cond, r2)+" "+norm(f, st.Body, r2)))
		case *ast.ExprStmt:
			if !isLogCall(s) {
				passes = append(passes, norm(f, s, roles))
			}
		case *ast.ReturnStmt:
			passes = append(passes, norm(f, s, roles))
		case *ast.AssignStmt, *ast.DeclStmt, *ast.IncDecStmt:
			// initialisations of the keep map / keepSrcs / result slices — and anything that would reset them between passes
			passes = append(passes, norm(f, s, roles))
		default:
			xlib.Unreadable("targetsToRemove: statement of an unexpected kind at line %d", f.Line(s))
		}
	}
	out.Def("passes", "List String", xlib.LeanStrList(passes))

	// ---------------------------------------------------------------- addTarget
	at := f.Func("addTarget")
	ap := paramNames(at)
	aroles := withLocals(at, map[string]string{ap[0]: "GRAPH", ap[1]: "M", ap[2]: "T"})
	var astmts []string
	for _, s := range at.Body.List {
		if !isLogCall(s) {
			astmts = append(astmts, norm(f, s, aroles))
		}
	}
	out.Def("addTarget", "List String", xlib.LeanStrList(astmts))

	// ---------------------------------------------------------------- publicDependencies
	pd := f.Func("publicDependencies")
	pp := paramNames(pd)
	proles := withLocals(pd, map[string]string{pp[0]: "GRAPH", pp[1]: "T"})
	var pstmts []string
	for _, s := range pd.Body.List {
		pstmts = append(pstmts, norm(f, s, proles))
	}
	out.Def("publicDependencies", "List String", xlib.LeanStrList(pstmts))

	// ---------------------------------------------------------------- gcSibling, isIncluded, anyInclude
	gs := f.Func("gcSibling")
	gp := paramNames(gs)
	groles := withLocals(gs, map[string]string{gp[0]: "GRAPH", gp[1]: "T"})
	var gstmts []string
	for _, s := range gs.Body.List {
		gstmts = append(gstmts, stripLogs(norm(f, s, groles)))
	}
	out.Def("gcSibling", "List String", xlib.LeanStrList(gstmts))
	ii := f.Func("isIncluded")
	ip := paramNames(ii)
	iroles := withLocals(ii, map[string]string{ip[0]: "T", ip[1]: "FILTER"})
	var istmts []string
	for _, s := range ii.Body.List {
		istmts = append(istmts, norm(f, s, iroles))
	}
	out.Def("isIncluded", "List String", xlib.LeanStrList(istmts))
	_ = callsTo
	out.Write()
}
