// Facts for C17 from src/parse/asp: who owns the overlay map of a CONFIG object.
//
//	objects.go      type pyConfig struct: its fields (base, overlay; anything else, e.g. a copy-on-write flag, is new)
//	objects.go, config.go, interpreter.go, builtins.go:
//	                every assignment to a field `.overlay` — the function it is in and what is stored:
//	                make      make(pyDict, …)            a fresh map
//	                literal   pyDict{…}                  a fresh map
//	                copy      X.Copy()                   a fresh map holding a copy
//	                alias     some other expression      (e.g. other.overlay: the map of another config object)
//	                pyConfig.Merge: how the destination overlay is obtained when the config has none yet
package main

import (
	"go/ast"
	"sort"
	"strings"

	"verif/harness/xlib"
)

func kindOf(f *xlib.File, e ast.Expr) string {
	switch t := e.(type) {
	case *ast.CompositeLit:
		if f.Src(t.Type) == "pyDict" {
			return "literal"
		}
	case *ast.CallExpr:
		fn := f.Src(t.Fun)
		if fn == "make" && len(t.Args) >= 1 && f.Src(t.Args[0]) == "pyDict" {
			return "make"
		}
		if strings.HasSuffix(fn, ".Copy") {
			return "copy"
		}
	case *ast.Ident:
		if t.Name == "nil" {
			return "nil"
		}
	}
	return "alias"
}

func main() {
	files := []string{"src/parse/asp/objects.go", "src/parse/asp/config.go", "src/parse/asp/interpreter.go", "src/parse/asp/builtins.go"}
	out := xlib.NewOut("C17", files...)
	var assigns [][2]string
	mergeDest := ""
	var fields []string
	for _, path := range files {
		f := xlib.Parse(path)
		for _, d := range f.AST.Decls {
			switch t := d.(type) {
			case *ast.GenDecl:
				for _, sp := range t.Specs {
					ts, ok := sp.(*ast.TypeSpec)
					if !ok || ts.Name.Name != "pyConfig" {
						continue
					}
					if st, ok := ts.Type.(*ast.StructType); ok {
						for _, fl := range st.Fields.List {
							for _, n := range fl.Names {
								fields = append(fields, n.Name)
							}
						}
					}
				}
			case *ast.FuncDecl:
				if t.Body == nil {
					continue
				}
				name := t.Name.Name
				if t.Recv != nil && len(t.Recv.List) == 1 {
					rt := t.Recv.List[0].Type
					if se, ok := rt.(*ast.StarExpr); ok {
						rt = se.X
					}
					name = f.Src(rt) + "." + name
				}
				ast.Inspect(t.Body, func(n ast.Node) bool {
					as, ok := n.(*ast.AssignStmt)
					if !ok || len(as.Lhs) != len(as.Rhs) {
						return true
					}
					for i, l := range as.Lhs {
						if se, ok := l.(*ast.SelectorExpr); ok && se.Sel.Name == "overlay" {
							k := kindOf(f, as.Rhs[i])
							assigns = append(assigns, [2]string{name, k})
							if name == "pyConfig.Merge" {
								if mergeDest != "" && mergeDest != k {
									xlib.Unreadable("pyConfig.Merge assigns the overlay in more than one way (%s, %s)", mergeDest, k)
								}
								mergeDest = k
							}
						}
					}
					return true
				})
			}
		}
	}
	if len(fields) == 0 {
		xlib.Unreadable("type pyConfig struct not found")
	}
	if mergeDest == "" {
		xlib.Unreadable("pyConfig.Merge: no assignment to the overlay found")
	}
	sort.Slice(assigns, func(i, j int) bool {
		if assigns[i][0] != assigns[j][0] {
			return assigns[i][0] < assigns[j][0]
		}
		return assigns[i][1] < assigns[j][1]
	})
	var b strings.Builder
	b.WriteString("[")
	for i, a := range assigns {
		if i > 0 {
			b.WriteString(", ")
		}
		b.WriteString("(" + xlib.LeanStr(a[0]) + ", " + xlib.LeanStr(a[1]) + ")")
	}
	b.WriteString("]")
	out.Def("configFields", "List String", xlib.LeanStrList(fields))
	out.Def("overlayAssigns", "List (String × String)", b.String())
	out.Def("mergeDest", "String", xlib.LeanStr(mergeDest))
	out.Write()
}
