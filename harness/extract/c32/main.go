// Facts for C32 (crash safety of the build step) from src/build/build_step.go, src/build/incrementality.go,
// src/fs/fs.go and src/fs/attr.go: the ORDER of the filesystem-relevant calls in buildTarget (after the command
// ran), StoreTargetMetadata, moveOutput, writeRuleHash and fs.WriteFile, the shape of the stamp read-back loop and of
// needsBuilding's guards, and how the fallback record is named and written.
package main

import (
	"go/ast"
	"go/token"
	"sort"
	"strings"

	"verif/harness/xlib"
)

type call struct {
	pos  token.Pos
	name string
	node *ast.CallExpr
}

// callee name: "f" for f(...), "Sel" for x.Sel(...)
func calleeName(c *ast.CallExpr) string {
	switch f := c.Fun.(type) {
	case *ast.Ident:
		return f.Name
	case *ast.SelectorExpr:
		return f.Sel.Name
	}
	return ""
}

// calls returns, in source order, the calls under n whose callee name is in want.
func calls(n ast.Node, want map[string]bool) []call {
	var out []call
	ast.Inspect(n, func(nd ast.Node) bool {
		if c, ok := nd.(*ast.CallExpr); ok {
			if nm := calleeName(c); want[nm] {
				out = append(out, call{c.Pos(), nm, c})
			}
		}
		return true
	})
	sort.SliceStable(out, func(i, j int) bool { return out[i].pos < out[j].pos })
	return out
}

func set(xs ...string) map[string]bool {
	m := map[string]bool{}
	for _, x := range xs {
		m[x] = true
	}
	return m
}

func names(cs []call) []string {
	out := make([]string, len(cs))
	for i, c := range cs {
		out[i] = c.name
	}
	return out
}

func containsCall(n ast.Node, name string) bool { return len(calls(n, set(name))) > 0 }

func main() {
	bs := xlib.Parse("src/build/build_step.go")
	inc := xlib.Parse("src/build/incrementality.go")
	fsgo := xlib.Parse("src/fs/fs.go")
	attr := xlib.Parse("src/fs/attr.go")
	out := xlib.NewOut("C32", bs.Path, inc.Path, fsgo.Path, attr.Path)

	// --- buildTarget: what happens, in which order, once the command has run
	bt := bs.Func("buildTarget")
	runCmd := calls(bt.Body, set("build"))
	if len(runCmd) != 1 {
		xlib.Unreadable("buildTarget: expected exactly one call of build(...), found %d", len(runCmd))
	}
	phaseOf := map[string]string{"removeRuleHash": "unstamp", "StoreTargetMetadata": "metadata", "moveOutputs": "move",
		"calculateAndCheckRuleHash": "stamp", "writeRuleHash": "stamp", "storeInCache": "cache"}
	var phases []string
	seen := map[string]bool{}
	for _, c := range calls(bt.Body, set("removeRuleHash", "StoreTargetMetadata", "moveOutputs", "calculateAndCheckRuleHash", "writeRuleHash", "storeInCache")) {
		if c.pos < runCmd[0].pos {
			continue
		}
		if p := phaseOf[c.name]; !seen[p] {
			seen[p] = true
			phases = append(phases, p)
		}
	}
	out.Def("buildPhases", "List String", xlib.LeanStrList(phases))
	// the up-to-date path: a metadata load failure is returned as an error
	loadFatal := false
	ast.Inspect(bt.Body, func(nd ast.Node) bool {
		blk, ok := nd.(*ast.BlockStmt)
		if !ok {
			return true
		}
		for i, st := range blk.List {
			as, ok := st.(*ast.AssignStmt)
			if !ok || len(as.Rhs) != 1 {
				continue
			}
			if c, ok := as.Rhs[0].(*ast.CallExpr); ok && calleeName(c) == "loadTargetMetadata" && i+1 < len(blk.List) {
				if is, ok := blk.List[i+1].(*ast.IfStmt); ok && strings.Contains(bs.Src(is.Cond), "err != nil") {
					for _, s := range is.Body.List {
						if _, ok := s.(*ast.ReturnStmt); ok {
							loadFatal = true
						}
					}
				}
			}
		}
		return true
	})
	out.Def("loadMetadataFailureIsFatal", "Bool", xlib.LeanBool(loadFatal))
	// Build: a failed buildTarget is followed by RemoveOutputs
	bld := bs.Func("Build")
	bc := calls(bld.Body, set("buildTarget", "RemoveOutputs"))
	out.Def("buildFailureCalls", "List String", xlib.LeanStrList(names(bc)))
	// RemoveOutputs: RemoveAll of every output
	ro := bs.Func("RemoveOutputs")
	out.Def("removeOutputsCalls", "List String", xlib.LeanStrList(names(calls(ro.Body, set("RemoveAll", "Outputs")))))

	// --- the hashes of the OLD outputs are recalculated (not read back from the memoised user.plz_hash_* xattr, which
	// a partially removed directory would still carry) before the command runs: outputHashOrNil -> outputHash -> Hash(f, true, ..)
	recalcBefore := false
	for _, c := range calls(bt.Body, set("outputHashOrNil")) {
		if c.pos < runCmd[0].pos && len(c.node.Args) >= 2 && containsCall(c.node.Args[1], "FullOutputs") {
			recalcBefore = true
		}
	}
	ohn := bs.Func("outputHashOrNil")
	if !containsCall(ohn.Body, "outputHash") {
		recalcBefore = false
	}
	oh := bs.Func("outputHash")
	var recalcArgs []string
	for _, c := range calls(oh.Body, set("Hash")) {
		if len(c.node.Args) >= 2 {
			recalcArgs = append(recalcArgs, bs.Src(c.node.Args[1]))
		}
	}
	out.Def("oldOutputsRehashedBeforeCommand", "Bool", xlib.LeanBool(recalcBefore))
	out.Def("outputHashRecalcArgs", "List String", xlib.LeanStrList(recalcArgs))

	// --- calculateAndCheckRuleHash: the stamp is written after the output hash was taken
	cr := bs.Func("calculateAndCheckRuleHash")
	out.Def("stampPhaseCalls", "List String", xlib.LeanStrList(names(calls(cr.Body, set("OutputHash", "writeRuleHash")))))
	// declared hashes are verified BEFORE the record is written, and a mismatch returns the error at once (VerifyHashes)
	out.Def("verifyThenStamp", "List String", xlib.LeanStrList(names(calls(cr.Body, set("OutputHash", "checkRuleHashes", "writeRuleHash", "Chmod")))))
	verifyReturns := false
	for _, st := range cr.Body.List {
		is, ok := st.(*ast.IfStmt)
		if !ok || is.Init == nil || !containsCall(is.Init, "checkRuleHashes") {
			continue
		}
		ast.Inspect(is.Body, func(nd ast.Node) bool {
			if inner, ok := nd.(*ast.IfStmt); ok && strings.Contains(bs.Src(inner.Cond), "VerifyHashes") {
				for _, x := range inner.Body.List {
					if r, ok := x.(*ast.ReturnStmt); ok && len(r.Results) == 2 && bs.Src(r.Results[1]) == "err" {
						verifyReturns = true
					}
				}
			}
			return true
		})
	}
	out.Def("verifyFailureReturnsError", "Bool", xlib.LeanBool(verifyReturns))

	// --- moveOutputs / moveOutput
	mos := bs.Func("moveOutputs")
	loops := false
	for _, st := range mos.Body.List {
		if rs, ok := st.(*ast.RangeStmt); ok && containsCall(rs.Body, "moveOutput") && strings.Contains(bs.Src(rs.X), "outs") {
			loops = true
		}
	}
	out.Def("moveOutputsLoopsOverOutputs", "Bool", xlib.LeanBool(loops))
	mo := bs.Func("moveOutput")
	moCalls := calls(mo.Body, set("Hash", "PathExists", "Equal", "RemoveAll", "MkdirAll", "Rename", "RecursiveCopy"))
	out.Def("moveOutputCalls", "List String", xlib.LeanStrList(names(moCalls)))
	// the keep-old return sits in the Equal branch, before RemoveAll, both under `if PathExists(realOutput)`
	keepBeforeRemove := false
	for _, st := range mo.Body.List {
		is, ok := st.(*ast.IfStmt)
		if !ok || !containsCall(is.Cond, "PathExists") {
			continue
		}
		var eqPos, retPos, rmPos token.Pos
		ast.Inspect(is.Body, func(nd ast.Node) bool {
			switch x := nd.(type) {
			case *ast.CallExpr:
				if calleeName(x) == "Equal" && eqPos == 0 {
					eqPos = x.Pos()
				}
				if calleeName(x) == "RemoveAll" && rmPos == 0 {
					rmPos = x.Pos()
				}
			case *ast.ReturnStmt:
				if len(x.Results) == 2 && bs.Src(x.Results[0]) == "false" && bs.Src(x.Results[1]) == "nil" && retPos == 0 {
					retPos = x.Pos()
				}
			}
			return true
		})
		if eqPos != 0 && retPos > eqPos && rmPos > retPos {
			keepBeforeRemove = true
		}
	}
	out.Def("moveOutputKeepsBeforeRemove", "Bool", xlib.LeanBool(keepBeforeRemove))

	// --- StoreTargetMetadata
	sm := inc.Func("StoreTargetMetadata")
	out.Def("storeMetadataCalls", "List String", xlib.LeanStrList(names(calls(sm.Body,
		set("RemoveAll", "MkdirAll", "Create", "Encode", "WriteFile", "Rename", "CreateTemp")))))

	// --- writeRuleHash: where the stamp goes, in order
	wr := inc.Func("writeRuleHash")
	var steps []string
	for _, st := range wr.Body.List {
		switch x := st.(type) {
		case *ast.IfStmt:
			if containsCall(x.Body, "RecordAttrFile") {
				steps = append(steps, "if("+inc.Src(x.Cond)+"):RecordAttrFile")
			} else if containsCall(x.Body, "RecordAttr") {
				c := calls(x.Body, set("RecordAttr"))[0]
				steps = append(steps, "if("+calleeName0(inc, x.Cond)+"):RecordAttr("+argCallee(inc, c.node, 0)+")")
			}
		case *ast.RangeStmt:
			if containsCall(x.Body, "RecordAttr") {
				c := calls(x.Body, set("RecordAttr"))[0]
				role := "other"
				if v, ok := x.Value.(*ast.Ident); ok && len(c.node.Args) > 0 && inc.Src(c.node.Args[0]) == v.Name {
					role = "element"
				}
				steps = append(steps, "range("+inc.Src(x.X)+"):RecordAttr("+role+")")
			}
		}
	}
	out.Def("writeRuleHashSteps", "List String", xlib.LeanStrList(steps))
	// outputs := target.FullOutputs()
	fullOuts := false
	ast.Inspect(wr.Body, func(nd ast.Node) bool {
		if as, ok := nd.(*ast.AssignStmt); ok && len(as.Lhs) == 1 && len(as.Rhs) == 1 && inc.Src(as.Lhs[0]) == "outputs" {
			if c, ok := as.Rhs[0].(*ast.CallExpr); ok && calleeName(c) == "FullOutputs" {
				fullOuts = true
			}
		}
		return true
	})
	out.Def("writeRuleHashOverFullOutputs", "Bool", xlib.LeanBool(fullOuts))

	// --- removeRuleHash: the stamps of every declared output are dropped (the repair of the C32 findings)
	var unsteps []string
	unFull := false
	for _, d := range inc.AST.Decls {
		fd, ok := d.(*ast.FuncDecl)
		if !ok || fd.Name.Name != "removeRuleHash" || fd.Body == nil {
			continue
		}
		for _, st := range fd.Body.List {
			switch x := st.(type) {
			case *ast.IfStmt:
				if containsCall(x.Body, "RemoveAttr") {
					unsteps = append(unsteps, "if("+inc.Src(x.Cond)+"):RemoveAttr")
				}
			case *ast.RangeStmt:
				if containsCall(x.Body, "RemoveAttr") {
					c := calls(x.Body, set("RemoveAttr"))[0]
					role := "other"
					if v, ok := x.Value.(*ast.Ident); ok && len(c.node.Args) > 0 && inc.Src(c.node.Args[0]) == v.Name {
						role = "element"
					}
					unsteps = append(unsteps, "range("+inc.Src(x.X)+"):RemoveAttr("+role+")")
				}
			case *ast.AssignStmt:
				if len(x.Lhs) == 1 && len(x.Rhs) == 1 && inc.Src(x.Lhs[0]) == "outputs" {
					if c, ok := x.Rhs[0].(*ast.CallExpr); ok && calleeName(c) == "FullOutputs" {
						unFull = true
					}
				}
			}
		}
	}
	out.Def("removeRuleHashSteps", "List String", xlib.LeanStrList(unsteps))
	out.Def("removeRuleHashOverFullOutputs", "Bool", xlib.LeanBool(unFull))
	// fs.RemoveAttr: the fallback record and the xattr both go
	var rmAttr []string
	for _, d := range attr.AST.Decls {
		if fd, ok := d.(*ast.FuncDecl); ok && fd.Name.Name == "RemoveAttr" && fd.Body != nil {
			rmAttr = names(calls(fd.Body, set("Remove", "fallbackFileName", "LRemove")))
		}
	}
	out.Def("removeAttrCalls", "List String", xlib.LeanStrList(rmAttr))

	// --- readRuleHashFromXattrs: the loop
	rr := inc.Func("readRuleHashFromXattrs")
	var loop []string
	for _, st := range rr.Body.List {
		rs, ok := st.(*ast.RangeStmt)
		if !ok || !containsCall(rs.X, "FullOutputs") {
			continue
		}
		cur := ""
		for _, s := range rs.Body.List {
			switch x := s.(type) {
			case *ast.AssignStmt:
				if len(x.Rhs) == 1 {
					if c, ok := x.Rhs[0].(*ast.CallExpr); ok && calleeName(c) == "ReadAttr" && len(x.Lhs) == 1 {
						cur = inc.Src(x.Lhs[0])
						loop = append(loop, "cur=ReadAttr(element)")
						continue
					}
				}
				if len(x.Lhs) == 1 && len(x.Rhs) == 1 && inc.Src(x.Rhs[0]) == cur {
					loop = append(loop, "acc=cur")
				}
			case *ast.IfStmt:
				for is := x; is != nil; {
					ret := "other"
					if len(is.Body.List) == 1 {
						if r, ok := is.Body.List[0].(*ast.ReturnStmt); ok && len(r.Results) == 1 {
							if cl, ok := r.Results[0].(*ast.CompositeLit); ok && len(cl.Elts) == 0 {
								ret = "empty"
							}
						}
					}
					loop = append(loop, "if("+condShape(inc, is.Cond, cur)+")→"+ret)
					next, _ := is.Else.(*ast.IfStmt)
					is = next
				}
			}
		}
	}
	out.Def("readLoop", "List String", xlib.LeanStrList(loop))

	// --- needsBuilding guards
	nb := inc.Func("needsBuilding")
	firstMd := false
	if len(nb.Body.List) > 0 {
		if is, ok := nb.Body.List[0].(*ast.IfStmt); ok {
			if u, ok := is.Cond.(*ast.UnaryExpr); ok && u.Op == token.NOT && containsCall(u.X, "FileExists") && containsCall(u.X, "targetBuildMetadataFileName") {
				for _, s := range is.Body.List {
					if r, ok := s.(*ast.ReturnStmt); ok && len(r.Results) == 1 && inc.Src(r.Results[0]) == "true" {
						firstMd = true
					}
				}
			}
		}
	}
	out.Def("needsBuildingMetadataMissingFirst", "Bool", xlib.LeanBool(firstMd))
	outsCheck := false
	for _, st := range nb.Body.List {
		if rs, ok := st.(*ast.RangeStmt); ok && containsCall(rs.X, "Outputs") {
			ast.Inspect(rs.Body, func(nd ast.Node) bool {
				if is, ok := nd.(*ast.IfStmt); ok {
					if u, ok := is.Cond.(*ast.UnaryExpr); ok && u.Op == token.NOT && containsCall(u.X, "PathExists") {
						for _, s := range is.Body.List {
							if r, ok := s.(*ast.ReturnStmt); ok && len(r.Results) == 1 && inc.Src(r.Results[0]) == "true" {
								outsCheck = true
							}
						}
					}
				}
				return true
			})
		}
	}
	out.Def("needsBuildingChecksEveryOutput", "Bool", xlib.LeanBool(outsCheck))
	out.Def("needsBuildingReadsStampVia", "List String", xlib.LeanStrList(names(calls(nb.Body, set("readRuleHashFromXattrs")))))

	// --- fs/attr.go: the fallback record
	raf := attr.Func("RecordAttrFile")
	out.Def("recordAttrFileCalls", "List String", xlib.LeanStrList(names(calls(raf.Body, set("WriteFile", "fallbackFileName", "Rename", "CreateTemp")))))
	fb := attr.Func("fallbackFileName")
	fbExpr := ""
	for _, st := range fb.Body.List {
		if r, ok := st.(*ast.ReturnStmt); ok && len(r.Results) == 1 {
			fbExpr = attr.Src(r.Results[0])
		}
	}
	out.Def("fallbackFileNameExpr", "String", xlib.LeanStr(fbExpr))
	ra := attr.Func("RecordAttr")
	// disabled xattrs → RecordAttrFile first; symlink → RecordAttrFile
	first := ""
	if len(ra.Body.List) > 0 {
		if is, ok := ra.Body.List[0].(*ast.IfStmt); ok && containsCall(is.Body, "RecordAttrFile") {
			first = attr.Src(is.Cond)
		}
	}
	out.Def("recordAttrFallbackWhen", "String", xlib.LeanStr(first))
	out.Def("recordAttrCalls", "List String", xlib.LeanStrList(names(calls(ra.Body, set("LSet", "IsSymlink", "RecordAttrFile")))))
	rd := attr.Func("ReadAttr")
	out.Def("readAttrCalls", "List String", xlib.LeanStrList(names(calls(rd.Body, set("LGet", "IsSymlink", "ReadAttrFile")))))

	// --- fs.WriteFile
	wf := fsgo.Func("WriteFile")
	wfc := calls(wf.Body, set("MkdirAll", "CreateTemp", "Copy", "Close", "Chmod", "renameFile", "Rename", "Create", "OpenFile", "Sync",
		"Remove", "RemoveAll", "Truncate", "WriteFile", "Link", "Symlink"))
	out.Def("writeFileCalls", "List String", xlib.LeanStrList(names(wfc)))
	// the temporary is created in the directory of the destination: dir, file := filepath.Split(to); CreateTemp(dir, file)
	sameDir := false
	var dirVar, fileVar, toVar string
	if len(wf.Type.Params.List) >= 2 && len(wf.Type.Params.List[1].Names) == 1 {
		toVar = wf.Type.Params.List[1].Names[0].Name
	}
	ast.Inspect(wf.Body, func(nd ast.Node) bool {
		if as, ok := nd.(*ast.AssignStmt); ok && len(as.Lhs) == 2 && len(as.Rhs) == 1 {
			if c, ok := as.Rhs[0].(*ast.CallExpr); ok && calleeName(c) == "Split" && len(c.Args) == 1 && fsgo.Src(c.Args[0]) == toVar {
				dirVar, fileVar = fsgo.Src(as.Lhs[0]), fsgo.Src(as.Lhs[1])
			}
		}
		return true
	})
	var tmpVar string
	for _, c := range wfc {
		if c.name == "CreateTemp" && len(c.node.Args) == 2 && dirVar != "" && fsgo.Src(c.node.Args[0]) == dirVar && fsgo.Src(c.node.Args[1]) == fileVar {
			sameDir = true
		}
	}
	ast.Inspect(wf.Body, func(nd ast.Node) bool {
		if as, ok := nd.(*ast.AssignStmt); ok && len(as.Lhs) == 2 && len(as.Rhs) == 1 {
			if c, ok := as.Rhs[0].(*ast.CallExpr); ok && calleeName(c) == "CreateTemp" {
				tmpVar = fsgo.Src(as.Lhs[0])
			}
		}
		return true
	})
	out.Def("writeFileTempInDestDir", "Bool", xlib.LeanBool(sameDir))
	// roles of the arguments of the final rename and of the copy
	var renameArgs, copyArgs, chmodArgs []string
	role := func(e ast.Expr) string {
		s := fsgo.Src(e)
		switch {
		case s == toVar:
			return "dest"
		case tmpVar != "" && s == tmpVar+".Name()":
			return "temp.Name"
		case tmpVar != "" && s == tmpVar:
			return "temp"
		case len(wf.Type.Params.List) >= 1 && len(wf.Type.Params.List[0].Names) == 1 && s == wf.Type.Params.List[0].Names[0].Name:
			return "reader"
		case len(wf.Type.Params.List) >= 3 && len(wf.Type.Params.List[2].Names) == 1 && s == wf.Type.Params.List[2].Names[0].Name:
			return "mode"
		}
		return "other"
	}
	for _, c := range wfc {
		var dst *[]string
		switch c.name {
		case "renameFile", "Rename":
			dst = &renameArgs
		case "Copy":
			dst = &copyArgs
		case "Chmod":
			dst = &chmodArgs
		}
		if dst != nil {
			for _, a := range c.node.Args {
				*dst = append(*dst, role(a))
			}
		}
	}
	out.Def("writeFileRenameArgs", "List String", xlib.LeanStrList(renameArgs))
	out.Def("writeFileCopyArgs", "List String", xlib.LeanStrList(copyArgs))
	out.Def("writeFileChmodArgs", "List String", xlib.LeanStrList(chmodArgs))
	// default mode
	defMode := ""
	ast.Inspect(wf.Body, func(nd ast.Node) bool {
		if is, ok := nd.(*ast.IfStmt); ok && strings.ReplaceAll(fsgo.Src(is.Cond), " ", "") == "mode==0" && len(is.Body.List) == 1 {
			if as, ok := is.Body.List[0].(*ast.AssignStmt); ok && len(as.Rhs) == 1 {
				defMode = fsgo.Src(as.Rhs[0])
			}
		}
		return true
	})
	out.Def("writeFileDefaultMode", "String", xlib.LeanStr(defMode))
	// renameFile tries os.Rename first and returns on success
	rf := fsgo.Func("renameFile")
	rfc := calls(rf.Body, set("Rename", "copyFile", "RemoveAll"))
	out.Def("renameFileCalls", "List String", xlib.LeanStrList(names(rfc)))
	out.Write()
}

// calleeName0 names the first call in an expression ("FileExists" for fs.FileExists(x)).
func calleeName0(f *xlib.File, e ast.Expr) string {
	name := ""
	ast.Inspect(e, func(nd ast.Node) bool {
		if c, ok := nd.(*ast.CallExpr); ok && name == "" {
			name = calleeName(c)
		}
		return true
	})
	return name
}

// argCallee names the callee of the i-th argument when it is a call, else "expr".
func argCallee(f *xlib.File, c *ast.CallExpr, i int) string {
	if i < len(c.Args) {
		if a, ok := c.Args[i].(*ast.CallExpr); ok {
			return calleeName(a)
		}
	}
	return "expr"
}

// condShape renders the conditions of the read-back loop by role: cur = value just read, acc = running value.
func condShape(f *xlib.File, e ast.Expr, cur string) string {
	s := f.Src(e)
	var idents []string
	ast.Inspect(e, func(nd ast.Node) bool {
		if id, ok := nd.(*ast.Ident); ok && id.Name != "nil" && id.Name != "bytes" && id.Name != "Equal" {
			idents = append(idents, id.Name)
		}
		return true
	})
	for _, id := range idents {
		if id == cur {
			s = replaceIdent(s, id, "cur")
		} else {
			s = replaceIdent(s, id, "acc")
		}
	}
	return strings.ReplaceAll(s, " ", "")
}

func replaceIdent(s, id, with string) string {
	var b strings.Builder
	isId := func(c byte) bool {
		return c == '_' || c >= '0' && c <= '9' || c >= 'a' && c <= 'z' || c >= 'A' && c <= 'Z'
	}
	for i := 0; i < len(s); {
		if strings.HasPrefix(s[i:], id) && (i == 0 || !isId(s[i-1])) && (i+len(id) == len(s) || !isId(s[i+len(id)])) {
			b.WriteString(with)
			i += len(id)
		} else {
			b.WriteByte(s[i])
			i++
		}
	}
	return b.String()
}
