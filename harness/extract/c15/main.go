// Facts for C15 from src/cmap/cmap.go and src/cmap/cerrmap.go.
//
// Every shard method and ErrMap.GetOrSet is executed symbolically: all paths through the body are
// enumerated, forking on the conditions (`present`, `x.Wait == nil`, `overwrite`, `v.Err != nil`, `first`,
// `wait != nil`, `m.l != nil`); each path yields its lock operations, the map store, the channel close, the
// calls and the returned values, all expressed in *roles* (receiver, i-th parameter, i-th lookup), never in
// variable names.  The result is a decision table per method: harmless rewrites (renaming, reordering of
// independent statements, if/else vs early return) leave it unchanged, semantic changes do not.  A statement
// or expression shape the executor does not know makes the facts *unreadable* (exit 3), not different.
package main

import (
	"fmt"
	"go/ast"
	"go/token"
	"sort"
	"strings"

	"verif/harness/xlib"
)

type cond struct {
	atom string
	val  bool
}

type pstate struct {
	conds   []cond
	locks   []string // lock operations and map accesses in program order (consecutive accesses collapsed)
	effects []string // ordered: store X = Y | close(X) | call F | recv X | append Y | visit Y
	env     map[string]string
	results []string // roles of the named results (bare return)
	lookups int
	ret     []string
	done    bool
}

func (p *pstate) clone() *pstate {
	q := &pstate{conds: append([]cond{}, p.conds...), locks: append([]string{}, p.locks...),
		effects: append([]string{}, p.effects...), env: map[string]string{}, results: append([]string{}, p.results...),
		lookups: p.lookups}
	for k, v := range p.env {
		q.env[k] = v
	}
	return q
}

// access records that the map (or an entry's channel) is touched at this point of the lock sequence.
func (p *pstate) access() {
	if n := len(p.locks); n == 0 || p.locks[n-1] != "access" {
		p.locks = append(p.locks, "access")
	}
}

func (p *pstate) cond(atom string) (bool, bool) {
	for _, c := range p.conds {
		if c.atom == atom {
			return c.val, true
		}
	}
	return false, false
}

type exec struct {
	f       *xlib.File
	fn      *ast.FuncDecl
	named   map[string]int // named results
	paths   []*pstate
	mapName string // the field holding the Go map ("m")
}

func (x *exec) bad(n ast.Node, what string) {
	xlib.Unreadable("%s:%d: %s: %s", x.f.Path, x.f.Line(n), what, x.f.Src(n))
}

func typeName(e ast.Expr) string {
	switch t := e.(type) {
	case *ast.Ident:
		return t.Name
	case *ast.IndexExpr:
		return typeName(t.X)
	case *ast.IndexListExpr:
		return typeName(t.X)
	case *ast.StarExpr:
		return typeName(t.X)
	}
	return "?"
}

// role renders an expression in roles.
func (x *exec) role(e ast.Expr, st *pstate) string {
	switch t := e.(type) {
	case *ast.Ident:
		if r, ok := st.env[t.Name]; ok {
			return r
		}
		if i, ok := x.named[t.Name]; ok {
			return st.results[i]
		}
		switch t.Name {
		case "true", "false", "nil", "len", "make", "append", "close":
			return t.Name
		}
		x.bad(e, "unknown identifier")
	case *ast.BasicLit:
		return t.Value
	case *ast.ParenExpr:
		return x.role(t.X, st)
	case *ast.SelectorExpr:
		return x.role(t.X, st) + "." + t.Sel.Name
	case *ast.IndexExpr:
		return x.role(t.X, st) + "[" + x.role(t.Index, st) + "]"
	case *ast.UnaryExpr:
		return t.Op.String() + x.role(t.X, st)
	case *ast.BinaryExpr:
		return x.role(t.X, st) + t.Op.String() + x.role(t.Y, st)
	case *ast.CallExpr:
		if id, ok := t.Fun.(*ast.Ident); ok && id.Name == "make" {
			if _, ok := t.Args[0].(*ast.ChanType); ok {
				return "make(chan)"
			}
			return "make(slice)"
		}
		args := make([]string, len(t.Args))
		for i, a := range t.Args {
			args[i] = x.role(a, st)
		}
		s := x.role(t.Fun, st) + "(" + strings.Join(args, ",") + ")"
		if t.Ellipsis != token.NoPos {
			s += "..."
		}
		return s
	case *ast.CompositeLit:
		var fs []string
		for _, el := range t.Elts {
			kv, ok := el.(*ast.KeyValueExpr)
			if !ok {
				if len(t.Elts) > 0 {
					x.bad(e, "positional composite literal")
				}
				continue
			}
			fs = append(fs, kv.Key.(*ast.Ident).Name+":"+x.role(kv.Value, st))
		}
		sort.Strings(fs)
		if at, ok := t.Type.(*ast.ArrayType); ok {
			return "[]" + typeName(at.Elt) + "{" + strings.Join(fs, ",") + "}"
		}
		return typeName(t.Type) + "{" + strings.Join(fs, ",") + "}"
	case *ast.FuncLit:
		return "func"
	}
	x.bad(e, "unknown expression")
	return ""
}

// isCall reports whether a call has an effect the table must record (anything but builtins).
func isPure(c *ast.CallExpr) bool {
	if id, ok := c.Fun.(*ast.Ident); ok {
		switch id.Name {
		case "len", "make", "append":
			return true
		}
	}
	return false
}

func (x *exec) lockOp(c *ast.CallExpr, st *pstate) (string, bool) {
	sel, ok := c.Fun.(*ast.SelectorExpr)
	if !ok {
		return "", false
	}
	switch sel.Sel.Name {
	case "Lock", "Unlock", "RLock", "RUnlock":
		if inner, ok := sel.X.(*ast.SelectorExpr); ok && x.role(inner.X, st) == "recv" {
			return sel.Sel.Name, true
		}
	}
	return "", false
}

// callStmt handles a call in statement position.
func (x *exec) callStmt(c *ast.CallExpr, st *pstate, deferred bool) {
	pre := ""
	if deferred {
		pre = "defer "
	}
	if op, ok := x.lockOp(c, st); ok {
		st.locks = append(st.locks, pre+op)
		return
	}
	if id, ok := c.Fun.(*ast.Ident); ok && id.Name == "close" {
		st.access()
		st.effects = append(st.effects, pre+"close("+x.role(c.Args[0], st)+")")
		return
	}
	st.effects = append(st.effects, pre+"call "+x.role(c, st))
}

// evalCond maps a condition to an atom and a polarity.
func (x *exec) evalCond(e ast.Expr, st *pstate) (string, bool) {
	switch t := e.(type) {
	case *ast.ParenExpr:
		return x.evalCond(t.X, st)
	case *ast.UnaryExpr:
		if t.Op == token.NOT {
			a, neg := x.evalCond(t.X, st)
			return a, !neg
		}
	case *ast.Ident:
		return x.role(t, st), false
	case *ast.BinaryExpr:
		if t.Op == token.EQL || t.Op == token.NEQ {
			l, r := x.role(t.X, st), x.role(t.Y, st)
			if l == "nil" {
				l, r = r, l
			}
			if r == "nil" {
				return l + "==nil", t.Op == token.NEQ
			}
		}
	}
	x.bad(e, "unknown condition")
	return "", false
}

func (x *exec) bind(lhs ast.Expr, role string, st *pstate) {
	id, ok := lhs.(*ast.Ident)
	if !ok {
		x.bad(lhs, "unsupported assignment target")
	}
	if id.Name == "_" {
		return
	}
	if i, ok := x.named[id.Name]; ok {
		st.results[i] = role
		return
	}
	st.env[id.Name] = role
}

func (x *exec) assign(a *ast.AssignStmt, st *pstate) {
	// map lookup: v, ok := recv.m[key]
	if len(a.Lhs) == 2 && len(a.Rhs) == 1 {
		if ix, ok := a.Rhs[0].(*ast.IndexExpr); ok {
			st.lookups++
			st.access()
			if got := x.role(ix, st); got != "recv."+x.mapName+"[p0]" {
				x.bad(a, "lookup of something else than recv.m[key]: "+got)
			}
			x.bind(a.Lhs[0], fmt.Sprintf("entry#%d", st.lookups), st)
			x.bind(a.Lhs[1], fmt.Sprintf("present#%d", st.lookups), st)
			return
		}
	}
	if len(a.Rhs) == 1 {
		if c, ok := a.Rhs[0].(*ast.CallExpr); ok && !isPure(c) {
			r := x.role(c, st)
			st.effects = append(st.effects, "call "+r)
			if len(a.Lhs) == 1 {
				x.bind(a.Lhs[0], r, st)
			} else {
				for i, l := range a.Lhs {
					x.bind(l, fmt.Sprintf("%s.%d", r, i), st)
				}
			}
			return
		}
	}
	if len(a.Lhs) != len(a.Rhs) {
		x.bad(a, "unsupported assignment")
	}
	for i, l := range a.Lhs {
		switch lt := l.(type) {
		case *ast.Ident:
			r := x.role(a.Rhs[i], st)
			// ret = append(ret, v.Val): record what is appended
			if c, ok := a.Rhs[i].(*ast.CallExpr); ok {
				if id, ok := c.Fun.(*ast.Ident); ok && id.Name == "append" {
					for _, arg := range c.Args[1:] {
						s := x.role(arg, st)
						if c.Ellipsis != token.NoPos {
							s += "..."
						}
						st.effects = append(st.effects, "append "+s)
					}
					continue
				}
			}
			x.bind(lt, r, st)
		case *ast.IndexExpr:
			st.access()
			st.effects = append(st.effects, "store "+x.role(lt, st)+" = "+x.role(a.Rhs[i], st))
		case *ast.SelectorExpr:
			base := x.role(lt.X, st)
			if strings.HasPrefix(base, "entry#") {
				continue // a field of the local copy of an entry: no effect on the map
			}
			st.effects = append(st.effects, "assign "+x.role(lt, st)+" = "+x.role(a.Rhs[i], st))
		default:
			x.bad(a, "unsupported assignment target")
		}
	}
}

func (x *exec) block(stmts []ast.Stmt, st *pstate, k func(*pstate)) {
	if len(stmts) == 0 {
		k(st)
		return
	}
	x.stmt(stmts[0], st, func(s2 *pstate) { x.block(stmts[1:], s2, k) })
}

func (x *exec) stmt(s ast.Stmt, st *pstate, k func(*pstate)) {
	switch t := s.(type) {
	case *ast.ExprStmt:
		switch e := t.X.(type) {
		case *ast.CallExpr:
			x.callStmt(e, st, false)
		case *ast.UnaryExpr:
			if e.Op != token.ARROW {
				x.bad(s, "unsupported expression statement")
			}
			st.effects = append(st.effects, "recv "+x.role(e.X, st))
		default:
			x.bad(s, "unsupported expression statement")
		}
		k(st)
	case *ast.DeferStmt:
		x.callStmt(t.Call, st, true)
		k(st)
	case *ast.AssignStmt:
		x.assign(t, st)
		k(st)
	case *ast.DeclStmt:
		x.bad(s, "unsupported declaration")
	case *ast.ReturnStmt:
		if len(t.Results) == 0 {
			st.ret = append([]string{}, st.results...)
		} else {
			for _, r := range t.Results {
				st.ret = append(st.ret, x.role(r, st))
			}
		}
		st.done = true
		x.paths = append(x.paths, st)
	case *ast.BlockStmt:
		x.block(t.List, st, k)
	case *ast.IfStmt:
		if t.Init != nil {
			a, ok := t.Init.(*ast.AssignStmt)
			if !ok {
				x.bad(s, "unsupported if-init")
			}
			x.assign(a, st)
		}
		atom, neg := x.evalCond(t.Cond, st)
		branch := func(val bool, s2 *pstate) {
			if val != neg { // condition true
				x.block(t.Body.List, s2, k)
			} else if t.Else != nil {
				x.stmt(t.Else, s2, k)
			} else {
				k(s2)
			}
		}
		if v, ok := st.cond(atom); ok {
			branch(v, st)
			return
		}
		for _, v := range []bool{true, false} {
			s2 := st.clone()
			s2.conds = append(s2.conds, cond{atom, v})
			branch(v, s2)
		}
	case *ast.RangeStmt:
		// for k, v := range recv.m { body }: one symbolic iteration over an entry that is present
		if got := x.role(t.X, st); got != "recv."+x.mapName {
			x.bad(s, "range over something else than recv.m")
		}
		st.lookups++
		st.access()
		if t.Key != nil {
			x.bind(t.Key, fmt.Sprintf("key#%d", st.lookups), st)
		}
		if t.Value != nil {
			x.bind(t.Value, fmt.Sprintf("entry#%d", st.lookups), st)
		}
		st.conds = append(st.conds, cond{fmt.Sprintf("present#%d", st.lookups), true})
		x.block(t.Body.List, st, k)
	default:
		x.bad(s, "unsupported statement")
	}
}

// run enumerates all paths of a function.
func run(f *xlib.File, name, mapName string) []*pstate {
	fn := f.Func(name)
	x := &exec{f: f, fn: fn, named: map[string]int{}, mapName: mapName}
	st := &pstate{env: map[string]string{}}
	if fn.Recv != nil && len(fn.Recv.List) == 1 && len(fn.Recv.List[0].Names) == 1 {
		st.env[fn.Recv.List[0].Names[0].Name] = "recv"
	}
	i := 0
	for _, fl := range fn.Type.Params.List {
		for _, nm := range fl.Names {
			st.env[nm.Name] = fmt.Sprintf("p%d", i)
			i++
		}
	}
	if fn.Type.Results != nil {
		j := 0
		for _, fl := range fn.Type.Results.List {
			for _, nm := range fl.Names {
				x.named[nm.Name] = j
				st.results = append(st.results, "zero")
				j++
			}
		}
	}
	x.block(fn.Body.List, st, func(end *pstate) {
		end.done = true
		end.ret = nil
		x.paths = append(x.paths, end)
	})
	return x.paths
}

// pick returns the unique path consistent with the given assignment of atoms.
func pick(paths []*pstate, want map[string]bool, what string) *pstate {
	var found *pstate
	for _, p := range paths {
		ok := true
		for _, c := range p.conds {
			if v, has := want[c.atom]; has && v != c.val {
				ok = false
			}
		}
		if ok {
			if found != nil && !samePath(found, p) {
				xlib.Unreadable("%s: the case %v does not determine the path", what, want)
			}
			found = p
		}
	}
	if found == nil {
		xlib.Unreadable("%s: no path for case %v", what, want)
	}
	return found
}

func samePath(a, b *pstate) bool {
	return strings.Join(a.locks, ";") == strings.Join(b.locks, ";") && strings.Join(a.effects, ";") == strings.Join(b.effects, ";") &&
		strings.Join(a.ret, ";") == strings.Join(b.ret, ";")
}

// entry cases of the i-th lookup
func entryCase(i int, c string) map[string]bool {
	p, w := fmt.Sprintf("present#%d", i), fmt.Sprintf("entry#%d.Wait==nil", i)
	switch c {
	case "absent":
		return map[string]bool{p: false}
	case "val":
		return map[string]bool{p: true, w: true}
	}
	return map[string]bool{p: true, w: false}
}

func merge(ms ...map[string]bool) map[string]bool {
	o := map[string]bool{}
	for _, m := range ms {
		for k, v := range m {
			o[k] = v
		}
	}
	return o
}

// classify the effects of a path of a shard method
type row struct {
	store, close, ret string
	calls             []string
	other             []string
}

func classify(p *pstate, mapName string) row {
	r := row{store: "-", close: "-"}
	for _, e := range p.effects {
		switch {
		case strings.HasPrefix(e, "store recv."+mapName+"[p0] = "):
			v := strings.TrimPrefix(e, "store recv."+mapName+"[p0] = ")
			if r.store != "-" {
				r.other = append(r.other, "second "+e)
			}
			switch v {
			case "awaitableValue{Val:p1}":
				r.store = "val:param"
			case "awaitableValue{Val:p1()}":
				r.store = "val:f"
			case "awaitableValue{Wait:make(chan)}":
				r.store = "placeholder"
			default:
				r.store = "other:" + v
			}
		case strings.HasPrefix(e, "close("):
			if r.close != "-" {
				r.other = append(r.other, "second "+e)
			}
			r.close = strings.TrimSuffix(strings.TrimPrefix(e, "close("), ")")
		case strings.HasPrefix(e, "call "):
			r.calls = append(r.calls, strings.TrimPrefix(e, "call "))
		default:
			r.other = append(r.other, e)
		}
	}
	r.ret = strings.Join(p.ret, ",")
	return r
}

func leanRow(cs string, r row, locks []string) string {
	return fmt.Sprintf("(%s, %s, %s, %s, %s, %s, %s)", xlib.LeanStr(cs), xlib.LeanStr(r.store), xlib.LeanStr(r.close),
		xlib.LeanStr(r.ret), xlib.LeanStrList(r.calls), xlib.LeanStrList(locks), xlib.LeanStrList(r.other))
}

const rowType = "List (String × String × String × String × List String × List String × List String)"

func main() {
	f := xlib.Parse("src/cmap/cmap.go")
	out := xlib.NewOut("C15", f.Path, "src/cmap/cerrmap.go")
	out.Raw("-- a row is (case, store, close, returned values, calls, lock operations and map accesses in program order, further effects)")

	// the map field of shard
	mapName := "m"

	// shard.Set
	{
		ps := run(f, "shard.Set", mapName)
		var rows []string
		for _, c := range []string{"absent", "val", "waiting"} {
			for _, ow := range []bool{true, false} {
				p := pick(ps, merge(entryCase(1, c), map[string]bool{"p2": ow}), "shard.Set")
				name := c + "/ow"
				if !ow {
					name = c + "/!ow"
				}
				rows = append(rows, leanRow(name, classify(p, mapName), p.locks))
			}
		}
		out.Def("setRows", rowType, "[\n  "+strings.Join(rows, ",\n  ")+"]")
	}
	// shard.LazySet
	{
		ps := run(f, "shard.LazySet", mapName)
		var rows []string
		for _, c := range []string{"absent", "val", "waiting"} {
			p := pick(ps, entryCase(1, c), "shard.LazySet")
			rows = append(rows, leanRow(c, classify(p, mapName), p.locks))
		}
		out.Def("lazySetRows", rowType, "[\n  "+strings.Join(rows, ",\n  ")+"]")
	}
	// shard.Get: the first lookup decides hit or miss; on a miss the second lookup decides
	{
		ps := run(f, "shard.Get", mapName)
		var rows []string
		for _, c := range []string{"val", "waiting"} {
			p := pick(ps, entryCase(1, c), "shard.Get")
			rows = append(rows, leanRow("fast:"+c, classify(p, mapName), p.locks))
		}
		for _, c := range []string{"absent", "val", "waiting"} {
			p := pick(ps, merge(entryCase(1, "absent"), entryCase(2, c)), "shard.Get")
			rows = append(rows, leanRow("slow:"+c, classify(p, mapName), p.locks))
		}
		out.Def("getRows", rowType, "[\n  "+strings.Join(rows, ",\n  ")+"]")
	}
	// shard.Contains
	{
		ps := run(f, "shard.Contains", mapName)
		if len(ps) != 1 {
			xlib.Unreadable("shard.Contains: expected a single path, found %d", len(ps))
		}
		out.Def("containsRows", rowType, "[\n  "+leanRow("any", classify(ps[0], mapName), ps[0].locks)+"]")
	}
	// shard.Values / shard.Range: per entry
	for _, m := range []string{"Values", "Range"} {
		ps := run(f, "shard."+m, mapName)
		var rows []string
		for _, c := range []string{"val", "waiting"} {
			p := pick(ps, entryCase(1, c), "shard."+m)
			r := classify(p, mapName)
			rows = append(rows, leanRow(c, r, p.locks))
		}
		name := "valuesRows"
		if m == "Range" {
			name = "rangeRows"
		}
		out.Def(name, rowType, "[\n  "+strings.Join(rows, ",\n  ")+"]")
	}
	// Map methods: which shard, which shard method, which arguments
	{
		var rows []string
		for _, m := range []string{"Add", "AddOrGet", "Set", "Get", "Contains", "GetOrWait"} {
			ps := run(f, "Map."+m, "")
			if len(ps) != 1 {
				xlib.Unreadable("Map.%s: expected a single path", m)
			}
			r := classify(ps[0], "")
			rows = append(rows, leanRow(m, r, ps[0].locks))
		}
		out.Def("mapRows", rowType, "[\n  "+strings.Join(rows, ",\n  ")+"]")
	}
	// Map.Values: loop over all shards in index order
	{
		fn := f.Func("Map.Values")
		var loop *ast.ForStmt
		n := 0
		ast.Inspect(fn.Body, func(nd ast.Node) bool {
			if fs, ok := nd.(*ast.ForStmt); ok {
				loop = fs
				n++
			}
			return true
		})
		if n != 1 || loop.Init == nil || loop.Cond == nil || loop.Post == nil || len(loop.Body.List) != 1 {
			xlib.Unreadable("Map.Values: expected one three-clause loop with a one-statement body")
		}
		recv := fn.Recv.List[0].Names[0].Name
		norm := func(n ast.Node) string {
			s := f.Src(n)
			return strings.ReplaceAll(strings.ReplaceAll(s, recv+".", "recv."), " ", "")
		}
		out.Def("valuesLoop", "List String", xlib.LeanStrList([]string{norm(loop.Init), norm(loop.Cond), norm(loop.Post), norm(loop.Body.List[0])}))
	}
	// New: mask and the power-of-two check
	{
		fn := f.Func("New")
		p0 := fn.Type.Params.List[0].Names[0].Name
		norm := func(n ast.Node) string {
			s := strings.ReplaceAll(f.Src(n), " ", "")
			return strings.ReplaceAll(s, p0, "p0")
		}
		mask, check, field := "", "", ""
		ast.Inspect(fn.Body, func(nd ast.Node) bool {
			switch t := nd.(type) {
			case *ast.AssignStmt:
				if id, ok := t.Lhs[0].(*ast.Ident); ok && id.Name == "mask" && len(t.Rhs) == 1 {
					mask = norm(t.Rhs[0])
				}
			case *ast.IfStmt:
				if len(t.Body.List) == 1 {
					if es, ok := t.Body.List[0].(*ast.ExprStmt); ok {
						if c, ok := es.X.(*ast.CallExpr); ok {
							if id, ok := c.Fun.(*ast.Ident); ok && id.Name == "panic" {
								check = norm(t.Cond)
							}
						}
					}
				}
			case *ast.KeyValueExpr:
				if id, ok := t.Key.(*ast.Ident); ok && id.Name == "mask" {
					field = norm(t.Value)
				}
			}
			return true
		})
		if mask == "" || check == "" || field == "" {
			xlib.Unreadable("New: mask / power-of-two check / mask field not found")
		}
		out.Def("newFacts", "List String", xlib.LeanStrList([]string{mask, check, field}))
	}

	// ErrMap.GetOrSet
	g := xlib.Parse("src/cmap/cerrmap.go")
	{
		ps := run(g, "ErrMap.GetOrSet", "")
		var rows []string
		call := "recv.m.GetOrWait(p0)"
		for _, e := range []bool{true, false} {
			for _, first := range []bool{true, false} {
				for _, w := range []bool{true, false} {
					for _, l := range []bool{true, false} {
						want := map[string]bool{call + ".0.Err==nil": !e, call + ".2": first, call + ".1==nil": !w, "recv.l==nil": !l}
						p := pick(ps, want, "ErrMap.GetOrSet")
						name := fmt.Sprintf("err=%v,first=%v,wait=%v,limiter=%v", e, first, w, l)
						rows = append(rows, leanRow(name, classify(p, ""), p.locks))
					}
				}
			}
		}
		out.Def("getOrSetRows", rowType, "[\n  "+strings.Join(rows, ",\n  ")+"]")
		// ErrMap.Get (what the waiter calls after the wait)
		ps = run(g, "ErrMap.Get", "")
		if len(ps) != 1 {
			xlib.Unreadable("ErrMap.Get: expected a single path")
		}
		out.Def("errGetRows", rowType, "[\n  "+leanRow("any", classify(ps[0], ""), ps[0].locks)+"]")
	}
	out.Write()
}
