// Facts for C09 from src/fs/hash.go and src/fs/walk.go: the sequence of writes into the hash object in each
// branch of (*PathHasher).hash (the *write schema* interpreted by Model/PathHash.lean), the value of the
// in-band marker, the condition separating repo-managed from system symlinks, the shape of ensureRelative
// and fileHash, and the godirwalk options (sorted, symlinks not followed).
//
// Anything that touches the hash object and is not recognised makes the facts tie unreadable (exit 3):
// the run then relies on the committed Expected schema plus the thorough correspondence.
package main

import (
	"fmt"
	"go/ast"
	"go/token"
	"os"
	"path/filepath"
	"strconv"
	"strings"

	"verif/harness/xlib"
)

var f *xlib.File

// mentions reports whether the identifier name occurs anywhere under n.
func mentions(n ast.Node, name string) bool {
	found := false
	ast.Inspect(n, func(x ast.Node) bool {
		if id, ok := x.(*ast.Ident); ok && id.Name == name {
			found = true
		}
		return !found
	})
	return found
}

// canon renders n with identifiers renamed according to roles (robust to renaming locals/params).
func canon(n ast.Node, roles map[string]string) string {
	var touched []*ast.Ident
	var old []string
	ast.Inspect(n, func(x ast.Node) bool {
		if id, ok := x.(*ast.Ident); ok {
			if r, ok := roles[id.Name]; ok {
				touched = append(touched, id)
				old = append(old, id.Name)
				id.Name = r
			}
		}
		return true
	})
	s := f.Src(n)
	for i, id := range touched {
		id.Name = old[i]
	}
	return s
}

func isSel(e ast.Expr, x, sel string) bool {
	s, ok := e.(*ast.SelectorExpr)
	if !ok || s.Sel.Name != sel {
		return false
	}
	id, ok := s.X.(*ast.Ident)
	return ok && (x == "" || id.Name == x)
}

// callTo returns the call if e is `<x>.<sel>(...)`.
func callTo(e ast.Expr, x, sel string) *ast.CallExpr {
	c, ok := e.(*ast.CallExpr)
	if !ok || !isSel(c.Fun, x, sel) {
		return nil
	}
	return c
}

type ctx struct {
	h      string            // name of the hash variable
	recv   string            // receiver name
	roles  map[string]string // identifier -> role
	marker string            // name of the marker variable
}

// item classifies one expression statement / call that feeds the hash; "" = does not touch the hash.
func (c *ctx) callItem(e ast.Expr) string {
	if w := callTo(e, c.h, "Write"); w != nil && len(w.Args) == 1 {
		a := w.Args[0]
		if id, ok := a.(*ast.Ident); ok && id.Name == c.marker {
			return ".marker"
		}
		// []byte(x)
		if conv, ok := a.(*ast.CallExpr); ok && len(conv.Args) == 1 {
			if at, ok := conv.Fun.(*ast.ArrayType); ok && at.Len == nil {
				if el, ok := at.Elt.(*ast.Ident); ok && el.Name == "byte" {
					if id, ok := conv.Args[0].(*ast.Ident); ok {
						switch c.roles[id.Name] {
						case "rel":
							return ".target"
						case "path", "p":
							return ".path"
						}
					}
					// the same value written without the local: hasher.ensureRelative(dest)
					if er := callTo(conv.Args[0], c.recv, "ensureRelative"); er != nil && len(er.Args) == 1 {
						if id, ok := er.Args[0].(*ast.Ident); ok && c.roles[id.Name] == "dest" {
							return ".target"
						}
					}
				}
			}
		}
		xlib.Unreadable("unrecognised write into the hash at %s:%d: %s", f.Path, f.Line(e), f.Src(e))
	}
	if fh := callTo(e, c.recv, "fileHash"); fh != nil && len(fh.Args) == 2 {
		if id, ok := fh.Args[0].(*ast.Ident); ok && id.Name == c.h {
			if id2, ok := fh.Args[1].(*ast.Ident); ok && (c.roles[id2.Name] == "path" || c.roles[id2.Name] == "p") {
				return ".content"
			}
		}
		xlib.Unreadable("unrecognised fileHash call at %s:%d: %s", f.Path, f.Line(e), f.Src(e))
	}
	return ""
}

// linear returns the items written by a statement list with no branching on the hash;
// onIf is called for if-statements that touch the hash (nil: such an if is unreadable).
func (c *ctx) linear(stmts []ast.Stmt, onIf func(*ast.IfStmt, []string) bool) []string {
	var items []string
	for _, s := range stmts {
		if !mentions(s, c.h) {
			continue
		}
		var e ast.Expr
		switch st := s.(type) {
		case *ast.ExprStmt:
			e = st.X
		case *ast.AssignStmt:
			if len(st.Rhs) == 1 {
				e = st.Rhs[0]
			}
		case *ast.ReturnStmt:
			// `return h.Sum(nil), err` and `return hasher.fileHash(h, p)`
			n := 0
			for _, r := range st.Results {
				if it := c.callItem(r); it != "" {
					items = append(items, it)
					n++
				} else if mentions(r, c.h) && callTo(r, c.h, "Sum") == nil {
					xlib.Unreadable("unrecognised use of the hash at %s:%d: %s", f.Path, f.Line(s), f.Src(s))
				}
			}
			continue
		case *ast.IfStmt:
			if onIf != nil && onIf(st, items) {
				continue
			}
		}
		if e != nil {
			if it := c.callItem(e); it != "" {
				items = append(items, it)
				continue
			}
			if callTo(e, c.h, "Sum") != nil {
				continue
			}
		}
		xlib.Unreadable("unrecognised statement touching the hash at %s:%d: %s", f.Path, f.Line(s), f.Src(s))
	}
	return items
}

// condExpr translates the managed-symlink condition into the model's CondE.
// Atoms: rel != dest / rel == dest (rel being ensureRelative(dest), by name or inline), filepath.IsAbs(dest|path).
func condExpr(c *ctx, e ast.Expr) string {
	isRel := func(x ast.Expr) bool {
		if id, ok := x.(*ast.Ident); ok {
			return c.roles[id.Name] == "rel"
		}
		if er := callTo(x, c.recv, "ensureRelative"); er != nil && len(er.Args) == 1 {
			if id, ok := er.Args[0].(*ast.Ident); ok {
				return c.roles[id.Name] == "dest"
			}
		}
		return false
	}
	isRole := func(x ast.Expr, role string) bool {
		id, ok := x.(*ast.Ident)
		return ok && c.roles[id.Name] == role
	}
	switch x := e.(type) {
	case *ast.ParenExpr:
		return condExpr(c, x.X)
	case *ast.UnaryExpr:
		if x.Op == token.NOT {
			return "(.not " + condExpr(c, x.X) + ")"
		}
	case *ast.BinaryExpr:
		switch x.Op {
		case token.LAND:
			return "(.and " + condExpr(c, x.X) + " " + condExpr(c, x.Y) + ")"
		case token.LOR:
			return "(.or " + condExpr(c, x.X) + " " + condExpr(c, x.Y) + ")"
		case token.NEQ, token.EQL:
			if (isRel(x.X) && isRole(x.Y, "dest")) || (isRel(x.Y) && isRole(x.X, "dest")) {
				if x.Op == token.NEQ {
					return ".relNeDest"
				}
				return "(.not .relNeDest)"
			}
		}
	case *ast.CallExpr:
		if ia := callTo(x, "filepath", "IsAbs"); ia != nil && len(ia.Args) == 1 {
			if isRole(ia.Args[0], "dest") {
				return ".absDest"
			}
			if isRole(ia.Args[0], "path") {
				return ".absPath"
			}
		}
	case *ast.Ident:
		if x.Name == "true" {
			return ".tt"
		}
		if x.Name == "false" {
			return "(.not .tt)"
		}
	}
	xlib.Unreadable("hash: managed-symlink condition has an unmodelled part: %s", f.Src(e))
	return ""
}

func leanItems(xs []string) string { return "[" + strings.Join(xs, ", ") + "]" }

func main() {
	f = xlib.Parse("src/fs/hash.go")
	out := &leanOut{}

	// ---- marker value
	var marker []int
	cl, ok := f.VarValue("boolTrueHashValue").(*ast.CompositeLit)
	if !ok {
		xlib.Unreadable("boolTrueHashValue is not a composite literal")
	}
	for _, e := range cl.Elts {
		bl, ok := e.(*ast.BasicLit)
		if !ok || bl.Kind != token.INT {
			xlib.Unreadable("boolTrueHashValue element is not an int literal")
		}
		v, _ := strconv.ParseInt(bl.Value, 0, 32)
		marker = append(marker, int(v))
	}

	// ---- (*PathHasher).hash
	fn := f.Func("PathHasher.hash")
	c := &ctx{roles: map[string]string{}, marker: "boolTrueHashValue"}
	c.recv = fn.Recv.List[0].Names[0].Name
	var params []string
	for _, fl := range fn.Type.Params.List {
		for _, nm := range fl.Names {
			params = append(params, nm.Name)
		}
	}
	if len(params) != 4 {
		xlib.Unreadable("hash: expected 4 parameters, found %d", len(params))
	}
	c.roles[params[0]] = "path"
	c.roles[params[3]] = "timestamp"
	c.roles[c.recv] = "hasher"
	// h := hasher.new()
	var chain *ast.IfStmt
	for _, s := range fn.Body.List {
		if as, ok := s.(*ast.AssignStmt); ok && len(as.Lhs) == 1 && len(as.Rhs) == 1 {
			if callTo(as.Rhs[0], c.recv, "new") != nil {
				c.h = as.Lhs[0].(*ast.Ident).Name
			}
		}
		if is, ok := s.(*ast.IfStmt); ok && strings.Contains(f.Src(is.Cond), "ModeSymlink") {
			chain = is
		}
	}
	if c.h == "" || chain == nil {
		xlib.Unreadable("hash: hash variable or symlink/dir/file chain not found")
	}
	c.roles[c.h] = "h"
	// statements outside the chain must not write into the hash
	for _, s := range fn.Body.List {
		if s == ast.Stmt(chain) {
			continue
		}
		if as, ok := s.(*ast.AssignStmt); ok && len(as.Rhs) == 1 && (callTo(as.Rhs[0], c.recv, "new") != nil || callTo(as.Rhs[0], c.h, "Sum") != nil) {
			continue
		}
		if mentions(s, c.h) {
			xlib.Unreadable("hash: statement outside the branch chain touches the hash at line %d: %s", f.Line(s), f.Src(s))
		}
	}
	lstatVar := ""
	for _, s := range fn.Body.List {
		if as, ok := s.(*ast.AssignStmt); ok && len(as.Rhs) == 1 && callTo(as.Rhs[0], "os", "Lstat") != nil {
			lstatVar = as.Lhs[0].(*ast.Ident).Name
		}
	}
	if lstatVar == "" {
		xlib.Unreadable("hash: os.Lstat result not found")
	}
	c.roles[lstatVar] = "info"
	condLink := canon(chain.Cond, c.roles)
	if condLink != "err == nil && info.Mode()&os.ModeSymlink != 0" {
		xlib.Unreadable("hash: unexpected symlink condition %q", condLink)
	}
	dirIf, ok := chain.Else.(*ast.IfStmt)
	if !ok || canon(dirIf.Cond, c.roles) != "err == nil && info.IsDir()" {
		xlib.Unreadable("hash: unexpected directory condition")
	}
	fileBlock, ok := dirIf.Else.(*ast.BlockStmt)
	if !ok {
		xlib.Unreadable("hash: no final else branch")
	}

	// ---- symlink branch
	for _, s := range chain.Body.List {
		if as, ok := s.(*ast.AssignStmt); ok && len(as.Rhs) == 1 {
			if rl := callTo(as.Rhs[0], "os", "Readlink"); rl != nil {
				if id, ok := rl.Args[0].(*ast.Ident); !ok || c.roles[id.Name] != "path" {
					xlib.Unreadable("hash: Readlink of something other than the path")
				}
				c.roles[as.Lhs[0].(*ast.Ident).Name] = "dest"
			}
		}
	}
	var linkIn, linkOut []string
	linkCond := ""
	var linkCondAST ast.Expr
	common := c.linear(chain.Body.List, func(is *ast.IfStmt, before []string) bool {
		if linkCond != "" {
			return false
		}
		if as, ok := is.Init.(*ast.AssignStmt); ok && len(as.Rhs) == 1 {
			if er := callTo(as.Rhs[0], c.recv, "ensureRelative"); er != nil {
				if id, ok := er.Args[0].(*ast.Ident); ok && c.roles[id.Name] == "dest" {
					c.roles[as.Lhs[0].(*ast.Ident).Name] = "rel"
				}
			}
		}
		linkCond = canon(is.Cond, c.roles)
		linkCondAST = is.Cond
		linkIn = c.linear(is.Body.List, nil)
		if eb, ok := is.Else.(*ast.BlockStmt); ok {
			linkOut = c.linear(eb.List, nil)
		} else if is.Else != nil {
			xlib.Unreadable("hash: else-if in the symlink branch")
		}
		return true
	})
	if linkCond == "" {
		xlib.Unreadable("hash: managed/system symlink condition not found")
	}
	// writes before the inner if are common to both; writes after it would be too (none today)
	linkIn = append(append([]string{}, common...), linkIn...)
	linkOut = append(append([]string{}, common...), linkOut...)
	// the condition itself becomes a fact: a boolean expression over the three tests the model knows
	// (a changed condition is a fact difference the model follows, not an unreadable source)
	linkCondE := condExpr(c, linkCondAST)

	// ---- directory branch: err = WalkMode(path, func(p, mode) error {...})
	var lit *ast.FuncLit
	for _, s := range dirIf.Body.List {
		as, ok := s.(*ast.AssignStmt)
		if !ok || len(as.Rhs) != 1 {
			if mentions(s, c.h) {
				xlib.Unreadable("hash: directory branch touches the hash outside WalkMode")
			}
			continue
		}
		call, ok := as.Rhs[0].(*ast.CallExpr)
		if !ok {
			continue
		}
		if id, ok := call.Fun.(*ast.Ident); ok && id.Name == "WalkMode" && len(call.Args) == 2 {
			if a0, ok := call.Args[0].(*ast.Ident); !ok || c.roles[a0.Name] != "path" {
				xlib.Unreadable("hash: WalkMode root is not the path")
			}
			lit, _ = call.Args[1].(*ast.FuncLit)
		}
	}
	if lit == nil || len(lit.Type.Params.List) == 0 {
		xlib.Unreadable("hash: WalkMode callback literal not found")
	}
	var cbp []string
	for _, fl := range lit.Type.Params.List {
		for _, nm := range fl.Names {
			cbp = append(cbp, nm.Name)
		}
	}
	if len(cbp) != 2 {
		xlib.Unreadable("hash: callback has %d parameters", len(cbp))
	}
	cb := &ctx{h: c.h, recv: c.recv, marker: c.marker, roles: map[string]string{cbp[0]: "p", cbp[1]: "mode", c.recv: "hasher", c.h: "h"}}
	var dirFile, dirLink, dirDir []string
	seen := 0
	rest := cb.linear(lit.Body.List, func(is *ast.IfStmt, _ []string) bool {
		// if mode.IsSymlink() {...} else if !mode.IsDir() {...} [else {...}]
		for cur := is; cur != nil; {
			switch canon(cur.Cond, cb.roles) {
			case "mode.IsSymlink()":
				if seen != 0 {
					xlib.Unreadable("hash: callback tests IsSymlink after another kind test")
				}
				dirLink = cb.linear(cur.Body.List, nil)
				seen |= 1
			case "!mode.IsDir()":
				dirFile = cb.linear(cur.Body.List, nil)
				seen |= 2
			default:
				xlib.Unreadable("hash: unrecognised kind test in the walk callback: %s", f.Src(cur.Cond))
			}
			switch e := cur.Else.(type) {
			case nil:
				cur = nil
			case *ast.IfStmt:
				cur = e
			case *ast.BlockStmt:
				dirDir = cb.linear(e.List, nil)
				cur = nil
			}
		}
		return true
	})
	if seen != 3 {
		xlib.Unreadable("hash: walk callback does not distinguish symlink / non-directory")
	}
	if len(rest) != 0 {
		xlib.Unreadable("hash: walk callback writes unconditionally: %v", rest)
	}

	// ---- plain file branch: if timestamp {...} else { err = hasher.fileHash(h, path) }
	var topFile []string
	found := false
	for _, s := range fileBlock.List {
		if is, ok := s.(*ast.IfStmt); ok && canon(is.Cond, c.roles) == "timestamp" {
			if eb, ok := is.Else.(*ast.BlockStmt); ok {
				topFile = c.linear(eb.List, nil)
				found = true
				continue
			}
		}
		if mentions(s, c.h) {
			xlib.Unreadable("hash: file branch touches the hash outside if timestamp/else")
		}
	}
	if !found {
		xlib.Unreadable("hash: file branch shape not recognised")
	}

	out.Def("schema", "Schema", "{\n    marker := "+xlib.LeanNatList(marker)+
		",\n    linkCond := "+linkCondE+
		",\n    topFile := "+leanItems(topFile)+
		",\n    topLinkIn := "+leanItems(linkIn)+
		",\n    topLinkOut := "+leanItems(linkOut)+
		",\n    dirFile := "+leanItems(dirFile)+
		",\n    dirLink := "+leanItems(dirLink)+
		",\n    dirDir := "+leanItems(dirDir)+" }")
	out.Def("linkCond", "String", xlib.LeanStr(linkCond))

	// ---- Hash(): path = hasher.ensureRelative(path) is the first statement
	hf := f.Func("PathHasher.Hash")
	rel := false
	if as, ok := hf.Body.List[0].(*ast.AssignStmt); ok && len(as.Rhs) == 1 {
		recv := hf.Recv.List[0].Names[0].Name
		if er := callTo(as.Rhs[0], recv, "ensureRelative"); er != nil {
			l, _ := as.Lhs[0].(*ast.Ident)
			a, _ := er.Args[0].(*ast.Ident)
			p0 := hf.Type.Params.List[0].Names[0].Name
			rel = l != nil && a != nil && l.Name == p0 && a.Name == p0
		}
	}
	out.Def("hashRelativisesPath", "Bool", xlib.LeanBool(rel))

	// ---- ensureRelative shape
	ef := f.Func("PathHasher.ensureRelative")
	er := map[string]string{ef.Recv.List[0].Names[0].Name: "hasher", ef.Type.Params.List[0].Names[0].Name: "path"}
	got := canon(ef.Body, er)
	want := `{ if strings.HasPrefix(path, hasher.root) { return strings.TrimLeft(strings.TrimPrefix(path, hasher.root), "/") } return path }`
	if got != want {
		xlib.Unreadable("ensureRelative has an unmodelled shape: %s", got)
	}
	out.Def("ensureRelativeShape", "String", xlib.LeanStr("hasprefix-trimprefix-trimleft-slash"))

	// ---- fileHash copies the whole opened file into the hash
	ff := f.Func("PathHasher.fileHash")
	fr := map[string]string{ff.Type.Params.List[0].Names[0].Name: "h", ff.Type.Params.List[1].Names[0].Name: "filename"}
	opened, copied := "", false
	ast.Inspect(ff.Body, func(n ast.Node) bool {
		if as, ok := n.(*ast.AssignStmt); ok && len(as.Rhs) == 1 {
			if o := callTo(as.Rhs[0], "os", "Open"); o != nil && canon(o.Args[0], fr) == "filename" {
				opened = as.Lhs[0].(*ast.Ident).Name
			}
			if cp := callTo(as.Rhs[0], "io", "Copy"); cp != nil && len(cp.Args) == 2 {
				if canon(cp.Args[0], fr) == "h" {
					if id, ok := cp.Args[1].(*ast.Ident); ok && id.Name == opened && opened != "" {
						copied = true
					}
				}
			}
		}
		return true
	})
	out.Def("fileHashWholeFile", "Bool", xlib.LeanBool(copied))

	// ---- walk.go: godirwalk options
	w := xlib.Parse("src/fs/walk.go")
	f = w
	wm := w.Func("WalkMode")
	unsorted, follow, nwalk := false, false, 0
	var keys []string
	ast.Inspect(wm.Body, func(n ast.Node) bool {
		call, ok := n.(*ast.CallExpr)
		if !ok || !isSel(call.Fun, "godirwalk", "Walk") {
			return true
		}
		nwalk++
		if len(call.Args) != 2 {
			xlib.Unreadable("godirwalk.Walk with %d args", len(call.Args))
		}
		if id, ok := call.Args[0].(*ast.Ident); !ok || id.Name != wm.Type.Params.List[0].Names[0].Name {
			xlib.Unreadable("godirwalk.Walk root is not WalkMode's first parameter")
		}
		un, ok := call.Args[1].(*ast.UnaryExpr)
		if !ok {
			xlib.Unreadable("godirwalk options are not a literal")
		}
		lit, ok := un.X.(*ast.CompositeLit)
		if !ok {
			xlib.Unreadable("godirwalk options are not a literal")
		}
		for _, e := range lit.Elts {
			kv, ok := e.(*ast.KeyValueExpr)
			if !ok {
				xlib.Unreadable("positional godirwalk options")
			}
			k := kv.Key.(*ast.Ident).Name
			keys = append(keys, k)
			if k == "Unsorted" || k == "FollowSymbolicLinks" {
				id, ok := kv.Value.(*ast.Ident)
				if !ok || (id.Name != "true" && id.Name != "false") {
					xlib.Unreadable("godirwalk option %s is not a literal", k)
				}
				if k == "Unsorted" {
					unsorted = id.Name == "true"
				} else {
					follow = id.Name == "true"
				}
			}
		}
		return true
	})
	if nwalk != 1 {
		xlib.Unreadable("WalkMode: expected one godirwalk.Walk call, found %d", nwalk)
	}
	out.Def("walkOptionKeys", "List String", xlib.LeanStrList(keys))
	out.Def("walkUnsorted", "Bool", xlib.LeanBool(unsorted))
	out.Def("walkFollowsSymlinks", "Bool", xlib.LeanBool(follow))
	out.write("C09", "import PlzVerif.Model.PathHash", "open PlzVerif.PathHash", "src/fs/hash.go, src/fs/walk.go")
}

// leanOut is xlib.Out plus an import line (the schema is a value of a model type).
type leanOut struct{ b strings.Builder }

func (o *leanOut) Def(name, typ, val string) {
	fmt.Fprintf(&o.b, "def %s : %s := %s\n", name, typ, val)
}

func (o *leanOut) write(name, imports, opens, sources string) {
	s := imports + "\n-- REGENERATED from " + sources + " by /verif/harness/extract/" + strings.ToLower(name) +
		" on every run. Do not edit.\nnamespace PlzVerif.Generated." + name + "\n" + opens + "\n" + o.b.String() +
		"end PlzVerif.Generated." + name + "\n"
	dir := os.Getenv("VERIF_GENERATED")
	if dir == "" {
		dir = "/verif/lean/PlzVerif/Generated"
	}
	os.MkdirAll(dir, 0o755)
	p := filepath.Join(dir, name+".lean")
	if old, err := os.ReadFile(p); err == nil && string(old) == s {
		return
	}
	if err := os.WriteFile(p, []byte(s), 0o644); err != nil {
		panic(err)
	}
}
