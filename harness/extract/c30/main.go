// Facts for C30 from src/process/process.go and exec_linux.go:
//   - killProcess: which signals, in which order, with which waits; whether the second round is evaluated
//     unconditionally (`!sendSignal(KILL…) && !success` evaluates the call first);
//   - sendSignal: that the signal goes to the negated pid (the process group);
//   - ExecWithTimeout: that the ctx.Done branch calls KillProcess and the normal branch signals nothing;
//   - ExecCommand: Setpgid: true.
package main

import (
	"crypto/sha256"
	"encoding/hex"
	"go/ast"
	"go/token"
	"strconv"
	"strings"

	"verif/harness/xlib"
)

// durationMs evaluates expressions like 30*time.Millisecond, time.Second, 2*time.Second.
func durationMs(f *xlib.File, e ast.Expr) int {
	unit := func(x ast.Expr) (int, bool) {
		switch strings.Join(strings.Fields(f.Src(x)), "") {
		case "time.Millisecond":
			return 1, true
		case "time.Second":
			return 1000, true
		case "time.Minute":
			return 60000, true
		}
		return 0, false
	}
	if u, ok := unit(e); ok {
		return u
	}
	if be, ok := e.(*ast.BinaryExpr); ok && be.Op == token.MUL {
		lit, other := be.X, be.Y
		if _, ok := lit.(*ast.BasicLit); !ok {
			lit, other = be.Y, be.X
		}
		if bl, ok := lit.(*ast.BasicLit); ok && bl.Kind == token.INT {
			if u, ok := unit(other); ok {
				n, _ := strconv.Atoi(bl.Value)
				return n * u
			}
		}
	}
	xlib.Unreadable("cannot evaluate duration %s", f.Src(e))
	return 0
}

func sendSignalCall(f *xlib.File, e ast.Expr) *ast.CallExpr {
	c, ok := e.(*ast.CallExpr)
	if !ok {
		return nil
	}
	if id, ok := c.Fun.(*ast.Ident); !ok || id.Name != "sendSignal" || len(c.Args) != 4 {
		return nil
	}
	return c
}

func main() {
	f := xlib.Parse("src/process/process.go")
	out := xlib.NewOut("C30", f.Path, "src/process/exec_linux.go")

	// ---- killProcess
	kp := f.Func("Executor.killProcess")
	var calls []*ast.CallExpr
	ast.Inspect(kp.Body, func(n ast.Node) bool {
		if e, ok := n.(ast.Expr); ok {
			if c := sendSignalCall(f, e); c != nil {
				calls = append(calls, c)
			}
		}
		return true
	})
	if len(calls) != 2 {
		xlib.Unreadable("killProcess: expected two sendSignal calls, found %d", len(calls))
	}
	var sigs []string
	var waits []int
	for _, c := range calls {
		sel, ok := c.Args[2].(*ast.SelectorExpr)
		if !ok {
			xlib.Unreadable("killProcess: signal argument %s", f.Src(c.Args[2]))
		}
		sigs = append(sigs, sel.Sel.Name)
		waits = append(waits, durationMs(f, c.Args[3]))
	}
	out.Def("signals", "List String", xlib.LeanStrList(sigs))
	out.Def("termWaitMs", "Nat", strconv.Itoa(waits[0]))
	out.Def("killWaitMs", "Nat", strconv.Itoa(waits[1]))
	// the second call sits in a condition whose leftmost operand (evaluated first, unconditionally) contains it
	always := false
	for _, st := range kp.Body.List {
		ifs, ok := st.(*ast.IfStmt)
		if !ok {
			continue
		}
		left := ifs.Cond
		for {
			if be, ok := left.(*ast.BinaryExpr); ok && (be.Op == token.LAND || be.Op == token.LOR) {
				left = be.X
				continue
			}
			break
		}
		ast.Inspect(left, func(n ast.Node) bool {
			if e, ok := n.(ast.Expr); ok && sendSignalCall(f, e) == calls[1] {
				always = true
			}
			return true
		})
	}
	// or it is a statement of its own
	for _, st := range kp.Body.List {
		switch s := st.(type) {
		case *ast.ExprStmt:
			if sendSignalCall(f, s.X) == calls[1] {
				always = true
			}
		case *ast.AssignStmt:
			for _, r := range s.Rhs {
				if sendSignalCall(f, r) == calls[1] {
					always = true
				}
			}
		}
	}
	out.Def("secondRoundAlways", "Bool", xlib.LeanBool(always))

	// ---- sendSignal: syscall.Kill(-pid, sig)
	ss := f.Func("sendSignal")
	group := false
	nkill := 0
	ast.Inspect(ss.Body, func(n ast.Node) bool {
		if c, ok := n.(*ast.CallExpr); ok && strings.HasSuffix(f.Src(c.Fun), "syscall.Kill") && len(c.Args) == 2 {
			nkill++
			if u, ok := c.Args[0].(*ast.UnaryExpr); ok && u.Op == token.SUB && strings.HasSuffix(f.Src(u.X), ".Process.Pid") {
				group = true
			}
		}
		return true
	})
	if nkill != 1 {
		xlib.Unreadable("sendSignal: expected one syscall.Kill, found %d", nkill)
	}
	out.Def("killsGroup", "Bool", xlib.LeanBool(group))

	// ---- ExecWithTimeout: the select
	ew := f.Func("Executor.ExecWithTimeout")
	var sel *ast.SelectStmt
	ast.Inspect(ew.Body, func(n ast.Node) bool {
		if s, ok := n.(*ast.SelectStmt); ok && sel == nil {
			sel = s
		}
		return true
	})
	if sel == nil {
		xlib.Unreadable("ExecWithTimeout: no select")
	}
	timeoutKills, normalSignals := false, false
	for _, cc := range sel.Body.List {
		c := cc.(*ast.CommClause)
		src := ""
		if c.Comm != nil {
			src = f.Src(c.Comm)
		}
		body := ""
		for _, st := range c.Body {
			body += f.Src(st) + ";"
		}
		if strings.Contains(src, ".Done()") {
			if strings.Contains(body, "KillProcess(") || strings.Contains(body, "killProcess(") {
				timeoutKills = true
			}
		} else if strings.Contains(body, "Kill") || strings.Contains(body, "Signal") || strings.Contains(body, "sendSignal") {
			normalSignals = true
		}
	}
	// anything after the select that signals the group on every path
	after := false
	for _, st := range ew.Body.List {
		if st == ast.Stmt(sel) {
			after = true
			continue
		}
		if after {
			s := f.Src(st)
			if strings.Contains(s, "Kill") || strings.Contains(s, "sendSignal") {
				normalSignals = true
			}
		}
	}
	// deferred kills
	ast.Inspect(ew.Body, func(n ast.Node) bool {
		if d, ok := n.(*ast.DeferStmt); ok {
			s := f.Src(d.Call)
			if strings.Contains(s, "Kill") || strings.Contains(s, "sendSignal") {
				normalSignals = true
			}
		}
		return true
	})
	out.Def("timeoutBranchKills", "Bool", xlib.LeanBool(timeoutKills))
	out.Def("normalBranchSignals", "Bool", xlib.LeanBool(normalSignals))

	// ---- exec_linux.go: Setpgid
	g := xlib.Parse("src/process/exec_linux.go")
	ec := g.Func("Executor.ExecCommand")
	setpgid := false
	ast.Inspect(ec.Body, func(n ast.Node) bool {
		if kv, ok := n.(*ast.KeyValueExpr); ok {
			if k, ok := kv.Key.(*ast.Ident); ok && k.Name == "Setpgid" {
				if v, ok := kv.Value.(*ast.Ident); ok && v.Name == "true" {
					setpgid = true
				}
			}
		}
		return true
	})
	out.Def("setpgid", "Bool", xlib.LeanBool(setpgid))

	// canonical skeletons of the code the supervisor model transcribes (digests; the text is kept as a comment)
	startIdx := -1
	for i, st := range ew.Body.List {
		if strings.Contains(f.Src(st), ".Start()") {
			startIdx = i
			break
		}
	}
	if startIdx < 0 {
		xlib.Unreadable("ExecWithTimeout: no cmd.Start()")
	}
	emitSkeleton(out, "skelExecTail", skeleton(f, ew, startIdx))
	emitSkeleton(out, "skelKillProcess", skeleton(f, kp, 0))
	emitSkeleton(out, "skelSendSignal", skeleton(f, ss, 0))
	emitSkeleton(out, "skelRunCommand", skeleton(f, f.Func("runCommand"), 0))
	out.Write()
}

// skeleton renders the statements of fn's body from index `from` on, canonically: parameters and receiver
// named by position, locals by order of declaration, long message strings blanked.
func skeleton(f *xlib.File, fn *ast.FuncDecl, from int) string {
	names := map[*ast.Object]string{}
	np := 0
	if fn.Recv != nil {
		for _, fl := range fn.Recv.List {
			for _, n := range fl.Names {
				if n.Obj != nil {
					names[n.Obj] = "r" + strconv.Itoa(np)
				}
				np++
			}
		}
	}
	np = 0
	for _, fl := range fn.Type.Params.List {
		for _, n := range fl.Names {
			if n.Obj != nil {
				names[n.Obj] = "p" + strconv.Itoa(np)
			}
			np++
		}
	}
	nv := 0
	ast.Inspect(fn.Body, func(n ast.Node) bool {
		if id, ok := n.(*ast.Ident); ok && id.Obj != nil && id.Obj.Kind == ast.Var {
			if _, seen := names[id.Obj]; !seen {
				if d, ok := id.Obj.Decl.(ast.Node); ok && d.Pos() >= fn.Body.Pos() && d.End() <= fn.Body.End() {
					names[id.Obj] = "v" + strconv.Itoa(nv)
					nv++
				}
			}
		}
		return true
	})
	ast.Inspect(fn.Body, func(n ast.Node) bool {
		switch x := n.(type) {
		case *ast.Ident:
			if x.Obj != nil {
				if nm, ok := names[x.Obj]; ok {
					x.Name = nm
				}
			}
		case *ast.BasicLit:
			if x.Kind == token.STRING && len(x.Value) > 6 && strings.Contains(x.Value, " ") {
				x.Value = `"…"`
			}
		}
		return true
	})
	var parts []string
	for _, st := range fn.Body.List[from:] {
		parts = append(parts, f.Src(st))
	}
	return strings.Join(parts, " ; ")
}

func emitSkeleton(out *xlib.Out, name, text string) {
	sum := sha256.Sum256([]byte(text))
	out.Raw("-- " + name + ": " + text)
	out.Def(name, "String", xlib.LeanStr(hex.EncodeToString(sum[:12])))
}
