// Facts for C38 from src/format/fmt.go: the pipeline of `format` (parse -> simplify -> print, in that order, and
// the unchanged-file test on the bytes), the shape of `simplify`'s loop (start index, direction, what is merged
// into what, which statement is deleted) and what `subinclude` accepts.
package main

import (
	"go/ast"
	"go/token"
	"strconv"
	"strings"

	"verif/harness/xlib"
)

func callName(c *ast.CallExpr) string {
	switch f := c.Fun.(type) {
	case *ast.Ident:
		return f.Name
	case *ast.SelectorExpr:
		if x, ok := f.X.(*ast.Ident); ok {
			return x.Name + "." + f.Sel.Name
		}
		return f.Sel.Name
	}
	return "?"
}

func main() {
	f := xlib.Parse("src/format/fmt.go")
	out := xlib.NewOut("C38", f.Path)

	// format(): calls in source order, restricted to the pipeline and the comparison
	var pipeline []string
	ast.Inspect(f.Func("format").Body, func(n ast.Node) bool {
		if c, ok := n.(*ast.CallExpr); ok {
			switch nm := callName(c); nm {
			case "build.ParseBuild", "build.ParseDefault", "build.Parse", "simplify", "build.Format", "build.FormatWithoutRewriting", "bytes.Equal", "fs.WriteFile":
				pipeline = append(pipeline, nm)
			}
		}
		return true
	})
	out.Def("formatPipeline", "List String", xlib.LeanStrList(pipeline))

	// simplify(): exactly one for loop over indices
	sf := f.Func("simplify")
	var loop *ast.ForStmt
	for _, st := range sf.Body.List {
		if l, ok := st.(*ast.ForStmt); ok {
			if loop != nil {
				xlib.Unreadable("simplify: more than one loop")
			}
			loop = l
		} else {
			xlib.Unreadable("simplify: unexpected top-level statement %s", f.Src(st))
		}
	}
	if loop == nil || loop.Init == nil || loop.Cond == nil || loop.Post == nil {
		xlib.Unreadable("simplify: index loop not found")
	}
	ivar := ""
	if as, ok := loop.Init.(*ast.AssignStmt); ok && len(as.Lhs) == 1 {
		if id, ok := as.Lhs[0].(*ast.Ident); ok {
			ivar = id.Name
		}
	}
	if ivar == "" {
		xlib.Unreadable("simplify: loop variable not found")
	}
	pvar := ""
	if ps := sf.Type.Params.List; len(ps) == 1 && len(ps[0].Names) == 1 {
		pvar = ps[0].Names[0].Name
	}
	norm := func(n ast.Node) string { // rename the loop variable to i and the parameter to f, drop spaces
		s := " " + f.Src(n) + " "
		var b strings.Builder
		for i := 1; i < len(s); i++ {
			switch {
			case strings.HasPrefix(s[i:], ivar) && !isIdent(s[i-1]) && !isIdent(s[i+len(ivar)]):
				b.WriteString("i")
				i += len(ivar) - 1
			case pvar != "" && strings.HasPrefix(s[i:], pvar) && !isIdent(s[i-1]) && s[i-1] != '.' && !isIdent(s[i+len(pvar)]):
				b.WriteString("f")
				i += len(pvar) - 1
			case s[i] != ' ':
				b.WriteByte(s[i])
			}
		}
		return b.String()
	}
	out.Def("loopInit", "String", xlib.LeanStr(norm(loop.Init)))
	out.Def("loopCond", "String", xlib.LeanStr(norm(loop.Cond)))
	out.Def("loopPost", "String", xlib.LeanStr(norm(loop.Post)))
	// inside: which elements are tested with subinclude(), what is appended to what, what is deleted
	var tested, appends, deletes []string
	depth := 0
	ast.Inspect(loop.Body, func(n ast.Node) bool {
		switch x := n.(type) {
		case *ast.IfStmt:
			depth++
		case *ast.CallExpr:
			switch callName(x) {
			case "subinclude":
				tested = append(tested, norm(x.Args[0]))
			case "append":
				var a []string
				for _, e := range x.Args {
					a = append(a, role(f, loop, e))
				}
				appends = append(appends, strings.Join(a, ","))
			case "slices.Delete":
				var a []string
				for _, e := range x.Args[1:] {
					a = append(a, norm(e))
				}
				deletes = append(deletes, strings.Join(a, ","))
			}
		}
		return true
	})
	out.Def("subincludeTests", "List String", xlib.LeanStrList(tested))
	out.Def("appendRoles", "List String", xlib.LeanStrList(appends))
	out.Def("deleteRanges", "List String", xlib.LeanStrList(deletes))
	out.Def("ifDepth", "Nat", itoa(depth))

	// subinclude(): callee name compared, argument node type required
	sb := f.Func("subinclude")
	name, argType := "", ""
	nilReturns := 0
	ast.Inspect(sb.Body, func(n ast.Node) bool {
		switch x := n.(type) {
		case *ast.BinaryExpr:
			if x.Op == token.EQL {
				if bl, ok := x.Y.(*ast.BasicLit); ok && bl.Kind == token.STRING {
					name = strings.Trim(bl.Value, "\"")
				}
			}
		case *ast.RangeStmt:
			ast.Inspect(x.Body, func(m ast.Node) bool {
				if ta, ok := m.(*ast.TypeAssertExpr); ok && ta.Type != nil {
					argType = f.Src(ta.Type)
				}
				return true
			})
		case *ast.ReturnStmt:
			if len(x.Results) == 1 {
				if id, ok := x.Results[0].(*ast.Ident); ok && id.Name == "nil" {
					nilReturns++
				}
			}
		}
		return true
	})
	out.Def("subincludeName", "String", xlib.LeanStr(name))
	out.Def("subincludeArgType", "String", xlib.LeanStr(argType))
	out.Def("subincludeNilReturns", "Nat", itoa(nilReturns))
	out.Write()
}

func isIdent(c byte) bool {
	return c == '_' || (c >= 'a' && c <= 'z') || (c >= 'A' && c <= 'Z') || (c >= '0' && c <= '9')
}

func itoa(n int) string { return strconv.Itoa(n) }

// role names an operand of append(...) by where its value comes from: the result of the subinclude() test of
// element i ("cur") or of element i+1 ("next"), independent of what the local variables are called.
func role(f *xlib.File, loop *ast.ForStmt, e ast.Expr) string {
	base := e
	if s, ok := base.(*ast.SelectorExpr); ok {
		base = s.X
	}
	id, ok := base.(*ast.Ident)
	if !ok {
		return "other"
	}
	res := "other"
	ast.Inspect(loop.Body, func(n ast.Node) bool {
		if as, ok := n.(*ast.AssignStmt); ok && len(as.Lhs) == 1 && len(as.Rhs) == 1 {
			if l, ok := as.Lhs[0].(*ast.Ident); ok && l.Name == id.Name {
				if c, ok := as.Rhs[0].(*ast.CallExpr); ok && callName(c) == "subinclude" {
					arg := strings.ReplaceAll(f.Src(c.Args[0]), " ", "")
					if strings.Contains(arg, "+1]") {
						res = "next"
					} else {
						res = "cur"
					}
				}
			}
		}
		return true
	})
	suffix := ""
	if s, ok := e.(*ast.SelectorExpr); ok {
		suffix = "." + s.Sel.Name
	}
	return res + suffix
}
