// Facts for C16 (and the asp models of C17/C18) from src/parse/asp:
//   grammar.go      Operator.Precedence() table, Operator.Lazy(), the operators token map
//   objects.go      pyInt.Operator: the Go expression behind each arithmetic operator; pyList.Operator(Add);
//                   pyList.Freeze: what the returned wrapper holds
//   builtins.go     sorted / reversed: do they copy their argument?
//   interpreter.go  Constant(): are list literals folded?  interpretSlice: does a list slice share its array?
package main

import (
	"fmt"
	"go/ast"
	"go/token"
	"sort"
	"strconv"
	"strings"

	"verif/harness/xlib"
)

func leanPairs(ps [][2]string, second func(string) string) string {
	out := make([]string, len(ps))
	for i, p := range ps {
		out[i] = "(" + xlib.LeanStr(p[0]) + ", " + second(p[1]) + ")"
	}
	return "[" + strings.Join(out, ", ") + "]"
}

func caseNames(cc *ast.CaseClause) []string {
	var names []string
	for _, e := range cc.List {
		if id, ok := e.(*ast.Ident); ok {
			names = append(names, id.Name)
		}
	}
	return names
}

// intLit evaluates an integer literal, possibly negated.
func intLit(e ast.Expr) (int, bool) {
	switch t := e.(type) {
	case *ast.BasicLit:
		if t.Kind == token.INT {
			n, err := strconv.Atoi(t.Value)
			return n, err == nil
		}
	case *ast.UnaryExpr:
		if t.Op == token.SUB {
			n, ok := intLit(t.X)
			return -n, ok
		}
	case *ast.ParenExpr:
		return intLit(t.X)
	}
	return 0, false
}

func singleReturn(body []ast.Stmt) ast.Expr {
	if len(body) == 1 {
		if r, ok := body[0].(*ast.ReturnStmt); ok && len(r.Results) == 1 {
			return r.Results[0]
		}
	}
	return nil
}

// helperKind reads a two-parameter integer helper `func name(a, b pyInt) pyInt` and names its body if it is one of
// the shapes the model knows (parameter names are normalised to a, b; the local to v):
//   floormod:  v := a % b; if v != 0 && (v < 0) != (b < 0) { v += b }; return v
//   floordiv:  v := a / b; if a%b != 0 && (a < 0) != (b < 0) { v-- }; return v
func helperKind(f *xlib.File, name string) string {
	var fd *ast.FuncDecl
	for _, d := range f.AST.Decls {
		if x, ok := d.(*ast.FuncDecl); ok && x.Recv == nil && x.Name.Name == name {
			fd = x
		}
	}
	if fd == nil || fd.Type.Params == nil {
		return ""
	}
	var params []string
	for _, fl := range fd.Type.Params.List {
		if f.Src(fl.Type) != "pyInt" {
			return ""
		}
		for _, n := range fl.Names {
			params = append(params, n.Name)
		}
	}
	if len(params) != 2 || fd.Type.Results == nil || len(fd.Type.Results.List) != 1 || f.Src(fd.Type.Results.List[0].Type) != "pyInt" {
		return ""
	}
	if len(fd.Body.List) != 3 {
		return ""
	}
	as, ok := fd.Body.List[0].(*ast.AssignStmt)
	if !ok || as.Tok != token.DEFINE || len(as.Lhs) != 1 {
		return ""
	}
	local, ok := as.Lhs[0].(*ast.Ident)
	if !ok {
		return ""
	}
	ren := map[string]string{params[0]: "a", params[1]: "b", local.Name: "v"}
	ast.Inspect(fd.Body, func(n ast.Node) bool {
		if id, ok := n.(*ast.Ident); ok {
			if r, ok := ren[id.Name]; ok {
				id.Name = r
			}
		}
		return true
	})
	body := strings.Join(strings.Fields(f.Src(fd.Body)), "")
	switch body {
	case "{v:=a%b;ifv!=0&&(v<0)!=(b<0){v+=b};returnv}", "{v:=a%bifv!=0&&(v<0)!=(b<0){v+=b}returnv}":
		return "floormod"
	case "{v:=a/b;ifa%b!=0&&(a<0)!=(b<0){v--};returnv}", "{v:=a/bifa%b!=0&&(a<0)!=(b<0){v--}returnv}":
		return "floordiv"
	}
	return ""
}

func main() {
	g := xlib.Parse("src/parse/asp/grammar.go")
	o := xlib.Parse("src/parse/asp/objects.go")
	b := xlib.Parse("src/parse/asp/builtins.go")
	in := xlib.Parse("src/parse/asp/interpreter.go")
	out := xlib.NewOut("C16", g.Path, o.Path, b.Path, in.Path)

	// ---- Precedence(): switch o { case A, B: return n ... default: return d }
	prec := g.Func("Operator.Precedence")
	var sw *ast.SwitchStmt
	for _, s := range prec.Body.List {
		if x, ok := s.(*ast.SwitchStmt); ok {
			sw = x
		}
	}
	if sw == nil {
		xlib.Unreadable("Precedence(): no switch statement")
	}
	var table [][2]string
	def := ""
	for _, c := range sw.Body.List {
		cc := c.(*ast.CaseClause)
		r := singleReturn(cc.Body)
		if r == nil {
			xlib.Unreadable("Precedence(): case is not a single return")
		}
		n, ok := intLit(r)
		if !ok {
			xlib.Unreadable("Precedence(): non-literal return %s", g.Src(r))
		}
		if cc.List == nil {
			def = strconv.Itoa(n)
			continue
		}
		for _, nm := range caseNames(cc) {
			table = append(table, [2]string{nm, strconv.Itoa(n)})
		}
	}
	if def == "" {
		xlib.Unreadable("Precedence(): no default")
	}
	sort.Slice(table, func(i, j int) bool { return table[i][0] < table[j][0] })
	leanInt := func(s string) string {
		if strings.HasPrefix(s, "-") {
			return "(" + s + ")"
		}
		return s
	}
	out.Def("precTable", "List (String × Int)", leanPairs(table, leanInt))
	out.Def("precDefault", "Int", leanInt(def))

	// ---- Lazy(): return o == And || o == Or
	lazy := g.Func("Operator.Lazy")
	var lz []string
	if r := singleReturn(lazy.Body.List); r != nil {
		ast.Inspect(r, func(n ast.Node) bool {
			if be, ok := n.(*ast.BinaryExpr); ok && be.Op == token.EQL {
				if id, ok := be.Y.(*ast.Ident); ok {
					lz = append(lz, id.Name)
				}
			}
			return true
		})
	} else {
		xlib.Unreadable("Lazy(): not a single return")
	}
	sort.Strings(lz)
	out.Def("lazyOps", "List String", xlib.LeanStrList(lz))

	// ---- operators map: token -> constant
	var toks [][2]string
	if cl, ok := g.VarValue("operators").(*ast.CompositeLit); ok {
		for _, e := range cl.Elts {
			kv := e.(*ast.KeyValueExpr)
			k, _ := strconv.Unquote(kv.Key.(*ast.BasicLit).Value)
			toks = append(toks, [2]string{k, kv.Value.(*ast.Ident).Name})
		}
	} else {
		xlib.Unreadable("operators is not a composite literal")
	}
	sort.Slice(toks, func(i, j int) bool { return toks[i][0] < toks[j][0] })
	out.Def("operators", "List (String × String)", leanPairs(toks, xlib.LeanStr))

	// ---- pyInt.Operator: switch operand.(type) { case pyInt: switch operator { case Add: return i + o ...
	intOp := o.Func("pyInt.Operator")
	recv := intOp.Recv.List[0].Names[0].Name
	var intOps [][2]string
	ast.Inspect(intOp.Body, func(n ast.Node) bool {
		ts, ok := n.(*ast.TypeSwitchStmt)
		if !ok {
			return true
		}
		for _, c := range ts.Body.List {
			cc := c.(*ast.CaseClause)
			if len(cc.List) != 1 || o.Src(cc.List[0]) != "pyInt" {
				continue
			}
			for _, s := range cc.Body {
				inner, ok := s.(*ast.SwitchStmt)
				if !ok {
					continue
				}
				for _, ic := range inner.Body.List {
					icc := ic.(*ast.CaseClause)
					r := singleReturn(icc.Body)
					if r == nil {
						continue // e.g. the panic for In
					}
					kind := ""
					// strip newPyBool(...) / newPyInt(...) / int(...) / pyInt(...) wrappers and parentheses
					strip := func(e ast.Expr) ast.Expr {
						for {
							if pe, ok := e.(*ast.ParenExpr); ok {
								e = pe.X
								continue
							}
							if ce, ok := e.(*ast.CallExpr); ok && len(ce.Args) == 1 {
								if id, ok := ce.Fun.(*ast.Ident); ok && (id.Name == "newPyBool" || id.Name == "newPyInt" || id.Name == "int" || id.Name == "pyInt") {
									e = ce.Args[0]
									continue
								}
							}
							return e
						}
					}
					core := strip(r)
					if be, ok := core.(*ast.BinaryExpr); ok {
						x, xok := strip(be.X).(*ast.Ident)
						_, yok := strip(be.Y).(*ast.Ident)
						if xok && yok && x.Name == recv {
							kind = be.Op.String()
						}
					} else if ce, ok := core.(*ast.CallExpr); ok && o.Src(ce.Fun) == "math.Floor" && len(ce.Args) == 1 {
						if be, ok := ce.Args[0].(*ast.BinaryExpr); ok && be.Op == token.QUO && strings.HasPrefix(o.Src(be.X), "float64(") && strings.HasPrefix(o.Src(be.Y), "float64(") {
							kind = "floor(float/float)"
						}
					}
					if ce, ok := core.(*ast.CallExpr); ok && kind == "" && len(ce.Args) == 2 {
						// a call of a helper on (receiver, operand): read the helper's body
						fn, isId := ce.Fun.(*ast.Ident)
						x, xok := strip(ce.Args[0]).(*ast.Ident)
						_, yok := strip(ce.Args[1]).(*ast.Ident)
						if isId && xok && yok && x.Name == recv {
							kind = helperKind(o, fn.Name)
						}
					}
					if kind == "" {
						// a shape this extractor does not understand: no facts rather than wrong facts (the run
						// falls back to lean/Expected/C16.lean and the thorough correspondence)
						xlib.Unreadable("pyInt.Operator: case %v returns %s", caseNames(icc), o.Src(r))
					}
					for _, nm := range caseNames(icc) {
						intOps = append(intOps, [2]string{nm, kind})
					}
				}
			}
		}
		return false
	})
	if len(intOps) == 0 {
		xlib.Unreadable("pyInt.Operator: no int/int operator cases found")
	}
	sort.Slice(intOps, func(i, j int) bool { return intOps[i][0] < intOps[j][0] })
	out.Def("intOps", "List (String × String)", leanPairs(intOps, xlib.LeanStr))

	// ---- pyList.Operator case Add: the expression returned for a pyList operand
	listOp := o.Func("pyList.Operator")
	addExpr := ""
	ast.Inspect(listOp.Body, func(n ast.Node) bool {
		cc, ok := n.(*ast.CaseClause)
		if !ok || len(cc.List) != 1 || o.Src(cc.List[0]) != "Add" {
			return true
		}
		if r, ok := cc.Body[len(cc.Body)-1].(*ast.ReturnStmt); ok && len(r.Results) == 1 {
			addExpr = o.Src(r.Results[0])
		}
		return false
	})
	lrecv := listOp.Recv.List[0].Names[0].Name
	addAppends := strings.Contains(addExpr, "append("+lrecv+",")
	out.Def("listAddExpr", "String", xlib.LeanStr(addExpr))
	out.Def("listAddAppendsToReceiver", "Bool", xlib.LeanBool(addAppends))
	out.Def("listAddClips", "Bool", xlib.LeanBool(strings.HasPrefix(addExpr, "slices.Clip(")))

	// ---- pyList.Freeze: return pyFrozenList{pyList: X}; is X the receiver?
	fr := o.Func("pyList.Freeze")
	frecv := fr.Recv.List[0].Names[0].Name
	wraps := ""
	for _, s := range fr.Body.List {
		if r, ok := s.(*ast.ReturnStmt); ok && len(r.Results) == 1 {
			if cl, ok := r.Results[0].(*ast.CompositeLit); ok && len(cl.Elts) == 1 {
				e := cl.Elts[0]
				if kv, ok := e.(*ast.KeyValueExpr); ok {
					e = kv.Value
				}
				if id, ok := e.(*ast.Ident); ok {
					if id.Name == frecv {
						wraps = "receiver"
					} else {
						wraps = "local"
					}
				}
			}
		}
	}
	if wraps == "" {
		xlib.Unreadable("pyList.Freeze: unexpected return shape")
	}
	out.Def("freezeWraps", "String", xlib.LeanStr(wraps))

	// ---- sorted / reversed: `l = l[:]` (no copy) vs anything that copies
	copies := func(name string) string {
		fn := b.Func(name)
		reslice, copied := false, false
		ast.Inspect(fn.Body, func(n ast.Node) bool {
			switch t := n.(type) {
			case *ast.AssignStmt:
				if len(t.Lhs) == 1 && len(t.Rhs) == 1 {
					if se, ok := t.Rhs[0].(*ast.SliceExpr); ok && se.Low == nil && se.High == nil && b.Src(se.X) == b.Src(t.Lhs[0]) {
						reslice = true
					}
				}
			case *ast.CallExpr:
				f := b.Src(t.Fun)
				if f == "slices.Clone" || f == "copy" || f == "make" || f == "append" {
					copied = true
				}
			}
			return true
		})
		if copied {
			return "copy"
		}
		if reslice {
			return "reslice"
		}
		return "direct"
	}
	out.Def("sortedArg", "String", xlib.LeanStr(copies("sorted")))

	// ---- sorted: how reverse= is honoured and which sort function runs
	//   flip-comparator: `order := LessThan; if reverse { order = GreaterThan }` and the comparison uses `order`
	//   reverse-after:   a call of slices.Reverse / sort.Reverse on the result
	{
		fn := b.Func("sorted")
		flips, usesOrder, revAfter := false, false, false
		sortFns := map[string]bool{}
		orderVar := ""
		ast.Inspect(fn.Body, func(n ast.Node) bool {
			switch t := n.(type) {
			case *ast.IfStmt:
				if id, ok := t.Cond.(*ast.Ident); ok && id.Name == "reverse" {
					for _, st := range t.Body.List {
						if as, ok := st.(*ast.AssignStmt); ok && len(as.Lhs) == 1 && len(as.Rhs) == 1 && b.Src(as.Rhs[0]) == "GreaterThan" {
							flips = true
							orderVar = b.Src(as.Lhs[0])
						}
					}
				}
			case *ast.CallExpr:
				f := b.Src(t.Fun)
				switch {
				case f == "slices.Reverse" || f == "sort.Reverse":
					revAfter = true
				case strings.HasPrefix(f, "sort.") || strings.HasPrefix(f, "slices.Sort"):
					sortFns[f] = true
				}
			}
			return true
		})
		if orderVar != "" {
			ast.Inspect(fn.Body, func(n ast.Node) bool {
				if ce, ok := n.(*ast.CallExpr); ok && strings.HasSuffix(b.Src(ce.Fun), ".operator") && len(ce.Args) >= 1 && b.Src(ce.Args[0]) == orderVar {
					usesOrder = true
				}
				return true
			})
		}
		mode := ""
		switch {
		case flips && usesOrder && !revAfter:
			mode = "flip-comparator"
		case revAfter && !(flips && usesOrder):
			mode = "reverse-after"
		default:
			xlib.Unreadable("sorted: cannot tell how reverse= is honoured (flips=%v usesOrder=%v reverseAfter=%v)", flips, usesOrder, revAfter)
		}
		var fns []string
		for f := range sortFns {
			fns = append(fns, f)
		}
		sort.Strings(fns)
		if len(fns) == 0 {
			xlib.Unreadable("sorted: no sort function call found")
		}
		out.Def("sortedReverse", "String", xlib.LeanStr(mode))
		out.Def("sortedSortFns", "List String", xlib.LeanStrList(fns))
	}
	out.Def("reversedArg", "String", xlib.LeanStr(copies("reversed")))

	// ---- Constant(): a branch on expr.Val.List that returns an evaluated object
	cf := in.Func("scope.Constant")
	constLists := false
	ast.Inspect(cf.Body, func(n ast.Node) bool {
		is, ok := n.(*ast.IfStmt)
		if !ok {
			return true
		}
		if strings.Contains(in.Src(is.Cond), ".Val.List != nil") {
			ast.Inspect(is.Body, func(m ast.Node) bool {
				if r, ok := m.(*ast.ReturnStmt); ok && len(r.Results) == 1 && strings.Contains(in.Src(r.Results[0]), "interpretValueExpression") {
					constLists = true
				}
				return true
			})
		}
		return true
	})
	out.Def("constantFoldsLists", "Bool", xlib.LeanBool(constLists))

	// ---- interpretSlice: case pyList: ... return t[start:end]
	sl := in.Func("scope.interpretSlice")
	share := ""
	ast.Inspect(sl.Body, func(n ast.Node) bool {
		cc, ok := n.(*ast.CaseClause)
		if !ok || len(cc.List) != 1 || in.Src(cc.List[0]) != "pyList" {
			return true
		}
		if r, ok := cc.Body[len(cc.Body)-1].(*ast.ReturnStmt); ok && len(r.Results) == 1 {
			if _, ok := r.Results[0].(*ast.SliceExpr); ok {
				share = "reslice"
			} else {
				share = "other:" + in.Src(r.Results[0])
			}
		}
		return false
	})
	if share == "" {
		xlib.Unreadable("interpretSlice: no pyList case")
	}
	out.Def("listSlice", "String", xlib.LeanStr(share))

	// ---- interpretOps: the shape the model transcribes (Model/AspOps.lean)
	//   if ops[0].Op.Precedence() >= ops[1].Op.Precedence() { … interpretOps(interpretOp(obj, ops[0]), ops[1:]) }
	//   … interpretOp(interpretOps(obj, ops[1:]), ops[0])                       (unary)
	//   nobj := interpretOps(interpretExpression(ops[0].Expr), ops[1:]); return interpretOp(obj, OpExpression{…nobj})
	iops := in.Func("scope.interpretOps")
	if len(iops.Type.Params.List) < 2 || len(iops.Type.Params.List[0].Names) != 1 || len(iops.Type.Params.List[1].Names) != 1 {
		xlib.Unreadable("interpretOps: unexpected parameter list")
	}
	objName, opsName := iops.Type.Params.List[0].Names[0].Name, iops.Type.Params.List[1].Names[0].Name
	norm := func(e ast.Expr) string {
		// ops[i].Op.Precedence()  ->  ops[i]
		t := strings.ReplaceAll(in.Src(e), opsName+"[", "ops[")
		return strings.TrimSuffix(t, ".Op.Precedence()")
	}
	compare, restCalls, recheck := "", 0, false
	ast.Inspect(iops.Body, func(n ast.Node) bool {
		switch t := n.(type) {
		case *ast.IfStmt:
			if be, ok := t.Cond.(*ast.BinaryExpr); ok && strings.HasSuffix(in.Src(be.X), ".Op.Precedence()") && strings.HasSuffix(in.Src(be.Y), ".Op.Precedence()") {
				if compare != "" {
					xlib.Unreadable("interpretOps: more than one precedence comparison")
				}
				compare = norm(be.X) + " " + be.Op.String() + " " + norm(be.Y)
			}
		case *ast.CallExpr:
			if strings.HasSuffix(in.Src(t.Fun), ".interpretOps") && len(t.Args) == 2 && in.Src(t.Args[1]) == opsName+"[1:]" {
				restCalls++
			}
		}
		return true
	})
	if last, ok := iops.Body.List[len(iops.Body.List)-1].(*ast.ReturnStmt); ok && len(last.Results) == 1 {
		if ce, ok := last.Results[0].(*ast.CallExpr); ok && strings.HasSuffix(in.Src(ce.Fun), ".interpretOp") && len(ce.Args) == 2 {
			_, isLit := ce.Args[1].(*ast.CompositeLit)
			recheck = in.Src(ce.Args[0]) == objName && isLit
		}
	}
	if compare == "" {
		xlib.Unreadable("interpretOps: no precedence comparison found")
	}
	out.Def("opsCompare", "String", xlib.LeanStr(compare))
	out.Def("opsRestCalls", "Nat", strconv.Itoa(restCalls))
	out.Def("opsRecheck", "Bool", xlib.LeanBool(recheck))
	_ = fmt.Sprint
	out.Write()
}
