// Facts for C18 from src/parse/asp: which native builtins insist on the unfrozen Go types.
//
//	builtins.go   registerBuiltins: BUILD-language name -> Go function (setNativeCode, and the method tables);
//	              for every such Go function: the type assertions it makes on its arguments
//	              (args[i].(pyList), .(pyDict), .(pyString), ...) and whether it mentions pyFrozenList / pyFrozenDict
//	              itself or calls a helper that unwraps them (asStringList, pyStrOrListAsList)
//	interpreter.go  interpretOp: how Equal / NotEqual compare (reflect.DeepEqual or something else)
package main

import (
	"go/ast"
	"sort"
	"strconv"
	"strings"

	"verif/harness/xlib"
)

func main() {
	b := xlib.Parse("src/parse/asp/builtins.go")
	in := xlib.Parse("src/parse/asp/interpreter.go")
	out := xlib.NewOut("C18", b.Path, in.Path, "src/parse/asp/objects.go", "src/parse/asp/targets.go")

	// name -> Go function, from setNativeCode(s, "name", fn, ...) anywhere in registerBuiltins
	reg := b.Func("registerBuiltins")
	native := map[string]string{}
	ast.Inspect(reg.Body, func(n ast.Node) bool {
		ce, ok := n.(*ast.CallExpr)
		if !ok {
			return true
		}
		if id, ok := ce.Fun.(*ast.Ident); ok && id.Name == "setNativeCode" && len(ce.Args) >= 3 {
			if lit, ok := ce.Args[1].(*ast.BasicLit); ok {
				name, _ := strconv.Unquote(lit.Value)
				if fn, ok := ce.Args[2].(*ast.Ident); ok {
					native[name] = fn.Name
				}
			}
		}
		return true
	})
	if len(native) < 20 {
		xlib.Unreadable("registerBuiltins: only %d setNativeCode calls found", len(native))
	}

	funcs := map[string]*ast.FuncDecl{}
	for _, d := range b.AST.Decls {
		if fd, ok := d.(*ast.FuncDecl); ok && fd.Recv == nil {
			funcs[fd.Name.Name] = fd
		}
	}
	// helpers of the same package that live in targets.go (asList, asDict, mustList, …)
	tg := xlib.Parse("src/parse/asp/targets.go")
	for _, d := range tg.AST.Decls {
		if fd, ok := d.(*ast.FuncDecl); ok && fd.Recv == nil && funcs[fd.Name.Name] == nil {
			funcs[fd.Name.Name] = fd
		}
	}
	// type expressions are compared by name (the nodes may come from either file)
	tyName := func(e ast.Expr) string {
		if id, ok := e.(*ast.Ident); ok {
			return id.Name
		}
		if se, ok := e.(*ast.StarExpr); ok {
			if id, ok := se.X.(*ast.Ident); ok {
				return "*" + id.Name
			}
		}
		return b.Src(e)
	}
	// a helper "unwraps" when its own body (or a helper it calls, two levels deep) asserts or switches on
	// pyFrozenList / pyFrozenDict - asStringList today, and pyStrOrListAsList through it
	var mentionsFrozen func(name string, depth int) bool
	mentionsFrozen = func(name string, depth int) bool {
		fd := funcs[name]
		if fd == nil || depth > 2 {
			return false
		}
		found := false
		ast.Inspect(fd.Body, func(n ast.Node) bool {
			switch t := n.(type) {
			case *ast.TypeAssertExpr:
				if t.Type != nil {
					if ty := tyName(t.Type); ty == "pyFrozenList" || ty == "pyFrozenDict" {
						found = true
					}
				}
			case *ast.CaseClause:
				for _, e := range t.List {
					if s := tyName(e); s == "pyFrozenList" || s == "pyFrozenDict" {
						found = true
					}
				}
			case *ast.CallExpr:
				if id, ok := t.Fun.(*ast.Ident); ok && id.Name != name && funcs[id.Name] != nil && mentionsFrozen(id.Name, depth+1) {
					found = true
				}
			}
			return true
		})
		return found
	}
	// assertions of one Go function, following calls to other functions of the file that receive `args` whole
	// (minFunc/maxFunc -> extreme)
	var assertsOf func(name string, depth int) (types []string, unwraps bool)
	assertsOf = func(name string, depth int) ([]string, bool) {
		fd := funcs[name]
		if fd == nil || depth > 3 {
			return nil, false
		}
		seen := map[string]bool{}
		unwraps := false
		ast.Inspect(fd.Body, func(n ast.Node) bool {
			switch t := n.(type) {
			case *ast.TypeAssertExpr:
				if t.Type != nil {
					ty := tyName(t.Type)
					if ty == "pyFrozenList" || ty == "pyFrozenDict" {
						unwraps = true
					} else {
						seen[ty] = true
					}
				}
			case *ast.CaseClause:
				for _, e := range t.List {
					if s := tyName(e); s == "pyFrozenList" || s == "pyFrozenDict" {
						unwraps = true
					}
				}
			case *ast.CallExpr:
				if id, ok := t.Fun.(*ast.Ident); ok {
					if id.Name != name && mentionsFrozen(id.Name, 0) {
						unwraps = true
					} else if funcs[id.Name] != nil && id.Name != name {
						for _, a := range t.Args {
							if ai, ok := a.(*ast.Ident); ok && ai.Name == "args" {
								ts, u := assertsOf(id.Name, depth+1)
								for _, x := range ts {
									seen[x] = true
								}
								unwraps = unwraps || u
							}
						}
					}
				}
			}
			return true
		})
		var ts []string
		for k := range seen {
			ts = append(ts, k)
		}
		sort.Strings(ts)
		return ts, unwraps
	}

	names := make([]string, 0, len(native))
	for k := range native {
		names = append(names, k)
	}
	sort.Strings(names)
	var rows []string
	for _, n := range names {
		ts, u := assertsOf(native[n], 0)
		rows = append(rows, "("+xlib.LeanStr(n)+", "+xlib.LeanStr(native[n])+", "+xlib.LeanStrList(ts)+", "+xlib.LeanBool(u)+")")
	}
	// name, Go function, asserted types, does it unwrap the frozen variants itself?
	out.Def("natives", "List (String × String × List String × Bool)", "["+strings.Join(rows, ",\n  ")+"]")

	// interpretOp: case Equal: return newPyBool(reflect.DeepEqual(obj, ...))
	iop := in.Func("scope.interpretOp")
	eq := ""
	ast.Inspect(iop.Body, func(n ast.Node) bool {
		cc, ok := n.(*ast.CaseClause)
		if !ok || len(cc.List) != 1 || in.Src(cc.List[0]) != "Equal" {
			return true
		}
		src := in.Src(cc.Body[len(cc.Body)-1])
		switch {
		case strings.Contains(src, "reflect.DeepEqual("):
			eq = "reflect.DeepEqual"
		default:
			eq = "other:" + src
		}
		return false
	})
	if eq == "" {
		xlib.Unreadable("interpretOp: no case Equal")
	}
	out.Def("equalVia", "String", xlib.LeanStr(eq))

	// ---- objects.go: pyList.Operator, case Add: is there a branch for a pyFrozenList operand?
	o := xlib.Parse("src/parse/asp/objects.go")
	listOp := o.Func("pyList.Operator")
	addFrozen, sawAdd := false, false
	ast.Inspect(listOp.Body, func(n ast.Node) bool {
		cc, ok := n.(*ast.CaseClause)
		if !ok || len(cc.List) != 1 || o.Src(cc.List[0]) != "Add" {
			return true
		}
		sawAdd = true
		for _, st := range cc.Body {
			ast.Inspect(st, func(m ast.Node) bool {
				if ta, ok := m.(*ast.TypeAssertExpr); ok && ta.Type != nil && o.Src(ta.Type) == "pyFrozenList" {
					addFrozen = true
				}
				if tc, ok := m.(*ast.CaseClause); ok {
					for _, t := range tc.List {
						if o.Src(t) == "pyFrozenList" {
							addFrozen = true
						}
					}
				}
				return true
			})
		}
		return false
	})
	if !sawAdd {
		xlib.Unreadable("pyList.Operator: no case Add")
	}
	out.Def("listAddAcceptsFrozen", "Bool", xlib.LeanBool(addFrozen))

	// ---- the same case: what each branch returns, and where slices.Clip sits.  The branch for a pyFrozenList
	// operand is the `if … operand.(pyFrozenList); ok { return … }`; the other return of the case is the plain one.
	frozenRet, plainRet := "", ""
	ast.Inspect(listOp.Body, func(n ast.Node) bool {
		cc, ok := n.(*ast.CaseClause)
		if !ok || len(cc.List) != 1 || o.Src(cc.List[0]) != "Add" {
			return true
		}
		var walk func(n ast.Node, inFrozen bool)
		walk = func(n ast.Node, inFrozen bool) {
			ast.Inspect(n, func(m ast.Node) bool {
				switch t := m.(type) {
				case *ast.IfStmt:
					fz := false
					if t.Init != nil {
						ast.Inspect(t.Init, func(k ast.Node) bool {
							if ta, ok := k.(*ast.TypeAssertExpr); ok && ta.Type != nil && o.Src(ta.Type) == "pyFrozenList" {
								fz = true
							}
							return true
						})
					}
					if fz {
						walk(t.Body, true)
						if t.Else != nil {
							walk(t.Else, inFrozen)
						}
						return false
					}
				case *ast.ReturnStmt:
					if len(t.Results) == 1 {
						if inFrozen {
							frozenRet = o.Src(t.Results[0])
						} else {
							plainRet = o.Src(t.Results[0])
						}
					}
				}
				return true
			})
		}
		for _, st := range cc.Body {
			walk(st, false)
		}
		return false
	})
	if addFrozen && frozenRet == "" {
		xlib.Unreadable("pyList.Operator Add: cannot find the return of the pyFrozenList branch")
	}
	if addFrozen && !strings.HasPrefix(frozenRet, "slices.Clip(append(") && !strings.HasPrefix(frozenRet, "append(slices.Clip(") {
		// neither of the two shapes the model knows (clip the result / clip the first argument)
		xlib.Unreadable("pyList.Operator Add, pyFrozenList branch returns %s", frozenRet)
	}
	out.Def("listAddFrozenExpr", "String", xlib.LeanStr(frozenRet))
	out.Def("listAddPlainExpr", "String", xlib.LeanStr(plainRet))
	out.Def("listAddFrozenClipsResult", "Bool", xlib.LeanBool(strings.HasPrefix(frozenRet, "slices.Clip(append(")))

	// ---- type pyFrozenList struct { pyList }: embedding, and the methods the wrapper defines itself
	embeds, sawType := false, false
	for _, d := range o.AST.Decls {
		gd, ok := d.(*ast.GenDecl)
		if !ok {
			continue
		}
		for _, sp := range gd.Specs {
			ts, ok := sp.(*ast.TypeSpec)
			if !ok || ts.Name.Name != "pyFrozenList" {
				continue
			}
			sawType = true
			if st, ok := ts.Type.(*ast.StructType); ok {
				for _, f := range st.Fields.List {
					if len(f.Names) == 0 && o.Src(f.Type) == "pyList" {
						embeds = true
					}
				}
			}
		}
	}
	if !sawType {
		xlib.Unreadable("type pyFrozenList not found in objects.go")
	}
	out.Def("frozenListEmbedsList", "Bool", xlib.LeanBool(embeds))
	var own []string
	for _, d := range o.AST.Decls {
		if fd, ok := d.(*ast.FuncDecl); ok && fd.Recv != nil && len(fd.Recv.List) == 1 {
			t := fd.Recv.List[0].Type
			if se, ok := t.(*ast.StarExpr); ok {
				t = se.X
			}
			if o.Src(t) == "pyFrozenList" {
				own = append(own, fd.Name.Name)
			}
		}
	}
	sort.Strings(own)
	out.Def("frozenListMethods", "List String", xlib.LeanStrList(own))
	out.Write()
}
