// Facts for C10 (build actions see a hermetic, fully hashed environment):
//
//	envReads           every read of the process environment (os.Getenv / LookupEnv / Environ / ExpandEnv, syscall.Getenv)
//	                   in the functions that compute or consume the action environment:
//	                   src/core/build_env.go (all), config.go (getBuildEnv, GetBuildEnv, Hash), src/fs/home.go (all),
//	                   src/process/*.go (all), src/build/build_step.go (all), src/build/incrementality.go (all)
//	envKeys            every key written into a BuildEnv in GeneralBuildEnvironment / TargetEnvironment /
//	                   BuildEnvironment / toolsEnv / withUserProvidedEnv (literal keys and key expressions)
//	cmdEnvAssignments  every assignment to an exec.Cmd's Env in src/process (must all be append(cmd.Env, …))
//	actionEnv          how build_step.go obtains the env it hands to ExecWithTimeoutShell
package main

import (
	"fmt"
	"go/ast"
	"os"
	"path/filepath"
	"sort"
	"strings"

	"verif/harness/xlib"
)

type read struct{ file, fn, callee, arg string }

func funcName(fd *ast.FuncDecl) string {
	if fd.Recv != nil && len(fd.Recv.List) > 0 {
		t := fd.Recv.List[0].Type
		if s, ok := t.(*ast.StarExpr); ok {
			t = s.X
		}
		if id, ok := t.(*ast.Ident); ok {
			return id.Name + "." + fd.Name.Name
		}
	}
	return fd.Name.Name
}

var envFuncs = map[string]bool{"os.Getenv": true, "os.LookupEnv": true, "os.Environ": true, "os.ExpandEnv": true,
	"syscall.Getenv": true, "os.Clearenv": true, "syscall.Environ": true}

func scanReads(f *xlib.File, only map[string]bool) []read {
	var out []read
	for _, d := range f.AST.Decls {
		fd, ok := d.(*ast.FuncDecl)
		if !ok || fd.Body == nil {
			continue
		}
		name := funcName(fd)
		if only != nil && !only[name] {
			continue
		}
		ast.Inspect(fd.Body, func(n ast.Node) bool {
			c, ok := n.(*ast.CallExpr)
			if !ok {
				return true
			}
			sel, ok := c.Fun.(*ast.SelectorExpr)
			if !ok {
				return true
			}
			pkg, ok := sel.X.(*ast.Ident)
			if !ok {
				return true
			}
			callee := pkg.Name + "." + sel.Sel.Name
			if !envFuncs[callee] {
				return true
			}
			arg := ""
			if len(c.Args) > 0 {
				switch a := c.Args[0].(type) {
				case *ast.BasicLit:
					arg = a.Value
				default:
					arg = "<var>"
				}
			}
			out = append(out, read{f.Path, name, callee, arg})
			return true
		})
	}
	return out
}

// buildEnvFuncs: names of the functions in f whose (single) result type is BuildEnv.
func buildEnvFuncs(f *xlib.File) map[string]bool {
	out := map[string]bool{}
	for _, d := range f.AST.Decls {
		fd, ok := d.(*ast.FuncDecl)
		if !ok || fd.Type.Results == nil || len(fd.Type.Results.List) != 1 {
			continue
		}
		if id, ok := fd.Type.Results.List[0].Type.(*ast.Ident); ok && id.Name == "BuildEnv" {
			out[fd.Name.Name] = true
		}
	}
	return out
}

// keysOf lists every key written into a BuildEnv-typed variable (whatever it is called) in the given functions.
func keysOf(f *xlib.File, fns []string) [][2]string {
	var out [][2]string
	returnsEnv := buildEnvFuncs(f)
	for _, name := range fns {
		fd := f.Func(name)
		envVars := map[string]bool{}
		for _, fl := range fd.Type.Params.List {
			if id, ok := fl.Type.(*ast.Ident); ok && id.Name == "BuildEnv" {
				for _, n := range fl.Names {
					envVars[n.Name] = true
				}
			}
		}
		ast.Inspect(fd.Body, func(n ast.Node) bool {
			as, ok := n.(*ast.AssignStmt)
			if !ok || len(as.Lhs) != 1 || len(as.Rhs) != 1 {
				return true
			}
			id, ok := as.Lhs[0].(*ast.Ident)
			if !ok {
				return true
			}
			switch r := as.Rhs[0].(type) {
			case *ast.CompositeLit:
				if t, ok := r.Type.(*ast.Ident); ok && t.Name == "BuildEnv" {
					envVars[id.Name] = true
				}
			case *ast.CallExpr:
				if fn, ok := r.Fun.(*ast.Ident); ok && returnsEnv[fn.Name] {
					envVars[id.Name] = true
				}
			}
			return true
		})
		ast.Inspect(fd.Body, func(n ast.Node) bool {
			switch x := n.(type) {
			case *ast.AssignStmt:
				for _, l := range x.Lhs {
					if ix, ok := l.(*ast.IndexExpr); ok {
						if id, ok := ix.X.(*ast.Ident); ok && envVars[id.Name] {
							out = append(out, [2]string{name, f.Src(ix.Index)})
						}
					}
				}
			case *ast.CompositeLit:
				if id, ok := x.Type.(*ast.Ident); ok && id.Name == "BuildEnv" {
					for _, e := range x.Elts {
						if kv, ok := e.(*ast.KeyValueExpr); ok {
							out = append(out, [2]string{name, f.Src(kv.Key)})
						}
					}
				}
			}
			return true
		})
	}
	return out
}

func main() {
	var reads []read
	be := xlib.Parse("src/core/build_env.go")
	reads = append(reads, scanReads(be, nil)...)
	cfg := xlib.Parse("src/core/config.go")
	reads = append(reads, scanReads(cfg, map[string]bool{"Configuration.getBuildEnv": true, "Configuration.GetBuildEnv": true, "Configuration.Hash": true})...)
	reads = append(reads, scanReads(xlib.Parse("src/fs/home.go"), nil)...)
	procFiles, _ := filepath.Glob(filepath.Join(xlib.Repo(), "src/process/*.go"))
	sort.Strings(procFiles)
	var cmdEnv []string
	for _, p := range procFiles {
		if strings.HasSuffix(p, "_test.go") {
			continue
		}
		rel, _ := filepath.Rel(xlib.Repo(), p)
		pf := xlib.Parse(rel)
		reads = append(reads, scanReads(pf, nil)...)
		ast.Inspect(pf.AST, func(n ast.Node) bool {
			as, ok := n.(*ast.AssignStmt)
			if !ok {
				return true
			}
			for _, l := range as.Lhs {
				if sel, ok := l.(*ast.SelectorExpr); ok && sel.Sel.Name == "Env" {
					recv := pf.Src(sel.X)
					src := strings.ReplaceAll(pf.Src(as), recv+".", "cmd.")
					cmdEnv = append(cmdEnv, filepath.Base(rel)+": "+src)
				}
			}
			return true
		})
	}
	bs := xlib.Parse("src/build/build_step.go")
	reads = append(reads, scanReads(bs, nil)...)
	reads = append(reads, scanReads(xlib.Parse("src/build/incrementality.go"), nil)...)

	keys := keysOf(be, []string{"GeneralBuildEnvironment", "TargetEnvironment", "BuildEnvironment", "toolsEnv", "withUserProvidedEnv"})

	// build_step.go: env := core.StampedBuildEnvironment(...).ToSlice() ... ExecWithTimeoutShell(target, dir, env, ...)
	actionEnv := "unrecognised"
	for _, d := range bs.AST.Decls {
		fd, ok := d.(*ast.FuncDecl)
		if !ok || fd.Body == nil {
			continue
		}
		envFrom, passed := "", false
		ast.Inspect(fd.Body, func(n ast.Node) bool {
			switch x := n.(type) {
			case *ast.AssignStmt:
				if len(x.Lhs) == 1 && len(x.Rhs) == 1 {
					if id, ok := x.Lhs[0].(*ast.Ident); ok && id.Name == "env" {
						src := bs.Src(x.Rhs[0])
						if strings.HasPrefix(src, "core.StampedBuildEnvironment(") && strings.HasSuffix(src, ").ToSlice()") {
							envFrom = "StampedBuildEnvironment.ToSlice"
						}
					}
				}
			case *ast.CallExpr:
				if sel, ok := x.Fun.(*ast.SelectorExpr); ok && sel.Sel.Name == "ExecWithTimeoutShell" && len(x.Args) >= 3 {
					if id, ok := x.Args[2].(*ast.Ident); ok && id.Name == "env" {
						passed = true
					}
				}
			}
			return true
		})
		if envFrom != "" && passed {
			actionEnv = envFrom
		}
	}

	var b strings.Builder
	b.WriteString("def envReads : List (String × String × String × String) := [\n")
	for i, r := range reads {
		fmt.Fprintf(&b, "  (%s, %s, %s, %s)", xlib.LeanStr(r.file), xlib.LeanStr(r.fn), xlib.LeanStr(r.callee), xlib.LeanStr(r.arg))
		if i+1 < len(reads) {
			b.WriteString(",")
		}
		b.WriteString("\n")
	}
	b.WriteString("]\ndef envKeys : List (String × String) := [\n")
	for i, k := range keys {
		fmt.Fprintf(&b, "  (%s, %s)", xlib.LeanStr(k[0]), xlib.LeanStr(k[1]))
		if i+1 < len(keys) {
			b.WriteString(",")
		}
		b.WriteString("\n")
	}
	b.WriteString("]\ndef cmdEnvAssignments : List String := " + xlib.LeanStrList(cmdEnv) + "\n")
	b.WriteString("def actionEnv : String := " + xlib.LeanStr(actionEnv) + "\n")
	write("C10", "src/core/build_env.go, src/core/config.go, src/fs/home.go, src/process/*.go, src/build/build_step.go", b.String())
}

func write(name, sources, body string) {
	s := "-- REGENERATED from " + sources + " by /verif/harness/extract/" + strings.ToLower(name) +
		" on every run. Do not edit.\nnamespace PlzVerif.Generated." + name + "\n" + body +
		"end PlzVerif.Generated." + name + "\n"
	dir := os.Getenv("VERIF_GENERATED")
	if dir == "" {
		dir = "/verif/lean/PlzVerif/Generated"
	}
	os.MkdirAll(dir, 0o755)
	p := filepath.Join(dir, name+".lean")
	if old, err := os.ReadFile(p); err == nil && string(old) == s {
		return
	}
	if err := os.WriteFile(p, []byte(s), 0o644); err != nil {
		panic(err)
	}
}
