// Facts for C10 (build actions see a hermetic, fully hashed environment):
//
//	envReads           every read of the process environment (os.Getenv / LookupEnv / Environ / ExpandEnv, syscall.Getenv)
//	                   in every non-test, non-hook file of src/core, src/build, src/fs and src/process; Props/C10 compares
//	                   the list with an explicit allowlist that says for each read why it is (or is not) on the path to an action
//	envKeys            every key written into a BuildEnv in GeneralBuildEnvironment / TargetEnvironment /
//	                   BuildEnvironment / toolsEnv / withUserProvidedEnv (literal keys and key expressions)
//	cmdEnvAssignments  every assignment to an exec.Cmd's Env in src/process (must all be append(cmd.Env, …))
//	actionEnv          how build_step.go obtains the env it hands to ExecWithTimeoutShell
package main

import (
	"fmt"
	"go/ast"
	"os"
	"path/filepath"
	"sort"
	"strings"

	"verif/harness/xlib"
)

type read struct{ file, fn, callee, arg string }

func funcName(fd *ast.FuncDecl) string {
	if fd.Recv != nil && len(fd.Recv.List) > 0 {
		t := fd.Recv.List[0].Type
		if s, ok := t.(*ast.StarExpr); ok {
			t = s.X
		}
		if id, ok := t.(*ast.Ident); ok {
			return id.Name + "." + fd.Name.Name
		}
	}
	return fd.Name.Name
}

var envFuncs = map[string]bool{"os.Getenv": true, "os.LookupEnv": true, "os.Environ": true, "os.ExpandEnv": true,
	"syscall.Getenv": true, "os.Clearenv": true, "syscall.Environ": true}

func scanReads(f *xlib.File, only map[string]bool) []read {
	var out []read
	for _, d := range f.AST.Decls {
		fd, ok := d.(*ast.FuncDecl)
		if !ok || fd.Body == nil {
			continue
		}
		name := funcName(fd)
		if only != nil && !only[name] {
			continue
		}
		ast.Inspect(fd.Body, func(n ast.Node) bool {
			c, ok := n.(*ast.CallExpr)
			if !ok {
				return true
			}
			sel, ok := c.Fun.(*ast.SelectorExpr)
			if !ok {
				return true
			}
			pkg, ok := sel.X.(*ast.Ident)
			if !ok {
				return true
			}
			callee := pkg.Name + "." + sel.Sel.Name
			if !envFuncs[callee] {
				return true
			}
			arg := ""
			if len(c.Args) > 0 {
				switch a := c.Args[0].(type) {
				case *ast.BasicLit:
					arg = a.Value
				default:
					arg = "<var>"
				}
			}
			out = append(out, read{f.Path, name, callee, arg})
			return true
		})
	}
	return out
}

// buildEnvFuncs: names of the functions in f whose (single) result type is BuildEnv.
func buildEnvFuncs(f *xlib.File) map[string]bool {
	out := map[string]bool{}
	for _, d := range f.AST.Decls {
		fd, ok := d.(*ast.FuncDecl)
		if !ok || fd.Type.Results == nil || len(fd.Type.Results.List) != 1 {
			continue
		}
		if id, ok := fd.Type.Results.List[0].Type.(*ast.Ident); ok && id.Name == "BuildEnv" {
			out[fd.Name.Name] = true
		}
	}
	return out
}

// keysOf lists every key written into a BuildEnv-typed variable (whatever it is called) in the given functions.
func keysOf(f *xlib.File, fns []string) [][2]string {
	var out [][2]string
	returnsEnv := buildEnvFuncs(f)
	for _, name := range fns {
		fd := f.Func(name)
		envVars := map[string]bool{}
		for _, fl := range fd.Type.Params.List {
			if id, ok := fl.Type.(*ast.Ident); ok && id.Name == "BuildEnv" {
				for _, n := range fl.Names {
					envVars[n.Name] = true
				}
			}
		}
		ast.Inspect(fd.Body, func(n ast.Node) bool {
			as, ok := n.(*ast.AssignStmt)
			if !ok || len(as.Lhs) != 1 || len(as.Rhs) != 1 {
				return true
			}
			id, ok := as.Lhs[0].(*ast.Ident)
			if !ok {
				return true
			}
			switch r := as.Rhs[0].(type) {
			case *ast.CompositeLit:
				if t, ok := r.Type.(*ast.Ident); ok && t.Name == "BuildEnv" {
					envVars[id.Name] = true
				}
			case *ast.CallExpr:
				if fn, ok := r.Fun.(*ast.Ident); ok && returnsEnv[fn.Name] {
					envVars[id.Name] = true
				}
			}
			return true
		})
		ast.Inspect(fd.Body, func(n ast.Node) bool {
			switch x := n.(type) {
			case *ast.AssignStmt:
				for _, l := range x.Lhs {
					if ix, ok := l.(*ast.IndexExpr); ok {
						if id, ok := ix.X.(*ast.Ident); ok && envVars[id.Name] {
							out = append(out, [2]string{name, f.Src(ix.Index)})
						}
					}
				}
			case *ast.CompositeLit:
				if id, ok := x.Type.(*ast.Ident); ok && id.Name == "BuildEnv" {
					for _, e := range x.Elts {
						if kv, ok := e.(*ast.KeyValueExpr); ok {
							out = append(out, [2]string{name, f.Src(kv.Key)})
						}
					}
				}
			}
			return true
		})
	}
	return out
}

func main() {
	// every non-test, non-hook Go file of the four packages the action environment is computed in
	var reads []read
	var cmdEnv []string
	be := xlib.Parse("src/core/build_env.go")
	bs := xlib.Parse("src/build/build_step.go")
	for _, dir := range []string{"src/core", "src/build", "src/fs", "src/process"} {
		files, _ := filepath.Glob(filepath.Join(xlib.Repo(), dir, "*.go"))
		sort.Strings(files)
		for _, p := range files {
			if strings.HasSuffix(p, "_test.go") || strings.HasSuffix(p, "_verif.go") || strings.HasSuffix(p, "_noverif.go") {
				continue
			}
			rel, _ := filepath.Rel(xlib.Repo(), p)
			pf := xlib.Parse(rel)
			reads = append(reads, scanReads(pf, nil)...)
			if dir != "src/process" {
				continue
			}
			ast.Inspect(pf.AST, func(n ast.Node) bool {
				as, ok := n.(*ast.AssignStmt)
				if !ok {
					return true
				}
				for _, l := range as.Lhs {
					if sel, ok := l.(*ast.SelectorExpr); ok && sel.Sel.Name == "Env" {
						recv := pf.Src(sel.X)
						src := strings.ReplaceAll(pf.Src(as), recv+".", "cmd.")
						cmdEnv = append(cmdEnv, filepath.Base(rel)+": "+src)
					}
				}
				return true
			})
		}
	}

	keys := keysOf(be, []string{"GeneralBuildEnvironment", "TargetEnvironment", "BuildEnvironment", "toolsEnv", "withUserProvidedEnv"})

	// build_step.go: env := core.StampedBuildEnvironment(...).ToSlice() ... ExecWithTimeoutShell(target, dir, env, ...)
	actionEnv := "unrecognised"
	for _, d := range bs.AST.Decls {
		fd, ok := d.(*ast.FuncDecl)
		if !ok || fd.Body == nil {
			continue
		}
		envFrom, passed := "", false
		ast.Inspect(fd.Body, func(n ast.Node) bool {
			switch x := n.(type) {
			case *ast.AssignStmt:
				if len(x.Lhs) == 1 && len(x.Rhs) == 1 {
					if id, ok := x.Lhs[0].(*ast.Ident); ok && id.Name == "env" {
						src := bs.Src(x.Rhs[0])
						if strings.HasPrefix(src, "core.StampedBuildEnvironment(") && strings.HasSuffix(src, ").ToSlice()") {
							envFrom = "StampedBuildEnvironment.ToSlice"
						}
					}
				}
			case *ast.CallExpr:
				if sel, ok := x.Fun.(*ast.SelectorExpr); ok && sel.Sel.Name == "ExecWithTimeoutShell" && len(x.Args) >= 3 {
					if id, ok := x.Args[2].(*ast.Ident); ok && id.Name == "env" {
						passed = true
					}
				}
			}
			return true
		})
		if envFrom != "" && passed {
			actionEnv = envFrom
		}
	}

	// withUserProvidedEnv: are the entries of target.Env applied in sorted key order, or in map iteration order?
	userEnvSorted := false
	{
		fd := be.Func("withUserProvidedEnv")
		tgt := fd.Type.Params.List[0].Names[0].Name
		var direct, collected, sorted, overKeys bool
		keysVar := ""
		for _, st := range fd.Body.List {
			switch x := st.(type) {
			case *ast.RangeStmt:
				src := strings.ReplaceAll(be.Src(x.X), tgt+".", "target.")
				if src == "target.Env" {
					if x.Value != nil {
						direct = true // for k, v := range target.Env { … env[k] = v }
					} else if len(x.Body.List) == 1 {
						if as, ok := x.Body.List[0].(*ast.AssignStmt); ok && len(as.Lhs) == 1 {
							if id, ok := as.Lhs[0].(*ast.Ident); ok && strings.HasPrefix(be.Src(as.Rhs[0]), "append("+id.Name+", ") {
								keysVar, collected = id.Name, true
							}
						}
					}
				} else if keysVar != "" && src == keysVar {
					overKeys = true
				}
			case *ast.ExprStmt:
				if keysVar != "" && (be.Src(x) == "sort.Strings("+keysVar+")" || be.Src(x) == "slices.Sort("+keysVar+")") && !overKeys {
					sorted = true
				}
			}
		}
		switch {
		case direct && !collected:
			userEnvSorted = false
		case collected && sorted && overKeys && !direct:
			userEnvSorted = true
		default:
			xlib.Unreadable("withUserProvidedEnv: unrecognised iteration over target.Env")
		}
	}

	var b strings.Builder
	fmt.Fprintf(&b, "def userEnvSorted : Bool := %s\n", xlib.LeanBool(userEnvSorted))
	b.WriteString("def envReads : List (String × String × String × String) := [\n")
	for i, r := range reads {
		fmt.Fprintf(&b, "  (%s, %s, %s, %s)", xlib.LeanStr(r.file), xlib.LeanStr(r.fn), xlib.LeanStr(r.callee), xlib.LeanStr(r.arg))
		if i+1 < len(reads) {
			b.WriteString(",")
		}
		b.WriteString("\n")
	}
	b.WriteString("]\ndef envKeys : List (String × String) := [\n")
	for i, k := range keys {
		fmt.Fprintf(&b, "  (%s, %s)", xlib.LeanStr(k[0]), xlib.LeanStr(k[1]))
		if i+1 < len(keys) {
			b.WriteString(",")
		}
		b.WriteString("\n")
	}
	b.WriteString("]\ndef cmdEnvAssignments : List String := " + xlib.LeanStrList(cmdEnv) + "\n")
	b.WriteString("def actionEnv : String := " + xlib.LeanStr(actionEnv) + "\n")
	write("C10", "src/core/build_env.go, src/core/config.go, src/fs/home.go, src/process/*.go, src/build/build_step.go", b.String())
}

func write(name, sources, body string) {
	s := "-- REGENERATED from " + sources + " by /verif/harness/extract/" + strings.ToLower(name) +
		" on every run. Do not edit.\nnamespace PlzVerif.Generated." + name + "\n" + body +
		"end PlzVerif.Generated." + name + "\n"
	dir := os.Getenv("VERIF_GENERATED")
	if dir == "" {
		dir = "/verif/lean/PlzVerif/Generated"
	}
	os.MkdirAll(dir, 0o755)
	p := filepath.Join(dir, name+".lean")
	if old, err := os.ReadFile(p); err == nil && string(old) == s {
		return
	}
	if err := os.WriteFile(p, []byte(s), 0o644); err != nil {
		panic(err)
	}
}
