// Facts for C22 from src/plz/plz.go (FindAllBuildFiles' walk callback), src/fs/walk.go (how godirwalk is
// driven), src/core/build_target.go (OutDir), go.mod + the vendored godirwalk source (what SkipDir means for a
// non-directory entry).
//
// The callback's if / else-if chain and the blacklist condition are emitted as boolean formulas in reverse
// polish notation over the atom codes of lean/PlzVerif/Model/Walk.lean; identifiers are resolved by *role*
// (callback parameter 0/1, `x := filepath.Base(param0)`, the outer function's third parameter, the range
// variable), never by name.  Anything that does not have the recognised shape exits 3 (facts unreadable).
package main

import (
	"go/ast"
	"go/token"
	"os"
	"os/exec"
	"path/filepath"
	"regexp"
	"strconv"
	"strings"

	"verif/harness/xlib"
)

const (
	aBaseEqOut  = 0
	aIsDir      = 1
	aBaseHidden = 2
	aNameEqDot  = 3
	aNameHasPfx = 4
	aPfxHasName = 5
	aIsBuild    = 6
	aInExp      = 7
	aBlEqBase   = 8
	aBlStrPfx   = 9
	aBlEqName   = 10
	aBlSlashPfx = 11
	opNot       = 100
	opAnd       = 101
	opOr        = 102
	opTrue      = 103
	opFalse     = 104
)

type roles struct {
	name, isDir, prefix, dir string
	base                     map[string]bool
}

func sel(e ast.Expr) string { // "pkg.Name" or "a.b.Name" rendered without spaces; "" if not a selector chain
	switch x := e.(type) {
	case *ast.Ident:
		return x.Name
	case *ast.SelectorExpr:
		if s := sel(x.X); s != "" {
			return s + "." + x.Sel.Name
		}
	}
	return ""
}

func (r *roles) role(e ast.Expr) string {
	for {
		p, ok := e.(*ast.ParenExpr)
		if !ok {
			break
		}
		e = p.X
	}
	switch x := e.(type) {
	case *ast.Ident:
		switch {
		case x.Name == r.name:
			return "name"
		case x.Name == r.isDir:
			return "isDir"
		case x.Name == r.prefix:
			return "prefix"
		case r.dir != "" && x.Name == r.dir:
			return "dir"
		case r.base[x.Name]:
			return "base"
		}
	case *ast.SelectorExpr:
		if strings.HasSuffix(sel(x), ".OutDir") {
			return "OutDir"
		}
	case *ast.BasicLit:
		if x.Kind == token.STRING {
			s, _ := strconv.Unquote(x.Value)
			return "lit:" + s
		}
	case *ast.CallExpr:
		if sel(x.Fun) == "filepath.Base" && len(x.Args) == 1 && r.role(x.Args[0]) == "name" {
			return "base"
		}
	case *ast.BinaryExpr:
		if x.Op == token.ADD && r.role(x.X) == "dir" && r.role(x.Y) == "lit:/" {
			return "dir+/"
		}
	}
	return "?"
}

func (r *roles) rpn(f *xlib.File, e ast.Expr) []int {
	switch x := e.(type) {
	case *ast.ParenExpr:
		return r.rpn(f, x.X)
	case *ast.UnaryExpr:
		if x.Op == token.NOT {
			return append(r.rpn(f, x.X), opNot)
		}
	case *ast.Ident:
		switch {
		case x.Name == r.isDir:
			return []int{aIsDir}
		case x.Name == "true":
			return []int{opTrue}
		case x.Name == "false":
			return []int{opFalse}
		}
	case *ast.BinaryExpr:
		switch x.Op {
		case token.LAND:
			return append(append(r.rpn(f, x.X), r.rpn(f, x.Y)...), opAnd)
		case token.LOR:
			return append(append(r.rpn(f, x.X), r.rpn(f, x.Y)...), opOr)
		case token.EQL, token.NEQ:
			a, b := r.role(x.X), r.role(x.Y)
			if a > b {
				a, b = b, a
			}
			atom := -1
			switch a + "|" + b {
			case "OutDir|base":
				atom = aBaseEqOut
			case "lit:.|name":
				atom = aNameEqDot
			case "base|dir":
				atom = aBlEqBase
			case "dir|name":
				atom = aBlEqName
			}
			if atom >= 0 {
				if x.Op == token.NEQ {
					return []int{atom, opNot}
				}
				return []int{atom}
			}
		}
	case *ast.CallExpr:
		fn := sel(x.Fun)
		switch {
		case fn == "strings.HasPrefix" && len(x.Args) == 2:
			switch r.role(x.Args[0]) + "|" + r.role(x.Args[1]) {
			case "base|lit:.":
				return []int{aBaseHidden}
			case "name|prefix":
				return []int{aNameHasPfx}
			case "prefix|name":
				return []int{aPfxHasName}
			case "name|dir":
				return []int{aBlStrPfx}
			case "name|dir+/":
				return []int{aBlSlashPfx}
			}
		case strings.HasSuffix(fn, ".IsABuildFile") && len(x.Args) == 1 && r.role(x.Args[0]) == "base":
			return []int{aIsBuild}
		case strings.HasSuffix(fn, "ContainsString") && len(x.Args) == 2 && r.role(x.Args[0]) == "name" &&
			strings.HasSuffix(sel(x.Args[1]), ".ExperimentalDir"):
			return []int{aInExp}
		}
	}
	xlib.Unreadable("unrecognised condition in FindAllBuildFiles callback (line %d): %s", f.Line(e), f.Src(e))
	return nil
}

// action of a branch body: 0 = return filepath.SkipDir, 1 = ch <- name
func (r *roles) action(f *xlib.File, b *ast.BlockStmt) int {
	if len(b.List) == 1 {
		switch s := b.List[0].(type) {
		case *ast.ReturnStmt:
			if len(s.Results) == 1 && sel(s.Results[0]) == "filepath.SkipDir" {
				return 0
			}
		case *ast.SendStmt:
			if r.role(s.Value) == "name" {
				return 1
			}
		}
	}
	xlib.Unreadable("unrecognised branch body in FindAllBuildFiles callback (line %d): %s", f.Line(b), f.Src(b))
	return -1
}

func natList(xs []int) string { return xlib.LeanNatList(xs) }

func modCache() string {
	if d := os.Getenv("GOMODCACHE"); d != "" {
		return d
	}
	if out, err := exec.Command("go", "env", "GOMODCACHE").Output(); err == nil && strings.TrimSpace(string(out)) != "" {
		return strings.TrimSpace(string(out))
	}
	return "/root/go/pkg/mod"
}

func main() {
	f := xlib.Parse("src/plz/plz.go")
	fn := f.Func("FindAllBuildFiles")
	var outerParams []string
	for _, fl := range fn.Type.Params.List {
		for _, nm := range fl.Names {
			outerParams = append(outerParams, nm.Name)
		}
	}
	if len(outerParams) != 3 {
		xlib.Unreadable("FindAllBuildFiles: expected 3 parameters, found %d", len(outerParams))
	}
	// the callback: the function literal with (string, bool) parameters passed to <pkg>.Walk
	var cb *ast.FuncLit
	walkFn := ""
	ast.Inspect(fn.Body, func(n ast.Node) bool {
		ce, ok := n.(*ast.CallExpr)
		if !ok || cb != nil {
			return true
		}
		for _, a := range ce.Args {
			if fl, ok := a.(*ast.FuncLit); ok && fl.Type.Params.NumFields() == 2 && strings.HasSuffix(sel(ce.Fun), "Walk") {
				cb, walkFn = fl, sel(ce.Fun)
			}
		}
		return true
	})
	if cb == nil {
		xlib.Unreadable("FindAllBuildFiles: walk callback not found")
	}
	if walkFn != "fs.Walk" {
		xlib.Unreadable("FindAllBuildFiles walks with %s, not fs.Walk", walkFn)
	}
	var cbParams []string
	for _, fl := range cb.Type.Params.List {
		for _, nm := range fl.Names {
			cbParams = append(cbParams, nm.Name)
		}
	}
	r := &roles{name: cbParams[0], isDir: cbParams[1], prefix: outerParams[2], base: map[string]bool{}}

	type branch struct {
		cond []int
		act  int
		src  string
	}
	var chain []branch
	var blCond []int
	blSrc := ""
	stage := 0 // 0 = prologue/chain, 1 = after chain, 2 = after blacklist loop, 3 = after return nil
	for _, st := range cb.Body.List {
		switch s := st.(type) {
		case *ast.AssignStmt:
			if stage == 0 && len(chain) == 0 && s.Tok == token.DEFINE && len(s.Lhs) == 1 && len(s.Rhs) == 1 && r.role(s.Rhs[0]) == "base" {
				r.base[s.Lhs[0].(*ast.Ident).Name] = true
				continue
			}
		case *ast.IfStmt:
			if stage == 0 && len(chain) == 0 {
				for cur := s; cur != nil; {
					if cur.Init != nil {
						xlib.Unreadable("if with init statement in FindAllBuildFiles callback (line %d)", f.Line(cur))
					}
					chain = append(chain, branch{r.rpn(f, cur.Cond), r.action(f, cur.Body), f.Src(cur.Cond)})
					switch e := cur.Else.(type) {
					case nil:
						cur = nil
					case *ast.IfStmt:
						cur = e
					default:
						xlib.Unreadable("final else in FindAllBuildFiles callback chain (line %d)", f.Line(cur.Else))
					}
				}
				stage = 1
				continue
			}
		case *ast.RangeStmt:
			if stage == 1 && strings.HasSuffix(sel(s.X), ".BlacklistDirs") && s.Value != nil && len(s.Body.List) == 1 {
				if k, ok := s.Key.(*ast.Ident); ok && k.Name != "_" {
					break
				}
				r.dir = s.Value.(*ast.Ident).Name
				if is, ok := s.Body.List[0].(*ast.IfStmt); ok && is.Else == nil && is.Init == nil && r.action(f, is.Body) == 0 {
					blCond, blSrc = r.rpn(f, is.Cond), f.Src(is.Cond)
					stage = 2
					continue
				}
			}
		case *ast.ReturnStmt:
			if stage == 2 && len(s.Results) == 1 && sel(s.Results[0]) == "nil" {
				stage = 3
				continue
			}
		}
		xlib.Unreadable("unexpected statement in FindAllBuildFiles callback (line %d): %s", f.Line(st), f.Src(st))
	}
	if stage != 3 {
		xlib.Unreadable("FindAllBuildFiles callback: expected if-chain, blacklist loop, return nil (stopped at stage %d)", stage)
	}

	// `rootPath == "" -> "."` guard
	rootDot := false
	ast.Inspect(fn.Body, func(n ast.Node) bool {
		if is, ok := n.(*ast.IfStmt); ok {
			if strings.Contains(f.Src(is.Cond), outerParams[1]+` == ""`) && strings.Contains(f.Src(is.Body), outerParams[1]+` = "."`) {
				rootDot = true
			}
		}
		return true
	})

	// the prefix argument used for `//dir/...` expansion (findOriginalTask)
	prefixArg := "?"
	ast.Inspect(f.Func("findOriginalTask").Body, func(n ast.Node) bool {
		if ce, ok := n.(*ast.CallExpr); ok && sel(ce.Fun) == "FindAllBuildFiles" && len(ce.Args) == 3 {
			if bl, ok := ce.Args[2].(*ast.BasicLit); ok && bl.Kind == token.STRING {
				prefixArg, _ = strconv.Unquote(bl.Value)
			} else {
				prefixArg = "expr:" + f.Src(ce.Args[2])
			}
		}
		return true
	})

	// core.OutDir
	bt := xlib.Parse("src/core/build_target.go")
	od, ok := bt.VarValue("OutDir").(*ast.BasicLit)
	if !ok || od.Kind != token.STRING {
		xlib.Unreadable("core.OutDir is not a string literal")
	}
	outDir, _ := strconv.Unquote(od.Value)

	// src/fs/walk.go: Walk -> WalkMode(callback(name, mode.IsDir())) -> godirwalk.Walk(root, &godirwalk.Options{...})
	wf := xlib.Parse("src/fs/walk.go")
	passesIsDir := strings.Contains(wf.Src(wf.Func("Walk").Body), ".IsDir())")
	var optKeys []string
	nOpts := 0
	ast.Inspect(wf.Func("WalkMode").Body, func(n ast.Node) bool {
		if cl, ok := n.(*ast.CompositeLit); ok && sel(cl.Type) == "godirwalk.Options" {
			nOpts++
			for _, e := range cl.Elts {
				if kv, ok := e.(*ast.KeyValueExpr); ok {
					k := sel(kv.Key)
					v := wf.Src(kv.Value)
					if (k == "Unsorted" || k == "FollowSymbolicLinks") && v == "false" {
						continue
					}
					optKeys = append(optKeys, k)
				}
			}
		}
		return true
	})
	if nOpts != 1 {
		xlib.Unreadable("fs.WalkMode: expected one godirwalk.Options literal, found %d", nOpts)
	}
	sorted := true
	for _, k := range optKeys {
		switch k {
		case "Callback":
		case "Unsorted":
			sorted = false
		default:
			xlib.Unreadable("fs.WalkMode sets godirwalk option %s, which the model does not cover", k)
		}
	}

	// godirwalk: version pinned in go.mod, and the SkipDir-on-non-directory rule in its walk()
	gm, err := os.ReadFile(filepath.Join(xlib.Repo(), "go.mod"))
	if err != nil {
		xlib.Unreadable("go.mod: %v", err)
	}
	m := regexp.MustCompile(`(?m)^\s*github.com/karrick/godirwalk\s+(v\S+)`).FindSubmatch(gm)
	if m == nil {
		xlib.Unreadable("godirwalk not required in go.mod")
	}
	ver := string(m[1])
	gsrc := filepath.Join(modCache(), "github.com/karrick/godirwalk@"+ver, "walk.go")
	gw := parseAbs(gsrc)
	cut := false
	usesIsDirOrSymlinkToDir := false
	ast.Inspect(gw.Func("walk").Body, func(n ast.Node) bool {
		switch x := n.(type) {
		case *ast.IfStmt:
			if gw.Src(x.Cond) == "!isDir" && len(x.Body.List) == 1 {
				if bs, ok := x.Body.List[0].(*ast.BranchStmt); ok && bs.Tok == token.BREAK {
					cut = true
				}
			}
		case *ast.CallExpr:
			if strings.HasSuffix(sel(x.Fun), ".IsDirOrSymlinkToDir") {
				usesIsDirOrSymlinkToDir = true
			}
		}
		return true
	})
	if !usesIsDirOrSymlinkToDir {
		xlib.Unreadable("godirwalk %s: walk() does not classify SkipDir by IsDirOrSymlinkToDir", ver)
	}

	out := xlib.NewOut("C22", f.Path, "src/fs/walk.go", "src/core/build_target.go", "go.mod", gsrc)
	out.Def("outDir", "List Char", xlib.LeanCharList([]rune(outDir)))
	parts := make([]string, len(chain))
	for i, b := range chain {
		parts[i] = "(" + natList(b.cond) + ", " + strconv.Itoa(b.act) + ")"
		out.Raw("-- branch " + strconv.Itoa(i) + ": " + b.src + "  =>  " + []string{"return filepath.SkipDir", "ch <- name"}[b.act])
	}
	out.Def("chain", "List (List Nat × Nat)", "["+strings.Join(parts, ", ")+"]")
	out.Raw("-- blacklist loop: " + blSrc + "  =>  return filepath.SkipDir")
	out.Def("blCond", "List Nat", natList(blCond))
	out.Def("cutOnNonDir", "Bool", xlib.LeanBool(cut))
	out.Def("sorted", "Bool", xlib.LeanBool(sorted))
	out.Def("walkPassesIsDir", "Bool", xlib.LeanBool(passesIsDir))
	out.Def("rootEmptyBecomesDot", "Bool", xlib.LeanBool(rootDot))
	out.Def("expandPrefixArg", "String", xlib.LeanStr(prefixArg))
	out.Def("godirwalkVersion", "String", xlib.LeanStr(ver))
	out.Write()
}

// parseAbs parses a file outside the repo by temporarily pointing VERIF_REPO at its directory.
func parseAbs(p string) *xlib.File {
	old, had := os.LookupEnv("VERIF_REPO")
	os.Setenv("VERIF_REPO", filepath.Dir(p))
	defer func() {
		if had {
			os.Setenv("VERIF_REPO", old)
		} else {
			os.Unsetenv("VERIF_REPO")
		}
	}()
	return xlib.Parse(filepath.Base(p))
}
