package rulehash

import (
	"bytes"
	"context"
	"encoding/hex"
	"fmt"
	"os"
	"path/filepath"
	"sort"
	"strings"
	"time"

	logging "gopkg.in/op/go-logging.v1"

	"github.com/thought-machine/please/src/build"
	"github.com/thought-machine/please/src/core"
	"github.com/thought-machine/please/src/process"
	"verif/harness/lib"
)

// ---------------------------------------------------------------- C10: the action environment
//
// Tokens: target tokens as for C08, plus
//
//	c.<field>=…   configuration fields read by GeneralBuildEnvironment / getBuildEnv / Hash
//	d.<field>=…   strings derived from the target by the real accessors (source / output paths, tmp dir)
//	caller=k:v,…  the invoking shell's environment (callerA= / callerB= for pairs)
//
// Ops:
//
//	env      <tokens>   impl: core.BuildEnvironment(...).ToSlice() under the caller environment   model: toSlice (buildEnvironment …)
//	cfghash  <tokens>   impl: Configuration.Hash()                                                 model: sha1(configSer)
//	hermetic <tokens with callerA, callerB>
//	                    impl/model: "env:<same|diff> rule:<same|diff> cfg:<same|diff>"
//	exec     <tokens>   impl: the real Executor runs /usr/bin/env with ToSlice(); "exact" when the child saw exactly that
//	userenv  <tokens>   impl: BuildEnvironment repeated; "deterministic" | "order-dependent"        model: over all orders of target.Env
//
// Direct oracle (property as stated, real code only):
//   - callers agreeing on every pass_env / pass_unsafe_env name (target and config) must give the same action
//     environment;  - callers differing in a pass_env value must give different rule / config hashes;
//   - callers agreeing on the pass_env names must give the same hashes;  - the child sees exactly ToSlice();
//   - the environment does not depend on map iteration order.

type Cfg struct {
	Lang, Nonce, Location, BuildConfig, PkgConfig, RepoRoot string
	Arch, OS, XArch, XOS                                    string
	Reject, PassEnv, PassUnsafe, Path, SandboxDirs          []string
	BuildEnv                                                []KV
	Remote, Bazel                                           bool
}

type Derived struct {
	PkgDir, OutResolved, TmpDir string
	Sources, OutEnv             []string
	NamedSrcs, NamedOuts        []Group
}

func encCfg(c Cfg) string {
	var f []string
	add := func(k, v string) { f = append(f, "c."+k+"="+v) }
	add("lang", hx(c.Lang))
	add("nonce", hx(c.Nonce))
	add("location", hx(c.Location))
	add("buildconfig", hx(c.BuildConfig))
	add("pkgconfig", hx(c.PkgConfig))
	add("reporoot", hx(c.RepoRoot))
	add("arch", hx(c.Arch))
	add("os", hx(c.OS))
	add("xarch", hx(c.XArch))
	add("xos", hx(c.XOS))
	add("reject", encList(c.Reject))
	add("passenv", encList(c.PassEnv))
	add("passunsafe", encList(c.PassUnsafe))
	add("path", encList(c.Path))
	add("sandboxdirs", encList(c.SandboxDirs))
	add("buildenv", encKVs(c.BuildEnv))
	if c.Remote {
		add("remote", "1")
	}
	if c.Bazel {
		add("bazel", "1")
	}
	return strings.Join(f, " ")
}

func encDerived(d Derived) string {
	return strings.Join([]string{"d.pkgdir=" + hx(d.PkgDir), "d.outresolved=" + hx(d.OutResolved), "d.tmpdir=" + hx(d.TmpDir),
		"d.sources=" + encList(d.Sources), "d.outenv=" + encList(d.OutEnv), "d.namedsrcs=" + encGroups(d.NamedSrcs),
		"d.namedouts=" + encGroups(d.NamedOuts)}, " ")
}

type c10op struct {
	cfg             Cfg
	d               Derived
	t               T
	caller, callerB []KV
	hasB            bool
}

func parseC10(toks []string) c10op {
	var o c10op
	var rest []string
	seen := map[string]bool{}
	for _, tok := range toks {
		i := strings.Index(tok, "=")
		must(i > 0)
		k, v := tok[:i], tok[i+1:]
		if !strings.HasPrefix(k, "c.") && !strings.HasPrefix(k, "d.") && !strings.HasPrefix(k, "caller") {
			rest = append(rest, tok)
			continue
		}
		must(!seen[k])
		seen[k] = true
		switch k {
		case "c.lang":
			o.cfg.Lang = unhx(v)
		case "c.nonce":
			o.cfg.Nonce = unhx(v)
		case "c.location":
			o.cfg.Location = unhx(v)
		case "c.buildconfig":
			o.cfg.BuildConfig = unhx(v)
		case "c.pkgconfig":
			o.cfg.PkgConfig = unhx(v)
		case "c.reporoot":
			o.cfg.RepoRoot = unhx(v)
		case "c.arch":
			o.cfg.Arch = unhx(v)
		case "c.os":
			o.cfg.OS = unhx(v)
		case "c.xarch":
			o.cfg.XArch = unhx(v)
		case "c.xos":
			o.cfg.XOS = unhx(v)
		case "c.reject":
			o.cfg.Reject = decList(v)
		case "c.passenv":
			o.cfg.PassEnv = decList(v)
		case "c.passunsafe":
			o.cfg.PassUnsafe = decList(v)
		case "c.path":
			o.cfg.Path = decList(v)
		case "c.sandboxdirs":
			o.cfg.SandboxDirs = decList(v)
		case "c.buildenv":
			o.cfg.BuildEnv = decKVs(v)
		case "c.remote":
			must(v == "1")
			o.cfg.Remote = true
		case "c.bazel":
			must(v == "1")
			o.cfg.Bazel = true
		case "d.pkgdir":
			o.d.PkgDir = unhx(v)
		case "d.outresolved":
			o.d.OutResolved = unhx(v)
		case "d.tmpdir":
			o.d.TmpDir = unhx(v)
		case "d.sources":
			o.d.Sources = decList(v)
		case "d.outenv":
			o.d.OutEnv = decList(v)
		case "d.namedsrcs":
			o.d.NamedSrcs = decGroups(v)
		case "d.namedouts":
			o.d.NamedOuts = decGroups(v)
		case "caller", "callerA":
			o.caller = decKVs(v)
		case "callerB":
			o.callerB = decKVs(v)
			o.hasB = true
		default:
			must(false)
		}
	}
	var c Ctx
	parseTokens(rest, &c, &o.t)
	must(c.Config == "" && c.Fallback == "" && !c.Runtime && c.Environ == nil) // the context comes from c.* / caller here
	return o
}

func wellFormedC10(o c10op) bool {
	ctx := Ctx{Config: o.cfg.BuildConfig, Fallback: o.cfg.BuildConfig, Environ: o.caller}
	ok := wellFormed(ctx, o.t) && distinct(kvKeys(o.caller)) && distinct(kvKeys(o.callerB))
	for _, kv := range append(append([]KV{}, o.caller...), o.callerB...) {
		ok = ok && envNameOK(kv.K) && !strings.Contains(kv.V, "\x00")
	}
	norm := map[string]bool{}
	for _, kv := range o.cfg.BuildEnv {
		k := strings.ReplaceAll(strings.ToUpper(kv.K), "-", "_")
		ok = ok && !norm[k] && kv.K != "" && isASCII(kv.K)
		norm[k] = true
	}
	for _, l := range [][]string{o.cfg.PassEnv, o.cfg.PassUnsafe} {
		for _, e := range l {
			ok = ok && envNameOK(e)
		}
	}
	if o.t.PassUnsafeEnv != nil {
		for _, e := range *o.t.PassUnsafeEnv {
			ok = ok && envNameOK(e)
		}
	}
	// upper-casing of group names must not merge two groups (that is a separate, order-dependent case)
	for _, gs := range [][]Group{o.t.NamedSrcs, o.t.NamedOuts, o.t.NamedTools, o.t.NamedSecret} {
		up := map[string]bool{}
		for _, g := range gs {
			u := strings.ToUpper(g.K)
			ok = ok && !up[u] && isASCII(g.K)
			up[u] = true
		}
	}
	// kept out of the in-process model: label sources / filegroups / subrepos / tools that are labels
	ok = ok && !o.t.Flags["isFilegroup"] && o.t.Label.Sub == ""
	return ok
}

func isASCII(s string) bool {
	for i := 0; i < len(s); i++ {
		if s[i] >= 0x80 {
			return false
		}
	}
	return true
}

var systemFileTools bool // C10: tools are SystemFileLabels (their path reaches $TOOLS)

// newState builds a fresh configuration + state (GetBuildEnv memoises per Configuration).
func newState(c Cfg) *core.BuildState {
	cfg := core.DefaultConfiguration()
	cfg.Build.Lang, cfg.Build.Nonce = c.Lang, c.Nonce
	cfg.Licences.Reject = c.Reject
	cfg.Cpp.PkgConfigPath = c.PkgConfig
	cfg.BuildEnv = map[string]string{}
	for _, kv := range c.BuildEnv {
		cfg.BuildEnv[kv.K] = kv.V
	}
	cfg.Build.PassEnv, cfg.Build.PassUnsafeEnv, cfg.Build.Path = c.PassEnv, c.PassUnsafe, c.Path
	cfg.Please.Location = c.Location
	cfg.Build.Config, cfg.Build.FallbackConfig = c.BuildConfig, c.BuildConfig
	if c.Remote {
		cfg.Remote.URL = "grpc://remote.invalid:1234"
	} else {
		cfg.Remote.URL = ""
	}
	cfg.Build.HashCheckers = nil // the C10 model's context has no hash checkers
	cfg.Sandbox.Dir = c.SandboxDirs
	cfg.Bazel.Compatibility = c.Bazel
	// one BuildState, a fresh Configuration per call (NewBuildState is expensive; nothing it sets up is read here)
	if sharedState == nil {
		sharedState = core.NewBuildState(cfg)
	}
	sharedState.Config = cfg
	return sharedState
}

var sharedState *core.BuildState

func applyCaller(caller []KV) {
	for k := range setVars {
		os.Unsetenv(k)
	}
	setVars = map[string]bool{}
	for _, kv := range caller {
		os.Setenv(kv.K, kv.V)
		setVars[kv.K] = true
	}
}

// names the harness itself may leave in the process environment are cleared once at start
func scrubProcessEnv() {
	keep := map[string]bool{"VERIF_SCRATCH": true, "VERIF_PLZ": true}
	for _, e := range os.Environ() {
		k := e[:strings.Index(e, "=")]
		if !keep[k] {
			os.Unsetenv(k)
		}
	}
}

func derive(st *core.BuildState, bt *core.BuildTarget, tmpDir string) Derived {
	d := Derived{PkgDir: bt.PackageDir(), TmpDir: tmpDir}
	d.Sources = bt.AllSourcePaths(st.Graph)
	d.OutEnv = bt.GetTmpOutputAll(bt.Outputs())
	if len(d.OutEnv) == 1 {
		// resolveOut(out, tmpDir, sandbox): not exported; transcribed (the sandbox dir applies on linux outside /tmp)
		if bt.Sandbox && !strings.HasPrefix(core.RepoRoot, "/tmp/") && tmpDir != "." {
			d.OutResolved = filepath.Join(core.SandboxDir, d.OutEnv[0])
		} else {
			d.OutResolved = filepath.Join(tmpDir, d.OutEnv[0])
		}
	}
	var names []string
	for n := range bt.NamedSources {
		names = append(names, n)
	}
	sort.Strings(names)
	for _, n := range names {
		d.NamedSrcs = append(d.NamedSrcs, Group{n, bt.SourcePaths(st.Graph, bt.NamedSources[n])})
	}
	names = nil
	for n := range bt.DeclaredNamedOutputs() {
		names = append(names, n)
	}
	sort.Strings(names)
	for _, n := range names {
		d.NamedOuts = append(d.NamedOuts, Group{n, bt.GetTmpOutputAll(bt.DeclaredNamedOutputs()[n])})
	}
	return d
}

func sliceKey(s []string) string { return strings.Join(s, "\x00") }

func encSlice(s []string) string {
	if len(s) == 0 {
		return "-"
	}
	p := make([]string, len(s))
	for i, e := range s {
		p[i] = hex.EncodeToString([]byte(e))
	}
	return strings.Join(p, ",")
}

// realEnv: the action environment the real code builds for this op under the given caller.
// unstable: repeated calls on the same state gave different environments (Go map iteration order).
func realEnv(o c10op, caller []KV) (env []string, d Derived, rule, cfgHash []byte, unstable bool, msg string) {
	msg = lib.Safely(func() string {
		applyCaller(caller) // the invoking shell's environment is there before plz reads its configuration
		st := newState(o.cfg)
		core.RepoRoot = o.cfg.RepoRoot
		st.Arch.Arch, st.Arch.OS = o.cfg.Arch, o.cfg.OS
		bt := buildTarget(o.t)
		if m := readBack(o.t, bt); m != "" {
			return "readback-mismatch " + m
		}
		d = derive(st, bt, o.d.TmpDir)
		env = core.BuildEnvironment(st, bt, o.d.TmpDir).ToSlice()
		if len(o.t.Env) >= 2 {
			for i := 0; i < 60; i++ {
				if sliceKey(core.BuildEnvironment(st, bt, o.d.TmpDir).ToSlice()) != sliceKey(env) {
					unstable = true
					break
				}
			}
		}
		rule = build.RuleHash(st, bt, false, false)
		cfgHash = st.Config.Hash()
		return ""
	})
	return
}

func sameDerived(a, b Derived) bool { return encDerived(a) == encDerived(b) }

func lookupKV(l []KV, k string) (string, bool) {
	for _, kv := range l {
		if kv.K == k {
			return kv.V, true
		}
	}
	return "", false
}

// agreeOn: both callers answer os.LookupEnv alike for every name.
func agreeOn(names []string, a, b []KV) bool {
	for _, n := range names {
		va, oa := lookupKV(a, n)
		vb, ob := lookupKV(b, n)
		if oa != ob || va != vb {
			return false
		}
	}
	return true
}

func getenvAgree(names []string, a, b []KV) bool {
	for _, n := range names {
		va, _ := lookupKV(a, n)
		vb, _ := lookupKV(b, n)
		if va != vb {
			return false
		}
	}
	return true
}

func deref(p *[]string) []string {
	if p == nil {
		return nil
	}
	return *p
}

func usesHome(t T) bool {
	has := func(l []string) bool {
		for _, s := range l {
			if strings.Contains(s, "~") {
				return true
			}
		}
		return false
	}
	if has(t.Secrets) || has(t.Tools) {
		return true
	}
	for _, gs := range [][]Group{t.NamedSecret, t.NamedTools} {
		for _, g := range gs {
			if has(g.Vs) {
				return true
			}
		}
	}
	return false
}

func runC10(r *lib.Run, op string, f []string) {
	o := parseC10(f[1:])
	must(wellFormedC10(o))
	switch f[0] {
	case "env", "cfghash":
		env, d, _, ch, unstable, msg := realEnv(o, o.caller)
		if msg != "" {
			r.Emit(op, msg, false)
			return
		}
		if !sameDerived(d, o.d) {
			r.Emit(op, "derived-mismatch "+encDerived(d), false)
			return
		}
		if f[0] == "cfghash" {
			r.Emit(op, hex.EncodeToString(ch), len(o.cfg.BuildEnv)+len(o.cfg.PassEnv) >= 2)
			return
		}
		if unstable {
			r.OracleFail("target-env-expansion-order-dependent", op, "repeated BuildEnvironment calls for one target give different environments")
			r.Count("env-unstable")
			r.Emit(op, "unstable", true)
			return
		}
		r.Count(fmt.Sprintf("env-vars<=%d", (len(env)/10+1)*10))
		r.Emit(op, encSlice(env), len(o.caller) > 0 && (o.t.PassEnv != nil || len(o.cfg.PassEnv) > 0 || len(o.t.Env) > 0))
	case "hermetic":
		must(o.hasB)
		ea, d, ra, ca, ua, m1 := realEnv(o, o.caller)
		eb, _, rb, cb, ub, m2 := realEnv(o, o.callerB)
		if m1 != "" || m2 != "" {
			r.Emit(op, "error "+m1+m2, false)
			return
		}
		if !sameDerived(d, o.d) {
			r.Emit(op, "derived-mismatch "+encDerived(d), false)
			return
		}
		sd := func(same bool) string {
			if same {
				return "same"
			}
			return "diff"
		}
		envSame, ruleSame, cfgSame := sliceKey(ea) == sliceKey(eb), bytes.Equal(ra, rb), bytes.Equal(ca, cb)
		envWord := sd(envSame)
		if ua || ub {
			// the environment is not even a function of (config, target, caller): reported as such, not as a leak
			r.OracleFail("target-env-expansion-order-dependent", op, "repeated BuildEnvironment calls for one target give different environments")
			envWord, envSame = "unstable", true
		}
		// ---- the property, on the real code
		visible := append(append(append(append([]string{}, o.cfg.PassEnv...), o.cfg.PassUnsafe...), deref(o.t.PassEnv)...), deref(o.t.PassUnsafeEnv)...)
		if agreeOn(o.cfg.PassEnv, o.caller, o.callerB) && agreeOn(o.cfg.PassUnsafe, o.caller, o.callerB) &&
			getenvAgree(deref(o.t.PassEnv), o.caller, o.callerB) && getenvAgree(deref(o.t.PassUnsafeEnv), o.caller, o.callerB) && !envSame {
			cls := "caller-env-leaks-into-action-env"
			ha, _ := lookupKV(o.caller, "HOME")
			hb, _ := lookupKV(o.callerB, "HOME")
			if ha != hb && usesHome(o.t) {
				cls = "home-expanded-into-action-env"
			}
			r.OracleFail(cls, op, fmt.Sprintf("callers agree on %v but the action environments differ", visible))
		}
		if getenvAgree(deref(o.t.PassEnv), o.caller, o.callerB) && !ruleSame {
			r.OracleFail("rule-hash-depends-on-unlisted-variable", op, "callers agree on the target's pass_env, rule hashes differ")
		}
		if agreeOn(o.cfg.PassEnv, o.caller, o.callerB) && !cfgSame {
			r.OracleFail("config-hash-depends-on-unlisted-variable", op, "callers agree on [build] passenv, config hashes differ")
		}
		if !getenvAgree(deref(o.t.PassEnv), o.caller, o.callerB) && ruleSame {
			cls := "passenv-change-not-rehashed"
			ctxA := Ctx{Config: o.cfg.BuildConfig, Fallback: o.cfg.BuildConfig, Environ: o.caller}
			ctxB := Ctx{Config: o.cfg.BuildConfig, Fallback: o.cfg.BuildConfig, Environ: o.callerB}
			if concat(specChunks(ctxA, o.t)) == concat(specChunks(ctxB, o.t)) {
				cls = "passenv-values-unframed"
			}
			r.OracleFail(cls, op, "a pass_env variable changed value, the rule hash did not")
		}
		if !agreeOn(o.cfg.PassEnv, o.caller, o.callerB) && cfgSame {
			cls := "config-passenv-change-not-rehashed"
			if specConfigPre(o.cfg, o.caller) == specConfigPre(o.cfg, o.callerB) {
				cls = "confighash-kv-unframed"
			}
			r.OracleFail(cls, op, "a [build] passenv variable changed, the config hash did not")
		}
		r.Count("hermetic env:" + envWord + " rule:" + sd(ruleSame) + " cfg:" + sd(cfgSame))
		r.Emit(op, "env:"+envWord+" rule:"+sd(ruleSame)+" cfg:"+sd(cfgSame), true)
	case "exec":
		env, d, _, _, _, msg := realEnv(o, o.caller)
		if msg != "" {
			r.Emit(op, msg, false)
			return
		}
		if !sameDerived(d, o.d) {
			r.Emit(op, "derived-mismatch "+encDerived(d), false)
			return
		}
		out, _, err := executor.ExecWithTimeout(context.Background(), nil, "/", env, 20*time.Second, false, false, false, false, process.NoSandbox, []string{"/usr/bin/env", "-0"})
		if err != nil {
			r.Emit(op, "exec-error "+err.Error(), false)
			return
		}
		var seen []string
		for _, e := range strings.Split(string(out), "\x00") {
			if e != "" {
				seen = append(seen, e)
			}
		}
		sort.Strings(seen)
		if sliceKey(seen) != sliceKey(env) {
			r.OracleFail("action-sees-other-variables", op, fmt.Sprintf("child environment %q, expected %q", seen, env))
			r.Emit(op, "differs", true)
			return
		}
		r.Emit(op, "exact", len(o.caller) > 0)
	case "userenv":
		_, _, _, _, unstable, msg := realEnv(o, o.caller)
		if msg != "" {
			r.Emit(op, msg, false)
			return
		}
		if unstable {
			r.OracleFail("target-env-expansion-order-dependent", op, "repeated BuildEnvironment calls for one target give different environments")
			r.Emit(op, "order-dependent", true)
			return
		}
		r.Emit(op, "deterministic", len(o.t.Env) >= 2)
	default:
		must(false)
	}
}

var executor *process.Executor

// specConfigPre: independent transcription of the pinned Configuration.Hash pre-image.
func specConfigPre(c Cfg, caller []KV) string {
	env := map[string]string{}
	for _, kv := range c.BuildEnv {
		env[strings.ReplaceAll(strings.ToUpper(kv.K), "-", "_")] = kv.V
	}
	for _, k := range c.PassEnv {
		if v, ok := lookupKV(caller, k); ok {
			if k == "PATH" {
				v = c.Location + ":" + v
			}
			env[k] = v
		}
	}
	var keys []string
	for k := range env {
		keys = append(keys, k)
	}
	sort.Strings(keys)
	s := c.Lang + c.Nonce + strings.Join(c.Reject, "")
	for _, k := range keys {
		if !strings.HasPrefix(k, "SECRET") {
			s += k + "=" + env[k]
		}
	}
	return s
}

// ---------------------------------------------------------------- generator

var c10Names = []string{"A", "B", "AB", "HOME", "PATH", "LANG", "SECRET_X", "C10_V", "TMPDIR", "OUTS", "z", "USER"}

func randCaller(r *lib.Run) []KV {
	var out []KV
	seen := map[string]bool{}
	for i := r.Rng.Intn(6); i > 0; i-- {
		k := pick(r, c10Names)
		if !seen[k] {
			seen[k] = true
			out = append(out, KV{k, pick(r, []string{"", "x", "y", "/home/u", "/h2", "xB=y", "yB=", "a:b", "$A", "~"})})
		}
	}
	return out
}

func randCfg(r *lib.Run) Cfg {
	c := Cfg{Lang: pick(r, []string{"en_GB.UTF-8", "C", ""}), Nonce: pick(r, []string{"", "n1"}), Location: pick(r, []string{"/opt/please", "/home/u/.please"}),
		BuildConfig: pick(r, []string{"opt", "dbg"}), RepoRoot: pick(r, []string{"/repo", "/tmp/repo"}), Arch: "amd64", OS: "linux", XArch: "x86_64", XOS: "linux",
		Path: []string{"/usr/local/bin", "/usr/bin", "/bin"}}
	if r.Rng.Chance(30) {
		c.PkgConfig = "/usr/lib/pkgconfig"
	}
	if r.Rng.Chance(20) {
		c.Reject = randList(r, []string{"GPL", "a", "b"}, 2)
	}
	if r.Rng.Chance(50) {
		c.PassEnv = dedupe(randList(r, c10Names, 3))
	}
	if r.Rng.Chance(30) {
		c.PassUnsafe = dedupe(randList(r, c10Names, 2))
	}
	if r.Rng.Chance(50) {
		seen := map[string]bool{}
		for i := r.Rng.Intn(4); i > 0; i-- {
			k := pick(r, []string{"zed", "alpha", "a-b", "A", "secret-key", "path-x", "B"})
			n := strings.ReplaceAll(strings.ToUpper(k), "-", "_")
			if !seen[n] {
				seen[n] = true
				c.BuildEnv = append(c.BuildEnv, KV{k, pick(r, []string{"1", "", "x=y", "v"})})
			}
		}
	}
	c.Remote, c.Bazel = r.Rng.Chance(15), r.Rng.Chance(15)
	if r.Rng.Chance(25) {
		c.SandboxDirs = randList(r, []string{"/var", "/srv"}, 2)
	}
	return c
}

func randC10Target(r *lib.Run) T {
	t := T{Label: Label{Pkg: pick(r, []string{"pkg", "p/q", ""}), Name: pick(r, []string{"t", "a"})}, Flags: map[string]bool{}}
	some := func(p int) bool { return r.Rng.Chance(p) }
	if some(70) {
		t.Srcs = dedupe(randList(r, []string{"a.txt", "b.txt", "d/c.txt", "a b"}, 3))
	}
	if some(25) {
		t.NamedSrcs = []Group{{"go", []string{"x.go"}}, {"hdrs", []string{"h.h", "i.h"}}}[:1+r.Rng.Intn(2)]
	}
	if some(70) {
		t.Outs = sortedSet(randList(r, []string{"o1", "o2", "pkg", "t"}, 2))
	}
	if some(25) {
		t.NamedOuts = []Group{{"bin", []string{"b.out"}}, {"lib", []string{"l.a"}}}[:1+r.Rng.Intn(2)]
	}
	if some(45) {
		pe := dedupe(randList(r, c10Names, 3))
		t.PassEnv = &pe
	}
	if some(25) {
		pe := dedupe(randList(r, c10Names, 2))
		t.PassUnsafeEnv = &pe
	}
	if some(40) {
		seen := map[string]bool{}
		for i := 1 + r.Rng.Intn(3); i > 0; i-- {
			k := pick(r, []string{"E1", "E2", "A", "HOME", "X"})
			if !seen[k] {
				seen[k] = true
				t.Env = append(t.Env, KV{k, pick(r, []string{"v", "$PKG", "${NAME}/x", "$A", "$E1", "$$", "${", "$UNSET", "a$1b", "${E2}", "$"})})
			}
		}
	}
	if some(30) {
		t.Secrets = dedupe(randList(r, []string{"~/.s", "/etc/s", "~", "a:~/b", "~x"}, 2))
	}
	if some(15) {
		t.NamedSecret = []Group{{"key", []string{"~/.k"}}}
	}
	if some(25) {
		t.Tools = randList(r, []string{"/usr/bin/tool", "~/bin/t", "/bin/sh"}, 2)
	}
	if some(10) {
		t.NamedTools = []Group{{"cc", []string{"/usr/bin/cc"}}}
	}
	for _, n := range []string{"sandbox", "isLocal", "srcListFiles", "isBinary"} {
		if some(20) {
			t.Flags[n] = true
		}
	}
	t.Command = "true"
	return t
}

func c10Tokens(o c10op, pair bool) string {
	s := encCfg(o.cfg) + " " + encDerived(o.d) + " " + encT(o.t)
	if pair {
		return s + " callerA=" + encKVs(o.caller) + " callerB=" + encKVs(o.callerB)
	}
	return s + " caller=" + encKVs(o.caller)
}

func mainC10() {
	logging.SetLevel(logging.ERROR, "plz")
	r := lib.Start()
	defer r.Finish()
	r.Rule = "env/exec: the caller sets variables and the target or config passes some through / sets env; hermetic: always; userenv: >= 2 env entries; distinct by op line"
	scrubProcessEnv()
	systemFileTools = true
	executor = process.New()
	state = core.NewDefaultBuildState()
	probeSpec()
	if ops := r.ReplayOps(); ops != nil {
		for _, op := range ops {
			runOp(r, op)
		}
		return
	}
	for i := 0; i < r.N(500, 8000); i++ {
		o := c10op{cfg: randCfg(r), t: randC10Target(r), caller: randCaller(r)}
		shift := false
		if r.Rng.Chance(8) { // the shape on which the unframed name=value run is ambiguous
			pe := []string{"A", "B"}
			o.t.PassEnv = &pe
			shift = true
		}
		if r.Rng.Chance(8) {
			o.cfg.PassEnv = []string{"A", "B"}
			shift = true
		}
		o.d.TmpDir = pick(r, []string{"/repo/plz-out/tmp/pkg/t._build", "/tmp/repo/plz-out/tmp/x"})
		if !wellFormedC10(o) {
			r.Count("gen-rejected")
			continue
		}
		// the derived strings come from the real accessors
		_, d, _, _, _, msg := realEnv(o, o.caller)
		if msg != "" {
			r.Count("gen-error:" + msg)
			continue
		}
		o.d = d
		runOp(r, "env "+c10Tokens(o, false))
		if r.Rng.Chance(30) {
			runOp(r, "cfghash "+c10Tokens(o, false))
		}
		if r.Rng.Chance(12) {
			runOp(r, "exec "+c10Tokens(o, false))
		}
		if len(o.t.Env) >= 2 && len(o.t.Env) <= 3 && r.Rng.Chance(50) {
			runOp(r, "userenv "+c10Tokens(o, false))
		}
		// a second caller: change / add / remove one variable, inside or outside the visible set
		for k := 0; k < 2; k++ {
			o.callerB = append([]KV{}, o.caller...)
			name := pick(r, c10Names)
			kind := r.Rng.Intn(4)
			if shift && k == 0 {
				kind = 2
			}
			switch kind {
			case 0:
				found := false
				for j := range o.callerB {
					if o.callerB[j].K == name {
						o.callerB[j].V += "!"
						found = true
					}
				}
				if !found {
					o.callerB = append(o.callerB, KV{name, "new"})
				}
			case 1:
				for j := range o.callerB {
					if o.callerB[j].K == name {
						o.callerB = append(o.callerB[:j], o.callerB[j+1:]...)
						break
					}
				}
			case 2: // the unframed pass_env run: A=x, B=y+"B="  vs  A=x+"B="+y, B=""  (same bytes "A=xB=yB=")
				va, _ := lookupKV(o.caller, "A")
				vb, _ := lookupKV(o.caller, "B")
				var rest []KV
				for _, kv := range o.caller {
					if kv.K != "A" && kv.K != "B" {
						rest = append(rest, kv)
					}
				}
				o.caller = append(append([]KV{}, rest...), KV{"A", va}, KV{"B", vb + "B="})
				o.callerB = append(append([]KV{}, rest...), KV{"A", va + "B=" + vb}, KV{"B", ""})
			default:
				o.callerB = append(o.callerB, KV{"UNRELATED_" + fmt.Sprint(r.Rng.Intn(3)), "v"})
			}
			o.hasB = true
			if wellFormedC10(o) {
				runOp(r, "hermetic "+c10Tokens(o, true))
			}
		}
	}
	for i := 0; i < r.N(2, 20); i++ {
		runOp(r, fmt.Sprintf("e2e10 %d", r.Rng.U64()%100000))
	}
	for _, op := range []string{"env c.lang=43", "hermetic c.lang=43 caller=.", "e2e10 x", "cfghash c.buildenv=61:31,41:32 caller=.", "env caller=613d62:31", "userenv"} {
		runOp(r, op)
		r.Count("malformed")
	}
}
