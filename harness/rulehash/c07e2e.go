package rulehash

import (
	"crypto/sha1"
	"encoding/hex"
	"fmt"
	"os"
	"os/exec"
	"path/filepath"
	"sort"
	"strings"

	"verif/harness/lib"
)

// ---------------------------------------------------------------- C07 end to end
//
//	e2e <seed>    generate a small repository from the seed, run the real binary
//	              `plz hash --detailed` over all its targets with -n 1 / -n 16 (--num_threads), with the targets given in
//	              different orders and as //..., twice each; every invocation must print the same hashes.
//	              impl: "ok <n targets>"; the model has nothing to add end to end and answers "ok <n>" too
//	              (the n is derived from the seed the same way on both sides: 3 + seed % 4 packages x 4 targets).

func e2eTargets(seed uint64) int { return int(3+seed%4) * 4 }

func genRepo(dir string, seed uint64) []string {
	rng := lib.NewRng(seed)
	npk := int(3 + seed%4)
	must2(os.WriteFile(filepath.Join(dir, ".plzconfig"), []byte("[cache]\ndir = "+filepath.Join(dir, ".cache")+"\n[build]\npassenv = C07_PASS\n[buildenv]\nzed = z\nalpha = a\nmid = m\n"), 0o644))
	var labels []string
	for p := 0; p < npk; p++ {
		pkg := fmt.Sprintf("p%d", p)
		must2(os.MkdirAll(filepath.Join(dir, pkg), 0o755))
		var b strings.Builder
		for _, f := range []string{"a.txt", "b.txt", "c.txt"} {
			must2(os.WriteFile(filepath.Join(dir, pkg, f), []byte(fmt.Sprintf("%s/%s %d\n", pkg, f, rng.Intn(1000))), 0o644))
		}
		// lib: a genrule with named sources/outputs, env, labels, provides, pass_env
		envs := []string{"ZED", "ALPHA", "MID", "K9", "B2"}
		lib.Shuffle(rng, envs)
		var env []string
		for _, e := range envs[:1+rng.Intn(4)] {
			env = append(env, fmt.Sprintf("%q: %q", e, fmt.Sprint(rng.Intn(9))))
		}
		deps := []string{}
		for q := 0; q < p; q++ {
			if rng.Chance(60) {
				deps = append(deps, fmt.Sprintf("%q", fmt.Sprintf("//p%d:lib", q)))
			}
		}
		lib.Shuffle(rng, deps)
		fmt.Fprintf(&b, "genrule(\n    name = \"lib\",\n    srcs = {\"zs\": [\"c.txt\"], \"as\": [\"a.txt\"], \"ms\": [\"b.txt\"]},\n")
		fmt.Fprintf(&b, "    outs = {\"zo\": [\"%s_z.out\"], \"ao\": [\"%s_a.out\"]},\n", pkg, pkg)
		fmt.Fprintf(&b, "    cmd = \"cat $SRCS_AS $SRCS_MS > $OUTS_AO && cat $SRCS_ZS > $OUTS_ZO\",\n")
		fmt.Fprintf(&b, "    env = {%s},\n    labels = [\"l%d\", \"x\"],\n", strings.Join(env, ", "), rng.Intn(3))
		fmt.Fprintf(&b, "    provides = {\"zlang\": \":fg\", \"alang\": \":fg2\", \"mlang\": \":fg\"},\n")
		fmt.Fprintf(&b, "    pass_env = [\"C07_PASS\", \"C07_OTHER\"],\n    deps = [%s],\n    visibility = [\"PUBLIC\"],\n)\n", strings.Join(deps, ", "))
		// gen: depends on lib through its outputs, entry points, optional outs
		fmt.Fprintf(&b, "genrule(\n    name = \"gen\",\n    srcs = [\":lib\", \"a.txt\"],\n    outs = [\"%s_gen.out\"],\n", pkg)
		fmt.Fprintf(&b, "    cmd = {\"opt\": \"cat $SRCS > $OUT\", \"dbg\": \"cat $SRCS > $OUT; echo dbg >> $OUT\", \"cover\": \"cat $SRCS > $OUT\"},\n")
		fmt.Fprintf(&b, "    requires = [\"zlang\", \"alang\"],\n    visibility = [\"PUBLIC\"],\n)\n")
		fmt.Fprintf(&b, "filegroup(\n    name = \"fg\",\n    srcs = [\"b.txt\", \"c.txt\", \"a.txt\"],\n    visibility = [\"PUBLIC\"],\n)\n")
		fmt.Fprintf(&b, "filegroup(\n    name = \"fg2\",\n    srcs = [\"c.txt\"],\n    visibility = [\"PUBLIC\"],\n)\n")
		must2(os.WriteFile(filepath.Join(dir, pkg, "BUILD"), []byte(b.String()), 0o644))
		labels = append(labels, "//"+pkg+":lib", "//"+pkg+":gen", "//"+pkg+":fg", "//"+pkg+":fg2")
	}
	return labels
}

func must2(err error) {
	if err != nil {
		panic(err)
	}
}

// normalise sorts the per-target blocks of `plz hash --detailed` and drops timings.
func normalise(out string) string {
	var summary, blocks []string
	var cur []string
	flush := func() {
		if cur != nil {
			blocks = append(blocks, strings.Join(cur, "\n"))
			cur = nil
		}
	}
	for _, l := range strings.Split(out, "\n") {
		switch {
		case strings.HasPrefix(l, "Hashes calculated"), strings.TrimSpace(l) == "":
		case strings.HasPrefix(l, "  //") && cur == nil && !strings.HasSuffix(strings.TrimSpace(l), ":"):
			summary = append(summary, strings.TrimSpace(l))
		case strings.HasPrefix(l, "//") && strings.HasSuffix(l, ":"):
			flush()
			cur = []string{l}
		default:
			if cur != nil {
				cur = append(cur, l)
			} else {
				summary = append(summary, strings.TrimSpace(l))
			}
		}
	}
	flush()
	sort.Strings(summary)
	sort.Strings(blocks)
	return strings.Join(summary, "\n") + "\n" + strings.Join(blocks, "\n")
}

func runE2E(r *lib.Run, op string, seed uint64) {
	plz := os.Getenv("VERIF_PLZ")
	scratch := os.Getenv("VERIF_SCRATCH")
	if plz == "" || scratch == "" {
		r.Emit(op, "no-plz", false)
		return
	}
	if _, err := os.Stat(plz); err != nil {
		r.Emit(op, "no-plz", false)
		return
	}
	dir := filepath.Join(scratch, fmt.Sprintf("c07repo-%d", seed))
	os.RemoveAll(dir)
	must2(os.MkdirAll(dir, 0o755))
	defer os.RemoveAll(dir)
	labels := genRepo(dir, seed)
	home := filepath.Join(dir, ".home")
	must2(os.MkdirAll(home, 0o755))
	run := func(args ...string) (string, error) {
		cmd := exec.Command(plz, args...)
		cmd.Dir = dir
		cmd.Env = []string{"HOME=" + home, "XDG_CACHE_HOME=" + filepath.Join(home, ".cache"), "XDG_CONFIG_HOME=" + filepath.Join(home, ".config"),
			"PATH=/usr/local/bin:/usr/bin:/bin", "C07_PASS=pv", "C07_OTHER=ov", "LANG=C"}
		var stderr strings.Builder
		cmd.Stderr = &stderr
		out, err := cmd.Output()
		if err != nil {
			tail := stderr.String()
			if len(tail) > 600 {
				tail = tail[len(tail)-600:]
			}
			err = fmt.Errorf("%v: %s", err, strings.ReplaceAll(tail, "\n", " | "))
		}
		return string(out), err
	}
	rng := lib.NewRng(seed ^ 0x5eed)
	var first, firstArgs string
	variants := 0
	check := func(args []string) bool {
		out, err := run(args...)
		if err != nil {
			r.Emit(op, "plz-failed "+strings.Join(args, " ")+": "+err.Error(), false)
			return false
		}
		n := normalise(out)
		variants++
		if first == "" {
			first, firstArgs = n, strings.Join(args, " ")
			return true
		}
		if n != first {
			sum1, sum2 := sha1.Sum([]byte(first)), sha1.Sum([]byte(n))
			r.OracleFail("plz-hash-nondeterministic", op, fmt.Sprintf("`plz %s` (%s) and `plz %s` (%s) print different hashes; first differing line: %s",
				firstArgs, hex.EncodeToString(sum1[:4]), strings.Join(args, " "), hex.EncodeToString(sum2[:4]), firstDiff(first, n)))
			r.Emit(op, "differs", true)
			return false
		}
		return true
	}
	for rep := 0; rep < 2; rep++ {
		for _, p := range []string{"1", "16"} {
			ls := append([]string{}, labels...)
			lib.Shuffle(rng, ls)
			if !check(append([]string{"hash", "--detailed", "-n", p, "--plain_output"}, ls...)) {
				return
			}
		}
		if !check([]string{"hash", "--detailed", "-n", "16", "--plain_output", "//..."}) {
			return
		}
	}
	if strings.Count(first, "Rule:") != 2*len(labels) {
		r.Emit(op, fmt.Sprintf("unexpected-output %d rule lines for %d targets", strings.Count(first, "Rule:"), len(labels)), false)
		return
	}
	r.Count(fmt.Sprintf("e2e-invocations=%d", variants))
	r.Emit(op, fmt.Sprintf("ok %d", len(labels)), true)
}

func firstDiff(a, b string) string {
	la, lb := strings.Split(a, "\n"), strings.Split(b, "\n")
	for i := 0; i < len(la) && i < len(lb); i++ {
		if la[i] != lb[i] {
			return fmt.Sprintf("%q vs %q", la[i], lb[i])
		}
	}
	return fmt.Sprintf("%d vs %d lines", len(la), len(lb))
}
