// Package rulehash is the harness shared by C07 and C08 (cmd/c07, cmd/c08 are thin mains):
// build.RuleHash on in-memory targets against the Lean model of its pre-image.
//
// Ops (see enc/parse below for the target syntax; every byte string is hex):
//
//	rule <ctx+target tokens>                 impl: the real build.RuleHash (SHA-1)        model: sha1(ruleSer)
//	pre  <ctx+target tokens>                 impl: pre-image of the independent Go spec, after checking
//	                                               sha1(spec) == real RuleHash             model: ruleSer
//	pair <ctx tokens> ; <target> ; <target>  impl: same | ne | eq <class>  (real RuleHash of both targets)
//
// Direct oracle: two targets that differ in a build-relevant attribute and get the same real rule hash.
// `classify` (written against the pinned behaviour, independent of the extractor and of the Lean model) names
// the known root cause; a collision it cannot explain is reported as `unexplained-rulehash-collision`.
package rulehash

import (
	"bytes"
	"crypto/sha1"
	"encoding/hex"
	"fmt"
	"os"
	"sort"
	"strings"

	logging "gopkg.in/op/go-logging.v1"

	"github.com/thought-machine/please/src/build"
	"github.com/thought-machine/please/src/core"
	"verif/harness/lib"
)

// ---------------------------------------------------------------- the target as the model sees it

type Label struct{ Sub, Pkg, Name string }
type KV struct{ K, V string }
type Group struct {
	K  string
	Vs []string
}
type PGroup struct {
	K  string
	Ls []Label
}

var flagNames = []string{"isBinary", "isSubrepo", "sandbox", "needsTransitiveDeps", "outputIsComplete", "stamp",
	"isFilegroup", "isTextFile", "isRemoteFile", "isLocal", "srcListFiles", "exitOnError", "preBuild", "postBuild",
	"testSandbox", "testNoOutput", "isTest"}

type T struct {
	Label                                                    Label
	Deps, Visibility                                         []Label
	Hashes, Srcs, Outs, Licences, OptionalOuts, Labels       []string
	Secrets, Requires, OutputDirs, Data, TestOutputs, Tools  []string
	NamedSrcs, NamedOuts, NamedData, NamedTools, NamedSecret []Group
	Provides                                                 []PGroup
	EntryPoints, Env                                         []KV
	Command, FileContent, TestCommand, TestArgsPlaceholder   string
	Commands, TestCommands                                   *[]KV
	PassEnv, PassUnsafeEnv                                   *[]string
	Flags                                                    map[string]bool
}

type Ctx struct {
	Runtime          bool
	Config, Fallback string
	Environ          []KV
	HashCheckers     []string // [build] hashcheckers
}

func hx(s string) string { return lib.Hex(s) }

func encList(l []string) string {
	if len(l) == 0 {
		return "."
	}
	p := make([]string, len(l))
	for i, s := range l {
		p[i] = hx(s)
	}
	return strings.Join(p, ",")
}
func encLabel(l Label) string { return hx(l.Sub) + "|" + hx(l.Pkg) + "|" + hx(l.Name) }
func encLabels(l []Label, sep string) string {
	if len(l) == 0 {
		return "."
	}
	p := make([]string, len(l))
	for i, s := range l {
		p[i] = encLabel(s)
	}
	return strings.Join(p, sep)
}
func encKVs(l []KV) string {
	if len(l) == 0 {
		return "."
	}
	p := make([]string, len(l))
	for i, kv := range l {
		p[i] = hx(kv.K) + ":" + hx(kv.V)
	}
	return strings.Join(p, ",")
}
func encGroups(l []Group) string {
	if len(l) == 0 {
		return "."
	}
	p := make([]string, len(l))
	for i, g := range l {
		vs := "."
		if len(g.Vs) > 0 {
			q := make([]string, len(g.Vs))
			for j, v := range g.Vs {
				q[j] = hx(v)
			}
			vs = strings.Join(q, "/")
		}
		p[i] = hx(g.K) + ":" + vs
	}
	return strings.Join(p, ",")
}
func encPGroups(l []PGroup) string {
	if len(l) == 0 {
		return "."
	}
	p := make([]string, len(l))
	for i, g := range l {
		p[i] = hx(g.K) + ":" + encLabels(g.Ls, "/")
	}
	return strings.Join(p, ",")
}

// encT renders only non-default fields, in a fixed order.
func encT(t T) string {
	var f []string
	add := func(k, v string) { f = append(f, k+"="+v) }
	add("label", encLabel(t.Label))
	lab := func(k string, l []Label) {
		if len(l) > 0 {
			add(k, encLabels(l, ","))
		}
	}
	lst := func(k string, l []string) {
		if len(l) > 0 {
			add(k, encList(l))
		}
	}
	grp := func(k string, l []Group) {
		if len(l) > 0 {
			add(k, encGroups(l))
		}
	}
	kvs := func(k string, l []KV) {
		if len(l) > 0 {
			add(k, encKVs(l))
		}
	}
	str := func(k, s string) {
		if s != "" {
			add(k, hx(s))
		}
	}
	lab("deps", t.Deps)
	lab("visibility", t.Visibility)
	lst("hashes", t.Hashes)
	lst("srcs", t.Srcs)
	grp("namedSrcs", t.NamedSrcs)
	lst("outs", t.Outs)
	grp("namedOuts", t.NamedOuts)
	lst("licences", t.Licences)
	lst("optionalOuts", t.OptionalOuts)
	lst("labels", t.Labels)
	lst("secrets", t.Secrets)
	str("command", t.Command)
	if t.Commands != nil {
		add("commands", encKVs(*t.Commands))
	}
	lst("requires", t.Requires)
	if len(t.Provides) > 0 {
		add("provides", encPGroups(t.Provides))
	}
	if t.PassEnv != nil {
		add("passEnv", encList(*t.PassEnv))
	}
	lst("outputDirs", t.OutputDirs)
	kvs("entryPoints", t.EntryPoints)
	kvs("env", t.Env)
	str("fileContent", t.FileContent)
	lst("data", t.Data)
	grp("namedData", t.NamedData)
	lst("testOutputs", t.TestOutputs)
	str("testCommand", t.TestCommand)
	if t.TestCommands != nil {
		add("testCommands", encKVs(*t.TestCommands))
	}
	str("testArgsPlaceholder", t.TestArgsPlaceholder)
	lst("tools", t.Tools)
	grp("namedTools", t.NamedTools)
	grp("namedSecrets", t.NamedSecret)
	if t.PassUnsafeEnv != nil {
		add("passUnsafeEnv", encList(*t.PassUnsafeEnv))
	}
	var fl []string
	for _, n := range flagNames {
		if t.Flags[n] {
			fl = append(fl, n)
		}
	}
	if len(fl) > 0 {
		add("flags", strings.Join(fl, ","))
	}
	return strings.Join(f, " ")
}

func encCtx(c Ctx) string {
	var f []string
	if c.Runtime {
		f = append(f, "runtime=1")
	}
	f = append(f, "config="+hx(c.Config), "fallback="+hx(c.Fallback))
	if len(c.Environ) > 0 {
		f = append(f, "environ="+encKVs(c.Environ))
	}
	if len(c.HashCheckers) > 0 {
		f = append(f, "hashcheckers="+encList(c.HashCheckers))
	}
	return strings.Join(f, " ")
}

// ---- parsing (strict: anything unexpected is a bad op)

type perr struct{}

func must(ok bool) {
	if !ok {
		panic(perr{})
	}
}
func unhx(s string) string {
	if s == "-" {
		return ""
	}
	b, err := hex.DecodeString(s)
	must(err == nil && s == strings.ToLower(s) && s != "")
	return string(b)
}
func decList(s string) []string {
	if s == "." {
		return nil
	}
	var out []string
	for _, p := range strings.Split(s, ",") {
		out = append(out, unhx(p))
	}
	return out
}
func decLabel(s string) Label {
	p := strings.Split(s, "|")
	must(len(p) == 3)
	return Label{unhx(p[0]), unhx(p[1]), unhx(p[2])}
}
func decLabels(s, sep string) []Label {
	if s == "." {
		return nil
	}
	var out []Label
	for _, p := range strings.Split(s, sep) {
		out = append(out, decLabel(p))
	}
	return out
}
func decKVs(s string) []KV {
	if s == "." {
		return nil
	}
	var out []KV
	for _, p := range strings.Split(s, ",") {
		q := strings.Split(p, ":")
		must(len(q) == 2)
		out = append(out, KV{unhx(q[0]), unhx(q[1])})
	}
	return out
}
func decGroups(s string) []Group {
	if s == "." {
		return nil
	}
	var out []Group
	for _, p := range strings.Split(s, ",") {
		q := strings.Split(p, ":")
		must(len(q) == 2)
		g := Group{K: unhx(q[0])}
		if q[1] != "." {
			for _, v := range strings.Split(q[1], "/") {
				g.Vs = append(g.Vs, unhx(v))
			}
		}
		out = append(out, g)
	}
	return out
}
func decPGroups(s string) []PGroup {
	if s == "." {
		return nil
	}
	var out []PGroup
	for _, p := range strings.Split(s, ",") {
		q := strings.Split(p, ":")
		must(len(q) == 2)
		out = append(out, PGroup{unhx(q[0]), decLabels(q[1], "/")})
	}
	return out
}

func parseTokens(toks []string, c *Ctx, t *T) {
	seen := map[string]bool{}
	for _, tok := range toks {
		i := strings.Index(tok, "=")
		must(i > 0)
		k, v := tok[:i], tok[i+1:]
		must(!seen[k])
		seen[k] = true
		if c != nil {
			switch k {
			case "runtime":
				must(v == "1")
				c.Runtime = true
				continue
			case "config":
				c.Config = unhx(v)
				continue
			case "fallback":
				c.Fallback = unhx(v)
				continue
			case "environ":
				c.Environ = decKVs(v)
				continue
			case "hashcheckers":
				c.HashCheckers = decList(v)
				continue
			}
		}
		must(t != nil)
		switch k {
		case "label":
			t.Label = decLabel(v)
		case "deps":
			t.Deps = decLabels(v, ",")
		case "visibility":
			t.Visibility = decLabels(v, ",")
		case "hashes":
			t.Hashes = decList(v)
		case "srcs":
			t.Srcs = decList(v)
		case "namedSrcs":
			t.NamedSrcs = decGroups(v)
		case "outs":
			t.Outs = decList(v)
		case "namedOuts":
			t.NamedOuts = decGroups(v)
		case "licences":
			t.Licences = decList(v)
		case "optionalOuts":
			t.OptionalOuts = decList(v)
		case "labels":
			t.Labels = decList(v)
		case "secrets":
			t.Secrets = decList(v)
		case "command":
			t.Command = unhx(v)
		case "commands":
			x := decKVs(v)
			t.Commands = &x
		case "requires":
			t.Requires = decList(v)
		case "provides":
			t.Provides = decPGroups(v)
		case "passEnv":
			x := decList(v)
			t.PassEnv = &x
		case "outputDirs":
			t.OutputDirs = decList(v)
		case "entryPoints":
			t.EntryPoints = decKVs(v)
		case "env":
			t.Env = decKVs(v)
		case "fileContent":
			t.FileContent = unhx(v)
		case "data":
			t.Data = decList(v)
		case "namedData":
			t.NamedData = decGroups(v)
		case "testOutputs":
			t.TestOutputs = decList(v)
		case "testCommand":
			t.TestCommand = unhx(v)
		case "testCommands":
			x := decKVs(v)
			t.TestCommands = &x
		case "testArgsPlaceholder":
			t.TestArgsPlaceholder = unhx(v)
		case "tools":
			t.Tools = decList(v)
		case "namedTools":
			t.NamedTools = decGroups(v)
		case "namedSecrets":
			t.NamedSecret = decGroups(v)
		case "passUnsafeEnv":
			x := decList(v)
			t.PassUnsafeEnv = &x
		case "flags":
			t.Flags = map[string]bool{}
			for _, n := range strings.Split(v, ",") {
				ok := false
				for _, fn := range flagNames {
					ok = ok || fn == n
				}
				must(ok && !t.Flags[n])
				t.Flags[n] = true
			}
		default:
			must(false)
		}
	}
}

// ---- well-formedness: what the Add* API of BuildTarget guarantees (checked the same way by the driver)

func distinct(l []string) bool {
	m := map[string]bool{}
	for _, s := range l {
		if m[s] {
			return false
		}
		m[s] = true
	}
	return true
}
func strictlySorted(l []string) bool {
	for i, s := range l {
		if s == "" || strings.HasPrefix(s, "./") || (i > 0 && !(l[i-1] < s)) {
			return false
		}
	}
	return true
}
func groupKeys(l []Group) []string {
	var out []string
	for _, g := range l {
		out = append(out, g.K)
	}
	return out
}
func kvKeys(l []KV) []string {
	var out []string
	for _, g := range l {
		out = append(out, g.K)
	}
	return out
}
func envNameOK(s string) bool { return s != "" && !strings.ContainsAny(s, "=\x00") }

func wellFormed(c Ctx, t T) bool {
	ok := strictlySorted(t.Outs) && strictlySorted(t.OptionalOuts) && strictlySorted(t.TestOutputs) &&
		distinct(t.Srcs) && distinct(t.Secrets) && distinct(groupKeys(t.NamedSrcs)) && distinct(groupKeys(t.NamedOuts)) &&
		distinct(groupKeys(t.NamedData)) && distinct(groupKeys(t.NamedTools)) && distinct(groupKeys(t.NamedSecret)) &&
		distinct(kvKeys(t.EntryPoints)) && distinct(kvKeys(t.Env)) && distinct(kvKeys(c.Environ))
	for _, g := range t.NamedOuts {
		ok = ok && strictlySorted(g.Vs)
	}
	for _, g := range t.NamedSrcs {
		ok = ok && distinct(g.Vs)
	}
	for _, g := range t.NamedSecret {
		ok = ok && distinct(g.Vs)
	}
	var pk []string
	for _, g := range t.Provides {
		pk = append(pk, g.K)
	}
	ok = ok && distinct(pk)
	seen := map[Label]bool{}
	for _, d := range t.Deps {
		ok = ok && !seen[d] && d != t.Label
		seen[d] = true
	}
	if t.Commands != nil {
		ok = ok && distinct(kvKeys(*t.Commands))
	}
	if t.TestCommands != nil {
		ok = ok && distinct(kvKeys(*t.TestCommands))
	}
	if t.PassEnv != nil {
		for _, e := range *t.PassEnv {
			ok = ok && envNameOK(e)
		}
	}
	for _, kv := range c.Environ {
		ok = ok && envNameOK(kv.K) && !strings.Contains(kv.V, "\x00")
	}
	for _, l := range t.Licences {
		ok = ok && strings.TrimSpace(l) == l
	}
	ok = ok && distinct(t.Licences)
	// test fields need a test; entry points may not share a name with a named output (AddEntryPoint panics)
	if !t.Flags["isTest"] {
		ok = ok && len(t.TestOutputs) == 0 && t.TestCommand == "" && t.TestCommands == nil && t.TestArgsPlaceholder == "" && !t.Flags["testSandbox"] && !t.Flags["testNoOutput"]
	}
	for _, e := range t.EntryPoints {
		for _, g := range t.NamedOuts {
			ok = ok && e.K != g.K
		}
		if t.Flags["isFilegroup"] { // a filegroup's named outputs are its named sources
			for _, g := range t.NamedSrcs {
				ok = ok && e.K != g.K
			}
		}
	}
	// the zero label and "command-line targets" are not targets
	ok = ok && t.Label != (Label{}) && t.Label != (Label{Name: "_ORIGINAL"})
	return ok
}

// ---------------------------------------------------------------- the real code

type fn struct{}

func (fn) String() string               { return "<verif fn>" }
func (fn) Call(*core.BuildTarget) error { return nil }

type pfn struct{}

func (pfn) String() string                       { return "<verif fn>" }
func (pfn) Call(*core.BuildTarget, string) error { return nil }

func lab(l Label) core.BuildLabel {
	return core.BuildLabel{Subrepo: l.Sub, PackageName: l.Pkg, Name: l.Name}
}

func input(s string) core.BuildInput { return core.FileLabel{File: s, Package: "pkg"} }

// buildTarget constructs the real target through the BuildTarget API, with maps filled in the given order.
func buildTarget(t T) *core.BuildTarget {
	bt := core.NewBuildTarget(lab(t.Label))
	for _, d := range t.Deps {
		bt.AddDependency(lab(d))
	}
	for _, v := range t.Visibility {
		bt.Visibility = append(bt.Visibility, lab(v))
	}
	for _, h := range t.Hashes {
		bt.AddHash(h)
	}
	for _, s := range t.Srcs {
		bt.AddSource(input(s))
	}
	for _, g := range t.NamedSrcs {
		if len(g.Vs) == 0 {
			if bt.NamedSources == nil {
				bt.NamedSources = map[string][]core.BuildInput{}
			}
			bt.NamedSources[g.K] = nil
		}
		for _, s := range g.Vs {
			bt.AddNamedSource(g.K, input(s))
		}
	}
	for _, o := range t.Outs {
		bt.AddOutput(o)
	}
	for _, g := range t.NamedOuts {
		for _, o := range g.Vs {
			bt.AddNamedOutput(g.K, o)
		}
	}
	for _, l := range t.Licences {
		bt.AddLicence(l)
	}
	for _, o := range t.OptionalOuts {
		bt.AddOptionalOutput(o)
	}
	bt.Labels = append(bt.Labels, t.Labels...)
	for _, s := range t.Secrets {
		bt.AddSecret(s)
	}
	bt.IsBinary, bt.IsSubrepo, bt.Sandbox = t.Flags["isBinary"], t.Flags["isSubrepo"], t.Flags["sandbox"]
	bt.Command = t.Command
	if t.Commands != nil {
		bt.Commands = map[string]string{}
		for _, kv := range *t.Commands {
			bt.Commands[kv.K] = kv.V
		}
	}
	bt.NeedsTransitiveDependencies, bt.OutputIsComplete, bt.Stamp = t.Flags["needsTransitiveDeps"], t.Flags["outputIsComplete"], t.Flags["stamp"]
	bt.IsFilegroup, bt.IsTextFile, bt.IsRemoteFile = t.Flags["isFilegroup"], t.Flags["isTextFile"], t.Flags["isRemoteFile"]
	bt.Local, bt.SrcListFiles, bt.ExitOnError = t.Flags["isLocal"], t.Flags["srcListFiles"], t.Flags["exitOnError"]
	bt.Requires = append(bt.Requires, t.Requires...)
	for _, g := range t.Provides {
		ls := []core.BuildLabel{}
		for _, l := range g.Ls {
			ls = append(ls, lab(l))
		}
		bt.AddProvide(g.K, ls)
	}
	if t.Flags["preBuild"] {
		bt.PreBuildFunction = fn{}
	}
	if t.Flags["postBuild"] {
		bt.PostBuildFunction = pfn{}
	}
	if t.PassEnv != nil {
		pe := append([]string{}, *t.PassEnv...)
		bt.PassEnv = &pe
	}
	if t.PassUnsafeEnv != nil {
		pe := append([]string{}, *t.PassUnsafeEnv...)
		bt.PassUnsafeEnv = &pe
	}
	for _, o := range t.OutputDirs {
		bt.AddOutputDirectory(o)
	}
	for _, kv := range t.EntryPoints {
		bt.AddEntryPoint(kv.K, kv.V)
	}
	if len(t.Env) > 0 {
		bt.Env = map[string]string{}
		for _, kv := range t.Env {
			bt.Env[kv.K] = kv.V
		}
	}
	bt.FileContent = t.FileContent
	for _, d := range t.Data {
		bt.AddDatum(input(d))
	}
	for _, g := range t.NamedData {
		if len(g.Vs) == 0 {
			if bt.NamedData == nil {
				bt.NamedData = map[string][]core.BuildInput{}
			}
			bt.NamedData[g.K] = nil
		}
		for _, d := range g.Vs {
			bt.AddNamedDatum(g.K, input(d))
		}
	}
	if t.Flags["isTest"] {
		bt.Test = new(core.TestFields)
		for _, o := range t.TestOutputs {
			bt.AddTestOutput(o)
		}
		bt.Test.Sandbox = t.Flags["testSandbox"]
		bt.Test.NoOutput = t.Flags["testNoOutput"]
		bt.Test.Command = t.TestCommand
		if t.TestCommands != nil {
			bt.Test.Commands = map[string]string{}
			for _, kv := range *t.TestCommands {
				bt.Test.Commands[kv.K] = kv.V
			}
		}
		bt.Test.ArgsPlaceholder = t.TestArgsPlaceholder
	}
	tool := func(s string) core.BuildInput {
		if systemFileTools {
			return core.SystemFileLabel{Path: s}
		}
		return core.SystemPathLabel{Name: s, Path: []string{"/usr/bin"}}
	}
	for _, s := range t.Tools {
		bt.AddTool(tool(s))
	}
	for _, g := range t.NamedTools {
		for _, s := range g.Vs {
			bt.AddNamedTool(g.K, tool(s))
		}
	}
	for _, g := range t.NamedSecret {
		for _, s := range g.Vs {
			bt.AddNamedSecret(g.K, s)
		}
	}
	return bt
}

// readBack checks that the real target holds what the op says (guards the harness itself).
func readBack(t T, bt *core.BuildTarget) string {
	strs := func(in []core.BuildInput) []string {
		var out []string
		for _, s := range in {
			out = append(out, s.String())
		}
		return out
	}
	eq := func(a, b []string) bool {
		if len(a) != len(b) {
			return false
		}
		for i := range a {
			if a[i] != b[i] {
				return false
			}
		}
		return true
	}
	if !eq(strs(bt.Sources), t.Srcs) {
		return "srcs"
	}
	if !eq(bt.DeclaredOutputs(), t.Outs) || !eq(bt.OptionalOutputs, t.OptionalOuts) {
		return "outs"
	}
	if len(bt.DeclaredNamedOutputs()) != len(t.NamedOuts) || len(bt.NamedSources) != len(t.NamedSrcs) {
		return "named"
	}
	for _, g := range t.NamedOuts {
		if !eq(bt.DeclaredNamedOutputs()[g.K], g.Vs) {
			return "namedOuts"
		}
	}
	for _, g := range t.NamedSrcs {
		if !eq(strs(bt.NamedSources[g.K]), g.Vs) {
			return "namedSrcs"
		}
	}
	if !eq(bt.Secrets, t.Secrets) || !eq(bt.Licences, t.Licences) || !eq(bt.Labels, t.Labels) {
		return "secrets/licences/labels"
	}
	if len(bt.DeclaredDependencies()) != len(t.Deps) {
		return "deps"
	}
	return ""
}

var state *core.BuildState
var setVars = map[string]bool{}

func setEnviron(c Ctx, t T) {
	for k := range setVars {
		os.Unsetenv(k)
	}
	setVars = map[string]bool{}
	for _, kv := range c.Environ {
		os.Setenv(kv.K, kv.V)
		setVars[kv.K] = true
	}
}

func realHash(c Ctx, t T) ([]byte, string) {
	var out []byte
	safely := lib.Safely
	if os.Getenv("C08_DEBUG") != "" {
		safely = func(f func() string) string { return f() }
	}
	msg := safely(func() string {
		bt := buildTarget(t)
		if m := readBack(t, bt); m != "" {
			return "readback-mismatch " + m
		}
		state.Config.Build.Config, state.Config.Build.FallbackConfig = c.Config, c.Fallback
		state.Config.Build.HashCheckers = c.HashCheckers
		setEnviron(c, t)
		out = build.RuleHash(state, bt, c.Runtime, false)
		return ""
	})
	return out, msg
}

// ---------------------------------------------------------------- independent spec of the pinned pre-image

type chunk struct {
	item string // which write group of ruleHash the piece belongs to
	b    string
}

// What the real ruleHash does today, found by probing it (so that this transcription follows the two planned
// repairs without being edited in lock-step): are [build] hashcheckers written for targets that declare hashes, and
// are the names of named source groups written?
var specHashCheckers, specNamedSrcNames, specTestNoOutput bool

func probeSpec() {
	h := func(c Ctx, t T) string {
		x, _ := realHash(c, t)
		return string(x)
	}
	base := T{Label: Label{Pkg: "probe", Name: "p"}, Hashes: []string{"h"}, Flags: map[string]bool{}}
	specHashCheckers = h(Ctx{Config: "opt", Fallback: "opt", HashCheckers: []string{"sha1"}}, base) !=
		h(Ctx{Config: "opt", Fallback: "opt", HashCheckers: []string{"sha256"}}, base)
	a := T{Label: Label{Pkg: "probe", Name: "p"}, NamedSrcs: []Group{{"a", []string{"x"}}}, Flags: map[string]bool{}}
	b := T{Label: Label{Pkg: "probe", Name: "p"}, NamedSrcs: []Group{{"b", []string{"x"}}}, Flags: map[string]bool{}}
	c := Ctx{Config: "opt", Fallback: "opt"}
	specNamedSrcNames = h(c, a) != h(c, b)
	rt := Ctx{Runtime: true, Config: "opt", Fallback: "opt"}
	t1 := T{Label: Label{Pkg: "probe", Name: "p"}, Flags: map[string]bool{"isTest": true}}
	t2 := T{Label: Label{Pkg: "probe", Name: "p"}, Flags: map[string]bool{"isTest": true, "testNoOutput": true}}
	specTestNoOutput = h(rt, t1) != h(rt, t2)
}

func getCommand(c Ctx, commands *[]KV, single string) string {
	if commands == nil {
		return single
	}
	m := map[string]string{}
	for _, kv := range *commands {
		m[kv.K] = kv.V
	}
	if v, ok := m[c.Config]; ok {
		return v
	}
	if v, ok := m[c.Fallback]; ok {
		return v
	}
	hk, hv := "", ""
	for k, v := range m {
		if k > hk {
			hk, hv = k, v
		}
	}
	return hv
}

func lstr(l Label) string {
	if l == (Label{}) {
		return ""
	}
	if l == (Label{Name: "_ORIGINAL"}) {
		return "command-line targets"
	}
	s := "//" + l.Pkg
	if l.Sub != "" {
		s = "///" + l.Sub + s
	}
	if l.Name == "..." {
		if l.Pkg == "" {
			return s + "..."
		}
		return s + "/..."
	}
	return s + ":" + l.Name
}

func lless(a, b Label) bool {
	if a.Sub != b.Sub {
		return a.Sub < b.Sub
	}
	if a.Pkg != b.Pkg {
		return a.Pkg < b.Pkg
	}
	return a.Name < b.Name
}

func sortedGroups(l []Group) []Group {
	out := append([]Group{}, l...)
	sort.Slice(out, func(i, j int) bool { return out[i].K < out[j].K })
	return out
}
func sortedKVs(l []KV) []KV {
	out := append([]KV{}, l...)
	sort.Slice(out, func(i, j int) bool { return out[i].K < out[j].K })
	return out
}

const (
	kvItemEntryPoints = "entryPoints"
	kvItemEnv         = "env"
)

// specChunks: every Write of the pinned ruleHash, tagged with the index of the statement group it belongs to.
func specChunks(c Ctx, t T) []chunk {
	var out []chunk
	grp := ""
	w := func(s string) { out = append(out, chunk{grp, s}) }
	ws := func(name string, l []string) {
		grp = name
		for _, s := range l {
			w(s)
		}
	}
	b := func(name string) {
		grp = name
		if t.Flags[name] {
			w("\x02")
		} else {
			w("\x01")
		}
	}
	ob := func(name string) {
		grp = name
		if t.Flags[name] {
			w("\x02")
		}
	}
	all := func(un []string, named []Group) []string {
		r := append([]string{}, un...)
		for _, g := range sortedGroups(named) {
			r = append(r, g.Vs...)
		}
		return r
	}
	groups := func(name string, gs []Group) {
		grp = name
		for _, g := range sortedGroups(gs) {
			w(g.K)
			for _, o := range g.Vs {
				w(o)
			}
		}
	}
	ws("label", []string{lstr(t.Label)})
	deps := append([]Label{}, t.Deps...)
	sort.Slice(deps, func(i, j int) bool { return lless(deps[i], deps[j]) })
	grp = "deps"
	for _, d := range deps {
		w(lstr(d))
	}
	grp = "visibility"
	for _, v := range t.Visibility {
		w(lstr(v))
	}
	ws("hashes", t.Hashes)
	if specHashCheckers && len(t.Hashes) > 0 {
		ws("hashCheckers", c.HashCheckers)
	}
	if specNamedSrcNames {
		ws("srcs", t.Srcs)
		groups("namedSrcs", t.NamedSrcs)
	} else {
		ws("sources", all(t.Srcs, t.NamedSrcs))
	}
	ws("outs", t.Outs)
	groups("namedOuts", t.NamedOuts)
	ws("licences", t.Licences)
	ws("optionalOuts", t.OptionalOuts)
	ws("labels", t.Labels)
	ws("secrets", t.Secrets)
	b("isBinary")
	ob("isSubrepo")
	ob("sandbox")
	ws("command", []string{getCommand(c, t.Commands, t.Command)})
	for _, f := range []string{"needsTransitiveDeps", "outputIsComplete", "stamp", "isFilegroup", "isTextFile", "isRemoteFile", "isLocal", "srcListFiles"} {
		b(f)
	}
	ob("exitOnError")
	ws("requires", t.Requires)
	ps := append([]PGroup{}, t.Provides...)
	sort.Slice(ps, func(i, j int) bool { return ps[i].K < ps[j].K })
	grp = "provides"
	for _, g := range ps {
		w(g.K)
		for _, l := range g.Ls {
			w(lstr(l))
		}
	}
	b("preBuild")
	b("postBuild")
	grp = "passEnv"
	if t.PassEnv != nil {
		env := map[string]string{}
		for _, kv := range c.Environ {
			env[kv.K] = kv.V
		}
		for _, e := range *t.PassEnv {
			w(e)
			w("=")
			w(env[e])
		}
	}
	ws("outputDirs", t.OutputDirs)
	// hashMap writes key+"="+value in one Write; the three logical pieces are kept apart here so that the
	// classifier can tell "same pieces" from "same bytes"
	for _, m := range []struct {
		name string
		kvs  []KV
	}{{kvItemEntryPoints, t.EntryPoints}, {kvItemEnv, t.Env}} {
		grp = m.name
		for _, kv := range sortedKVs(m.kvs) {
			w(kv.K)
			w("=")
			w(kv.V)
		}
	}
	ws("fileContent", []string{t.FileContent})
	if c.Runtime {
		ws("data", all(t.Data, t.NamedData))
		if t.Flags["isTest"] {
			ws("testOutputs", t.TestOutputs)
			ob("testSandbox")
			if specTestNoOutput {
				b("testNoOutput")
			}
			ws("testCommand", []string{getCommand(c, t.TestCommands, t.TestCommand)})
			ws("testArgsPlaceholder", []string{t.TestArgsPlaceholder})
		}
	}
	return out
}

func concat(cs []chunk) string {
	var b strings.Builder
	for _, c := range cs {
		b.WriteString(c.b)
	}
	return b.String()
}

// relevantKey: canonical rendering of the attributes the property lists.
func relevantKey(c Ctx, t T) string {
	r := T{Label: Label{Name: "x"}}
	r.Command = getCommand(c, t.Commands, t.Command)
	r.Srcs, r.NamedSrcs, r.Outs, r.NamedOuts, r.OptionalOuts = t.Srcs, sortedGroups(t.NamedSrcs), t.Outs, sortedGroups(t.NamedOuts), t.OptionalOuts
	r.Deps = append([]Label{}, t.Deps...)
	sort.Slice(r.Deps, func(i, j int) bool { return lless(r.Deps[i], r.Deps[j]) })
	r.Tools, r.NamedTools, r.Env = t.Tools, sortedGroups(t.NamedTools), sortedKVs(t.Env)
	r.Labels, r.Secrets, r.NamedSecret = t.Labels, t.Secrets, sortedGroups(t.NamedSecret)
	r.Flags = map[string]bool{"isBinary": t.Flags["isBinary"], "sandbox": t.Flags["sandbox"]}
	r.OutputDirs, r.EntryPoints, r.FileContent, r.Requires = t.OutputDirs, sortedKVs(t.EntryPoints), t.FileContent, t.Requires
	r.Provides = append([]PGroup{}, t.Provides...)
	sort.Slice(r.Provides, func(i, j int) bool { return r.Provides[i].K < r.Provides[j].K })
	s := encT(r)
	if t.PassEnv != nil {
		env := map[string]string{}
		for _, kv := range c.Environ {
			env[kv.K] = kv.V
		}
		var pe []KV
		for _, e := range *t.PassEnv {
			pe = append(pe, KV{e, env[e]})
		}
		s += " passEnvValues=" + encKVs(pe)
	}
	return s
}

// classify: root cause of an equal rule hash for two targets with different relevant attributes ("" = none known).
func classify(c, c2 Ctx, a, b T) string {
	ca, cb := specChunks(c, a), specChunks(c2, b)
	if concat(ca) != concat(cb) {
		return "" // the pinned pre-images differ: nothing known explains an equal hash
	}
	same := len(ca) == len(cb)
	sameButKV := true
	filter := func(cs []chunk) []chunk {
		var out []chunk
		for _, x := range cs {
			if x.item != kvItemEntryPoints && x.item != kvItemEnv {
				out = append(out, x)
			}
		}
		return out
	}
	if same {
		for i := range ca {
			same = same && ca[i] == cb[i]
		}
	}
	fa, fb := filter(ca), filter(cb)
	sameButKV = len(fa) == len(fb)
	if sameButKV {
		for i := range fa {
			sameButKV = sameButKV && fa[i] == fb[i]
		}
	}
	switch {
	case !same && sameButKV:
		return "hashmap-kv-unframed"
	case !same:
		return "rulehash-writes-unframed"
	}
	// identical writes: the difference is in something ruleHash never writes
	g := func(l []Group) string { return encGroups(sortedGroups(l)) }
	switch {
	case encList(a.Tools) != encList(b.Tools) || g(a.NamedTools) != g(b.NamedTools):
		return "rulehash-omits-tools"
	case g(a.NamedSrcs) != g(b.NamedSrcs):
		return "rulehash-omits-named-src-names"
	case g(a.NamedSecret) != g(b.NamedSecret):
		return "rulehash-omits-named-secrets"
	}
	return ""
}

// ---------------------------------------------------------------- ops

func runOp(r *lib.Run, op string) {
	defer func() {
		if e := recover(); e != nil {
			if _, ok := e.(perr); ok {
				r.Emit(op, "bad-op", false)
				return
			}
			panic(e)
		}
	}()
	f := strings.Split(op, " ")
	switch f[0] {
	case "env", "cfghash", "hermetic", "exec", "userenv":
		runC10(r, op, f)
	case "e2e08":
		must(len(f) == 2)
		var seed uint64
		_, err := fmt.Sscanf(f[1], "%d", &seed)
		must(err == nil && fmt.Sprint(seed) == f[1])
		runE2E08(r, op, seed)
	case "e2e10":
		must(len(f) == 2)
		var seed uint64
		_, err := fmt.Sscanf(f[1], "%d", &seed)
		must(err == nil && fmt.Sprint(seed) == f[1])
		runE2E10(r, op, seed)
	case "e2ecfg":
		must(len(f) == 5)
		var seed uint64
		_, err := fmt.Sscanf(f[1], "%d", &seed)
		must(err == nil && fmt.Sprint(seed) == f[1])
		nd, slow, joint, ok := cfgShape(f[2:])
		must(ok)
		runE2ECfg(r, op, seed, nd, slow, joint)
	case "e2e":
		must(len(f) == 2)
		var seed uint64
		_, err := fmt.Sscanf(f[1], "%d", &seed)
		must(err == nil && fmt.Sprint(seed) == f[1])
		runE2E(r, op, seed)
	case "perm", "rehash":
		var c Ctx
		var t T
		parseTokens(f[1:], &c, &t)
		must(wellFormed(c, t))
		if f[0] == "perm" {
			runPerm(r, op, c, t)
		} else {
			runRehash(r, op, c, t)
		}
	case "rule", "pre":
		var c Ctx
		var t T
		parseTokens(f[1:], &c, &t)
		must(wellFormed(c, t))
		h, msg := realHash(c, t)
		if msg != "" {
			r.Emit(op, msg, false)
			return
		}
		nt := len(t.Srcs)+len(t.Outs)+len(t.Env)+len(t.NamedOuts)+len(t.Labels) >= 2
		if f[0] == "rule" {
			r.Emit(op, hex.EncodeToString(h), nt)
			return
		}
		pre := concat(specChunks(c, t))
		sum := sha1.Sum([]byte(pre))
		if !bytes.Equal(sum[:], h) {
			r.Emit(op, "spec-differs-from-real-hash "+hex.EncodeToString(h), nt)
			return
		}
		r.Emit(op, hx(pre), nt)
	case "pair":
		// pair <ctx> ; <target> ; <target>            (one context)
		// pair <ctx> ; <target> ; <ctx> ; <target>    (the second target under another caller environment)
		parts := strings.Split(strings.Join(f[1:], " "), " ; ")
		must(len(parts) == 3 || len(parts) == 4)
		var c, c2 Ctx
		var a, b T
		parseTokens(strings.Fields(parts[0]), &c, nil)
		parseTokens(strings.Fields(parts[1]), nil, &a)
		c2 = c
		if len(parts) == 4 {
			c2 = Ctx{}
			parseTokens(strings.Fields(parts[2]), &c2, nil)
			must(c2.Runtime == c.Runtime && c2.Config == c.Config && c2.Fallback == c.Fallback)
		}
		parseTokens(strings.Fields(parts[len(parts)-1]), nil, &b)
		must(wellFormed(c, a) && wellFormed(c2, b))
		if relevantKey(c, a) == relevantKey(c2, b) {
			r.Emit(op, "same", false)
			r.Count("pair-same")
			return
		}
		ha, m1 := realHash(c, a)
		hb, m2 := realHash(c2, b)
		if m1 != "" || m2 != "" {
			r.Emit(op, "error "+m1+m2, false)
			return
		}
		if !bytes.Equal(ha, hb) {
			r.Emit(op, "ne", true)
			r.Count("pair-ne")
			return
		}
		cls := classify(c, c2, a, b)
		if cls == "" {
			cls = "unexplained-rulehash-collision"
		}
		r.OracleFail(cls, op, fmt.Sprintf("targets differ in a build-relevant attribute, same rule hash %x", ha))
		r.Count("pair-eq:" + cls)
		r.Emit(op, "eq "+cls, true)
	default:
		r.Emit(op, "bad-op", false)
	}
}

// ---------------------------------------------------------------- generators

var alpha = []string{"a", "b", "ab", "bc", "c", "a=b", "=", "b=c", "x", "xy", "", "//p:a", "\x01", "\x02", "a b", "é", "A", "B", "xB=y", "yB=", "/", ":", "..."}
var nonEmpty = []string{"a", "b", "ab", "bc", "c", "a=b", "=", "b=c", "x", "xy", "\x01", "\x02", "a b", "é", "A", "B", "a/b", "abc"}
var envNames = []string{"A", "B", "AB", "PATH_X", "a", "é"}

func pick(r *lib.Run, l []string) string { return lib.Pick(r.Rng, l) }

func randList(r *lib.Run, l []string, max int) []string {
	n := r.Rng.Intn(max + 1)
	var out []string
	for i := 0; i < n; i++ {
		out = append(out, pick(r, l))
	}
	return out
}

func dedupe(l []string) []string {
	m := map[string]bool{}
	var out []string
	for _, s := range l {
		if !m[s] {
			m[s] = true
			out = append(out, s)
		}
	}
	return out
}

func sortedSet(l []string) []string {
	out := dedupe(l)
	sort.Strings(out)
	var o2 []string
	for _, s := range out {
		if s != "" && !strings.HasPrefix(s, "./") {
			o2 = append(o2, s)
		}
	}
	return o2
}

func randLabel(r *lib.Run) Label {
	l := Label{Pkg: pick(r, []string{"", "p", "p/q", "a", "ab"}), Name: pick(r, []string{"a", "b", "ab", "n", "...", "a_b"})}
	if r.Rng.Chance(15) {
		l.Sub = pick(r, []string{"s", "sub"})
	}
	return l
}

func randLabels(r *lib.Run, max int, not Label) []Label {
	n := r.Rng.Intn(max + 1)
	seen := map[Label]bool{not: true}
	var out []Label
	for i := 0; i < n; i++ {
		l := randLabel(r)
		if !seen[l] {
			seen[l] = true
			out = append(out, l)
		}
	}
	return out
}

func randGroups(r *lib.Run, max int, sorted bool) []Group {
	var out []Group
	seen := map[string]bool{}
	for i := r.Rng.Intn(max + 1); i > 0; i-- {
		k := pick(r, nonEmpty)
		if seen[k] {
			continue
		}
		seen[k] = true
		vs := dedupe(randList(r, nonEmpty, 3))
		if sorted {
			vs = sortedSet(vs)
			if len(vs) == 0 {
				vs = []string{"o"}
			}
		}
		out = append(out, Group{k, vs})
	}
	return out
}

func randKVs(r *lib.Run, keys []string, max int) []KV {
	var out []KV
	seen := map[string]bool{}
	for i := r.Rng.Intn(max + 1); i > 0; i-- {
		k := pick(r, keys)
		if seen[k] {
			continue
		}
		seen[k] = true
		out = append(out, KV{k, pick(r, alpha)})
	}
	return out
}

func randTarget(r *lib.Run, c Ctx) T {
	t := T{Label: Label{Pkg: pick(r, []string{"pkg", "p", ""}), Name: pick(r, []string{"t", "target", "a"})}, Flags: map[string]bool{}}
	some := func(p int) bool { return r.Rng.Chance(p) }
	if some(50) {
		t.Deps = randLabels(r, 4, t.Label)
	}
	if some(30) {
		t.Visibility = randLabels(r, 2, Label{})
	}
	if some(20) {
		t.Hashes = randList(r, nonEmpty, 2)
	}
	if some(70) {
		t.Srcs = dedupe(randList(r, alpha, 4))
	}
	if some(30) {
		t.NamedSrcs = randGroups(r, 3, false)
	}
	if some(60) {
		t.Outs = sortedSet(randList(r, nonEmpty, 4))
	}
	if some(30) {
		t.NamedOuts = randGroups(r, 3, true)
	}
	if some(15) {
		t.Licences = dedupe(randList(r, []string{"MIT", "a", "b", "ab"}, 2))
	}
	if some(30) {
		t.OptionalOuts = sortedSet(randList(r, nonEmpty, 3))
	}
	if some(40) {
		t.Labels = randList(r, alpha, 3)
	}
	if some(30) {
		t.Secrets = dedupe(randList(r, alpha, 3))
	}
	for _, n := range flagNames {
		if n != "isTest" && n != "testSandbox" && some(20) {
			t.Flags[n] = true
		}
	}
	t.Command = pick(r, alpha)
	if some(35) { // per-config commands: with / without an entry for the active and the fallback config
		kv := randKVs(r, []string{"opt", "dbg", "cover", "zz", ""}, 3)
		t.Commands = &kv
	}
	if some(30) {
		t.Requires = randList(r, nonEmpty, 3)
	}
	if some(30) {
		seen := map[string]bool{}
		for i := r.Rng.Intn(3); i >= 0; i-- {
			k := pick(r, nonEmpty)
			if !seen[k] {
				seen[k] = true
				t.Provides = append(t.Provides, PGroup{k, randLabels(r, 2, Label{})})
			}
		}
	}
	if some(35) {
		pe := randList(r, envNames, 3)
		t.PassEnv = &pe
	}
	if some(10) {
		pe := randList(r, envNames, 2)
		t.PassUnsafeEnv = &pe
	}
	if some(25) {
		t.OutputDirs = randList(r, nonEmpty, 2)
	}
	if some(30) {
		t.EntryPoints = randKVs(r, []string{"ep", "main", "e=p", "a"}, 2)
		for _, g := range t.NamedOuts { // AddEntryPoint refuses a name that is also a named output
			for i := 0; i < len(t.EntryPoints); i++ {
				if t.EntryPoints[i].K == g.K {
					t.EntryPoints = append(t.EntryPoints[:i], t.EntryPoints[i+1:]...)
					i--
				}
			}
		}
	}
	if some(45) {
		t.Env = randKVs(r, alpha[:10], 4)
	}
	if some(30) {
		t.FileContent = pick(r, alpha)
	}
	if some(25) {
		t.Data = randList(r, alpha, 3)
	}
	if some(10) {
		t.NamedData = randGroups(r, 2, false)
	}
	if some(25) {
		t.Flags["isTest"] = true
		t.TestOutputs = sortedSet(randList(r, nonEmpty, 2))
		t.Flags["testSandbox"] = some(30)
		t.Flags["testNoOutput"] = some(30)
		t.TestCommand = pick(r, alpha)
		t.TestArgsPlaceholder = pick(r, []string{"", "{}", "a"})
	}
	if some(25) {
		t.Tools = randList(r, nonEmpty, 2)
	}
	if some(15) {
		t.NamedTools = randGroups(r, 2, false)
	}
	if some(10) {
		t.NamedSecret = randGroups(r, 2, false)
	}
	return t
}

func randCtx(r *lib.Run) Ctx {
	c := Ctx{Config: "opt", Fallback: "opt"}
	if r.Rng.Chance(40) { // plz -c dbg / cover, [build] config, [build] fallbackconfig
		c.Config = pick(r, []string{"dbg", "cover", "opt", "prof"})
	}
	if r.Rng.Chance(25) {
		c.Fallback = pick(r, []string{"dbg", "opt", "zz"})
	}
	if r.Rng.Chance(30) {
		c.Runtime = true
	}
	if r.Rng.Chance(60) {
		c.HashCheckers = dedupe(randList(r, []string{"sha1", "sha256", "blake3", "xxhash", "crc32"}, 3))
	}
	seen := map[string]bool{}
	for i := r.Rng.Intn(4); i > 0; i-- {
		k := pick(r, envNames)
		if !seen[k] {
			seen[k] = true
			c.Environ = append(c.Environ, KV{k, pick(r, alpha)})
		}
	}
	return c
}

func cloneT(t T) T {
	var u T
	var c Ctx
	parseTokens(strings.Fields(encT(t)), &c, &u)
	if u.Flags == nil {
		u.Flags = map[string]bool{}
	}
	return u
}

// mutations aimed at the known ambiguity classes and at plain single-attribute changes
func mutate(r *lib.Run, c Ctx, t T) (T, Ctx, string) {
	u := cloneT(t)
	splitMerge := func(l []string) ([]string, bool) {
		if len(l) >= 2 && r.Rng.Bool() {
			i := r.Rng.Intn(len(l) - 1)
			out := append(append(append([]string{}, l[:i]...), l[i]+l[i+1]), l[i+2:]...)
			return out, true
		}
		for i, s := range l {
			if len(s) >= 2 {
				out := append(append(append([]string{}, l[:i]...), s[:1], s[1:]), l[i+1:]...)
				return out, true
			}
		}
		return l, false
	}
	switch r.Rng.Intn(18) {
	case 16: // move one byte from an env value into its key (distinguished today thanks to the "=")
		for i, kv := range u.Env {
			if len(kv.V) >= 1 && !strings.Contains(kv.V[:1], "=") {
				u.Env[i] = KV{kv.K + kv.V[:1], kv.V[1:]}
				if distinct(kvKeys(u.Env)) {
					return u, c, "env-kv-shift"
				}
				u.Env[i] = kv
			}
		}
	case 17: // secrets / requires / output_dirs: change one entry in place
		switch {
		case len(u.Secrets) > 0:
			u.Secrets[0] += "!"
			if distinct(u.Secrets) {
				return u, c, "secret-edit"
			}
		case len(u.OutputDirs) > 0:
			u.OutputDirs[0] += "!"
			return u, c, "output-dir-edit"
		case len(u.EntryPoints) > 0:
			u.EntryPoints[0].V += "!"
			return u, c, "entry-point-edit"
		}
	case 0:
		if l, ok := splitMerge(u.Srcs); ok && distinct(l) {
			u.Srcs = l
			return u, c, "srcs-split-merge"
		}
	case 1:
		if l, ok := splitMerge(u.Labels); ok {
			u.Labels = l
			return u, c, "labels-split-merge"
		}
	case 2: // move the last out to optional outs (collides when nothing is written in between)
		if n := len(u.Outs); n > 0 {
			o := u.Outs[n-1]
			u.OptionalOuts = sortedSet(append(u.OptionalOuts, o))
			u.Outs = u.Outs[:n-1]
			return u, c, "out-to-optional"
		}
	case 3: // label <-> secret
		if n := len(u.Labels); n > 0 && len(u.Secrets) == 0 {
			u.Secrets = []string{u.Labels[n-1]}
			u.Labels = u.Labels[:n-1]
			return u, c, "label-to-secret"
		}
	case 4: // shift the '=' inside an env entry
		for i, kv := range u.Env {
			if j := strings.Index(kv.V, "="); j >= 0 {
				nk := kv.K + "=" + kv.V[:j]
				if !strings.Contains(strings.Join(kvKeys(u.Env), "\x00"), nk) {
					u.Env[i] = KV{nk, kv.V[j+1:]}
					return u, c, "env-shift-eq"
				}
			}
		}
		u.Env = append(u.Env, KV{"zk", "v=w"})
		return u, c, "env-add"
	case 5: // rename a named source group
		if len(u.NamedSrcs) > 0 {
			u.NamedSrcs[0].K += "z"
			if distinct(groupKeys(u.NamedSrcs)) {
				return u, c, "named-srcs-rename"
			}
		} else if len(u.Srcs) > 0 { // unnamed -> named
			u.NamedSrcs = []Group{{"g", u.Srcs}}
			u.Srcs = nil
			return u, c, "srcs-to-named"
		}
	case 6: // tools
		u.Tools = append(u.Tools, "newtool")
		return u, c, "tools-add"
	case 7:
		if len(u.NamedTools) > 0 {
			u.NamedTools[0].K += "z"
			if distinct(groupKeys(u.NamedTools)) {
				return u, c, "named-tools-rename"
			}
		}
		u.NamedSecret = append(u.NamedSecret, Group{"sk", []string{"/secret"}})
		if distinct(groupKeys(u.NamedSecret)) {
			return u, c, "named-secrets-add"
		}
	case 8: // sandbox <-> subrepo
		if u.Flags["sandbox"] != u.Flags["isSubrepo"] {
			u.Flags["sandbox"], u.Flags["isSubrepo"] = u.Flags["isSubrepo"], u.Flags["sandbox"]
			return u, c, "sandbox-subrepo-swap"
		}
		u.Flags["sandbox"] = !u.Flags["sandbox"]
		return u, c, "sandbox-flip"
	case 9: // pass_env values: A=x, B=y  ->  A = x+"B="+y, B = "" under pass_env = [A, B] (same bytes, other values)
		pe := []string{"A", "B"}
		u.PassEnv = &pe
		env := map[string]string{}
		for _, kv := range c.Environ {
			env[kv.K] = kv.V
		}
		c2 := c
		c2.Environ = nil
		for _, kv := range c.Environ {
			if kv.K != "A" && kv.K != "B" {
				c2.Environ = append(c2.Environ, kv)
			}
		}
		if r.Rng.Chance(60) {
			c2.Environ = append(c2.Environ, KV{"A", env["A"] + "B=" + env["B"]}, KV{"B", ""})
			return u, c2, "pass-env-values-shift"
		}
		c2.Environ = append(c2.Environ, KV{"A", env["A"] + "!"}, KV{"B", env["B"]})
		return u, c2, "pass-env-value-edit"
	case 10: // named outs: shift a byte from the first member into the group name
		for i, g := range u.NamedOuts {
			if len(g.Vs) > 0 && len(g.Vs[0]) >= 2 {
				nk := g.K + g.Vs[0][:1]
				vs := append([]string{g.Vs[0][1:]}, g.Vs[1:]...)
				if strictlySorted(vs) {
					u.NamedOuts[i] = Group{nk, vs}
					if distinct(groupKeys(u.NamedOuts)) {
						ok := true
						for _, e := range u.EntryPoints {
							ok = ok && e.K != nk
						}
						if ok {
							return u, c, "named-outs-shift"
						}
					}
				}
			}
		}
	case 11: // plain edits that must change the hash: the command that will actually run
		if u.Commands == nil {
			u.Command += "!"
			return u, c, "command-edit"
		}
		// GetCommand: the entry for the active config, else for the fallback config, else the greatest key
		idx, best := -1, ""
		for _, want := range []string{c.Config, c.Fallback} {
			for i, kv := range *u.Commands {
				if idx < 0 && kv.K == want {
					idx = i
				}
			}
		}
		if idx < 0 {
			for i, kv := range *u.Commands {
				if kv.K > best {
					idx, best = i, kv.K
				}
			}
		}
		if idx >= 0 {
			(*u.Commands)[idx].V += "!"
			return u, c, "commands-edit-effective"
		}
	case 12:
		u.FileContent += "!"
		return u, c, "content-edit"
	case 13:
		u.Flags["isBinary"] = !u.Flags["isBinary"]
		return u, c, "binary-flip"
	case 14:
		u.Outs = sortedSet(append(u.Outs, "zz-new-out"))
		return u, c, "out-add"
	case 15:
		if len(u.Deps) > 0 {
			u.Deps = u.Deps[1:]
			return u, c, "dep-remove"
		}
		u.Deps = append(u.Deps, Label{Pkg: "newdep", Name: "d"})
		return u, c, "dep-add"
	}
	return u, c, "noop"
}

// Main runs the harness for one property ("C08": collisions; "C07": order independence).
func Main(prop string) {
	if prop == "C07" {
		mainC07()
		return
	}
	if prop == "C10" {
		mainC10()
		return
	}
	logging.SetLevel(logging.ERROR, "plz")
	r := lib.Start()
	defer r.Finish()
	r.Rule = "rule/pre: at least two entries among srcs/outs/env/named outs/labels; pair: the targets differ in a listed attribute; distinct by op line"
	state = core.NewDefaultBuildState()
	probeSpec()
	if ops := r.ReplayOps(); ops != nil {
		for _, op := range ops {
			runOp(r, op)
		}
		return
	}
	for i := 0; i < r.N(1500, 30000); i++ {
		c := randCtx(r)
		t := randTarget(r, c)
		if !wellFormed(c, t) {
			r.Count("gen-rejected")
			continue
		}
		kind := "rule"
		if r.Rng.Chance(40) {
			kind = "pre"
		}
		runOp(r, kind+" "+encCtx(c)+" "+encT(t))
		for k := 0; k < 2; k++ {
			u, c2, name := mutate(r, c, t)
			for try := 0; try < 8 && name == "noop"; try++ {
				u, c2, name = mutate(r, c, t)
			}
			if name == "noop" {
				u.Requires = append(u.Requires, "r!")
				name = "requires-add"
			}
			if !wellFormed(c2, u) {
				r.Count("mut-rejected")
				continue
			}
			r.Count("mutation:" + name)
			if name == "pass-env-values-shift" || name == "pass-env-value-edit" {
				// same target definition (with pass_env = [A, B]) under two caller environments
				runOp(r, "pair "+encCtx(c)+" ; "+encT(u)+" ; "+encCtx(c2)+" ; "+encT(u))
			} else {
				runOp(r, "pair "+encCtx(c)+" ; "+encT(t)+" ; "+encT(u))
			}
		}
	}
	// end to end: pre-build functions (the memoised rule hash must be the one computed after they ran)
	for i := 0; i < r.N(2, 10); i++ {
		runOp(r, fmt.Sprintf("e2e08 %d", r.Rng.U64()%100000))
	}
	for _, op := range []string{
		"e2e08 x",
		"rule label=-|70|74 outs=62,61",            // outs not sorted
		"rule label=-|70|74 srcs=61,61",            // duplicate source
		"rule label=-|70|74 env=61:62,61:63",       // duplicate key
		"rule label=-|70|74 deps=-|70|74",          // depends on itself
		"rule label=-|70|74 flags=isBinary,nosuch", // unknown flag
		"rule label=-|70|74 srcs=6",                // odd hex
		"rule label=-|70 srcs=61",                  // malformed label
		"rule label=-|70|74 testCommand=61",        // test field without a test
		"rule label=-|70|74 passEnv=613d62",        // '=' in a variable name
		"pair config=6f7074 fallback=6f7074 ; label=-|70|74",
		"frob label=-|70|74",
	} {
		runOp(r, op)
		r.Count("malformed")
	}
}
