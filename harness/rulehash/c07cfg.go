package rulehash

import (
	"fmt"
	"os"
	"os/exec"
	"path/filepath"
	"sort"
	"strings"

	"verif/harness/lib"
)

// ---------------------------------------------------------------- C07 end to end, package level
//
//	e2ecfg <seed> <ndefs> <slow> <joint>
//	                generate a repository whose packages subinclude different subsets of 2-3 build_defs files; every
//	                build_defs file sets CONFIG keys (one shared by all of them, one of its own) and defines a rule
//	                whose command embeds the CONFIG values seen by the calling package.  Everything `plz hash --detailed`
//	                reports for a target (output hash, config, rule and source hashes) must be a function of the target's
//	                own package closure: the invocations differ ONLY in which other targets are requested, in which
//	                order, in -n, and each starts from a clean plz-out.  A package that waits for a slow generated
//	                build_defs file skews the parse order so that other packages finish first.
//	                impl: "ok"; the model answers "ok" (Props/C07.lean C07_partial_parse_order is the statement).
//
// Full form: "e2ecfg <seed> <ndefs 2|3> <slow 0|1> <joint 0|1>" (joint: one subinclude call with several labels).

type cfgRepo struct {
	singles []string // targets of packages that subinclude one build_defs file
	multis  []string // targets of the package(s) that subinclude several
	desc    string
}

func genCfgRepo(dir string, seed uint64, ndefs int, slow, joint bool) cfgRepo {
	rng := lib.NewRng(seed*7919 + 13)
	w := func(rel, content string) {
		p := filepath.Join(dir, rel)
		must2(os.MkdirAll(filepath.Dir(p), 0o755))
		must2(os.WriteFile(p, []byte(content), 0o644))
	}
	w(".plzconfig", "[cache]\ndir =\n")
	var bd strings.Builder
	for i := 0; i < ndefs; i++ {
		fmt.Fprintf(&bd, "filegroup(\n    name = \"d%d\",\n    srcs = [\"d%d.build_defs\"],\n    visibility = [\"PUBLIC\"],\n)\n", i, i)
		var reads []string
		for k := 0; k < ndefs; k++ {
			reads = append(reads, fmt.Sprintf("CONFIG.get(\"ONLY_%d\", \"unset\")", k))
		}
		w(fmt.Sprintf("build_defs/d%d.build_defs", i), fmt.Sprintf(
			"CONFIG.setdefault(\"SHARED\", \"shared-from-d%d-%d\")\nCONFIG.setdefault(\"ONLY_%d\", \"only-%d\")\n\n"+
				"def gen_%d(name, visibility=None):\n    return genrule(\n        name = name,\n        outs = [name + \".txt\"],\n"+
				"        cmd = \"echo d%d \" + CONFIG.SHARED + \" \" + %s + \" > $OUT\",\n        visibility = visibility,\n    )\n",
			i, rng.Intn(1000), i, i, i, i, strings.Join(reads, " + \" \" + ")))
	}
	w("build_defs/BUILD", bd.String())
	if slow {
		w("slow/BUILD", "genrule(\n    name = \"defs\",\n    outs = [\"slow.build_defs\"],\n    cmd = \"sleep 1; echo 'SLOW = 1' > $OUT\",\n    visibility = [\"PUBLIC\"],\n)\n")
	}
	var repo cfgRepo
	// one package per build_defs file that subincludes only that file (after the slow one, if any)
	for i := 0; i < ndefs; i++ {
		var b strings.Builder
		if slow {
			b.WriteString("subinclude(\"//slow:defs\")\n")
		}
		fmt.Fprintf(&b, "subinclude(\"//build_defs:d%d\")\n\ngen_%d(name = \"t\")\n", i, i)
		w(fmt.Sprintf("s%d/BUILD", i), b.String())
		repo.singles = append(repo.singles, fmt.Sprintf("//s%d:t", i))
	}
	// packages that subinclude several: all of them in a shuffled order, and (3 files) one pair
	sets := [][]int{permOf(rng, ndefs)}
	if ndefs > 2 {
		p := permOf(rng, ndefs)[:2]
		sets = append(sets, p)
	}
	for mi, set := range sets {
		var b strings.Builder
		var labels []string
		for _, d := range set {
			labels = append(labels, fmt.Sprintf("\"//build_defs:d%d\"", d))
		}
		if joint {
			fmt.Fprintf(&b, "subinclude(%s)\n\n", strings.Join(labels, ", "))
		} else {
			for _, l := range labels {
				fmt.Fprintf(&b, "subinclude(%s)\n", l)
			}
			b.WriteString("\n")
		}
		for _, d := range set {
			fmt.Fprintf(&b, "gen_%d(name = \"x%d\")\n", d, d)
			repo.multis = append(repo.multis, fmt.Sprintf("//m%d:x%d", mi, d))
		}
		w(fmt.Sprintf("m%d/BUILD", mi), b.String())
		repo.desc += fmt.Sprintf(" m%d/BUILD: %s;", mi, strings.Join(strings.Split(strings.TrimSpace(b.String()), "\n"), " "))
	}
	repo.desc = fmt.Sprintf("%d build_defs files d0..d%d each doing CONFIG.setdefault(\"SHARED\", ...) and CONFIG.setdefault(\"ONLY_i\", ...); packages s<i> subinclude only d<i>%s;%s (joint=%v)",
		ndefs, ndefs-1, map[bool]string{true: " after the slow //slow:defs", false: ""}[slow], repo.desc, joint)
	return repo
}

// perTarget splits the output of `plz hash --detailed` into everything reported per target.
func perTarget(out string) map[string]string {
	res := map[string][]string{}
	cur := ""
	for _, l := range strings.Split(out, "\n") {
		t := strings.TrimSpace(l)
		switch {
		case t == "" || strings.HasPrefix(l, "Hashes calculated"):
		case strings.HasPrefix(l, "//") && strings.HasSuffix(t, ":") && !strings.Contains(t, " "):
			cur = strings.TrimSuffix(t, ":")
		case strings.HasPrefix(t, "//") && strings.Contains(t, ": ") && !strings.HasPrefix(l, "//") && cur == "":
			lbl := t[:strings.Index(t, ": ")]
			res[lbl] = append(res[lbl], "summary "+t)
		default:
			if cur != "" {
				res[cur] = append(res[cur], t)
			} else {
				res[""] = append(res[""], t)
			}
		}
	}
	m := map[string]string{}
	for k, v := range res {
		m[k] = strings.Join(v, "\n")
	}
	return m
}

func runE2ECfg(r *lib.Run, op string, seed uint64, ndefs int, slow, joint bool) {
	plz := os.Getenv("VERIF_PLZ")
	scratch := os.Getenv("VERIF_SCRATCH")
	if plz == "" || scratch == "" {
		r.Emit(op, "no-plz", false)
		return
	}
	if _, err := os.Stat(plz); err != nil {
		r.Emit(op, "no-plz", false)
		return
	}
	dir := filepath.Join(scratch, fmt.Sprintf("c07cfg-%d-%d", seed, os.Getpid()))
	os.RemoveAll(dir)
	must2(os.MkdirAll(dir, 0o755))
	defer os.RemoveAll(dir)
	repo := genCfgRepo(dir, seed, ndefs, slow, joint)
	home := filepath.Join(dir, ".home")
	must2(os.MkdirAll(home, 0o755))
	run := func(args ...string) (string, error) {
		os.RemoveAll(filepath.Join(dir, "plz-out")) // every invocation starts clean
		cmd := exec.Command(plz, args...)
		cmd.Dir = dir
		cmd.Env = []string{"HOME=" + home, "XDG_CACHE_HOME=" + filepath.Join(home, ".cache"), "XDG_CONFIG_HOME=" + filepath.Join(home, ".config"),
			"PATH=/usr/local/bin:/usr/bin:/bin", "LANG=C"}
		var stderr strings.Builder
		cmd.Stderr = &stderr
		out, err := cmd.Output()
		if err != nil {
			tail := stderr.String()
			if len(tail) > 600 {
				tail = tail[len(tail)-600:]
			}
			err = fmt.Errorf("%v: %s", err, strings.ReplaceAll(tail, "\n", " | "))
		}
		return string(out), err
	}
	rng := lib.NewRng(seed ^ 0xcf9)
	shuf := func(l []string) []string {
		c := append([]string{}, l...)
		lib.Shuffle(rng, c)
		return c
	}
	cat := func(ls ...[]string) []string {
		var o []string
		for _, l := range ls {
			o = append(o, l...)
		}
		return o
	}
	// the invocations: what is requested besides a target, in which order, and -n; nothing else differs
	type inv struct {
		n       string
		targets []string
	}
	invs := []inv{
		{"1", shuf(repo.singles)},                             // nothing else parsed
		{"1", cat(shuf(repo.multis), shuf(repo.singles))},     // the joint packages requested (and, with one thread, parsed) first
		{"16", cat(shuf(repo.singles), shuf(repo.multis))},    // requested after, many threads
		{"16", []string{"//..."}},                             // everything
		{"16", shuf(repo.singles)},                            // nothing else again
		{"1", cat(shuf(repo.multis)[:1], shuf(repo.singles))}, // a single other target
		{"1", shuf(repo.multis)},                              // only the joint packages
	}
	seen := map[string]string{}    // target -> everything reported for it
	seenInv := map[string]string{} // target -> the invocation that reported it first
	for _, in := range invs {
		args := append([]string{"hash", "--detailed", "-n", in.n, "--plain_output"}, in.targets...)
		out, err := run(args...)
		if err != nil {
			r.Emit(op, "plz-failed "+strings.Join(args, " ")+": "+err.Error(), false)
			return
		}
		pt := perTarget(out)
		var ts []string
		for t := range pt {
			ts = append(ts, t)
		}
		sort.Strings(ts)
		for _, t := range ts {
			if t == "" || !(strings.HasPrefix(t, "//s") && !strings.HasPrefix(t, "//slow")) && !strings.HasPrefix(t, "//m") {
				continue
			}
			if old, ok := seen[t]; !ok {
				seen[t], seenInv[t] = pt[t], strings.Join(args, " ")
			} else if old != pt[t] {
				r.OracleFail("hash-depends-on-what-else-was-parsed", op, fmt.Sprintf(
					"repository: %s. Target %s, each time from a clean plz-out: `plz %s` and `plz %s` report different hashes for it; first differing line: %s",
					repo.desc, t, seenInv[t], strings.Join(args, " "), firstDiff(old, pt[t])))
				r.Emit(op, "differs", true)
				return
			}
		}
	}
	if len(seen) != len(repo.singles)+len(repo.multis) {
		r.Emit(op, fmt.Sprintf("unexpected-output %d targets reported, %d expected", len(seen), len(repo.singles)+len(repo.multis)), false)
		return
	}
	for t, s := range seen {
		if strings.Count(s, "Rule:") != 2 || !strings.Contains(s, "summary ") {
			r.Emit(op, fmt.Sprintf("unexpected-output for %s: %q", t, s), false)
			return
		}
	}
	r.Count(fmt.Sprintf("e2ecfg-invocations=%d", len(invs)))
	r.Emit(op, "ok", true)
}

// cfgShape reads the shape fields of the op: <ndefs 2|3> <slow 0|1> <joint 0|1>.
func cfgShape(f []string) (int, bool, bool, bool) {
	if len(f) != 3 || (f[0] != "2" && f[0] != "3") {
		return 0, false, false, false
	}
	for _, x := range f[1:] {
		if x != "0" && x != "1" {
			return 0, false, false, false
		}
	}
	return int(f[0][0] - '0'), f[1] == "1", f[2] == "1", true
}

func permOf(rng *lib.Rng, n int) []int {
	p := make([]int, n)
	for i := range p {
		p[i] = i
	}
	lib.Shuffle(rng, p)
	return p
}
