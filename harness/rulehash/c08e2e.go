package rulehash

import (
	"fmt"
	"os"
	"os/exec"
	"path/filepath"
	"strings"

	"verif/harness/lib"
)

// ---------------------------------------------------------------- C08 end to end: pre-build functions
//
//	e2e08 <seed>   a generated repository in which what a target runs / produces is decided by its pre_build function
//	               from the LABELS of a dependency (set_command, add_out); the dependency's output bytes never change.
//	               Steps, each a `plz build` of everything followed by a look at the outputs and at an external action log:
//	                 1. flag value A                 -> every action runs, outputs show A
//	                 2. nothing changed              -> nothing runs
//	                 3. flag value B (only a label)  -> the targets whose pre-build result changed show B
//	                 4. back to A                    -> they show A again (re-run or restored from the directory cache under the right key)
//	               Oracle ("rebuilt iff the effective attributes changed"): a stale output in step 3/4 means the rule
//	               hash used by the build did not cover what the pre-build function set
//	               (`prebuild-effect-not-in-rule-hash`); a re-run in step 2 is `unchanged-target-rebuilt`.
//	               impl: "ok"; the model answers "ok" (the order of memoisation is a regenerated fact, see Props/C08).

func runE2E08(r *lib.Run, op string, seed uint64) {
	plz := os.Getenv("VERIF_PLZ")
	scratch := os.Getenv("VERIF_SCRATCH")
	if plz == "" || scratch == "" {
		r.Emit(op, "no-plz", false)
		return
	}
	if _, err := os.Stat(plz); err != nil {
		r.Emit(op, "no-plz", false)
		return
	}
	rng := lib.NewRng(seed)
	dir := filepath.Join(scratch, fmt.Sprintf("c08repo-%d", seed))
	os.RemoveAll(dir)
	must2(os.MkdirAll(filepath.Join(dir, "pkg"), 0o755))
	defer os.RemoveAll(dir)
	logf := filepath.Join(dir, "runs.log")
	must2(os.WriteFile(filepath.Join(dir, ".plzconfig"), []byte("[cache]\ndir = "+filepath.Join(dir, ".cache")+"\n"), 0o644))
	vals := []string{"one", "two", "x1", "y_2", "opt", "dbg"}
	lib.Shuffle(rng, vals)
	a, b := vals[0], vals[1]
	extra := rng.Intn(3) // unrelated labels on the dependency
	write := func(flag string) {
		labels := []string{fmt.Sprintf("%q", "flag:"+flag)}
		for i := 0; i < extra; i++ {
			labels = append(labels, fmt.Sprintf("%q", fmt.Sprintf("other:%d", i)))
		}
		build := fmt.Sprintf(`genrule(
    name = "dep",
    outs = ["dep.txt"],
    cmd = "echo dep >> %[1]s; echo dep > $OUT",
    labels = [%[2]s],
)

def _set_cmd(name):
    flags = get_labels(name, "flag:")
    set_command(name, "echo top >> %[1]s; echo flags=%%s > $OUT" %% ",".join(flags))

def _add_out(name):
    for f in get_labels(name, "flag:"):
        add_out(name, "out_%%s.txt" %% f)

genrule(
    name = "top",
    outs = ["top.txt"],
    cmd = "echo placeholder > $OUT",
    deps = [":dep"],
    pre_build = _set_cmd,
)

genrule(
    name = "outs",
    outs = ["fixed.txt"],
    cmd = "echo outs >> %[1]s; for o in $OUTS; do echo made > $o; done",
    deps = [":dep"],
    pre_build = _add_out,
)
`, logf, strings.Join(labels, ", "))
		must2(os.WriteFile(filepath.Join(dir, "pkg", "BUILD"), []byte(build), 0o644))
	}
	home := filepath.Join(dir, ".home")
	must2(os.MkdirAll(home, 0o755))
	run := func() ([]string, error) {
		os.Remove(logf)
		cmd := exec.Command(plz, "build", "--plain_output", "//pkg:all")
		cmd.Dir = dir
		cmd.Env = []string{"HOME=" + home, "XDG_CACHE_HOME=" + filepath.Join(home, ".cache"), "XDG_CONFIG_HOME=" + filepath.Join(home, ".config"),
			"PATH=/usr/local/bin:/usr/bin:/bin", "LANG=C"}
		out, err := cmd.CombinedOutput()
		if err != nil {
			tail := string(out)
			if len(tail) > 500 {
				tail = tail[len(tail)-500:]
			}
			return nil, fmt.Errorf("%v: %s", err, strings.ReplaceAll(tail, "\n", " | "))
		}
		var runs []string
		if b, e := os.ReadFile(logf); e == nil {
			runs = strings.Fields(string(b))
		}
		return runs, nil
	}
	read := func(n string) string {
		b, _ := os.ReadFile(filepath.Join(dir, "plz-out/gen/pkg", n))
		return strings.TrimSpace(string(b))
	}
	ok := true
	step := func(n int, flag string, changed bool) bool {
		write(flag)
		runs, err := run()
		if err != nil {
			r.Emit(op, fmt.Sprintf("plz-failed step %d: %v", n, err), false)
			return false
		}
		top, made := read("top.txt"), read("out_"+flag+".txt")
		if top != "flags="+flag {
			r.OracleFail("prebuild-effect-not-in-rule-hash", op, fmt.Sprintf("step %d: the pre-build function now sets the command `echo flags=%s`, //pkg:top was not rebuilt (ran: %v), top.txt still says %q", n, flag, runs, top))
			ok = false
		}
		if made != "made" {
			r.OracleFail("prebuild-effect-not-in-rule-hash", op, fmt.Sprintf("step %d: the pre-build function now adds the output out_%s.txt, //pkg:outs was not rebuilt (ran: %v), the file is missing", n, flag, runs))
			ok = false
		}
		if !changed && len(runs) != 0 {
			r.OracleFail("unchanged-target-rebuilt", op, fmt.Sprintf("step %d: nothing changed, ran %v", n, runs))
			ok = false
		}
		return true
	}
	if !step(1, a, true) || !step(2, a, false) || !step(3, b, true) || !step(4, a, true) {
		return
	}
	if !ok {
		r.Emit(op, "violated", true)
		return
	}
	r.Count("e2e08-builds=4")
	r.Emit(op, "ok", true)
}
