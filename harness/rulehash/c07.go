package rulehash

import (
	"bytes"
	"encoding/hex"
	"fmt"
	"hash/fnv"
	"strings"
	"sync"

	logging "gopkg.in/op/go-logging.v1"

	"github.com/thought-machine/please/src/build"
	"github.com/thought-machine/please/src/core"
	"verif/harness/lib"
)

// ---------------------------------------------------------------- C07: order independence
//
//	perm   <ctx+target tokens>   impl: the real RuleHash, after checking that it is the same for shuffled insertion
//	                             orders of every map / of the dependencies, for fresh targets hashed from concurrent
//	                             goroutines, and for repeated / concurrent hashing of one target
//	                             model: sha1(ruleSer) of the encoding as given
//	rehash <ctx+target tokens>   impl: "<post-build rule hash> <the same after target.UnprefixedHashes()>"
//	                             model: the two digests the model predicts
//
// Direct oracle: any two of those hashes differ (`rulehash-depends-on-order`), or the post-build rule hash of an
// unchanged target changes because output-hash checking rewrote target.Hashes (`rulehash-changes-after-hash-check`).

func shuffled(rng *lib.Rng, t T) T {
	u := cloneT(t)
	lib.Shuffle(rng, u.Deps)
	lib.Shuffle(rng, u.NamedSrcs)
	lib.Shuffle(rng, u.NamedOuts)
	lib.Shuffle(rng, u.NamedData)
	lib.Shuffle(rng, u.NamedTools)
	lib.Shuffle(rng, u.NamedSecret)
	lib.Shuffle(rng, u.Provides)
	lib.Shuffle(rng, u.EntryPoints)
	lib.Shuffle(rng, u.Env)
	if u.Commands != nil {
		lib.Shuffle(rng, *u.Commands)
	}
	if u.TestCommands != nil {
		lib.Shuffle(rng, *u.TestCommands)
	}
	return u
}

func opSeed(op string) uint64 {
	h := fnv.New64a()
	h.Write([]byte(op))
	return h.Sum64()
}

var hashMu sync.Mutex // build.RuleHash reads the process environment and state.Config: set once per op

func runPerm(r *lib.Run, op string, c Ctx, t T) {
	rng := lib.NewRng(opSeed(op))
	h0, msg := realHash(c, t)
	if msg != "" {
		r.Emit(op, msg, false)
		return
	}
	distinctHashes := map[string]bool{string(h0): true}
	// 1. shuffled insertion orders, sequentially
	n := 6
	for i := 0; i < n; i++ {
		h, m := realHash(c, shuffled(rng, t))
		if m != "" {
			r.Emit(op, m, false)
			return
		}
		distinctHashes[string(h)] = true
	}
	// 2. fresh targets from shuffled orders, built and hashed from concurrent goroutines
	var wg sync.WaitGroup
	var mu sync.Mutex
	variants := make([]T, 8)
	for i := range variants {
		variants[i] = shuffled(rng, t)
	}
	state.Config.Build.Config, state.Config.Build.FallbackConfig = c.Config, c.Fallback
	state.Config.Build.HashCheckers = c.HashCheckers
	setEnviron(c, t)
	for i := range variants {
		wg.Add(1)
		go func(v T) {
			defer wg.Done()
			bt := buildTarget(v)
			h := build.RuleHash(state, bt, c.Runtime, false)
			mu.Lock()
			distinctHashes[string(h)] = true
			mu.Unlock()
		}(variants[i])
	}
	wg.Wait()
	// 3. one target, hashed repeatedly and concurrently without memoisation (runtime hash; Go randomises map
	//    iteration on every range) — compared among themselves
	bt := buildTarget(shuffled(rng, t))
	rt := map[string]bool{}
	for i := 0; i < 12; i++ {
		rt[string(build.RuleHash(state, bt, true, false))] = true
	}
	for i := 0; i < 8; i++ {
		wg.Add(1)
		go func() {
			defer wg.Done()
			h := build.RuleHash(state, bt, true, false)
			mu.Lock()
			rt[string(h)] = true
			mu.Unlock()
		}()
	}
	wg.Wait()
	maps := len(t.Env) + len(t.EntryPoints) + len(t.Provides) + len(t.NamedSrcs) + len(t.NamedOuts) + len(t.Deps)
	if len(distinctHashes) != 1 || len(rt) != 1 {
		r.OracleFail("rulehash-depends-on-order", op, fmt.Sprintf("%d distinct rule hashes over shuffled/concurrent constructions, %d distinct runtime hashes of one target", len(distinctHashes), len(rt)))
		r.Emit(op, fmt.Sprintf("nondeterministic %d %d", len(distinctHashes), len(rt)), true)
		return
	}
	r.Count(fmt.Sprintf("perm-map-entries<=%d", (maps/4+1)*4))
	r.Emit(op, hex.EncodeToString(h0), maps >= 3)
}

func runRehash(r *lib.Run, op string, c Ctx, t T) {
	var h1, h2 []byte
	msg := lib.Safely(func() string {
		bt := buildTarget(t)
		state.Config.Build.Config, state.Config.Build.FallbackConfig = c.Config, c.Fallback
		state.Config.Build.HashCheckers = c.HashCheckers
		setEnviron(c, t)
		build.RuleHash(state, bt, false, false) // the pre-build hash is memoised first, as in a build
		h1 = build.RuleHash(state, bt, false, true)
		bt.UnprefixedHashes() // what checkRuleHashes does after the action ran
		h2 = build.RuleHash(state, bt, false, true)
		return ""
	})
	if msg != "" {
		r.Emit(op, msg, false)
		return
	}
	if !bytes.Equal(h1, h2) {
		r.OracleFail("rulehash-changes-after-hash-check", op, fmt.Sprintf("post-build rule hash %x before, %x after target.UnprefixedHashes()", h1, h2))
		r.Count("rehash-changed")
	} else {
		r.Count("rehash-stable")
	}
	r.Emit(op, hex.EncodeToString(h1)+" "+hex.EncodeToString(h2), len(t.Hashes) > 0)
}

func mainC07() {
	logging.SetLevel(logging.ERROR, "plz")
	r := lib.Start()
	defer r.Finish()
	r.Rule = "perm: the target has >= 3 entries in map-typed fields / dependencies; rehash: the target declares hashes; distinct by op line"
	state = core.NewDefaultBuildState()
	probeSpec()
	if ops := r.ReplayOps(); ops != nil {
		for _, op := range ops {
			runOp(r, op)
		}
		return
	}
	for i := 0; i < r.N(700, 12000); i++ {
		c := randCtx(r)
		t := randTarget(r, c)
		// make the map-typed fields big enough for the order to matter
		if r.Rng.Chance(70) {
			t.Env = randKVs(r, alpha[:10], 6)
			t.Provides = nil
			seen := map[string]bool{}
			for k := 0; k < 4; k++ {
				key := pick(r, nonEmpty)
				if !seen[key] {
					seen[key] = true
					t.Provides = append(t.Provides, PGroup{key, randLabels(r, 2, Label{})})
				}
			}
			t.Deps = randLabels(r, 6, t.Label)
			t.NamedSrcs = randGroups(r, 4, false)
			t.NamedOuts = randGroups(r, 4, true)
			for _, g := range t.NamedOuts {
				for k := 0; k < len(t.EntryPoints); k++ {
					if t.EntryPoints[k].K == g.K {
						t.EntryPoints = append(t.EntryPoints[:k], t.EntryPoints[k+1:]...)
						k--
					}
				}
			}
			if r.Rng.Chance(40) {
				kv := randKVs(r, []string{"opt", "dbg", "cover", "zz", "", "a"}, 4)
				t.Commands = &kv
			}
		}
		if !wellFormed(c, t) {
			r.Count("gen-rejected")
			continue
		}
		// the same target under several encodings: both sides must give one digest for all of them
		base := ""
		for k := 0; k < 3; k++ {
			u := t
			if k > 0 {
				u = shuffled(r.Rng, t)
			}
			op := "perm " + encCtx(c) + " " + encT(u)
			before := r.OutDir
			_ = before
			h, _ := realHash(c, u)
			if k == 0 {
				base = string(h)
			} else if string(h) != base {
				r.OracleFail("rulehash-depends-on-order", op, "permuted encoding of the same target hashes differently")
			}
			runOp(r, op)
		}
		if r.Rng.Chance(25) {
			// declared output hashes with and without an algorithm prefix, on targets that re-hash after building
			u := cloneT(t)
			u.Hashes = []string{pick(r, []string{"sha1: abcdef", "abcdef", "sha256:0123", " abc ", "a:b:c", "blake3: x"})}
			if r.Rng.Chance(50) {
				u.Hashes = append(u.Hashes, pick(r, []string{"fedcba", "sha1:fedcba"}))
			}
			switch r.Rng.Intn(3) {
			case 0:
				u.OutputDirs = append(u.OutputDirs, "od")
			case 1:
				u.Flags["postBuild"] = true
			}
			if wellFormed(c, u) {
				runOp(r, "rehash "+encCtx(c)+" "+encT(u))
			}
		}
	}
	// end to end: the real binary on generated repositories
	for i := 0; i < r.N(3, 30); i++ {
		runOp(r, fmt.Sprintf("e2e %d", r.Rng.U64()%100000))
	}
	// package level: what is reported for a target must not depend on what else the invocation parsed (c07cfg.go);
	// the first three cover the shapes (2/3 build_defs files, with/without the slow subinclude, joint/separate calls)
	for i := 0; i < r.N(3, 12); i++ {
		nd, slow, joint := 2+i%2, 1, 1-(i/2)%2
		if i%3 == 2 {
			slow = 0
		}
		runOp(r, fmt.Sprintf("e2ecfg %d %d %d %d", r.Rng.U64()%100000, nd, slow, joint))
	}
	for _, op := range []string{"perm label=-|70|74 env=61:62,61:63", "rehash label=-|70", "perm", "e2e x", "e2e 1 2", "e2ecfg 1", "e2ecfg 1 4 0 0", "e2ecfg 1 2 2 0", "e2ecfg 01 2 1 0"} {
		runOp(r, op)
		r.Count("malformed")
	}
	_ = strings.Join
}
