package rulehash

import (
	"fmt"
	"os"
	"os/exec"
	"path/filepath"
	"strings"

	"verif/harness/lib"
)

// ---------------------------------------------------------------- C10 end to end
//
//	e2e10 <seed>   a generated repository with genrules that dump their environment and append to an external
//	               action log; the real binary is invoked under `env -i` with varying caller environments:
//	                 1. baseline                                  -> every action runs once
//	                 2. unrelated variables changed / added       -> nothing re-runs, dumps identical, variables invisible
//	                 3. the target's pass_env variable changed    -> exactly that target re-runs and sees the new value
//	                 4. the [build] passenv variable changed      -> everything re-runs (config hash)
//	                 5. the [build] passunsafeenv variable changed -> nothing re-runs (documented as unsafe)
//	               impl: "ok"; the model answers "ok" (the in-process ops carry the model comparison).

func runE2E10(r *lib.Run, op string, seed uint64) {
	plz := os.Getenv("VERIF_PLZ")
	scratch := os.Getenv("VERIF_SCRATCH")
	if plz == "" || scratch == "" {
		r.Emit(op, "no-plz", false)
		return
	}
	if _, err := os.Stat(plz); err != nil {
		r.Emit(op, "no-plz", false)
		return
	}
	rng := lib.NewRng(seed)
	dir := filepath.Join(scratch, fmt.Sprintf("c10repo-%d", seed))
	os.RemoveAll(dir)
	must2(os.MkdirAll(filepath.Join(dir, "p"), 0o755))
	defer os.RemoveAll(dir)
	logf := filepath.Join(dir, "runs.log")
	must2(os.WriteFile(filepath.Join(dir, ".plzconfig"), []byte("[cache]\ndir = "+filepath.Join(dir, ".cache")+"\n[build]\npassenv = C10_CFG\npassunsafeenv = C10_UNSAFE\n[buildenv]\nfrom-config = fc\n"), 0o644))
	must2(os.WriteFile(filepath.Join(dir, "p", "in.txt"), []byte(fmt.Sprint(rng.Intn(1000))), 0o644))
	build := fmt.Sprintf(`genrule(
    name = "passes",
    srcs = ["in.txt"],
    outs = ["passes.env"],
    cmd = "echo passes >> %s; env | sort > $OUT",
    pass_env = ["C10_PASS"],
)
genrule(
    name = "plain",
    srcs = ["in.txt"],
    outs = ["plain.env"],
    cmd = "echo plain >> %s; env | sort > $OUT",
    env = {"FROM_TARGET": "t%d"},
)
genrule(
    name = "unsafe",
    srcs = ["in.txt"],
    outs = ["unsafe.env"],
    cmd = "echo unsafe >> %s; env | sort > $OUT",
)
`, logf, logf, rng.Intn(9), logf)
	must2(os.WriteFile(filepath.Join(dir, "p", "BUILD"), []byte(build), 0o644))
	home := filepath.Join(dir, ".home")
	must2(os.MkdirAll(home, 0o755))
	base := map[string]string{"HOME": home, "PATH": "/usr/local/bin:/usr/bin:/bin", "C10_PASS": "a", "C10_CFG": "c", "C10_UNSAFE": "u", "C10_OTHER": "x", "LANG": "C"}
	run := func(over map[string]string) (runs []string, dumps map[string]string, err error) {
		os.Remove(logf)
		env := []string{}
		for k, v := range base {
			if o, ok := over[k]; ok {
				v = o
			}
			env = append(env, k+"="+v)
		}
		for k, v := range over {
			if _, ok := base[k]; !ok {
				env = append(env, k+"="+v)
			}
		}
		cmd := exec.Command(plz, "build", "--plain_output", "//p:all")
		cmd.Dir = dir
		cmd.Env = env
		out, e := cmd.CombinedOutput()
		if e != nil {
			tail := string(out)
			if len(tail) > 500 {
				tail = tail[len(tail)-500:]
			}
			return nil, nil, fmt.Errorf("%v: %s", e, strings.ReplaceAll(tail, "\n", " | "))
		}
		if b, e := os.ReadFile(logf); e == nil {
			runs = strings.Fields(string(b))
		}
		dumps = map[string]string{}
		for _, n := range []string{"passes", "plain", "unsafe"} {
			b, _ := os.ReadFile(filepath.Join(dir, "plz-out/gen/p", n+".env"))
			dumps[n] = string(b)
		}
		return
	}
	fail := func(cls, detail string) {
		r.OracleFail(cls, op, detail)
	}
	has := func(l []string, s string) bool {
		for _, x := range l {
			if x == s {
				return true
			}
		}
		return false
	}
	// 1. baseline
	runs, d0, err := run(nil)
	if err != nil {
		r.Emit(op, "plz-failed "+err.Error(), false)
		return
	}
	if len(runs) != 3 {
		r.Emit(op, fmt.Sprintf("unexpected-baseline %v", runs), false)
		return
	}
	ok := true
	for n, d := range d0 {
		if strings.Contains(d, "C10_OTHER=") || (n != "passes" && strings.Contains(d, "C10_PASS=")) {
			fail("e2e-unlisted-variable-visible", n+" sees a variable it does not pass through: "+strings.ReplaceAll(d, "\n", " "))
			ok = false
		}
	}
	if !strings.Contains(d0["passes"], "C10_PASS=a") || !strings.Contains(d0["unsafe"], "C10_UNSAFE=u") || !strings.Contains(d0["plain"], "C10_CFG=c") ||
		!strings.Contains(d0["plain"], "FROM_CONFIG=fc") {
		r.Emit(op, "unexpected-dump "+strings.ReplaceAll(d0["passes"], "\n", " "), false)
		return
	}
	// 2. unrelated variables
	runs, d1, err := run(map[string]string{"C10_OTHER": "y", "C10_NEW": "n", "LANG": "en_GB.UTF-8"})
	if err != nil {
		r.Emit(op, "plz-failed "+err.Error(), false)
		return
	}
	if len(runs) != 0 {
		fail("e2e-unlisted-variable-rebuilds", fmt.Sprintf("changing unrelated caller variables re-ran %v", runs))
		ok = false
	}
	for n := range d0 {
		if d0[n] != d1[n] {
			fail("e2e-unlisted-variable-changes-output", n+" changed")
			ok = false
		}
	}
	// 3. the pass_env variable
	runs, d2, err := run(map[string]string{"C10_PASS": "b"})
	if err != nil {
		r.Emit(op, "plz-failed "+err.Error(), false)
		return
	}
	if !has(runs, "passes") || !strings.Contains(d2["passes"], "C10_PASS=b") {
		fail("e2e-passenv-change-not-rebuilt", fmt.Sprintf("C10_PASS changed, re-ran %v", runs))
		ok = false
	}
	if has(runs, "plain") || has(runs, "unsafe") {
		fail("e2e-unlisted-variable-rebuilds", fmt.Sprintf("C10_PASS changed, also re-ran %v", runs))
		ok = false
	}
	// 4. the config-level passenv variable
	runs, _, err = run(map[string]string{"C10_PASS": "b", "C10_CFG": "c2"})
	if err != nil {
		r.Emit(op, "plz-failed "+err.Error(), false)
		return
	}
	if len(runs) != 3 {
		fail("e2e-config-passenv-change-not-rebuilt", fmt.Sprintf("C10_CFG changed, re-ran %v", runs))
		ok = false
	}
	// 5. pass_unsafe_env: visible, not hashed (by design)
	runs, _, err = run(map[string]string{"C10_PASS": "b", "C10_CFG": "c2", "C10_UNSAFE": "u2"})
	if err != nil {
		r.Emit(op, "plz-failed "+err.Error(), false)
		return
	}
	if len(runs) != 0 {
		fail("e2e-unsafe-variable-rebuilds", fmt.Sprintf("C10_UNSAFE changed, re-ran %v", runs))
		ok = false
	}
	if !ok {
		r.Emit(op, "violated", true)
		return
	}
	r.Count("e2e10-invocations=5")
	r.Emit(op, "ok", true)
}
