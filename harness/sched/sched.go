// Package sched is shared by the C04 and C05 harnesses: generated repositories of genrules whose commands log
// flock-protected start/end events outside the repository, the runner for the real plz binary, the log
// parser and the direct oracles on the raw log.
package sched

import (
	"fmt"
	"os"
	"os/exec"
	"path/filepath"
	"sort"
	"strconv"
	"strings"
	"syscall"
	"time"
)

// Target i of a case. Deps refer to lower or higher indices (cycles are allowed for C05).
type Target struct {
	Pkg     int
	Deps    []int
	SleepMs int
	Fail    string // "" | "exit" (command exits 1) | "undef" (depends on a label that does not exist)
	// require/provide and post-build add_dep (all targets involved live in one package):
	Provides []int    // provides = {"lang": these targets}: a dependent that requires "lang" gets them instead of this one
	Requires bool     // requires = ["lang"]
	PostAdd  [][2]int // post_build function: add_dep(target [0], dependency [1]) once this target is built
	Touch    bool     // warm cases: the command (and its output) changes in the second invocation, so it is rebuilt
	BigOut   bool     // warm cases: the first invocation leaves a directory of many files as this target's output (slow to remove)
}

// Case is one generated repository plus one plz invocation.
type Case struct {
	Targets   []Target
	Roots     []int
	Par       int
	KeepGoing bool
	BadPkg    []int // packages whose BUILD file has a syntax error
	MissPkg   []int // packages that do not exist (a target in it is referenced)
	// Warm: the repository is first built completely WITHOUT the failures and touches; the observed invocation is the
	// second one, on the same plz-out (unchanged targets are not re-run; stale outputs of failed dependents remain).
	Warm bool
	// Subs: {package, target}: the BUILD file of the package starts with subinclude(<label of the target>); the target
	// lives in another package (which has no subinclude of its own). Parsing the package waits for the target to be built.
	Subs [][2]int
	// Query: the invocation is `plz query deps <roots>` instead of `plz build`: NeedBuild is off, so the graph is only
	// activated; what gets built is what the parsed packages subinclude (forceBuild), with its dependencies.
	Query bool
}

// SubsOf returns the targets package pkg subincludes.
func (c *Case) SubsOf(pkg int) []int {
	var out []int
	for _, s := range c.Subs {
		if s[0] == pkg {
			out = append(out, s[1])
		}
	}
	return out
}

func (c *Case) isSubTarget(i int) bool {
	for _, s := range c.Subs {
		if s[1] == i {
			return true
		}
	}
	return false
}

func (c *Case) Label(i int) string { return fmt.Sprintf("//p%d:t%d", c.Targets[i].Pkg, i) }

// Encode renders the case in the line protocol: deps=0:;1:0 pk=0,0 roots=1 n=4 kg=0 fail=- bad=- miss=-
func (c *Case) Encode() string {
	d := make([]string, len(c.Targets))
	pk := make([]string, len(c.Targets))
	var fl []string
	for i, t := range c.Targets {
		ds := make([]string, len(t.Deps))
		for j, x := range t.Deps {
			ds[j] = strconv.Itoa(x)
		}
		d[i] = fmt.Sprintf("%d:%s", i, strings.Join(ds, ","))
		pk[i] = strconv.Itoa(t.Pkg)
		if t.Fail != "" {
			fl = append(fl, fmt.Sprintf("%d:%s", i, t.Fail))
		}
	}
	ints := func(xs []int) string {
		if len(xs) == 0 {
			return "-"
		}
		p := make([]string, len(xs))
		for i, x := range xs {
			p[i] = strconv.Itoa(x)
		}
		return strings.Join(p, ",")
	}
	f := "-"
	if len(fl) > 0 {
		f = strings.Join(fl, ",")
	}
	kg := 0
	if c.KeepGoing {
		kg = 1
	}
	var prov, req, late []string
	dots := func(xs []int) string {
		p := make([]string, len(xs))
		for i, x := range xs {
			p[i] = strconv.Itoa(x)
		}
		return strings.Join(p, ".")
	}
	for i, t := range c.Targets {
		if len(t.Provides) > 0 {
			prov = append(prov, fmt.Sprintf("%d:%s", i, dots(t.Provides)))
		}
		if t.Requires {
			req = append(req, strconv.Itoa(i))
		}
		for _, pa := range t.PostAdd {
			late = append(late, fmt.Sprintf("%d:%d.%d", i, pa[0], pa[1]))
		}
	}
	dash := func(xs []string) string {
		if len(xs) == 0 {
			return "-"
		}
		return strings.Join(xs, ",")
	}
	sl := make([]int, len(c.Targets))
	for i, t := range c.Targets {
		sl[i] = t.SleepMs
	}
	var touch []int
	for i, t := range c.Targets {
		if t.Touch {
			touch = append(touch, i)
		}
	}
	warm := 0
	if c.Warm {
		warm = 1
	}
	out := fmt.Sprintf("deps=%s pk=%s roots=%s n=%d kg=%d fail=%s bad=%s miss=%s prov=%s req=%s late=%s sleep=%s warm=%d touch=%s", strings.Join(d, ";"), strings.Join(pk, ","),
		ints(c.Roots), c.Par, kg, f, ints(c.BadPkg), ints(c.MissPkg), dash(prov), dash(req), dash(late), ints(sl), warm, ints(touch))
	var big []int
	for i, t := range c.Targets {
		if t.BigOut {
			big = append(big, i)
		}
	}
	if len(big) > 0 {
		out += " big=" + ints(big)
	}
	if c.Query {
		out += " q=1"
	}
	if len(c.Subs) > 0 {
		var sb []string
		for _, x := range c.Subs {
			sb = append(sb, fmt.Sprintf("%d:%d", x[0], x[1]))
		}
		out += " sub=" + strings.Join(sb, ",")
	}
	return out
}

// Decode parses what Encode wrote.
func Decode(s string) (*Case, bool) {
	c := &Case{}
	kv := map[string]string{}
	for _, f := range strings.Fields(s) {
		p := strings.SplitN(f, "=", 2)
		if len(p) != 2 {
			return nil, false
		}
		kv[p[0]] = p[1]
	}
	ints := func(s string) ([]int, bool) {
		if s == "-" || s == "" {
			return nil, true
		}
		var out []int
		for _, x := range strings.Split(s, ",") {
			n, err := strconv.Atoi(x)
			if err != nil || n < 0 {
				return nil, false
			}
			out = append(out, n)
		}
		return out, true
	}
	for i, e := range strings.Split(kv["deps"], ";") {
		p := strings.SplitN(e, ":", 2)
		if len(p) != 2 || p[0] != strconv.Itoa(i) {
			return nil, false
		}
		ds, ok := ints(p[1])
		if !ok {
			return nil, false
		}
		c.Targets = append(c.Targets, Target{Deps: ds})
	}
	pk, ok := ints(kv["pk"])
	if !ok || len(pk) != len(c.Targets) {
		return nil, false
	}
	for i := range c.Targets {
		c.Targets[i].Pkg = pk[i]
		for _, d := range c.Targets[i].Deps {
			if d >= len(c.Targets) {
				return nil, false
			}
		}
	}
	var ok1, ok2, ok3 bool
	c.Roots, ok1 = ints(kv["roots"])
	c.BadPkg, ok2 = ints(kv["bad"])
	c.MissPkg, ok3 = ints(kv["miss"])
	n, err := strconv.Atoi(kv["n"])
	if !ok1 || !ok2 || !ok3 || err != nil || n <= 0 || len(c.Roots) == 0 {
		return nil, false
	}
	for _, r := range c.Roots {
		if r >= len(c.Targets) {
			return nil, false
		}
	}
	c.Par = n
	c.KeepGoing = kv["kg"] == "1"
	if f := kv["fail"]; f != "-" && f != "" {
		for _, e := range strings.Split(f, ",") {
			p := strings.SplitN(e, ":", 2)
			i, err := strconv.Atoi(p[0])
			if len(p) != 2 || err != nil || i < 0 || i >= len(c.Targets) || (p[1] != "exit" && p[1] != "undef") {
				return nil, false
			}
			c.Targets[i].Fail = p[1]
		}
	}
	dotInts := func(s string) ([]int, bool) {
		var out []int
		for _, x := range strings.Split(s, ".") {
			n, err := strconv.Atoi(x)
			if err != nil || n < 0 || n >= len(c.Targets) {
				return nil, false
			}
			out = append(out, n)
		}
		return out, true
	}
	c.Warm = kv["warm"] == "1"
	if v := kv["touch"]; v != "" && v != "-" {
		ts, ok := ints(v)
		if !ok {
			return nil, false
		}
		for _, i := range ts {
			if i >= len(c.Targets) {
				return nil, false
			}
			c.Targets[i].Touch = true
		}
	}
	if v := kv["sleep"]; v != "" && v != "-" {
		sl, ok := ints(v)
		if !ok || len(sl) != len(c.Targets) {
			return nil, false
		}
		for i := range c.Targets {
			c.Targets[i].SleepMs = sl[i]
		}
	}
	if v := kv["prov"]; v != "" && v != "-" {
		for _, e := range strings.Split(v, ",") {
			p := strings.SplitN(e, ":", 2)
			i, err := strconv.Atoi(p[0])
			if len(p) != 2 || err != nil || i < 0 || i >= len(c.Targets) {
				return nil, false
			}
			ps, ok := dotInts(p[1])
			if !ok {
				return nil, false
			}
			c.Targets[i].Provides = ps
		}
	}
	if v := kv["req"]; v != "" && v != "-" {
		rs, ok := ints(v)
		if !ok {
			return nil, false
		}
		for _, i := range rs {
			if i >= len(c.Targets) {
				return nil, false
			}
			c.Targets[i].Requires = true
		}
	}
	if v := kv["late"]; v != "" && v != "-" {
		for _, e := range strings.Split(v, ",") {
			p := strings.SplitN(e, ":", 2)
			i, err := strconv.Atoi(p[0])
			if len(p) != 2 || err != nil || i < 0 || i >= len(c.Targets) {
				return nil, false
			}
			tx, ok := dotInts(p[1])
			if !ok || len(tx) != 2 {
				return nil, false
			}
			c.Targets[i].PostAdd = append(c.Targets[i].PostAdd, [2]int{tx[0], tx[1]})
		}
	}
	c.Query = kv["q"] == "1"
	if v := kv["big"]; v != "" && v != "-" {
		bs, ok := ints(v)
		if !ok {
			return nil, false
		}
		for _, i := range bs {
			if i >= len(c.Targets) {
				return nil, false
			}
			c.Targets[i].BigOut = true
		}
	}
	if v := kv["sub"]; v != "" && v != "-" {
		for _, e := range strings.Split(v, ",") {
			p := strings.SplitN(e, ":", 2)
			if len(p) != 2 {
				return nil, false
			}
			pkg, err1 := strconv.Atoi(p[0])
			t, err2 := strconv.Atoi(p[1])
			if err1 != nil || err2 != nil || pkg < 0 || t < 0 || t >= len(c.Targets) || c.Targets[t].Pkg == pkg {
				return nil, false
			}
			c.Subs = append(c.Subs, [2]int{pkg, t})
		}
		for _, x := range c.Subs {
			if len(c.SubsOf(c.Targets[x[1]].Pkg)) > 0 {
				return nil, false // one level only
			}
		}
	}
	return c, true
}

// EffDeps is what target i really depends on: declared dependencies with require/provide resolved, plus the
// dependencies other targets' post-build functions attach to it.
func (c *Case) EffDeps(i int) []int {
	var out []int
	add := func(x int) {
		for _, y := range out {
			if y == x {
				return
			}
		}
		out = append(out, x)
	}
	t := c.Targets[i]
	for _, d := range t.Deps {
		if t.Requires && len(c.Targets[d].Provides) > 0 {
			for _, p := range c.Targets[d].Provides {
				add(p)
			}
		} else {
			add(d)
		}
	}
	for _, a := range c.Targets {
		for _, pa := range a.PostAdd {
			if pa[0] == i {
				add(pa[1])
			}
		}
	}
	return out
}

// Event of the action log: S start, E end (success), F about to fail, M a dependency's output was missing.
type Event struct {
	Kind byte
	T    int
}

func EventsString(ev []Event) string {
	if len(ev) == 0 {
		return "-"
	}
	p := make([]string, len(ev))
	for i, e := range ev {
		p[i] = fmt.Sprintf("%c%d", e.Kind, e.T)
	}
	return strings.Join(p, ",")
}

func ParseEvents(s string) ([]Event, bool) {
	if s == "-" {
		return nil, true
	}
	var out []Event
	for _, f := range strings.Split(s, ",") {
		if len(f) < 2 || !strings.ContainsRune("SEFM", rune(f[0])) {
			return nil, false
		}
		n, err := strconv.Atoi(f[1:])
		if err != nil || n < 0 {
			return nil, false
		}
		out = append(out, Event{f[0], n})
	}
	return out, true
}

// Result of one plz invocation.
type Result struct {
	Events []Event
	RC     int // exit status; 124 = killed at the wall-clock limit
	Wall   time.Duration
	Output string
	// Idle is, for a run killed at the limit, how long before the kill the last event was logged: a large value
	// means plz sat there with nothing running (a hang), a small one that it was still working (a slow machine).
	Idle time.Duration
	// ReportedFailed: the targets plz lists as failed ("N targets failed:")
	ReportedFailed []int
}

func intsIn(xs []int, x int) bool {
	for _, y := range xs {
		if y == x {
			return true
		}
	}
	return false
}

// Write creates the repository under dir/repo and returns the log path.
func (c *Case) Write(dir string) (repo, log string, err error) { return c.WritePhase(dir, 2) }

// WritePhase writes the repository as it is for invocation 1 (warm cases: no failures, no touches) or 2.
func (c *Case) WritePhase(dir string, phase int) (repo, log string, err error) {
	repo, log = filepath.Join(dir, "repo"), filepath.Join(dir, "events.log")
	cache := filepath.Join(dir, "cache")
	for _, d := range []string{repo, cache, filepath.Join(dir, "home")} {
		if err = os.MkdirAll(d, 0o755); err != nil {
			return
		}
	}
	if err = os.WriteFile(filepath.Join(repo, ".plzconfig"), []byte("[cache]\ndir = "+cache+"\n"), 0o644); err != nil {
		return
	}
	ev := func(k string, i int) string {
		return fmt.Sprintf("flock %s.lock sh -c 'echo %s%d >> %s'", log, k, i, log)
	}
	byPkg := map[int][]int{}
	for i, t := range c.Targets {
		byPkg[t.Pkg] = append(byPkg[t.Pkg], i)
	}
	for pkg, is := range byPkg {
		if intsIn(c.MissPkg, pkg) {
			continue
		}
		var b strings.Builder
		if intsIn(c.BadPkg, pkg) {
			b.WriteString("genrule(name = \n") // syntax error
		}
		for _, u := range c.SubsOf(pkg) {
			fmt.Fprintf(&b, "subinclude(%q)\n", c.Label(u))
		}
		for _, i := range is {
			t := c.Targets[i]
			srcs := make([]string, 0, len(t.Deps)+1)
			var deps []string
			for _, d := range t.Deps {
				if len(c.Targets[d].Provides) > 0 {
					deps = append(deps, fmt.Sprintf("%q", c.Label(d))) // resolved through require/provide: not a source
				} else {
					srcs = append(srcs, fmt.Sprintf("%q", c.Label(d)))
				}
			}
			extra := ""
			if len(deps) > 0 {
				extra += fmt.Sprintf(", deps=[%s]", strings.Join(deps, ", "))
			}
			if t.Requires {
				extra += ", requires=[\"lang\"]"
			}
			if len(t.Provides) > 0 {
				ps := make([]string, len(t.Provides))
				for j, x := range t.Provides {
					ps[j] = fmt.Sprintf("%q", fmt.Sprintf(":t%d", x))
				}
				extra += fmt.Sprintf(", provides={\"lang\": [%s]}", strings.Join(ps, ", "))
			}
			if len(t.PostAdd) > 0 {
				fmt.Fprintf(&b, "def _pb%d(name, output):\n", i)
				for _, pa := range t.PostAdd {
					fmt.Fprintf(&b, "    add_dep(%q, %q)\n", fmt.Sprintf("t%d", pa[0]), c.Label(pa[1]))
				}
				extra += fmt.Sprintf(", post_build=_pb%d", i)
			}
			first := c.Warm && phase == 1
			if t.Fail == "undef" && !first {
				srcs = append(srcs, fmt.Sprintf("%q", fmt.Sprintf("//p%d:nosuch%d", t.Pkg, i)))
			}
			cmd := ev("S", i) + "; for f in $SRCS; do test -e $f || " + ev("M", i) + "; done"
			if t.SleepMs > 0 && !first {
				cmd += fmt.Sprintf("; sleep %.3f", float64(t.SleepMs)/1000)
			}
			if t.Fail == "exit" && !first {
				cmd += "; " + ev("F", i) + "; exit 1"
			}
			content := strconv.Itoa(i)
			if t.Touch && !first {
				content += "-v2"
			}
			if c.isSubTarget(i) {
				cmd += "; echo '# " + content + "' > $OUT; " + ev("E", i) // the output is read as a build definition file
			} else if t.BigOut && first {
				cmd += "; mkdir $OUT && (cd $OUT && seq 1 40000 | xargs touch); " + ev("E", i)
			} else {
				cmd += "; (cat $SRCS 2>/dev/null; echo " + content + ") > $OUT; " + ev("E", i)
			}
			fmt.Fprintf(&b, "genrule(name=%q, srcs=[%s], outs=[%q], cmd=%q, visibility=[\"PUBLIC\"]%s)\n",
				fmt.Sprintf("t%d", i), strings.Join(srcs, ", "), fmt.Sprintf("t%d.out", i), cmd, extra)
		}
		pd := filepath.Join(repo, fmt.Sprintf("p%d", pkg))
		if err = os.MkdirAll(pd, 0o755); err != nil {
			return
		}
		if err = os.WriteFile(filepath.Join(pd, "BUILD"), []byte(b.String()), 0o644); err != nil {
			return
		}
	}
	return
}

// Run executes `plz build` for the case in a fresh directory under scratch and removes it afterwards.
func (c *Case) Run(plz, scratch string, id int, limit time.Duration) (*Result, error) {
	dir := filepath.Join(scratch, fmt.Sprintf("case%d", id))
	os.RemoveAll(dir)
	defer os.RemoveAll(dir)
	repo, log, err := c.WritePhase(dir, 2)
	if err != nil {
		return nil, err
	}
	home := filepath.Join(dir, "home")
	if c.Warm {
		if _, _, err := c.WritePhase(dir, 1); err != nil {
			return nil, err
		}
		a1 := []string{"build", "-p", "-v", "error", "--noupdate", "-n", "8"}
		for _, r := range c.Roots {
			a1 = append(a1, c.Label(r))
		}
		c1 := exec.Command(plz, a1...)
		c1.Dir = repo
		c1.Env = []string{"HOME=" + home, "XDG_CACHE_HOME=" + home + "/.cache", "XDG_CONFIG_HOME=" + home + "/.config",
			"PATH=/usr/local/bin:/usr/bin:/bin", "LC_ALL=C"}
		if out, err := c1.CombinedOutput(); err != nil {
			return nil, fmt.Errorf("warm-up build failed: %v: %s", err, out)
		}
		os.Remove(log)
		if _, _, err := c.WritePhase(dir, 2); err != nil {
			return nil, err
		}
	}
	args := []string{"build", "-p", "-v", "error", "--noupdate", "-n", strconv.Itoa(c.Par)}
	if c.Query {
		args = []string{"query", "deps", "-p", "-v", "error", "--noupdate", "-n", strconv.Itoa(c.Par)}
	}
	if c.KeepGoing {
		args = append(args, "--keep_going")
	}
	for _, r := range c.Roots {
		args = append(args, c.Label(r))
	}
	cmd := exec.Command(plz, args...)
	cmd.Dir = repo
	cmd.Env = []string{"HOME=" + home, "XDG_CACHE_HOME=" + home + "/.cache", "XDG_CONFIG_HOME=" + home + "/.config",
		"PATH=/usr/local/bin:/usr/bin:/bin", "LC_ALL=C"}
	cmd.SysProcAttr = &syscall.SysProcAttr{Setpgid: true}
	var out strings.Builder
	cmd.Stdout, cmd.Stderr = &out, &out
	start := time.Now()
	if err := cmd.Start(); err != nil {
		return nil, err
	}
	done := make(chan error, 1)
	go func() { done <- cmd.Wait() }()
	res := &Result{}
	select {
	case err = <-done:
		if err != nil {
			res.RC = 1
			if ee, ok := err.(*exec.ExitError); ok {
				res.RC = ee.ExitCode()
			}
		}
	case <-time.After(limit):
		// ask the Go runtime for a goroutine dump first (it goes to the captured output), then kill the group
		syscall.Kill(cmd.Process.Pid, syscall.SIGQUIT)
		select {
		case <-done:
		case <-time.After(3 * time.Second):
		}
		syscall.Kill(-cmd.Process.Pid, syscall.SIGKILL)
		select {
		case <-done:
		case <-time.After(5 * time.Second):
		}
		res.RC = 124
		if st, err := os.Stat(log); err == nil {
			res.Idle = time.Since(st.ModTime())
		} else {
			res.Idle = time.Since(start)
		}
	}
	res.Wall = time.Since(start)
	res.Output = out.String()
	seenRep := map[int]bool{}
	for _, l := range strings.Split(res.Output, "\n") {
		f := strings.TrimSpace(l)
		if strings.HasPrefix(f, "//p") && !strings.Contains(f, " ") {
			if j := strings.LastIndex(f, ":t"); j >= 0 {
				if n, err := strconv.Atoi(f[j+2:]); err == nil && !seenRep[n] && n < len(c.Targets) {
					seenRep[n] = true
					res.ReportedFailed = append(res.ReportedFailed, n)
				}
			}
		}
	}
	sort.Ints(res.ReportedFailed)
	b, _ := os.ReadFile(log)
	for _, l := range strings.Split(string(b), "\n") {
		if l == "" {
			continue
		}
		if e, ok := ParseEvents(l); ok && len(e) == 1 {
			res.Events = append(res.Events, e[0])
		} else {
			res.Events = append(res.Events, Event{'M', 9999}) // a torn or foreign line: the flock did not protect the log
		}
	}
	return res, nil
}

// Needed returns the targets reachable from the roots (the ones a successful build must build). For a query: what
// the packages of those targets subinclude, with its dependencies (and what their packages subinclude).
func (c *Case) Needed() map[int]bool {
	if c.Query {
		parsed := map[int]bool{}
		var walk func(i int)
		walk = func(i int) {
			if parsed[i] {
				return
			}
			parsed[i] = true
			for _, d := range c.EffDeps(i) {
				walk(d)
			}
		}
		for _, r := range c.Roots {
			walk(r)
		}
		forced := map[int]bool{}
		var force func(i int)
		force = func(i int) {
			if forced[i] {
				return
			}
			forced[i] = true
			for _, d := range c.EffDeps(i) {
				force(d)
			}
			for _, u := range c.SubsOf(c.Targets[i].Pkg) {
				force(u)
			}
		}
		for i := range parsed {
			for _, u := range c.SubsOf(c.Targets[i].Pkg) {
				force(u)
			}
		}
		return forced
	}
	seen := map[int]bool{}
	var visit func(i int)
	visit = func(i int) {
		if seen[i] {
			return
		}
		seen[i] = true
		for _, d := range c.EffDeps(i) {
			visit(d)
		}
		for _, u := range c.SubsOf(c.Targets[i].Pkg) {
			visit(u) // parsing the target's package builds what it subincludes
		}
	}
	for _, r := range c.Roots {
		visit(r)
	}
	return seen
}

// Violation is a failure of the property observed on the raw log.
type Violation struct{ Class, Detail string }

// CheckLog is the direct oracle of C04 on the raw action log: no second start, start only after every
// dependency's successful end, ends only for started targets, dependency outputs present.
func (c *Case) CheckLog(ev []Event) []Violation {
	var v []Violation
	started, ended, failed := map[int]int{}, map[int]bool{}, map[int]bool{}
	everStarted := map[int]bool{}
	for _, e := range ev {
		if e.Kind == 'S' && e.T < len(c.Targets) {
			everStarted[e.T] = true
		}
	}
	// failedBelow: some transitive dependency of i has logged a failure so far
	var failedBelow func(i int, seen map[int]bool) int
	failedBelow = func(i int, seen map[int]bool) int {
		for _, d := range c.EffDeps(i) {
			if seen[d] {
				continue
			}
			seen[d] = true
			if failed[d] {
				return d
			}
			if x := failedBelow(d, seen); x >= 0 {
				return x
			}
		}
		return -1
	}
	for pos, e := range ev {
		if e.T >= len(c.Targets) {
			v = append(v, Violation{"log-corrupt", fmt.Sprintf("event %d: %c%d", pos, e.Kind, e.T)})
			continue
		}
		switch e.Kind {
		case 'S':
			started[e.T]++
			if started[e.T] > 1 {
				v = append(v, Violation{"ran-twice", fmt.Sprintf("target %d started %d times", e.T, started[e.T])})
			}
			flagged := false
			for _, d := range c.EffDeps(e.T) {
				if ended[d] || (c.Warm && !everStarted[d] && c.Targets[d].Fail == "") {
					continue // built in this invocation, or (warm) up to date from the previous one
				}
				cls := "started-before-dependency-finished"
				if failed[d] {
					cls = "started-after-dependency-failed"
				}
				flagged = true
				v = append(v, Violation{cls, fmt.Sprintf("target %d started at event %d, dependency %d had not finished successfully", e.T, pos, d)})
			}
			for _, u := range c.SubsOf(c.Targets[e.T].Pkg) {
				if !ended[u] {
					v = append(v, Violation{"started-before-subinclude-built", fmt.Sprintf("target %d started at event %d, but its package subincludes target %d, which had not been built", e.T, pos, u)})
				}
			}
			if x := failedBelow(e.T, map[int]bool{}); x >= 0 && !flagged {
				v = append(v, Violation{"started-after-dependency-failed", fmt.Sprintf("target %d started at event %d although its (transitive) dependency %d had failed", e.T, pos, x)})
			}
		case 'E':
			if started[e.T] == 0 || ended[e.T] || failed[e.T] {
				v = append(v, Violation{"end-without-start", fmt.Sprintf("target %d", e.T)})
			}
			ended[e.T] = true
		case 'F':
			if started[e.T] == 0 || ended[e.T] || failed[e.T] {
				v = append(v, Violation{"end-without-start", fmt.Sprintf("target %d", e.T)})
			}
			failed[e.T] = true
		case 'M':
			v = append(v, Violation{"dependency-output-missing", fmt.Sprintf("target %d did not see a dependency's output", e.T)})
		}
	}
	return v
}

// Summary is the canonical outcome both sides print: which targets ended, which failed.
func Summary(ev []Event) (built, failed []int) {
	for _, e := range ev {
		switch e.Kind {
		case 'E':
			built = append(built, e.T)
		case 'F':
			failed = append(failed, e.T)
		}
	}
	sort.Ints(built)
	sort.Ints(failed)
	return
}

func Ints(xs []int) string {
	if len(xs) == 0 {
		return "-"
	}
	p := make([]string, len(xs))
	for i, x := range xs {
		p[i] = strconv.Itoa(x)
	}
	return strings.Join(p, ",")
}

// MaxConcurrent is the largest number of commands that were running at the same time.
func MaxConcurrent(ev []Event) int {
	cur, max := 0, 0
	for _, e := range ev {
		switch e.Kind {
		case 'S':
			cur++
			if cur > max {
				max = cur
			}
		case 'E', 'F':
			cur--
		}
	}
	return max
}
