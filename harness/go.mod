module verif/harness

go 1.26.1

require (
	github.com/thought-machine/please v0.0.0
	gopkg.in/op/go-logging.v1 v1.0.0-20160211212156-b2cb9fa56473
)

require (
	cloud.google.com/go/compute/metadata v0.9.0 // indirect
	cloud.google.com/go/longrunning v1.2.0 // indirect
	github.com/Masterminds/semver/v3 v3.5.0 // indirect
	github.com/alessio/shellescape v1.4.2 // indirect
	github.com/beorn7/perks v1.0.1 // indirect
	github.com/chzyer/readline v1.5.1 // indirect
	github.com/coreos/go-semver v0.3.1 // indirect
	github.com/dustin/go-humanize v1.0.1 // indirect
	github.com/golang/glog v1.2.5 // indirect
	github.com/google/shlex v0.0.0-20191202100458-e7afc7fbc510 // indirect
	github.com/google/uuid v1.6.0 // indirect
	github.com/grpc-ecosystem/go-grpc-middleware v1.4.0 // indirect
	github.com/grpc-ecosystem/go-grpc-prometheus v1.2.0 // indirect
	github.com/hashicorp/errwrap v1.1.0 // indirect
	github.com/hashicorp/go-cleanhttp v0.5.2 // indirect
	github.com/hashicorp/go-multierror v1.1.1 // indirect
	github.com/hashicorp/go-retryablehttp v0.7.8 // indirect
	github.com/jstemmer/go-junit-report/v2 v2.1.0 // indirect
	github.com/karrick/godirwalk v1.17.0 // indirect
	github.com/klauspost/compress v1.19.0 // indirect
	github.com/klauspost/cpuid/v2 v2.4.0 // indirect
	github.com/manifoldco/promptui v0.9.0 // indirect
	github.com/munnerz/goautoneg v0.0.0-20191010083416-a7dc8b61c822 // indirect
	github.com/peterebden/go-cli-init/v5 v5.2.1 // indirect
	github.com/peterebden/go-deferred-regex v1.1.0 // indirect
	github.com/peterebden/tools v0.0.0-20190805132753-b2a0db951d2a // indirect
	github.com/please-build/buildtools v0.0.0-20240111140234-77ffe55926d9 // indirect
	github.com/please-build/gcfg v1.7.0 // indirect
	github.com/prometheus/client_golang v1.23.2 // indirect
	github.com/prometheus/client_model v0.6.2 // indirect
	github.com/prometheus/common v0.70.0 // indirect
	github.com/prometheus/procfs v0.21.1 // indirect
	github.com/shirou/gopsutil/v3 v3.24.5 // indirect
	github.com/sourcegraph/go-diff v0.8.0 // indirect
	github.com/texttheater/golang-levenshtein v1.0.1 // indirect
	github.com/thought-machine/go-flags v1.7.0 // indirect
	github.com/tklauser/go-sysconf v0.4.0 // indirect
	github.com/tklauser/numcpus v0.12.0 // indirect
	golang.org/x/exp v0.0.0-20260709172345-9ea1abe57597 // indirect
	golang.org/x/net v0.57.0 // indirect
	golang.org/x/oauth2 v0.36.0 // indirect
	golang.org/x/sync v0.22.0 // indirect
	golang.org/x/sys v0.47.0 // indirect
	golang.org/x/term v0.45.0 // indirect
	golang.org/x/text v0.40.0 // indirect
	google.golang.org/genproto v0.0.0-20260706201446-f0a921348800 // indirect
	google.golang.org/genproto/googleapis/api v0.0.0-20260706201446-f0a921348800 // indirect
	google.golang.org/genproto/googleapis/bytestream v0.0.0-20260706201446-f0a921348800 // indirect
	google.golang.org/genproto/googleapis/rpc v0.0.0-20260706201446-f0a921348800 // indirect
	google.golang.org/grpc v1.82.0 // indirect
	gopkg.in/warnings.v0 v0.1.2 // indirect
)

replace github.com/thought-machine/please => /repo

require (
	github.com/anishathalye/porcupine v1.3.0
	github.com/bazelbuild/remote-apis v0.0.0-20260331222004-becdd8f9ff81
	github.com/bazelbuild/remote-apis-sdks v0.0.0-20260610142741-7ffd493e6686
	github.com/cespare/xxhash/v2 v2.3.0
	github.com/djherbis/atime v1.1.0
	github.com/pkg/xattr v0.4.12
	github.com/zeebo/blake3 v0.2.4
	google.golang.org/protobuf v1.36.11
)
