// Package lib holds what every correspondence harness shares: one seeded PRNG, the output files of the
// line protocol (ops.txt / impl.txt line for line, oracle.jsonl, stats.json) and small encoders.
package lib

import (
	"bufio"
	"encoding/hex"
	"encoding/json"
	"flag"
	"fmt"
	"os"
	"path/filepath"
	"sort"
	"strings"
)

// Rng is a splitmix64 generator: every random choice of a run derives from one state.
type Rng struct{ s uint64 }

// NewRng scrambles the seed first: with s = seed*G + c and G added per draw, seed k+1 would be seed k's
// stream shifted by one draw.
func NewRng(seed uint64) *Rng {
	z := seed + 0x9E3779B97F4A7C15
	z = (z ^ (z >> 30)) * 0xBF58476D1CE4E5B9
	z = (z ^ (z >> 27)) * 0x94D049BB133111EB
	return &Rng{s: z ^ (z >> 31)}
}
func (r *Rng) U64() uint64 {
	r.s += 0x9E3779B97F4A7C15
	z := r.s
	z = (z ^ (z >> 30)) * 0xBF58476D1CE4E5B9
	z = (z ^ (z >> 27)) * 0x94D049BB133111EB
	return z ^ (z >> 31)
}
func (r *Rng) Intn(n int) int {
	if n <= 0 {
		return 0
	}
	return int(r.U64() % uint64(n))
}
func (r *Rng) Bool() bool          { return r.U64()&1 == 1 }
func (r *Rng) Chance(p int) bool   { return r.Intn(100) < p } // p percent
func Pick[T any](r *Rng, xs []T) T { return xs[r.Intn(len(xs))] }
func Shuffle[T any](r *Rng, xs []T) {
	for i := len(xs) - 1; i > 0; i-- {
		j := r.Intn(i + 1)
		xs[i], xs[j] = xs[j], xs[i]
	}
}

// Run is one harness invocation.
type Run struct {
	Seed     uint64
	Tier     string // quick | thorough
	OutDir   string
	Replay   string // when set: path of an ops file to re-run instead of generating
	Rng      *Rng
	ops      *bufio.Writer
	impl     *bufio.Writer
	oracle   *bufio.Writer
	files    []*os.File
	evals    int
	nontriv  map[string]bool
	samples  []string
	dist     map[string]int
	oracleN  int
	Rule     string
	Exhaust  bool
	maxSampl int
}

// Start parses the common flags: -seed N -tier quick|thorough -out DIR [-replay FILE].
func Start() *Run {
	seed := flag.Uint64("seed", 1, "PRNG seed")
	tier := flag.String("tier", "quick", "quick|thorough")
	out := flag.String("out", "", "output directory")
	replay := flag.String("replay", "", "ops file to replay")
	flag.Parse()
	if *out == "" {
		fmt.Fprintln(os.Stderr, "need -out")
		os.Exit(2)
	}
	if err := os.MkdirAll(*out, 0o755); err != nil {
		panic(err)
	}
	r := &Run{Seed: *seed, Tier: *tier, OutDir: *out, Replay: *replay, Rng: NewRng(*seed),
		nontriv: map[string]bool{}, dist: map[string]int{}, maxSampl: 8}
	open := func(n string) *bufio.Writer {
		f, err := os.Create(filepath.Join(*out, n))
		if err != nil {
			panic(err)
		}
		r.files = append(r.files, f)
		return bufio.NewWriterSize(f, 1<<20)
	}
	r.ops, r.impl, r.oracle = open("ops.txt"), open("impl.txt"), open("oracle.jsonl")
	return r
}

func (r *Run) Thorough() bool { return r.Tier == "thorough" }

// N picks a case count by tier.
func (r *Run) N(quick, thorough int) int {
	if r.Thorough() {
		return thorough
	}
	return quick
}

// ReplayOps returns the op lines of the replay file (nil when generating).
func (r *Run) ReplayOps() []string {
	if r.Replay == "" {
		return nil
	}
	b, err := os.ReadFile(r.Replay)
	if err != nil {
		panic(err)
	}
	var out []string
	for _, l := range strings.Split(string(b), "\n") {
		l = strings.TrimRight(l, "\r")
		if l == "" || strings.HasPrefix(l, "#") {
			continue
		}
		out = append(out, l)
	}
	return out
}

func oneLine(s string) string {
	s = strings.ReplaceAll(s, "\n", "\\n")
	return strings.ReplaceAll(s, "\r", "\\r")
}

// Emit records one case: the op line fed to the model and the implementation's canonical output.
// nontrivial marks the case as counting towards distinct_nontrivial (deduplicated by op line).
func (r *Run) Emit(op, implOut string, nontrivial bool) {
	op, implOut = oneLine(op), oneLine(implOut)
	fmt.Fprintln(r.ops, op)
	fmt.Fprintln(r.impl, implOut)
	r.evals++
	if nontrivial {
		if !r.nontriv[op] {
			r.nontriv[op] = true
			if len(r.samples) < r.maxSampl && (len(r.nontriv)%97 == 1 || len(r.samples) < 3) {
				r.samples = append(r.samples, op+" => "+implOut)
			}
		}
	}
}

// Count adds to the generator-distribution histogram.
func (r *Run) Count(key string) { r.dist[key]++ }

// OracleFail records a failure of the property observed directly on the real code.
// class is the root-cause key matched against known_findings.json.
func (r *Run) OracleFail(class string, input any, detail string) {
	r.oracleN++
	r.dist["oracle_fail:"+class]++
	if r.dist["oracle_fail:"+class] > 50 { // keep the file small: 50 witnesses per class
		return
	}
	b, _ := json.Marshal(map[string]any{"class": class, "input": input, "detail": detail})
	r.oracle.Write(b)
	r.oracle.WriteByte('\n')
}

// Finish writes stats.json and closes the streams.
func (r *Run) Finish() {
	r.ops.Flush()
	r.impl.Flush()
	r.oracle.Flush()
	for _, f := range r.files {
		f.Close()
	}
	keys := make([]string, 0, len(r.dist))
	for k := range r.dist {
		keys = append(keys, k)
	}
	sort.Strings(keys)
	st := map[string]any{
		"evaluations": r.evals, "distinct_nontrivial": len(r.nontriv), "rule": r.Rule,
		"samples": r.samples, "distribution": r.dist, "exhaustive": r.Exhaust,
		"oracle_failures": r.oracleN, "seed": r.Seed, "tier": r.Tier,
	}
	b, _ := json.MarshalIndent(st, "", " ")
	if err := os.WriteFile(filepath.Join(r.OutDir, "stats.json"), b, 0o644); err != nil {
		panic(err)
	}
}

// Hex encodes a string for the line protocol ("-" for empty).
func Hex(s string) string {
	if s == "" {
		return "-"
	}
	return hex.EncodeToString([]byte(s))
}

func UnHex(s string) string {
	if s == "-" {
		return ""
	}
	b, err := hex.DecodeString(s)
	if err != nil {
		panic(err)
	}
	return string(b)
}

// Nats renders a list of small ints ("-" for empty).
func Nats[T ~int | ~uint8 | ~uint | ~int64](xs []T) string {
	if len(xs) == 0 {
		return "-"
	}
	p := make([]string, len(xs))
	for i, x := range xs {
		p[i] = fmt.Sprint(int64(x))
	}
	return strings.Join(p, ",")
}

func ParseNats(s string) []int {
	if s == "-" {
		return nil
	}
	var out []int
	for _, p := range strings.Split(s, ",") {
		var n int
		fmt.Sscan(p, &n)
		out = append(out, n)
	}
	return out
}

// Safely runs f and maps a panic to an error string (hooks must not kill the harness).
func Safely(f func() string) (out string) {
	defer func() {
		if e := recover(); e != nil {
			out = "panic"
		}
	}()
	return f()
}
