// e2ebuild: end-to-end correspondence for C01 (incremental = clean), C03 (no-op / cut-off) and C02 (cache restores)
// against Driver/E2EBuild.lean.  Generated repositories use a tiny command language (cat / catfirst / mkdir / const)
// that the Lean model interprets, so whole output trees and the exact set of executed actions are compared after
// every `plz build` of a generated edit history.  The real binary is $VERIF_PLZ.
package main

import (
	"encoding/hex"
	"flag"
	"fmt"
	"os"
	"os/exec"
	"path/filepath"
	"sort"
	"strings"
	"sync"
	"time"

	"github.com/thought-machine/please/src/core"
	"verif/harness/lib"
)

var mode = flag.String("mode", "c01", "c01|c03|c02")

type target struct {
	Label, Kind, Out, Const string
	Srcs                    []string
}

func pkgOf(label string) string  { return strings.SplitN(strings.TrimPrefix(label, "//"), ":", 2)[0] }
func nameOf(label string) string { return strings.SplitN(label, ":", 2)[1] }
func isLabel(s string) bool      { return strings.HasPrefix(s, "//") }
func hx(s string) string {
	if s == "" {
		return "-"
	}
	return hex.EncodeToString([]byte(s))
}

// ---------------------------------------------------------------- abstract repo state (generator + executor share it)

type repoState struct {
	files   map[string]string
	targets map[string]*target
	order   []string // definition order of labels
}

func newState() *repoState { return &repoState{files: map[string]string{}, targets: map[string]*target{}} }

func (s *repoState) apply(op string) bool {
	f := strings.Split(op, " ")
	switch f[0] {
	case "file":
		s.files[f[1]] = lib.UnHex(f[2])
	case "target":
		t := &target{Label: f[1], Kind: f[2], Out: f[4]}
		if f[3] != "-" {
			t.Srcs = strings.Split(f[3], ",")
		}
		if t.Kind == "const" || t.Kind == "text" {
			t.Const = lib.UnHex(f[5])
		}
		if _, ok := s.targets[t.Label]; !ok {
			s.order = append(s.order, t.Label)
		} else { // the model appends a redefined target at the end; order is irrelevant for plz
		}
		s.targets[t.Label] = t
	case "deltarget":
		delete(s.targets, f[1])
		for i, l := range s.order {
			if l == f[1] {
				s.order = append(s.order[:i:i], s.order[i+1:]...)
				break
			}
		}
	default:
		return false
	}
	return true
}

func (s *repoState) deps(l string) []string {
	var out []string
	for _, x := range s.targets[l].Srcs {
		if isLabel(x) {
			out = append(out, x)
		}
	}
	return out
}

// closure returns the dependency closure of req in post-order (nil if a label is undefined).
func (s *repoState) closure(req []string) []string {
	var order []string
	seen := map[string]bool{}
	ok := true
	var visit func(l string, depth int)
	visit = func(l string, depth int) {
		if seen[l] || !ok {
			return
		}
		if s.targets[l] == nil || depth > len(s.targets)+1 {
			ok = false
			return
		}
		seen[l] = true
		for _, d := range s.deps(l) {
			visit(d, depth+1)
		}
		order = append(order, l)
	}
	for _, l := range req {
		visit(l, 0)
	}
	if !ok {
		return nil
	}
	return order
}

func (s *repoState) dependents(l string) []string {
	var out []string
	for _, o := range s.order {
		for _, d := range s.deps(o) {
			if d == l {
				out = append(out, o)
			}
		}
	}
	return out
}

// ---------------------------------------------------------------- real repository on disk

type realRepo struct {
	root, home, log, plz string
	cache                string // "" = cache disabled
	compress             bool
	edits                int
}

const catBody = `if [ -d $f ]; then (cd $f && find . -type f | LC_ALL=C sort | while read g; do echo $g; cat $g; done); else cat $f; fi`

func (r *realRepo) cmdFor(t *target) string {
	pre := "echo " + t.Label + " >> " + r.log + "; "
	switch t.Kind {
	case "cat":
		return pre + "for f in $SRCS; do " + catBody + "; done > $OUT"
	case "catfirst":
		return pre + "set -- $SRCS; for f in ${1:-}; do " + catBody + "; done > $OUT"
	case "mkdir":
		return pre + "set -- $SRCS; mkdir $OUT; while read n c; do echo $c > $OUT/$n; done < $1"
	case "const":
		return pre + "echo " + t.Const + " > $OUT"
	case "catn":
		return pre + "for f in $SRCS; do echo $f; " + catBody + "; done > $OUT"
	case "catx":
		return pre + "for f in $SRCS; do " + catBody + "; done > $OUT; chmod +x $OUT"
	case "opt":
		return pre + "for f in $SRCS; do " + catBody + "; done > $OUT; if grep -q hello $OUT; then cp $OUT $OUT.extra; fi"
	}
	panic("kind " + t.Kind)
}

// putFile brings one file to the wanted content the way a user would: untouched when equal, otherwise edited IN PLACE
// (same inode — what `echo >> f` or most editors' "write in place" do) or, for every third change, replaced by rename.
func (r *realRepo) putFile(path string, content []byte) error {
	if old, err := os.ReadFile(path); err == nil && string(old) == string(content) {
		return nil
	}
	os.MkdirAll(filepath.Dir(path), 0o755)
	r.edits++
	if r.edits%3 == 0 {
		tmp := path + ".tmp~"
		if err := os.WriteFile(tmp, content, 0o644); err != nil {
			return err
		}
		return os.Rename(tmp, path)
	}
	return os.WriteFile(path, content, 0o644) // truncates and rewrites the existing inode
}

func (r *realRepo) write(s *repoState) error {
	want := map[string][]byte{}
	cfg := "[cache]\ndir = " + r.cache + "\n"
	if r.compress {
		cfg += "dircompress = true\n"
	}
	want[".plzconfig"] = []byte(cfg)
	for p, c := range s.files {
		want[p] = []byte(c)
	}
	byPkg := map[string][]string{}
	for _, l := range s.order {
		byPkg[pkgOf(l)] = append(byPkg[pkgOf(l)], l)
	}
	for pkg, ls := range byPkg {
		var b strings.Builder
		for _, l := range ls {
			t := s.targets[l]
			srcs := make([]string, len(t.Srcs))
			for i, x := range t.Srcs {
				srcs[i] = fmt.Sprintf("%q", x)
			}
			switch t.Kind {
			case "fg":
				fmt.Fprintf(&b, "filegroup(name=%q, srcs=[%s], visibility=[\"PUBLIC\"])\n", nameOf(l), strings.Join(srcs, ", "))
			case "text":
				fmt.Fprintf(&b, "text_file(name=%q, out=%q, content=%q, visibility=[\"PUBLIC\"])\n", nameOf(l), t.Out, t.Const)
			case "opt":
				fmt.Fprintf(&b, "genrule(name=%q, srcs=[%s], outs=[%q], optional_outs=[\"*.extra\"], cmd=%q, visibility=[\"PUBLIC\"])\n",
					nameOf(l), strings.Join(srcs, ", "), t.Out, r.cmdFor(t))
			default:
				fmt.Fprintf(&b, "genrule(name=%q, srcs=[%s], outs=[%q], cmd=%q, visibility=[\"PUBLIC\"])\n",
					nameOf(l), strings.Join(srcs, ", "), t.Out, r.cmdFor(t))
			}
		}
		want[filepath.Join(pkg, "BUILD")] = []byte(b.String())
	}
	// remove what is no longer part of the tree (never plz-out)
	filepath.Walk(r.root, func(p string, info os.FileInfo, err error) error {
		if err != nil || p == r.root {
			return nil
		}
		rel, _ := filepath.Rel(r.root, p)
		if rel == "plz-out" {
			return filepath.SkipDir
		}
		if !info.IsDir() {
			if _, ok := want[rel]; !ok {
				os.Remove(p)
			}
		}
		return nil
	})
	keys := make([]string, 0, len(want))
	for k := range want {
		keys = append(keys, k)
	}
	sort.Strings(keys)
	for _, k := range keys {
		if err := r.putFile(filepath.Join(r.root, k), want[k]); err != nil {
			return err
		}
	}
	return nil
}

func (r *realRepo) build(labels []string) (ran []string, rc int, out string) {
	before := readLog(r.log)
	args := append([]string{"build", "-p", "-v", "error", "--noupdate", "-n", "4"}, labels...)
	cmd := exec.Command(r.plz, args...)
	cmd.Dir = r.root
	cmd.Env = []string{"HOME=" + r.home, "XDG_CACHE_HOME=" + r.home + "/.cache", "XDG_CONFIG_HOME=" + r.home + "/.config",
		"PATH=/usr/local/bin:/usr/bin:/bin", "LC_ALL=C"}
	done := make(chan struct{})
	var b []byte
	var err error
	go func() { b, err = cmd.CombinedOutput(); close(done) }()
	select {
	case <-done:
	case <-time.After(120 * time.Second):
		cmd.Process.Kill()
		<-done
		return nil, 124, "timeout"
	}
	if err != nil {
		rc = 1
		if ee, ok := err.(*exec.ExitError); ok {
			rc = ee.ExitCode()
		}
	}
	after := readLog(r.log)
	ran = append(ran, after[len(before):]...)
	sort.Strings(ran)
	return ran, rc, string(b)
}

func readLog(p string) []string {
	b, err := os.ReadFile(p)
	if err != nil {
		return nil
	}
	return strings.Fields(string(b))
}

// snapshot of one target's output under plz-out/gen as the canonical tree rendering of the driver.
func (r *realRepo) tree(t *target) string {
	p := filepath.Join(r.root, "plz-out/gen", pkgOf(t.Label), t.Out)
	st, err := os.Lstat(p)
	if err != nil {
		return "missing"
	}
	if !st.IsDir() {
		b, _ := os.ReadFile(p)
		if t.Kind == "opt" {
			if x, err := os.ReadFile(p + ".extra"); err == nil {
				return "f:" + hx(string(b)) + "+x:" + hx(string(x))
			}
		}
		if st.Mode()&0o111 != 0 {
			return "fx:" + hx(string(b))
		}
		return "f:" + hx(string(b))
	}
	ents, _ := os.ReadDir(p)
	parts := []string{}
	for _, e := range ents {
		if e.IsDir() {
			parts = append(parts, e.Name()+"=DIR")
			continue
		}
		b, _ := os.ReadFile(filepath.Join(p, e.Name()))
		parts = append(parts, e.Name()+"="+hx(string(b)))
	}
	return "d:" + strings.Join(parts, ",")
}

func (r *realRepo) snapshot(s *repoState, order []string) (string, map[string]string) {
	sorted := append([]string{}, order...)
	sort.Strings(sorted)
	m := map[string]string{}
	parts := make([]string, len(sorted))
	for i, l := range sorted {
		m[l] = r.tree(s.targets[l])
		parts[i] = l + "=" + m[l]
	}
	return strings.Join(parts, ";"), m
}

// contentOnly erases entry names from a tree rendering (the class predicate of the directory-hash finding).
func contentOnly(tree string) string {
	if strings.HasPrefix(tree, "fx:") {
		return "\x00mode-x" + decodeHex(tree[3:])
	}
	if strings.HasPrefix(tree, "f:") {
		if i := strings.Index(tree, "+x:"); i >= 0 {
			return decodeHex(tree[2:i]) + "\x00+x" + decodeHex(tree[i+3:])
		}
		return decodeHex(tree[2:])
	}
	if strings.HasPrefix(tree, "d:") {
		var b strings.Builder
		if tree[2:] == "" {
			return ""
		}
		for _, e := range strings.Split(tree[2:], ",") {
			kv := strings.SplitN(e, "=", 2)
			b.WriteString(decodeHex(kv[1]))
		}
		return b.String()
	}
	return "\x00" + tree
}

// hasDirInput: does the target (transitively) consume a directory output?
func hasDirInput(s *repoState, l string, trees map[string]string) bool {
	for _, d := range s.closure([]string{l}) {
		if d != l && strings.HasPrefix(trees[d], "d:") {
			return true
		}
	}
	return false
}

// eraseEntryNameLines drops the "./name" lines that cat/catn print for the entries of a directory input.
func eraseEntryNameLines(tree string) string {
	body := tree
	for _, p := range []string{"fx:", "f:"} {
		if strings.HasPrefix(body, p) {
			body = body[len(p):]
			break
		}
	}
	if i := strings.Index(body, "+x:"); i >= 0 {
		body = body[:i]
	}
	var out []string
	for _, ln := range strings.Split(decodeHex(body), "\n") {
		if !strings.HasPrefix(ln, "./") {
			out = append(out, ln)
		}
	}
	return strings.Join(out, "\n")
}

func decodeHex(s string) string {
	if s == "-" {
		return ""
	}
	b, err := hex.DecodeString(s)
	if err != nil {
		return "\x00" + s
	}
	return string(b)
}

// ---------------------------------------------------------------- generator

var filePool = []string{"x.txt", "y.txt", "names.txt", "n2.txt"}
var textPool = []string{"hello\n", "world\n", "hello\nworld\n", "", "x", "xy", "y\n"}
var namesPool = []string{"a 1\nb 2\n", "a 1\nz 2\n", "a 12\n", "a 1\n", "b 1\na 2\n", "c 1\nb 2\n", "a 2\nb 1\n", "a 1\nb 2\nc 3\n", "ab 1\n"}
var constPool = []string{"k1", "k2", "v"}

type gen struct {
	r   *lib.Rng
	s   *repoState
	ops []string
	n   int
}

func (g *gen) emit(op string) { g.ops = append(g.ops, op); g.s.apply(op) }

func (g *gen) isNames(path string) bool { return strings.Contains(path, "names") || strings.Contains(path, "n2") }

func (g *gen) writeFile(pkg, name string) {
	p := pkg + "/" + name
	var c string
	if g.isNames(p) {
		c = lib.Pick(g.r, namesPool)
	} else {
		c = lib.Pick(g.r, textPool)
	}
	g.emit("file " + p + " " + hx(c))
}

func (g *gen) ensureFile(pkg, name string) {
	if _, ok := g.s.files[pkg+"/"+name]; !ok {
		g.writeFile(pkg, name)
	}
}

func (g *gen) targetOp(t *target) string {
	srcs := "-"
	if len(t.Srcs) > 0 {
		srcs = strings.Join(t.Srcs, ",")
	}
	op := fmt.Sprintf("target %s %s %s %s", t.Label, t.Kind, srcs, t.Out)
	if t.Kind == "const" || t.Kind == "text" {
		op += " " + hx(t.Const)
	}
	return op
}

// randomDef builds a (re)definition of label whose label-dependencies come from `avail` (keeps the graph acyclic).
func (g *gen) randomDef(label string, avail []string, out string) *target {
	pkg := pkgOf(label)
	t := &target{Label: label, Out: out}
	switch g.r.Intn(17) {
	case 0:
		if g.r.Bool() {
			t.Kind, t.Const = "const", lib.Pick(g.r, constPool)
		} else {
			t.Kind, t.Const = "text", lib.Pick(g.r, []string{"k1", "line one\nline two\n", "", "v\n"})
		}
	case 10:
		t.Kind = "catn"
	case 11:
		if g.r.Bool() {
			t.Kind = "catn"
		} else {
			t.Kind = "catx"
		}
	case 12, 14:
		t.Kind = "opt"
	case 13, 15, 16:
		if strings.HasSuffix(out, ".out") || strings.HasSuffix(out, ".o2") { // only for fresh definitions: out = source name
			t.Kind = "fg"
			f := lib.Pick(g.r, []string{"x.txt", "y.txt"})
			g.ensureFile(pkg, f)
			t.Srcs = []string{f}
			t.Out = f
		} else {
			t.Kind = "cat"
		}
	case 1, 2, 3:
		t.Kind = "mkdir"
		f := lib.Pick(g.r, []string{"names.txt", "n2.txt"})
		g.ensureFile(pkg, f)
		t.Srcs = []string{f}
	case 4, 5:
		t.Kind = "catfirst"
	default:
		t.Kind = "cat"
	}
	if t.Kind == "opt" { // optional_outs=["*.extra"] is a package-level glob: keep the output of an opt target at the top level
		t.Out = strings.TrimPrefix(t.Out, "sub/")
	}
	if t.Kind == "cat" || t.Kind == "catfirst" || t.Kind == "catn" || t.Kind == "opt" || t.Kind == "catx" {
		nf := g.r.Intn(3)
		fs := append([]string{}, filePool...)
		lib.Shuffle(g.r, fs)
		for _, f := range fs[:nf] {
			g.ensureFile(pkg, f)
			t.Srcs = append(t.Srcs, f)
		}
		av := append([]string{}, avail...)
		lib.Shuffle(g.r, av)
		if g.r.Bool() { // filegroups first: their outputs are hard links to sources, a path of its own through the hasher
			sort.SliceStable(av, func(i, j int) bool {
				return g.s.targets[av[i]].Kind == "fg" && g.s.targets[av[j]].Kind != "fg"
			})
		}
		nd := g.r.Intn(3)
		if nd > len(av) {
			nd = len(av)
		}
		if len(av) > 0 && nd == 0 && g.r.Chance(60) {
			nd = 1
		}
		t.Srcs = append(t.Srcs, av[:nd]...)
	}
	return t
}

func (g *gen) newLabel() (string, string) {
	g.n++
	pkg := lib.Pick(g.r, []string{"p", "q", "p"})
	name := fmt.Sprintf("t%d", g.n)
	out := name + ".out"
	if g.r.Chance(25) { // a declared output below a sub-directory of the package: parent creation, archive member paths
		out = "sub/" + out
	}
	return "//" + pkg + ":" + name, out
}

// earlier returns the labels that can be depended on by `label` without creating a cycle: those that do not
// (transitively) depend on it.
func (g *gen) safeDeps(label string) []string {
	bad := map[string]bool{label: true}
	changed := true
	for changed {
		changed = false
		for _, l := range g.s.order {
			if bad[l] {
				continue
			}
			for _, d := range g.s.deps(l) {
				if bad[d] {
					bad[l] = true
					changed = true
				}
			}
		}
	}
	var out []string
	for _, l := range g.s.order {
		if !bad[l] {
			out = append(out, l)
		}
	}
	return out
}

func (g *gen) edit(run *lib.Run) {
	labels := g.s.order
	switch k := g.r.Intn(12); {
	case k <= 3 && len(g.s.files) > 0: // edit a source file
		paths := make([]string, 0, len(g.s.files))
		for p := range g.s.files {
			paths = append(paths, p)
		}
		sort.Strings(paths)
		p := lib.Pick(g.r, paths)
		g.writeFile(filepath.Dir(p), filepath.Base(p))
		run.Count("edit-file")
	case k <= 5 && len(labels) > 0: // redefine a target (kind / srcs / const text), same output name
		l := lib.Pick(g.r, labels)
		if g.s.targets[l].Kind == "fg" { // a filegroup's output name is its source: keep it as it is
			run.Count("edit-none")
			return
		}
		t := g.randomDef(l, g.safeDeps(l), g.s.targets[l].Out)
		// optional outputs linger on disk under <out>.extra (known finding): keep that confined to targets that are
		// and stay of kind opt, so the snapshot rule "an opt target's tree includes <out>.extra" is exact
		if (g.s.targets[l].Kind == "opt") != (t.Kind == "opt") {
			if t.Kind == "cat" || t.Kind == "catfirst" || t.Kind == "catn" || t.Kind == "opt" {
				t.Kind = g.s.targets[l].Kind
				if t.Kind != "opt" && t.Kind != "cat" && t.Kind != "catfirst" && t.Kind != "catn" {
					run.Count("edit-none")
					return
				}
			} else {
				run.Count("edit-none")
				return
			}
		}
		// a consumer of a directory must stay well-formed for mkdir consumers: mkdir reads a file, never a label
		g.emit(g.targetOp(t))
		run.Count("edit-redefine")
	case k == 6: // add a target
		l, out := g.newLabel()
		g.emit(g.targetOp(g.randomDef(l, append([]string{}, g.s.order...), out)))
		run.Count("edit-add-target")
	case k == 7 && len(labels) > 1: // delete a target nobody depends on
		var cand []string
		for _, l := range labels {
			if len(g.s.dependents(l)) == 0 {
				cand = append(cand, l)
			}
		}
		if len(cand) > 0 && len(labels) > 2 {
			g.emit("deltarget " + lib.Pick(g.r, cand))
			run.Count("edit-del-target")
		}
	case k == 8 && len(labels) > 0: // rename an output
		l := lib.Pick(g.r, labels)
		t := *g.s.targets[l]
		if t.Kind == "fg" {
			run.Count("edit-none")
			return
		}
		if strings.HasSuffix(t.Out, ".out") {
			t.Out = strings.TrimSuffix(t.Out, ".out") + ".o2"
		} else {
			t.Out = strings.TrimSuffix(t.Out, ".o2") + ".out"
		}
		g.emit(g.targetOp(&t))
		run.Count("edit-rename-out")
	case k == 9 && len(labels) > 0: // user removes an output from plz-out
		g.ops = append(g.ops, "rmout "+lib.Pick(g.r, labels))
		run.Count("edit-rmout")
	case k == 10 && *mode == "c02":
		g.ops = append(g.ops, "wipe")
		run.Count("edit-wipe")
	default:
		run.Count("edit-none")
	}
}

func (g *gen) history(run *lib.Run, steps int) []string {
	g.ops = []string{"reset"}
	if *mode == "c02" {
		if g.r.Chance(50) {
			g.ops = append(g.ops, "cacheon")
		} else {
			g.ops = append(g.ops, "cacheon z") // dircompress = true
		}
		if g.r.Chance(50) { // CollapseHash cross-check on a random 80-byte key (sometimes with rule = postRule)
			key := make([]byte, 80)
			for i := range key {
				key[i] = byte(g.r.Intn(256))
			}
			if g.r.Chance(50) {
				copy(key[20:40], key[0:20])
			}
			g.ops = append(g.ops, "collapse "+hex.EncodeToString(key))
		}
	}
	g.s = newState()
	nt := 2 + g.r.Intn(4)
	for i := 0; i < nt; i++ {
		l, out := g.newLabel()
		g.emit(g.targetOp(g.randomDef(l, append([]string{}, g.s.order...), out)))
	}
	sinks := func() []string {
		var req []string
		for _, l := range g.s.order {
			if len(g.s.dependents(l)) == 0 {
				req = append(req, l)
			}
		}
		return req
	}
	buildOps := func(req []string) {
		g.ops = append(g.ops, "build "+strings.Join(req, ","))
		if *mode != "c03" || g.r.Chance(30) {
			g.ops = append(g.ops, "clean "+strings.Join(req, ","))
		}
	}
	// source files (transitively) used by the requested targets
	filesOf := func(req []string) []string {
		var out []string
		seen := map[string]bool{}
		for _, l := range g.s.closure(req) {
			for _, x := range g.s.targets[l].Srcs {
				if !isLabel(x) && !seen[pkgOf(l)+"/"+x] {
					seen[pkgOf(l)+"/"+x] = true
					out = append(out, pkgOf(l)+"/"+x)
				}
			}
		}
		sort.Strings(out)
		return out
	}
	for st := 0; st < steps; st++ {
		switch tpl := g.r.Intn(10); {
		case st > 0 && tpl <= 1 && len(g.s.files) > 0:
			// template "no-op, then edit": build, build again with nothing changed, edit one source in place, build
			req := sinks()
			buildOps(req)
			buildOps(req)
			if fs := filesOf(req); len(fs) > 0 {
				f := lib.Pick(g.r, fs)
				// half of the time prefer a file that reaches the build through a filegroup (hard link into plz-out)
				var viaFg []string
				for _, l := range g.s.closure(req) {
					if t := g.s.targets[l]; t.Kind == "fg" && len(t.Srcs) == 1 {
						viaFg = append(viaFg, pkgOf(l)+"/"+t.Srcs[0])
					}
				}
				if len(viaFg) > 0 && g.r.Bool() {
					f = lib.Pick(g.r, viaFg)
					run.Count("template-noop-then-edit-via-filegroup")
				}
				g.writeFile(filepath.Dir(f), filepath.Base(f))
			}
			buildOps(req)
			run.Count("template-noop-then-edit")
			continue
		case st > 0 && tpl <= 3 && len(g.s.files) > 0:
			// template "A, B, A": build state A, move one source to another content, build, (wipe plz-out), restore A, build
			req := sinks()
			fs := filesOf(req)
			if len(fs) == 0 {
				break
			}
			f := lib.Pick(g.r, fs)
			a := g.s.files[f]
			buildOps(req)
			g.writeFile(filepath.Dir(f), filepath.Base(f))
			buildOps(req)
			if *mode == "c02" && g.r.Chance(60) {
				g.ops = append(g.ops, "wipe")
				run.Count("edit-wipe")
			}
			g.emit("file " + f + " " + hx(a))
			buildOps(req)
			run.Count("template-aba")
			continue
		case st > 0 && tpl == 4:
			// template "cut-off, then nothing": edit an input that a catfirst target ignores (its action re-runs, the
			// output is byte-identical), build, then build the unchanged tree twice: nothing may run
			req := sinks()
			var ignored []string
			for _, l := range g.s.closure(req) {
				if t := g.s.targets[l]; t.Kind == "catfirst" {
					for _, x := range t.Srcs[min(1, len(t.Srcs)):] {
						if !isLabel(x) {
							ignored = append(ignored, pkgOf(l)+"/"+x)
						}
					}
				}
			}
			if len(ignored) == 0 {
				break
			}
			buildOps(req)
			f := lib.Pick(g.r, ignored)
			g.writeFile(filepath.Dir(f), filepath.Base(f))
			buildOps(req)
			buildOps(req)
			buildOps(req)
			run.Count("template-cutoff-then-noop")
			continue
		}
		if st > 0 {
			ne := g.r.Intn(3)
			if ne == 0 {
				run.Count("step-no-edit")
			}
			for e := 0; e < ne; e++ {
				g.edit(run)
			}
		}
		// what to build: usually the sinks, sometimes a random subset
		var req []string
		if g.r.Chance(60) {
			req = sinks()
		} else {
			for _, l := range g.s.order {
				if g.r.Chance(40) {
					req = append(req, l)
				}
			}
			if len(req) == 0 {
				req = []string{lib.Pick(g.r, g.s.order)}
			}
		}
		buildOps(req)
		if g.r.Chance(25) { // the same request again on the unchanged tree
			buildOps(req)
			run.Count("step-repeat-build")
		}
	}
	return g.ops
}

// ---------------------------------------------------------------- executor + oracles

type result struct {
	op, out    string
	nontrivial bool
}
type oracleFail struct{ class, detail string }

func splitHistories(ops []string) [][]string {
	var hs [][]string
	for _, op := range ops {
		if op == "reset" || len(hs) == 0 {
			hs = append(hs, nil)
		}
		hs[len(hs)-1] = append(hs[len(hs)-1], op)
	}
	return hs
}

func runHistory(idx int, ops []string, scratch, plz string) ([]result, []oracleFail, map[string]int) {
	dir := filepath.Join(scratch, fmt.Sprintf("h%d", idx))
	os.RemoveAll(dir)
	defer os.RemoveAll(dir)
	mk := func(p string) string { os.MkdirAll(filepath.Join(dir, p), 0o755); return filepath.Join(dir, p) }
	rr := &realRepo{root: mk("repo"), home: mk("home"), log: filepath.Join(dir, "log"), plz: plz}
	if *mode == "c02" {
		rr.cache = mk("cache")
	}
	s := newState()
	var res []result
	var fails []oracleFail
	counts := map[string]int{}
	histText := strings.Join(ops, "\n")
	nclean := 0
	// C03 oracle state: for every label, the definition and the full input trees it was last built from
	lastInputs := map[string]string{}
	lastIncr := map[string]string{} // label -> tree after the last incremental build
	inputKey := func(l string, trees map[string]string) string {
		t := s.targets[l]
		var b strings.Builder
		fmt.Fprintf(&b, "%s|%s|%s|%s|", t.Kind, t.Out, t.Const, strings.Join(t.Srcs, ","))
		for _, x := range t.Srcs {
			if isLabel(x) {
				fmt.Fprintf(&b, "[%s %s=%s]", x, s.targets[x].Out, trees[x])
			} else {
				fmt.Fprintf(&b, "[%s=%s]", x, hx(s.files[pkgOf(l)+"/"+x]))
			}
		}
		return b.String()
	}
	for _, op := range ops {
		f := strings.Split(op, " ")
		switch f[0] {
		case "reset":
			res = append(res, result{op, "ok", false})
		case "file", "target", "deltarget":
			if !s.apply(op) {
				res = append(res, result{op, "bad-op", false})
				continue
			}
			res = append(res, result{op, "ok", false})
		case "rmout":
			if t := s.targets[f[1]]; t != nil {
				os.RemoveAll(filepath.Join(rr.root, "plz-out/gen", pkgOf(t.Label), t.Out))
				// the model's `remove` drops the whole tree of the target, optional output included (a `fileOpt` is one
				// tree): remove the discovered `<out>.extra` as well, otherwise a later cache hit shows a lingering extra
				// the model cannot represent (seen: hello -> x -> world, rmout, build = hit)
				os.RemoveAll(filepath.Join(rr.root, "plz-out/gen", pkgOf(t.Label), t.Out+".extra"))
				delete(lastInputs, f[1])
			}
			res = append(res, result{op, "ok", false})
		case "wipe":
			os.RemoveAll(filepath.Join(rr.root, "plz-out"))
			lastInputs = map[string]string{}
			res = append(res, result{op, "ok", false})
		case "cacheon":
			if len(f) > 1 && f[1] == "z" {
				rr.compress = true
				counts["history-dircompress"]++
			} else {
				counts["history-dircache-plain"]++
			}
			res = append(res, result{op, "ok", false})
		case "collapse":
			key, _ := hex.DecodeString(f[1])
			res = append(res, result{op, hex.EncodeToString(core.CollapseHash(key)), true})
		case "build":
			req := strings.Split(f[1], ",")
			order := s.closure(req)
			if order == nil {
				res = append(res, result{op, "error", false})
				continue
			}
			if err := rr.write(s); err != nil {
				panic(err)
			}
			ran, rc, out := rr.build(req)
			if rc != 0 {
				res = append(res, result{op, fmt.Sprintf("error:%d", rc), false})
				fails = append(fails, oracleFail{"build-failed-unexpectedly", histText + "\n# plz output: " + strings.ReplaceAll(out, "\n", " | ")})
				continue
			}
			snap, trees := rr.snapshot(s, order)
			res = append(res, result{op, "ran=" + strings.Join(ran, ",") + "|" + snap, len(order) >= 2})
			counts[fmt.Sprintf("build-ran-%d", min(len(ran), 4))]++
			// C03 oracle: an action runs only if its definition, an input tree (names and contents) or the
			// presence of its output changed since it was last built. (cache mode: restores do not run actions.)
			for _, l := range ran {
				key := inputKey(l, trees)
				if old, ok := lastInputs[l]; ok && old == key && *mode != "c02" {
					fails = append(fails, oracleFail{"action-rerun-with-unchanged-inputs", histText + "\n# re-ran " + l + " at: " + op})
				}
			}
			for _, l := range order {
				lastInputs[l] = inputKey(l, trees)
				lastIncr[l] = trees[l]
			}
			if len(ran) == 0 {
				counts["build-noop"]++
			}
			if len(ran) > 0 && len(ran) < len(order) {
				counts["build-partial-rebuild"]++
			}
		case "clean":
			req := strings.Split(f[1], ",")
			order := s.closure(req)
			if order == nil {
				res = append(res, result{op, "error", false})
				continue
			}
			nclean++
			cr := &realRepo{root: mk(fmt.Sprintf("clean%d/repo", nclean)), home: mk(fmt.Sprintf("clean%d/home", nclean)),
				log: filepath.Join(dir, fmt.Sprintf("clean%d/log", nclean)), plz: plz}
			if err := cr.write(s); err != nil {
				panic(err)
			}
			_, rc, out := cr.build(req)
			if rc != 0 {
				res = append(res, result{op, fmt.Sprintf("error:%d", rc), false})
				fails = append(fails, oracleFail{"clean-build-failed-unexpectedly", histText + "\n# plz output: " + strings.ReplaceAll(out, "\n", " | ")})
				os.RemoveAll(filepath.Join(dir, fmt.Sprintf("clean%d", nclean)))
				continue
			}
			snap, trees := cr.snapshot(s, order)
			res = append(res, result{op, "clean|" + snap, len(order) >= 2})
			os.RemoveAll(filepath.Join(dir, fmt.Sprintf("clean%d", nclean)))
			// C01/C02 oracle: the incremental tree equals the clean tree for every target of the closure.
			for _, l := range order { // dependency order: classify on the first differing target
				if *mode == "c03" {
					break // C03 is about which actions run; staleness of outputs is C01's/C02's oracle
				}
				if lastIncr[l] != trees[l] {
					class := "incremental-differs-from-clean"
					if contentOnly(lastIncr[l]) == contentOnly(trees[l]) && lastIncr[l] != "missing" {
						class = "stale-output-dir-hash-ignores-entry-names"
					} else if strings.HasPrefix(lastIncr[l], "f") && strings.HasPrefix(trees[l], "f") && hasDirInput(s, l, trees) &&
						eraseEntryNameLines(lastIncr[l]) == eraseEntryNameLines(trees[l]) {
						// the same root cause one step later: this target's own definition and its inputs' CONTENT hashes are those
						// of an earlier state whose directory input differed only in entry names, so its stamp / cache key matched and
						// a stale output was kept or restored; the two outputs differ only in the "./name" lines that list the entries
						class = "stale-output-dir-hash-ignores-entry-names"
					} else if strings.TrimPrefix(strings.TrimPrefix(lastIncr[l], "fx:"), "f:") == strings.TrimPrefix(strings.TrimPrefix(trees[l], "fx:"), "f:") &&
						(strings.HasPrefix(lastIncr[l], "f") && strings.HasPrefix(trees[l], "f")) && !strings.Contains(lastIncr[l], "+x:") && !strings.Contains(trees[l], "+x:") {
						class = "stale-output-mode-not-hashed" // same bytes, executable bit differs from the clean build
					} else if i := strings.Index(lastIncr[l], "+x:"); i >= 0 && !strings.Contains(trees[l], "+x:") && lastIncr[l][:i] == trees[l] {
						class = "stale-optional-output-lingers" // declared output right; an optional output no longer produced is still there
					}
					fails = append(fails, oracleFail{class, histText + "\n# first stale target " + l + ": incremental " + lastIncr[l] + " clean " + trees[l] + " at: " + op})
					counts["oracle:"+class]++
					break
				}
			}
		default:
			res = append(res, result{op, "bad-op", false})
		}
	}
	return res, fails, counts
}

func min(a, b int) int {
	if a < b {
		return a
	}
	return b
}

func main() {
	r := lib.Start()
	defer r.Finish()
	r.Rule = "a build/clean step whose dependency closure has at least two targets; distinct by (history index, op line)"
	plz := os.Getenv("VERIF_PLZ")
	scratch := os.Getenv("VERIF_SCRATCH")
	if scratch == "" {
		scratch = r.OutDir
	}
	scratch, _ = filepath.Abs(filepath.Join(scratch, "e2e"))
	os.MkdirAll(scratch, 0o755)
	defer os.RemoveAll(scratch)
	var ops []string
	if rp := r.ReplayOps(); rp != nil {
		ops = rp
	} else {
		g := &gen{r: r.Rng}
		nh := r.N(20, 150)
		for i := 0; i < nh; i++ {
			ops = append(ops, g.history(r, 4+r.Rng.Intn(4))...)
		}
	}
	hs := splitHistories(ops)
	type hres struct {
		res    []result
		fails  []oracleFail
		counts map[string]int
	}
	out := make([]hres, len(hs))
	var wg sync.WaitGroup
	sem := make(chan struct{}, 8)
	for i := range hs {
		wg.Add(1)
		sem <- struct{}{}
		go func(i int) {
			defer wg.Done()
			defer func() { <-sem }()
			a, b, c := runHistory(i, hs[i], scratch, plz)
			for _, f := range b { // a build that fails may be the machine (load, OOM kill): re-run the whole history once
				if strings.Contains(f.class, "failed-unexpectedly") {
					a, b, c = runHistory(i, hs[i], scratch, plz)
					if c == nil {
						c = map[string]int{}
					}
					c["history-rerun-after-failed-build"]++
					break
				}
			}
			out[i] = hres{a, b, c}
		}(i)
	}
	wg.Wait()
	for i, h := range out {
		for _, x := range h.res {
			// distinctness: prefix with history index through the count key, op line itself stays replayable
			r.Emit(x.op, x.out, x.nontrivial && (strings.HasPrefix(x.op, "build") || strings.HasPrefix(x.op, "clean")))
		}
		for _, f := range h.fails {
			r.OracleFail(f.class, f.detail, fmt.Sprintf("history %d", i))
		}
		for k, v := range h.counts {
			for j := 0; j < v; j++ {
				r.Count(k)
			}
		}
	}
}
