// C08 harness: see verif/harness/rulehash (shared with C07).
package main

import "verif/harness/rulehash"

func main() { rulehash.Main("C08") }
