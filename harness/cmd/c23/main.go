// C23 harness: query.Deps, query.FindRevdeps and query.SomePath of the real code on real core.BuildGraph
// objects, against the Lean model (Driver/C23.lean, exact output) and against an independent reference
// (weighted breadth-first distances / reachability) — the direct oracle.
//
// Op lines (ids are creation indices 0..n-1; labels that are not targets get ids >= n):
//
//	deps     <hidden 0|1> <level u|N> <roots> <names> <nodes> <adj> <pl> <hid>
//	revdeps  <hidden 0|1> <level u|N> <roots> <names> <nodes> <adj> <pl> <hid>
//	somepath <showHidden 0|1> <from> <to>      <names> <nodes> <adj> <pl> <hid>
//
//	<names>  pkg:name per id (only the Go side reads it: it rebuilds the graph from it on replay)
//	<nodes>  ids in graph.AllTargets() order
//	<adj>    id:deps;…  deps = DeclaredDependencies() flattened through ProvideFor, in that order
//	<pl>     id of label.Parent() per id (own id when the label has no parent)
//	<hid>    label.IsHidden() per id, as a 0/1 string
//
// Outputs: deps "id@level,…" in print order | revdeps sorted ids | somepath "path ids" / "nopath".
package main

import (
	"bytes"
	"fmt"
	"io"
	"os"
	"sort"
	"strings"

	"github.com/thought-machine/please/src/cli"
	"github.com/thought-machine/please/src/core"
	"github.com/thought-machine/please/src/query"
	"verif/harness/lib"
)

func init() { cli.InitLogging(cli.MinVerbosity) }

// ---------------------------------------------------------------- graph under test

type gspec struct {
	names    []string   // "pkg:name" per id
	edges    [][]int    // declared dependencies per id
	requires [][]string // per id
	provides []map[string][]int
}

var sharedState *core.BuildState

type world struct {
	state   *core.BuildState
	graph   *core.BuildGraph
	targets []*core.BuildTarget
	idOf    map[core.BuildLabel]int // includes ghost parent labels (ids >= n)
	labels  []core.BuildLabel       // by id, ghosts included
	n       int
	nodes   []int
	adj     [][]int
	pl      []int
	hid     []bool
	hasPar  []bool

	byString map[string]int
}

func splitName(s string) (string, string) {
	i := strings.LastIndex(s, ":")
	return s[:i], s[i+1:]
}

func validName(s string) bool {
	i := strings.LastIndex(s, ":")
	if i < 0 || i == len(s)-1 {
		return false
	}
	for _, c := range s {
		if c <= ' ' || c == ',' || c == ';' || c > '~' {
			return false
		}
	}
	return true
}

func build(g *gspec) *world {
	// one BuildState is shared (creating one costs ~3 ms and megabytes of channel buffers); every world gets
	// its own fresh graph, installed into the state before any query runs
	if sharedState == nil {
		sharedState = core.NewDefaultBuildState()
	}
	w := &world{state: sharedState, graph: core.NewGraph(), idOf: map[core.BuildLabel]int{}, n: len(g.names)}
	sharedState.Graph = w.graph
	pkgs := map[string]*core.Package{}
	for id, nm := range g.names {
		p, n := splitName(nm)
		l := core.NewBuildLabel(p, n)
		t := core.NewBuildTarget(l)
		w.state.Graph.AddTarget(t)
		pkg := pkgs[p]
		if pkg == nil {
			pkg = core.NewPackage(p)
			pkgs[p] = pkg
			w.state.Graph.AddPackage(pkg)
		}
		pkg.AddTarget(t)
		w.targets = append(w.targets, t)
		w.idOf[l] = id
		w.labels = append(w.labels, l)
	}
	for id, t := range w.targets {
		if g.requires != nil {
			for _, r := range g.requires[id] {
				t.AddRequire(r)
			}
		}
		if g.provides != nil {
			langs := make([]string, 0, len(g.provides[id]))
			for lang := range g.provides[id] {
				langs = append(langs, lang)
			}
			sort.Strings(langs)
			for _, lang := range langs {
				var ls []core.BuildLabel
				for _, p := range g.provides[id][lang] {
					ls = append(ls, w.labels[p])
				}
				t.AddProvide(lang, ls)
			}
		}
	}
	for id, t := range w.targets {
		for _, d := range g.edges[id] {
			if d != id { // AddDependency log.Fatals on a self-dependency
				t.AddDependency(w.labels[d])
			}
		}
	}
	// read the graph back the way the query code sees it
	for _, t := range w.state.Graph.AllTargets() {
		w.nodes = append(w.nodes, w.idOf[t.Label])
	}
	w.adj = make([][]int, w.n)
	w.pl = make([]int, w.n)
	w.hid = make([]bool, w.n)
	w.hasPar = make([]bool, w.n)
	for id, t := range w.targets {
		for _, l := range t.DeclaredDependencies() {
			for _, p := range w.state.Graph.TargetOrDie(l).ProvideFor(t) {
				w.adj[id] = append(w.adj[id], w.idOf[p])
			}
		}
		pl := t.Label.Parent()
		pid, ok := w.idOf[pl]
		if !ok {
			pid = len(w.labels)
			w.idOf[pl] = pid
			w.labels = append(w.labels, pl)
		}
		w.pl[id] = pid
		w.hid[id] = t.Label.IsHidden()
		w.hasPar[id] = t.Label.HasParent()
	}
	return w
}

func (w *world) graphFields(g *gspec) string {
	var adj []string
	for id := 0; id < w.n; id++ {
		adj = append(adj, fmt.Sprintf("%d:%s", id, lib.Nats(w.adj[id])))
	}
	hid := make([]byte, w.n)
	for i, h := range w.hid {
		hid[i] = '0'
		if h {
			hid[i] = '1'
		}
	}
	f := func(s string) string {
		if s == "" {
			return "-"
		}
		return s
	}
	return f(strings.Join(g.names, ",")) + " " + lib.Nats(w.nodes) + " " + f(strings.Join(adj, ";")) + " " + lib.Nats(w.pl) + " " + f(string(hid))
}

// ---------------------------------------------------------------- running the real code

func (w *world) runDeps(hidden bool, level int, roots []int) (string, map[int]bool) {
	var buf bytes.Buffer
	var ls []core.BuildLabel
	for _, r := range roots {
		ls = append(ls, w.labels[r])
	}
	query.Deps(&buf, w.state, ls, hidden, level, false)
	var parts []string
	set := map[int]bool{}
	for _, line := range strings.Split(buf.String(), "\n") {
		if line == "" {
			continue
		}
		trimmed := strings.TrimLeft(line, " ")
		indent := len(line) - len(trimmed)
		id, ok := w.idOfString(trimmed)
		if !ok || indent%2 != 0 {
			return "unparsable:" + line, set
		}
		parts = append(parts, fmt.Sprintf("%d@%d", id, indent/2))
		set[id] = true
	}
	if len(parts) == 0 {
		return "-", set
	}
	return strings.Join(parts, ","), set
}

func (w *world) idOfString(s string) (int, bool) {
	if w.byString == nil {
		w.byString = map[string]int{}
		for l, id := range w.idOf {
			w.byString[l.String()] = id
		}
	}
	id, ok := w.byString[s]
	return id, ok
}

func (w *world) runRevdeps(hidden bool, level int, roots []int) (string, map[int]bool) {
	var ls core.BuildLabels
	for _, r := range roots {
		ls = append(ls, w.labels[r])
	}
	res := query.FindRevdeps(w.state, ls, hidden, false, false, level)
	set := map[int]bool{}
	var ids []int
	for t := range res {
		id := w.idOf[t.Label]
		set[id] = true
		ids = append(ids, id)
	}
	sort.Ints(ids)
	return lib.Nats(ids), set
}

// captureStdout runs f with os.Stdout redirected to a pipe (query.SomePath prints with fmt.Println).
func captureStdout(f func()) string {
	old := os.Stdout
	r, wr, err := os.Pipe()
	if err != nil {
		panic(err)
	}
	os.Stdout = wr
	done := make(chan string)
	go func() {
		b, _ := io.ReadAll(r)
		done <- string(b)
	}()
	func() {
		defer func() { os.Stdout = old; wr.Close() }()
		f()
	}()
	out := <-done
	r.Close()
	return out
}

func (w *world) runSomePath(showHidden bool, from, to []int) (string, []int) {
	var fl, tl []core.BuildLabel
	for _, r := range from {
		fl = append(fl, w.labels[r])
	}
	for _, r := range to {
		tl = append(tl, w.labels[r])
	}
	var err error
	out := captureStdout(func() { err = query.SomePath(w.state.Graph, fl, tl, nil, showHidden) })
	if err != nil {
		if out != "" {
			return "error-with-output", nil
		}
		return "nopath", nil
	}
	lines := strings.Split(strings.TrimRight(out, "\n"), "\n")
	if len(lines) < 2 || lines[0] != "Found path:" {
		return "unparsable:" + out, nil
	}
	var ids []int
	for _, l := range lines[1:] {
		id, ok := w.idOfString(strings.TrimSpace(l))
		if !ok {
			return "unparsable:" + out, nil
		}
		ids = append(ids, id)
	}
	return "path " + lib.Nats(ids), ids
}

// ---------------------------------------------------------------- reference (the specification, in Go)
//
// "Within N dependency steps, with edges between a rule and its own hidden sub-targets costing nothing":
// a dependency edge between two different targets of one rule (their labels have the same Parent(): the
// rule itself and/or its `_rule#tag` sub-targets) costs 0, every other edge costs 1; when hidden targets
// are shown / counted (`--hidden`) every edge costs 1.  A target is within N steps of the query when some
// non-empty dependency path from a queried target to it costs at most N.
//   deps:    report every printable target (not a `_x#tag` sub-target unless --hidden) within N steps;
//   revdeps: the same along reversed edges, except that a path must cost at least 1 (targets joined to the
//            query only through zero-cost edges are the queried rules themselves), and a hidden target is
//            reported as its rule (when that rule exists).

const inf = 1 << 30

type costFn func(a, b int) int // cost of walking from a to b

func (w *world) sameRule(a, b int) bool { return a != b && w.pl[a] == w.pl[b] }

// costSym: the specification's cost.
func (w *world) costSym(hiddenMode bool) costFn {
	return func(a, b int) int {
		if !hiddenMode && w.sameRule(a, b) {
			return 0
		}
		return 1
	}
}

// costInto: a zero-cost edge must END in a hidden sub-target (rule -> sub-target, sub-target -> sibling);
// an edge from a sub-target to its own rule costs 1.  Only used to name the root cause of a deps failure.
func (w *world) costInto(hiddenMode bool) costFn {
	return func(a, b int) int {
		if !hiddenMode && w.sameRule(a, b) && w.hasPar[b] {
			return 0
		}
		return 1
	}
}

// costExisting: two targets count as one rule only when that rule is itself a target of the graph.  Only used
// to name the root cause of a revdeps failure (isSameTarget resolves the parent through the graph).
func (w *world) costExisting(hiddenMode bool) costFn {
	return func(a, b int) int {
		if !hiddenMode && w.sameRule(a, b) && w.pl[a] < w.n {
			return 0
		}
		return 1
	}
}

// dist computes the least cost of a non-empty path from a source to every target (Bellman-Ford; graphs
// are small and may be cyclic).  With paid=true only paths of cost >= 1 count.
func (w *world) dist(succ [][]int, sources []int, cost costFn, paid bool) []int {
	// state (x, k): k = 1 when a cost-1 edge was used
	d := [2][]int{make([]int, w.n), make([]int, w.n)}
	for k := 0; k < 2; k++ {
		for i := range d[k] {
			d[k][i] = inf
		}
	}
	relax := func(base, k, a, b int) bool {
		c := cost(a, b)
		nk := k
		if c == 1 {
			nk = 1
		}
		if base+c < d[nk][b] {
			d[nk][b] = base + c
			return true
		}
		return false
	}
	for _, s := range sources {
		for _, b := range succ[s] {
			relax(0, 0, s, b)
		}
	}
	for changed := true; changed; {
		changed = false
		for a := 0; a < w.n; a++ {
			for k := 0; k < 2; k++ {
				if d[k][a] == inf {
					continue
				}
				for _, b := range succ[a] {
					if relax(d[k][a], k, a, b) {
						changed = true
					}
				}
			}
		}
	}
	out := make([]int, w.n)
	for x := range out {
		out[x] = d[1][x]
		if !paid && d[0][x] < out[x] {
			out[x] = d[0][x]
		}
	}
	return out
}

// multiCost: which targets are reachable from the sources by non-empty paths of different cost.
func (w *world) multiCost(succ [][]int, sources []int, cost costFn) []bool {
	costs := make([]map[int]bool, w.n)
	for i := range costs {
		costs[i] = map[int]bool{}
	}
	for _, s := range sources {
		for _, b := range succ[s] {
			costs[b][cost(s, b)] = true
		}
	}
	for iter := 0; iter < w.n+2; iter++ {
		for a := 0; a < w.n; a++ {
			for c := range costs[a] {
				for _, b := range succ[a] {
					if nc := c + cost(a, b); nc <= w.n+1 {
						costs[b][nc] = true
					}
				}
			}
		}
	}
	out := make([]bool, w.n)
	for i := range out {
		out[i] = len(costs[i]) > 1
	}
	return out
}

func (w *world) revAdj() [][]int {
	r := make([][]int, w.n)
	for _, a := range w.nodes {
		for _, b := range w.adj[a] {
			r[b] = append(r[b], a)
		}
	}
	return r
}

// onShortestPathMulti: some target on a least-cost path from the sources to m (m included) is reachable
// by paths of different cost.  Otherwise every target on every least-cost path to m has a single possible
// visiting depth, so marking targets as done at their FIRST visit cannot be what loses m.
func (w *world) onShortestPathMulti(succ [][]int, d []int, multi []bool, m int, cost costFn, sources []int) bool {
	pred := make([][]int, w.n)
	for a := 0; a < w.n; a++ {
		for _, b := range succ[a] {
			pred[b] = append(pred[b], a)
		}
	}
	isSrc := map[int]bool{}
	for _, s := range sources {
		isSrc[s] = true
	}
	seen := map[int]bool{m: true}
	stack := []int{m}
	for len(stack) > 0 {
		x := stack[len(stack)-1]
		stack = stack[:len(stack)-1]
		if multi[x] {
			return true
		}
		for _, a := range pred[x] {
			tight := (d[a] != inf && d[a]+cost(a, x) == d[x]) || (isSrc[a] && cost(a, x) == d[x])
			if tight && !seen[a] && d[a] != inf {
				seen[a] = true
				stack = append(stack, a)
			}
		}
	}
	return false
}

func (w *world) acyclic() bool {
	state := make([]int, w.n)
	var visit func(int) bool
	visit = func(a int) bool {
		if state[a] == 1 {
			return false
		}
		if state[a] == 2 {
			return true
		}
		state[a] = 1
		for _, b := range w.adj[a] {
			if !visit(b) {
				return false
			}
		}
		state[a] = 2
		return true
	}
	for a := 0; a < w.n; a++ {
		if !visit(a) {
			return false
		}
	}
	return true
}

func within(level, d int) bool { return d != inf && (level == -1 || d <= level) }

// parentTarget: target.Parent(graph) as an id, -1 when there is none
func (w *world) parentTarget(t int) int {
	if w.hasPar[t] && w.pl[t] < w.n {
		return w.pl[t]
	}
	return -1
}

// ---------------------------------------------------------------- ops

type opq struct {
	kind       string
	flag       bool
	level      int
	roots, tos []int
}

func lvlStr(l int) string {
	if l == -1 {
		return "u"
	}
	return fmt.Sprint(l)
}

func flagStr(b bool) string {
	if b {
		return "1"
	}
	return "0"
}

func runQuery(r *lib.Run, g *gspec, w *world, q opq, tag string) {
	w.state.Graph = w.graph
	gf := w.graphFields(g)
	dag := w.acyclic()
	switch q.kind {
	case "deps":
		op := fmt.Sprintf("deps %s %s %s %s", flagStr(q.flag), lvlStr(q.level), lib.Nats(q.roots), gf)
		var set map[int]bool
		res := lib.Safely(func() string { s, m := w.runDeps(q.flag, q.level, q.roots); set = m; return s })
		cs, ci := w.costSym(q.flag), w.costInto(q.flag)
		d := w.dist(w.adj, q.roots, cs, false)
		var di []int
		var multi []bool
		interesting := false
		for x := 0; x < w.n; x++ {
			printable := q.flag || !w.hasPar[x]
			want := printable && within(q.level, d[x])
			switch {
			case want && !set[x]:
				if multi == nil {
					di = w.dist(w.adj, q.roots, ci, false)
					multi = w.multiCost(w.adj, q.roots, ci)
				}
				cls := "deps-missing-other"
				switch {
				case !within(q.level, di[x]):
					// only within the limit because an edge from a hidden sub-target to its own rule is free
					cls = "deps-subtarget-to-own-rule-edge"
				case q.level >= 0 && w.onShortestPathMulti(w.adj, di, multi, x, ci, q.roots):
					cls = "deps-level-first-visit-depth"
				}
				r.OracleFail(cls, op, fmt.Sprintf("target %d (%s) is %d step(s) away but is not printed; printed: %s", x, w.labels[x], d[x], res))
			case !want && set[x]:
				r.OracleFail("deps-extra", op, fmt.Sprintf("target %d (%s) printed but distance is %d", x, w.labels[x], d[x]))
			}
			if want {
				interesting = true
			}
		}
		r.Count(tag + ":deps")
		if q.level >= 0 {
			r.Count("deps:limited")
		}
		if !dag {
			r.Count("deps:cyclic-graph")
		}
		r.Emit(op, res, interesting)
	case "revdeps":
		op := fmt.Sprintf("revdeps %s %s %s %s", flagStr(q.flag), lvlStr(q.level), lib.Nats(q.roots), gf)
		// sources at distance 0: the roots and (when hidden targets are not counted) the hidden children of
		// non-hidden roots
		sources := append([]int{}, q.roots...)
		multiChild := false
		for _, root := range q.roots {
			if !q.flag && !w.hid[root] {
				k := 0
				for _, c := range w.nodes {
					if w.parentTarget(c) == root {
						sources = append(sources, c)
						k++
					}
				}
				if k >= 2 {
					multiChild = true
				}
			}
		}
		var set map[int]bool
		res := lib.Safely(func() string { s, m := w.runRevdeps(q.flag, q.level, q.roots); set = m; return s })
		ra := w.revAdj()
		cs := w.costSym(q.flag)
		d := w.dist(ra, sources, cs, true) // least cost among paths that cost at least 1
		want := map[int]bool{}
		via := map[int][]int{} // reported target -> the targets it is reported for
		for x := 0; x < w.n; x++ {
			if within(q.level, d[x]) {
				if q.flag || !w.hid[x] {
					want[x] = true
					via[x] = append(via[x], x)
				} else if p := w.parentTarget(x); p >= 0 {
					want[p] = true
					via[p] = append(via[p], x)
				}
			}
		}
		var multi []bool
		var d0 []int
		for x := 0; x < w.n; x++ {
			switch {
			case want[x] && !set[x]:
				if multi == nil {
					multi = w.multiCost(ra, sources, cs)
					d0 = w.dist(ra, sources, cs, false)
				}
				cls := "revdeps-missing-other"
				if q.level >= 0 && !q.flag {
					// (a) only within the limit because two hidden targets whose rule does not exist count as one rule
					ce := w.costExisting(q.flag)
					de := w.dist(ra, sources, ce, true)
					orphan := true
					for _, t := range via[x] {
						if within(q.level, de[t]) {
							orphan = false
						}
					}
					if orphan {
						cls = "revdeps-orphan-subtargets-cost-one"
					} else {
						// (b) a target on a nearest path is reachable at different depths: first visit != nearest visit
						me := w.multiCost(ra, sources, ce)
						de0 := w.dist(ra, sources, ce, false)
						for _, t := range via[x] {
							if within(q.level, de[t]) && w.onShortestPathMulti(ra, de0, me, t, ce, sources) {
								cls = "revdeps-level-first-visit-depth"
							}
						}
					}
				}
				_, _ = multi, d0
				r.OracleFail(cls, op, fmt.Sprintf("target %d (%s) is within the limit (distance %d) but is not reported; reported: %s", x, w.labels[x], d[via[x][0]], res))
			case !want[x] && set[x]:
				r.OracleFail("revdeps-extra", op, fmt.Sprintf("target %d (%s) reported but no target of it is within the limit (distance %d)", x, w.labels[x], d[x]))
			}
		}
		r.Count(tag + ":revdeps")
		if q.level >= 0 {
			r.Count("revdeps:limited")
		}
		if multiChild && q.level >= 0 {
			// the real code pushes the root's hidden children in Go map order: with a limit the result may
			// depend on it, so these cases are checked by the oracle only (no model line)
			r.Count("revdeps:multi-child-root(oracle only)")
			return
		}
		r.Emit(op, res, len(want) > 0)
	case "somepath":
		op := fmt.Sprintf("somepath %s %s %s %s", flagStr(q.flag), lib.Nats(q.roots), lib.Nats(q.tos), gf)
		var ids []int
		res := lib.Safely(func() string { s, p := w.runSomePath(q.flag, q.roots, q.tos); ids = p; return s })
		// reference: a path "between" a and b exists iff a reaches b or a hidden sub-target of b, or vice versa
		reach := func(a int) map[int]bool {
			seen := map[int]bool{a: true}
			st := []int{a}
			for len(st) > 0 {
				x := st[len(st)-1]
				st = st[:len(st)-1]
				for _, y := range w.adj[x] {
					if !seen[y] {
						seen[y] = true
						st = append(st, y)
					}
				}
			}
			return seen
		}
		hits := func(a, b int) bool {
			ra := reach(a)
			if ra[b] {
				return true
			}
			for c := 0; c < w.n; c++ {
				if ra[c] && w.parentTarget(c) == b {
					return true
				}
			}
			return false
		}
		exists := false
		for _, a := range q.roots {
			for _, b := range q.tos {
				if hits(a, b) || hits(b, a) {
					exists = true
				}
			}
		}
		found := strings.HasPrefix(res, "path ")
		switch {
		case exists && !found:
			r.OracleFail("somepath-missed", op, "a dependency path exists but none is printed: "+res)
		case !exists && found:
			r.OracleFail("somepath-spurious", op, "no dependency path exists but one is printed: "+res)
		case found:
			// the printed path must be a chain between one of the pairs
			var full []int
			if q.flag {
				full = ids
			} else {
				_, full = w.runSomePath(true, q.roots, q.tos)
			}
			ok := len(full) > 0
			for i := 0; i+1 < len(full); i++ {
				e := false
				for _, y := range w.adj[full[i]] {
					if y == full[i+1] {
						e = true
					}
				}
				ok = ok && e
			}
			if ok {
				first, last := full[0], full[len(full)-1]
				okEnds := false
				for _, a := range q.roots {
					for _, b := range q.tos {
						if (first == a && (last == b || w.parentTarget(last) == b)) || (first == b && (last == a || w.parentTarget(last) == a)) {
							okEnds = true
						}
					}
				}
				ok = okEnds
			}
			if !ok {
				r.OracleFail("somepath-not-a-chain", op, res)
			}
			if !q.flag {
				// the non-hidden rendering must be the hidden one mapped to parents and compacted
				var mapped []int
				for _, x := range full {
					p := w.pl[x]
					if len(mapped) == 0 || mapped[len(mapped)-1] != p {
						mapped = append(mapped, p)
					}
				}
				if lib.Nats(mapped) != lib.Nats(ids) {
					r.OracleFail("somepath-hidden-rendering", op, res+" vs full path "+lib.Nats(full))
				}
			}
		}
		r.Count(tag + ":somepath")
		if found {
			r.Count("somepath:found")
		} else {
			r.Count("somepath:nopath")
		}
		r.Emit(op, res, exists || len(w.adj) > 2)
	}
}

// ---------------------------------------------------------------- replay

func parseList(s string) ([]int, bool) {
	if s == "-" {
		return nil, true
	}
	var out []int
	for _, p := range strings.Split(s, ",") {
		if p == "" || len(p) > 6 {
			return nil, false
		}
		n := 0
		for _, c := range p {
			if c < '0' || c > '9' {
				return nil, false
			}
			n = n*10 + int(c-'0')
		}
		out = append(out, n)
	}
	return out, true
}

func replayOp(r *lib.Run, op string) {
	f := strings.Split(op, " ")
	bad := func() { r.Emit(op, "bad-op", false) }
	if len(f) != 9 {
		bad()
		return
	}
	var q opq
	q.kind = f[0]
	switch f[1] {
	case "0":
	case "1":
		q.flag = true
	default:
		bad()
		return
	}
	var ok bool
	switch q.kind {
	case "deps", "revdeps":
		if f[2] == "u" {
			q.level = -1
		} else if l, ok := parseList(f[2]); ok && len(l) == 1 {
			q.level = l[0]
		} else {
			bad()
			return
		}
		if q.roots, ok = parseList(f[3]); !ok {
			bad()
			return
		}
	case "somepath":
		var ok2 bool
		q.roots, ok = parseList(f[2])
		q.tos, ok2 = parseList(f[3])
		if !ok || !ok2 || len(q.roots) == 0 || len(q.tos) == 0 {
			bad()
			return
		}
	default:
		bad()
		return
	}
	g := &gspec{}
	if f[4] != "-" {
		g.names = strings.Split(f[4], ",")
	}
	n := len(g.names)
	seen := map[string]bool{}
	for _, nm := range g.names {
		if !validName(nm) || seen[nm] {
			r.Count("replay-skipped:unusable-names") // only the Go side reads the names: no model line
			return
		}
		seen[nm] = true
	}
	// the node order, parent ids and hidden bits are re-derived from the names by the real code; the fields
	// must be well formed (the model reads them) but their content is replaced by the canonical one
	nodes, ok1 := parseList(f[5])
	pl, ok2 := parseList(f[7])
	if !ok1 || !ok2 || len(nodes) != n || len(pl) != n || (n > 0 && len(f[8]) != n) || (n == 0 && f[8] != "-") {
		bad()
		return
	}
	cnt := map[int]int{}
	for _, x := range nodes {
		cnt[x]++
	}
	for i := 0; i < n; i++ {
		if cnt[i] != 1 {
			bad()
			return
		}
	}
	for _, c := range f[8] {
		if n > 0 && c != '0' && c != '1' {
			bad()
			return
		}
	}
	g.edges = make([][]int, n)
	got := map[int]bool{}
	if f[6] != "-" {
		for _, e := range strings.Split(f[6], ";") {
			kv := strings.Split(e, ":")
			if len(kv) != 2 {
				bad()
				return
			}
			k, ok := parseList(kv[0])
			ds, ok2 := parseList(kv[1])
			if !ok || !ok2 || len(k) != 1 || k[0] >= n || got[k[0]] {
				bad()
				return
			}
			got[k[0]] = true
			for _, d := range ds {
				if d >= n {
					bad()
					return
				}
			}
			g.edges[k[0]] = ds
		}
	}
	if len(got) != n {
		bad()
		return
	}
	for _, x := range append(append([]int{}, q.roots...), q.tos...) {
		if x >= n {
			bad()
			return
		}
	}
	w := build(g)
	runQuery(r, g, w, q, "replay")
}

// ---------------------------------------------------------------- generators

func specAcyclic(edges [][]int) bool {
	state := make([]int, len(edges))
	var visit func(int) bool
	visit = func(a int) bool {
		if state[a] == 1 {
			return false
		}
		if state[a] == 2 {
			return true
		}
		state[a] = 1
		for _, b := range edges[a] {
			if !visit(b) {
				return false
			}
		}
		state[a] = 2
		return true
	}
	for a := range edges {
		if !visit(a) {
			return false
		}
	}
	return true
}

// allDAGs4 enumerates every acyclic digraph on n plain targets (names a..d in one package).
func exhaustive(r *lib.Run, n int) {
	type pr struct{ a, b int }
	var cells []pr
	for a := 0; a < n; a++ {
		for b := 0; b < n; b++ {
			if a != b {
				cells = append(cells, pr{a, b})
			}
		}
	}
	names := []string{"p:a", "p:b", "p:c", "p:d", "p:e"}[:n]
	for m := 0; m < 1<<len(cells); m++ {
		g := &gspec{names: names, edges: make([][]int, n)}
		for i, c := range cells {
			if m>>i&1 == 1 {
				g.edges[c.a] = append(g.edges[c.a], c.b)
			}
		}
		if !specAcyclic(g.edges) {
			continue
		}
		w := build(g)
		r.Count(fmt.Sprintf("exhaustive-dag-n%d", n))
		for root := 0; root < n; root++ {
			if len(w.adj[root]) > 0 {
				for _, lvl := range []int{-1, 1, 2, 3} {
					runQuery(r, g, w, opq{kind: "deps", level: lvl, roots: []int{root}}, "exhaustive")
				}
			}
			for _, lvl := range []int{-1, 1, 2} {
				runQuery(r, g, w, opq{kind: "revdeps", level: lvl, roots: []int{root}}, "exhaustive")
			}
		}
		if m%7 == 0 {
			runQuery(r, g, w, opq{kind: "somepath", flag: true, roots: []int{0}, tos: []int{n - 1}}, "exhaustive")
		}
	}
}

// randomGraph: rules with hidden sub-targets (`_r#t`), orphan hidden targets, `_u` and `r#x` names, several
// packages, mostly acyclic, shared sub-DAGs, occasional provide/require.
func randomGraph(r *lib.Run, maxRules int) (*gspec, string) {
	g := r.Rng
	pkgs := []string{"p", "p/q", "lib"}
	var names []string
	var ruleOf []int // index of the rule a node belongs to (itself for rules), -1 for loose nodes
	nr := 1 + g.Intn(maxRules)
	used := map[string]bool{}
	add := func(nm string, rule int) int {
		if used[nm] {
			return -1
		}
		used[nm] = true
		names = append(names, nm)
		ruleOf = append(ruleOf, rule)
		return len(names) - 1
	}
	type rule struct {
		id   int
		kids []int
	}
	var rules []rule
	hiddenShare := g.Intn(4) // 0: no hidden targets at all
	for i := 0; i < nr; i++ {
		pkg := lib.Pick(g, pkgs)
		base := fmt.Sprintf("%c%d", "rRxL"[g.Intn(4)], i)
		id := add(pkg+":"+base, len(names))
		ru := rule{id: id}
		if hiddenShare > 0 {
			for k := 0; k < g.Intn(hiddenShare+1); k++ {
				us := "_"
				if g.Chance(8) {
					us = "__"
				}
				nm := fmt.Sprintf("%s:%s%s#t%d", pkg, us, base, k)
				if g.Chance(5) {
					nm += "#x"
				}
				if c := add(nm, id); c >= 0 {
					ru.kids = append(ru.kids, c)
				}
			}
		}
		rules = append(rules, ru)
	}
	if hiddenShare > 0 {
		for k := 0; k < g.Intn(3); k++ { // odd names
			switch g.Intn(4) {
			case 0:
				add(fmt.Sprintf("p:_ghost%d#t%d", g.Intn(2), k), -1) // parent rule does not exist
			case 1:
				add(fmt.Sprintf("p:_u%d", k), -1) // hidden by name, no parent
			case 2:
				add(fmt.Sprintf("p:h%d#x", k), -1) // '#' without '_': no parent
			default: // same name as a rule's child, but in another package: not its child
				ru := lib.Pick(g, rules)
				_, base := splitName(names[ru.id])
				add(fmt.Sprintf("other:_%s#t0", base), -1)
			}
		}
	}
	n := len(names)
	gs := &gspec{names: names, edges: make([][]int, n), requires: make([][]string, n), provides: make([]map[string][]int, n)}
	// a random topological order; edges go forward in it
	topo := make([]int, n)
	for i := range topo {
		topo[i] = i
	}
	lib.Shuffle(g, topo)
	pos := make([]int, n)
	for i, x := range topo {
		pos[x] = i
	}
	edge := func(a, b int) {
		if a == b {
			return
		}
		if pos[a] > pos[b] && !g.Chance(1) { // 1%: a back edge (cyclic graph)
			a, b = b, a
		}
		gs.edges[a] = append(gs.edges[a], b)
	}
	shape := g.Intn(4)
	tag := []string{"layered", "dense", "sparse", "chains"}[shape]
	// rule -> its hidden children, children -> siblings (what build definitions generate)
	for _, ru := range rules {
		for _, c := range ru.kids {
			if g.Chance(85) {
				edge(ru.id, c)
			}
			for _, c2 := range ru.kids {
				if c != c2 && g.Chance(30) {
					edge(c, c2)
				}
			}
			if g.Chance(2) {
				gs.edges[c] = append(gs.edges[c], ru.id) // a sub-target depending on its own rule (unusual)
			}
		}
	}
	p := []int{25, 45, 10, 15}[shape]
	for a := 0; a < n; a++ {
		for b := 0; b < n; b++ {
			if a != b && pos[a] < pos[b] && g.Chance(p) {
				if shape == 3 && pos[b]-pos[a] > 2 && !g.Chance(15) {
					continue
				}
				edge(a, b)
			}
		}
	}
	// occasional provide/require: a requires "go", its dependency b provides go -> c
	if g.Chance(15) && n >= 3 {
		a, b, c := g.Intn(n), g.Intn(n), g.Intn(n)
		if a != b && b != c && a != c && pos[a] < pos[b] && pos[a] < pos[c] {
			gs.requires[a] = []string{"go"}
			gs.provides[b] = map[string][]int{"go": {c}}
			gs.edges[a] = append(gs.edges[a], b)
			tag += "+provide"
		}
	}
	return gs, "random-" + tag
}

// motif plants one of the shapes on which the level bookkeeping is known to be delicate, with random
// decoration (extra targets and forward edges, name styles), and returns queries around its critical level.
func motif(r *lib.Run) (*gspec, []opq, string) {
	g := r.Rng
	var names []string
	var edges [][]int
	add := func(nm string) int {
		names = append(names, nm)
		edges = append(edges, nil)
		return len(names) - 1
	}
	e := func(a, b int) { edges[a] = append(edges[a], b) }
	var qs []opq
	tag := ""
	lv := func(c int) int { return max(0, c-1+g.Intn(3)) }
	switch g.Intn(5) {
	case 0: // deps: a target first reached deep, later reachable shallow
		tag = "motif-deps-diamond"
		root, a, b, x, y, z := add("p:root"), add("p:a"), add("p:b"), add("p:x"), add("p:y"), add("p:z")
		e(root, a)
		e(a, b)
		e(b, x)
		e(x, y)
		e(root, z)
		e(z, x)
		if g.Bool() { // the deep path runs through a hidden sub-target (free edge)
			h := add("p:_a#h")
			edges[a] = nil
			e(a, h)
			e(h, b)
		}
		qs = append(qs, opq{kind: "deps", level: lv(3), roots: []int{root}}, opq{kind: "deps", level: -1, roots: []int{root}},
			opq{kind: "revdeps", level: lv(3), roots: []int{y}})
	case 1: // revdeps: a FIFO queue with free edges is not ordered by depth
		tag = "motif-revdeps-fifo"
		pre := lib.Pick(g, []string{"", "K", "k"})
		R, A, C, D, E, B := add("p:"+pre+"R"), add("p:"+pre+"A"), add("p:"+pre+"C"), add("p:"+pre+"D"), add("p:"+pre+"E"), add("p:"+pre+"B")
		h := add("p:_" + pre + "B#h")
		e(A, R)
		e(h, R)
		e(C, A)
		e(B, h)
		e(D, C)
		e(D, B)
		e(E, D)
		qs = append(qs, opq{kind: "revdeps", level: lv(3), roots: []int{R}}, opq{kind: "revdeps", level: -1, roots: []int{R}},
			opq{kind: "deps", level: lv(3), roots: []int{E}})
	case 2: // hidden targets whose rule does not exist
		tag = "motif-orphan-subtargets"
		x, ga, gb, y := add("p:x"), add("p:_g#a"), add("p:_g#b"), add("p:y")
		e(ga, x)
		e(gb, ga)
		e(y, gb)
		qs = append(qs, opq{kind: "revdeps", level: lv(2), roots: []int{x}}, opq{kind: "deps", level: lv(2), roots: []int{y}})
	case 3: // a hidden sub-target that depends on its own rule
		tag = "motif-subtarget-to-own-rule"
		h, ru, x := add("p:_r#t"), add("p:r"), add("p:x")
		e(h, ru)
		e(ru, x)
		qs = append(qs, opq{kind: "deps", level: lv(1), roots: []int{h}}, opq{kind: "revdeps", level: lv(1), roots: []int{x}})
	default: // chains of free edges inside rules, several rules deep
		tag = "motif-rule-chain"
		k := 2 + g.Intn(4)
		prev := -1
		var first, last int
		for i := 0; i < k; i++ {
			ru := add(fmt.Sprintf("p:r%d", i))
			h1, h2 := add(fmt.Sprintf("p:_r%d#a", i)), add(fmt.Sprintf("p:_r%d#b", i))
			e(ru, h1)
			e(h1, h2)
			if prev >= 0 {
				e(prev, ru)
			} else {
				first = ru
			}
			prev = h2
			last = ru
		}
		qs = append(qs, opq{kind: "deps", level: lv(k - 1), roots: []int{first}}, opq{kind: "revdeps", level: lv(k - 1), roots: []int{last}},
			opq{kind: "somepath", flag: g.Bool(), roots: []int{first}, tos: []int{last}})
	}
	// decoration: extra targets with edges that keep the graph acyclic (from extras into the motif, or among extras)
	base := len(names)
	for i := 0; i < g.Intn(4); i++ {
		x := add(fmt.Sprintf("%s:%cx%d", lib.Pick(g, []string{"p", "q"}), "eE_"[g.Intn(3)], i))
		for t := 0; t < base; t++ {
			if g.Chance(20) {
				e(x, t)
			}
		}
		for t := base; t < x; t++ {
			if g.Chance(25) {
				e(t, x)
			}
		}
	}
	for i := range qs {
		if g.Chance(15) {
			qs[i].flag = !qs[i].flag
		}
	}
	return &gspec{names: names, edges: edges}, qs, tag
}

func randomQueries(r *lib.Run, gs *gspec, w *world, tag string, k int) {
	g := r.Rng
	for i := 0; i < k; i++ {
		roots := []int{g.Intn(w.n)}
		if g.Chance(25) {
			roots = append(roots, g.Intn(w.n))
		}
		lvl := -1
		if g.Chance(75) {
			lvl = g.Intn(6)
		}
		switch g.Intn(5) {
		case 0, 1:
			// prefer roots that have dependencies
			for t := 0; t < 4 && len(w.adj[roots[0]]) == 0; t++ {
				roots[0] = g.Intn(w.n)
			}
			runQuery(r, gs, w, opq{kind: "deps", flag: g.Chance(30), level: lvl, roots: roots}, tag)
		case 2, 3:
			runQuery(r, gs, w, opq{kind: "revdeps", flag: g.Chance(30), level: lvl, roots: roots}, tag)
		default:
			tos := []int{g.Intn(w.n)}
			if g.Chance(20) {
				tos = append(tos, g.Intn(w.n))
			}
			runQuery(r, gs, w, opq{kind: "somepath", flag: g.Bool(), roots: roots, tos: tos}, tag)
		}
	}
}

func main() {
	r := lib.Start()
	defer r.Finish()
	r.Rule = "deps/revdeps: the reference set is non-empty; somepath: a path exists or the graph has more than two targets; distinct by op line"
	if ops := r.ReplayOps(); ops != nil {
		for _, op := range ops {
			replayOp(r, op)
		}
		return
	}
	// 1. every DAG on up to 4 plain targets, every root, levels u/1/2/3
	for n := 1; n <= r.N(4, 5); n++ {
		exhaustive(r, n)
	}
	r.Exhaust = true
	// 2. random graphs with hidden sub-targets
	for i := 0; i < r.N(5000, 60000); i++ {
		gs, tag := randomGraph(r, []int{3, 5, 8}[i%3])
		w := build(gs)
		r.Count(tag)
		r.Count(fmt.Sprintf("n=%02d", min(w.n, 30)))
		randomQueries(r, gs, w, "random", 8)
	}
	// 3. planted shapes around the delicate cases of the level bookkeeping
	for i := 0; i < r.N(1500, 20000); i++ {
		gs, qs, tag := motif(r)
		w := build(gs)
		r.Count(tag)
		for _, q := range qs {
			runQuery(r, gs, w, q, "motif")
		}
	}
	// 4. malformed op lines
	for _, op := range []string{"deps", "deps 0 u 0 p:a 0 0:- 0", "deps 2 u 0 p:a 0 0:- 0 0", "deps 0 x 0 p:a 0 0:- 0 0",
		"deps 0 u 1 p:a 0 0:- 0 0", "revdeps 0 u 0 p:a 0 0:1 0 0", "somepath 1 - 0 p:a 0 0:- 0 0", "somepath 1 0 0 p:a 0,0 0:- 0 0",
		"deps 0 u 0 p:a 0 0:- 0 2", "path 0 u 0 p:a 0 0:- 0 0"} {
		replayOp(r, op)
	}
}
