// C33 harness: BuildLabel.CanSee and BuildTarget.CheckDependencyVisibility of the real code on generated
// package trees, visibility lists, experimental directories and dependency edges, against the Lean model,
// plus a direct oracle: the documented visibility / test_only rules written independently (path components,
// hidden sub-targets as their parent, PUBLIC, experimental exemption and ban, subrepo-aware).
package main

import (
	"encoding/hex"
	"fmt"
	"strings"

	"github.com/thought-machine/please/src/cli"
	"github.com/thought-machine/please/src/core"
	"github.com/thought-machine/please/src/parse"
	"verif/harness/lib"
)

type lab struct{ P, N, S string }

func (l lab) core() core.BuildLabel {
	return core.BuildLabel{PackageName: l.P, Name: l.N, Subrepo: l.S}
}

type vt struct {
	L        lab
	TestOnly bool
	IsTest   bool
	Vis      []lab
}

var public = lab{"", "...", ""}

func unhex(s string) (string, bool) {
	if s == "-" {
		return "", true
	}
	b, err := hex.DecodeString(s)
	if err != nil || len(s) == 0 || strings.ToLower(s) != s {
		return "", false
	}
	return string(b), true
}

func showLab(l lab) string { return lib.Hex(l.P) + ":" + lib.Hex(l.N) + ":" + lib.Hex(l.S) }

func parseLab(s string) (lab, bool) {
	f := strings.Split(s, ":")
	if len(f) != 3 {
		return lab{}, false
	}
	p, ok1 := unhex(f[0])
	n, ok2 := unhex(f[1])
	u, ok3 := unhex(f[2])
	return lab{p, n, u}, ok1 && ok2 && ok3
}

func parseDirs(s string) ([]string, bool) {
	if s == "_" {
		return nil, true
	}
	var out []string
	for _, x := range strings.Split(s, ",") {
		v, ok := unhex(x)
		if !ok {
			return nil, false
		}
		out = append(out, v)
	}
	return out, true
}

func showDirs(xs []string) string {
	if len(xs) == 0 {
		return "_"
	}
	p := make([]string, len(xs))
	for i, x := range xs {
		p[i] = lib.Hex(x)
	}
	return strings.Join(p, ",")
}

func parseVT(s string) (vt, bool) {
	f := strings.Split(s, "~")
	if len(f) != 3 || len(f[1]) != 2 || strings.Trim(f[1], "01") != "" {
		return vt{}, false
	}
	l, ok := parseLab(f[0])
	if !ok {
		return vt{}, false
	}
	t := vt{L: l, TestOnly: f[1][0] == '1', IsTest: f[1][1] == '1'}
	if f[2] != "_" {
		for _, x := range strings.Split(f[2], "+") {
			v, ok := parseLab(x)
			if !ok {
				return vt{}, false
			}
			t.Vis = append(t.Vis, v)
		}
	}
	return t, true
}

func bit(b bool) string {
	if b {
		return "1"
	}
	return "0"
}

func showVT(t vt) string {
	vis := "_"
	if len(t.Vis) > 0 {
		p := make([]string, len(t.Vis))
		for i, v := range t.Vis {
			p[i] = showLab(v)
		}
		vis = strings.Join(p, "+")
	}
	return showLab(t.L) + "~" + bit(t.TestOnly) + bit(t.IsTest) + "~" + vis
}

// ---------------------------------------------------------------- independent specification

func under(p, q string) bool {
	if p == "" {
		return true
	}
	pc, qc := strings.Split(p, "/"), strings.Split(q, "/")
	if len(pc) > len(qc) {
		return false
	}
	for i := range pc {
		if pc[i] != qc[i] {
			return false
		}
	}
	return true
}

func refParent(l lab) lab {
	i := strings.IndexByte(l.N, '#')
	if i < 0 || l.N[0] != '_' {
		return l
	}
	n := l.N[:i]
	for len(n) > 0 && n[0] == '_' {
		n = n[1:]
	}
	return lab{l.P, n, l.S}
}

func patternSelects(v, l lab) bool {
	switch v.N {
	case "...":
		return under(v.P, l.P)
	case "all":
		return v.P == l.P
	}
	return v.P == l.P && v.N == l.N
}

func experimental(dirs []string, l lab) bool {
	if l.S != "" {
		return false
	}
	for _, d := range dirs {
		if under(d, l.P) {
			return true
		}
	}
	return false
}

func grants(v, src lab) bool {
	return (v == public || v.S == src.S) && patternSelects(v, refParent(src))
}

func visible(dirs []string, src lab, dep vt) bool {
	if src.P == dep.L.P && src.S == dep.L.S {
		return true
	}
	if experimental(dirs, dep.L) && !experimental(dirs, src) {
		return false
	}
	for _, v := range dep.Vis {
		if grants(v, src) {
			return true
		}
	}
	return experimental(dirs, src)
}

// visibleWith: the rule of `visible` (repository-blind, as the code is) with the two prefix tests as parameters.
func visibleWith(dirs []string, src lab, dep vt, pat, exp func(p, q string) bool) bool {
	isExp := func(l lab) bool {
		if l.S != "" {
			return false
		}
		for _, d := range dirs {
			if exp(d, l.P) {
				return true
			}
		}
		return false
	}
	if src.P == dep.L.P {
		return true
	}
	if isExp(dep.L) && !isExp(src) {
		return false
	}
	par := refParent(src)
	for _, v := range dep.Vis {
		switch v.N {
		case "...":
			if pat(v.P, par.P) {
				return true
			}
		case "all":
			if v.P == par.P {
				return true
			}
		default:
			if v.P == par.P && v.N == par.N {
				return true
			}
		}
	}
	return isExp(src)
}

func testOnlyOK(dirs []string, t, dep vt) bool {
	return !dep.TestOnly || t.IsTest || t.TestOnly || experimental(dirs, t.L)
}

// visClass names the root cause when the code accepts what the rules reject.
func visClass(dirs []string, src lab, dep vt) string {
	if src.P == dep.L.P && src.S != dep.L.S {
		return "cansee-same-package-ignores-subrepo"
	}
	for _, v := range dep.Vis {
		if v != public && v.S != src.S && patternSelects(v, refParent(src)) {
			return "visibility-pattern-ignores-subrepo"
		}
	}
	// raw string-prefix readings of the two pattern tests: do they explain the acceptance?
	raw := func(p, q string) bool { return strings.HasPrefix(q, p) }
	if visibleWith(dirs, src, dep, raw, under) && !visibleWith(dirs, src, dep, under, under) {
		return "visibility-pattern-string-prefix"
	}
	if visibleWith(dirs, src, dep, under, raw) && !visibleWith(dirs, src, dep, under, under) {
		return "experimental-string-prefix"
	}
	return "visibility-deviates"
}

// ---------------------------------------------------------------- real code

var states = map[string]*core.BuildState{}

func stateFor(dirs []string) *core.BuildState {
	k := showDirs(dirs)
	if s, ok := states[k]; ok {
		return s
	}
	if len(states) > 2048 {
		states = map[string]*core.BuildState{}
	}
	cfg := core.DefaultConfiguration()
	cfg.Parse.ExperimentalDir = dirs
	s := core.NewBuildState(cfg)
	states[k] = s
	return s
}

func mkTarget(t vt) *core.BuildTarget {
	bt := core.NewBuildTarget(t.L.core())
	bt.TestOnly = t.TestOnly
	if t.IsTest {
		bt.Test = &core.TestFields{}
	}
	for _, v := range t.Vis {
		bt.Visibility = append(bt.Visibility, v.core())
	}
	return bt
}

// ---------------------------------------------------------------- declared restrictions through the real interpreter

var aspState *core.BuildState
var aspUses int

// visArg renders a visibility argument code: _ omitted, N None, E [], P ["PUBLIC"], L<hex> ["//pkg/..."], A<hex> ["//pkg:all"].
func visArg(code string) (py string, given bool, val []lab, ok bool) {
	switch {
	case code == "_":
		return "", false, nil, true
	case code == "N":
		return "None", false, nil, true // None counts as "not set"
	case code == "E":
		return "[]", true, nil, true
	case code == "P":
		return `["PUBLIC"]`, true, []lab{public}, true
	case len(code) > 1 && (code[0] == 'L' || code[0] == 'A'):
		p, ok := unhex(code[1:])
		if !ok || strings.ContainsAny(p, "\"\\\n") {
			return "", false, nil, false
		}
		if _, err := core.TryParseBuildLabel("//"+p+":all", "", ""); err != nil || p == "" {
			return "", false, nil, false
		}
		if code[0] == 'L' {
			return `["//` + p + `/..."]`, true, []lab{{p, "...", ""}}, true
		}
		return `["//` + p + `:all"]`, true, []lab{{p, "all", ""}}, true
	}
	return "", false, nil, false
}

func boolArg(code string) (py string, given bool, val bool, ok bool) {
	switch code {
	case "_":
		return "", false, false, true
	case "N":
		return "None", false, false, true
	case "T":
		return "True", true, true, true
	case "F":
		return "False", true, false, true
	}
	return "", false, false, false
}

func showLabs(ls []lab) string {
	if len(ls) == 0 {
		return "_"
	}
	p := make([]string, len(ls))
	for i, l := range ls {
		p[i] = showLab(l)
	}
	return strings.Join(p, "+")
}

// declared evaluates `package(...)` + one build_rule in package "lib" through the real parser and interpreter, reads back
// the target's Visibility / TestOnly, then asks the real CanSee / CheckDependencyVisibility about a plain dependent in SRC.
func (h *H) declared(op string, f []string) {
	r := h.r
	pdvPy, pdvGiven, pdv, ok1 := visArg(f[1])
	pdtPy, pdtGiven, pdt, ok2 := boolArg(f[2])
	visPy, visGiven, vis, ok3 := visArg(f[3])
	toPy, toGiven, to, ok4 := boolArg(f[4])
	srcPkg, ok5 := unhex(f[5])
	if !(ok1 && ok2 && ok3 && ok4 && ok5) || f[1] == "N" || f[2] == "N" || srcPkg == "lib" {
		r.Emit(op, "bad-op", false)
		return
	}
	if _, err := core.TryParseBuildLabel("//"+srcPkg+":x", "", ""); err != nil {
		r.Emit(op, "bad-op", false)
		return
	}
	var b strings.Builder
	if pdvGiven || pdtGiven {
		var as []string
		if pdvGiven {
			as = append(as, "default_visibility = "+pdvPy)
		}
		if pdtGiven {
			as = append(as, "default_testonly = "+pdtPy)
		}
		b.WriteString("package(" + strings.Join(as, ", ") + ")\n")
	}
	b.WriteString(`build_rule(name = "t", cmd = "true", outs = ["t.out"]`)
	if visPy != "" {
		b.WriteString(", visibility = " + visPy)
	}
	if toPy != "" {
		b.WriteString(", test_only = " + toPy)
	}
	b.WriteString(")\n")
	if aspState == nil || aspUses > 300 {
		cli.InitLogging(0)
		aspState = core.NewDefaultBuildState()
		parse.InitParser(aspState)
		aspUses = 0
	}
	aspUses++
	aspState.Graph = core.NewGraph()
	pkg := core.NewPackage("lib")
	pkg.Filename = "lib/BUILD"
	out := lib.Safely(func() string {
		if _, err := parse.GetAspParser(aspState).EvalForVerif(pkg, []byte(b.String()), core.ParseModeNormal, false); err != nil {
			return "error " + strings.ReplaceAll(err.Error(), "\n", " ")
		}
		t := pkg.Target("t")
		if t == nil {
			return "error no target"
		}
		var gotVis []lab
		for _, v := range t.Visibility {
			gotVis = append(gotVis, lab{v.PackageName, v.Name, v.Subrepo})
		}
		src := lab{srcPkg, "x", ""}
		see := src.core().CanSee(aspState, t)
		dependent := core.NewBuildTarget(src.core())
		aspState.Graph.AddTarget(dependent)
		dependent.AddDependency(t.Label)
		chk := "ok"
		if err := dependent.CheckDependencyVisibility(aspState); err != nil {
			if strings.Contains(err.Error(), "isn't visible to") {
				chk = "vis"
			} else if strings.Contains(err.Error(), "test_only") {
				chk = "testonly"
			} else {
				chk = "error"
			}
		}
		return "vis=" + showLabs(gotVis) + " to=" + bit(t.TestOnly) + " see=" + bit(see) + " chk=" + chk
	})
	// direct oracle: the EXPLICIT argument decides when given (an empty list and False included), else the package
	// default, else the configuration default (no visibility, not test_only)
	effVis := pdv
	if visGiven {
		effVis = vis
	}
	effTo := pdt
	if toGiven {
		effTo = to
	}
	dep := vt{L: lab{"lib", "t", ""}, TestOnly: effTo, Vis: effVis}
	src := lab{srcPkg, "x", ""}
	wantSee := visible(nil, src, dep)
	wantChk := "ok"
	if !wantSee {
		wantChk = "vis"
	} else if effTo {
		wantChk = "testonly"
	}
	want := "vis=" + showLabs(effVis) + " to=" + bit(effTo) + " see=" + bit(wantSee) + " chk=" + wantChk
	if out != want {
		cls := "declared-restriction-deviates"
		if visGiven && pdvGiven && strings.HasPrefix(out, "vis="+showLabs(pdv)+" ") && showLabs(pdv) != showLabs(vis) {
			cls = "explicit-visibility-replaced-by-package-default"
		} else if toGiven && pdtGiven && strings.Contains(out, " to="+bit(pdt)+" ") && pdt != to {
			cls = "explicit-testonly-replaced-by-package-default"
		}
		r.OracleFail(cls, op, fmt.Sprintf("BUILD file of //lib: %q; dependent //%s:x; real code: %s; declared restriction says: %s", b.String(), srcPkg, out, want))
	}
	r.Count("bv")
	r.Emit(op, out, visGiven || toGiven || pdvGiven || pdtGiven)
}

type H struct{ r *lib.Run }

func (h *H) runOp(op string) {
	r := h.r
	f := strings.Split(op, " ")
	bad := func() { r.Emit(op, "bad-op", false) }
	switch {
	case f[0] == "cs" && len(f) == 4:
		dirs, ok1 := parseDirs(f[1])
		src, ok2 := parseLab(f[2])
		dep, ok3 := parseVT(f[3])
		if !(ok1 && ok2 && ok3) {
			bad()
			return
		}
		got := src.core().CanSee(stateFor(dirs), mkTarget(dep))
		want := visible(dirs, src, dep)
		if got != want {
			cls := "visibility-too-strict"
			if got {
				cls = visClass(dirs, src, dep)
			}
			r.OracleFail(cls, op, fmt.Sprintf("%v.CanSee(%+v) with experimental dirs %q = %v, documented rules %v", src, dep, dirs, got, want))
		}
		r.Count("cs-" + bit(got))
		r.Emit(op, bit(got), src.P != dep.L.P)
	case f[0] == "bv" && len(f) == 6:
		h.declared(op, f)
	case f[0] == "cd" && len(f) == 4:
		dirs, ok1 := parseDirs(f[1])
		t, ok2 := parseVT(f[2])
		if !(ok1 && ok2) {
			bad()
			return
		}
		var deps []vt
		if f[3] != "_" {
			for _, x := range strings.Split(f[3], ";") {
				d, ok := parseVT(x)
				if !ok {
					bad()
					return
				}
				deps = append(deps, d)
			}
		}
		seen := map[lab]bool{t.L: true}
		for _, d := range deps {
			if seen[d.L] {
				bad()
				return
			}
			seen[d.L] = true
		}
		st := stateFor(dirs)
		st.Graph = core.NewGraph()
		bt := mkTarget(t)
		st.Graph.AddTarget(bt)
		for _, d := range deps {
			st.Graph.AddTarget(mkTarget(d))
			bt.AddDependency(d.L.core())
		}
		out := lib.Safely(func() string {
			err := bt.CheckDependencyVisibility(st)
			if err == nil {
				return "ok"
			}
			for i, d := range deps {
				if err.Error() == fmt.Sprintf("Target %s isn't visible to %s", d.L.core(), t.L.core()) {
					return fmt.Sprintf("vis %d", i)
				}
				if err.Error() == fmt.Sprintf("Target %s can't depend on %s, it's marked test_only", t.L.core(), d.L.core()) {
					return fmt.Sprintf("testonly %d", i)
				}
			}
			return "error " + err.Error()
		})
		want := "ok"
		for i, d := range deps {
			if !visible(dirs, t.L, d) {
				want = fmt.Sprintf("vis %d", i)
				break
			}
			if !testOnlyOK(dirs, t, d) {
				want = fmt.Sprintf("testonly %d", i)
				break
			}
		}
		if out != want {
			cls := "check-deviates"
			for _, d := range deps { // the first dependency on which code and rules disagree names the class
				gv := t.L.core().CanSee(st, st.Graph.TargetOrDie(d.L.core()))
				if wv := visible(dirs, t.L, d); gv != wv {
					cls = "visibility-too-strict"
					if gv {
						cls = visClass(dirs, t.L, d)
					}
					break
				}
			}
			r.OracleFail(cls, op, fmt.Sprintf("CheckDependencyVisibility = %s, documented rules %s", out, want))
		}
		r.Count("cd-" + strings.Fields(out)[0])
		r.Emit(op, out, len(deps) > 0)
	default:
		bad()
	}
}

// ---------------------------------------------------------------- generators

var comps = []string{"a", "b", "ab", "a.b", "lib", "exp", "expfoo", "experimental", "p", "pfoo", "third_party"}

func genPkg(g *lib.Rng) string {
	n := g.Intn(3)
	if n == 0 && g.Chance(15) {
		return ""
	}
	var p []string
	for i := 0; i <= n; i++ {
		p = append(p, lib.Pick(g, comps))
	}
	return strings.Join(p, "/")
}

func genTree(g *lib.Rng, n int) []string {
	seen := map[string]bool{}
	var out []string
	add := func(s string) {
		if !seen[s] {
			seen[s] = true
			out = append(out, s)
		}
	}
	for len(out) < n {
		p := genPkg(g)
		add(p)
		if p != "" {
			switch g.Intn(4) {
			case 0:
				add(p + "/" + lib.Pick(g, comps))
			case 1:
				add(p + lib.Pick(g, []string{"foo", "x", "_", "2"}))
			case 2:
				if i := strings.LastIndexByte(p, '/'); i > 0 {
					add(p[:i])
				}
			}
		}
	}
	return out
}

func genName(g *lib.Rng) string {
	return lib.Pick(g, []string{"x", "y", "lib", "_x#y", "__x#y#z", "_lib#srcs", "x#y", "_x", "t"})
}

func genSub(g *lib.Rng) string {
	if g.Chance(88) {
		return ""
	}
	return lib.Pick(g, []string{"s", "s", "t"})
}

func genVis(g *lib.Rng, tree []string, src lab) []lab {
	var out []lab
	for i := 0; i < g.Intn(4); i++ {
		p := lib.Pick(g, tree)
		if g.Chance(40) {
			p = src.P
		}
		if g.Chance(30) {
			if j := strings.LastIndexByte(p, '/'); j > 0 {
				p = p[:j]
			}
		}
		if g.Chance(10) && p != "" {
			p = p[:1+g.Intn(len(p))] // a raw string prefix of a package name
		}
		n := lib.Pick(g, []string{"...", "...", "all", "x", refParent(src).N, src.N})
		sub := ""
		if g.Chance(10) {
			sub = lib.Pick(g, []string{"s", src.S})
		}
		v := lab{p, n, sub}
		if g.Chance(8) {
			v = public
		}
		out = append(out, v)
	}
	return out
}

func genDirs(g *lib.Rng, tree []string) []string {
	var out []string
	for i := 0; i < g.Intn(3); i++ {
		d := lib.Pick(g, tree)
		if g.Chance(50) {
			d = lib.Pick(g, []string{"exp", "experimental", "a", "p"})
		}
		if j := strings.IndexByte(d, '/'); j > 0 && g.Chance(50) {
			d = d[:j]
		}
		out = append(out, d)
	}
	return out
}

func main() {
	r := lib.Start()
	defer r.Finish()
	h := &H{r}
	r.Rule = "cs: source and dependency in different packages; cd: at least one dependency; distinct by op line"
	if ops := r.ReplayOps(); ops != nil {
		for _, op := range ops {
			h.runOp(op)
		}
		return
	}
	g := r.Rng
	// 1. exhaustive small: source package x dependency package x visibility pattern x experimental dirs
	pk := []string{"", "a", "ab", "a/b", "b"}
	if r.Thorough() {
		pk = append(pk, "a/bc", "a.b", "ab/c")
	}
	for _, sp := range pk {
		for _, dp := range pk {
			for _, vp := range pk {
				for _, vn := range []string{"...", "all", "x"} {
					for _, sn := range []string{"x", "_x#y"} {
						for _, dirs := range [][]string{nil, {"a"}, {"ab"}} {
							for _, ss := range []string{"", "s"} {
								dep := vt{L: lab{dp, "d", ""}, Vis: []lab{{vp, vn, ""}}}
								h.runOp("cs " + showDirs(dirs) + " " + showLab(lab{sp, sn, ss}) + " " + showVT(dep))
							}
						}
					}
				}
			}
		}
	}
	// 1b. declared restrictions through the real interpreter: package defaults x explicit arguments (omitted, None, the
	//     empty list / False, values) x dependents inside and outside the granted packages
	for _, pdv := range []string{"_", "E", "P", "L" + lib.Hex("app"), "A" + lib.Hex("app")} {
		for _, pdt := range []string{"_", "T", "F"} {
			for _, vis := range []string{"_", "N", "E", "P", "L" + lib.Hex("app"), "A" + lib.Hex("app/sub")} {
				for _, to := range []string{"_", "N", "T", "F"} {
					for _, src := range []string{"app", "app/sub", "appx", "other"} {
						h.runOp("bv " + pdv + " " + pdt + " " + vis + " " + to + " " + lib.Hex(src))
					}
				}
			}
		}
	}
	r.Exhaust = true
	// 2. generated trees: CanSee on random pairs, CheckDependencyVisibility on random edge lists
	for i := 0; i < r.N(2500, 40000); i++ {
		tree := genTree(g, 3+g.Intn(8))
		dirs := genDirs(g, tree)
		t := vt{L: lab{lib.Pick(g, tree), genName(g), genSub(g)}, TestOnly: g.Chance(15), IsTest: g.Chance(25)}
		seen := map[lab]bool{t.L: true}
		var deps []vt
		for k := 0; k < g.Intn(5); k++ {
			d := vt{L: lab{lib.Pick(g, tree), genName(g), genSub(g)}, TestOnly: g.Chance(25), IsTest: g.Chance(10)}
			if g.Chance(15) {
				d.L.P = t.L.P
			}
			if seen[d.L] {
				continue
			}
			seen[d.L] = true
			d.Vis = genVis(g, tree, t.L)
			deps = append(deps, d)
		}
		ds := "_"
		if len(deps) > 0 {
			p := make([]string, len(deps))
			for i, d := range deps {
				p[i] = showVT(d)
			}
			ds = strings.Join(p, ";")
		}
		h.runOp("cd " + showDirs(dirs) + " " + showVT(t) + " " + ds)
		for _, d := range deps {
			h.runOp("cs " + showDirs(dirs) + " " + showLab(t.L) + " " + showVT(d))
		}
	}
}
