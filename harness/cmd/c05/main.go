// C05 harness: the real plz binary on generated repositories with injected failures — commands that exit 1,
// dependencies on labels that do not exist, BUILD files with syntax errors, missing packages, dependency
// cycles through 1..n targets — with and without --keep_going, at -n 1,2,4,16, each run under a 60 s wall-clock
// limit; a command failure together with a cycle elsewhere in the requested set; packages that subinclude a target that
// fails, whose dependency fails, that has already failed when the package is parsed, or that builds.  Direct oracle on the real run: it terminates; its exit status is non-zero exactly when a requested
// target or one of its (transitive) dependencies cannot be built; no command ran whose dependency had failed; with
// --keep_going everything that does not depend on a failure is still built.  The Lean driver replays the action
// log through the scheduler model and computes the expected exit status from the case on its own.
package main

import (
	"fmt"
	"os"
	"strings"
	"sync"
	"time"

	"verif/harness/lib"
	"verif/harness/sched"
)

type outcome struct {
	line, out string
	nontriv   bool
	counts    []string
	fails     [][3]string
}

const wallLimit = 60 * time.Second

func has(xs []int, x int) bool {
	for _, y := range xs {
		if y == x {
			return true
		}
	}
	return false
}

// onCycle reports the targets that lie on a dependency cycle.
func onCycle(c *sched.Case) map[int]bool {
	n := len(c.Targets)
	reach := make([][]bool, n)
	for i := range reach {
		reach[i] = make([]bool, n)
		for _, d := range c.EffDeps(i) {
			reach[i][d] = true
		}
	}
	for k := 0; k < n; k++ {
		for i := 0; i < n; i++ {
			for j := 0; j < n; j++ {
				if reach[i][k] && reach[k][j] {
					reach[i][j] = true
				}
			}
		}
	}
	out := map[int]bool{}
	for i := 0; i < n; i++ {
		if reach[i][i] {
			out[i] = true
		}
	}
	return out
}

// broken: the target itself cannot be built (independently of its dependencies).
func broken(c *sched.Case) map[int]bool {
	cyc := onCycle(c)
	out := map[int]bool{}
	// a target that depends on itself is rejected while its BUILD file is parsed: the whole package fails
	selfPkg := map[int]bool{}
	for i, t := range c.Targets {
		if has(t.Deps, i) {
			selfPkg[t.Pkg] = true
		}
	}
	for i, t := range c.Targets {
		if t.Fail != "" || has(c.BadPkg, t.Pkg) || has(c.MissPkg, t.Pkg) || cyc[i] || selfPkg[t.Pkg] {
			out[i] = true
		}
	}
	// a package that subincludes a target that cannot be built does not parse: none of its targets exists
	var bad func(i int, seen map[int]bool) bool
	bad = func(i int, seen map[int]bool) bool {
		if out[i] {
			return true
		}
		if seen[i] {
			return false
		}
		seen[i] = true
		for _, d := range c.EffDeps(i) {
			if bad(d, seen) {
				return true
			}
		}
		return false
	}
	subBroken := map[int]bool{}
	for _, s := range c.Subs {
		if bad(s[1], map[int]bool{}) {
			subBroken[s[0]] = true
		}
	}
	for i, t := range c.Targets {
		if subBroken[t.Pkg] {
			out[i] = true
		}
	}
	return out
}

// hangClass names a run that did not terminate after the shape of the case (the three shapes that used to hang).
func hangClass(c *sched.Case, br map[int]bool) string {
	if c.KeepGoing {
		exit, late := false, false
		for _, t := range c.Targets {
			exit = exit || t.Fail == "exit"
			late = late || len(t.PostAdd) > 0
		}
		for _, s := range c.Subs {
			if subTainted(c, s[1], br) {
				if late {
					return "did-not-terminate-subinclude-of-already-failed-target"
				}
				return "did-not-terminate-failing-subinclude"
			}
		}
		if exit && len(onCycle(c)) > 0 {
			return "did-not-terminate-failure-and-cycle"
		}
	}
	return "did-not-terminate"
}

func subTainted(c *sched.Case, u int, br map[int]bool) bool {
	seen := map[int]bool{}
	var walk func(i int) bool
	walk = func(i int) bool {
		if br[i] {
			return true
		}
		if seen[i] {
			return false
		}
		seen[i] = true
		for _, d := range c.EffDeps(i) {
			if walk(d) {
				return true
			}
		}
		return false
	}
	return walk(u)
}

func judge(c *sched.Case, ev []sched.Event, rc int, wall time.Duration, reported []int, line string) *outcome {
	o := &outcome{line: line}
	fail := func(class, detail string) { o.fails = append(o.fails, [3]string{class, line, detail}) }
	for _, v := range c.CheckLog(ev) {
		fail(v.Class, v.Detail)
	}
	built, failed := sched.Summary(ev)
	needed := c.Needed()
	br := broken(c)
	expectFail := false
	for t := range needed {
		if br[t] {
			expectFail = true
		}
	}
	if rc == 124 {
		fail(hangClass(c, br), fmt.Sprintf("plz was killed at the %v wall-clock limit", wallLimit))
	} else {
		if expectFail && rc == 0 {
			fail("exit-zero-despite-failure", "a requested target (or a dependency) cannot be built, exit status 0")
		}
		if !expectFail && rc != 0 {
			fail("exit-nonzero-without-failure", fmt.Sprintf("everything requested can be built, exit status %d", rc))
		}
	}
	isBuilt := map[int]bool{}
	for _, b := range built {
		isBuilt[b] = true
	}
	// what must be built in any case: with no failure everything needed; with --keep_going and only command
	// failures, everything needed that does not depend on a failure
	onlyExit := len(c.BadPkg) == 0 && len(c.MissPkg) == 0 && len(onCycle(c)) == 0
	for _, t := range c.Targets {
		if t.Fail == "undef" {
			onlyExit = false
		}
	}
	// a target plz reports as failed must have failed itself: a dependent of a failed target is never handed to a
	// worker, so it cannot fail on its own account ("cannot calculate hash for <the dependency's output>")
	if onlyExit {
		own := map[int]bool{}
		for _, f := range failed {
			own[f] = true
		}
		for _, t := range reported {
			if !own[t] && !br[t] {
				fail("dependent-of-failed-target-was-run", fmt.Sprintf("plz reports target %d as failed although its command never failed: it was handed to a build worker after a dependency had failed", t))
			}
		}
	}
	if rc != 124 && !c.Warm && (!expectFail || (c.KeepGoing && onlyExit)) {
		var tainted func(i int, seen map[int]bool) bool
		tainted = func(i int, seen map[int]bool) bool {
			if br[i] {
				return true
			}
			if seen[i] {
				return false
			}
			seen[i] = true
			for _, d := range c.EffDeps(i) {
				if tainted(d, seen) {
					return true
				}
			}
			return false
		}
		for t := range needed {
			if !tainted(t, map[int]bool{}) && !isBuilt[t] {
				cls := "needed-target-not-built"
				if expectFail {
					cls = "keep-going-skipped-buildable-target"
				}
				fail(cls, fmt.Sprintf("target %d does not depend on any failure but was not built", t))
			}
		}
	}
	rcs := "0"
	if rc != 0 {
		rcs = "nz"
	}
	o.out = fmt.Sprintf("ok built=%s failed=%s rc=%s", sched.Ints(built), sched.Ints(failed), rcs)
	if len(o.fails) > 0 {
		o.out = "violation " + o.out
	}
	o.nontriv = len(c.Targets) >= 2
	if expectFail {
		o.counts = append(o.counts, "runs-expected-to-fail")
	} else {
		o.counts = append(o.counts, "runs-expected-to-succeed")
	}
	if wall > 4*time.Second {
		o.counts = append(o.counts, "runs-longer-than-4s")
	}
	o.counts = append(o.counts, fmt.Sprintf("par=%d", c.Par))
	return o
}

func traceLine(c *sched.Case, ev []sched.Event, rc int, reported []int) string {
	return fmt.Sprintf("trace %s rep=%s ev=%s rc=%d", c.Encode(), sched.Ints(reported), sched.EventsString(ev), rc)
}

func splitTrace(line string) (*sched.Case, []sched.Event, int, []int, bool) {
	c, ev, rc, ok := splitTrace0(line)
	var rep []int
	for _, f := range strings.Fields(line) {
		if strings.HasPrefix(f, "rep=") && f != "rep=-" {
			for _, x := range strings.Split(f[4:], ",") {
				var n int
				if _, err := fmt.Sscanf(x, "%d", &n); err == nil {
					rep = append(rep, n)
				}
			}
		}
	}
	return c, ev, rc, rep, ok
}

func splitTrace0(line string) (*sched.Case, []sched.Event, int, bool) {
	f := strings.Fields(line)
	if len(f) < 4 || f[0] != "trace" {
		return nil, nil, 0, false
	}
	evs, rcs := f[len(f)-2], f[len(f)-1]
	if !strings.HasPrefix(evs, "ev=") || !strings.HasPrefix(rcs, "rc=") {
		return nil, nil, 0, false
	}
	c, ok := sched.Decode(strings.Join(f[1:len(f)-2], " "))
	if !ok {
		return nil, nil, 0, false
	}
	ev, ok := sched.ParseEvents(evs[3:])
	var rc int
	if _, err := fmt.Sscanf(rcs[3:], "%d", &rc); err != nil || !ok {
		return nil, nil, 0, false
	}
	return c, ev, rc, true
}

var caseID struct {
	sync.Mutex
	n int
}

func nextID() int {
	caseID.Lock()
	defer caseID.Unlock()
	caseID.n++
	return caseID.n
}

func lastLines(s string, n int) string {
	l := strings.Split(strings.TrimSpace(s), "\n")
	if len(l) > n {
		l = l[len(l)-n:]
	}
	return strings.Join(l, "\n")
}

// envSensitive: outcomes that a starved machine can produce on its own (the log-based classes never are).
var envSensitive = map[string]bool{"did-not-terminate": true, "did-not-terminate-failure-and-cycle": true,
	"did-not-terminate-failing-subinclude": true, "did-not-terminate-subinclude-of-already-failed-target": true, "exit-nonzero-without-failure": true,
	"needed-target-not-built": true, "keep-going-skipped-buildable-target": true}

// suspicious: every failure of the outcome is environment-sensitive.
func suspicious(o *outcome) bool {
	if len(o.fails) == 0 {
		return false
	}
	for _, f := range o.fails {
		if !envSensitive[f[0]] {
			return false
		}
	}
	return true
}

// confirm re-runs a suspicious case with nothing else of this harness running: the failure is reported only if
// it shows again (the first occurrence is still counted).
func confirm(c *sched.Case, o *outcome) *outcome {
	if !suspicious(o) {
		return o
	}
	o2 := executeOnce(c)
	for _, k := range o.counts {
		if strings.HasPrefix(k, "killed-at-limit") {
			o2.counts = append(o2.counts, "first-run-"+k)
		}
	}
	if len(o2.fails) == 0 {
		o2.counts = append(o2.counts, "not-reproduced-on-rerun:"+o.fails[0][0])
		return o2
	}
	o2.fails[0][2] += " | reproduced on an isolated re-run"
	return o2
}

func execute(c *sched.Case) *outcome { return confirm(c, executeOnce(c)) }

func executeOnce(c *sched.Case) *outcome {
	res, err := c.Run(os.Getenv("VERIF_PLZ"), os.Getenv("VERIF_SCRATCH"), nextID(), wallLimit)
	if err != nil {
		return &outcome{line: "run " + c.Encode(), out: "harness-error " + err.Error()}
	}
	o := judge(c, res.Events, res.RC, res.Wall, res.ReportedFailed, traceLine(c, res.Events, res.RC, res.ReportedFailed))
	if res.RC == 124 {
		o.counts = append(o.counts, fmt.Sprintf("killed-at-limit-after-%ds-without-events", int(res.Idle.Seconds())/10*10))
		if len(o.fails) > 0 {
			o.fails[0][2] += fmt.Sprintf(" | last event %.0f s before the kill", res.Idle.Seconds())
		}
	}
	if len(o.fails) > 0 && res.Output != "" {
		n := 6
		if res.RC == 124 {
			n = 60 // the goroutine dump requested before the kill
		}
		o.fails[0][2] += " | plz said: " + strings.ReplaceAll(lastLines(res.Output, n), "\n", " / ")
	}
	return o
}

func flush(r *lib.Run, o *outcome) {
	for _, f := range o.fails {
		r.OracleFail(f[0], f[1], f[2])
	}
	r.Emit(o.line, o.out, o.nontriv)
	for _, c := range o.counts {
		r.Count(c)
	}
}

func runOp(r *lib.Run, line string) {
	switch {
	case strings.HasPrefix(line, "trace "):
		c, ev, rc, rep, ok := splitTrace(line)
		if !ok {
			r.Emit(line, "bad-op", false)
			return
		}
		flush(r, judge(c, ev, rc, 0, rep, line))
	case strings.HasPrefix(line, "run "):
		c, ok := sched.Decode(strings.TrimPrefix(line, "run "))
		if !ok {
			r.Emit(line, "bad-op", false)
			return
		}
		flush(r, execute(c))
	default:
		r.Emit(line, "bad-op", false)
	}
}

// ---------------------------------------------------------------- generator

// slowFirst: a target whose first dependency is slow and succeeds while a later one fails at once (or, warm, has a
// failing dependency of its own): when the wait loop reaches the later dependency it has already failed.
func slowFirst(rng *lib.Rng, r *lib.Run, warm bool) *sched.Case {
	c := &sched.Case{KeepGoing: true, Par: []int{2, 4, 16}[rng.Intn(3)], Warm: warm}
	if !warm {
		// 0 slow ok, 1 fails at once, 2 depends on both (slow one first)
		c.Targets = []sched.Target{{SleepMs: 700 + rng.Intn(500)}, {Fail: "exit"}, {Deps: []int{0, 1}}}
		c.Roots = []int{2}
		if rng.Bool() {
			c.Targets = append(c.Targets, sched.Target{Deps: []int{2}})
			c.Roots = []int{3}
		}
	} else {
		// 0 slow, rebuilt with a new output; 1 fails (after a moment) in the second invocation; 2 depends on 1 and keeps
		// its stale output; 3 depends on 0 (first) and 2
		c.Targets = []sched.Target{{SleepMs: 900 + rng.Intn(500), Touch: true}, {SleepMs: 150 + rng.Intn(150), Fail: "exit"},
			{Deps: []int{1}}, {Deps: []int{0, 2}}}
		c.Roots = []int{3}
	}
	r.Count("kind:slow-first-then-failed" + map[bool]string{true: "-warm", false: ""}[warm])
	return c
}

// failAndCycle: a command failure and, elsewhere in the requested set, a dependency cycle. With --keep_going the
// failure does not stop the build: only the idle-time cycle check can end it, and forwardResults arms that check only
// while its set of active targets is empty.
func failAndCycle(rng *lib.Rng, r *lib.Run) *sched.Case {
	c := &sched.Case{KeepGoing: !rng.Chance(20), Par: []int{1, 2, 4, 16}[rng.Intn(4)]}
	// 0 fails (possibly after a moment); optionally 1 depends on it; then a cycle through k targets
	c.Targets = []sched.Target{{Fail: "exit", SleepMs: rng.Intn(300)}}
	root := 0
	if rng.Bool() {
		c.Targets = append(c.Targets, sched.Target{Deps: []int{0}})
		root = 1
	}
	base := len(c.Targets)
	k := 2 + rng.Intn(3)
	for i := 0; i < k; i++ {
		c.Targets = append(c.Targets, sched.Target{Deps: []int{base + (i+1)%k}})
	}
	if rng.Bool() { // an independent target that must still be built
		c.Targets = append(c.Targets, sched.Target{SleepMs: rng.Intn(50)})
		c.Roots = append(c.Roots, len(c.Targets)-1)
	}
	c.Roots = append(c.Roots, root, base+rng.Intn(k))
	if rng.Bool() {
		c.Roots[len(c.Roots)-1], c.Roots[len(c.Roots)-2] = c.Roots[len(c.Roots)-2], c.Roots[len(c.Roots)-1]
	}
	pkgs := 1 + rng.Intn(2)
	for i := range c.Targets {
		c.Targets[i].Pkg = rng.Intn(pkgs)
	}
	r.Count("kind:command-failure-and-cycle")
	if c.KeepGoing {
		r.Count("keep_going")
		r.Count("keep_going-with-failure-and-cycle")
	}
	return c
}

// subinclude: package 1 subincludes a target of package 0, which fails / whose dependency fails / which has already
// failed when package 1 is parsed (its parse is triggered late, by a post-build add_dep) / which builds fine.
func subinclude(rng *lib.Rng, r *lib.Run, variant string) *sched.Case {
	c := &sched.Case{KeepGoing: !rng.Chance(20), Par: []int{2, 4, 16}[rng.Intn(3)]}
	switch variant {
	case "fail": // //p0:t0 fails; //p1:t1 (+ //p1:t2) requested
		c.Targets = []sched.Target{{Pkg: 0, Fail: "exit", SleepMs: rng.Intn(400)}, {Pkg: 1}, {Pkg: 1, Deps: []int{1}}}
		c.Subs = [][2]int{{1, 0}}
		c.Roots = []int{2}
		if rng.Bool() { // a second package subincluding the same target
			c.Targets = append(c.Targets, sched.Target{Pkg: 2})
			c.Subs = append(c.Subs, [2]int{2, 0})
			c.Roots = append(c.Roots, 3)
		}
	case "depfail": // the subincluded target's dependency fails
		c.Targets = []sched.Target{{Pkg: 0, Fail: "exit", SleepMs: rng.Intn(200)}, {Pkg: 0, Deps: []int{0}}, {Pkg: 1}}
		c.Subs = [][2]int{{1, 1}}
		c.Roots = []int{2}
	case "late": // 0 fails at once; 1 is slow and then attaches //p2:t3 to 2; package 2 subincludes 0
		c.Targets = []sched.Target{{Pkg: 0, Fail: "exit"}, {Pkg: 1, SleepMs: 1200 + rng.Intn(600), PostAdd: [][2]int{{2, 3}}},
			{Pkg: 1, Deps: []int{1}}, {Pkg: 2}}
		c.Subs = [][2]int{{2, 0}}
		c.Roots = []int{2, 0}
	case "ok":
		c.Targets = []sched.Target{{Pkg: 0, SleepMs: rng.Intn(200)}, {Pkg: 1}, {Pkg: 1, Deps: []int{1}}}
		c.Subs = [][2]int{{1, 0}}
		c.Roots = []int{2}
	}
	if rng.Bool() { // an independent target that must still be built
		c.Targets = append(c.Targets, sched.Target{Pkg: 3, SleepMs: rng.Intn(50)})
		c.Roots = append(c.Roots, len(c.Targets)-1)
	}
	r.Count("kind:subinclude-" + variant)
	if c.KeepGoing {
		r.Count("keep_going")
		if variant != "ok" {
			r.Count("keep_going-with-failing-subinclude")
		}
	}
	return c
}

// failSlowClean (warm): in the second invocation target 0 fails, and what the first invocation left as its output is a
// directory of many files, so build.Build spends a while removing it between logging the failure and marking the target
// Failed; its dependants wait for it the whole time.
func failSlowClean(rng *lib.Rng, r *lib.Run) *sched.Case {
	c := &sched.Case{KeepGoing: true, Par: []int{2, 4, 16}[rng.Intn(3)], Warm: true}
	// the dependants' commands change too, so they would really be run if they were handed to a worker
	c.Targets = []sched.Target{{Fail: "exit", BigOut: true, SleepMs: rng.Intn(100)}, {Deps: []int{0}, Touch: true}}
	c.Roots = []int{1}
	if rng.Bool() {
		c.Targets = append(c.Targets, sched.Target{Deps: []int{1}, Touch: true})
		c.Roots = []int{2}
	}
	if rng.Bool() {
		c.Targets = append(c.Targets, sched.Target{Deps: []int{0}, Pkg: 1, Touch: true})
		c.Roots = append(c.Roots, len(c.Targets)-1)
	}
	r.Count("kind:failure-with-slow-output-removal-warm")
	r.Count("keep_going")
	return c
}

func genCase(rng *lib.Rng, r *lib.Run, kind string) *sched.Case {
	if kind == "failslowclean-warm" {
		return failSlowClean(rng, r)
	}
	if kind == "slowfirst" || kind == "slowfirst-warm" {
		return slowFirst(rng, r, kind == "slowfirst-warm")
	}
	if kind == "exit+cycle" {
		return failAndCycle(rng, r)
	}
	if strings.HasPrefix(kind, "sub-") {
		return subinclude(rng, r, strings.TrimPrefix(kind, "sub-"))
	}
	c := &sched.Case{}
	n := 2 + rng.Intn(9)
	for i := 0; i < n; i++ {
		var ds []int
		for j := 0; j < i; j++ {
			if rng.Chance(35) {
				ds = append(ds, j)
			}
		}
		c.Targets = append(c.Targets, sched.Target{Deps: ds, SleepMs: rng.Intn(20)})
	}
	c.Roots = []int{n - 1}
	if rng.Chance(30) {
		c.Roots = append(c.Roots, rng.Intn(n))
	}
	pkgs := 1 + rng.Intn(3)
	for i := range c.Targets {
		c.Targets[i].Pkg = rng.Intn(pkgs)
	}
	c.KeepGoing = rng.Bool()
	c.Par = []int{1, 2, 4, 16}[rng.Intn(4)]
	switch kind {
	case "exit":
		k := 1 + rng.Intn(2)
		for i := 0; i < k; i++ {
			c.Targets[rng.Intn(n)].Fail = "exit"
		}
	case "undef":
		c.Targets[rng.Intn(n)].Fail = "undef"
	case "bad":
		c.BadPkg = []int{rng.Intn(pkgs)}
	case "badwait":
		// several parse tasks end up waiting for one package whose BUILD file does not parse
		x := len(c.Targets)
		c.Targets = append(c.Targets, sched.Target{Pkg: pkgs, SleepMs: 1})
		k := 0
		for i := 0; i < x; i++ {
			if rng.Chance(60) || i == n-1 {
				c.Targets[i].Deps = append(c.Targets[i].Deps, x)
				k++
			}
		}
		c.BadPkg = []int{pkgs}
		c.Par = 16
		if k >= 3 {
			r.Count("bad-package-with-3+-waiters")
		}
	case "miss":
		// a separate package that does not exist, referenced by one target
		t := rng.Intn(n)
		c.Targets = append(c.Targets, sched.Target{Pkg: pkgs, SleepMs: 1})
		c.Targets[t].Deps = append(c.Targets[t].Deps, n)
		c.MissPkg = []int{pkgs}
	case "cycle":
		k := 1 + rng.Intn(4) // cycle through k targets
		if k > n {
			k = n
		}
		start := rng.Intn(n - k + 1)
		for i := 0; i < k; i++ {
			a, b := start+i, start+(i+1)%k
			if !has(c.Targets[a].Deps, b) {
				c.Targets[a].Deps = append(c.Targets[a].Deps, b)
			}
		}
		r.Count(fmt.Sprintf("cycle-length-%d", k))
	}
	r.Count("kind:" + kind)
	if c.KeepGoing {
		r.Count("keep_going")
	}
	return c
}

func main() {
	r := lib.Start()
	defer r.Finish()
	r.Rule = "one plz invocation on a generated repository with at least two targets; distinct by case and observed trace"
	if ops := r.ReplayOps(); ops != nil {
		for _, op := range ops {
			runOp(r, op)
		}
		return
	}
	if os.Getenv("VERIF_PLZ") == "" {
		panic("VERIF_PLZ not set")
	}
	kinds := []string{"none", "exit", "exit+cycle", "sub-fail", "slowfirst", "undef", "bad", "sub-late", "miss", "cycle", "exit+cycle", "sub-depfail", "badwait",
		"slowfirst-warm", "exit", "sub-ok", "failslowclean-warm"}
	var cases []*sched.Case
	for i := 0; i < r.N(40, 200); i++ {
		cases = append(cases, genCase(r.Rng, r, kinds[i%len(kinds)]))
	}
	outs := make([]*outcome, len(cases))
	var wg sync.WaitGroup
	sem := make(chan struct{}, 10) // cycle runs wait 5 s for the inactivity timer: run wide
	for i, c := range cases {
		wg.Add(1)
		sem <- struct{}{}
		go func(i int, c *sched.Case) {
			defer wg.Done()
			defer func() { <-sem }()
			outs[i] = executeOnce(c)
		}(i, c)
	}
	wg.Wait()
	for i, o := range outs {
		o = confirm(cases[i], o)
		flush(r, o)
		r.Count("plz-runs")
	}
	for _, l := range []string{"trace x", "foo", "run deps=0:1 pk=0 roots=0 n=1 kg=0 fail=- bad=- miss=-"} {
		runOp(r, l)
		r.Count("malformed")
	}
}
