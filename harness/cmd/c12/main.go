// C12 harness: the directory cache's Store / Retrieve (src/cache/dir_cache.go) under crash injection.
//
// One op line is a self-contained scenario on one cache key, starting from an empty cache:
//
//	<mode> <outs> <act> <act> ...
//	mode  u (plain directory entries) | c (compressed: one .tar.gz per entry)
//	outs  comma separated hex paths (the `files` argument of Store / `outs` of Retrieve), "-" for none
//	act   S/<crash>/<tree>   Store of <tree> (materialised in plz-out/gen/<pkg> first), in a child process that is
//	                          SIGKILLed just before its <crash>-th filesystem operation ("-" = runs to completion,
//	                          "0.k" = inside the initial removal of the old entry, after k unlink/rmdir steps)
//	      R                   Retrieve in a fresh cache object into an emptied plz-out/gen/<pkg>
//	      R/<tree>            the same, but plz-out/gen/<pkg> first holds <tree>: stale outputs of an earlier build
//	      X/<crash>/<tree>   Retrieve that is suspended right after it found the entry while the store runs
//	                          (up to <crash>), then resumes
//	      D/<keep>            compressed caches only: the entry's .tar.gz loses its gzip trailer, one more byte, and
//	                          then all but <keep>% (0..75) of what is left, as by a torn write — the real Retrieve
//	                          must then treat it as a miss.  Cuts nearer the end are not part of the protocol: the
//	                          last few compressed bytes only hold the tail of the archive's end marker, tar stops
//	                          before them and gzip's trailer is never read, so such a cut is invisible to the code
//	                          (observed: everything is restored, a complete hit) and to an entries-level model
//	tree  comma separated hexpath:kind:hexdata, kind f|x|l|d, in walk order
//
// Output: one piece per act joined by "|" (S: the op trace, R: miss | hit/<tree>, X: trace;result), then the
// state of the key's slice of the cache:  F=<final> T=<temp>.
package main

import (
	"encoding/json"
	"fmt"
	"hash/fnv"
	"io"
	"os"
	"os/exec"
	"path/filepath"
	"strconv"
	"strings"
	"sync"
	"syscall"

	logging "gopkg.in/op/go-logging.v1"

	"github.com/thought-machine/please/src/cache"
	"github.com/thought-machine/please/src/core"
	"verif/harness/lib"
)

var key = []byte("12345678901234567890")

type childSpec struct {
	Root, CacheDir, Pkg string
	Compress            bool
	Outs                []string
	Main, Sub           int // crash point; Main<0: none
}

func target(pkg string) *core.BuildTarget {
	return core.NewBuildTarget(core.ParseBuildLabel("//"+pkg+":t", ""))
}

// rel renders a path relative to the key's slice: F (entry), T (temp), S (source tree in plz-out).
func relName(p, f, t, s string) string {
	for _, c := range []struct{ tag, root string }{{"T", t}, {"F", f}, {"S", s}, {"S", filepath.Join(core.RepoRoot, s)}} {
		if p == c.root {
			return c.tag
		} else if strings.HasPrefix(p, c.root+"/") {
			return c.tag + "/" + hx(p[len(c.root)+1:])
		}
	}
	return "?" + hx(p)
}

// ---- the crash hook (shared by the killed child and the in-process variant)

// partialOp performs the first k atomic steps of the operation that is about to start: unlink/rmdir in the
// order a recursive removal deletes (rm-final), or mkdir/link/symlink in walk order (link-tree).
func partialOp(op, path string, k int, srcOf func(dest string) string) {
	switch op {
	case "rm-final":
		po := postOrder(path)
		for i := 0; i < k && i < len(po); i++ {
			os.Remove(po[i])
		}
	case "link-tree":
		src := srcOf(path)
		type node struct {
			rel  string
			kind byte
			data string
		}
		var nodes []node
		if fi, err := os.Lstat(src); err == nil {
			switch {
			case fi.Mode()&os.ModeSymlink != 0:
				t, _ := os.Readlink(src)
				nodes = append(nodes, node{"", 'l', t})
			case fi.IsDir():
				nodes = append(nodes, node{"", 'd', ""})
				es, _ := snapshot(src)
				for _, e := range es {
					nodes = append(nodes, node{e.Path, e.Kind, e.Data})
				}
			default:
				nodes = append(nodes, node{"", 'f', ""})
			}
		}
		for i := 0; i < k && i < len(nodes); i++ {
			n := nodes[i]
			switch n.kind {
			case 'd':
				os.MkdirAll(filepath.Join(path, n.rel), 0o775)
			case 'l':
				os.Symlink(n.data, filepath.Join(path, n.rel))
			default:
				os.Link(filepath.Join(src, n.rel), filepath.Join(path, n.rel))
			}
		}
	}
}

type crashPlan struct {
	main, sub int
	n         int
	trace     []string
	subOp     string
}

// makeHook returns the hook of one store: ops before the crash point are recorded, at the crash point the
// partial steps are done and die() is called (SIGKILL of the process, or a panic that abandons Store).
func makeHook(pl *crashPlan, c interface {
	PathsForVerif(*core.BuildTarget, []byte) (string, string)
}, tg *core.BuildTarget, emit func(string), die func()) func(op, path string) {
	f, t := c.PathsForVerif(tg, key)
	srcOf := func(dest string) string {
		return filepath.Join(core.RepoRoot, tg.OutDir(), strings.TrimPrefix(dest, t+"/"))
	}
	return func(op, path string) {
		if strings.HasPrefix(op, "retr-") {
			return
		}
		if pl.n == pl.main {
			if pl.sub > 0 {
				emit("#sub " + op)
				partialOp(op, path, pl.sub, srcOf)
			}
			die()
		}
		emit(op + "@" + relName(path, f, t, tg.OutDir()))
		pl.n++
	}
}

// ---- child: one Store, killed at the requested operation

func childMain() {
	var sp childSpec
	if err := json.Unmarshal([]byte(os.Getenv("C12_CHILD")), &sp); err != nil {
		panic(err)
	}
	logging.SetBackend(logging.NewLogBackend(io.Discard, "", 0))
	core.RepoRoot = sp.Root
	if err := os.Chdir(sp.Root); err != nil {
		panic(err)
	}
	c := cache.NewDirCacheForVerif(sp.CacheDir, sp.Compress)
	tg := target(sp.Pkg)
	pl := &crashPlan{main: sp.Main, sub: sp.Sub}
	cache.VerifOpHook = makeHook(pl, c, tg, func(l string) { os.Stdout.WriteString(l + "\n") }, func() {
		syscall.Kill(os.Getpid(), syscall.SIGKILL)
		select {}
	})
	c.Store(tg, key, sp.Outs)
	os.Exit(0)
}

// ---- parent

type env struct {
	root, cacheDir, self string
	allHard              bool   // replays: every crash is a real SIGKILL
	hardOneIn            uint32 // generated tiers: one scenario in this many uses a real SIGKILL
}

type scenario struct {
	e    *env
	pkg  string
	comp bool
	hard bool // crashes by SIGKILL of a re-executed child (every replayed scenario; 1 in 6 in the thorough tier, 1 in 16 in quick)
	outs []string
}

func (s *scenario) gen() string { return filepath.Join(s.e.root, "plz-out/gen", s.pkg) }

func parseCrash(c string) (int, int, error) {
	if c == "-" {
		return -1, 0, nil
	}
	a, b, has := strings.Cut(c, ".")
	m, err := strconv.Atoi(a)
	if err != nil || m < 0 {
		return 0, 0, fmt.Errorf("bad crash")
	}
	k := 0
	if has {
		if k, err = strconv.Atoi(b); err != nil || k < 0 {
			return 0, 0, fmt.Errorf("bad crash")
		}
	}
	return m, k, nil
}

func (s *scenario) store(tree []entry, m, k int) (string, string, error) {
	if err := materialise(s.gen(), tree); err != nil {
		return "", "", err
	}
	var lines []string
	if s.hard && m >= 0 {
		sp := childSpec{Root: s.e.root, CacheDir: s.e.cacheDir, Pkg: s.pkg, Compress: s.comp, Outs: s.outs, Main: m, Sub: k}
		b, _ := json.Marshal(sp)
		cmd := exec.Command(s.e.self)
		cmd.Env = append(os.Environ(), "C12_CHILD="+string(b), "GOMAXPROCS=1", "GOGC=off")
		cmd.Dir = s.e.root
		out, err := cmd.Output()
		if err != nil {
			if ee, ok := err.(*exec.ExitError); !ok || !ee.Sys().(syscall.WaitStatus).Signaled() {
				return "", "", fmt.Errorf("child: %v", err)
			}
		}
		if t := strings.TrimSpace(string(out)); t != "" {
			lines = strings.Split(t, "\n")
		}
	} else {
		// in process: at the crash point the goroutine running Store is parked forever.  Nothing it holds is ever
		// flushed or closed (the tarball writer's buffers, its deferred Close calls), so the filesystem is left
		// exactly as a kill leaves it; only the descriptor of a half-written tarball stays open in this process.
		c := cache.NewDirCacheForVerif(s.e.cacheDir, s.comp)
		tg := target(s.pkg)
		pl := &crashPlan{main: m, sub: k}
		done := make(chan struct{})
		var once sync.Once
		h := makeHook(pl, c, tg, func(l string) { lines = append(lines, l) }, func() {
			once.Do(func() { close(done) })
			select {}
		})
		hooks.Store(s.pkg, h)
		go func() {
			c.Store(tg, key, s.outs)
			once.Do(func() { close(done) })
		}()
		<-done
		hooks.Delete(s.pkg)
	}
	var tr []string
	sub := ""
	for _, l := range lines {
		if strings.HasPrefix(l, "#sub ") {
			sub = strings.TrimPrefix(l, "#sub ")
		} else {
			tr = append(tr, l)
		}
	}
	if len(tr) == 0 {
		return "-", sub, nil
	}
	return strings.Join(tr, ","), sub, nil
}

var hooks sync.Map // pkg -> func(op, path string); scenarios run in parallel, one package each

func init() {
	cache.VerifOpHook = func(op, path string) {
		var h func(string, string)
		hooks.Range(func(k, v any) bool {
			if strings.Contains(path, "/"+k.(string)+"/") {
				h = v.(func(string, string))
				return false
			}
			return true
		})
		if h != nil {
			h(op, path)
		}
	}
}

func (s *scenario) retrieve(atFound func(), stale []entry) string {
	materialise(s.gen(), stale) // empties the directory first
	c := cache.NewDirCacheForVerif(s.e.cacheDir, s.comp)
	if atFound != nil {
		hooks.Store(s.pkg, func(op, _ string) {
			if op == "retr-found" {
				atFound()
			}
		})
		defer hooks.Delete(s.pkg)
	}
	if !c.Retrieve(target(s.pkg), key, s.outs) {
		return "miss"
	}
	es, _ := snapshot(s.gen())
	return "hit/" + showTree(restrict(es, s.outs))
}

func (s *scenario) slice() string {
	c := cache.NewDirCacheForVerif(s.e.cacheDir, s.comp)
	f, t := c.PathsForVerif(target(s.pkg), key)
	one := func(p string) string {
		es, ok := snapshot(p)
		if !ok {
			return "-"
		}
		if fi, err := os.Lstat(p); err == nil && fi.IsDir() {
			return "d/" + showTree(es)
		}
		if es, ok := untar(p); ok {
			return "z/" + showTree(es)
		}
		return "z!"
	}
	return "F=" + one(f) + " T=" + one(t)
}

type caseResult struct {
	out      string
	stores   [][]entry // trees of the stores, in order
	complete []bool    // store ran to completion
	damaged  []int     // for each result: number of D acts since the last store
	results  []string  // results of R / X acts
	resAfter []int     // number of stores started before that result
	resX     []bool    // the result belongs to an interleaved (X) act
	staleRetrieves int
	resStale []bool // the retrieve ran over stale outputs
	nontriv  bool
	kinds    []string
}

func runScenario(e *env, pkg, line string) (res caseResult) {
	f := strings.Split(line, " ")
	if len(f) < 2 || (f[0] != "u" && f[0] != "c") {
		res.out = "bad-op"
		return
	}
	hs := fnv.New32a()
	hs.Write([]byte(line))
	s := &scenario{e: e, pkg: pkg, comp: f[0] == "c"}
	s.hard = e.allHard || hs.Sum32()%e.hardOneIn == 0
	if f[1] != "-" {
		for _, h := range strings.Split(f[1], ",") {
			o, err := unhx(h)
			if err != nil || o == "" || strings.HasPrefix(o, "/") || strings.HasSuffix(o, "/") || strings.Contains(o, "//") {
				res.out = "bad-op"
				return
			}
			s.outs = append(s.outs, o)
		}
	}
	for _, a := range f[2:] {
		if strings.HasPrefix(a, "D/") && !s.comp {
			res.out = "bad-op"
			return
		}
	}
	os.RemoveAll(filepath.Join(e.cacheDir, pkg))
	var pieces []string
	nDamage := 0
	for _, a := range f[2:] {
		q := strings.Split(a, "/")
		switch {
		case len(q) == 2 && q[0] == "D":
			keep, err := strconv.Atoi(q[1])
			if err != nil || keep < 0 || keep > 75 || !s.comp {
				res.out = "bad-op"
				return
			}
			c := cache.NewDirCacheForVerif(s.e.cacheDir, s.comp)
			fpath, _ := c.PathsForVerif(target(s.pkg), key)
			// the cut takes the 8-byte gzip trailer, one more byte, and at least a quarter of the rest
			if fi, err := os.Stat(fpath); err == nil && fi.Size() > 8 {
				os.Truncate(fpath, (fi.Size()-9)*int64(keep)/100)
			}
			nDamage++
			pieces = append(pieces, "damaged")
		case a == "R" || (len(q) == 2 && q[0] == "R"):
			var stale []entry
			if a != "R" {
				var err error
				if stale, err = parseTree(q[1]); err != nil {
					res.out = "bad-op"
					return
				}
				res.staleRetrieves++
			}
			r := s.retrieve(nil, stale)
			pieces = append(pieces, r)
			res.resStale = append(res.resStale, a != "R")
			res.results = append(res.results, r)
			res.resAfter = append(res.resAfter, len(res.stores))
			res.resX = append(res.resX, false)
			res.damaged = append(res.damaged, nDamage)
		case len(q) == 3 && (q[0] == "S" || q[0] == "X"):
			m, k, err := parseCrash(q[1])
			tree, err2 := parseTree(q[2])
			if err != nil || err2 != nil {
				res.out = "bad-op"
				return
			}
			if q[0] == "S" {
				tr, sub, err := s.store(tree, m, k)
				if err != nil {
					res.out = "error " + err.Error()
					return
				}
				res.kinds = append(res.kinds, "S"+crashKind(m, sub))
				nDamage = 0
				res.stores = append(res.stores, tree)
				res.complete = append(res.complete, m < 0)
				pieces = append(pieces, tr)
			} else {
				// "retr-found" comes before anything is restored, so plz-out/gen/<pkg> can hold the store's source
				// tree while the store runs and is emptied again before the retrieve resumes
				tr, sub, ran := "-", "", false
				var serr error
				run := func() {
					ran = true
					tr, sub, serr = s.store(tree, m, k)
					os.RemoveAll(s.gen())
					os.MkdirAll(s.gen(), 0o775)
				}
				r := s.retrieve(run, nil)
				if !ran {
					run()
				}
				if serr != nil {
					res.out = "error " + serr.Error()
					return
				}
				res.kinds = append(res.kinds, "X"+crashKind(m, sub))
				res.stores = append(res.stores, tree)
				res.complete = append(res.complete, m < 0)
				res.results = append(res.results, r)
				res.resAfter = append(res.resAfter, len(res.stores))
				res.resX = append(res.resX, true) // for its own retrieve the old and the new tree are both acceptable
				res.resStale = append(res.resStale, false)
				res.damaged = append(res.damaged, nDamage)
				nDamage = 0
				pieces = append(pieces, tr+";"+r)
			}
		default:
			res.out = "bad-op"
			return
		}
	}
	pieces = append(pieces, s.slice())
	res.out = strings.Join(pieces, "|")
	os.RemoveAll(filepath.Join(e.cacheDir, pkg))
	os.RemoveAll(s.gen())
	return
}

func crashKind(m int, sub string) string {
	switch {
	case m < 0:
		return "-complete"
	case sub == "rm-final":
		return "-crash-in-removal"
	case sub != "":
		return "-crash-in-" + sub
	default:
		return "-crash"
	}
}

// ---- direct oracle (property C12 stated on the real code's results only)

func completeTree(tree []entry, outs []string, comp bool) []entry {
	t := restrict(tree, outs)
	return t
}

func checkOracle(r *lib.Run, line string, res caseResult, outs []string, comp bool) {
	for i, got := range res.results {
		n := res.resAfter[i]
		// acceptable hits: the complete tree of the last store that ran to completion before this retrieve, or of any later store
		last := -1
		for j := 0; j < n; j++ {
			if res.complete[j] && !(res.resX[i] && j == n-1) {
				last = j
			}
		}
		if got == "miss" {
			// a retrieve straight after a completed store of existing outputs must hit (round trip),
			// unless the entry was damaged in between
			if n > 0 && last == n-1 && len(outs) > 0 && res.damaged[i] == 0 {
				all := true
				for _, o := range outs {
					found := false
					for _, e := range res.stores[last] {
						if e.Path == o {
							found = true
						}
					}
					all = all && found
				}
				if all && res.resStale[i] {
					r.OracleFail("miss-after-complete-store-over-stale-outputs", line, "retrieve "+strconv.Itoa(i)+" missed although the key had just been stored completely")
				} else if all {
					r.OracleFail("roundtrip-miss-after-complete-store", line, "retrieve "+strconv.Itoa(i)+" missed")
				}
			}
			continue
		}
		t, err := parseTree(strings.TrimPrefix(got, "hit/"))
		if err != nil {
			r.OracleFail("unparsable-result", line, got)
			continue
		}
		if n == 0 {
			r.OracleFail("hit-on-never-stored-key", line, got)
			continue
		}
		ok := false
		lo := last
		if lo < 0 {
			lo = 0
		}
		for j := lo; j < n; j++ {
			if sameTree(t, completeTree(res.stores[j], outs, comp)) {
				ok = true
			}
		}
		if !ok && res.resStale[i] {
			r.OracleFail("stale-output-survives-retrieve", line, "retrieve "+strconv.Itoa(i)+" restored "+showTree(t)+" over stale outputs: not the stored tree")
		} else if !ok && res.damaged[i] > 0 {
			r.OracleFail("damaged-archive-reported-as-hit", line, "retrieve "+strconv.Itoa(i)+" restored "+showTree(t))
		} else if !ok {
			r.OracleFail(classify(res, i, t, outs, comp), line, "retrieve "+strconv.Itoa(i)+" restored "+showTree(t))
		}
	}
}

// classify names the root cause of a wrong hit by the shape of the history (narrow classes).
func classify(res caseResult, i int, got []entry, outs []string, comp bool) string {
	n := res.resAfter[i]
	kind := res.kinds[n-1]
	switch {
	case comp && len(got) == 0 && strings.HasPrefix(kind, "X"):
		return "compressed-retrieve-enoent-reported-as-hit"
	case !comp && n >= 2 && (kind == "S-crash-in-removal" || strings.HasPrefix(kind, "X")):
		// partial old entry: every restored node belongs to the previous tree
		prev := completeTree(res.stores[n-2], outs, comp)
		sub := true
		for _, e := range got {
			in := false
			for _, p := range prev {
				if p == e {
					in = true
				}
			}
			sub = sub && in
		}
		if sub {
			return "restore-removes-old-entry-in-place"
		}
	}
	return "partial-or-wrong-hit"
}

func main() {
	if os.Getenv("C12_CHILD") != "" {
		childMain()
		return
	}
	r := lib.Start()
	defer r.Finish()
	logging.SetBackend(logging.NewLogBackend(io.Discard, "", 0))
	r.Rule = "scenario has a store that crashes, an interleaved retrieve, a damaged entry, or a complete store of a tree with >= 2 entries; distinct by op line. " +
		"exhaustive=true (thorough tier) means: every parent-closed subset of the atom tree (104 shapes) in both modes; crash points are enumerated " +
		"completely for 12 core shapes and sampled for the others"
	self, err := os.Executable()
	if err != nil {
		panic(err)
	}
	replay := r.ReplayOps() // before the chdir below: the path may be relative
	root := filepath.Join(os.Getenv("VERIF_SCRATCH"), "c12repo")
	if os.Getenv("VERIF_SCRATCH") == "" {
		root = filepath.Join(r.OutDir, "c12repo")
	}
	root, _ = filepath.Abs(root)
	os.RemoveAll(root)
	if err := os.MkdirAll(filepath.Join(root, "plz-out/gen"), 0o775); err != nil {
		panic(err)
	}
	defer os.RemoveAll(root)
	core.RepoRoot = root
	if err := os.Chdir(root); err != nil {
		panic(err)
	}
	e := &env{root: root, cacheDir: filepath.Join(root, ".cache"), self: self, allHard: replay != nil, hardOneIn: uint32(r.N(16, 6))}

	var lines []string
	if replay != nil {
		lines = replay
	} else {
		lines = generate(r)
	}
	if os.Getenv("C12_COUNT") != "" { // development aid: size of the generated tier by scenario kind, nothing is run
		crashes := 0
		for _, l := range lines {
			for _, a := range strings.Split(l, " ") {
				if (strings.HasPrefix(a, "S/") || strings.HasPrefix(a, "X/")) && !strings.HasPrefix(a[2:], "-/") {
					crashes++
				}
			}
		}
		fmt.Fprintf(os.Stderr, "lines=%d acts-with-a-crash-point=%d\n", len(lines), crashes)
		os.Exit(0)
	}
	// scenarios are independent (one package each): run them on a worker pool, emit in order
	results := make([]caseResult, len(lines))
	var wg sync.WaitGroup
	sem := make(chan struct{}, 16)
	for i := range lines {
		wg.Add(1)
		sem <- struct{}{}
		go func(i int) {
			defer wg.Done()
			defer func() { <-sem }()
			results[i] = runScenario(e, "p"+strconv.Itoa(i), lines[i])
		}(i)
	}
	wg.Wait()
	for i, line := range lines {
		res := results[i]
		if strings.HasPrefix(res.out, "error ") {
			fmt.Fprintln(os.Stderr, "harness error on", line, ":", res.out)
			os.Exit(4)
		}
		if res.out != "bad-op" {
			f := strings.Split(line, " ")
			var outs []string
			if f[1] != "-" {
				for _, h := range strings.Split(f[1], ",") {
					o, _ := unhx(h)
					outs = append(outs, o)
				}
			}
			checkOracle(r, line, res, outs, f[0] == "c")
			for _, k := range res.kinds {
				r.Count(f[0] + ":" + k)
			}
			for _, g := range res.results {
				r.Count("result:" + strings.SplitN(g, "/", 2)[0])
			}
			if strings.Contains(line, " D/") {
				r.Count("c:damaged-entry")
			}
			if res.staleRetrieves > 0 {
				r.Count(f[0] + ":retrieve-over-stale-outputs")
			}
		}
		nontriv := false
		for j, k := range res.kinds {
			if k != "S-complete" || len(res.stores[j]) >= 2 {
				nontriv = true
			}
		}
		r.Emit(line, res.out, nontriv || res.staleRetrieves > 0)
	}
}
