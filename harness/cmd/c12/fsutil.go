package main

import (
	"archive/tar"
	"compress/gzip"
	"encoding/hex"
	"fmt"
	"io"
	"os"
	"path/filepath"
	"sort"
	"strings"
)

// An entry of a tree in the line protocol: hexpath:kind:hexdata   kind f (file) x (executable file) l (symlink) d (dir)
type entry struct {
	Path string // slash separated, relative
	Kind byte
	Data string
}

func hx(s string) string {
	if s == "" {
		return "-"
	}
	return hex.EncodeToString([]byte(s))
}

func unhx(s string) (string, error) {
	if s == "-" {
		return "", nil
	}
	b, err := hex.DecodeString(s)
	return string(b), err
}

func (e entry) String() string { return hx(e.Path) + ":" + string(e.Kind) + ":" + hx(e.Data) }

func showTree(es []entry) string {
	if len(es) == 0 {
		return "-"
	}
	p := make([]string, len(es))
	for i, e := range es {
		p[i] = e.String()
	}
	return strings.Join(p, ",")
}

func parseTree(s string) ([]entry, error) {
	if s == "-" {
		return nil, nil
	}
	var out []entry
	for _, f := range strings.Split(s, ",") {
		q := strings.Split(f, ":")
		if len(q) != 3 || len(q[1]) != 1 || !strings.Contains("fxld", q[1]) {
			return nil, fmt.Errorf("bad entry %q", f)
		}
		p, err := unhx(q[0])
		if err != nil {
			return nil, err
		}
		d, err := unhx(q[2])
		if err != nil {
			return nil, err
		}
		if p == "" || strings.HasPrefix(p, "/") || strings.HasSuffix(p, "/") || strings.Contains(p, "//") {
			return nil, fmt.Errorf("bad path %q", p)
		}
		if q[1] == "d" && d != "" {
			return nil, fmt.Errorf("dir with data")
		}
		out = append(out, entry{p, q[1][0], d})
	}
	return out, nil
}

// sortWalk orders entries the way godirwalk visits them (pre-order, names sorted bytewise per directory).
func sortWalk(es []entry) {
	sort.SliceStable(es, func(i, j int) bool {
		a, b := strings.Split(es[i].Path, "/"), strings.Split(es[j].Path, "/")
		for k := 0; k < len(a) && k < len(b); k++ {
			if a[k] != b[k] {
				return a[k] < b[k]
			}
		}
		return len(a) < len(b)
	})
}

// materialise writes the tree under root (which is removed first). Parents are created as needed.
func materialise(root string, es []entry) error {
	if err := os.RemoveAll(root); err != nil {
		return err
	}
	if err := os.MkdirAll(root, 0o775); err != nil {
		return err
	}
	for _, e := range es {
		p := filepath.Join(root, e.Path)
		if err := os.MkdirAll(filepath.Dir(p), 0o775); err != nil {
			return err
		}
		var err error
		switch e.Kind {
		case 'd':
			err = os.MkdirAll(p, 0o775)
		case 'l':
			err = os.Symlink(e.Data, p)
		case 'f':
			err = os.WriteFile(p, []byte(e.Data), 0o644)
		case 'x':
			err = os.WriteFile(p, []byte(e.Data), 0o755)
		}
		if err != nil {
			return err
		}
	}
	return nil
}

// snapshot lists everything under root (not root itself) in walk order; nil when root does not exist.
func snapshot(root string) ([]entry, bool) {
	info, err := os.Lstat(root)
	if err != nil {
		return nil, false
	}
	if !info.IsDir() {
		return nil, true
	}
	var out []entry
	var walk func(dir, rel string)
	walk = func(dir, rel string) {
		des, _ := os.ReadDir(dir)
		names := make([]string, 0, len(des))
		for _, d := range des {
			names = append(names, d.Name())
		}
		sort.Strings(names)
		for _, n := range names {
			p, r := filepath.Join(dir, n), n
			if rel != "" {
				r = rel + "/" + n
			}
			fi, err := os.Lstat(p)
			if err != nil {
				continue
			}
			switch {
			case fi.Mode()&os.ModeSymlink != 0:
				t, _ := os.Readlink(p)
				out = append(out, entry{r, 'l', t})
			case fi.IsDir():
				out = append(out, entry{r, 'd', ""})
				walk(p, r)
			default:
				b, _ := os.ReadFile(p)
				k := byte('f')
				if fi.Mode()&0o100 != 0 {
					k = 'x'
				}
				out = append(out, entry{r, k, string(b)})
			}
		}
	}
	walk(root, "")
	return out, true
}

// untar decodes a .tar.gz into entries in archive order; ok=false when the archive is damaged or truncated.
func untar(path string) (es []entry, ok bool) {
	f, err := os.Open(path)
	if err != nil {
		return nil, false
	}
	defer f.Close()
	gr, err := gzip.NewReader(f)
	if err != nil {
		return nil, false
	}
	tr := tar.NewReader(gr)
	for {
		h, err := tr.Next()
		if err == io.EOF {
			return es, true
		} else if err != nil {
			return es, false
		}
		switch h.Typeflag {
		case tar.TypeDir:
			es = append(es, entry{strings.TrimSuffix(h.Name, "/"), 'd', ""})
		case tar.TypeSymlink:
			es = append(es, entry{h.Name, 'l', h.Linkname})
		default:
			b, err := io.ReadAll(tr)
			if err != nil {
				return es, false
			}
			k := byte('f')
			if h.Mode&0o100 != 0 {
				k = 'x'
			}
			es = append(es, entry{h.Name, k, string(b)})
		}
	}
}

// restrict keeps the entries at or below one of the outs.
func restrict(es []entry, outs []string) []entry {
	var r []entry
	for _, e := range es {
		for _, o := range outs {
			if e.Path == o || strings.HasPrefix(e.Path, o+"/") {
				r = append(r, e)
				break
			}
		}
	}
	return r
}

func sameTree(a, b []entry) bool {
	if len(a) != len(b) {
		return false
	}
	x, y := append([]entry{}, a...), append([]entry{}, b...)
	sortWalk(x)
	sortWalk(y)
	for i := range x {
		if x[i] != y[i] {
			return false
		}
	}
	return true
}

// postOrder lists the paths under root in the order a recursive removal deletes them
// (children in sorted order, then the directory), root itself last.
func postOrder(root string) []string {
	var out []string
	var rec func(p string)
	rec = func(p string) {
		fi, err := os.Lstat(p)
		if err != nil {
			return
		}
		if fi.IsDir() {
			des, _ := os.ReadDir(p)
			names := make([]string, 0, len(des))
			for _, d := range des {
				names = append(names, d.Name())
			}
			sort.Strings(names)
			for _, n := range names {
				rec(filepath.Join(p, n))
			}
		}
		out = append(out, p)
	}
	rec(root)
	return out
}
