package main

import (
	"fmt"
	"strings"

	"verif/harness/lib"
)

// ---- tree shapes

type shape struct {
	name string
	tree []entry
	outs []string // the natural outs: every top-level entry
}

func topLevel(t []entry) []string {
	var o []string
	for _, e := range t {
		if !strings.Contains(e.Path, "/") {
			o = append(o, e.Path)
		}
	}
	return o
}

// allShapes: every parent-closed subset of  a(file) b(empty exec) l(symlink→a)  d/ { x(file) y(symlink→x) e/ { z } }.
func allShapes() []shape {
	var out []shape
	for mask := 0; mask < 8; mask++ {
		var top []entry
		if mask&1 != 0 {
			top = append(top, entry{"a", 'f', "hi"})
		}
		if mask&2 != 0 {
			top = append(top, entry{"b", 'x', ""})
		}
		dsub := [][]entry{nil}
		for dm := 0; dm < 4; dm++ {
			for em := 0; em < 3; em++ {
				d := []entry{{"d", 'd', ""}}
				if em >= 1 {
					d = append(d, entry{"d/e", 'd', ""})
				}
				if em == 2 {
					d = append(d, entry{"d/e/z", 'f', "zz"})
				}
				if dm&1 != 0 {
					d = append(d, entry{"d/x", 'f', "x"})
				}
				if dm&2 != 0 {
					d = append(d, entry{"d/y", 'l', "x"})
				}
				dsub = append(dsub, d)
			}
		}
		for di, d := range dsub {
			t := append(append([]entry{}, top...), d...)
			if mask&4 != 0 {
				t = append(t, entry{"l", 'l', "a"})
			}
			sortWalk(t)
			out = append(out, shape{fmt.Sprintf("m%dd%d", mask, di), t, topLevel(t)})
		}
	}
	return out
}

var nastyNames = []string{"=", "a=", "k=.tar.gz", ".hid", "sp ace", "é", "日本", "x.tar.gz", "-", "a,b", "q:r", "$(x)", "*", "a\\b", "MTIzNDU2Nzg5MDEyMzQ1Njc4OTA="}

// randomTree: a few top-level entries, nested directories, adversarial names, larger files.
func randomTree(g *lib.Rng) []entry {
	var t []entry
	name := func() string {
		if g.Chance(35) {
			return lib.Pick(g, nastyNames)
		}
		return string(rune('a' + g.Intn(6)))
	}
	content := func() string {
		switch g.Intn(6) {
		case 0:
			return ""
		case 1:
			return strings.Repeat("plz", 1+g.Intn(3000)) // beyond the 4 KiB write buffer of the tarball writer
		default:
			b := make([]byte, 1+g.Intn(12))
			for i := range b {
				b[i] = byte(g.Intn(256))
			}
			return string(b)
		}
	}
	seen := map[string]bool{}
	var fill func(prefix string, depth int)
	fill = func(prefix string, depth int) {
		n := 1 + g.Intn(4)
		for i := 0; i < n; i++ {
			p := name()
			if prefix != "" {
				p = prefix + "/" + p
			}
			if seen[p] {
				continue
			}
			seen[p] = true
			switch k := g.Intn(10); {
			case k < 2 && depth < 3:
				t = append(t, entry{p, 'd', ""})
				if g.Chance(80) {
					fill(p, depth+1)
				}
			case k < 4:
				t = append(t, entry{p, 'l', lib.Pick(g, []string{"a", "../a", "nowhere", "x", "."})})
			case k < 5:
				t = append(t, entry{p, 'x', content()})
			default:
				t = append(t, entry{p, 'f', content()})
			}
		}
	}
	fill("", 0)
	sortWalk(t)
	return t
}

// ---- scenario lines

func hexList(xs []string) string {
	if len(xs) == 0 {
		return "-"
	}
	p := make([]string, len(xs))
	for i, x := range xs {
		p[i] = hx(x)
	}
	return strings.Join(p, ",")
}

// opCount: number of verifOp call sites a complete store passes (the model's step count).
func opCount(comp bool, tree []entry, outs []string) int {
	if !comp {
		return 2 + 2*len(outs)
	}
	n := 0
	for _, o := range outs {
		found := false
		for _, e := range tree {
			if e.Path == o {
				found = true
			}
		}
		if !found {
			return 4 + n + 2 // rm-final ready create entries close rm-failed rename
		}
		n += len(restrict(tree, []string{o}))
	}
	return 4 + n + 2
}

func nodesBelow(tree []entry, o string) int { return len(restrict(tree, []string{o})) }

type gen struct {
	r     *lib.Run
	lines []string
	seen  map[string]bool
}

func (g *gen) add(kind, line string) {
	if g.seen[line] {
		return
	}
	g.seen[line] = true
	g.lines = append(g.lines, line)
	g.r.Count("gen:" + kind)
}

// family emits the scenarios of one (mode, outs, old tree, new tree).
func (g *gen) family(mode string, outs []string, t0, t1 []entry, full bool) {
	comp := mode == "c"
	o := hexList(outs)
	T0, T1 := showTree(t0), showTree(t1)
	pre := mode + " " + o + " "
	n1 := opCount(comp, t1, outs)
	// never stored; complete store and round trip; store twice
	g.add("never-stored", pre+"R")
	g.add("roundtrip", pre+"S/-/"+T1+" R")
	g.add("store-twice", pre+"S/-/"+T0+" R S/-/"+T1+" R")
	// fresh key: crash before every operation
	for n := 0; n <= n1; n++ {
		g.add("fresh-crash", fmt.Sprintf("%sS/%d/%s R", pre, n, T1))
	}
	// crash inside RecursiveLink of each output (plain mode)
	if !comp {
		for i, out := range outs {
			for k := 1; k < nodesBelow(t1, out); k++ {
				g.add("fresh-crash-in-link", fmt.Sprintf("%sS/%d.%d/%s R", pre, 2+2*i, k, T1))
			}
		}
	}
	// the key already holds t0: crash inside the removal of the old entry, then at every operation
	nOld := len(restrict(t0, outs)) + 1
	if comp {
		nOld = 1
	}
	for k := 1; k <= nOld; k++ {
		if !full && k > 3 && k < nOld {
			continue
		}
		g.add("restore-crash-in-removal", fmt.Sprintf("%sS/-/%s S/0.%d/%s R", pre, T0, k, T1))
		g.add("conc-restore-in-removal", fmt.Sprintf("%sS/-/%s X/0.%d/%s", pre, T0, k, T1))
	}
	for n := 0; n <= n1; n++ {
		if !full && n > 2 && n < n1-1 {
			continue
		}
		g.add("restore-crash", fmt.Sprintf("%sS/-/%s S/%d/%s R", pre, T0, n, T1))
		g.add("conc-restore", fmt.Sprintf("%sS/-/%s X/%d/%s R", pre, T0, n, T1))
		g.add("conc-fresh", fmt.Sprintf("%sX/%d/%s R", pre, n, T1))
	}
	g.add("conc-restore", fmt.Sprintf("%sS/-/%s X/-/%s R", pre, T0, T1))
	// a torn entry tarball (compressed): the retrieve's own error handling
	if comp {
		for _, keep := range []int{0, 35, 70} {
			g.add("damaged-entry", fmt.Sprintf("%sS/-/%s D/%d R", pre, T1, keep))
		}
		g.add("damaged-entry", fmt.Sprintf("%sS/-/%s D/50 R S/-/%s R", pre, T1, T1))
	}
	// leftovers of an interrupted store, then a complete one / another interrupted one
	n0 := opCount(comp, t0, outs)
	for n := 1; n < n0; n++ {
		if !full && n%2 == 0 {
			continue
		}
		g.add("stale-temp-then-complete", fmt.Sprintf("%sS/%d/%s S/-/%s R", pre, n, T0, T1))
		g.add("stale-temp-then-crash", fmt.Sprintf("%sS/%d/%s S/%d/%s R", pre, n, T0, n1-1, T1))
	}
}

func generate(r *lib.Run) []string {
	g := &gen{r: r, seen: map[string]bool{}}
	shapes := allShapes()
	pick := shapes
	// the core shapes get every crash point of every family; the others a sample of crash points
	core := map[string]bool{"m0d0": true, "m1d0": true, "m7d12": true, "m0d10": true, "m1d4": true, "m3d7": true}
	if !r.Thorough() {
		// the core plus a seeded sample of the other shapes
		pick = nil
		for _, s := range shapes {
			if core[s.name] || r.Rng.Chance(2) {
				pick = append(pick, s)
			}
		}
	} else {
		// every shape (all parent-closed subsets of the atom tree), both modes
		for _, n := range []string{"m2d5", "m5d9", "m6d3", "m4d12", "m7d1", "m3d11"} {
			core[n] = true
		}
		r.Exhaust = true
	}
	for _, s := range pick {
		for _, mode := range []string{"u", "c"} {
			// same tree stored twice (the realistic re-store: same key, same content) and a different old tree
			g.family(mode, s.outs, s.tree, s.tree, r.Thorough() && core[s.name])
			other := shapes[r.Rng.Intn(len(shapes))]
			if core[s.name] || r.Rng.Chance(30) {
				g.family(mode, s.outs, other.tree, s.tree, false)
			}
		}
	}
	// nested output paths, an output missing from the tree, no outputs, outputs in reverse order
	d := []entry{{"d", 'd', ""}, {"d/e", 'd', ""}, {"d/e/z", 'f', "zz"}, {"d/x", 'f', "x"}, {"d/y", 'l', "x"}}
	for _, mode := range []string{"u", "c"} {
		g.family(mode, []string{"d/x", "d/e"}, d, d, false)
		g.family(mode, []string{"d/e/z"}, d, d, false)
		g.family(mode, []string{"d", "nope"}, d, d, false)
		g.family(mode, []string{"nope", "d"}, d, d, false)
		g.family(mode, nil, d, d, false)
		g.family(mode, []string{"d/y", "d/x"}, d, d, false)
	}
	// output names that share a string prefix without being inside one another, directory outputs mixed with file outputs and
	// with outputs in sub-directories; retrieved into a clean directory and over stale, LONGER outputs of an earlier build
	prefixTrees := []struct {
		tree []entry
		outs []string
	}{
		{[]entry{{"d", 'd', ""}, {"d/x", 'f', "x1"}, {"d.txt", 'f', "new"}}, []string{"d", "d.txt"}},
		{[]entry{{"gen", 'd', ""}, {"gen/a", 'f', "a"}, {"gen_hdrs", 'd', ""}, {"gen_hdrs/x.h", 'f', "h"}}, []string{"gen", "gen_hdrs/x.h"}},
		{[]entry{{"report", 'd', ""}, {"report/r", 'x', "r"}, {"report.txt", 'f', "t"}}, []string{"report", "report.txt"}},
		{[]entry{{"d", 'd', ""}, {"d/e", 'd', ""}, {"d/e/z", 'f', "z"}, {"d2", 'd', ""}, {"d2/x", 'f', "2"}, {"dx", 'f', "dx"}}, []string{"d", "d2/x", "dx"}},
		{[]entry{{"d", 'd', ""}, {"d2", 'd', ""}, {"d2/y", 'l', "x"}, {"d=", 'f', "eq"}}, []string{"d", "d2", "d="}},
		{[]entry{{"sub", 'd', ""}, {"sub/out.txt", 'f', "out"}}, []string{"sub/out.txt"}},
		{[]entry{{"sub", 'd', ""}, {"sub/deep", 'd', ""}, {"sub/deep/o", 'x', "o"}, {"top", 'f', "t"}}, []string{"sub/deep/o", "top"}},
		{[]entry{{"a", 'f', "hi"}, {"ab", 'f', "hello"}, {"abc", 'd', ""}, {"abc/k", 'f', "k"}}, []string{"a", "ab", "abc"}},
	}
	for _, pt := range prefixTrees {
		for _, mode := range []string{"u", "c"} {
			pre := mode + " " + hexList(pt.outs) + " S/-/" + showTree(pt.tree) + " "
			g.add("prefix-names-clean", pre+"R")
			// stale: every file longer, every symlink elsewhere, an extra file in every directory
			var stale []entry
			for _, e := range pt.tree {
				switch e.Kind {
				case 'f', 'x':
					stale = append(stale, entry{e.Path, 'f', e.Data + "-STALE-TAIL-OF-AN-OLDER-BUILD"})
				case 'l':
					stale = append(stale, entry{e.Path, 'l', "elsewhere"})
				default:
					stale = append(stale, e, entry{e.Path + "/~old", 'f', "old"})
				}
			}
			sortWalk(stale)
			g.add("prefix-names-over-stale", pre+"R/"+showTree(stale))
			// stale files only where the outputs themselves are (nothing else there: parents must be created)
			g.add("prefix-names-over-stale", pre+"R/"+showTree(restrict(stale, pt.outs)))
			// kinds swapped at the top level: a stale file where a directory comes, and the other way round
			var swapped []entry
			for _, e := range pt.tree {
				isOut := false
				for _, o := range pt.outs {
					isOut = isOut || o == e.Path
				}
				if isOut && !strings.Contains(e.Path, "/") { // only the outputs themselves: a stale FILE in place of a parent directory blocks the restore (a miss)
					if e.Kind == 'd' {
						swapped = append(swapped, entry{e.Path, 'f', "was a file"})
					} else {
						swapped = append(swapped, entry{e.Path, 'd', ""}, entry{e.Path + "/inner", 'f', "was a dir"})
					}
				}
			}
			sortWalk(swapped)
			g.add("prefix-names-over-stale", pre+"R/"+showTree(swapped))
			g.add("prefix-names-over-stale", pre+"R/"+showTree(stale)+" R S/-/"+showTree(pt.tree)+" R/"+showTree(stale))
		}
	}
	// random larger trees with adversarial names
	for i := 0; i < r.N(12, 60); i++ {
		t1 := randomTree(r.Rng)
		t0 := t1
		if r.Rng.Chance(40) {
			t0 = randomTree(r.Rng)
		}
		outs := topLevel(t1)
		if r.Rng.Chance(20) && len(outs) > 1 {
			lib.Shuffle(r.Rng, outs)
		}
		mode := lib.Pick(r.Rng, []string{"u", "c"})
		g.family(mode, outs, t0, t1, false)
		// the other random tree as stale outputs of an earlier build
		g.add("random-over-stale", mode+" "+hexList(outs)+" S/-/"+showTree(t1)+" R/"+showTree(randomTree(r.Rng)))
		r.Count("gen:random-tree")
	}
	// malformed lines
	for _, l := range []string{"", "u", "z 61 R", "u 6 R", "u 61 Q", "u 61 S/x/-", "u 61 S/-/61:q:-", "u 2f61 R", "c 61 S/-/61:d:6869", "u 61 S/1.x/-", "u 61 R/61:q:-", "u 61 R/", "u 61 S/-/61:f:6869 D/50 R", "c 61 D/76 R", "c 61 D/x R"} {
		g.add("malformed", l)
	}
	return g.lines
}
