// C27 harness: core.MergeCoverageLines / TestCoverage.Aggregate against the Lean model.
package main

import (
	"fmt"
	"sort"
	"strings"

	"github.com/thought-machine/please/src/core"
	"verif/harness/lib"
)

func toLC(xs []int) []core.LineCoverage {
	if xs == nil {
		return nil
	}
	out := make([]core.LineCoverage, len(xs))
	for i, x := range xs {
		out[i] = core.LineCoverage(x)
	}
	return out
}

func merge(a, b []int) []int {
	m := core.MergeCoverageLines(toLC(a), toLC(b))
	out := make([]int, len(m))
	for i, x := range m {
		out[i] = int(x)
	}
	return out
}

func eq(a, b []int) bool {
	if len(a) != len(b) {
		return false
	}
	for i := range a {
		if a[i] != b[i] {
			return false
		}
	}
	return true
}

func parseFiles(s string) map[string][]core.LineCoverage {
	m := map[string][]core.LineCoverage{}
	if s == "-" {
		return m
	}
	for _, e := range strings.Split(s, ";") {
		kv := strings.SplitN(e, ":", 2)
		m[kv[0]] = toLC(lib.ParseNats(kv[1]))
		if m[kv[0]] == nil {
			m[kv[0]] = []core.LineCoverage{}
		}
	}
	return m
}

func showFiles(m map[string][]core.LineCoverage) string {
	keys := make([]string, 0, len(m))
	for k := range m {
		keys = append(keys, k)
	}
	sort.Strings(keys)
	if len(keys) == 0 {
		return "-"
	}
	parts := make([]string, len(keys))
	for i, k := range keys {
		parts[i] = k + ":" + lib.Nats(m[k])
	}
	return strings.Join(parts, ";")
}

func runOp(r *lib.Run, op string) {
	f := strings.Split(op, " ")
	switch f[0] {
	case "merge":
		a, b := lib.ParseNats(f[1]), lib.ParseNats(f[2])
		m := merge(a, b)
		// direct oracle on the real code: commutative, idempotent, pointwise best.
		if !eq(m, merge(b, a)) {
			r.OracleFail("merge-not-commutative", op, fmt.Sprint(m, merge(b, a)))
		}
		if !eq(merge(a, a), a) && len(a) > 0 {
			r.OracleFail("merge-not-idempotent", op, fmt.Sprint(merge(a, a)))
		}
		for i := range m {
			best := -1
			if i < len(a) {
				best = a[i]
			}
			if i < len(b) && b[i] > best {
				best = b[i]
			}
			if m[i] != best {
				r.OracleFail("merge-not-best", op, fmt.Sprint(m))
				break
			}
		}
		r.Emit(op, lib.Nats(m), len(a) > 0 && len(b) > 0 && !eq(a, b))
	case "fold":
		acc := lib.ParseNats(f[1])
		runs := [][]int{}
		for _, x := range f[2:] {
			runs = append(runs, lib.ParseNats(x))
		}
		for _, x := range runs {
			acc = merge(acc, x)
		}
		// oracle: every rotation and the reverse give the same aggregate
		for k := 1; k <= len(runs); k++ {
			acc2 := lib.ParseNats(f[1])
			for i := range runs {
				acc2 = merge(acc2, runs[(i+k)%len(runs)])
			}
			if !eq(acc, acc2) {
				r.OracleFail("fold-order-dependent", op, fmt.Sprint(acc, acc2))
			}
		}
		acc3 := lib.ParseNats(f[1])
		for i := len(runs) - 1; i >= 0; i-- {
			acc3 = merge(acc3, runs[i])
		}
		if !eq(acc, acc3) {
			r.OracleFail("fold-order-dependent", op, fmt.Sprint(acc, acc3))
		}
		r.Emit(op, lib.Nats(acc), len(runs) >= 2)
	case "agg":
		covs := []*core.TestCoverage{}
		for _, x := range f[1:] {
			covs = append(covs, &core.TestCoverage{Files: parseFiles(x)})
		}
		agg := func(order []int) string {
			acc := &core.TestCoverage{Files: parseFiles(f[1+order[0]])}
			for _, i := range order[1:] {
				acc.Aggregate(covs[i])
			}
			return showFiles(acc.Files)
		}
		id := make([]int, len(covs))
		for i := range id {
			id[i] = i
		}
		res := agg(id)
		rev := make([]int, len(covs))
		for i := range rev {
			rev[i] = len(covs) - 1 - i
		}
		if res2 := agg(rev); res2 != res {
			r.OracleFail("aggregate-order-dependent", op, res+" vs "+res2)
		}
		r.Emit(op, res, len(covs) >= 2)
	default:
		r.Emit(op, "bad-op", false)
	}
}

func vec(r *lib.Rng, maxLen, maxVal int) []int {
	n := r.Intn(maxLen + 1)
	out := make([]int, n)
	for i := range out {
		out[i] = r.Intn(maxVal + 1)
	}
	return out
}

func main() {
	r := lib.Start()
	defer r.Finish()
	r.Rule = "merge: both vectors non-empty and different; fold/agg: at least two runs; distinct by op line"
	if ops := r.ReplayOps(); ops != nil {
		for _, op := range ops {
			runOp(r, op)
		}
		return
	}
	// exhaustive: all pairs of vectors over the four states up to length L
	L := r.N(3, 4)
	var all [][]int
	var gen func(cur []int, n int)
	gen = func(cur []int, n int) {
		all = append(all, append([]int{}, cur...))
		if n == 0 {
			return
		}
		for v := 0; v < 4; v++ {
			gen(append(cur, v), n-1)
		}
	}
	gen(nil, L)
	for _, a := range all {
		for _, b := range all {
			runOp(r, "merge "+lib.Nats(a)+" "+lib.Nats(b))
			r.Count("merge-exhaustive")
		}
	}
	r.Exhaust = true
	// random: longer vectors, values beyond the enum (uint8), multisets folded in several orders
	for i := 0; i < r.N(2000, 40000); i++ {
		mv := 3
		if r.Rng.Chance(10) {
			mv = 255
			r.Count("beyond-enum")
		}
		switch r.Rng.Intn(3) {
		case 0:
			runOp(r, "merge "+lib.Nats(vec(r.Rng, 12, mv))+" "+lib.Nats(vec(r.Rng, 12, mv)))
			r.Count("merge-random")
		case 1:
			k := 2 + r.Rng.Intn(5)
			parts := []string{"fold", lib.Nats(vec(r.Rng, 6, mv))}
			for j := 0; j < k; j++ {
				parts = append(parts, lib.Nats(vec(r.Rng, 8, mv)))
			}
			runOp(r, strings.Join(parts, " "))
			r.Count("fold-random")
		default:
			k := 2 + r.Rng.Intn(3)
			parts := []string{"agg"}
			for j := 0; j < k; j++ {
				names := []string{"f", "g", "h", "dir/a.go"}
				lib.Shuffle(r.Rng, names)
				n := r.Rng.Intn(4)
				es := []string{}
				for _, nm := range names[:n] {
					es = append(es, nm+":"+lib.Nats(vec(r.Rng, 6, mv)))
				}
				if len(es) == 0 {
					parts = append(parts, "-")
				} else {
					parts = append(parts, strings.Join(es, ";"))
				}
			}
			runOp(r, strings.Join(parts, " "))
			r.Count("agg-random")
		}
	}
}
