// C29 harness: the CAS-backed io/fs view (src/remote/fs) on generated REAPI Trees with an in-memory CAS,
// against the Lean model (Model/CASFS.lean) and, as direct oracle, against the same tree materialised on
// the real file system (os.DirFS / os.Lstat / os.ReadFile), testing/fstest.TestFS and the io/fs ReadDirFile
// paging contract.  Every operation that calls Open runs in a child process with a small stack limit,
// because Open on a symlink loop overflows the stack, which kills the process.
package main

import (
	"bufio"
	"context"
	"encoding/json"
	"errors"
	"fmt"
	"io"
	iofs "io/fs"
	"os"
	"os/exec"
	"path/filepath"
	"runtime/debug"
	"sort"
	"strconv"
	"strings"
	"testing/fstest"
	"time"

	"github.com/bazelbuild/remote-apis-sdks/go/pkg/client"
	"github.com/bazelbuild/remote-apis-sdks/go/pkg/digest"
	pb "github.com/bazelbuild/remote-apis/build/bazel/remote/execution/v2"
	"google.golang.org/protobuf/types/known/wrapperspb"

	rfs "github.com/thought-machine/please/src/remote/fs"
	"verif/harness/lib"
)

// ---------------------------------------------------------------- trees

type FileN struct {
	Name string
	Blob int
	Perm uint32
}
type LinkN struct {
	Name, Target string
	Perm         uint32
}
type DirE struct {
	Name string
	D    *Dir
}
type Dir struct {
	Dirs  []DirE
	Files []FileN
	Links []LinkN
	Perm  uint32
}

func blobContent(id int) string { return "blob-" + strconv.Itoa(id) + strings.Repeat("x", id%7) }

func hx(s string) string { return lib.Hex(s) }

// encoding: d<perm>[name=dir,…|name:blob:size:perm,…|name>target:perm,…]
func (d *Dir) enc(b *strings.Builder) {
	fmt.Fprintf(b, "d%d[", d.Perm)
	for i, e := range d.Dirs {
		if i > 0 {
			b.WriteByte(',')
		}
		b.WriteString(hx(e.Name) + "=")
		e.D.enc(b)
	}
	b.WriteByte('|')
	for i, f := range d.Files {
		if i > 0 {
			b.WriteByte(',')
		}
		fmt.Fprintf(b, "%s:%d:%d:%d", hx(f.Name), f.Blob, len(blobContent(f.Blob)), f.Perm)
	}
	b.WriteByte('|')
	for i, l := range d.Links {
		if i > 0 {
			b.WriteByte(',')
		}
		fmt.Fprintf(b, "%s>%s:%d", hx(l.Name), hx(l.Target), l.Perm)
	}
	b.WriteByte(']')
}

func (d *Dir) String() string {
	var b strings.Builder
	d.enc(&b)
	return b.String()
}

type parser struct {
	s string
	i int
}
type parseErr struct{}

func (p *parser) fail()      { panic(parseErr{}) }
func (p *parser) peek() byte { return p.at(p.i) }
func (p *parser) at(i int) byte {
	if i >= len(p.s) {
		return 0
	}
	return p.s[i]
}
func (p *parser) eat(c byte) {
	if p.peek() != c {
		p.fail()
	}
	p.i++
}
func (p *parser) until(stops string) string {
	j := p.i
	for j < len(p.s) && !strings.ContainsRune(stops, rune(p.s[j])) {
		j++
	}
	r := p.s[p.i:j]
	p.i = j
	return r
}
func (p *parser) nat(stops string) int {
	t := p.until(stops)
	n, err := strconv.Atoi(t)
	if err != nil || n < 0 || strconv.Itoa(n) != t {
		p.fail()
	}
	return n
}
func (p *parser) hex(stops string) string {
	t := p.until(stops)
	if t == "-" {
		return ""
	}
	if t == "" || len(t)%2 != 0 {
		p.fail()
	}
	for _, c := range t {
		if !((c >= '0' && c <= '9') || (c >= 'a' && c <= 'f')) {
			p.fail()
		}
	}
	return lib.UnHex(t)
}

func (p *parser) dir() *Dir {
	p.eat('d')
	d := &Dir{Perm: uint32(p.nat("["))}
	p.eat('[')
	for p.peek() != '|' {
		n := p.hex("=")
		p.eat('=')
		d.Dirs = append(d.Dirs, DirE{n, p.dir()})
		if p.peek() == ',' {
			p.i++
		} else if p.peek() != '|' {
			p.fail()
		}
	}
	p.eat('|')
	for p.peek() != '|' {
		n := p.hex(":")
		p.eat(':')
		b := p.nat(":")
		p.eat(':')
		sz := p.nat(":")
		p.eat(':')
		pm := p.nat(",|")
		if sz != len(blobContent(b)) {
			p.fail()
		}
		d.Files = append(d.Files, FileN{n, b, uint32(pm)})
		if p.peek() == ',' {
			p.i++
		} else if p.peek() != '|' {
			p.fail()
		}
	}
	p.eat('|')
	for p.peek() != ']' {
		n := p.hex(">")
		p.eat('>')
		t := p.hex(":")
		p.eat(':')
		pm := p.nat(",]")
		d.Links = append(d.Links, LinkN{n, t, uint32(pm)})
		if p.peek() == ',' {
			p.i++
		} else if p.peek() != ']' {
			p.fail()
		}
	}
	p.eat(']')
	return d
}

func parseTree(s string) *Dir {
	p := &parser{s: s}
	d := p.dir()
	if p.i != len(s) {
		p.fail()
	}
	return d
}

// ---------------------------------------------------------------- the real CASFileSystem

type memCAS struct{ blobs map[digest.Digest][]byte }

func (m *memCAS) ReadBlob(_ context.Context, d digest.Digest) ([]byte, *client.MovedBytesMetadata, error) {
	b, ok := m.blobs[d]
	if !ok {
		return nil, nil, errors.New("blob not found")
	}
	return b, nil, nil
}

func props(perm uint32) *pb.NodeProperties {
	if perm == 0 {
		return nil
	}
	return &pb.NodeProperties{UnixMode: wrapperspb.UInt32(perm)}
}

func toProto(d *Dir, cas *memCAS, children *[]*pb.Directory) *pb.Directory {
	out := &pb.Directory{NodeProperties: props(d.Perm)}
	for _, e := range d.Dirs {
		sub := toProto(e.D, cas, children)
		*children = append(*children, sub)
		dg, err := digest.NewFromMessage(sub)
		if err != nil {
			panic(err)
		}
		out.Directories = append(out.Directories, &pb.DirectoryNode{Name: e.Name, Digest: dg.ToProto()})
	}
	for _, f := range d.Files {
		c := []byte(blobContent(f.Blob))
		dg := digest.NewFromBlob(c)
		cas.blobs[dg] = c
		out.Files = append(out.Files, &pb.FileNode{Name: f.Name, Digest: dg.ToProto(), NodeProperties: props(f.Perm)})
	}
	for _, l := range d.Links {
		out.Symlinks = append(out.Symlinks, &pb.SymlinkNode{Name: l.Name, Target: l.Target, NodeProperties: props(l.Perm)})
	}
	return out
}

func newFS(d *Dir, wd string) *rfs.CASFileSystem {
	cas := &memCAS{blobs: map[digest.Digest][]byte{}}
	var children []*pb.Directory
	root := toProto(d, cas, &children)
	return rfs.New(cas, &pb.Tree{Root: root, Children: children}, wd)
}

func kindOf(m iofs.FileMode) int {
	switch {
	case m&iofs.ModeDir != 0:
		return 1
	case m&iofs.ModeSymlink != 0:
		return 2
	}
	return 0
}

func infoStr(i iofs.FileInfo) string {
	return fmt.Sprintf("%s:%d:%d:%d", hx(i.Name()), kindOf(i.Mode()), i.Size(), uint32(i.Mode().Perm()))
}

func entryStr(e iofs.DirEntry) string {
	i, err := e.Info()
	if err != nil {
		return "infoerr"
	}
	return infoStr(i)
}

func blobID(content []byte) string {
	s := string(content)
	if !strings.HasPrefix(s, "blob-") {
		return "?"
	}
	s = strings.TrimRight(s[5:], "x")
	return s
}

// evalOp runs one op on the real code (inside the worker process).
func evalOp(f []string) string {
	tree := parseTree(f[1])
	wd := unhx(f[2])
	path := unhx(f[3])
	fs := newFS(tree, wd)
	kind := f[0]
	if kind == "cfind" || kind == "cstat" || kind == "copen" {
		// the production path: a view created at the root, then ChangeDir(wd) (which stores wd as given)
		fs = newFS(tree, "").ChangeDir(wd)
		kind = kind[1:]
	}
	switch kind {
	case "find":
		fn, dn, ln, err := fs.FindNode(path)
		switch {
		case err != nil:
			if errors.Is(err, os.ErrNotExist) {
				return "notexist"
			}
			return "err"
		case fn != nil:
			return "file:" + hx(fn.Name)
		case dn != nil:
			return "dir:" + hx(dn.Name)
		case ln != nil:
			return "link:" + hx(ln.Name) + ":" + hx(ln.Target)
		}
		return "nothing"
	case "stat":
		i, err := fs.Stat(path)
		if err != nil {
			if errors.Is(err, os.ErrNotExist) {
				return "notexist"
			}
			return "err"
		}
		return infoStr(i)
	case "open", "readdir":
		fl, err := fs.Open(path)
		if err != nil {
			switch {
			case errors.Is(err, os.ErrNotExist):
				return "notexist"
			case strings.Contains(err.Error(), "symlink target was absolute"):
				return "abslink"
			case strings.Contains(err.Error(), "too many levels of symbolic links"):
				return "toomany"
			}
			return "err"
		}
		st, _ := fl.Stat()
		if kind == "open" {
			if d, ok := fl.(iofs.ReadDirFile); ok && st.IsDir() {
				es, err := d.ReadDir(-1)
				return "dir:" + infoStr(st) + ";" + entriesStr(es, err)
			}
			b, err := io.ReadAll(fl)
			if err != nil {
				return "readerr"
			}
			return "file:" + infoStr(st) + ";" + blobID(b)
		}
		d, ok := fl.(iofs.ReadDirFile)
		if !ok || !st.IsDir() {
			return "notdir"
		}
		n, _ := strconv.Atoi(f[4])
		k, _ := strconv.Atoi(f[5])
		var parts []string
		for c := 0; c < k; c++ {
			es, err := d.ReadDir(n)
			parts = append(parts, entriesStr(es, err))
		}
		return strings.Join(parts, "/")
	}
	return "bad-op"
}

func entriesStr(es []iofs.DirEntry, err error) string {
	p := make([]string, len(es))
	for i, e := range es {
		p[i] = entryStr(e)
	}
	s := strings.Join(p, ",")
	if s == "" {
		s = "_"
	}
	switch {
	case err == nil:
		return s + "!nil"
	case err == io.EOF:
		return s + "!eof"
	}
	return s + "!err"
}

func unhx(s string) string {
	if s == "-" {
		return ""
	}
	if s == "" || len(s)%2 != 0 {
		panic(parseErr{})
	}
	for _, c := range s {
		if !((c >= '0' && c <= '9') || (c >= 'a' && c <= 'f')) {
			panic(parseErr{})
		}
	}
	return lib.UnHex(s)
}

// ---------------------------------------------------------------- direct oracle (inside the worker)

type finding struct {
	Class  string `json:"class"`
	Detail string `json:"detail"`
}

// materialise writes the tree below dir on the real file system.
func materialise(d *Dir, dir string) error {
	if err := os.MkdirAll(dir, 0o755); err != nil {
		return err
	}
	for _, f := range d.Files {
		if err := os.WriteFile(filepath.Join(dir, f.Name), []byte(blobContent(f.Blob)), 0o644); err != nil {
			return err
		}
	}
	for _, l := range d.Links {
		if err := os.Symlink(l.Target, filepath.Join(dir, l.Name)); err != nil {
			return err
		}
	}
	for _, e := range d.Dirs {
		if err := materialise(e.D, filepath.Join(dir, e.Name)); err != nil {
			return err
		}
	}
	return nil
}

// insideTree: does resolving path on the real tree stay inside root without passing through a symlinked
// directory and without absolute links?  (The only resolutions a lexical view can be expected to agree on.)
func allPaths(d *Dir, prefix string, out *[]string) {
	for _, e := range d.Dirs {
		p := filepath.Join(prefix, e.Name)
		*out = append(*out, p)
		allPaths(e.D, p, out)
	}
	for _, f := range d.Files {
		*out = append(*out, filepath.Join(prefix, f.Name))
	}
	for _, l := range d.Links {
		*out = append(*out, filepath.Join(prefix, l.Name))
	}
}

var lastReal string // the tree currently materialised under <scratch>/real

// oracleOp checks one property clause on the real code; returns findings.  kind: "node" (stat+read one
// path against the real fs), "list" (ReadDir(-1) of a directory), "page" (paging contract), "testfs".
func oracleOp(f []string, scratch string) []finding {
	tree := parseTree(f[1])
	root := filepath.Join(scratch, "real")
	if lastReal != f[1] {
		os.RemoveAll(root)
		lastReal = ""
		if err := materialise(tree, root); err != nil {
			return []finding{{"oracle-cannot-materialise", err.Error()}}
		}
		lastReal = f[1]
	}
	fs := newFS(tree, "")
	var out []finding
	add := func(c, d string) { out = append(out, finding{c, d}) }
	kind := f[0]
	wdir := ""
	if kind == "onodew" || kind == "onodec" {
		// the same comparison through a view with a working directory: New(c, tree, wd) / ChangeDir(wd)
		wdir = unhx(f[2])
		if kind == "onodew" {
			fs = newFS(tree, wdir)
		} else {
			fs = newFS(tree, "").ChangeDir(wdir)
		}
		f = []string{"onode", f[1], f[3]}
		kind = "onode"
	}
	switch kind {
	case "onode":
		p := unhx(f[2])
		real := filepath.Join(root, wdir, p)
		li, lerr := os.Lstat(real)
		si, serr := fs.Stat(p)
		if lerr != nil {
			if serr == nil {
				add("stat-of-missing-path-succeeds", p)
			}
			return out
		}
		if serr != nil {
			if throughLinkedDir(tree, filepath.Join(wdir, p)) {
				add("path-through-symlinked-directory-not-resolved", fmt.Sprintf("%s: %v", p, serr))
			} else {
				add("stat-misses-existing-entry", fmt.Sprintf("wd %q, %s: %v", wdir, p, serr))
			}
			return out
		}
		if kindOf(li.Mode()) != kindOf(si.Mode()) || si.Name() != li.Name() || (li.Mode().IsRegular() && li.Size() != si.Size()) {
			add("stat-differs-from-tree", fmt.Sprintf("%s: real %v %d, view %v %d", p, li.Mode().Type(), li.Size(), si.Mode().Type(), si.Size()))
		}
		// reading: follow symlinks the way the OS does
		rb, rerr := os.ReadFile(real)
		vb, verr := iofs.ReadFile(fs, p)
		resolved, everr := filepath.EvalSymlinks(real)
		switch {
		case rerr == nil:
			if everr == nil && !strings.HasPrefix(resolved, root+"/") {
				// the real resolution left the tree (absolute or ../ links): the view must fail
				if verr == nil {
					add("link-leaving-the-tree-is-followed", p)
				}
				return out
			}
			if verr != nil {
				if throughLinkedDir(tree, filepath.Join(wdir, p)) {
					add("path-through-symlinked-directory-not-resolved", fmt.Sprintf("%s: %v", p, verr))
				} else {
					add("read-fails-on-readable-file", fmt.Sprintf("wd %q, %s: %v", wdir, p, verr))
				}
			} else if string(rb) != string(vb) {
				add("read-returns-wrong-content", fmt.Sprintf("wd %q, %s: view %q, tree %q", wdir, p, vb, rb))
			}
		default:
			st, e2 := os.Stat(real)
			if e2 == nil && st.IsDir() {
				return out // directories are compared by "list"
			}
			if verr == nil {
				add("read-succeeds-where-the-tree-has-no-file", fmt.Sprintf("%s: real error %v", p, rerr))
			}
		}
	case "olist":
		p := unhx(f[2])
		res, rerr := os.ReadDir(filepath.Join(root, p))
		ves, verr := iofs.ReadDir(fs, p)
		if rerr != nil {
			return out
		}
		if verr != nil {
			add("readdir-fails-on-directory", fmt.Sprintf("%s: %v", p, verr))
			return out
		}
		a, b := []string{}, []string{}
		for _, e := range res {
			a = append(a, fmt.Sprintf("%s:%d", e.Name(), kindOf(e.Type())))
		}
		for _, e := range ves {
			b = append(b, fmt.Sprintf("%s:%d", e.Name(), kindOf(e.Type())))
		}
		sort.Strings(a)
		sort.Strings(b)
		if strings.Join(a, ",") != strings.Join(b, ",") {
			add("listing-differs-from-tree", fmt.Sprintf("%s: real %v view %v", p, a, b))
		}
	case "opage":
		p := unhx(f[2])
		n, _ := strconv.Atoi(f[3])
		fl, err := fs.Open(p)
		if err != nil {
			return out
		}
		d, ok := fl.(iofs.ReadDirFile)
		if !ok {
			return out
		}
		all, _ := iofs.ReadDir(fs, p)
		var got []string
		sawEOF := false
		for c := 0; c < len(all)+3; c++ {
			es, err := d.ReadDir(n)
			for _, e := range es {
				got = append(got, e.Name())
			}
			if err == io.EOF {
				sawEOF = true
				if len(es) != 0 {
					add("readdir-returns-entries-with-eof", p)
				}
				break
			}
			if err != nil {
				add("readdir-paging-error", err.Error())
				return out
			}
			if len(es) == 0 {
				add("readdir-has-no-offset", fmt.Sprintf("%s: ReadDir(%d) returned no entries and no io.EOF", p, n))
				return out
			}
		}
		var want []string
		for _, e := range all {
			want = append(want, e.Name())
		}
		sort.Strings(got)
		sort.Strings(want)
		if !sawEOF || strings.Join(got, "\x00") != strings.Join(want, "\x00") {
			add("readdir-has-no-offset", fmt.Sprintf("%s: successive ReadDir(%d) gave %q (eof=%v), directory has %q", p, n, got, sawEOF, want))
		}
	case "otestfs":
		var ps []string
		allPaths(tree, "", &ps)
		// reference: the same test on the real directory; complaints it also gets (dangling links …) are
		// properties of the tree, not of the view
		ref := map[string]bool{}
		if err := fstest.TestFS(os.DirFS(root), ps...); err != nil {
			for _, line := range strings.Split(err.Error(), "\n") {
				ref[testfsClass(line)] = true
			}
		}
		if err := fstest.TestFS(fs, ps...); err != nil {
			seen := map[string]bool{}
			for _, line := range strings.Split(err.Error(), "\n") {
				cls := testfsClass(line)
				if cls != "" && !seen[cls] && !ref[cls] {
					seen[cls] = true
					add(cls, strings.TrimSpace(line))
				}
			}
		}
	}
	return out
}

// throughLinkedDir: some proper prefix of p is a symlink in the tree.
func throughLinkedDir(t *Dir, p string) bool {
	parts := strings.Split(p, "/")
	cur := t
	for i, c := range parts[:len(parts)-1] {
		_ = i
		next := (*Dir)(nil)
		for _, e := range cur.Dirs {
			if e.Name == c {
				next = e.D
			}
		}
		if next == nil {
			for _, l := range cur.Links {
				if l.Name == c {
					return true
				}
			}
			return false
		}
		cur = next
	}
	return false
}

// testfsClass maps one line of fstest.TestFS's report to a root-cause class ("" = header/continuation).
func testfsClass(line string) string {
	l := strings.TrimSpace(line)
	switch {
	case l == "" || strings.HasPrefix(l, "TestFS found errors") || strings.HasPrefix(l, "testing fs.Sub") || strings.HasPrefix(l, "want "):
		return ""
	case strings.Contains(l, "succeeded, want error"):
		return "open-accepts-invalid-path"
	case strings.Contains(l, "ReadDir("):
		return "readdir-has-no-offset"
	case strings.Contains(l, "Stat(...)") && strings.Contains(l, "Mode=L"):
		return "stat-does-not-follow-symlinks"
	case strings.Contains(l, "Open: ") && strings.Contains(l, "file does not exist"):
		return "testfs-listed-entry-cannot-be-opened"
	case strings.Contains(l, "mismatch") || strings.Contains(l, "Stat"):
		return "testfs-stat-mismatch"
	}
	return "testfs-other"
}

// ---------------------------------------------------------------- worker process

func workerMain() {
	debug.SetMaxStack(1 << 20)
	scratch := os.Args[2]
	in := bufio.NewReaderSize(os.Stdin, 1<<20)
	out := bufio.NewWriter(os.Stdout)
	for {
		line, err := in.ReadString('\n')
		if err != nil {
			return
		}
		line = strings.TrimRight(line, "\n")
		f := strings.Split(line, " ")
		res := func() (r string) {
			defer func() {
				if e := recover(); e != nil {
					if _, ok := e.(parseErr); ok {
						r = "bad-op"
						return
					}
					r = "panic"
				}
			}()
			if strings.HasPrefix(f[0], "o") && f[0] != "open" {
				b, _ := json.Marshal(oracleOp(f, scratch))
				return string(b)
			}
			return evalOp(f)
		}()
		out.WriteString(res + "\n")
		out.Flush()
	}
}

type worker struct {
	cmd *exec.Cmd
	in  io.WriteCloser
	out *bufio.Reader
}

var wk *worker
var scratchDir string

func startWorker() *worker {
	self, err := os.Executable()
	if err != nil {
		panic(err)
	}
	cmd := exec.Command(self, "-worker", scratchDir)
	in, _ := cmd.StdinPipe()
	out, _ := cmd.StdoutPipe()
	if err := cmd.Start(); err != nil {
		panic(err)
	}
	return &worker{cmd, in, bufio.NewReaderSize(out, 1<<20)}
}

// askBatch pipelines a list of ops through the worker (one round trip per op is slow on a loaded machine);
// when the worker dies at op i that op is "crash" and the rest goes to a fresh worker.
func askBatch(ops []string) []string {
	res := make([]string, 0, len(ops))
	for len(res) < len(ops) {
		if wk == nil {
			wk = startWorker()
		}
		w := wk
		rest := ops[len(res):]
		go func() {
			for _, op := range rest {
				if _, err := io.WriteString(w.in, op+"\n"); err != nil {
					return
				}
			}
		}()
		died := false
		for range rest {
			type rd struct {
				s   string
				err error
			}
			ch := make(chan rd, 1)
			go func() {
				s, err := w.out.ReadString('\n')
				ch <- rd{s, err}
			}()
			var r rd
			select {
			case r = <-ch:
			case <-time.After(120 * time.Second):
				r.err = errors.New("timeout")
			}
			if r.err != nil {
				w.cmd.Process.Kill()
				w.in.Close()
				w.cmd.Wait()
				wk = nil
				res = append(res, "crash")
				died = true
				break
			}
			res = append(res, strings.TrimRight(r.s, "\n"))
		}
		if died {
			continue
		}
	}
	return res
}

var queue []string

func enqueue(op string) { queue = append(queue, op) }

func flushQueue(r *lib.Run) {
	valid := make([]bool, len(queue))
	var send []string
	for i, op := range queue {
		valid[i] = wellShaped(op)
		if valid[i] {
			send = append(send, op)
		}
	}
	res := askBatch(send)
	j := 0
	for i, op := range queue {
		if !valid[i] {
			r.Emit(op, "bad-op", false)
			continue
		}
		record(r, op, res[j])
		j++
	}
	queue = nil
}

// ---------------------------------------------------------------- parent: ops, generators

func wellShaped(op string) bool {
	f := strings.Split(op, " ")
	switch f[0] {
	case "find", "stat", "open", "cfind", "cstat", "copen":
		return len(f) == 4
	case "readdir":
		return len(f) == 6
	case "onode", "olist":
		return len(f) == 3
	case "onodew", "onodec":
		return len(f) == 4
	case "opage":
		return len(f) == 4
	case "otestfs":
		return len(f) == 2
	}
	return false
}

func runOp(r *lib.Run, op string) { enqueue(op) }

func record(r *lib.Run, op, res string) {
	f := strings.Split(op, " ")
	if strings.HasPrefix(f[0], "o") && f[0] != "open" {
		// oracle ops: the model has no say; both sides print "-"
		r.Count("oracle:" + f[0])
		if res == "crash" {
			r.OracleFail("symlink-loop-stack-overflow", op, "the process died (fatal stack overflow) while the view was being used")
		} else if res != "bad-op" && res != "panic" {
			var fs []finding
			json.Unmarshal([]byte(res), &fs)
			for _, x := range fs {
				r.OracleFail(x.Class, op, x.Detail)
			}
			if len(fs) == 0 {
				r.Count("oracle-pass:" + f[0])
			}
		} else if res == "panic" {
			r.OracleFail("view-panics", op, "panic")
		}
		r.Emit(op, "-", false)
		return
	}
	if res == "crash" {
		r.Count("impl-crash")
		r.OracleFail("symlink-loop-stack-overflow", op, "Open never returns: unbounded recursion on the symlink chain, fatal stack overflow")
	}
	if res == "panic" {
		r.OracleFail("view-panics", op, "panic")
	}
	r.Count(f[0] + ":" + strings.SplitN(strings.SplitN(strings.SplitN(res, ":", 2)[0], ";", 2)[0], "!", 2)[0])
	r.Emit(op, res, res != "notexist" && res != "bad-op")
}

var names = []string{"a", "b", "c", "d", "x y", "é", "f.txt", "lnk", "sub"}

func genDir(g *lib.Rng, depth int, wellFormed bool, blob *int) *Dir {
	d := &Dir{}
	if g.Chance(30) {
		d.Perm = lib.Pick(g, []uint32{0o755, 0o700, 0o777})
	}
	used := map[string]bool{}
	pick := func() (string, bool) {
		n := lib.Pick(g, names)
		if wellFormed && used[n] {
			return "", false
		}
		used[n] = true
		return n, true
	}
	if depth > 0 {
		for i := g.Intn(3); i > 0; i-- {
			if n, ok := pick(); ok {
				d.Dirs = append(d.Dirs, DirE{n, genDir(g, depth-1, wellFormed, blob)})
			}
		}
	}
	for i := g.Intn(4); i > 0; i-- {
		if n, ok := pick(); ok {
			*blob++
			b := *blob
			if g.Chance(20) {
				b = 1 + g.Intn(*blob) // shared content
			}
			d.Files = append(d.Files, FileN{n, b, lib.Pick(g, []uint32{0, 0o644, 0o755})})
		}
	}
	for i := g.Intn(3); i > 0; i-- {
		if n, ok := pick(); ok {
			d.Links = append(d.Links, LinkN{Name: n})
		}
	}
	return d
}

// setTargets gives every symlink a target: mostly something that exists, sometimes loops, dangling, absolute.
func setTargets(g *lib.Rng, root *Dir, loops bool) {
	var paths []string
	allPaths(root, "", &paths)
	var walk func(d *Dir, prefix string)
	walk = func(d *Dir, prefix string) {
		for i := range d.Links {
			l := &d.Links[i]
			x := g.Intn(100)
			switch {
			case x < 45 && len(paths) > 0:
				t := lib.Pick(g, paths)
				rel, err := filepath.Rel(filepath.Join("/", prefix), filepath.Join("/", t))
				if err != nil {
					rel = t
				}
				l.Target = rel
			case x < 60:
				sibs := []string{}
				for _, f := range d.Files {
					sibs = append(sibs, f.Name)
				}
				for _, o := range d.Links {
					if loops || o.Name != l.Name {
						sibs = append(sibs, o.Name)
					}
				}
				if len(sibs) > 0 {
					l.Target = lib.Pick(g, sibs)
				} else {
					l.Target = "nosuch"
				}
			case x < 70:
				l.Target = lib.Pick(g, []string{"nosuch", "../nosuch", "a/b/c", "."})
			case x < 80:
				l.Target = lib.Pick(g, []string{"/etc/hostname", "/", "/nonexistent"})
			case x < 90:
				l.Target = lib.Pick(g, []string{"..", "../..", "../../x", "./" + l.Name + "/..", "../" + filepath.Base(prefix)})
			default:
				if loops {
					l.Target = l.Name // self loop
				} else {
					l.Target = "nosuch"
				}
			}
		}
		for _, e := range d.Dirs {
			walk(e.D, filepath.Join(prefix, e.Name))
		}
	}
	walk(root, "")
}

// lookupDir finds the directory at a clean relative path (no symlinks followed).
func lookupDir(root *Dir, p string) *Dir {
	if p == "." || p == "" {
		return root
	}
	cur := root
	for _, c := range strings.Split(p, "/") {
		var next *Dir
		for _, e := range cur.Dirs {
			if e.Name == c {
				next = e.D
			}
		}
		if next == nil {
			return nil
		}
		cur = next
	}
	return cur
}

func existsLexically(root *Dir, p string) bool {
	if lookupDir(root, p) != nil {
		return true
	}
	d := lookupDir(root, filepath.Dir(p))
	if d == nil {
		return false
	}
	b := filepath.Base(p)
	for _, f := range d.Files {
		if f.Name == b {
			return true
		}
	}
	for _, l := range d.Links {
		if l.Name == b {
			return true
		}
	}
	return false
}

// linkFacts: does some link leave the tree (absolute or lexically above the root)?  And the paths that go
// *through* a link to a directory.
func linkFacts(root *Dir) (escapes bool, through []string) {
	var walk func(d *Dir, prefix string)
	walk = func(d *Dir, prefix string) {
		for _, l := range d.Links {
			if strings.HasPrefix(l.Target, "/") {
				escapes = true
				continue
			}
			t := filepath.Join(prefix, l.Target)
			if t == ".." || strings.HasPrefix(t, "../") {
				escapes = true
				continue
			}
			if !existsLexically(root, t) {
				escapes = true // dangling: TestFS on a view without ReadLinkFS insists on opening every listed entry
				continue
			}
			if td := lookupDir(root, t); td != nil {
				for _, f := range td.Files {
					through = append(through, filepath.Join(prefix, l.Name)+"/"+f.Name)
				}
				for _, e := range td.Dirs {
					through = append(through, filepath.Join(prefix, l.Name)+"/"+e.Name)
				}
			}
		}
		for _, e := range d.Dirs {
			walk(e.D, filepath.Join(prefix, e.Name))
		}
	}
	walk(root, "")
	return
}

func hasLoopRisk(d *Dir) bool {
	n := 0
	var walk func(d *Dir)
	walk = func(d *Dir) {
		n += len(d.Links)
		for _, e := range d.Dirs {
			walk(e.D)
		}
	}
	walk(d)
	return n > 0
}

func queryPaths(g *lib.Rng, root *Dir) []string {
	var ps []string
	allPaths(root, "", &ps)
	out := append([]string{".", ""}, ps...)
	for i := 0; i < 4; i++ {
		base := "a"
		if len(ps) > 0 {
			base = lib.Pick(g, ps)
		}
		out = append(out, lib.Pick(g, []string{"./" + base, base + "/", base + "/nosuch", "/" + base, base + "/..", "../" + base, "nosuch", base + "//x", base + "/.", "..", base + "/../" + filepath.Base(base)}))
	}
	return out
}

func main() {
	if len(os.Args) == 3 && os.Args[1] == "-worker" {
		workerMain()
		return
	}
	r := lib.Start()
	defer r.Finish()
	r.Rule = "find/stat/open/readdir: the path exists in the view (anything but notexist), distinct by op line"
	scratchDir = os.Getenv("VERIF_SCRATCH")
	if scratchDir == "" {
		scratchDir = r.OutDir
	}
	scratchDir, _ = filepath.Abs(filepath.Join(scratchDir, "c29fs"))
	os.MkdirAll(scratchDir, 0o755)
	defer os.RemoveAll(scratchDir)
	defer func() {
		if wk != nil {
			wk.in.Close()
			wk.cmd.Wait()
		}
	}()
	if ops := r.ReplayOps(); ops != nil {
		for _, op := range ops {
			runOp(r, op)
		}
		flushQueue(r)
		return
	}
	g := r.Rng
	// fixed shapes first: a file of the same name at the root and under a sub-directory, and relative links in the
	// sub-directory that point at either; read through views rooted at the sub-directory (New cleans the working
	// directory, ChangeDir keeps it raw).  A link resolved relative to the view instead of the root reads the wrong bytes.
	for _, sub := range []string{"sub", "a", "x y"} {
		for _, fn := range []string{"foo", "é"} {
			t := &Dir{
				Files: []FileN{{fn, 1, 0}, {"other", 3, 0}},
				Dirs: []DirE{{sub, &Dir{
					Files: []FileN{{fn, 2, 0o644}},
					Links: []LinkN{{"up", "../" + fn, 0}, {"same", fn, 0}, {"upother", "../other", 0}, {"chain", "up", 0}},
					Dirs:  []DirE{{"deep", &Dir{Links: []LinkN{{"up2", "../../" + fn, 0}, {"up1", "../" + fn, 0}}}}},
				}}},
			}
			ts := t.String()
			r.Count("trees-same-name-at-root-and-in-wd")
			for _, p := range []string{"up", "same", "upother", "chain", fn, "deep/up2", "deep/up1"} {
				for _, k := range []string{"onodew", "onodec"} {
					runOp(r, k+" "+ts+" "+hx(sub)+" "+hx(p))
				}
				runOp(r, "open "+ts+" "+hx(sub)+" "+hx(p))
				runOp(r, "copen "+ts+" "+hx(sub)+" "+hx(p))
				runOp(r, "stat "+ts+" "+hx(sub)+" "+hx(p))
			}
			runOp(r, "readdir "+ts+" "+hx(sub)+" "+hx(".")+" -1 1")
			for _, p := range []string{"up1", "up2"} {
				runOp(r, "onodew "+ts+" "+hx(sub+"/deep")+" "+hx(p))
				runOp(r, "onodec "+ts+" "+hx(sub+"/deep")+" "+hx(p))
			}
			flushQueue(r)
		}
	}
	nTrees := r.N(36, 300)
	loopBudget := r.N(15, 200)
	for i := 0; i < nTrees; i++ {
		blob := 0
		wellFormed := g.Chance(85)
		loops := loopBudget > 0 && g.Chance(30)
		root := genDir(g, 1+g.Intn(3), wellFormed, &blob)
		setTargets(g, root, loops)
		ts := root.String()
		r.Count("trees")
		if !wellFormed {
			r.Count("trees-with-duplicate-names")
		}
		wd := lib.Pick(g, []string{"", "", "", ".", "a", "a/..", "/", "./"})
		if len(root.Dirs) > 0 && g.Chance(35) {
			wd = lib.Pick(g, root.Dirs).Name
		}
		qs := queryPaths(g, root)
		for _, p := range qs {
			// seen from the working directory, when that is a directory of the tree
			if strings.HasPrefix(p, wd+"/") && wd != "" {
				qs = append(qs, strings.TrimPrefix(p, wd+"/"))
			}
		}
		for _, p := range qs {
			runOp(r, "find "+ts+" "+hx(wd)+" "+hx(p))
			runOp(r, "stat "+ts+" "+hx(wd)+" "+hx(p))
			runOp(r, "open "+ts+" "+hx(wd)+" "+hx(p))
			if g.Chance(30) {
				cwd := lib.Pick(g, []string{"", ".", "a", "sub", "a/b", "./a", "a/", "..", "/"})
				runOp(r, lib.Pick(g, []string{"cfind", "cstat", "copen"})+" "+ts+" "+hx(cwd)+" "+hx(p))
			}
			if g.Chance(25) {
				runOp(r, fmt.Sprintf("readdir %s %s %s %d %d", ts, hx(wd), hx(p), lib.Pick(g, []int{-1, 0, 1, 2, 3, 5}), 1+g.Intn(3)))
			}
		}
		if loops {
			loopBudget--
		}
		if wellFormed {
			var ps []string
			allPaths(root, "", &ps)
			for _, p := range ps {
				runOp(r, "onode "+ts+" "+hx(p))
			}
			escapes, through := linkFacts(root)
			for _, p := range through {
				r.Count("path-through-a-link-to-a-directory")
				runOp(r, "onode "+ts+" "+hx(p))
			}
			for _, p := range ps {
				if d := filepath.Dir(p); d != "." && g.Chance(60) {
					// the entry seen from its own directory and from the top-level directory above it
					top := strings.SplitN(p, "/", 2)[0]
					rel, _ := filepath.Rel(top, p)
					runOp(r, lib.Pick(g, []string{"onodew", "onodec"})+" "+ts+" "+hx(d)+" "+hx(filepath.Base(p)))
					if top != d {
						runOp(r, lib.Pick(g, []string{"onodew", "onodec"})+" "+ts+" "+hx(top)+" "+hx(rel))
					}
				}
			}
			runOp(r, "olist "+ts+" "+hx("."))
			var walk func(d *Dir, prefix string)
			walk = func(d *Dir, prefix string) {
				for _, e := range d.Dirs {
					p := filepath.Join(prefix, e.Name)
					runOp(r, "olist "+ts+" "+hx(p))
					runOp(r, fmt.Sprintf("opage %s %s %d", ts, hx(p), 1+g.Intn(3)))
					walk(e.D, p)
				}
			}
			walk(root, "")
			runOp(r, fmt.Sprintf("opage %s %s %d", ts, hx("."), 1+g.Intn(3)))
			if escapes {
				r.Count("testfs-skipped-links-leave-the-tree-or-dangle")
			} else if !hasLoopRisk(root) || g.Chance(60) {
				runOp(r, "otestfs "+ts)
			}
		}
		flushQueue(r)
	}
}
