// C32 harness: crashes never leave files that later builds trust wrongly.
//
// End to end with the real binary ($VERIF_PLZ, built with -tags verif): a one-target repository is brought into a
// pre-state, `plz build` is SIGKILLed just before its k-th filesystem operation (hook src/build/c32_verif.go; steps
// INSIDE one call — a half-written gob, a half-removed directory, a half-written fallback record — are emulated by the
// harness on the killed tree), the files of the target are read back and compared with the Lean model's state after
// the same cut, and a normal `plz build` of the same (or the reverted) tree is compared with a clean build of those
// sources in a fresh directory (direct oracle).  Plus: SIGKILL of the whole session at seeded instants of a multi-target
// build padded with sleeps (`tkill`), truncated fallback records of every length (`fbtrunc`), fs.WriteFile with a
// reader that dies after N bytes for every N (`wf`, in-process panic or a re-executed child that SIGKILLs itself),
// and encoding/gob on every strict prefix of an encoded BuildMetadata (`gob`).
package main

import (
	"bytes"
	"crypto/sha1"
	"encoding/gob"
	"encoding/hex"
	"fmt"
	"io"
	"os"
	"os/exec"
	"path/filepath"
	"sort"
	"strconv"
	"strings"
	"sync"
	"syscall"
	"time"

	"github.com/pkg/xattr"
	"github.com/thought-machine/please/src/core"
	"github.com/thought-machine/please/src/fs"
	"verif/harness/lib"
)

var (
	plz     string
	scratch string
	seq     int64
	seqMu   sync.Mutex
)

func nextDir(prefix string) string {
	seqMu.Lock()
	seq++
	n := seq
	seqMu.Unlock()
	d := filepath.Join(scratch, fmt.Sprintf("%s%d", prefix, n))
	os.MkdirAll(d, 0o755)
	return d
}

// ---------------------------------------------------------------- scenarios

type scn struct {
	mode, cache, pb, kinds, pre string // pre without the mask
	mask                        []bool
}

func parseScn(mode, cache, pb, kinds, pre string) (scn, bool) {
	s := scn{mode: mode, cache: cache, pb: pb, kinds: kinds}
	if (mode != "x" && mode != "f") || (cache != "c" && cache != "n") || (pb != "p" && pb != "-" && pb != "g" && pb != "b") || kinds == "" || ((pb == "g" || pb == "b") && kinds != "f") {
		return s, false
	}
	for _, c := range kinds {
		if c != 'f' && c != 'd' && c != 's' {
			return s, false
		}
	}
	s.mask = make([]bool, len(kinds))
	for i := range s.mask {
		s.mask[i] = true
	}
	if strings.HasPrefix(pre, "old:") {
		m := pre[4:]
		if len(m) != len(kinds) {
			return s, false
		}
		for i, c := range m {
			if c != '0' && c != '1' {
				return s, false
			}
			s.mask[i] = c == '1'
		}
		s.pre = "old"
		return s, true
	}
	switch pre {
	case "none", "cur", "old-rmout0", "cur-rmout0", "cur-rmmd":
		s.pre = pre
		return s, true
	}
	return s, false
}

func (s scn) preTok() string {
	if s.pre == "old" {
		m := ""
		for _, b := range s.mask {
			if b {
				m += "1"
			} else {
				m += "0"
			}
		}
		return "old:" + m
	}
	return s.pre
}
func (s scn) toks() string {
	return strings.Join([]string{s.mode, s.cache, s.pb, s.kinds, s.preTok()}, " ")
}

// family: everything that determines the sources and the configuration
func (s scn) family() string {
	m := ""
	for _, b := range s.mask {
		if b {
			m += "1"
		} else {
			m += "0"
		}
	}
	return s.mode + s.cache + s.pb + s.kinds + m
}

// usesFb: the stamp of output i lives in the fallback record (xattrs disabled, or the output is a symlink)
func (s scn) usesFb(i int) bool { return s.mode == "f" || s.kinds[i] == 's' }

// The command of output i; independent specification of its result: expected().
func (s scn) cmdFor(i int) string {
	o := fmt.Sprintf("o%d", i)
	src := "cat $SRCS"
	if !s.mask[i] {
		src = "echo const"
	}
	if s.kinds[i] == 'd' {
		return fmt.Sprintf("mkdir %s && (%s; echo a%d) > %s/a && (%s; echo b%d) > %s/b", o, src, i, o, src, i, o)
	}
	if s.kinds[i] == 's' { // a symlink whose target depends on the tree
		if !s.mask[i] {
			return fmt.Sprintf("ln -s /etc/passwd %s", o)
		}
		return fmt.Sprintf("if grep -q T0 $SRCS; then ln -s /etc/passwd %s; else ln -s /etc/group %s; fi", o, o)
	}
	return fmt.Sprintf("(%s; echo %s) > %s", src, o, o)
}

// expected rendering of output i for tree t ("T0"/"T1")
func (s scn) expected(tree string, i int) string {
	src := tree + "\n"
	if !s.mask[i] {
		src = "const\n"
	}
	if s.kinds[i] == 's' {
		if tree == "T0" || !s.mask[i] {
			return "l:/etc/passwd"
		}
		return "l:/etc/group"
	}
	if s.kinds[i] == 'd' {
		return fmt.Sprintf("d:a=%s,b=%s", hex.EncodeToString([]byte(fmt.Sprintf("%sa%d\n", src, i))), hex.EncodeToString([]byte(fmt.Sprintf("%sb%d\n", src, i))))
	}
	return "f:" + hex.EncodeToString([]byte(fmt.Sprintf("%so%d\n", src, i)))
}

// verifies: does a build of `tree` pass the verification of the declared hashes? (pb token g: hashes of both trees
// declared; b: only T0's, so a build of T1 fails with "Bad output hash" and leaves no output)
func (s scn) verifies(tree string) bool { return !(s.pb == "b" && tree == "T1") }

func (s scn) declaredHashes() string {
	if s.pb != "g" && s.pb != "b" {
		return ""
	}
	h := func(tree string) string {
		b, _ := hex.DecodeString(strings.TrimPrefix(s.expected(tree, 0), "f:"))
		return fmt.Sprintf("%x", sha1.Sum(b))
	}
	if s.pb == "g" {
		return fmt.Sprintf(", hashes=[%q, %q]", h("T0"), h("T1"))
	}
	return fmt.Sprintf(", hashes=[%q]", h("T0"))
}

func (s scn) buildFile() string {
	var outs, cmds []string
	for i := range s.kinds {
		outs = append(outs, fmt.Sprintf("%q", fmt.Sprintf("o%d", i)))
		cmds = append(cmds, s.cmdFor(i))
	}
	pb := ""
	pre := ""
	if s.pb == "p" {
		pre = "def _pb(name, output):\n    pass\n"
		pb = ", post_build=_pb"
	}
	pb += s.declaredHashes()
	return fmt.Sprintf("%sgenrule(name=\"t\", srcs=[\"x.txt\"], outs=[%s], cmd=%q%s)\n", pre, strings.Join(outs, ", "), strings.Join(cmds, " && "), pb)
}

func (s scn) config() string {
	c := ""
	if s.mode == "f" {
		c += "[build]\nxattrs = false\n"
	}
	if s.cache == "c" {
		c += "[cache]\ndir = ../cache\n"
	}
	return c
}

// inst is one instance directory: repo/, home/, cache/
type inst struct{ dir string }

func (in inst) repo() string { return filepath.Join(in.dir, "repo") }
func (in inst) gen() string  { return filepath.Join(in.dir, "repo/plz-out/gen/p") }

func (s scn) writeSources(in inst, tree string) {
	os.MkdirAll(filepath.Join(in.repo(), "p"), 0o755)
	os.MkdirAll(filepath.Join(in.dir, "home"), 0o755)
	must(os.WriteFile(filepath.Join(in.repo(), ".plzconfig"), []byte(s.config()), 0o644))
	must(os.WriteFile(filepath.Join(in.repo(), "p/BUILD"), []byte(s.buildFile()), 0o644))
	must(os.WriteFile(filepath.Join(in.repo(), "p/x.txt"), []byte(tree+"\n"), 0o644))
}

func must(err error) {
	if err != nil {
		panic(err)
	}
}

// ---------------------------------------------------------------- running plz

type runRes struct {
	rc  int
	out string
	log []string
	dur time.Duration
}

// killSession SIGKILLs every process whose session id is sid (plz is started as a session leader).
func killSession(sid int) {
	ents, _ := os.ReadDir("/proc")
	for _, e := range ents {
		pid, err := strconv.Atoi(e.Name())
		if err != nil {
			continue
		}
		b, err := os.ReadFile("/proc/" + e.Name() + "/stat")
		if err != nil {
			continue
		}
		st := string(b)
		i := strings.LastIndex(st, ")")
		if i < 0 {
			continue
		}
		f := strings.Fields(st[i+1:])
		if len(f) > 3 {
			if s, _ := strconv.Atoi(f[3]); s == sid {
				syscall.Kill(pid, syscall.SIGKILL)
			}
		}
	}
}

// runPlz runs `plz build` in the instance. killAt >= 0: hook kill point; killAfter > 0: SIGKILL of the session after that delay.
func runPlz(in inst, labels []string, nocache, rebuild bool, hookTarget string, killAt int, killAfter time.Duration) runRes {
	args := []string{"build", "-p", "-v", "error", "--noupdate", "-n", "4"}
	if nocache {
		args = append(args, "-o", "cache.dir:")
	}
	if rebuild {
		args = append(args, "--rebuild")
	}
	args = append(args, labels...)
	cmd := exec.Command(plz, args...)
	cmd.Dir = in.repo()
	home := filepath.Join(in.dir, "home")
	cmd.Env = []string{"HOME=" + home, "XDG_CACHE_HOME=" + home + "/.cache", "XDG_CONFIG_HOME=" + home + "/.config",
		"PATH=/usr/local/bin:/usr/bin:/bin", "LC_ALL=C", "GOMAXPROCS=" + gomaxprocs(killAfter)}
	logPath := ""
	if hookTarget != "" {
		logPath = filepath.Join(in.dir, fmt.Sprintf("hook-%d.log", time.Now().UnixNano()))
		cmd.Env = append(cmd.Env, "PLZ_VERIF_C32_TARGET="+hookTarget, "PLZ_VERIF_C32_LOG="+logPath)
		if killAt >= 0 {
			cmd.Env = append(cmd.Env, "PLZ_VERIF_C32_KILL="+strconv.Itoa(killAt))
		}
	}
	cmd.SysProcAttr = &syscall.SysProcAttr{Setsid: true}
	var buf bytes.Buffer
	cmd.Stdout, cmd.Stderr = &buf, &buf
	t0 := time.Now()
	if err := cmd.Start(); err != nil {
		return runRes{rc: 127, out: err.Error()}
	}
	pid := cmd.Process.Pid
	done := make(chan error, 1)
	go func() { done <- cmd.Wait() }()
	var err error
	timeout := time.After(300 * time.Second)
	var killer <-chan time.Time
	if killAfter > 0 {
		killer = time.After(killAfter)
	}
	finished := false
	for !finished {
		select {
		case err = <-done:
			finished = true
		case <-killer:
			syscall.Kill(pid, syscall.SIGKILL)
			killSession(pid)
			killer = nil
		case <-timeout:
			syscall.Kill(pid, syscall.SIGKILL)
			killSession(pid)
			err = <-done
			finished = true
			buf.WriteString("\nHARNESS-TIMEOUT")
		}
	}
	killSession(pid) // whatever is left of the session (children of a killed plz)
	res := runRes{out: buf.String(), dur: time.Since(t0)}
	if err != nil {
		res.rc = 1
		if ee, ok := err.(*exec.ExitError); ok {
			if ws, ok := ee.Sys().(syscall.WaitStatus); ok && ws.Signaled() {
				res.rc = 128 + int(ws.Signal())
			} else {
				res.rc = ee.ExitCode()
			}
		}
	}
	if logPath != "" {
		if b, err := os.ReadFile(logPath); err == nil {
			for _, l := range strings.Split(strings.TrimSpace(string(b)), "\n") {
				if l != "" {
					res.log = append(res.log, l)
				}
			}
		}
		os.Remove(logPath)
	}
	return res
}

// runPlain runs a build that is expected to run to its end; when the harness's own time limit strikes (overloaded
// machine) the instance is reset by `reset` and the run repeated, alone, up to three times.
func runPlain(in inst, labels []string, nocache, rebuild bool, hookTarget string, reset func()) runRes {
	r := runPlz(in, labels, nocache, rebuild, hookTarget, -1, 0)
	for i := 0; i < 3 && timedOut(r.out); i++ {
		retryMu.Lock()
		if reset != nil {
			reset()
		}
		r = runPlz(in, labels, nocache, rebuild, hookTarget, -1, 0)
		retryMu.Unlock()
	}
	return r
}

var retryMu sync.Mutex

func timedOut(s string) bool { return strings.Contains(s, "HARNESS-TIMEOUT") }

// hook log line "op path" -> hook point name ("out-rename:1")
func pointName(l string) string {
	f := strings.SplitN(l, " ", 2)
	op := f[0]
	if strings.HasPrefix(op, "out-") || op == "stamp-out" || op == "unstamp-out" {
		base := filepath.Base(strings.TrimSpace(f[1]))
		if strings.HasPrefix(base, "o") {
			return op + ":" + base[1:]
		}
		return op + ":" + base
	}
	return op
}

func traceNames(log []string) []string {
	var out []string
	for _, l := range log {
		if strings.HasPrefix(l, "KILL ") {
			continue
		}
		out = append(out, pointName(l))
	}
	return out
}

func cpA(from, to string) {
	os.RemoveAll(to)
	if out, err := exec.Command("cp", "-a", from, to).CombinedOutput(); err != nil {
		panic(fmt.Sprintf("cp -a %s %s: %v %s", from, to, err, out))
	}
}

// ---------------------------------------------------------------- reading the target's files back

func renderTree(p string) string {
	st, err := os.Lstat(p)
	if err != nil {
		return "missing"
	}
	if st.Mode()&os.ModeSymlink != 0 {
		t, _ := os.Readlink(p)
		return "l:" + t
	}
	if !st.IsDir() {
		b, _ := os.ReadFile(p)
		return "f:" + hex.EncodeToString(b)
	}
	ents, _ := os.ReadDir(p)
	var parts []string
	for _, e := range ents {
		b, _ := os.ReadFile(filepath.Join(p, e.Name()))
		parts = append(parts, e.Name()+"="+hex.EncodeToString(b))
	}
	return "d:" + strings.Join(parts, ",")
}

func readStamp(s scn, in inst, name string) []byte {
	p := filepath.Join(in.gen(), name)
	i, _ := strconv.Atoi(strings.TrimPrefix(name, "o"))
	if s.usesFb(i) {
		b, err := os.ReadFile(filepath.Join(in.gen(), ".rule_hash_"+name))
		if err != nil {
			return nil
		}
		return b
	}
	b, err := xattr.LGet(p, "user.plz_build")
	if err != nil {
		return nil
	}
	return b
}

const mdName = ".target_build_metadata_t"

func mdDecodes(b []byte) bool {
	md := new(core.BuildMetadata)
	return gob.NewDecoder(bytes.NewReader(b)).Decode(&md) == nil
}

type famInfo struct {
	once       sync.Once
	s0, s1     []byte            // stamps of complete builds of T0 / T1
	clean      map[string]string // tree -> rendering of all outputs of a clean build
	gob1       []byte            // metadata file of the complete T1 build
	err        string
	tmplMu     sync.Mutex
	tmpl       map[string]*tmplInfo // pre token -> prepared instance
	traceMu    sync.Mutex
	traceCache map[string][]string
}

type tmplInfo struct {
	once sync.Once
	in   inst
	err  string
}

var (
	fams   = map[string]*famInfo{}
	famsMu sync.Mutex
)

func family(s scn) *famInfo {
	famsMu.Lock()
	defer famsMu.Unlock()
	k := s.family()
	if fams[k] == nil {
		fams[k] = &famInfo{clean: map[string]string{}, tmpl: map[string]*tmplInfo{}, traceCache: map[string][]string{}}
	}
	return fams[k]
}

func (s scn) renderAll(in inst) string {
	var parts []string
	for i := range s.kinds {
		parts = append(parts, renderTree(filepath.Join(in.gen(), fmt.Sprintf("o%d", i))))
	}
	return strings.Join(parts, ";")
}

// clean builds of T0 and T1 in fresh directories: the direct oracle's reference, and the stamps.
func (f *famInfo) init(s scn) {
	f.once.Do(func() {
		for _, tree := range []string{"T0", "T1"} {
			in := inst{nextDir("clean")}
			s.writeSources(in, tree)
			r := runPlain(in, []string{"//p:t"}, s.cache == "n", false, "", func() { os.RemoveAll(filepath.Join(in.repo(), "plz-out")) })
			if !s.verifies(tree) {
				// the declared hashes do not match: the clean build must FAIL and leave no output
				if r.rc == 0 {
					f.err = "clean build of " + tree + " should fail its declared hashes: " + r.out
					return
				}
				f.clean[tree] = s.renderAll(in)
				os.RemoveAll(in.dir)
				continue
			}
			if r.rc != 0 {
				f.err = "clean build of " + tree + " failed: " + r.out
				return
			}
			f.clean[tree] = s.renderAll(in)
			for i := range s.kinds {
				if renderTree(filepath.Join(in.gen(), fmt.Sprintf("o%d", i))) != s.expected(tree, i) {
					f.err = fmt.Sprintf("clean build of %s: output %d is %s, specification says %s", tree, i, renderTree(filepath.Join(in.gen(), fmt.Sprintf("o%d", i))), s.expected(tree, i))
					return
				}
			}
			st := readStamp(s, in, "o0")
			if len(st) != 100 {
				f.err = fmt.Sprintf("stamp of clean %s build has length %d", tree, len(st))
				return
			}
			if tree == "T0" {
				f.s0 = st
				f.gob1, _ = os.ReadFile(filepath.Join(in.gen(), mdName))
			} else {
				f.s1 = st
				f.gob1, _ = os.ReadFile(filepath.Join(in.gen(), mdName))
			}
			os.RemoveAll(in.dir)
		}
		if f.s1 != nil && bytes.Equal(f.s0, f.s1) {
			f.err = "stamps of T0 and T1 are equal"
		}
	})
}

// template returns a prepared instance in the scenario's pre-state (never modified afterwards; callers copy it).
func (f *famInfo) template(s scn) (inst, string) {
	f.tmplMu.Lock()
	t := f.tmpl[s.preTok()]
	if t == nil {
		t = &tmplInfo{}
		f.tmpl[s.preTok()] = t
	}
	f.tmplMu.Unlock()
	t.once.Do(func() {
		t.in = inst{nextDir("tmpl")}
		tree := "T0"
		if strings.HasPrefix(s.pre, "cur") {
			tree = "T1"
		}
		s.writeSources(t.in, tree)
		if s.pre != "none" {
			r := runPlain(t.in, []string{"//p:t"}, s.cache == "n", false, "", func() { os.RemoveAll(filepath.Join(t.in.repo(), "plz-out")) })
			if r.rc != 0 {
				t.err = "pre-state build failed: " + r.out
				return
			}
		}
		switch s.pre {
		case "old-rmout0", "cur-rmout0":
			os.RemoveAll(filepath.Join(t.in.gen(), "o0"))
		case "cur-rmmd":
			os.Remove(filepath.Join(t.in.gen(), mdName))
		}
	})
	return t.in, t.err
}

func (s scn) freshCopy(f *famInfo) (inst, string) {
	tin, err := f.template(s)
	if err != "" {
		return inst{}, err
	}
	in := inst{nextDir("run")}
	os.RemoveAll(in.dir)
	cpA(tin.dir, in.dir)
	return in, ""
}

// trace: hook points of the interrupted build (a build of T1 from the pre-state), run to completion
func (s scn) trace(f *famInfo) ([]string, string) {
	f.traceMu.Lock()
	if t, ok := f.traceCache[s.preTok()]; ok {
		f.traceMu.Unlock()
		return t, ""
	}
	f.traceMu.Unlock()
	in, err := s.freshCopy(f)
	if err != "" {
		return nil, err
	}
	defer os.RemoveAll(in.dir)
	must(os.WriteFile(filepath.Join(in.repo(), "p/x.txt"), []byte("T1\n"), 0o644))
	r := runPlz(in, []string{"//p:t"}, s.cache == "n", s.pre == "cur", "//p:t", -1, 0)
	if (r.rc != 0) == s.verifies("T1") { // (the text of the failure is not always flushed: only the exit status is relied on)
		return nil, "trace build failed: " + r.out + fmt.Sprintf(" rc=%d", r.rc)
	}
	t := traceNames(r.log)
	f.traceMu.Lock()
	f.traceCache[s.preTok()] = t
	f.traceMu.Unlock()
	return t, ""
}

type caseRes struct {
	op, out    string
	nontrivial bool
	fails      []oracleFail
	counts     []string
}
type oracleFail struct{ class, detail string }

func (s scn) classifyStamp(f *famInfo, b []byte, fb bool) string {
	switch {
	case b == nil:
		return "none"
	case bytes.Equal(b, f.s0):
		return "s0"
	case f.s1 != nil && bytes.Equal(b, f.s1):
		return "s1"
	case f.s1 == nil && len(b) == 100:
		return "s1" // no complete build of T1 exists (it fails its declared hashes): a full record other than T0's is T1's
	case fb && len(b) < 100:
		return "trunc"
	}
	return "other"
}

func (s scn) showState(f *famInfo, in inst) (string, []string, []string) {
	md := "absent"
	if b, err := os.ReadFile(filepath.Join(in.gen(), mdName)); err == nil {
		switch {
		case len(b) == 0:
			md = "empty"
		case mdDecodes(b):
			md = "full"
		default:
			md = "part"
		}
	}
	parts := []string{"md=" + md}
	var cs, ss []string
	for i := range s.kinds {
		name := fmt.Sprintf("o%d", i)
		tr := renderTree(filepath.Join(in.gen(), name))
		c := "part"
		switch {
		case tr == "missing":
			c = "none"
		case tr == s.expected("T0", i):
			c = "c0"
		case tr == s.expected("T1", i):
			c = "c1"
		}
		st := s.classifyStamp(f, readStamp(s, in, name), s.usesFb(i))
		cs, ss = append(cs, c), append(ss, st)
		parts = append(parts, fmt.Sprintf("%s=%s/%s", name, c, st))
	}
	return strings.Join(parts, " "), cs, ss
}

// emulate the first j atomic steps inside the hook point `point` on the killed tree
func (s scn) emulate(f *famInfo, in inst, point string, j int) bool {
	op, idx := point, ""
	if i := strings.Index(point, ":"); i >= 0 {
		op, idx = point[:i], point[i+1:]
	}
	switch op {
	case "md-write":
		if j != 1 || len(f.gob1) < 2 {
			return false
		}
		return os.WriteFile(filepath.Join(in.gen(), mdName), f.gob1[:len(f.gob1)/2], 0o644) == nil
	case "out-remove":
		i, _ := strconv.Atoi(idx)
		if j != 1 || i >= len(s.kinds) || s.kinds[i] != 'd' {
			return false
		}
		ents, err := os.ReadDir(filepath.Join(in.gen(), "o"+idx)) // os.RemoveAll: the first unlink
		if err != nil {
			return false
		}
		if len(ents) == 0 {
			return true
		}
		return os.Remove(filepath.Join(in.gen(), "o"+idx, ents[0].Name())) == nil
	case "stamp-out":
		if i, _ := strconv.Atoi(idx); i >= len(s.kinds) || !s.usesFb(i) || j < 1 || j > 2 {
			return false
		}
		p := filepath.Join(in.gen(), ".rule_hash_o"+idx)
		if j == 1 {
			return os.WriteFile(p, nil, 0o644) == nil // os.WriteFile: O_TRUNC done, nothing written
		}
		return os.WriteFile(p, f.s1[:50], 0o644) == nil
	case "stamp-md":
		if s.mode != "f" || j != 1 {
			return false
		}
		return os.WriteFile(filepath.Join(in.gen(), ".rule_hash_"+mdName), nil, 0o644) == nil
	}
	return false
}

// the next plain build of `tree` and what it left, against the clean build of that tree
func (s scn) recover(f *famInfo, in inst, tree string) (string, runRes) {
	must(os.WriteFile(filepath.Join(in.repo(), "p/x.txt"), []byte(tree+"\n"), 0o644))
	r := runPlz(in, []string{"//p:t"}, s.cache == "n", false, "//p:t", -1, 0)
	if !s.verifies(tree) {
		// a clean build of this tree fails its declared hashes and leaves nothing: so must this build
		if r.rc != 0 {
			if s.renderAll(in) == f.clean[tree] {
				return "next=fail-verify final=missing", r
			}
			return "next=fail-verify final=left", r
		}
		next := "skip"
		for _, l := range r.log {
			if strings.HasPrefix(l, "prepare ") {
				next = "rebuild"
			}
		}
		return "next=" + next + " final=unverified", r
	}
	fin := func() string {
		if s.renderAll(in) == f.clean[tree] {
			return "clean"
		}
		return "stale"
	}
	if r.rc == 0 {
		next := "skip"
		for _, l := range r.log {
			if strings.HasPrefix(l, "prepare ") {
				next = "rebuild"
			}
		}
		return "next=" + next + " final=" + fin(), r
	}
	r2 := runPlz(in, []string{"//p:t"}, s.cache == "n", false, "", -1, 0)
	sec := "ok"
	if r2.rc != 0 {
		sec = "fail"
	}
	return "next=fail second=" + sec + " final=" + fin(), r
}

func runCrash(op string, s scn, k, j int, next string) caseRes {
	res := caseRes{op: op}
	f := family(s)
	f.init(s)
	if f.err != "" {
		res.out = "setup-error"
		res.fails = append(res.fails, oracleFail{setupClass(f.err), f.err})
		return res
	}
	tr, err := s.trace(f)
	if err != "" {
		res.out = "setup-error"
		res.fails = append(res.fails, oracleFail{setupClass(err), err})
		return res
	}
	if k > len(tr) || (j > 0 && k >= len(tr)) {
		res.out = "bad-op"
		return res
	}
	in, err := s.freshCopy(f)
	if err != "" {
		res.out = "setup-error"
		res.fails = append(res.fails, oracleFail{setupClass(err), err})
		return res
	}
	defer os.RemoveAll(in.dir)
	must(os.WriteFile(filepath.Join(in.repo(), "p/x.txt"), []byte("T1\n"), 0o644))
	r := runPlz(in, []string{"//p:t"}, s.cache == "n", s.pre == "cur", "//p:t", k, 0)
	point := "end"
	if k < len(tr) {
		point = tr[k]
		if r.rc != 137 {
			res.out = fmt.Sprintf("kill-missed rc=%d", r.rc)
			res.fails = append(res.fails, oracleFail{"harness-kill-missed", op + " # " + r.out})
			return res
		}
		if got := traceNames(r.log); strings.Join(got, ",") != strings.Join(tr[:k], ",") {
			res.out = "trace-diverged " + strings.Join(got, ",")
			return res
		}
	} else if (r.rc != 0) == s.verifies("T1") {
		res.out = fmt.Sprintf("build-failed rc=%d", r.rc)
		res.fails = append(res.fails, oracleFail{"interrupted-build-failed", op + " # " + r.out})
		return res
	}
	if j > 0 && !s.emulate(f, in, point, j) {
		res.out = "bad-op"
		return res
	}
	s.judge(f, in, &res, op, next, point, j > 0)
	return res
}

// judge reads the target's files back, runs the next plain build of the same / the reverted tree and applies the
// direct oracle: recovered == clean, and the first recovery attempt succeeds.
func (s scn) judge(f *famInfo, in inst, res *caseRes, op, next, point string, inner bool) {
	state, cs, ss := s.showState(f, in)
	tree := "T1"
	if next == "revert" {
		tree = "T0"
	}
	nextStamp := "s1"
	if tree == "T0" {
		nextStamp = "s0"
	}
	rec, rr := s.recover(f, in, tree)
	res.out = state + " | " + rec
	res.nontrivial = true
	res.counts = append(res.counts, "kill-at:"+strings.SplitN(point, ":", 2)[0], "next:"+next, "pre:"+s.pre, "mode:"+s.mode,
		"recovery:"+strings.Fields(rec)[0])
	if inner {
		res.counts = append(res.counts, "inside:"+strings.SplitN(point, ":", 2)[0])
	}
	detail := op + " # state " + state + " # " + rec
	if !s.verifies(tree) && rec != "next=fail-verify final=missing" {
		res.fails = append(res.fails, oracleFail{"unverified-output-trusted-after-crash", detail + " # clean build of " + tree + " fails with Bad output hash; " + lastLine(rr.out)})
	}
	if strings.Contains(rec, "final=stale") {
		class := "recovered-differs-from-clean"
		for i := range s.kinds {
			wrong := cs[i] != map[string]string{"T0": "c0", "T1": "c1"}[tree] && !(s.expected("T0", i) == s.expected("T1", i) && (cs[i] == "c0" || cs[i] == "c1"))
			if !wrong || next != "revert" || ss[i] != nextStamp {
				continue
			}
			if s.usesFb(i) && cs[i] == "c1" {
				class = "fallback-record-survives-output-replacement"
			} else if s.kinds[i] == 'd' && cs[i] == "part" {
				class = "dir-output-keeps-stamp-while-being-removed"
			}
		}
		res.fails = append(res.fails, oracleFail{class, detail})
	}
	if strings.HasPrefix(rec, "next=fail ") {
		class := "recovery-build-fails"
		mdState := strings.TrimPrefix(strings.Fields(state)[0], "md=")
		if strings.Contains(rec, "second=fail") {
			class = "recovery-build-fails-persistently"
		} else if (mdState == "empty" || mdState == "part") && strings.Contains(rr.out, "failed to load build metadata") && s.pb == "p" {
			class = "truncated-metadata-fails-next-build"
		}
		res.fails = append(res.fails, oracleFail{class, detail + " # " + lastLine(rr.out)})
	}
}

// a second, plain build of T1 on what the first kill left, killed at hook point k2 (+ j2 inner steps) as well
func runCrash2(op string, s scn, k1, j1, k2, j2 int, next string) caseRes {
	res := caseRes{op: op}
	f := family(s)
	f.init(s)
	if f.err != "" {
		res.out = "setup-error"
		res.fails = append(res.fails, oracleFail{setupClass(f.err), f.err})
		return res
	}
	tr, err := s.trace(f)
	if err != "" {
		res.out = "setup-error"
		res.fails = append(res.fails, oracleFail{setupClass(err), err})
		return res
	}
	if k1 > len(tr) || (j1 > 0 && k1 >= len(tr)) {
		res.out = "bad-op"
		return res
	}
	in, err := s.freshCopy(f)
	if err != "" {
		res.out = "setup-error"
		res.fails = append(res.fails, oracleFail{setupClass(err), err})
		return res
	}
	defer os.RemoveAll(in.dir)
	must(os.WriteFile(filepath.Join(in.repo(), "p/x.txt"), []byte("T1\n"), 0o644))
	r := runPlz(in, []string{"//p:t"}, s.cache == "n", s.pre == "cur", "//p:t", k1, 0)
	if k1 < len(tr) && r.rc != 137 {
		res.out = fmt.Sprintf("kill-missed rc=%d", r.rc)
		res.fails = append(res.fails, oracleFail{"harness-kill-missed", op + " # " + r.out})
		return res
	}
	if j1 > 0 && !s.emulate(f, in, tr[k1], j1) {
		res.out = "bad-op"
		return res
	}
	// second attempt: a plain build, killed at its k2-th hook point if it gets that far
	r2 := runPlz(in, []string{"//p:t"}, s.cache == "n", false, "//p:t", k2, 0)
	point := "end"
	if r2.rc == 137 {
		for _, l := range r2.log {
			if strings.HasPrefix(l, "KILL ") {
				point = pointName(strings.TrimPrefix(l, "KILL "))
			}
		}
		if j2 > 0 && !s.emulate(f, in, point, j2) {
			res.out = "bad-op"
			return res
		}
	} else if j2 > 0 {
		res.out = "bad-op"
		return res
	}
	res.counts = append(res.counts, "crash2", "crash2-second:"+strings.SplitN(point, ":", 2)[0])
	s.judge(f, in, &res, op, next, point, j2 > 0)
	return res
}

// a plain build of a fresh or fully built repository failed or produced something else than its specification:
// that is a failure of the binary (every scenario depends on it), not of the harness
func setupClass(err string) string {
	switch {
	case strings.HasPrefix(err, "clean build"), strings.HasPrefix(err, "pre-state build"), strings.HasPrefix(err, "trace build"),
		strings.HasPrefix(err, "reference build"):
		return "plain-build-fails-or-differs-from-specification"
	}
	return "harness-setup"
}

func lastLine(s string) string {
	l := strings.Split(strings.TrimSpace(s), "\n")
	return l[len(l)-1]
}

func runTrace(op string, s scn) caseRes {
	res := caseRes{op: op}
	f := family(s)
	f.init(s)
	if f.err != "" {
		res.out = "setup-error"
		res.fails = append(res.fails, oracleFail{setupClass(f.err), f.err})
		return res
	}
	tr, err := s.trace(f)
	if err != "" {
		res.out = "setup-error"
		res.fails = append(res.fails, oracleFail{setupClass(err), err})
		return res
	}
	res.out = strings.Join(tr, ",")
	res.nontrivial = true
	res.counts = append(res.counts, "trace")
	return res
}

func runFbTrunc(op, kinds string, n int) caseRes {
	res := caseRes{op: op}
	s, ok := parseScn("f", "n", "-", kinds, "cur")
	if !ok || n >= 100 {
		res.out = "bad-op"
		return res
	}
	f := family(s)
	f.init(s)
	if f.err != "" {
		res.out = "setup-error"
		res.fails = append(res.fails, oracleFail{setupClass(f.err), f.err})
		return res
	}
	in, err := s.freshCopy(f)
	if err != "" {
		res.out = "setup-error"
		res.fails = append(res.fails, oracleFail{setupClass(err), err})
		return res
	}
	defer os.RemoveAll(in.dir)
	must(os.WriteFile(filepath.Join(in.gen(), ".rule_hash_o0"), f.s1[:n], 0o644))
	rec, rr := s.recover(f, in, "T1")
	res.out = rec
	res.nontrivial = true
	res.counts = append(res.counts, "fbtrunc")
	if rec != "next=rebuild final=clean" {
		res.fails = append(res.fails, oracleFail{"truncated-fallback-record-trusted", op + " # " + rec + " # " + lastLine(rr.out)})
	}
	return res
}

// ---------------------------------------------------------------- timed kills of a multi-target build

type shape struct {
	build string   // BUILD file of package q
	outs  []string // outputs under plz-out/gen/q
	top   []string
}

func mkShape(n int) shape {
	g := func(name, srcs, outs, cmd string) string {
		return fmt.Sprintf("genrule(name=%q, srcs=[%s], outs=[%s], cmd=%q)\n", name, srcs, outs, cmd)
	}
	switch n {
	case 0: // chain
		return shape{g("a", `"x.txt"`, `"a.out"`, "sleep 0.05; (cat $SRCS; echo a) > $OUT") +
			g("b", `":a"`, `"b.out"`, "sleep 0.05; (cat $SRCS; echo b) > $OUT") +
			g("c", `":b"`, `"c.out"`, "sleep 0.05; (cat $SRCS; echo c) > $OUT"),
			[]string{"a.out", "b.out", "c.out"}, []string{"//q:c"}}
	case 1: // diamond with a two-output target and a directory
		return shape{g("a", `"x.txt"`, `"a1.out", "a2.out"`, "sleep 0.03; cat $SRCS > a1.out; sleep 0.03; (cat $SRCS; echo 2) > a2.out") +
			g("b", `":a"`, `"b.out"`, "sleep 0.04; cat $SRCS > $OUT") +
			g("c", `":a", "y.txt"`, `"cdir"`, "mkdir cdir; sleep 0.02; cat $SRCS > cdir/one; sleep 0.02; cat $SRCS > cdir/two") +
			g("d", `":b", ":c"`, `"d.out"`, "sleep 0.03; for f in $SRCS; do if [ -d $f ]; then cat $f/*; else cat $f; fi; done > $OUT"),
			[]string{"a1.out", "a2.out", "b.out", "cdir", "d.out"}, []string{"//q:d"}}
	default: // independent targets of different lengths
		var b strings.Builder
		var outs, top []string
		for i := 0; i < 6; i++ {
			nm := fmt.Sprintf("t%d", i)
			b.WriteString(g(nm, `"x.txt"`, fmt.Sprintf("%q", nm+".out"), fmt.Sprintf("sleep 0.0%d; (cat $SRCS; echo %d) > $OUT", 1+2*i%9, i)))
			outs = append(outs, nm+".out")
			top = append(top, "//q:"+nm)
		}
		return shape{b.String(), outs, top}
	}
}

type tkFam struct {
	once  sync.Once
	tmpl  inst
	clean map[string]string
	ref   time.Duration
	err   string
}

var (
	tkFams = map[string]*tkFam{}
	tkMu   sync.Mutex
)

func tkWrite(in inst, mode string, sh shape, tree string) {
	os.MkdirAll(filepath.Join(in.repo(), "q"), 0o755)
	os.MkdirAll(filepath.Join(in.dir, "home"), 0o755)
	cfg := "[cache]\ndir = ../cache\n"
	if mode == "f" {
		cfg += "[build]\nxattrs = false\n"
	}
	must(os.WriteFile(filepath.Join(in.repo(), ".plzconfig"), []byte(cfg), 0o644))
	must(os.WriteFile(filepath.Join(in.repo(), "q/BUILD"), []byte(sh.build), 0o644))
	must(os.WriteFile(filepath.Join(in.repo(), "q/x.txt"), []byte(tree+"\n"), 0o644))
	must(os.WriteFile(filepath.Join(in.repo(), "q/y.txt"), []byte("y of "+tree+"\n"), 0o644))
}

func tkRender(in inst, sh shape) string {
	var parts []string
	for _, o := range sh.outs {
		parts = append(parts, o+"="+renderTree(filepath.Join(in.repo(), "plz-out/gen/q", o)))
	}
	return strings.Join(parts, ";")
}

func runTkill(op, mode string, shapeN, permille int, next string) caseRes {
	res := caseRes{op: op}
	sh := mkShape(shapeN)
	key := fmt.Sprintf("%s%d", mode, shapeN)
	tkMu.Lock()
	f := tkFams[key]
	if f == nil {
		f = &tkFam{clean: map[string]string{}}
		tkFams[key] = f
	}
	tkMu.Unlock()
	f.once.Do(func() {
		for _, tree := range []string{"T0", "T1"} {
			in := inst{nextDir("tkclean")}
			tkWrite(in, mode, sh, tree)
			r := runPlz(in, sh.top, false, false, "", -1, 0)
			if r.rc != 0 {
				f.err = "clean build failed: " + r.out
				return
			}
			f.clean[tree] = tkRender(in, sh)
			os.RemoveAll(in.dir)
		}
		f.tmpl = inst{nextDir("tktmpl")}
		tkWrite(f.tmpl, mode, sh, "T0")
		if r := runPlz(f.tmpl, sh.top, false, false, "", -1, 0); r.rc != 0 {
			f.err = "pre-state build failed: " + r.out
			return
		}
		// reference duration of the build that will be interrupted
		in := inst{nextDir("tkref")}
		os.RemoveAll(in.dir)
		cpA(f.tmpl.dir, in.dir)
		tkWrite(in, mode, sh, "T1")
		r := runPlz(in, sh.top, false, false, "", -1, 0)
		if r.rc != 0 || tkRender(in, sh) != f.clean["T1"] {
			f.err = "reference build failed or differs from clean: " + r.out
		}
		f.ref = r.dur
		os.RemoveAll(in.dir)
	})
	if f.err != "" {
		res.out = "setup-error"
		res.fails = append(res.fails, oracleFail{setupClass(f.err), f.err})
		return res
	}
	in := inst{nextDir("tk")}
	os.RemoveAll(in.dir)
	cpA(f.tmpl.dir, in.dir)
	defer os.RemoveAll(in.dir)
	tkWrite(in, mode, sh, "T1")
	delay := time.Duration(int64(f.ref) * int64(permille) / 1000)
	if delay <= 0 {
		delay = time.Millisecond
	}
	r := runPlz(in, sh.top, false, false, "", -1, delay)
	killed := r.rc == 137
	tree := "T1"
	if next == "revert" {
		tree = "T0"
	}
	tkWrite(in, mode, sh, tree)
	r1 := runPlz(in, sh.top, false, false, "", -1, 0)
	got := tkRender(in, sh)
	switch {
	case r1.rc != 0:
		r2 := runPlz(in, sh.top, false, false, "", -1, 0)
		res.out = "recovered=FAIL"
		class := "recovery-build-fails"
		if r2.rc != 0 {
			class = "recovery-build-fails-persistently"
		}
		res.fails = append(res.fails, oracleFail{class, op + " # " + lastLine(r1.out)})
	case got != f.clean[tree]:
		res.out = "recovered=DIFF"
		res.fails = append(res.fails, oracleFail{"recovered-differs-from-clean", op + " # got " + got + " # clean " + f.clean[tree]})
	default:
		res.out = "recovered=clean"
	}
	res.nontrivial = killed
	if killed {
		res.counts = append(res.counts, "tkill-killed", fmt.Sprintf("tkill-decile:%d", permille/100))
	} else {
		res.counts = append(res.counts, "tkill-finished-before-kill")
	}
	return res
}

// ---------------------------------------------------------------- fs.WriteFile

type dyingReader struct {
	data  []byte
	chunk int
	limit int // dies when asked for more once `limit` bytes were handed out (limit > len: never)
	pos   int
	how   string
}

func (d *dyingReader) Read(p []byte) (int, error) {
	if d.pos >= d.limit && d.limit <= len(d.data) {
		if d.how == "k" {
			syscall.Kill(os.Getpid(), syscall.SIGKILL)
			select {}
		}
		panic("reader dies")
	}
	if d.pos >= len(d.data) {
		return 0, io.EOF
	}
	n := d.chunk
	if n > len(p) {
		n = len(p)
	}
	if d.pos+n > len(d.data) {
		n = len(d.data) - d.pos
	}
	if d.limit <= len(d.data) && d.pos+n > d.limit {
		n = d.limit - d.pos
	}
	copy(p, d.data[d.pos:d.pos+n])
	d.pos += n
	return n, nil
}

// crash points inside fs.WriteFile (hook src/fs/c32_verif.go): destination path -> "<point>-<p|k>"
var wfPoints sync.Map

func init() {
	fs.WriteFileHookForVerif = func(point, path string) {
		v, ok := wfPoints.Load(path)
		if !ok {
			return
		}
		want := v.(string)
		if !strings.HasPrefix(want, point+"-") {
			return
		}
		if strings.HasSuffix(want, "-k") {
			syscall.Kill(os.Getpid(), syscall.SIGKILL)
			select {}
		}
		panic("WriteFile dies at " + point)
	}
}

func wfChild(dir string, data []byte, mode, chunk, n int, how string) {
	defer func() { recover() }()
	dest := filepath.Join(dir, "dest")
	rd := &dyingReader{data: data, chunk: chunk, limit: n, how: how}
	if strings.Contains(how, "-") { // crash at a point of WriteFile itself: the reader delivers everything
		rd.limit = len(data) + 1
		wfPoints.Store(dest, how)
		defer wfPoints.Delete(dest)
	}
	fs.WriteFile(rd, dest, os.FileMode(mode))
}

func runWf(op string, f []string) caseRes {
	res := caseRes{op: op}
	var old []byte
	hasOld := f[1] != "none"
	if hasOld {
		old = []byte(lib.UnHex(f[1]))
	}
	if f[2] == "none" {
		res.out = "bad-op"
		return res
	}
	data := []byte(lib.UnHex(f[2]))
	mode, e1 := strconv.Atoi(f[3])
	chunk, e2 := strconv.Atoi(f[4])
	n, e3 := strconv.Atoi(f[5])
	how := f[6]
	okHow := map[string]bool{"p": true, "k": true, "close-p": true, "close-k": true, "rename-p": true, "rename-k": true, "renamed-p": true, "renamed-k": true}
	atPoint := strings.Contains(how, "-")
	if e1 != nil || e2 != nil || e3 != nil || chunk <= 0 || !okHow[how] {
		res.out = "bad-op"
		return res
	}
	dir := nextDir("wf")
	defer os.RemoveAll(dir)
	dir = filepath.Join(dir, "sub") // WriteFile creates the directory itself
	if hasOld {
		os.MkdirAll(dir, 0o755)
		must(os.WriteFile(filepath.Join(dir, "dest"), old, 0o644))
		must(os.Chmod(filepath.Join(dir, "dest"), 0o644))
	}
	if strings.HasSuffix(how, "k") {
		cmd := exec.Command(os.Args[0])
		cmd.Env = append(os.Environ(), "C32_WF_CHILD="+strings.Join([]string{dir, f[2], f[3], f[4], f[5], how}, " "))
		cmd.Run()
	} else {
		wfChild(dir, data, mode, chunk, n, how)
	}
	show := func(p string) string {
		st, err := os.Lstat(p)
		if err != nil {
			return "none"
		}
		b, _ := os.ReadFile(p)
		return lib.Hex(string(b)) + ":" + strconv.Itoa(int(st.Mode().Perm()))
	}
	dest := show(filepath.Join(dir, "dest"))
	temp := "none"
	ents, _ := os.ReadDir(dir)
	others := 0
	for _, e := range ents {
		if e.Name() != "dest" {
			others++
			temp = show(filepath.Join(dir, e.Name()))
			if !strings.HasPrefix(e.Name(), "dest") {
				res.fails = append(res.fails, oracleFail{"writefile-stray-file", op + " # " + e.Name()})
			}
		}
	}
	if others > 1 {
		res.fails = append(res.fails, oracleFail{"writefile-stray-file", op + " # several temporaries"})
	}
	res.out = "dest=" + dest + " temp=" + temp
	res.nontrivial = n <= len(data) || atPoint
	// direct oracle: old complete content or new complete content
	em := mode
	if em == 0 {
		em = 0o664
	}
	oldS, newS := "none", lib.Hex(string(data))+":"+strconv.Itoa(em)
	if hasOld {
		oldS = lib.Hex(string(old)) + ":420"
	}
	if dest != oldS && dest != newS {
		res.fails = append(res.fails, oracleFail{"writefile-destination-torn", op + " # dest " + dest})
	}
	if dest != oldS && dest != newS && strings.HasPrefix(dest, lib.Hex(string(data))+":") && len(data) > 0 {
		// complete new content under a mode nobody asked for (the temporary's 0600): a binary output left like this
		// is trusted by its content hash and stays non-executable
		res.fails[len(res.fails)-1].class = "writefile-destination-complete-with-wrong-mode"
	}
	if (n > len(data) && !atPoint && dest != newS) || (strings.HasPrefix(how, "renamed") && dest == oldS && oldS != newS) {
		res.fails = append(res.fails, oracleFail{"writefile-incomplete", op + " # dest " + dest})
	}
	if n <= len(data) || atPoint {
		res.counts = append(res.counts, "wf-crash-"+how)
	} else {
		res.counts = append(res.counts, "wf-complete")
	}
	return res
}

func runGob(op, h string) caseRes {
	res := caseRes{op: op}
	raw, err := hex.DecodeString(h)
	if err != nil {
		res.out = "bad-op"
		return res
	}
	md := &core.BuildMetadata{Stdout: raw}
	if len(raw) > 2 {
		md.OutputDirOuts = []string{string(raw[:1]), hex.EncodeToString(raw[1:3])}
		md.OptionalOutputs = []string{hex.EncodeToString(raw)}
	}
	var buf bytes.Buffer
	must(gob.NewEncoder(&buf).Encode(md))
	b := buf.Bytes()
	n := 0
	for k := 0; k < len(b); k++ {
		if mdDecodes(b[:k]) {
			n++
		}
	}
	if !mdDecodes(b) {
		res.fails = append(res.fails, oracleFail{"gob-roundtrip", op})
	}
	if n > 0 {
		res.fails = append(res.fails, oracleFail{"gob-prefix-decodes", op})
	}
	res.out = fmt.Sprintf("prefix-decodes=%d", n)
	res.nontrivial = len(raw) > 0
	res.counts = append(res.counts, "gob")
	return res
}

// ---------------------------------------------------------------- dispatch

func runOp(op string) caseRes {
	f := strings.Split(op, " ")
	switch {
	case f[0] == "trace" && len(f) == 6:
		if s, ok := parseScn(f[1], f[2], f[3], f[4], f[5]); ok {
			return runTrace(op, s)
		}
	case f[0] == "crash" && len(f) == 9:
		s, ok := parseScn(f[1], f[2], f[3], f[4], f[5])
		k, e1 := strconv.Atoi(f[6])
		j, e2 := strconv.Atoi(f[7])
		if ok && e1 == nil && e2 == nil && k >= 0 && j >= 0 && (f[8] == "same" || f[8] == "revert") {
			return runCrash(op, s, k, j, f[8])
		}
	case f[0] == "crash2" && len(f) == 11:
		s, ok := parseScn(f[1], f[2], f[3], f[4], f[5])
		var v [4]int
		bad := false
		for i := range v {
			n, err := strconv.Atoi(f[6+i])
			if err != nil || n < 0 {
				bad = true
			}
			v[i] = n
		}
		if ok && !bad && (f[10] == "same" || f[10] == "revert") {
			return runCrash2(op, s, v[0], v[1], v[2], v[3], f[10])
		}
	case f[0] == "fbtrunc" && len(f) == 3:
		if n, err := strconv.Atoi(f[2]); err == nil && n >= 0 {
			return runFbTrunc(op, f[1], n)
		}
	case f[0] == "wf" && len(f) == 7:
		return runWf(op, f)
	case f[0] == "gob" && len(f) == 2:
		return runGob(op, f[1])
	case f[0] == "tkill" && len(f) == 6:
		sn, e1 := strconv.Atoi(f[2])
		pm, e2 := strconv.Atoi(f[3])
		if e1 == nil && e2 == nil && (f[1] == "x" || f[1] == "f") && (f[4] == "same" || f[4] == "revert") {
			return runTkill(op, f[1], sn, pm, f[4])
		}
	}
	return caseRes{op: op, out: "bad-op"}
}

func caseTimedOut(c caseRes) bool {
	if timedOut(c.out) {
		return true
	}
	for _, f := range c.fails {
		if timedOut(f.detail) {
			return true
		}
	}
	return false
}

func runAll(r *lib.Run, ops []string, par int) {
	out := make([]caseRes, len(ops))
	var wg sync.WaitGroup
	sem := make(chan struct{}, par)
	for i := range ops {
		wg.Add(1)
		sem <- struct{}{}
		go func(i int) {
			defer wg.Done()
			defer func() { <-sem }()
			out[i] = runOp(ops[i])
			// a plz run that hit the harness's own time limit says nothing about plz: repeat the case alone (3 times)
			for k := 0; k < 3 && caseTimedOut(out[i]); k++ {
				retryMu.Lock()
				out[i] = runOp(ops[i])
				retryMu.Unlock()
			}
		}(i)
	}
	wg.Wait()
	for _, c := range out {
		r.Emit(c.op, c.out, c.nontrivial)
		for _, f := range c.fails {
			r.OracleFail(f.class, c.op, f.detail)
		}
		for _, k := range c.counts {
			r.Count(k)
		}
		if c.out == "setup-error" || strings.HasPrefix(c.out, "kill-missed") {
			fmt.Fprintln(os.Stderr, "C32 harness:", c.op, "->", c.out, c.fails)
		}
	}
}

// cut points of a scenario: (k, j) for every hook point and every emulated inner step
func cutPoints(s scn, tr []string) [][2]int {
	var out [][2]int
	for k := 0; k <= len(tr); k++ {
		out = append(out, [2]int{k, 0})
		if k == len(tr) {
			break
		}
		op, idx := tr[k], ""
		if i := strings.Index(op, ":"); i >= 0 {
			op, idx = op[:i], op[i+1:]
		}
		switch op {
		case "md-write":
			out = append(out, [2]int{k, 1})
		case "out-remove":
			if i, _ := strconv.Atoi(idx); i < len(s.kinds) && s.kinds[i] == 'd' {
				out = append(out, [2]int{k, 1})
			}
		case "stamp-out":
			if i, _ := strconv.Atoi(idx); i < len(s.kinds) && s.usesFb(i) {
				out = append(out, [2]int{k, 1}, [2]int{k, 2})
			}
		case "stamp-md":
			if s.mode == "f" {
				out = append(out, [2]int{k, 1})
			}
		}
	}
	return out
}

func main() {
	if c := os.Getenv("C32_WF_CHILD"); c != "" { // re-executed child of a `wf ... k` case
		f := strings.Split(c, " ")
		mode, _ := strconv.Atoi(f[2])
		chunk, _ := strconv.Atoi(f[3])
		n, _ := strconv.Atoi(f[4])
		how := "k"
		if len(f) > 5 {
			how = f[5]
		}
		wfChild(f[0], []byte(lib.UnHex(f[1])), mode, chunk, n, how)
		os.Exit(0)
	}
	r := lib.Start()
	defer r.Finish()
	r.Rule = "crash/fbtrunc/trace: an end-to-end run on the real binary that reached its kill point; wf: the reader died before the end; tkill: the build was killed before it finished; distinct by op line"
	plz = os.Getenv("VERIF_PLZ")
	scratch = os.Getenv("VERIF_SCRATCH")
	if scratch == "" {
		scratch = r.OutDir
	}
	scratch, _ = filepath.Abs(filepath.Join(scratch, "c32"))
	os.MkdirAll(scratch, 0o755)
	defer os.RemoveAll(scratch)
	par := 10
	if v, err := strconv.Atoi(os.Getenv("C32_PAR")); err == nil && v > 0 {
		par = v
	}
	if ops := r.ReplayOps(); ops != nil {
		runAll(r, ops, par)
		return
	}
	rng := r.Rng
	// ---- scenarios
	var pool []scn
	add := func(mode, cache, pb, kinds, pre string) {
		if s, ok := parseScn(mode, cache, pb, kinds, pre); ok {
			pool = append(pool, s)
		} else {
			panic("bad scenario " + pre)
		}
	}
	for _, mode := range []string{"x", "f"} {
		add(mode, "n", "-", "f", "old:1")
		add(mode, "c", "-", "ff", "old:10")
		add(mode, "n", "-", "ff", "old:11")
		add(mode, "n", "-", "d", "old:1")
		add(mode, "c", "-", "fd", "old:11")
		add(mode, "n", "-", "df", "old:10")
		add(mode, "n", "-", "f", "none")
		add(mode, "n", "-", "ff", "cur")
		add(mode, "n", "p", "f", "cur")
		add(mode, "c", "p", "ff", "old:11")
		add(mode, "n", "p", "d", "cur-rmmd")
		add(mode, "n", "-", "ff", "old-rmout0")
		add(mode, "n", "-", "ff", "cur-rmout0")
		add(mode, "n", "-", "f", "cur-rmmd")
		add(mode, "n", "p", "ff", "old:01")
		add(mode, "c", "-", "fff", "old:101")
		add(mode, "n", "g", "f", "old:1")
		add(mode, "n", "b", "f", "old:1")
		add(mode, "c", "b", "f", "none")
		add(mode, "n", "-", "s", "old:1")
		add(mode, "n", "-", "fs", "old:11")
	}
	nScn := r.N(5, len(pool))
	lib.Shuffle(rng, pool)
	// a target whose declared hashes fail is always among the chosen scenarios (its failure path is short and cheap)
	for i, s := range pool {
		if s.pb == "b" && s.pre == "old" && s.mode == lib.Pick(rng, []string{"x", "f"}) {
			pool[0], pool[i] = pool[i], pool[0]
			break
		}
	}
	chosen := pool[:nScn]
	var ops []string
	for _, s := range chosen {
		ops = append(ops, "trace "+s.toks())
	}
	// phase 1: the traces (also tells the generator where the cut points are)
	runAll(r, ops, par)
	ops = nil
	perScn := r.N(6, 10)
	for _, s := range chosen {
		tr, err := s.trace(family(s))
		if err != "" {
			continue
		}
		cuts := cutPoints(s, tr)
		var must [][2]int
		if s.pb == "b" && len(cuts) > 5 { // the whole failure path: everything from the last move to after RemoveOutputs
			must = append(must, cuts[len(cuts)-5:]...)
			cuts = cuts[:len(cuts)-5]
		}
		lib.Shuffle(rng, cuts)
		if len(cuts)+len(must) > perScn {
			n := perScn - len(must)
			if n < 1 {
				n = 1
			}
			cuts = cuts[:n]
		}
		cuts = append(cuts, must...)
		for _, c := range cuts {
			next := "same"
			if r.Thorough() {
				ops = append(ops, fmt.Sprintf("crash %s %d %d same", s.toks(), c[0], c[1]))
				next = "revert"
			} else if rng.Chance(40) {
				next = "revert"
			}
			ops = append(ops, fmt.Sprintf("crash %s %d %d %s", s.toks(), c[0], c[1], next))
		}
	}
	// two kills in a row
	for i := 0; i < r.N(6, 120) && len(chosen) > 0; i++ {
		s := lib.Pick(rng, chosen)
		tr, err := s.trace(family(s))
		if err != "" {
			continue
		}
		c1 := lib.Pick(rng, cutPoints(s, tr))
		c2 := lib.Pick(rng, cutPoints(s, tr)) // the second run's hook points differ; inner steps that do not apply there are rejected by both sides
		next := "same"
		if rng.Chance(35) {
			next = "revert"
		}
		ops = append(ops, fmt.Sprintf("crash2 %s %d %d %d %d %s", s.toks(), c1[0], c1[1], c2[0], c2[1], next))
	}
	// truncated fallback records
	lens := []int{0, 1, 50, 99}
	if r.Thorough() {
		lens = nil
		for n := 0; n < 100; n++ {
			lens = append(lens, n)
		}
	}
	for _, n := range lens {
		ops = append(ops, fmt.Sprintf("fbtrunc %s %d", lib.Pick(rng, []string{"f", "ff"}), n))
	}
	// timed kills
	for i := 0; i < r.N(8, 120); i++ {
		mode := lib.Pick(rng, []string{"x", "x", "f"})
		sn := rng.Intn(3)
		next := "same"
		if mode == "x" && sn != 1 && rng.Chance(30) { // any later tree: proved for xattr stamps and file outputs
			next = "revert"
		}
		ops = append(ops, fmt.Sprintf("tkill %s %d %d %s %d", mode, sn, 20+rng.Intn(960), next, i))
	}
	// fs.WriteFile: every N for several sizes and chunkings
	type wfc struct {
		old, data string
		mode      int
	}
	wfs := []wfc{{"", "abc", 0}, {"old-content", "hello, world", 0o755}, {"x", strings.Repeat("0123456789", 7), 0o600}, {"previous", "", 0o644}}
	if r.Thorough() {
		wfs = append(wfs, wfc{"old", strings.Repeat("z", 40000), 0}, wfc{"", strings.Repeat("ab", 300), 0o444})
	}
	for _, w := range wfs {
		old := "none"
		if w.old != "" {
			old = lib.Hex(w.old)
		}
		for _, chunk := range []int{1, 3, 1 << 16} {
			step := 1
			if len(w.data) > 1000 {
				step = 997
			}
			for _, pt := range []string{"close", "rename", "renamed"} {
				how := pt + "-p"
				if rng.Chance(r.N(10, 40)) {
					how = pt + "-k"
				}
				ops = append(ops, fmt.Sprintf("wf %s %s %d %d %d %s", old, lib.Hex(w.data), w.mode, chunk, len(w.data)+1, how))
			}
			for n := 0; n <= len(w.data)+1; n += step {
				how := "p"
				if rng.Chance(r.N(4, 25)) {
					how = "k"
				}
				ops = append(ops, fmt.Sprintf("wf %s %s %d %d %d %s", old, lib.Hex(w.data), w.mode, chunk, n, how))
			}
		}
	}
	for i := 0; i < r.N(12, 200); i++ {
		b := make([]byte, 1+rng.Intn(40))
		for j := range b {
			b[j] = byte(rng.Intn(256))
		}
		ops = append(ops, "gob "+hex.EncodeToString(b))
	}
	ops = append(ops, "nonsense", "crash x n - f old:1 x 0 same")
	runAll(r, ops, par)
	_ = sort.Strings
}

// plz is started with few scheduler threads: a one-target build gains nothing from more, and start-up is much cheaper;
// the timed kills of multi-target builds keep four.
func gomaxprocs(killAfter time.Duration) string {
	if killAfter > 0 {
		return "4"
	}
	return "2"
}
