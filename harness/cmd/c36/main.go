// C36 harness: label include/exclude filters of the real code (match/HasLabel/ShouldInclude,
// SetIncludeAndExclude, BuildState.ShouldInclude, ExpandLabels over a graph) against the Lean model, plus a
// direct oracle: the documented selection rule written independently (groups of labels, wildcard prefix,
// implicit test label, exclusion first, exclude build patterns by path component).
package main

import (
	"encoding/hex"
	"fmt"
	"sort"
	"strings"

	"github.com/thought-machine/please/src/core"
	"verif/harness/lib"
)

// ---------------------------------------------------------------- protocol

type tgt struct {
	Pkg, Name string
	Test      bool
	Labels    []string
}

type pkg struct {
	Name    string
	Targets []tgt
}

func unhex(s string) (string, bool) {
	if s == "-" {
		return "", true
	}
	b, err := hex.DecodeString(s)
	if err != nil || len(s) == 0 || strings.ToLower(s) != s {
		return "", false
	}
	return string(b), true
}

func parseList(s, sep string) ([]string, bool) {
	if s == "_" {
		return nil, true
	}
	var out []string
	for _, x := range strings.Split(s, sep) {
		v, ok := unhex(x)
		if !ok {
			return nil, false
		}
		out = append(out, v)
	}
	return out, true
}

func showList(xs []string, sep string) string {
	if len(xs) == 0 {
		return "_"
	}
	p := make([]string, len(xs))
	for i, x := range xs {
		p[i] = lib.Hex(x)
	}
	return strings.Join(p, sep)
}

func parseTarget(pk, s string) (tgt, bool) {
	f := strings.Split(s, "~")
	if len(f) != 3 || (f[1] != "t" && f[1] != "n") {
		return tgt{}, false
	}
	n, ok1 := unhex(f[0])
	ls, ok2 := parseList(f[2], "+")
	return tgt{pk, n, f[1] == "t", ls}, ok1 && ok2
}

func showTarget(t tgt) string {
	k := "n"
	if t.Test {
		k = "t"
	}
	return lib.Hex(t.Name) + "~" + k + "~" + showList(t.Labels, "+")
}

func parsePkgs(s string) ([]pkg, bool) {
	if s == "_" {
		return nil, true
	}
	var out []pkg
	for _, ps := range strings.Split(s, ";") {
		f := strings.Split(ps, "=")
		if len(f) != 2 {
			return nil, false
		}
		n, ok := unhex(f[0])
		if !ok {
			return nil, false
		}
		p := pkg{Name: n}
		if f[1] != "_" {
			for _, ts := range strings.Split(f[1], "/") {
				t, ok := parseTarget(n, ts)
				if !ok {
					return nil, false
				}
				p.Targets = append(p.Targets, t)
			}
		}
		out = append(out, p)
	}
	return out, true
}

func showPkgs(ps []pkg) string {
	if len(ps) == 0 {
		return "_"
	}
	var out []string
	for _, p := range ps {
		ts := "_"
		if len(p.Targets) > 0 {
			var x []string
			for _, t := range p.Targets {
				x = append(x, showTarget(t))
			}
			ts = strings.Join(x, "/")
		}
		out = append(out, lib.Hex(p.Name)+"="+ts)
	}
	return strings.Join(out, ";")
}

func showLabel(l core.BuildLabel) string {
	return lib.Hex(l.PackageName) + ":" + lib.Hex(l.Name) + ":" + lib.Hex(l.Subrepo)
}

func bit(b bool) string {
	if b {
		return "1"
	}
	return "0"
}

// ---------------------------------------------------------------- independent specification

func carries(t tgt, lab string) bool {
	for _, l := range t.Labels {
		if l == lab {
			return true
		}
		if n := len(lab); n > 0 && lab[n-1] == '*' && len(l) >= n-1 && l[:n-1] == lab[:n-1] {
			return true
		}
	}
	return lab == "test" && t.Test
}

func groupHolds(t tgt, g string) bool {
	for _, lab := range strings.Split(g, ",") {
		if !carries(t, lab) {
			return false
		}
	}
	return true
}

func under(p, q string) bool {
	if p == "" {
		return true
	}
	pc, qc := strings.Split(p, "/"), strings.Split(q, "/")
	if len(pc) > len(qc) {
		return false
	}
	for i := range pc {
		if pc[i] != qc[i] {
			return false
		}
	}
	return true
}

func patternSelects(e core.BuildLabel, pk, name string) bool {
	switch e.Name {
	case "...":
		return under(e.PackageName, pk)
	case "all":
		return e.PackageName == pk
	}
	return e.PackageName == pk && e.Name == name
}

// selected: the documented rule; label-like excludes are build patterns, the others label groups.
func selected(t tgt, inc, exc []string, pats []core.BuildLabel) bool {
	ok := len(inc) == 0
	for _, g := range inc {
		if groupHolds(t, g) {
			ok = true
		}
	}
	for _, g := range exc {
		if groupHolds(t, g) {
			return false
		}
	}
	for _, e := range pats {
		if patternSelects(e, t.Pkg, t.Name) {
			return false
		}
	}
	return ok
}

func looksLikeLabel(s string) bool {
	return strings.HasPrefix(s, "//") || strings.HasPrefix(s, ":") || (strings.HasPrefix(s, "@") && strings.ContainsAny(s, ":") || strings.HasPrefix(s, "@") && strings.Contains(s, "//"))
}

// splitExcludes: which excludes are build patterns; ok=false when the real code would need a repo root or die.
func splitExcludes(exc []string) (groups []string, pats []core.BuildLabel, ok bool) {
	for _, e := range exc {
		if looksLikeLabel(e) {
			if strings.HasPrefix(e, ":") {
				return nil, nil, false
			}
			l, err := core.TryParseBuildLabel(e, "", "")
			if err != nil {
				return nil, nil, false
			}
			pats = append(pats, l)
		} else {
			groups = append(groups, e)
		}
	}
	return groups, pats, true
}

// ---------------------------------------------------------------- real code

var state *core.BuildState

func mkTarget(t tgt) *core.BuildTarget {
	bt := core.NewBuildTarget(core.BuildLabel{PackageName: t.Pkg, Name: t.Name})
	bt.Labels = append([]string{}, t.Labels...)
	if t.Test {
		bt.Test = &core.TestFields{}
	}
	return bt
}

func setFilters(inc, exc []string) {
	if state == nil {
		state = core.NewBuildState(core.DefaultConfiguration())
	}
	state.ExcludeTargets = nil // SetIncludeAndExclude appends
	state.SetIncludeAndExclude(inc, exc)
}

type H struct{ r *lib.Run }

func (h *H) runOp(op string) {
	r := h.r
	f := strings.Split(op, " ")
	bad := func() { r.Emit(op, "bad-op", false) }
	switch {
	case f[0] == "m" && len(f) == 3:
		p, ok1 := unhex(f[1])
		s, ok2 := unhex(f[2])
		if !(ok1 && ok2) {
			bad()
			return
		}
		t := tgt{"", "x", false, []string{s}}
		got := mkTarget(t).HasLabel(p)
		if got != carries(t, p) {
			r.OracleFail("match-deviates", op, fmt.Sprintf("match(%q,%q)=%v", p, s, got))
		}
		r.Count("m-" + bit(got))
		r.Emit(op, bit(got), got && p != s)
	case f[0] == "hl" && len(f) == 3:
		t, ok1 := parseTarget("", f[1])
		lab, ok2 := unhex(f[2])
		if !(ok1 && ok2) {
			bad()
			return
		}
		got := mkTarget(t).HasLabel(lab)
		if got != carries(t, lab) {
			r.OracleFail("has-label-deviates", op, fmt.Sprintf("HasLabel(%q) on %+v = %v", lab, t, got))
		}
		r.Emit(op, bit(got), got)
	case f[0] == "si" && len(f) == 4:
		t, ok1 := parseTarget("", f[1])
		inc, ok2 := parseList(f[2], ",")
		exc, ok3 := parseList(f[3], ",")
		if !(ok1 && ok2 && ok3) {
			bad()
			return
		}
		got := mkTarget(t).ShouldInclude(inc, exc)
		if want := selected(t, inc, exc, nil); got != want {
			cls := "filter-deviates"
			if got && !want {
				cls = "filter-exclusion-not-applied"
			}
			r.OracleFail(cls, op, fmt.Sprintf("ShouldInclude(%q,%q) on %+v = %v, documented rule %v", inc, exc, t, got, want))
		}
		r.Count("si-" + bit(got))
		r.Emit(op, bit(got), len(inc)+len(exc) > 0)
	case f[0] == "ss" && len(f) == 5:
		pk, ok0 := unhex(f[1])
		t, ok1 := parseTarget(pk, f[2])
		inc, ok2 := parseList(f[3], ",")
		exc, ok3 := parseList(f[4], ",")
		if !(ok0 && ok1 && ok2 && ok3) {
			bad()
			return
		}
		groups, pats, ok := splitExcludes(exc)
		if !ok {
			bad()
			return
		}
		setFilters(inc, exc)
		got := state.ShouldInclude(mkTarget(t))
		if want := selected(t, inc, groups, pats); got != want {
			cls := "filter-deviates"
			for _, e := range pats {
				if !got && want && e.Name == "..." && e.PackageName != "" && strings.HasPrefix(t.Pkg, e.PackageName) && !under(e.PackageName, t.Pkg) {
					cls = "exclude-pattern-string-prefix"
				}
			}
			r.OracleFail(cls, op, fmt.Sprintf("state.ShouldInclude with include %q exclude %q on %+v = %v, documented rule %v", inc, exc, t, got, want))
		}
		r.Count("ss-" + bit(got))
		if len(pats) > 0 {
			r.Count("ss-with-pattern")
		}
		r.Emit(op, bit(got), len(inc)+len(exc) > 0)
	case f[0] == "ex" && len(f) == 6:
		fp := strings.Split(f[1], ":")
		if len(fp) != 3 || (f[2] != "0" && f[2] != "1") {
			bad()
			return
		}
		pp, ok0 := unhex(fp[0])
		pn, ok1 := unhex(fp[1])
		psub, ok2 := unhex(fp[2])
		inc, ok3 := parseList(f[3], ",")
		exc, ok4 := parseList(f[4], ",")
		pkgs, ok5 := parsePkgs(f[5])
		if !(ok0 && ok1 && ok2 && ok3 && ok4 && ok5) || (pn != "..." && pn != "all") {
			bad()
			return
		}
		seenP := map[string]bool{}
		for _, p := range pkgs {
			if seenP[p.Name] {
				bad()
				return
			}
			seenP[p.Name] = true
			seenT := map[string]bool{}
			for _, t := range p.Targets {
				if seenT[t.Name] {
					bad()
					return
				}
				seenT[t.Name] = true
			}
		}
		groups, pats, ok := splitExcludes(exc)
		if !ok {
			bad()
			return
		}
		setFilters(inc, exc)
		state.Graph = core.NewGraph()
		state.NeedTests = f[2] == "1"
		lib.Shuffle(r.Rng, pkgs) // insertion order must not matter
		for _, p := range pkgs {
			cp := core.NewPackage(p.Name)
			for _, t := range p.Targets {
				bt := mkTarget(t)
				cp.AddTarget(bt)
				state.Graph.AddTarget(bt)
			}
			state.Graph.AddPackage(cp)
		}
		pat := core.BuildLabel{PackageName: pp, Name: pn, Subrepo: psub}
		got := state.ExpandLabels([]core.BuildLabel{pat})
		// documented result
		var want core.BuildLabels
		npk := 0
		for _, p := range pkgs {
			selPkg := (pn == "all" && p.Name == pp && psub == "") || (pn == "..." && under(pp, p.Name))
			if !selPkg {
				continue
			}
			npk++
			for _, t := range p.Targets {
				if selected(t, inc, groups, pats) && (f[2] == "0" || t.Test) {
					want = append(want, core.BuildLabel{PackageName: t.Pkg, Name: t.Name})
				}
			}
		}
		sort.Sort(want)
		show := func(ls core.BuildLabels) string {
			if len(ls) == 0 {
				return "_"
			}
			p := make([]string, len(ls))
			for i, l := range ls {
				p[i] = showLabel(l)
			}
			return strings.Join(p, ",")
		}
		out := show(got)
		if out != show(want) {
			r.OracleFail("expand-deviates", op, fmt.Sprintf("ExpandLabels(%v) = %v, documented rule %v", pat, got, want))
		}
		total := 0
		for _, p := range pkgs {
			total += len(p.Targets)
		}
		r.Count("ex")
		if len(got) > 0 && len(got) < total {
			r.Count("ex-proper-subset")
		}
		if npk > 0 && npk < len(pkgs) {
			r.Count("ex-some-packages")
		}
		r.Emit(op, out, len(got) > 0 && len(got) < total)
	default:
		bad()
	}
}

// ---------------------------------------------------------------- generators

func allStrings(alpha string, maxLen int, f func(string)) {
	var rec func(cur []byte, n int)
	rec = func(cur []byte, n int) {
		f(string(cur))
		if n == 0 {
			return
		}
		for i := 0; i < len(alpha); i++ {
			rec(append(cur, alpha[i]), n-1)
		}
	}
	rec(nil, maxLen)
}

var labelPool = []string{"go", "go_test", "golang", "py", "manual", "test", "lib", "a", "ab", "a*", "", "x,y", "cc:inc", "é"}
var groupPool = []string{"go", "go*", "g*", "*", "py", "manual", "test", "test*", "go,lib", "go*,manual", "a", "a*", "ab", "", "go,", ",", "a**", "lib,test", "nope", "te*"}
var pkgComps = []string{"a", "b", "ab", "a.b", "p", "pfoo", "third_party", "third_partyx", "go", "x"}

func genLabels(g *lib.Rng) []string {
	n := g.Intn(4)
	var out []string
	for i := 0; i < n; i++ {
		out = append(out, lib.Pick(g, labelPool))
	}
	return out
}

func genGroups(g *lib.Rng, max int) []string {
	n := g.Intn(max + 1)
	var out []string
	for i := 0; i < n; i++ {
		out = append(out, lib.Pick(g, groupPool))
	}
	return out
}

func genPkgName(g *lib.Rng) string {
	n := g.Intn(3)
	if n == 0 && g.Chance(20) {
		return ""
	}
	var p []string
	for i := 0; i <= n; i++ {
		p = append(p, lib.Pick(g, pkgComps))
	}
	return strings.Join(p, "/")
}

func genPkgs(g *lib.Rng) []pkg {
	n := 1 + g.Intn(6)
	seen := map[string]bool{}
	var out []pkg
	add := func(name string) {
		if seen[name] {
			return
		}
		seen[name] = true
		p := pkg{Name: name}
		used := map[string]bool{}
		for i := 0; i < g.Intn(5); i++ {
			nm := lib.Pick(g, []string{"x", "y", "lib", "t", "_x#y", "all_", "z"})
			if used[nm] {
				continue
			}
			used[nm] = true
			p.Targets = append(p.Targets, tgt{name, nm, g.Chance(35), genLabels(g)})
		}
		out = append(out, p)
	}
	for len(out) < n {
		nm := genPkgName(g)
		add(nm)
		if nm != "" && g.Chance(50) {
			switch g.Intn(3) {
			case 0:
				add(nm + "/" + lib.Pick(g, pkgComps))
			case 1:
				add(nm + lib.Pick(g, []string{"foo", "x", "_", "2"}))
			default:
				if i := strings.LastIndexByte(nm, '/'); i > 0 {
					add(nm[:i])
				}
			}
		}
	}
	return out
}

func genExcludes(g *lib.Rng, pkgs []pkg) []string {
	out := genGroups(g, 2)
	for i := 0; i < g.Intn(3); i++ {
		p := ""
		if len(pkgs) > 0 {
			p = lib.Pick(g, pkgs).Name
		}
		if g.Chance(30) {
			if j := strings.LastIndexByte(p, '/'); j > 0 {
				p = p[:j]
			}
		}
		var e string
		switch g.Intn(5) {
		case 0:
			e = "//" + p + ":all"
		case 1:
			e = "//" + p + ":" + lib.Pick(g, []string{"x", "y", "lib", "t"})
		case 2:
			e = "//" + p
		default:
			if p == "" {
				e = "//..."
			} else {
				e = "//" + p + "/..."
			}
		}
		if _, err := core.TryParseBuildLabel(e, "", ""); err == nil {
			out = append(out, e)
		}
	}
	lib.Shuffle(g, out)
	return out
}

func main() {
	r := lib.Start()
	defer r.Finish()
	h := &H{r}
	r.Rule = "m: wildcard match; si/ss: at least one filter given; ex: a proper non-empty subset of the graph's targets is selected; distinct by op line"
	if ops := r.ReplayOps(); ops != nil {
		for _, op := range ops {
			h.runOp(op)
		}
		return
	}
	g := r.Rng
	// 1. match: all (pattern, label) pairs over a small alphabet
	var ss []string
	allStrings("ab*,", r.N(3, 4), func(s string) { ss = append(ss, s) })
	for _, p := range ss {
		for _, s := range ss {
			h.runOp("m " + lib.Hex(p) + " " + lib.Hex(s))
		}
	}
	// 2. BuildTarget.ShouldInclude: all targets with labels from {a, ab, b} x test flag, all include lists of
	//    length <= 2 and exclude lists of length <= 1 (thorough: <= 2) over a pool of groups
	pool := []string{"a", "b", "a,b", "a*", "test", "", "*", "a,", "b,test", "c"}
	var lists1, lists2 [][]string
	lists1 = append(lists1, nil)
	lists2 = append(lists2, nil)
	for _, x := range pool {
		lists1 = append(lists1, []string{x})
		lists2 = append(lists2, []string{x})
		for _, y := range pool {
			lists2 = append(lists2, []string{x, y})
		}
	}
	excl := lists1
	if r.Thorough() {
		excl = lists2
	}
	for mask := 0; mask < 8; mask++ {
		for _, test := range []bool{false, true} {
			var ls []string
			for i, l := range []string{"a", "ab", "b"} {
				if mask&(1<<i) != 0 {
					ls = append(ls, l)
				}
			}
			t := tgt{"", "x", test, ls}
			for _, inc := range lists2 {
				for _, exc := range excl {
					h.runOp("si " + showTarget(t) + " " + showList(inc, ",") + " " + showList(exc, ","))
				}
			}
		}
	}
	r.Exhaust = true
	// 3. HasLabel on random targets
	for i := 0; i < r.N(2000, 20000); i++ {
		t := tgt{"", "x", g.Chance(40), genLabels(g)}
		h.runOp("hl " + showTarget(t) + " " + lib.Hex(lib.Pick(g, groupPool)))
	}
	// 4. state.ShouldInclude with label groups and build-pattern excludes; expansion of :all and /... over graphs
	for i := 0; i < r.N(3000, 40000); i++ {
		pkgs := genPkgs(g)
		inc := genGroups(g, 2)
		exc := genExcludes(g, pkgs)
		p := lib.Pick(g, pkgs)
		if len(p.Targets) > 0 {
			t := lib.Pick(g, p.Targets)
			h.runOp("ss " + lib.Hex(p.Name) + " " + showTarget(t) + " " + showList(inc, ",") + " " + showList(exc, ","))
		}
		pp := p.Name
		if g.Chance(30) {
			if j := strings.LastIndexByte(pp, '/'); j > 0 {
				pp = pp[:j]
			}
		}
		if g.Chance(10) {
			pp = ""
		}
		pn := lib.Pick(g, []string{"...", "...", "all"})
		sub := "-"
		if g.Chance(4) {
			sub = lib.Hex("s")
		}
		h.runOp("ex " + lib.Hex(pp) + ":" + lib.Hex(pn) + ":" + sub + " " + bit(g.Chance(25)) + " " + showList(inc, ",") + " " + showList(exc, ",") + " " + showPkgs(pkgs))
	}
}
