// C30 harness: process.Executor.ExecWithTimeout on generated bash scripts (leader and background children
// that ignore SIGTERM, hold or give up the output pipes, exit early or never) against the Lean supervisor
// model (Model/Exec.lean, runScript), plus the direct oracle: a timed-out action returns within a generous
// bound and leaves no member of its process group alive; no action leaves anything alive after it was
// reported finished.  Survivors are found by a unique marker in /proc/<pid>/environ and killed by pid.
package main

import (
	"bytes"
	"context"
	"errors"
	"fmt"
	"os"
	"path/filepath"
	"strconv"
	"strings"
	"sync"
	"syscall"
	"time"

	logging "gopkg.in/op/go-logging.v1"

	"github.com/thought-machine/please/src/process"
	"verif/harness/lib"
)

type Child struct {
	ExitAt int // ms after start; "never" = far beyond every bound
	Pipe   bool
	Ign    bool
}

type Case struct {
	T         int // timeout, ms
	LeaderAt  int
	LeaderIgn bool
	Children  []Child
}

func b2s(b bool) string {
	if b {
		return "1"
	}
	return "0"
}

func (c *Case) op(kind string) string {
	ch := "_"
	if len(c.Children) > 0 {
		p := make([]string, len(c.Children))
		for i, x := range c.Children {
			p[i] = fmt.Sprintf("%d:%s:%s", x.ExitAt, b2s(x.Pipe), b2s(x.Ign))
		}
		ch = strings.Join(p, ",")
	}
	return fmt.Sprintf("%s %d %d %s %s", kind, c.T, c.LeaderAt, b2s(c.LeaderIgn), ch)
}

func parseCase(f []string) (*Case, bool) {
	if len(f) != 5 {
		return nil, false
	}
	nat := func(s string) (int, bool) {
		n, err := strconv.Atoi(s)
		return n, err == nil && n >= 0 && strconv.Itoa(n) == s && n <= 600000
	}
	bit := func(s string) (bool, bool) { return s == "1", s == "0" || s == "1" }
	c := &Case{}
	var ok bool
	if c.T, ok = nat(f[1]); !ok {
		return nil, false
	}
	if c.LeaderAt, ok = nat(f[2]); !ok {
		return nil, false
	}
	if c.LeaderIgn, ok = bit(f[3]); !ok {
		return nil, false
	}
	if f[4] != "_" {
		for _, x := range strings.Split(f[4], ",") {
			g := strings.Split(x, ":")
			if len(g) != 3 {
				return nil, false
			}
			var ch Child
			if ch.ExitAt, ok = nat(g[0]); !ok {
				return nil, false
			}
			if ch.Pipe, ok = bit(g[1]); !ok {
				return nil, false
			}
			if ch.Ign, ok = bit(g[2]); !ok {
				return nil, false
			}
			c.Children = append(c.Children, ch)
		}
	}
	return c, true
}

func secs(ms int) string { return fmt.Sprintf("%d.%03d", ms/1000, ms%1000) }

// script: children first (so that the leader's own `trap '' TERM` is not inherited by them), then the
// leader becomes its own sleep via exec (no extra foreground process).
func (c *Case) script() string {
	var b strings.Builder
	for _, ch := range c.Children {
		b.WriteString("( ")
		if ch.Ign {
			b.WriteString("trap '' TERM; ")
		}
		b.WriteString("exec sleep " + secs(ch.ExitAt) + " )")
		if !ch.Pipe {
			b.WriteString(" >/dev/null 2>&1")
		}
		b.WriteString(" &\n")
	}
	if c.LeaderIgn {
		b.WriteString("trap '' TERM\n")
	}
	if c.LeaderAt == 0 {
		b.WriteString("exit 0\n")
	} else {
		b.WriteString("exec sleep " + secs(c.LeaderAt) + "\n")
	}
	return b.String()
}

type result struct {
	timedOut  bool
	errStr    string
	elapsed   time.Duration
	survivors int
}

var markSeq int
var markMu sync.Mutex

// findMarked returns the live (non-zombie) processes whose environment carries the marker.
func findMarked(mark string) []int {
	var pids []int
	ents, _ := os.ReadDir("/proc")
	for _, e := range ents {
		pid, err := strconv.Atoi(e.Name())
		if err != nil {
			continue
		}
		env, err := os.ReadFile(filepath.Join("/proc", e.Name(), "environ"))
		if err != nil || !bytes.Contains(env, []byte(mark)) {
			continue
		}
		st, err := os.ReadFile(filepath.Join("/proc", e.Name(), "stat"))
		if err != nil {
			continue
		}
		if i := bytes.LastIndexByte(st, ')'); i >= 0 && i+2 < len(st) && (st[i+2] == 'Z' || st[i+2] == 'X') {
			continue
		}
		pids = append(pids, pid)
	}
	return pids
}

func runCase(c *Case) result {
	markMu.Lock()
	markSeq++
	mark := fmt.Sprintf("C30MARK=%d-%d-%d", os.Getpid(), time.Now().UnixNano(), markSeq)
	markMu.Unlock()
	ex := process.New()
	argv := process.BashCommand("bash", c.script(), false)
	t0 := time.Now()
	_, _, err := ex.ExecWithTimeout(context.Background(), nil, "", []string{mark, "PATH=/usr/bin:/bin"}, time.Duration(c.T)*time.Millisecond, false, false, false, false, process.NoSandbox, argv)
	r := result{elapsed: time.Since(t0)}
	if err != nil {
		r.errStr = err.Error()
		r.timedOut = errors.Is(err, context.DeadlineExceeded)
	}
	// give signals already sent a moment to take effect, then look who is still there
	time.Sleep(600 * time.Millisecond)
	pids := findMarked(mark)
	r.survivors = len(pids)
	for _, p := range pids {
		syscall.Kill(p, syscall.SIGKILL)
	}
	return r
}

const never = 60000

// predict mirrors the model only to decide which cases deserve a re-run (scheduling noise); what is emitted
// is always the real outcome.
func predict(c *Case) (timedOut bool, survivors int) {
	waitDone := c.LeaderAt
	for _, ch := range c.Children {
		if ch.Pipe && ch.ExitAt > waitDone {
			waitDone = ch.ExitAt
		}
	}
	if waitDone < c.T {
		for _, ch := range c.Children {
			if ch.ExitAt > waitDone+1000 {
				survivors++
			}
		}
		return false, survivors
	}
	return true, 0
}

func outcome(r result) string {
	k := "normal"
	if r.timedOut {
		k = "timeout"
	} else if r.errStr != "" {
		k = "error"
	}
	return fmt.Sprintf("%s;survivors=%d", k, r.survivors)
}

func judge(r *lib.Run, c *Case, op string, res result, rerun func() result) result {
	// direct oracle, stated on the real code only
	check := func(x result) (string, string) {
		if x.timedOut {
			bound := time.Duration(c.T+30+1000)*time.Millisecond + 4000*time.Millisecond
			if x.elapsed > bound {
				return "timeout-reported-too-late", fmt.Sprintf("timeout %d ms, reported after %v (generous bound %v)", c.T, x.elapsed, bound)
			}
			if x.survivors > 0 {
				return "group-member-survives-timeout", fmt.Sprintf("%d marked processes alive after the timed-out action returned", x.survivors)
			}
		} else if x.survivors > 0 {
			return "background-child-survives-normal-exit", fmt.Sprintf("action reported finished (%s) after %v, %d marked processes still running", outcome(x), x.elapsed, x.survivors)
		}
		return "", ""
	}
	cls, det := check(res)
	if cls == "timeout-reported-too-late" || cls == "group-member-survives-timeout" {
		// a miss is re-run alone three times before it counts
		misses := 1
		for i := 0; i < 3; i++ {
			x := rerun()
			if c2, d2 := check(x); c2 == cls {
				misses++
				det = d2
			} else {
				res = x
			}
		}
		if misses < 4 {
			r.Count("oracle-miss-not-reproduced:" + cls)
			cls, det = check(res)
		}
	}
	if cls != "" {
		r.OracleFail(cls, op, det)
	} else {
		r.Count("oracle-pass")
	}
	return res
}

func process1(r *lib.Run, op string, first *result) {
	f := strings.Split(op, " ")
	c, ok := parseCase(f)
	if !ok || (f[0] != "x" && f[0] != "xr") {
		r.Emit(op, "bad-op", false)
		return
	}
	var res result
	if first != nil {
		res = *first
	} else {
		res = runCase(c)
	}
	if f[0] == "x" {
		pt, ps := predict(c)
		for i := 0; i < 3 && (res.timedOut != pt || res.survivors != ps); i++ {
			r.Count("rerun-alone")
			res = runCase(c)
		}
	}
	res = judge(r, c, op, res, func() result { return runCase(c) })
	r.Count("outcome:" + outcome(res))
	if f[0] == "xr" {
		r.Emit(op, "-", false) // racy by construction: oracle only
		return
	}
	r.Emit(op, outcome(res), true)
}

func genCase(g *lib.Rng) *Case {
	c := &Case{T: lib.Pick(g, []int{2000, 2500, 3000})} // early exits are at most 200 ms: >= 1.8 s of margin for start-up latency
	early := func() int { return lib.Pick(g, []int{0, 100, 200}) } // well before every deadline
	c.LeaderAt = early()
	if g.Chance(50) {
		c.LeaderAt = never
	}
	if c.LeaderAt != 0 {
		c.LeaderIgn = g.Chance(40)
	}
	n := lib.Pick(g, []int{0, 1, 1, 2, 2, 3})
	for i := 0; i < n; i++ {
		ch := Child{ExitAt: never, Pipe: g.Chance(50), Ign: g.Chance(40)}
		if g.Chance(25) {
			ch.ExitAt = lib.Pick(g, []int{100, 200})
		}
		c.Children = append(c.Children, ch)
	}
	return c
}

func main() {
	logging.SetLevel(logging.CRITICAL, "")
	r := lib.Start()
	defer r.Finish()
	r.Rule = "x: every case (distinct by op line)"
	if ops := r.ReplayOps(); ops != nil {
		for _, op := range ops {
			process1(r, op, nil)
		}
		return
	}
	g := r.Rng
	var ops []string
	seen := map[string]bool{}
	add := func(op string) {
		if !seen[op] {
			seen[op] = true
			ops = append(ops, op)
		}
	}
	// fixed shapes first: the ones the property names
	for _, t := range []int{2000, 2600} {
		add((&Case{T: t, LeaderAt: never}).op("x"))                                                             // plain timeout
		add((&Case{T: t, LeaderAt: never, LeaderIgn: true}).op("x"))                                            // ignores SIGTERM
		add((&Case{T: t, LeaderAt: never, LeaderIgn: true, Children: []Child{{never, true, true}}}).op("x"))    // TERM-ignoring tree holding the pipes
		add((&Case{T: t, LeaderAt: 0, Children: []Child{{never, true, false}}}).op("x"))                        // grandchild holds the pipe: Wait blocks until the timeout
		add((&Case{T: t, LeaderAt: 0, Children: []Child{{never, false, false}}}).op("x"))                       // sleep N >/dev/null 2>&1 & exit 0
		add((&Case{T: t, LeaderAt: 100, Children: []Child{{never, false, true}, {200, true, false}}}).op("x")) // mixed
		add((&Case{T: t, LeaderAt: t}).op("xr"))                                                                // exits right at the deadline
		add((&Case{T: t, LeaderAt: t, Children: []Child{{t, true, false}}}).op("xr"))
	}
	for len(ops) < r.N(36, 240) {
		c := genCase(g)
		add(c.op("x"))
	}
	// run in parallel batches; anything that looks off is re-run alone afterwards
	par := 8
	firsts := make([]result, len(ops))
	var wg sync.WaitGroup
	sem := make(chan struct{}, par)
	for i, op := range ops {
		c, _ := parseCase(strings.Split(op, " "))
		wg.Add(1)
		sem <- struct{}{}
		go func(i int, c *Case) {
			defer wg.Done()
			firsts[i] = runCase(c)
			<-sem
		}(i, c)
	}
	wg.Wait()
	for i, op := range ops {
		process1(r, op, &firsts[i])
	}
}
