// C17 harness: see verif/harness/asplib/c17.go.
package main

import "verif/harness/asplib"

func main() { asplib.MainC17() }
