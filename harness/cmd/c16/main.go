// C16 harness: see verif/harness/asplib/c16.go.
package main

import "verif/harness/asplib"

func main() { asplib.MainC16() }
