// C28 harness: the real dirBuilder (through src/remote/c28_verif.go) and buildEnv against the Lean model
// (Driver/C28.lean), plus the direct oracle: every emitted directory message is sorted and duplicate-free,
// and the result does not depend on the order in which a consistent set of entries was inserted.
package main

import (
	"encoding/hex"
	"fmt"
	"sort"
	"strings"

	"github.com/thought-machine/please/src/cli"
	"github.com/thought-machine/please/src/remote"
	"verif/harness/lib"
)

// ---------------------------------------------------------------- ops

type op struct {
	kind   byte     // d f n s
	path   []string // directory path components ([] = root)
	name   string
	dg     string // token; "nil" for a nil digest (dir nodes only)
	exec   bool
	target string
}

func hexs(s string) string {
	if s == "" {
		return "-"
	}
	return hex.EncodeToString([]byte(s))
}

func pathTok(p []string) string {
	if len(p) == 0 {
		return "."
	}
	h := make([]string, len(p))
	for i, c := range p {
		h[i] = hexs(c)
	}
	return strings.Join(h, "/")
}

func (o op) String() string {
	switch o.kind {
	case 'd':
		return "d:" + pathTok(o.path)
	case 'f':
		x := "0"
		if o.exec {
			x = "1"
		}
		return fmt.Sprintf("f:%s:%s:%s:%s", pathTok(o.path), hexs(o.name), o.dg, x)
	case 'n':
		return fmt.Sprintf("n:%s:%s:%s", pathTok(o.path), hexs(o.name), o.dg)
	default:
		return fmt.Sprintf("s:%s:%s:%s", pathTok(o.path), hexs(o.name), hexs(o.target))
	}
}

func opLine(ops []op) string {
	t := make([]string, len(ops))
	for i, o := range ops {
		t[i] = o.String()
	}
	return "db " + strings.Join(t, " ")
}

func unhex(s string) (string, bool) {
	if s == "" {
		return "", false
	}
	if s == "-" {
		return "", true
	}
	b, err := hex.DecodeString(s)
	return string(b), err == nil
}

func okToken(s string) bool {
	if s == "" {
		return false
	}
	for _, c := range s {
		if !(c >= '0' && c <= '9' || c >= 'a' && c <= 'z' || c >= 'A' && c <= 'Z') {
			return false
		}
	}
	return true
}

func parsePath(s string) ([]string, bool) {
	if s == "." {
		return nil, true
	}
	var out []string
	for _, c := range strings.Split(s, "/") {
		x, ok := unhex(c)
		if !ok {
			return nil, false
		}
		out = append(out, x)
	}
	return out, true
}

func parseOps(toks []string) ([]op, bool) {
	var out []op
	for _, t := range toks {
		if t == "" {
			continue
		}
		f := strings.Split(t, ":")
		var o op
		var ok, ok2, ok3 bool
		switch {
		case f[0] == "d" && len(f) == 2:
			o.kind = 'd'
			o.path, ok = parsePath(f[1])
			ok2, ok3 = true, true
		case f[0] == "f" && len(f) == 5:
			o.kind = 'f'
			o.path, ok = parsePath(f[1])
			o.name, ok2 = unhex(f[2])
			o.dg = f[3]
			o.exec = f[4] == "1"
			ok3 = okToken(f[3]) && (f[4] == "0" || f[4] == "1")
		case f[0] == "n" && len(f) == 4:
			o.kind = 'n'
			o.path, ok = parsePath(f[1])
			o.name, ok2 = unhex(f[2])
			o.dg = f[3]
			ok3 = okToken(f[3])
		case f[0] == "s" && len(f) == 4:
			o.kind = 's'
			o.path, ok = parsePath(f[1])
			o.name, ok2 = unhex(f[2])
			o.target, ok3 = unhex(f[3])
		}
		if !ok || !ok2 || !ok3 {
			return nil, false
		}
		out = append(out, o)
	}
	return out, true
}

// ---------------------------------------------------------------- the real code

type built struct {
	panicked bool
	root     remote.VerifDir
	emitted  []remote.VerifDir
}

func dirArg(p []string, style int) string {
	if len(p) == 0 {
		if style%2 == 0 {
			return "."
		}
		return ""
	}
	s := strings.Join(p, "/")
	if style%3 == 1 {
		s += "/" // dir() trims one trailing slash
	}
	return s
}

func runReal(ops []op, style int) (res built) {
	defer func() {
		if recover() != nil {
			res = built{panicked: true}
		}
	}()
	b := remote.NewVerifDirBuilder()
	for i, o := range ops {
		d := dirArg(o.path, style+i)
		switch o.kind {
		case 'd':
			b.EnsureDir(d)
		case 'f':
			b.AddFile(d, o.name, o.dg, 1, o.exec)
		case 'n':
			if o.dg == "nil" {
				b.AddDirNode(d, o.name, "", 0)
			} else {
				b.AddDirNode(d, o.name, o.dg, 1)
			}
		case 's':
			b.AddSymlink(d, o.name, o.target)
		}
	}
	root, em, err := b.Build()
	if err != nil {
		panic(err)
	}
	return built{root: root, emitted: em}
}

func hexName(s string) string { return hexs(s) }

// render prints a directory message the way Model/DirBuilder.lean `ser` does; digests of emitted messages
// are replaced by the rendering of that message (the model's digest function is the rendering itself).
func render(d remote.VerifDir, known map[string]string) string {
	dg := func(s string) string {
		if s == "" {
			return "nil"
		}
		if r, ok := known[s]; ok {
			return r
		}
		return strings.TrimSuffix(s, "/1") // given digests are <token>/1
	}
	var f, n, y []string
	for _, x := range d.Files {
		e := "0"
		if x.Exec {
			e = "1"
		}
		f = append(f, hexName(x.Name)+":"+dg(x.Digest)+":"+e)
	}
	for _, x := range d.Dirs {
		n = append(n, hexName(x.Name)+":"+dg(x.Digest))
	}
	for _, x := range d.Symlinks {
		y = append(y, hexName(x.Name)+">"+hexName(x.Target))
	}
	return "(" + strings.Join(f, ",") + ";" + strings.Join(n, ",") + ";" + strings.Join(y, ",") + ")"
}

func (b built) String() string {
	if b.panicked {
		return "panic"
	}
	known := map[string]string{}
	set := map[string]bool{}
	for _, d := range b.emitted { // post-order: children arrive before their parents
		r := render(d, known)
		known[d.Digest] = r
		set[r] = true
	}
	em := make([]string, 0, len(set))
	for r := range set {
		em = append(em, r)
	}
	sort.Strings(em)
	return "root=" + render(b.root, known) + " em=" + strings.Join(em, "+")
}

// ---------------------------------------------------------------- direct oracle

// canonical: each list strictly ascending by name (bytewise); with crossKind also no name in two lists.
func canonical(d remote.VerifDir, crossKind bool) string {
	seen := map[string]bool{}
	for _, l := range [][]remote.VerifNode{d.Files, d.Dirs, d.Symlinks} {
		for i, x := range l {
			if i > 0 && !(l[i-1].Name < x.Name) {
				return fmt.Sprintf("entries %q, %q out of order or duplicated", l[i-1].Name, x.Name)
			}
			if crossKind && seen[x.Name] {
				return fmt.Sprintf("name %q appears under two kinds", x.Name)
			}
			seen[x.Name] = true
		}
	}
	return ""
}

// consistent: what "a set of inputs" means for the property - a path has one kind and one content, names are
// non-empty, directory nodes with a digest do not coincide with directories that are also built up from entries.
func consistent(ops []op) bool {
	type key struct{ dir, name string }
	kind := map[key]byte{}
	node := map[key]string{}
	dirs := map[string]bool{"": true}
	for _, o := range ops {
		for i := 1; i <= len(o.path); i++ {
			dirs[strings.Join(o.path[:i], "/")] = true
		}
		for _, c := range o.path {
			if c == "" {
				return false
			}
		}
	}
	for _, o := range ops {
		if o.kind == 'd' {
			continue
		}
		if o.name == "" || (o.kind == 'n' && o.dg == "nil") {
			return false
		}
		k := key{strings.Join(o.path, "/"), o.name}
		s := o.String()
		if kd, ok := kind[k]; ok && (kd != o.kind || node[k] != s) {
			return false
		}
		kind[k], node[k] = o.kind, s
	}
	for k, kd := range kind {
		full := k.name
		if k.dir != "" {
			full = k.dir + "/" + k.name
		}
		if dirs[full] { // a file/symlink/digest node that is also a directory being built
			_ = kd
			return false
		}
	}
	return true
}

func permutations(n int, f func(p []int) bool) {
	p := make([]int, n)
	for i := range p {
		p[i] = i
	}
	var rec func(k int) bool
	rec = func(k int) bool {
		if k == n {
			return f(p)
		}
		for i := k; i < n; i++ {
			p[k], p[i] = p[i], p[k]
			if !rec(k + 1) {
				return false
			}
			p[k], p[i] = p[i], p[k]
		}
		return true
	}
	rec(0)
}

func oracleDb(r *lib.Run, line string, ops []op, res built) {
	cons := consistent(ops)
	if res.panicked {
		if cons {
			r.OracleFail("panic-on-consistent-input", line, "")
		}
		return
	}
	for _, d := range append([]remote.VerifDir{res.root}, res.emitted...) {
		if why := canonical(d, cons); why != "" {
			cls := "directory-not-canonical"
			if !cons {
				cls = "directory-list-not-sorted"
			}
			r.OracleFail(cls, line, why)
			break
		}
	}
	if !cons {
		return
	}
	// insertion order must not matter: all permutations up to 6 entries, a seeded sample above
	want := res.String()
	check := func(p []int) bool {
		q := make([]op, len(ops))
		for i, j := range p {
			q[i] = ops[j]
		}
		if got := runReal(q, 0).String(); got != want {
			r.OracleFail("insertion-order-dependent", line, "other order: "+opLine(q)+" gives "+got+" instead of "+want)
			return false
		}
		return true
	}
	if len(ops) <= 6 {
		permutations(len(ops), check)
		r.Count("oracle-all-permutations")
	} else {
		idx := make([]int, len(ops))
		for i := range idx {
			idx[i] = i
		}
		for k := 0; k < 20; k++ {
			lib.Shuffle(r.Rng, idx)
			if !check(idx) {
				break
			}
		}
		r.Count("oracle-sampled-permutations")
	}
}

// ---------------------------------------------------------------- env

func runEnv(r *lib.Run, line string, f []string) {
	if len(f) < 5 || (f[1] != "0" && f[1] != "1") || (f[2] != "0" && f[2] != "1") {
		r.Emit(line, "bad-op", false)
		return
	}
	dec := unhex
	loc, ok1 := dec(f[3])
	home, ok2 := dec(f[4])
	if !ok1 || !ok2 {
		r.Emit(line, "bad-op", false)
		return
	}
	env := map[string]string{}
	for _, kv := range f[5:] {
		p := strings.Split(kv, "=")
		if len(p) != 2 {
			r.Emit(line, "bad-op", false)
			return
		}
		k, ok1 := dec(p[0])
		v, ok2 := dec(p[1])
		if !ok1 || !ok2 {
			r.Emit(line, "bad-op", false)
			return
		}
		env[k] = v
	}
	call := func() [][2]string {
		e := map[string]string{}
		for k, v := range env {
			e[k] = v
		}
		return remote.VerifBuildEnv(e, f[1] == "1", f[2] == "1", loc, home)
	}
	vars := call()
	out := make([]string, len(vars))
	for i, v := range vars {
		out[i] = hexName(v[0]) + "=" + hexName(v[1])
		if i > 0 && !(vars[i-1][0] < v[0]) {
			r.OracleFail("env-not-sorted", line, fmt.Sprint(vars))
		}
	}
	// Go map iteration order differs between calls: the result must not
	for k := 0; k < 5; k++ {
		if fmt.Sprint(call()) != fmt.Sprint(vars) {
			r.OracleFail("env-order-dependent", line, "")
		}
	}
	s := strings.Join(out, " ")
	if s == "" {
		s = "-"
	}
	r.Emit(line, s, len(vars) >= 2)
}

// ---------------------------------------------------------------- driver

func runOp(r *lib.Run, line string) {
	f := strings.Split(line, " ")
	switch f[0] {
	case "db":
		ops, ok := parseOps(f[1:])
		if !ok {
			r.Emit(line, "bad-op", false)
			return
		}
		res := runReal(ops, int(r.Rng.Intn(6)))
		oracleDb(r, line, ops, res)
		r.Emit(line, res.String(), len(ops) >= 2)
	case "env":
		runEnv(r, line, f)
	default:
		r.Emit(line, "bad-op", false)
	}
}

var names = []string{"a", "b", "ab", "a.b", "a-b", "B", "Z", "z", "_", "é", "日", "a b", "0", "10", "9", "aa", "a\x00"}
var digests = []string{"d1", "d2", "d3"}

type entry struct {
	o op
}

// genSet builds a consistent set of entries over a small tree; dupP percent of the entries are repeated verbatim.
func genSet(r *lib.Run, n int, dupP int) []op {
	dirs := [][]string{nil}
	used := map[string]byte{} // full path -> kind
	full := func(p []string, n string) string { return strings.Join(append(append([]string{}, p...), n), "/") }
	var ops []op
	for tries := 0; len(ops) < n && tries < 50*n; tries++ {
		if len(ops) > 0 && r.Rng.Chance(dupP) {
			ops = append(ops, lib.Pick(r.Rng, ops))
			r.Count("dup-entry")
			continue
		}
		p := lib.Pick(r.Rng, dirs)
		nm := lib.Pick(r.Rng, names)
		fp := full(p, nm)
		switch k := r.Rng.Intn(10); {
		case k < 2: // a new sub-directory (possibly several levels)
			if used[fp] != 0 && used[fp] != 'D' {
				continue
			}
			used[fp] = 'D'
			np := append(append([]string{}, p...), nm)
			dirs = append(dirs, np)
			if r.Rng.Bool() {
				ops = append(ops, op{kind: 'd', path: np})
			}
		case k < 7:
			if used[fp] != 0 {
				continue
			}
			used[fp] = 'f'
			ops = append(ops, op{kind: 'f', path: p, name: nm, dg: lib.Pick(r.Rng, digests), exec: r.Rng.Bool()})
		case k < 8:
			if used[fp] != 0 {
				continue
			}
			used[fp] = 'n'
			ops = append(ops, op{kind: 'n', path: p, name: nm, dg: lib.Pick(r.Rng, digests)})
		default:
			if used[fp] != 0 {
				continue
			}
			used[fp] = 's'
			ops = append(ops, op{kind: 's', path: p, name: nm, target: lib.Pick(r.Rng, []string{"../x", "a", "/abs"})})
		}
	}
	return ops
}

// genWild: no consistency - same name under several kinds, different contents, empty names, nil digests.
func genWild(r *lib.Run, n int) []op {
	var ops []op
	small := []string{"a", "b", "c", ""}
	for i := 0; i < n; i++ {
		var p []string
		for d := r.Rng.Intn(3); d > 0; d-- {
			p = append(p, lib.Pick(r.Rng, small[:3]))
		}
		nm := lib.Pick(r.Rng, small)
		if nm == "" && !r.Rng.Chance(20) {
			nm = "a"
		}
		switch r.Rng.Intn(8) {
		case 0:
			ops = append(ops, op{kind: 'd', path: append(p, lib.Pick(r.Rng, small[:3]))})
		case 1, 2, 3:
			ops = append(ops, op{kind: 'f', path: p, name: nm, dg: lib.Pick(r.Rng, digests), exec: r.Rng.Bool()})
		case 4, 5:
			dg := lib.Pick(r.Rng, digests)
			if r.Rng.Chance(10) && nm != "" { // a nil-digest node named "" makes walk() recurse on the same directory for ever
				dg = "nil"
			}
			ops = append(ops, op{kind: 'n', path: p, name: nm, dg: dg})
		default:
			ops = append(ops, op{kind: 's', path: p, name: nm, target: lib.Pick(r.Rng, []string{"x", "y"})})
		}
	}
	return ops
}

func main() {
	cli.InitLogging(cli.MinVerbosity)
	r := lib.Start()
	defer r.Finish()
	r.Rule = "db: at least two insertions; env: at least two variables; distinct by op line"
	if ops := r.ReplayOps(); ops != nil {
		for _, l := range ops {
			runOp(r, l)
		}
		return
	}
	// (1) consistent sets of up to 5 (quick) / 6 (thorough) entries, EVERY permutation as its own op line
	//     (the model is compared on each; the oracle compares the real results across all of them)
	maxN := r.N(5, 6)
	for s := 0; s < r.N(30, 60); s++ {
		n := 2 + r.Rng.Intn(maxN-1)
		set := genSet(r, n, 25)
		permutations(len(set), func(p []int) bool {
			q := make([]op, len(set))
			for i, j := range p {
				q[i] = set[j]
			}
			runOp(r, opLine(q))
			r.Count("perm-exhaustive")
			return true
		})
	}
	r.Exhaust = true
	// (2) larger consistent sets (several directory levels, many duplicates, > 12 entries per directory so that
	//     sort.Slice leaves its insertion-sort regime), random orders
	for i := 0; i < r.N(300, 4000); i++ {
		n := 7 + r.Rng.Intn(30)
		set := genSet(r, n, lib.Pick(r.Rng, []int{0, 20, 50}))
		lib.Shuffle(r.Rng, set)
		runOp(r, opLine(set))
		r.Count("consistent-large")
	}
	// (3) inconsistent input: the model still has to agree (stable sort below 12 elements, shared `last`)
	for i := 0; i < r.N(1500, 20000); i++ {
		runOp(r, opLine(genWild(r, 1+r.Rng.Intn(9))))
		r.Count("wild")
	}
	// (4) environment variables
	envNames := []string{"PATH", "A", "B", "AB", "a", "_X", "HOME", "SANDBOX", "_BINARY", "PATHX", "Z", "é"}
	for i := 0; i < r.N(300, 3000); i++ {
		lib.Shuffle(r.Rng, envNames)
		k := r.Rng.Intn(len(envNames))
		toks := []string{"env", fmt.Sprint(r.Rng.Intn(2)), fmt.Sprint(r.Rng.Intn(2)), hexName("/opt/plz"), hexName("/home/u")}
		for _, nme := range envNames[:k] {
			v := lib.Pick(r.Rng, []string{"", "x", "true", "/bin:/home/u/bin:/usr/bin", "/opt/plz:/bin", "/home/u", ":/bin:", "/home/user2/x:/opt/plz/y"})
			toks = append(toks, hexName(nme)+"="+hexName(v))
		}
		runOp(r, strings.Join(toks, " "))
		r.Count("env")
	}
	for _, l := range []string{"db f:.:61", "db x:.", "db f:.:zz:d1:0", "env 1", "nonsense", "db f:.:61:d-1:0"} {
		runOp(r, l)
		r.Count("malformed")
	}
}
