// C26 harness: the real result parsers (test.ParseTestResultsForVerif: format dispatch, encoding/xml,
// go-junit-report), the real summary counters / Add / AllSucceeded of core.TestSuite, against the Lean model
// (Driver/C26.lean) and against an independent reading of the outcome set (the direct oracle).
package main

import (
	"encoding/hex"
	"fmt"
	"os"
	"os/exec"
	"path/filepath"
	"regexp"
	"strconv"
	"strings"
	"sync"
	"time"

	"github.com/thought-machine/please/src/cli"
	"github.com/thought-machine/please/src/core"
	"github.com/thought-machine/please/src/test"
	"verif/harness/lib"
)

// ---------------------------------------------------------------- canonical form

func hx(s string) string {
	if s == "" {
		return "-"
	}
	return hex.EncodeToString([]byte(s))
}

func unhx(s string) (string, bool) {
	if s == "-" {
		return "", true
	}
	if s == "" {
		return "", false
	}
	b, err := hex.DecodeString(s)
	return string(b), err == nil
}

func execMask(e core.TestExecution) int {
	m := 0
	if e.Failure != nil {
		m |= 1
	}
	if e.Error != nil {
		m |= 2
	}
	if e.Skip != nil {
		m |= 4
	}
	return m
}

func showCases(cs core.TestCases) string {
	if len(cs) == 0 {
		return "-"
	}
	p := make([]string, len(cs))
	for i, c := range cs {
		e := ""
		for _, x := range c.Executions {
			e += strconv.Itoa(execMask(x))
		}
		if e == "" {
			e = "-"
		}
		p[i] = hx(c.ClassName) + "." + hx(c.Name) + "." + e
	}
	return strings.Join(p, ";")
}

func b2i(b bool) int {
	if b {
		return 1
	}
	return 0
}

func summary(s *core.TestSuite) string {
	return fmt.Sprintf("cases=%s tests=%d pass=%d fail=%d err=%d skip=%d flaky=%d all=%d", showCases(s.TestCases),
		s.Tests(), s.Passes(), s.Failures(), s.Errors(), s.Skips(), s.FlakyPasses(), b2i(s.TestCases.AllSucceeded()))
}

// ---------------------------------------------------------------- abstract cases (counts / flake ops)

type acase struct {
	cls, name string
	execs     []int // masks
}

func mkExec(m int) core.TestExecution {
	e := core.TestExecution{}
	if m&1 != 0 {
		e.Failure = &core.TestResultFailure{Message: "f"}
	}
	if m&2 != 0 {
		e.Error = &core.TestResultFailure{Message: "e"}
	}
	if m&4 != 0 {
		e.Skip = &core.TestResultSkip{Message: "s"}
	}
	return e
}

func (a acase) real() core.TestCase {
	c := core.TestCase{ClassName: a.cls, Name: a.name}
	for _, m := range a.execs {
		c.Executions = append(c.Executions, mkExec(m))
	}
	return c
}

func (a acase) String() string {
	e := ""
	for _, m := range a.execs {
		e += strconv.Itoa(m)
	}
	if e == "" {
		e = "-"
	}
	return hx(a.cls) + "." + hx(a.name) + "." + e
}

func showA(cs []acase) string {
	if len(cs) == 0 {
		return "-"
	}
	p := make([]string, len(cs))
	for i, c := range cs {
		p[i] = c.String()
	}
	return strings.Join(p, ";")
}

func parseA(s string) ([]acase, bool) {
	if s == "-" {
		return nil, true
	}
	var out []acase
	for _, t := range strings.Split(s, ";") {
		f := strings.Split(t, ".")
		if len(f) != 3 {
			return nil, false
		}
		c, ok1 := unhx(f[0])
		n, ok2 := unhx(f[1])
		if !ok1 || !ok2 {
			return nil, false
		}
		a := acase{cls: c, name: n}
		if f[2] != "-" {
			if f[2] == "" {
				return nil, false
			}
			for _, ch := range f[2] {
				if ch < '0' || ch > '7' {
					return nil, false
				}
				a.execs = append(a.execs, int(ch-'0'))
			}
		}
		out = append(out, a)
	}
	return out, true
}

// spec: what the property says about a list of cases, independent of the code's counters.
type specCounts struct{ tests, pass, fail, err, skip, flaky, all int }

func specOf(cs []acase) (specCounts, bool) {
	s := specCounts{tests: len(cs), all: 1}
	wellFormed := true
	for _, c := range cs {
		succ, skip, f, e := false, false, false, false
		if len(c.execs) == 0 {
			wellFormed = false
		}
		for _, m := range c.execs {
			switch m {
			case 0:
				succ = true
			case 1:
				f = true
			case 2:
				e = true
			case 4:
				skip = true
			default:
				wellFormed = false
			}
		}
		switch {
		case skip:
			s.skip++
		case succ && (f || e):
			s.flaky++ // passed, but only after a retry
		case succ:
			s.pass++
		case e:
			s.err++
		case f:
			s.fail++
		}
		if !succ && !skip {
			s.all = 0 // passes exactly when every case passed or was skipped (within the allowance)
		}
	}
	return s, wellFormed
}

func (s specCounts) String() string {
	return fmt.Sprintf("tests=%d pass=%d fail=%d err=%d skip=%d flaky=%d all=%d", s.tests, s.pass, s.fail, s.err, s.skip, s.flaky, s.all)
}

func realCounts(s *core.TestSuite) specCounts {
	return specCounts{s.Tests(), s.Passes(), s.Failures(), s.Errors(), s.Skips(), s.FlakyPasses(), b2i(s.TestCases.AllSucceeded())}
}

// cleanReruns: cases that have a success, more than one execution and nothing that makes them flaky-only.
func cleanReruns(cs []acase) int {
	n := 0
	for _, c := range cs {
		succ, skip, fe := false, false, false
		for _, m := range c.execs {
			if m == 0 {
				succ = true
			}
			if m&4 != 0 {
				skip = true
			}
			if m&3 != 0 {
				fe = true
			}
		}
		if succ && len(c.execs) > 1 && (skip || !fe) {
			n++
		}
	}
	return n
}

func compareCounts(r *lib.Run, line string, want specCounts, got specCounts, merged []acase) {
	if want == got {
		return
	}
	w2 := want
	w2.flaky += cleanReruns(merged)
	if w2 == got {
		r.OracleFail("flaky-count-includes-clean-reruns", line, "property: "+want.String()+"  real: "+got.String())
		return
	}
	r.OracleFail("summary-mismatch", line, "property: "+want.String()+"  real: "+got.String())
}

// ---------------------------------------------------------------- documents (parse op)

type xcase struct {
	cls, name      string
	mask           int // failure 1, error 2, skipped 4
	ff, fe, rf, re int
}

type doc struct {
	kind    byte // x t g
	layout  string
	suites  [][]xcase // for kind t: the cases of every suite of the trees, flattened
	gcases  []gcase
	trees   []*stree
	deepest int // kind t: depth (root = 1) of the deepest suite holding a case
}

func (d *doc) setTrees(ts []*stree) {
	d.trees = ts
	d.suites = nil
	d.deepest = 0
	for _, t := range ts {
		t.flatten(1, &d.suites, &d.deepest)
	}
}

type gcase struct {
	name string
	res  byte // P F S U
}

func (x xcase) String() string {
	return fmt.Sprintf("%s.%s.%d%d%d%d%d", hx(x.cls), hx(x.name), x.mask, x.ff, x.fe, x.rf, x.re)
}

func (d doc) String() string {
	if d.kind == 't' {
		p := make([]string, len(d.trees))
		for i, t := range d.trees {
			p[i] = t.String()
		}
		return "t:" + d.layout + ":" + strings.Join(p, "")
	}
	if d.kind == 'g' {
		if len(d.gcases) == 0 {
			return "g:-"
		}
		p := make([]string, len(d.gcases))
		for i, c := range d.gcases {
			p[i] = hx(c.name) + "." + string(c.res)
		}
		return "g:" + strings.Join(p, ";")
	}
	ss := make([]string, len(d.suites))
	for i, s := range d.suites {
		if len(s) == 0 {
			ss[i] = "-"
			continue
		}
		p := make([]string, len(s))
		for j, c := range s {
			p[j] = c.String()
		}
		ss[i] = strings.Join(p, ";")
	}
	return "x:" + d.layout + ":" + strings.Join(ss, "/")
}

func parseXcases(s string) ([]xcase, bool) {
	var cs []xcase
	if s == "-" {
		return nil, true
	}
	for _, c := range strings.Split(s, ";") {
		p := strings.Split(c, ".")
		if len(p) != 3 || len(p[2]) != 5 {
			return nil, false
		}
		cl, ok1 := unhx(p[0])
		nm, ok2 := unhx(p[1])
		if !ok1 || !ok2 {
			return nil, false
		}
		var n [5]int
		for i, ch := range p[2] {
			if ch < '0' || ch > '9' {
				return nil, false
			}
			n[i] = int(ch - '0')
		}
		if n[0] > 7 {
			return nil, false
		}
		cs = append(cs, xcase{cl, nm, n[0], n[1], n[2], n[3], n[4]})
	}
	return cs, true
}

// stree is a <testsuite> with its own cases and any number of nested <testsuite> children, to any depth.
type stree struct {
	cases []xcase
	kids  []*stree
}

func (t *stree) String() string {
	var b strings.Builder
	b.WriteString("(")
	if len(t.cases) == 0 {
		b.WriteString("-")
	} else {
		p := make([]string, len(t.cases))
		for i, c := range t.cases {
			p[i] = c.String()
		}
		b.WriteString(strings.Join(p, ";"))
	}
	for _, k := range t.kids {
		b.WriteString(k.String())
	}
	b.WriteString(")")
	return b.String()
}

// flatten lists the cases of every suite of the tree (own cases first, then the children in order) and the
// depth of the deepest suite that holds a case.
func (t *stree) flatten(depth int, out *[][]xcase, deepest *int) {
	*out = append(*out, t.cases)
	if len(t.cases) > 0 && depth > *deepest {
		*deepest = depth
	}
	for _, k := range t.kids {
		k.flatten(depth+1, out, deepest)
	}
}

func parseTrees(s string) ([]*stree, bool) {
	type frame struct {
		txt  strings.Builder
		node *stree
	}
	var stack []*frame
	var roots []*stree
	for _, ch := range s {
		switch ch {
		case '(':
			stack = append(stack, &frame{node: &stree{}})
		case ')':
			if len(stack) == 0 {
				return nil, false
			}
			top := stack[len(stack)-1]
			stack = stack[:len(stack)-1]
			cs, ok := parseXcases(top.txt.String())
			if !ok {
				return nil, false
			}
			top.node.cases = cs
			if len(stack) == 0 {
				roots = append(roots, top.node)
			} else {
				p := stack[len(stack)-1]
				p.node.kids = append(p.node.kids, top.node)
			}
		default:
			if len(stack) == 0 || len(stack[len(stack)-1].node.kids) > 0 {
				return nil, false
			}
			stack[len(stack)-1].txt.WriteRune(ch)
		}
	}
	if len(stack) != 0 || len(roots) == 0 {
		return nil, false
	}
	return roots, true
}

func renderTree(b *strings.Builder, t *stree, name string, style uint64, indent string) {
	renderSuiteOpen(b, name, len(t.cases), style, indent)
	half := len(t.cases)
	if style&256 != 0 {
		half = len(t.cases) / 2 // some of the suite's own cases after its child suites
	}
	for _, c := range t.cases[:half] {
		renderCase(b, c, style, indent+" ")
	}
	for i, k := range t.kids {
		renderTree(b, k, name+"."+strconv.Itoa(i), style, indent+" ")
	}
	for _, c := range t.cases[half:] {
		renderCase(b, c, style, indent+" ")
	}
	b.WriteString(indent + "</testsuite>\n")
}

func renderTrees(d doc, style uint64) string {
	var b strings.Builder
	if d.layout == "trees" {
		b.WriteString(`<?xml version="1.0" encoding="UTF-8"?>` + "\n" + `<testsuites name="all">` + "\n")
		for i, t := range d.trees {
			renderTree(&b, t, "root"+strconv.Itoa(i), style, " ")
		}
		b.WriteString("</testsuites>\n")
	} else {
		if style&128 != 0 {
			b.WriteString(`<?xml version="1.0"?>` + "\n")
		}
		renderTree(&b, d.trees[0], "root", style, "")
	}
	return b.String()
}

func parseDoc(t string) (doc, bool) {
	f := strings.Split(t, ":")
	switch {
	case len(f) == 3 && f[0] == "x":
		d := doc{kind: 'x', layout: f[1]}
		switch f[1] {
		case "flat", "suites", "bare", "nested":
		default:
			return d, false
		}
		for _, s := range strings.Split(f[2], "/") {
			cs, ok := parseXcases(s)
			if !ok {
				return d, false
			}
			d.suites = append(d.suites, cs)
		}
		if d.layout == "bare" { // an empty file is "No results", not an empty suite
			n := 0
			for _, s := range d.suites {
				n += len(s)
			}
			if n == 0 {
				return d, false
			}
		}
		return d, true
	case len(f) == 3 && f[0] == "t":
		d := doc{kind: 't', layout: f[1]}
		ts, ok := parseTrees(f[2])
		if !ok || (f[1] != "tree" && f[1] != "trees") || (f[1] == "tree" && len(ts) != 1) {
			return d, false
		}
		d.setTrees(ts)
		return d, true
	case len(f) == 2 && f[0] == "g":
		d := doc{kind: 'g'}
		if f[1] != "-" {
			for _, c := range strings.Split(f[1], ";") {
				p := strings.Split(c, ".")
				if len(p) != 2 || len(p[1]) != 1 || !strings.Contains("PFSU", p[1]) {
					return d, false
				}
				nm, ok := unhx(p[0])
				if !ok {
					return d, false
				}
				d.gcases = append(d.gcases, gcase{nm, p[1][0]})
			}
		}
		return d, true
	}
	return doc{}, false
}

func esc(s string) string {
	var b strings.Builder
	for _, r := range s {
		switch r {
		case '&':
			b.WriteString("&amp;")
		case '<':
			b.WriteString("&lt;")
		case '>':
			b.WriteString("&gt;")
		case '"':
			b.WriteString("&quot;")
		case '\'':
			b.WriteString("&apos;")
		case '\n':
			b.WriteString("&#10;")
		case '\t':
			b.WriteString("&#9;")
		default:
			b.WriteRune(r)
		}
	}
	return b.String()
}

// renderCase writes one <testcase>; style varies child order, self-closing tags, extra elements and attributes.
func renderCase(b *strings.Builder, x xcase, style uint64, indent string) {
	fmt.Fprintf(b, `%s<testcase name="%s"`, indent, esc(x.name))
	if x.cls != "" || style&1 != 0 {
		fmt.Fprintf(b, ` classname="%s"`, esc(x.cls))
	}
	if style&2 != 0 {
		b.WriteString(` time="0.125" assertions="3"`)
	}
	var kids []string
	if x.mask&1 != 0 {
		kids = append(kids, `<failure type="AssertionError" message="1 &lt; 2 &amp; &quot;x&quot;"><![CDATA[Traceback <most recent> & more]]></failure>`)
	}
	if x.mask&2 != 0 {
		kids = append(kids, `<error type="E" message="boom">trace &amp; <b>markup</b></error>`)
	}
	if x.mask&4 != 0 {
		if style&4 != 0 {
			kids = append(kids, `<skipped/>`)
		} else {
			kids = append(kids, `<skipped message="not &lt;now&gt;"></skipped>`)
		}
	}
	var extra []string
	for i := 0; i < x.ff; i++ {
		extra = append(extra, `<flakyFailure type="T" message="flaky">tb<system-out>o</system-out></flakyFailure>`)
	}
	for i := 0; i < x.fe; i++ {
		extra = append(extra, `<flakyError type="T">tb</flakyError>`)
	}
	for i := 0; i < x.rf; i++ {
		extra = append(extra, `<rerunFailure type="T" time="0.5">tb</rerunFailure>`)
	}
	for i := 0; i < x.re; i++ {
		extra = append(extra, `<rerunError type="T"/>`)
	}
	if style&8 != 0 { // interleave: the decoder collects children by tag, document order across tags is irrelevant
		for i, j := 0, len(extra)-1; i < j; i, j = i+1, j-1 {
			extra[i], extra[j] = extra[j], extra[i]
		}
		kids = append(extra, kids...)
	} else {
		kids = append(kids, extra...)
	}
	if style&16 != 0 {
		kids = append(kids, `<system-out>out &amp; about</system-out>`, `<system-err></system-err>`)
	}
	if len(kids) == 0 && style&32 != 0 {
		b.WriteString("/>\n")
		return
	}
	b.WriteString(">")
	for _, k := range kids {
		b.WriteString(k)
	}
	b.WriteString("</testcase>\n")
}

func renderSuiteOpen(b *strings.Builder, name string, n int, style uint64, indent string) {
	fmt.Fprintf(b, `%s<testsuite name="%s" tests="%d" failures="0" errors="0" package="pkg.sub" time="1.5" timestamp="2026-01-01T00:00:00">`+"\n", indent, esc(name), n)
	if style&64 != 0 {
		fmt.Fprintf(b, `%s <properties><property name="k" value="v &amp; w"/><property name="cached" value="false"/></properties>`+"\n", indent)
	}
}

func renderXML(d doc, style uint64) string {
	var b strings.Builder
	if style&128 != 0 || d.layout == "suites" {
		b.WriteString(`<?xml version="1.0" encoding="UTF-8"?>` + "\n")
	}
	switch d.layout {
	case "flat":
		n := 0
		for _, s := range d.suites {
			n += len(s)
		}
		renderSuiteOpen(&b, "flat <suite>", n, style, "")
		for _, s := range d.suites {
			for _, c := range s {
				renderCase(&b, c, style, " ")
			}
		}
		b.WriteString("</testsuite>\n")
	case "suites":
		b.WriteString(`<testsuites name="all" tests="9" time="2">` + "\n")
		for i, s := range d.suites {
			renderSuiteOpen(&b, "s"+strconv.Itoa(i), len(s), style, " ")
			for _, c := range s {
				renderCase(&b, c, style>>uint(i%3), "  ")
			}
			b.WriteString(" </testsuite>\n")
		}
		b.WriteString("</testsuites>\n")
	case "bare":
		for _, s := range d.suites {
			for _, c := range s {
				renderCase(&b, c, style, "")
			}
		}
	case "nested":
		renderSuiteOpen(&b, "outer", len(d.suites[0]), style, "")
		half := len(d.suites[0]) / 2
		for _, c := range d.suites[0][:half] {
			renderCase(&b, c, style, " ")
		}
		for i, s := range d.suites[1:] {
			renderSuiteOpen(&b, "inner"+strconv.Itoa(i), len(s), style, " ")
			for _, c := range s {
				renderCase(&b, c, style, "  ")
			}
			b.WriteString(" </testsuite>\n")
		}
		for _, c := range d.suites[0][half:] {
			renderCase(&b, c, style, " ")
		}
		b.WriteString("</testsuite>\n")
	}
	return b.String()
}

func renderGo(d doc, style uint64) string {
	var b strings.Builder
	failed := false
	for i, c := range d.gcases {
		depth := strings.Count(c.name, "/")
		ind := strings.Repeat("    ", depth)
		fmt.Fprintf(&b, "=== RUN   %s\n", c.name)
		if style&(1<<uint(i%8)) != 0 {
			fmt.Fprintf(&b, "%s    x_test.go:%d: some output, PASS or FAIL: who knows (0.00s)\n", ind, 10+i)
		}
		switch c.res {
		case 'P':
			fmt.Fprintf(&b, "%s--- PASS: %s (0.01s)\n", ind, c.name)
		case 'F':
			fmt.Fprintf(&b, "%s--- FAIL: %s (0.02s)\n", ind, c.name)
			failed = true
		case 'S':
			fmt.Fprintf(&b, "%s--- SKIP: %s (0.00s)\n", ind, c.name)
		case 'U':
			failed = true // started, never finished
		}
	}
	if failed {
		b.WriteString("FAIL\nFAIL\tgithub.com/x/pkg\t0.123s\n")
	} else {
		b.WriteString("PASS\nok  \tgithub.com/x/pkg\t0.123s\n")
	}
	return b.String()
}

// specDoc: the cases the document describes, read directly off the outcome set.
func specDoc(d doc) (cases []acase, wellFormed bool) {
	wellFormed = true
	if d.kind == 'g' {
		for _, c := range d.gcases {
			m := map[byte]int{'P': 0, 'F': 1, 'S': 4, 'U': 2}[c.res] // a test without a result did not pass: an error
			cases = append(cases, acase{"", c.name, []int{m}})
		}
		return
	}
	for _, s := range d.suites {
		for _, x := range s {
			var main int
			switch x.mask {
			case 0, 1, 2, 4:
				main = x.mask
			default:
				wellFormed = false // two result elements in one <testcase>: "there can be only one"
				switch {
				case x.mask&1 != 0:
					main = 1
				case x.mask&2 != 0:
					main = 2
				}
			}
			e := []int{main}
			for i := 0; i < x.ff+x.rf; i++ {
				e = append(e, 1)
			}
			for i := 0; i < x.fe+x.re; i++ {
				e = append(e, 2)
			}
			if (x.ff+x.fe > 0 && main != 0) || (x.rf+x.re > 0 && main != 1 && main != 2) {
				wellFormed = false // flaky* belong to a test that finally passed, rerun* to one that finally failed
			}
			cases = append(cases, acase{x.cls, x.name, e})
		}
	}
	return
}

func multiset(cs []acase) map[string]int {
	m := map[string]int{}
	for _, c := range cs {
		// executions as a multiset: the XML decoder groups children by tag
		cnt := [8]int{}
		for _, e := range c.execs {
			cnt[e]++
		}
		m[fmt.Sprint(hx(c.cls), ".", hx(c.name), ".", cnt)]++
	}
	return m
}

func sameMultiset(a, b map[string]int) bool {
	if len(a) != len(b) {
		return false
	}
	for k, v := range a {
		if b[k] != v {
			return false
		}
	}
	return true
}

// anonymise blanks the names of the cases that come from bare <testcase> documents.
func anonymise(want []acase, docs []doc) []acase {
	out := append([]acase{}, want...)
	i := 0
	for _, d := range docs {
		cs, _ := specDoc(d)
		for range cs {
			if d.kind == 'x' && d.layout == "bare" {
				out[i].cls, out[i].name = "", ""
			}
			i++
		}
	}
	return out
}

func fromReal(cs core.TestCases) []acase {
	var out []acase
	for _, c := range cs {
		a := acase{cls: c.ClassName, name: c.Name}
		for _, e := range c.Executions {
			a.execs = append(a.execs, execMask(e))
		}
		out = append(out, a)
	}
	return out
}

// ---------------------------------------------------------------- end to end: the real doFlakeRun through `plz test`

var e2eSeq int
var e2eCache = map[string][2]string{}
var e2eMu sync.Mutex

var sumRe = regexp.MustCompile(`(\d+) tests? run(?: in [^;]*)?; (\d+) passed(?:, (\d+) errored)?(?:, (\d+) failed)?(?:, (\d+) skipped)?(?:, (\d+) flakes?)?`)

// e2eFlake builds a repository with one gentest whose k-th execution writes the k-th run as its results file
// (and exits non-zero when that run has a failing or erroring case), runs `plz test` and reads the summary line
// and the exit status.
func e2eFlake(n int, runs [][]acase) (string, string) {
	plz := os.Getenv("VERIF_PLZ")
	scratch := os.Getenv("VERIF_SCRATCH")
	if plz == "" || scratch == "" {
		panic("VERIF_PLZ / VERIF_SCRATCH not set")
	}
	e2eMu.Lock()
	e2eSeq++
	root := filepath.Join(scratch, fmt.Sprintf("e2e%d-%d", os.Getpid(), e2eSeq))
	e2eMu.Unlock()
	defer os.RemoveAll(root)
	repo, home, data := filepath.Join(root, "repo"), filepath.Join(root, "home"), filepath.Join(root, "data")
	for _, d := range []string{repo, home, data} {
		if err := os.MkdirAll(d, 0o755); err != nil {
			panic(err)
		}
	}
	codes := []string{}
	for i, run := range runs {
		var b strings.Builder
		b.WriteString(`<testsuite name="s">` + "\n")
		code := "0"
		for _, c := range run {
			x := xcase{cls: c.cls, name: c.name}
			if len(c.execs) == 1 {
				x.mask = c.execs[0]
			}
			if x.mask == 1 { // exit status and reported failures must agree (test_step.go: "returned nonzero but reported no errors")
				code = "1"
			}
			renderCase(&b, x, 0, " ")
		}
		b.WriteString("</testsuite>\n")
		os.WriteFile(filepath.Join(data, fmt.Sprintf("run%d.xml", i+1)), []byte(b.String()), 0o644)
		codes = append(codes, code)
	}
	os.WriteFile(filepath.Join(data, "codes"), []byte(strings.Join(codes, " ")+"\n"), 0o644)
	os.WriteFile(filepath.Join(data, "counter"), []byte("1\n"), 0o644)
	os.WriteFile(filepath.Join(repo, ".plzconfig"), []byte("[cache]\ndir = "+filepath.Join(root, "cache")+"\n"), 0o644)
	cmd := fmt.Sprintf(`n=$(cat %[1]s/counter); echo $((n+1)) > %[1]s/counter; cp %[1]s/run$n.xml $RESULTS_FILE; exit $(cut -d' ' -f$n %[1]s/codes)`, data)
	flaky := ""
	if n > 1 {
		flaky = fmt.Sprintf(", flaky=%d", n)
	}
	os.WriteFile(filepath.Join(repo, "BUILD"), []byte(fmt.Sprintf("gentest(name=\"t\", test_cmd=%q, no_test_output=False%s)\n", cmd, flaky)), 0o644)
	c := exec.Command(plz, "test", "-p", "-v", "error", "--noupdate", "--num_threads", "2", "//:t")
	c.Dir = repo
	c.Env = []string{"HOME=" + home, "XDG_CACHE_HOME=" + home + "/.cache", "XDG_CONFIG_HOME=" + home + "/.config",
		"PATH=/usr/local/bin:/usr/bin:/bin", "LC_ALL=C", "GOMAXPROCS=2"}
	done := make(chan struct{})
	var out []byte
	var err error
	go func() { out, err = c.CombinedOutput(); close(done) }()
	select {
	case <-done:
	case <-time.After(120 * time.Second):
		c.Process.Kill()
		<-done
		return "timeout", string(out)
	}
	rc := 0
	if err != nil {
		rc = 1
	}
	for _, l := range strings.Split(string(out), "\n") {
		if !strings.HasPrefix(l, "//:t ") {
			continue
		}
		m := sumRe.FindStringSubmatch(l)
		if m == nil {
			continue
		}
		num := func(s string) int { v, _ := strconv.Atoi(s); return v }
		return fmt.Sprintf("tests=%d pass=%d fail=%d err=%d skip=%d flaky=%d all=%d", num(m[1]), num(m[2]), num(m[4]), num(m[3]), num(m[5]), num(m[6]), 1-rc), string(out)
	}
	return fmt.Sprintf("no-summary rc=%d", rc), string(out)
}

// mergeRuns: per (class, name), the executions of the given runs (the property's view of a flaky target).
func mergeRuns(runs [][]acase) []acase {
	type key struct{ c, n string }
	idx := map[key]int{}
	var merged []acase
	for _, run := range runs {
		for _, c := range run {
			k := key{c.cls, c.name}
			i, ok := idx[k]
			if !ok {
				i = len(merged)
				idx[k] = i
				merged = append(merged, acase{cls: c.cls, name: c.name})
			}
			merged[i].execs = append(merged[i].execs, c.execs...)
		}
	}
	return merged
}

// ---------------------------------------------------------------- ops

func runOp(r *lib.Run, line string) {
	f := strings.Split(line, " ")
	switch {
	case f[0] == "counts" && len(f) == 2:
		cs, ok := parseA(f[1])
		if !ok {
			r.Emit(line, "bad-op", false)
			return
		}
		s := core.TestSuite{}
		for _, c := range cs {
			s.TestCases = append(s.TestCases, c.real())
		}
		if want, wf := specOf(cs); wf {
			compareCounts(r, line, want, realCounts(&s), cs)
		}
		r.Emit(line, summary(&s), len(cs) >= 1)
	case f[0] == "flake" && len(f) == 3:
		n, err := strconv.Atoi(f[1])
		if err != nil || n < 0 {
			r.Emit(line, "bad-op", false)
			return
		}
		var runs [][]acase
		for _, t := range strings.Split(f[2], "|") {
			cs, ok := parseA(t)
			if !ok {
				r.Emit(line, "bad-op", false)
				return
			}
			runs = append(runs, cs)
		}
		// the loop of doFlakeRun (its shape is a regenerated fact), on the real Add / AllSucceeded
		results := core.TestSuite{}
		executed := 0
		for flakes := 1; flakes <= n && flakes <= len(runs); flakes++ {
			suite := core.TestSuite{}
			for _, c := range runs[flakes-1] {
				suite.TestCases = append(suite.TestCases, c.real())
			}
			results.Add(suite.TestCases...)
			executed++
			if suite.TestCases.AllSucceeded() {
				break
			}
		}
		// the property: per (class, name), the executions of all executed runs
		type key struct{ c, n string }
		idx := map[key]int{}
		var merged []acase
		wf := true
		for _, run := range runs[:executed] {
			for _, c := range run {
				k := key{c.cls, c.name}
				i, ok := idx[k]
				if !ok {
					i = len(merged)
					idx[k] = i
					merged = append(merged, acase{cls: c.cls, name: c.name})
				}
				merged[i].execs = append(merged[i].execs, c.execs...)
			}
		}
		want, wf2 := specOf(merged)
		if wf && wf2 {
			compareCounts(r, line, want, realCounts(&results), merged)
			if !sameMultiset(multiset(merged), multiset(fromReal(results.TestCases))) {
				r.OracleFail("flake-merge-mismatch", line, showA(merged)+" vs "+showCases(results.TestCases))
			}
		}
		r.Emit(line, summary(&results), len(runs) >= 2)
	case f[0] == "e2e" && len(f) == 3:
		n, err := strconv.Atoi(f[1])
		if err != nil || n < 1 || n > 9 {
			r.Emit(line, "bad-op", false)
			return
		}
		var runs [][]acase
		for _, t := range strings.Split(f[2], "|") {
			cs, ok := parseA(t)
			if !ok {
				r.Emit(line, "bad-op", false)
				return
			}
			for _, c := range cs {
				if len(c.execs) != 1 || (c.execs[0] != 0 && c.execs[0] != 1 && c.execs[0] != 2 && c.execs[0] != 4) {
					r.Emit(line, "bad-op", false)
					return
				}
			}
			runs = append(runs, cs)
		}
		var got, out string
		if c, ok := e2eCache[line]; ok {
			got, out = c[0], c[1]
		} else {
			got, out = e2eFlake(n, runs)
		}
		// the property: the runs plz may perform are the first n, up to the first all-green one
		executed := 0
		for executed < n && executed < len(runs) {
			executed++
			if s, _ := specOf(runs[executed-1]); s.all == 1 {
				break
			}
		}
		want, _ := specOf(mergeRuns(runs[:executed]))
		if got != want.String() {
			w2 := want
			w2.flaky += cleanReruns(mergeRuns(runs[:executed]))
			if got == w2.String() {
				r.OracleFail("flaky-count-includes-clean-reruns", line, "property: "+want.String()+"  plz test: "+got)
			} else {
				r.OracleFail("e2e-summary-mismatch", line, "property: "+want.String()+"  plz test: "+got+"\n"+out)
			}
		}
		r.Emit(line, got, len(runs) >= 2)
	case f[0] == "parse" && len(f) >= 2:
		var docs []doc
		for _, t := range f[1:] {
			d, ok := parseDoc(t)
			if !ok {
				r.Emit(line, "bad-op", false)
				return
			}
			docs = append(docs, d)
		}
		style := r.Rng.U64()
		var data [][]byte
		var want []acase
		wf := true
		nestedDoc, unknownGo, bareDoc := false, false, false
		for i, d := range docs {
			var text string
			if d.kind == 't' {
				text = renderTrees(d, style>>uint(i))
				if d.deepest >= 2 {
					nestedDoc = true
				}
			} else if d.kind == 'x' {
				text = renderXML(d, style>>uint(i))
				if d.layout == "bare" {
					bareDoc = true
				}
				if d.layout == "nested" && len(d.suites) > 1 {
					for _, s := range d.suites[1:] {
						if len(s) > 0 {
							nestedDoc = true
						}
					}
				}
			} else {
				text = renderGo(d, style>>uint(i))
				for _, c := range d.gcases {
					if c.res == 'U' {
						unknownGo = true
					}
				}
			}
			data = append(data, []byte(text))
			cs, w := specDoc(d)
			want = append(want, cs...)
			wf = wf && w
		}
		s, err := test.ParseTestResultsForVerif(data)
		if err != nil {
			if wf {
				r.OracleFail("parse-error", line, err.Error())
			}
			r.Emit(line, "error", false)
			return
		}
		if wf {
			got := fromReal(s.TestCases)
			if !sameMultiset(multiset(want), multiset(got)) {
				cls := "parsed-cases-mismatch"
				switch {
				case nestedDoc && len(got) < len(want):
					cls = "nested-testsuite-cases-dropped"
				case bareDoc && sameMultiset(multiset(anonymise(want, docs)), multiset(got)):
					cls = "bare-testcase-names-dropped"
				case unknownGo && len(got) == len(want):
					cls = "gotest-unfinished-counted-as-pass"
				}
				ws, _ := specOf(want)
				r.OracleFail(cls, line, "property: "+showA(want)+" ("+ws.String()+")  real: "+showA(got)+" ("+realCounts(&s).String()+")")
			} else {
				ws, _ := specOf(want)
				compareCounts(r, line, ws, realCounts(&s), want)
			}
		}
		r.Emit(line, summary(&s), len(want) >= 2)
	default:
		r.Emit(line, "bad-op", false)
	}
}

// ---------------------------------------------------------------- generators

var xmlNames = []string{"a", "test_b", "a<b", "a&b", `q"uote`, "it's", "x > y", "ünï", "日本語", "with space", "tab\there", "nl\nhere", "&amp;", "]]>", "<!--c-->", "a.b.c", "A", "a", "v2.roundtrip", "roundtrip", "b.c", "c"}
var xmlClasses = []string{"", "", "pkg.Class", "c<&>", "C\"", "pkg.Class", "com.acme.Parser", "com.acme.Parser.v2", "a", "a.b"}
var goNames = []string{"TestA", "TestB", "Test_under", "TestD/sub_1", "TestD/sub_2", "TestD", "TestE/x/y", "TestE/x", "TestE", "TestÜ", "TestA#01", "Test1", "TestZ/a=b"}

func genX(r *lib.Run, wild bool) xcase {
	x := xcase{cls: lib.Pick(r.Rng, xmlClasses), name: lib.Pick(r.Rng, xmlNames)}
	switch k := r.Rng.Intn(12); {
	case k < 4:
	case k < 6:
		x.mask = 1
	case k < 8:
		x.mask = 2
	case k < 10:
		x.mask = 4
	case k < 11: // flaky pass
		x.ff, x.fe = r.Rng.Intn(3), r.Rng.Intn(3)
	default: // rerun failure
		x.mask = 1 + r.Rng.Intn(2)
		x.rf, x.re = r.Rng.Intn(3), r.Rng.Intn(3)
	}
	if wild && r.Rng.Chance(30) {
		x.mask = r.Rng.Intn(8)
		x.ff, x.fe, x.rf, x.re = r.Rng.Intn(3), r.Rng.Intn(2), r.Rng.Intn(2), r.Rng.Intn(2)
	}
	return x
}

// genTree builds a suite tree of the given depth; onlyDeepFail: every failing/erroring case sits in a suite of
// maximal depth, everything above passes or is skipped.
func genTree(r *lib.Run, depth int, onlyDeepFail bool) *stree {
	t := &stree{}
	for j := r.Rng.Intn(3); j > 0; j-- {
		x := genX(r, false)
		if onlyDeepFail && depth > 1 {
			x.mask, x.rf, x.re = lib.Pick(r.Rng, []int{0, 0, 4}), 0, 0
		}
		t.cases = append(t.cases, x)
	}
	if depth > 1 {
		nk := 1 + r.Rng.Intn(2)
		for k := 0; k < nk; k++ {
			d := depth - 1
			if k > 0 {
				d = 1 + r.Rng.Intn(depth-1)
			}
			t.kids = append(t.kids, genTree(r, d, onlyDeepFail))
		}
	} else if onlyDeepFail {
		t.cases = append(t.cases, xcase{cls: "deep.Suite", name: "fails_at_the_bottom", mask: 1 + r.Rng.Intn(2)})
	}
	return t
}

func genDoc(r *lib.Run) doc {
	if r.Rng.Chance(20) {
		d := doc{kind: 't', layout: lib.Pick(r.Rng, []string{"tree", "trees"})}
		n := 1
		if d.layout == "trees" {
			n = 1 + r.Rng.Intn(3)
		}
		var ts []*stree
		for i := 0; i < n; i++ {
			ts = append(ts, genTree(r, 1+r.Rng.Intn(5), r.Rng.Chance(40)))
		}
		d.setTrees(ts)
		r.Count(fmt.Sprintf("doc-xml-tree-depth%d", d.deepest))
		return d
	}
	if r.Rng.Chance(30) {
		d := doc{kind: 'g'}
		names := append([]string{}, goNames...)
		lib.Shuffle(r.Rng, names)
		n := r.Rng.Intn(7)
		for _, nm := range names[:n] {
			d.gcases = append(d.gcases, gcase{nm, "PPPFSU"[r.Rng.Intn(6)]})
		}
		r.Count("doc-go")
		return d
	}
	d := doc{kind: 'x', layout: lib.Pick(r.Rng, []string{"flat", "suites", "bare", "nested", "flat", "suites"})}
	ns := 1 + r.Rng.Intn(3)
	wild := r.Rng.Chance(15)
	for i := 0; i < ns; i++ {
		var s []xcase
		for j := r.Rng.Intn(5); j > 0; j-- {
			s = append(s, genX(r, wild))
		}
		d.suites = append(d.suites, s)
	}
	if d.layout == "bare" && len(d.suites[0]) == 0 {
		d.suites[0] = append(d.suites[0], genX(r, false))
	}
	r.Count("doc-xml-" + d.layout)
	return d
}

// collideKeys: (class name, name) pairs that are different splits of one dotted string, the same name under
// different classes and the same class with different names: Add must keep all of them apart.
var collideKeys = [][2]string{
	{"com.acme.Parser", "v2.roundtrip"}, {"com.acme.Parser.v2", "roundtrip"}, {"", "a.b"}, {"a", "b"}, {"a.b", ""},
	{"a", "b.c"}, {"a.b", "c"}, {"", "a.b.c"}, {"A", "x"}, {"B", "x"}, {"A", "y"}, {"", "x"},
}

func genA(r *lib.Run, names []string, maxExec int, wild bool) acase {
	if r.Rng.Chance(25) {
		k := lib.Pick(r.Rng, collideKeys)
		a := acase{cls: k[0], name: k[1]}
		for j := 1 + r.Rng.Intn(maxExec); j > 0 && maxExec > 0; j-- {
			a.execs = append(a.execs, lib.Pick(r.Rng, []int{0, 0, 1, 2, 4}))
		}
		r.Count("collide-key")
		return a
	}
	a := acase{cls: lib.Pick(r.Rng, []string{"", "", "K"}), name: lib.Pick(r.Rng, names)}
	for j := r.Rng.Intn(maxExec + 1); j > 0; j-- {
		if wild {
			a.execs = append(a.execs, r.Rng.Intn(8))
		} else {
			a.execs = append(a.execs, lib.Pick(r.Rng, []int{0, 0, 0, 1, 2, 4}))
		}
	}
	return a
}

func main() {
	cli.InitLogging(cli.MinVerbosity)
	r := lib.Start()
	defer r.Finish()
	r.Rule = "counts: at least one case; flake: at least two runs; parse: at least two cases; distinct by op line"
	if ops := r.ReplayOps(); ops != nil {
		for _, l := range ops {
			runOp(r, l)
		}
		return
	}
	// (1) exhaustive: one case with every execution list up to length 3 over the 8 flag combinations,
	//     and every pair of single-flag cases up to two executions each
	var lists [][]int
	var rec func(cur []int, n int)
	rec = func(cur []int, n int) {
		lists = append(lists, append([]int{}, cur...))
		if n == 0 {
			return
		}
		for m := 0; m < 8; m++ {
			rec(append(cur, m), n-1)
		}
	}
	rec(nil, 3)
	for _, l := range lists {
		runOp(r, "counts "+acase{"", "a", l}.String())
		r.Count("counts-exhaustive-1")
	}
	var small [][]int
	for _, a := range []int{0, 1, 2, 4} {
		small = append(small, []int{a})
		for _, b := range []int{0, 1, 2, 4} {
			small = append(small, []int{a, b})
		}
	}
	for _, x := range small {
		for _, y := range small {
			runOp(r, "counts "+showA([]acase{{"", "a", x}, {"", "b", y}}))
			r.Count("counts-exhaustive-2")
		}
	}
	// (2) exhaustive flake loops: two cases A, B, outcomes P/F/E/S/absent per run, up to 3 runs, allowance 1..3
	outs := []int{0, 1, 2, 4, -1}
	var runsets [][][]acase
	var recr func(cur [][]acase, n int)
	recr = func(cur [][]acase, n int) {
		if len(cur) > 0 {
			runsets = append(runsets, append([][]acase{}, cur...))
		}
		if n == 0 {
			return
		}
		for _, a := range outs {
			for _, b := range outs {
				var run []acase
				if a >= 0 {
					run = append(run, acase{"", "A", []int{a}})
				}
				if b >= 0 {
					run = append(run, acase{"", "B", []int{b}})
				}
				recr(append(cur, run), n-1)
			}
		}
	}
	recr(nil, r.N(2, 3))
	for _, rs := range runsets {
		for n := 1; n <= 3; n++ {
			p := make([]string, len(rs))
			for i, run := range rs {
				p[i] = showA(run)
			}
			runOp(r, fmt.Sprintf("flake %d %s", n, strings.Join(p, "|")))
			r.Count("flake-exhaustive")
		}
	}
	// (2b) every ordered pair of distinct keys of the colliding family, fail/pass outcomes, in one run and spread over two
	for _, k1 := range collideKeys {
		for _, k2 := range collideKeys {
			if k1 == k2 {
				continue
			}
			for _, o := range [][2]int{{1, 0}, {0, 1}, {1, 4}, {2, 0}} {
				a := acase{k1[0], k1[1], []int{o[0]}}
				b := acase{k2[0], k2[1], []int{o[1]}}
				runOp(r, fmt.Sprintf("flake 2 %s", showA([]acase{a, b})))
				runOp(r, fmt.Sprintf("flake 2 %s|%s", showA([]acase{a}), showA([]acase{b})))
				r.Count("flake-colliding-keys")
			}
		}
	}
	r.Exhaust = true
	// (3) random flake loops: repeated names inside a run, class names, several executions per case
	for i := 0; i < r.N(1500, 20000); i++ {
		k := 1 + r.Rng.Intn(4)
		p := make([]string, k)
		for j := range p {
			var run []acase
			for c := r.Rng.Intn(5); c > 0; c-- {
				run = append(run, genA(r, []string{"A", "B", "C", "A"}, 2, r.Rng.Chance(10)))
			}
			p[j] = showA(run)
		}
		runOp(r, fmt.Sprintf("flake %d %s", r.Rng.Intn(5), strings.Join(p, "|")))
		r.Count("flake-random")
	}
	// (3b) suite chains of depth 1..5 (6 in the thorough tier), with and without a <testsuites> root: one passing case at
	//      every level and a single failing (or erroring) case at level k, for every k - and no other failure anywhere
	maxDepth := r.N(5, 6)
	for depth := 1; depth <= maxDepth; depth++ {
		for k := depth; k >= 1; k-- {
			for _, layout := range []string{"tree", "trees"} {
				for _, mask := range []int{1, 2} {
					var root, cur *stree
					for lvl := 1; lvl <= depth; lvl++ {
						n := &stree{cases: []xcase{{cls: "lvl", name: "ok" + strconv.Itoa(lvl)}}}
						if lvl == k {
							n.cases = append(n.cases, xcase{cls: "lvl", name: "bad" + strconv.Itoa(lvl), mask: mask})
						}
						if cur == nil {
							root = n
						} else {
							cur.kids = append(cur.kids, n)
						}
						cur = n
					}
					d := doc{kind: 't', layout: layout}
					d.setTrees([]*stree{root})
					runOp(r, "parse "+d.String())
					r.Count("tree-chain-exhaustive")
				}
			}
		}
	}
	// (4) documents
	for i := 0; i < r.N(2500, 40000); i++ {
		n := 1
		if r.Rng.Chance(20) {
			n = 2 + r.Rng.Intn(2)
			r.Count("multi-document")
		}
		toks := []string{"parse"}
		for j := 0; j < n; j++ {
			toks = append(toks, genDoc(r).String())
		}
		runOp(r, strings.Join(toks, " "))
		r.Count("parse-random")
	}
	// (5) end to end: the real doFlakeRun, summary line and exit status of `plz test`
	var e2es []string
	fixed := []string{
		"e2e 2 -.41.1;-.42.0|-.41.0;-.42.0", // A flaky, B clean (known finding: B counted as a flake)
		"e2e 2 -.41.1;-.42.0|-.41.0;-.42.1", // no run is green on its own, every case passed once: target passes
		"e2e 1 -.41.1;-.42.0|-.41.0;-.42.0", // allowance 1: fails after the first run
		"e2e 3 -.41.2|-.41.1|-.41.0",        // error, failure, pass
		"e2e 2 -.41.4;-.42.0",               // skipped counts as success, single run
		"e2e 2 -.41.1|-.41.1",               // never passes
	}
	e2es = append(e2es, fixed...)
	for i := 0; i < r.N(2, 40); i++ {
		n := 1 + r.Rng.Intn(3)
		var p []string
		for j := 0; j < n; j++ {
			var run []acase
			for _, nm := range []string{"A", "B", "C"}[:1+r.Rng.Intn(3)] {
				if r.Rng.Chance(15) {
					continue
				}
				run = append(run, acase{"", nm, []int{lib.Pick(r.Rng, []int{0, 0, 0, 1, 2, 4})}})
			}
			if r.Rng.Chance(40) {
				k := lib.Pick(r.Rng, collideKeys[:8])
				run = append(run, acase{k[0], k[1], []int{lib.Pick(r.Rng, []int{0, 0, 1, 2})}})
			}
			if len(run) == 0 {
				run = append(run, acase{"", "A", []int{0}})
			}
			p = append(p, showA(run))
			if s, _ := specOf(run); s.all == 1 {
				break
			}
		}
		e2es = append(e2es, fmt.Sprintf("e2e %d %s", n, strings.Join(p, "|")))
	}
	// run the plz invocations four at a time, then emit in order
	var wg sync.WaitGroup
	sem := make(chan struct{}, 4)
	for _, l := range e2es {
		f := strings.Split(l, " ")
		n, _ := strconv.Atoi(f[1])
		var runs [][]acase
		for _, t := range strings.Split(f[2], "|") {
			cs, _ := parseA(t)
			runs = append(runs, cs)
		}
		wg.Add(1)
		go func(l string) {
			defer wg.Done()
			sem <- struct{}{}
			got, out := e2eFlake(n, runs)
			<-sem
			e2eMu.Lock()
			e2eCache[l] = [2]string{got, out}
			e2eMu.Unlock()
		}(l)
	}
	wg.Wait()
	for _, l := range e2es {
		runOp(r, l)
		r.Count("e2e-plz-test")
	}
	for _, l := range []string{"counts", "counts -.61.9", "flake x -", "parse", "parse x:weird:-", "parse g:61.Q", "nonsense", "counts -.61."} {
		runOp(r, l)
		r.Count("malformed")
	}
}
