// C15 harness: the real cmap.Map / cmap.ErrMap against (a) a Go transcription of the sequential specification
// (direct oracle, also diffed against the Lean specification through `spec` lines), (b) the Lean concurrent
// model run under the same deterministic multi-thread scripts (`seq`, `eseq`), and (c) porcupine on recorded
// concurrent histories, whose linearization certificates the Lean driver re-checks against its own
// specification (`hist`).
package main

import (
	"fmt"
	"runtime"
	"sort"
	"strconv"
	"strings"
	"sync"
	"sync/atomic"
	"time"

	"github.com/anishathalye/porcupine"
	"github.com/thought-machine/please/src/cmap"
	"verif/harness/lib"
)

// ---------------------------------------------------------------- sequential specification (Go transcription)

type ent struct {
	isVal  bool
	v, err int
	ch     int
}

type spec struct {
	m      map[int]ent
	nextCh int
	closed map[int]bool
}

func newSpec() *spec { return &spec{m: map[int]ent{}, closed: map[int]bool{}} }

func (s *spec) clone() *spec {
	c := &spec{m: make(map[int]ent, len(s.m)), nextCh: s.nextCh, closed: make(map[int]bool, len(s.closed))}
	for k, v := range s.m {
		c.m[k] = v
	}
	for k, v := range s.closed {
		c.closed[k] = v
	}
	return c
}

// put stores a value; a caller waiting for the key is released.
func (s *spec) put(k, v, err int) {
	if e, ok := s.m[k]; ok && !e.isVal {
		s.closed[e.ch] = true
	}
	s.m[k] = ent{isVal: true, v: v, err: err}
}

func (s *spec) hasVal(k int) bool { e, ok := s.m[k]; return ok && e.isVal }

func (s *spec) add(k, v, err int) bool {
	if s.hasVal(k) {
		return false
	}
	s.put(k, v, err)
	return true
}

func (s *spec) addOrGet(k, v int) (int, int, bool) {
	if s.hasVal(k) {
		return s.m[k].v, s.m[k].err, false
	}
	s.put(k, v, 0)
	return v, 0, true
}

// getOrWait: the value if added; otherwise the key's channel (registering interest on first use).
func (s *spec) getOrWait(k int) (v, err int, ch int, hasCh, first bool) {
	e, ok := s.m[k]
	switch {
	case ok && e.isVal:
		return e.v, e.err, 0, false, false
	case ok:
		return 0, 0, e.ch, true, false
	}
	c := s.nextCh
	s.nextCh++
	s.m[k] = ent{ch: c}
	return 0, 0, c, true, true
}

func (s *spec) contains(k int) bool { _, ok := s.m[k]; return ok } // present or awaited (DESIGN §5)

func (s *spec) values() []int {
	out := []int{}
	for _, e := range s.m {
		if e.isVal {
			out = append(out, e.v)
		}
	}
	sort.Ints(out)
	return out
}

func (s *spec) pairs() string {
	ks := []int{}
	for k, e := range s.m {
		if e.isVal && e.err == 0 {
			ks = append(ks, k)
		}
	}
	sort.Ints(ks)
	if len(ks) == 0 {
		return "-"
	}
	p := make([]string, len(ks))
	for i, k := range ks {
		p[i] = fmt.Sprintf("%d=%d", k, s.m[k].v)
	}
	return strings.Join(p, ",")
}

func tf(b bool) string {
	if b {
		return "t"
	}
	return "f"
}

func nats(xs []int) string {
	if len(xs) == 0 {
		return "-"
	}
	p := make([]string, len(xs))
	for i, x := range xs {
		p[i] = strconv.Itoa(x)
	}
	return strings.Join(p, ",")
}

// ---------------------------------------------------------------- scripts

type tok struct {
	t    int
	op   string
	a    []int
	text string
}

func parseScript(s string) ([]tok, bool) {
	if s == "-" {
		return nil, true
	}
	var out []tok
	for _, f := range strings.Split(s, ";") {
		p := strings.Split(f, ":")
		if len(p) < 2 {
			return nil, false
		}
		t, err := strconv.Atoi(p[0])
		if err != nil || t < 0 {
			return nil, false
		}
		tk := tok{t: t, op: p[1], text: f}
		for _, x := range p[2:] {
			n, err := strconv.Atoi(x)
			if err != nil || n < 0 {
				return nil, false
			}
			tk.a = append(tk.a, n)
		}
		out = append(out, tk)
	}
	return out, true
}

var arity = map[string]int{"add": 2, "aog": 2, "set": 2, "seterr": 2, "get": 1, "gow": 1, "has": 1, "vals": 0, "range": 0,
	"wait": 1, "chk": 1, "gos": 3}
var mapOps = map[string]bool{"add": true, "aog": true, "set": true, "get": true, "gow": true, "has": true, "vals": true, "wait": true, "chk": true}
var errOps = map[string]bool{"add": true, "aog": true, "set": true, "seterr": true, "get": true, "gos": true, "range": true}

func validScript(toks []tok, emode bool) bool {
	for _, t := range toks {
		ar, ok := arity[t.op]
		if !ok || ar != len(t.a) || (emode && !errOps[t.op]) || (!emode && !mapOps[t.op]) {
			return false
		}
		if t.op == "seterr" && t.a[1] == 0 {
			return false
		}
	}
	return true
}

// pending is a blocked thread.
type pending struct {
	t    int
	kind string // wait | gos
	key  int
	ch   int
	done chan string
}

// specScript runs a script through the specification, including which threads block and when they wake.
type specRun struct {
	s       *spec
	emode   bool
	blocked []*pending
}

func (r *specRun) busy(t int) bool {
	for _, b := range r.blocked {
		if b.t == t {
			return true
		}
	}
	return false
}

// step returns the op's result ("blocked" if it blocks) and the list of threads released by it (sorted by tid).
func (r *specRun) step(tk tok) (string, []*pending, []string) {
	s := r.s
	out := ""
	if tk.op != "chk" && r.busy(tk.t) {
		return "busy", nil, nil
	}
	switch tk.op {
	case "add":
		out = tf(s.add(tk.a[0], tk.a[1], 0))
	case "aog":
		v, e, ins := s.addOrGet(tk.a[0], tk.a[1])
		if r.emode {
			out = fmt.Sprintf("%d,%s,%d", v, tf(ins), e)
		} else {
			out = fmt.Sprintf("%d,%s", v, tf(ins))
		}
	case "set":
		s.put(tk.a[0], tk.a[1], 0)
		out = "-"
	case "seterr":
		s.put(tk.a[0], 0, tk.a[1])
		out = "-"
	case "get":
		v, e, _, _, _ := s.getOrWait(tk.a[0]) // a lookup of an absent key registers interest (cmap.go:166)
		if r.emode {
			out = fmt.Sprintf("%d,%d", v, e)
		} else {
			out = strconv.Itoa(v)
		}
	case "gow":
		v, _, ch, has, first := s.getOrWait(tk.a[0])
		c := "nil"
		if has {
			c = "c" + strconv.Itoa(ch)
		}
		out = fmt.Sprintf("%d,%s,%s", v, c, tf(first))
	case "has":
		out = tf(s.contains(tk.a[0]))
	case "vals":
		out = nats(s.values())
	case "range":
		out = s.pairs()
	case "chk":
		if s.closed[tk.a[0]] {
			out = "closed"
		} else {
			out = "open"
		}
	case "wait":
		if s.closed[tk.a[0]] {
			out = "ok"
		} else {
			out = "blocked"
			r.blocked = append(r.blocked, &pending{t: tk.t, kind: "wait", ch: tk.a[0]})
		}
	case "gos":
		k, fv, fe := tk.a[0], tk.a[1], tk.a[2]
		if fe != 0 {
			fv = 0
		}
		e, ok := s.m[k]
		switch {
		case ok && e.isVal:
			out = fmt.Sprintf("%d,%d,f0", e.v, e.err)
		case ok: // somebody registered interest: wait for the key
			out = "blocked"
			r.blocked = append(r.blocked, &pending{t: tk.t, kind: "gos", key: k})
		default: // first: compute and store
			s.getOrWait(k)
			s.put(k, fv, fe)
			out = fmt.Sprintf("%d,%d,f1", fv, fe)
		}
	}
	// who wakes
	var woke []*pending
	var wout []string
	var still []*pending
	sort.SliceStable(r.blocked, func(i, j int) bool { return r.blocked[i].t < r.blocked[j].t })
	for _, b := range r.blocked {
		switch {
		case b.kind == "wait" && s.closed[b.ch]:
			woke = append(woke, b)
			wout = append(wout, "ok")
		case b.kind == "gos" && s.hasVal(b.key):
			woke = append(woke, b)
			wout = append(wout, fmt.Sprintf("%d,%d,f0", s.m[b.key].v, s.m[b.key].err))
		default:
			still = append(still, b)
		}
	}
	r.blocked = still
	return out, woke, wout
}

func joinOut(out string, woke []*pending, wout []string) string {
	for i, b := range woke {
		out += fmt.Sprintf("|%d=%s", b.t, wout[i])
	}
	return out
}

type limiter struct{ rel, acq atomic.Int64 }

func (l *limiter) Acquire() { l.acq.Add(1) }
func (l *limiter) Release() { l.rel.Add(1) }

const (
	blockConfirm = 12 * time.Millisecond
	wakeTimeout  = 10 * time.Second
)

// hangs counts operations that did not return in time.  The first few get the full timeout (so that a slow
// machine is not mistaken for a lost wake-up); once a hang is established the run switches to a short one so
// that a broken map does not stall the whole check.
var hangs atomic.Int64

func wakeTO() time.Duration {
	if hangs.Load() >= 2 {
		return 150 * time.Millisecond
	}
	return wakeTimeout
}

func hashID(k int) uint64 { return uint64(k) }

// sink buffers what a script run reports so that scripts can run in parallel and still be emitted in order.
type sink struct {
	emits  [][3]string
	counts []string
	fails  [][3]string
}

func (s *sink) Emit(op, out string, nt bool) { s.emits = append(s.emits, [3]string{op, out, tf(nt)}) }
func (s *sink) Count(k string)               { s.counts = append(s.counts, k) }
func (s *sink) OracleFail(class string, input any, detail string) {
	s.fails = append(s.fails, [3]string{class, input.(string), detail})
}
func (s *sink) flush(r *lib.Run) {
	for _, f := range s.fails {
		r.OracleFail(f[0], f[1], f[2])
	}
	for _, e := range s.emits {
		r.Emit(e[0], e[1], e[2] == "t")
	}
	for _, c := range s.counts {
		r.Count(c)
	}
}

type reporter interface {
	Emit(op, out string, nt bool)
	Count(k string)
	OracleFail(class string, input any, detail string)
}

// runScripts runs independent script lines on a small worker pool and reports them in order.
func runScripts(r *lib.Run, lines []string, count string) {
	sinks := make([]*sink, len(lines))
	var wg sync.WaitGroup
	sem := make(chan struct{}, 8)
	for i, l := range lines {
		wg.Add(1)
		sem <- struct{}{}
		go func(i int, l string) {
			defer wg.Done()
			defer func() { <-sem }()
			f := strings.SplitN(l, " ", 3)
			n, _ := strconv.Atoi(f[1])
			sk := &sink{}
			runScript(sk, f[0], n, f[2], l)
			sinks[i] = sk
		}(i, l)
	}
	wg.Wait()
	for _, sk := range sinks {
		sk.flush(r)
		r.Count(count)
	}
}

// runScript executes a script on the real map and on the specification.
func runScript(r reporter, kind string, n int, script string, line string) {
	emode := kind == "eseq"
	toks, ok := parseScript(script)
	if !ok || n <= 0 || n&(n-1) != 0 || !validScript(toks, emode) {
		r.Emit(line, "bad-op", false)
		return
	}
	var m *cmap.Map[int, int]
	var em *cmap.ErrMap[int, int]
	lim := &limiter{}
	if emode {
		em = cmap.NewErrMap[int, int](uint64(n), hashID, lim)
	} else {
		m = cmap.New[int, int](uint64(n), hashID)
	}
	sr := &specRun{s: newSpec(), emode: emode}
	chans := map[int]<-chan struct{}{}   // spec channel id -> real channel
	keyChan := map[int]<-chan struct{}{} // key -> the one channel ever handed out for it
	realBlocked := map[int]*pending{}    // tid -> blocked real goroutine
	var outs, souts []string
	fail := func(class, detail string) { r.OracleFail(class, line, detail) }
	kindsSeen := map[string]bool{}
	blockedSeen, wokeSeen := 0, 0

	for _, tk := range toks {
		kindsSeen[tk.op] = true
		sout, woke, wout := sr.step(tk)
		souts = append(souts, joinOut(sout, woke, wout))
		if sout == "busy" {
			outs = append(outs, "busy")
			continue
		}
		// the real op, in its own goroutine (channels are resolved here, not inside the goroutine)
		done := make(chan string, 1)
		tk := tk
		var tch <-chan struct{}
		if tk.op == "wait" || tk.op == "chk" {
			tch = chans[tk.a[0]]
		}
		if tk.op != "gow" {
			go func() { done <- lib.Safely(func() string { return realOp(m, em, emode, tk, tch) }) }()
		}
		var out string
		if tk.op == "gow" {
			v, ch, first := m.GetOrWait(tk.a[0])
			c := "nil"
			if ch != nil {
				// the specification says which channel this must be: the key's one and only
				if e, ok := sr.s.m[tk.a[0]]; ok && !e.isVal {
					c = "c" + strconv.Itoa(e.ch)
					if old, ok := keyChan[tk.a[0]]; ok && old != ch {
						fail("channel-not-unique", fmt.Sprintf("key %d handed out two different channels", tk.a[0]))
					}
					keyChan[tk.a[0]] = ch
					chans[e.ch] = ch
				} else {
					c = "c?"
				}
			}
			out = fmt.Sprintf("%d,%s,%s", v, c, tf(first))
		} else if sout == "blocked" {
			select {
			case out = <-done:
				fail("early-wake", fmt.Sprintf("%s returned %s although its key was never added", tk.text, out))
			case <-time.After(blockConfirm):
				out = "blocked"
				realBlocked[tk.t] = &pending{t: tk.t, done: done}
				blockedSeen++
			}
		} else {
			select {
			case out = <-done:
			case <-time.After(wakeTO()):
				out = "hung"
				hangs.Add(1)
				fail("lost-wakeup", fmt.Sprintf("%s did not return in time", tk.text))
			}
		}
		// threads the specification releases now must finish; report in tid order
		for _, b := range woke {
			rb := realBlocked[b.t]
			if rb == nil {
				continue
			}
			select {
			case res := <-rb.done:
				out += fmt.Sprintf("|%d=%s", b.t, res)
				wokeSeen++
			case <-time.After(wakeTO()):
				out += fmt.Sprintf("|%d=hung", b.t)
				hangs.Add(1)
				fail("lost-wakeup", fmt.Sprintf("thread %d still blocked after %s added its key", b.t, tk.text))
			}
			delete(realBlocked, b.t)
		}
		outs = append(outs, out)
	}
	// whoever the specification leaves blocked must still be blocked (no cross-key / spurious wake-up)
	if len(realBlocked) > 0 {
		time.Sleep(blockConfirm)
		for t, rb := range realBlocked {
			select {
			case res := <-rb.done:
				fail("spurious-wake", fmt.Sprintf("thread %d returned %s although its key was never added", t, res))
			default:
			}
		}
	}
	if emode && len(realBlocked) == 0 && lim.acq.Load() != lim.rel.Load() {
		fail("limiter-unbalanced", fmt.Sprintf("Release %d Acquire %d", lim.rel.Load(), lim.acq.Load()))
	}
	res, sres := "-", "-"
	if len(outs) > 0 {
		res, sres = strings.Join(outs, ";"), strings.Join(souts, ";")
	}
	if res != sres {
		// direct oracle: the real map does not behave like the sequential map
		cls := "seq-result"
		for i := range outs {
			if outs[i] != souts[i] {
				cls = "seq-" + toks[i].op
				break
			}
		}
		fail(cls, "real "+res+" spec "+sres)
	}
	r.Emit(line, res, len(kindsSeen) >= 2 && len(toks) >= 2)
	if blockedSeen > 0 {
		r.Count(kind + "-with-blocked-thread")
	}
	if wokeSeen > 0 {
		r.Count(kind + "-with-released-thread")
	}
	if !emode {
		// the same script through the Go specification alone, diffed against the Lean specification
		single := true
		for _, tk := range toks {
			if tk.op == "wait" {
				single = false
			}
		}
		if single && len(toks) > 0 {
			sp := newSpec()
			sr2 := &specRun{s: sp}
			var so []string
			for _, tk := range toks {
				tk.t = 0
				o, _, _ := sr2.step(tk)
				so = append(so, o)
			}
			r.Emit("spec "+strconv.Itoa(n)+" "+script, strings.Join(so, ";"), false)
		}
	}
}

// realOp performs one script operation on the real map.
func realOp(m *cmap.Map[int, int], em *cmap.ErrMap[int, int], emode bool, tk tok, tch <-chan struct{}) string {
	switch tk.op {
	case "add":
		if emode {
			return tf(em.Add(tk.a[0], tk.a[1]))
		}
		return tf(m.Add(tk.a[0], tk.a[1]))
	case "aog":
		calls := 0
		if emode {
			v, ins, err := em.AddOrGet(tk.a[0], func() int { calls++; return tk.a[1] })
			if (calls == 1) != ins {
				return "aog-f-mismatch"
			}
			return fmt.Sprintf("%d,%s,%d", v, tf(ins), errCode(err))
		}
		v, ins := m.AddOrGet(tk.a[0], func() int { calls++; return tk.a[1] })
		if (calls == 1) != ins {
			return "aog-f-mismatch"
		}
		return fmt.Sprintf("%d,%s", v, tf(ins))
	case "set":
		if emode {
			em.Set(tk.a[0], tk.a[1])
		} else {
			m.Set(tk.a[0], tk.a[1])
		}
		return "-"
	case "seterr":
		em.SetError(tk.a[0], codeErr(tk.a[1]))
		return "-"
	case "get":
		if emode {
			v, err := em.Get(tk.a[0])
			return fmt.Sprintf("%d,%d", v, errCode(err))
		}
		return strconv.Itoa(m.Get(tk.a[0]))
	case "has":
		return tf(m.Contains(tk.a[0]))
	case "vals":
		v := m.Values()
		sort.Ints(v)
		return nats(v)
	case "range":
		ps := [][2]int{}
		em.Range(func(k, v int) { ps = append(ps, [2]int{k, v}) })
		sort.Slice(ps, func(i, j int) bool { return ps[i][0] < ps[j][0] })
		if len(ps) == 0 {
			return "-"
		}
		p := make([]string, len(ps))
		for i, x := range ps {
			p[i] = fmt.Sprintf("%d=%d", x[0], x[1])
		}
		return strings.Join(p, ",")
	case "wait":
		if tch == nil {
			return "nochan"
		}
		<-tch
		return "ok"
	case "chk":
		if tch == nil {
			return "nochan"
		}
		select {
		case <-tch:
			return "closed"
		default:
			return "open"
		}
	case "gos":
		calls := 0
		fv, fe := tk.a[1], tk.a[2]
		if fe != 0 {
			fv = 0
		}
		v, err := em.GetOrSet(tk.a[0], func() (int, error) { calls++; return fv, codeErr(fe) })
		return fmt.Sprintf("%d,%d,f%d", v, errCode(err), calls)
	}
	return "?"
}

type codedErr int

func (e codedErr) Error() string { return "err" + strconv.Itoa(int(e)) }

func codeErr(c int) error {
	if c == 0 {
		return nil
	}
	return codedErr(c)
}

func errCode(e error) int {
	if e == nil {
		return 0
	}
	if c, ok := e.(codedErr); ok {
		return int(c)
	}
	return 999
}

// ---------------------------------------------------------------- concurrent histories

type hop struct {
	tid       int
	call, ret int64
	op        string
	k, v      int
	out       string
}

func (h hop) String() string {
	switch h.op {
	case "add", "aog", "set":
		return fmt.Sprintf("%d:%d:%d:%s:%d:%d:%s", h.tid, h.call, h.ret, h.op, h.k, h.v, h.out)
	case "vals":
		return fmt.Sprintf("%d:%d:%d:vals:%s", h.tid, h.call, h.ret, h.out)
	}
	return fmt.Sprintf("%d:%d:%d:%s:%d:%s", h.tid, h.call, h.ret, h.op, h.k, h.out)
}

func parseHop(s string) (hop, bool) {
	p := strings.Split(s, ":")
	if len(p) < 5 {
		return hop{}, false
	}
	t, e1 := strconv.Atoi(p[0])
	c, e2 := strconv.ParseInt(p[1], 10, 64)
	rt, e3 := strconv.ParseInt(p[2], 10, 64)
	if e1 != nil || e2 != nil || e3 != nil {
		return hop{}, false
	}
	h := hop{tid: t, call: c, ret: rt, op: p[3]}
	var err error
	switch {
	case (h.op == "add" || h.op == "aog" || h.op == "set") && len(p) == 7:
		h.k, err = strconv.Atoi(p[4])
		if err != nil {
			return h, false
		}
		h.v, err = strconv.Atoi(p[5])
		h.out = p[6]
	case (h.op == "get" || h.op == "gow" || h.op == "has") && len(p) == 6:
		h.k, err = strconv.Atoi(p[4])
		h.out = p[5]
	case h.op == "vals" && len(p) == 5:
		h.out = p[4]
	default:
		return h, false
	}
	return h, err == nil
}

// pstate is the specification state porcupine searches over (channel identities are not observable in a
// concurrent history, so they are not part of it).
type pent struct {
	k     int
	isVal bool
	v     int
}
type pstate []pent // sorted by key

func (s pstate) find(k int) (int, bool) {
	i := sort.Search(len(s), func(i int) bool { return s[i].k >= k })
	return i, i < len(s) && s[i].k == k
}
func (s pstate) with(k int, isVal bool, v int) pstate {
	i, ok := s.find(k)
	n := make(pstate, 0, len(s)+1)
	n = append(n, s[:i]...)
	n = append(n, pent{k, isVal, v})
	if ok {
		n = append(n, s[i+1:]...)
	} else {
		n = append(n, s[i:]...)
	}
	return n
}

func pstep(st pstate, h hop) (pstate, string) {
	i, ok := st.find(h.k)
	switch h.op {
	case "add":
		if ok && st[i].isVal {
			return st, "f"
		}
		return st.with(h.k, true, h.v), "t"
	case "set":
		return st.with(h.k, true, h.v), "-"
	case "aog":
		if ok && st[i].isVal {
			return st, fmt.Sprintf("%d,f", st[i].v)
		}
		return st.with(h.k, true, h.v), fmt.Sprintf("%d,t", h.v)
	case "get":
		if ok && st[i].isVal {
			return st, strconv.Itoa(st[i].v)
		}
		if ok {
			return st, "0"
		}
		return st.with(h.k, false, 0), "0"
	case "gow":
		if ok && st[i].isVal {
			return st, fmt.Sprintf("%d,nil,f", st[i].v)
		}
		if ok {
			return st, "0,c,f"
		}
		return st.with(h.k, false, 0), "0,c,t"
	case "has":
		return st, tf(ok)
	case "vals":
		vs := []int{}
		for _, e := range st {
			if e.isVal {
				vs = append(vs, e.v)
			}
		}
		sort.Ints(vs)
		return st, nats(vs)
	}
	return st, "?"
}

var pmodel = porcupine.Model{
	Init: func() interface{} { return pstate{} },
	Step: func(state, input, output interface{}) (bool, interface{}) {
		ns, out := pstep(state.(pstate), input.(hop))
		return out == output.(string), ns
	},
	Equal: func(a, b interface{}) bool {
		x, y := a.(pstate), b.(pstate)
		if len(x) != len(y) {
			return false
		}
		for i := range x {
			if x[i] != y[i] {
				return false
			}
		}
		return true
	},
}

// badHist counts histories porcupine could not linearize.  Refuting a long history can take porcupine its whole
// time budget, so once a few refutations exist the budget shrinks and long histories are skipped.
var badHist atomic.Int64

// checkHistory returns "lin-ok" and a linearization order, or "illegal" / "unknown".
func checkHistory(h []hop) (string, []int) {
	budget := 20 * time.Second
	if badHist.Load() >= 3 {
		if len(h) > 14 {
			return "unknown", nil
		}
		budget = 2 * time.Second
	}
	ops := make([]porcupine.Operation, len(h))
	for i, o := range h {
		ops[i] = porcupine.Operation{ClientId: o.tid, Input: o, Call: o.call, Output: o.out, Return: o.ret}
	}
	res, info := porcupine.CheckOperationsVerbose(pmodel, ops, budget)
	switch res {
	case porcupine.Ok:
		pl := info.PartialLinearizations()
		if len(h) == 0 {
			return "lin-ok", nil
		}
		if len(pl) == 1 && len(pl[0]) >= 1 && len(pl[0][0]) == len(h) {
			return "lin-ok", pl[0][0]
		}
		return "lin-ok", nil
	case porcupine.Illegal:
		badHist.Add(1)
		return "illegal", nil
	}
	badHist.Add(1)
	return "unknown", nil
}

func histLine(kind string, n int, h []hop, order []int, haveOrder bool) string {
	p := make([]string, len(h))
	for i, o := range h {
		p[i] = o.String()
	}
	ops := "-"
	if len(p) > 0 {
		ops = strings.Join(p, ";")
	}
	o := "-"
	if haveOrder && len(order) > 0 {
		o = nats(order)
	}
	return fmt.Sprintf("%s %d %s | %s", kind, n, ops, o)
}

type planned struct {
	op    string
	k, v  int
	yield bool
}

// record runs the planned per-thread programs concurrently on a fresh real map.
// panics counts map operations that panicked inside recorded runs.
var panics atomic.Int64

func record(n int, plans [][]planned) ([]hop, bool) {
	m := cmap.New[int, int](uint64(n), hashID)
	var clock atomic.Int64
	var ready atomic.Int32
	var wg sync.WaitGroup
	res := make([][]hop, len(plans))
	var mu sync.Mutex
	keyChan := map[int]<-chan struct{}{}
	uniq := true
	for t, plan := range plans {
		wg.Add(1)
		go func(t int, plan []planned) {
			defer wg.Done()
			// spin barrier: everybody is on a CPU when the last one arrives
			ready.Add(1)
			for spins := 0; ready.Load() < int32(len(plans)); spins++ {
				if spins > 1<<20 {
					runtime.Gosched()
				}
			}
			for _, p := range plan {
				if p.yield {
					runtime.Gosched()
				}
				h := hop{tid: t, op: p.op, k: p.k, v: p.v}
				h.call = clock.Add(1)
				func() {
					// a panicking map operation (e.g. close of a closed channel) is an observation, not a crash
					defer func() {
						if e := recover(); e != nil {
							h.out = "panic"
							panics.Add(1)
						}
					}()
					switch p.op {
					case "add":
						h.out = tf(m.Add(p.k, p.v))
					case "set":
						m.Set(p.k, p.v)
						h.out = "-"
					case "aog":
						v, ins := m.AddOrGet(p.k, func() int { return p.v })
						h.out = fmt.Sprintf("%d,%s", v, tf(ins))
					case "get":
						h.out = strconv.Itoa(m.Get(p.k))
					case "gow":
						v, ch, first := m.GetOrWait(p.k)
						c := "nil"
						if ch != nil {
							c = "c"
							mu.Lock()
							if old, ok := keyChan[p.k]; ok && old != ch {
								uniq = false
							}
							keyChan[p.k] = ch
							mu.Unlock()
						}
						h.out = fmt.Sprintf("%d,%s,%s", v, c, tf(first))
					case "has":
						h.out = tf(m.Contains(p.k))
					case "vals":
						v := m.Values()
						sort.Ints(v)
						h.out = nats(v)
					}
				}()
				h.ret = clock.Add(1)
				res[t] = append(res[t], h)
			}
		}(t, plan)
	}
	wg.Wait()
	var all []hop
	for _, r := range res {
		all = append(all, r...)
	}
	sort.Slice(all, func(i, j int) bool { return all[i].call < all[j].call })
	return all, uniq
}

func overlapping(h []hop) int {
	c := 0
	for i := range h {
		for j := i + 1; j < len(h); j++ {
			if h[i].k == h[j].k && h[j].call < h[i].ret && h[i].call < h[j].ret {
				c++
			}
		}
	}
	return c
}

func withoutVals(h []hop) []hop {
	var o []hop
	for _, x := range h {
		if x.op != "vals" {
			o = append(o, x)
		}
	}
	return o
}

// weakValues is the guarantee Values does give across shards: nothing invented, nothing completed-before lost.
func weakValues(h []hop) string {
	for _, v := range h {
		if v.op != "vals" {
			continue
		}
		got := map[int]bool{}
		if v.out != "-" {
			for _, x := range strings.Split(v.out, ",") {
				n, _ := strconv.Atoi(x)
				got[n] = true
			}
		}
		written := map[int]int{} // value -> key, for writes invoked before the Values call returned
		for _, w := range h {
			if (w.op == "add" || w.op == "set" || w.op == "aog") && w.call < v.ret {
				written[w.v] = w.k
			}
		}
		keys := map[int]bool{}
		for x := range got {
			k, ok := written[x]
			if !ok {
				return fmt.Sprintf("Values returned %d which nobody had written", x)
			}
			if keys[k] {
				return fmt.Sprintf("Values returned two values for key %d", k)
			}
			keys[k] = true
		}
		for _, w := range h {
			inserted := (w.op == "add" && w.out == "t") || w.op == "set" || (w.op == "aog" && strings.HasSuffix(w.out, ",t"))
			if inserted && w.ret < v.call && !keys[w.k] {
				return fmt.Sprintf("key %d was added before Values was called but is missing", w.k)
			}
		}
	}
	return ""
}

func runHist(r *lib.Run, kind string, n int, body, line string) {
	parts := strings.Split(body, " | ")
	if len(parts) != 2 || n <= 0 {
		r.Emit(line, "bad-op", false)
		return
	}
	var h []hop
	if parts[0] != "-" {
		for _, s := range strings.Split(parts[0], ";") {
			o, ok := parseHop(s)
			if !ok {
				r.Emit(line, "bad-op", false)
				return
			}
			h = append(h, o)
		}
	}
	res, _ := checkHistory(h)
	if parts[1] != "-" {
		// replaying a line that carries a certificate: the verdict is what the recorded run said
		res = "lin-ok"
	}
	if res == "illegal" && kind == "hist" {
		reportIllegal(r, h, line)
	}
	r.Emit(line, res, len(h) >= 3)
}

func reportIllegal(r *lib.Run, h []hop, line string) {
	cls := "hist-not-linearizable"
	if res2, _ := checkHistory(withoutVals(h)); res2 == "lin-ok" {
		cls = "values-not-atomic-across-shards"
	}
	r.OracleFail(cls, line, "porcupine: no linearization")
}

func genPlans(rng *lib.Rng, threads, perThread, keys int, withVals bool) [][]planned {
	plans := make([][]planned, threads)
	ops := []string{"add", "add", "set", "aog", "get", "get", "gow", "gow", "has"}
	if withVals {
		ops = append(ops, "vals")
	}
	for t := range plans {
		nOps := 1 + rng.Intn(perThread)
		for i := 0; i < nOps; i++ {
			plans[t] = append(plans[t], planned{op: lib.Pick(rng, ops), k: rng.Intn(keys), v: 100*(t+1) + i + 1, yield: rng.Chance(30)})
		}
	}
	return plans
}

func runRecorded(r *lib.Run, n, threads, perThread, keys int, withVals bool) {
	runPlans(r, n, keys, genPlans(r.Rng, threads, perThread, keys, withVals), "hist", true)
}

// contended: every thread fires one or two operations at the same fresh key at the same moment (one of them
// adds it): the schedule that separates the two critical sections of Get from each other.
func runContended(r *lib.Run, n int) {
	threads := 3 + r.Rng.Intn(6)
	plans := make([][]planned, threads)
	adder := r.Rng.Intn(threads)
	for t := range plans {
		if t == adder {
			plans[t] = []planned{{op: lib.Pick(r.Rng, []string{"add", "set", "aog"}), k: 0, v: 100 * (t + 1)}}
		} else {
			plans[t] = []planned{{op: lib.Pick(r.Rng, []string{"get", "gow", "get", "gow", "has", "aog", "add"}), k: 0, v: 100*(t+1) + 1}}
		}
		if r.Rng.Chance(50) {
			plans[t] = append(plans[t], planned{op: lib.Pick(r.Rng, []string{"get", "gow", "add", "aog"}), k: 0, v: 100*(t+1) + 2})
		}
	}
	runPlans(r, n, 1, plans, "contended", false)
}

func runPlans(r *lib.Run, n, keys int, plans [][]planned, count string, always bool) {
	h, uniq := record(n, plans)
	r.Count(count)
	if !uniq {
		r.OracleFail("channel-not-unique", histLine("hist", n, h, nil, false), "two different channels handed out for one key")
	}
	for _, o := range h {
		if o.out == "panic" {
			r.OracleFail("map-operation-panicked", histLine("hist", n, h, nil, false), fmt.Sprintf("%s on key %d by thread %d panicked", o.op, o.k, o.tid))
			break
		}
	}
	if msg := weakValues(h); msg != "" {
		r.OracleFail("values-weak-guarantee", histLine("hist", n, h, nil, false), msg)
	}
	// operations on different keys commute in the specification (channel identities are not observable), so a
	// history without Values is linearizable iff each per-key sub-history is (locality): check them separately
	groups := [][]hop{h}
	hasVals := false
	for _, o := range h {
		hasVals = hasVals || o.op == "vals"
	}
	if !hasVals && keys > 1 {
		byKey := map[int][]hop{}
		for _, o := range h {
			byKey[o.k] = append(byKey[o.k], o)
		}
		groups = nil
		for k := 0; k < keys; k++ {
			if len(byKey[k]) > 0 {
				groups = append(groups, byKey[k])
			}
		}
	}
	for _, g := range groups {
		ov := overlapping(g)
		if ov > 0 {
			r.Count(count + "-with-overlapping-same-key-ops")
			if ov >= 5 {
				r.Count(count + "-with-5+-overlapping-pairs")
			}
		}
		res, order := checkHistory(g)
		if !always && ov == 0 && res == "lin-ok" {
			continue // a sequential history: nothing the scripts do not cover already
		}
		line := histLine("hist", n, g, order, res == "lin-ok")
		switch res {
		case "illegal":
			reportIllegal(r, g, line)
		case "unknown":
			r.Count("hist-porcupine-timeout")
			continue
		}
		r.Emit(line, res, len(g) >= 3)
		r.Count("hist-lines")
		// a corrupted copy must be rejected by both checkers (keeps the checkers honest)
		if len(g) >= 2 && len(g) <= 9 && r.Rng.Chance(20) {
			c := append([]hop{}, g...)
			i := r.Rng.Intn(len(c))
			switch c[i].op {
			case "add":
				c[i].out = tf(c[i].out != "t")
			case "get":
				c[i].out = strconv.Itoa(c[i].v + 7777)
			case "has":
				c[i].out = tf(c[i].out != "t")
			default:
				continue
			}
			res2, _ := checkHistory(c)
			r.Count("synth-" + res2)
			r.Emit(histLine("synth", n, c, nil, false), res2, false)
		}
	}
}

// ---------------------------------------------------------------- Values across shards (known finding)

// runValRace looks for a Values() result that no single instant explains: it contains a key added later but
// misses a key whose Add had already returned.
func runValRace(r *lib.Run, n, attempts int, line string) {
	for a := 0; a < attempts; a++ {
		m := cmap.New[int, int](uint64(n), hashID)
		var started atomic.Bool
		var wg sync.WaitGroup
		stride := 1 + a%7
		delay := (a / 7) % 40
		wg.Add(1)
		var added []int
		go func() {
			defer wg.Done()
			defer func() { recover() }()
			for !started.Load() {
			}
			for i := 0; i < delay*20; i++ {
				runtime.Gosched()
			}
			for k := 0; k < n; k += stride {
				m.Add(k, k+1)
				added = append(added, k)
			}
		}()
		started.Store(true)
		vs := m.Values()
		wg.Wait()
		got := map[int]bool{}
		for _, v := range vs {
			got[v-1] = true
		}
		r.Count("valrace-attempts")
		// added is in completion order: the result must be a prefix of it to be explained by one instant
		missing := -1
		for _, k := range added {
			if !got[k] {
				if missing < 0 {
					missing = k
				}
			} else if missing >= 0 {
				r.Count("valrace-torn")
				r.OracleFail("values-not-atomic-across-shards", line,
					fmt.Sprintf("Values() misses key %d (its Add had returned) but contains key %d added afterwards (shards %d, attempt %d)", missing, k, n, a))
				return
			}
		}
	}
}

// ---------------------------------------------------------------- concurrent GetOrSet

func runGosRace(r *lib.Run, seed uint64, n, threads, keys, calls int, line string) {
	rng := lib.NewRng(seed)
	lim := &limiter{}
	em := cmap.NewErrMap[int, int](uint64(n), hashID, lim)
	fcount := make([]atomic.Int64, keys)
	type res struct{ k, v, e int }
	results := make([][]res, threads)
	plans := make([][]int, threads)
	for t := range plans {
		for i := 0; i < calls; i++ {
			plans[t] = append(plans[t], rng.Intn(keys))
		}
	}
	var start, gosPanic atomic.Bool
	done := make(chan int, threads)
	for t := 0; t < threads; t++ {
		go func(t int) {
			defer func() {
				if e := recover(); e != nil {
					gosPanic.Store(true)
					done <- t
				}
			}()
			for !start.Load() {
			}
			for i, k := range plans[t] {
				v, err := em.GetOrSet(k, func() (int, error) {
					fcount[k].Add(1)
					for j := 0; j < (t+i)%4; j++ {
						runtime.Gosched() // stay inside f for a while so that others pile up as waiters
					}
					if k%3 == 2 {
						return 0, codedErr(k + 1)
					}
					return 1000*(t+1) + i, nil
				})
				results[t] = append(results[t], res{k, v, errCode(err)})
			}
			done <- t
		}(t)
	}
	start.Store(true)
	out := "ok"
	for i := 0; i < threads; i++ {
		select {
		case <-done:
		case <-time.After(wakeTO()):
			out = "stuck"
			hangs.Add(1)
			r.OracleFail("gos-stuck", line, "a GetOrSet caller did not return (lost wake-up or missing Set)")
			r.Emit(line, out, true)
			return
		}
	}
	if gosPanic.Load() {
		out = "bad"
		r.OracleFail("map-operation-panicked", line, "a GetOrSet caller panicked")
	}
	first := map[int]res{}
	touched := map[int]bool{}
	for _, rs := range results {
		for _, x := range rs {
			touched[x.k] = true
			if f, ok := first[x.k]; ok && f != x {
				out = "bad"
				r.OracleFail("gos-results-differ", line, fmt.Sprintf("key %d: %v vs %v", x.k, f, x))
			}
			first[x.k] = x
			if x.k%3 == 2 && x.e != x.k+1 || x.k%3 != 2 && (x.e != 0 || x.v < 1000) {
				out = "bad"
				r.OracleFail("gos-returns-unstored-value", line, fmt.Sprintf("key %d returned (%d,%d)", x.k, x.v, x.e))
			}
		}
	}
	for k := range touched {
		if c := fcount[k].Load(); c != 1 {
			out = "bad"
			r.OracleFail("gos-f-not-once", line, fmt.Sprintf("key %d: f ran %d times", k, c))
		}
	}
	if lim.acq.Load() != lim.rel.Load() {
		out = "bad"
		r.OracleFail("limiter-unbalanced", line, fmt.Sprintf("Release %d Acquire %d", lim.rel.Load(), lim.acq.Load()))
	}
	if lim.rel.Load() > 0 {
		r.Count("gosrace-with-real-waiters")
	}
	r.Count("gosrace")
	r.Emit(line, out, true)
}

// ---------------------------------------------------------------- dispatch and generators

func runOp(r *lib.Run, line string) {
	f := strings.SplitN(line, " ", 3)
	atoi := func(s string) int {
		n, err := strconv.Atoi(s)
		if err != nil {
			return -1
		}
		return n
	}
	switch {
	case len(f) == 3 && (f[0] == "seq" || f[0] == "eseq"):
		runScript(r, f[0], atoi(f[1]), f[2], line)
	case len(f) == 3 && f[0] == "spec":
		toks, ok := parseScript(f[2])
		n := atoi(f[1])
		if !ok || n <= 0 || n&(n-1) != 0 || !validScript(toks, false) {
			r.Emit(line, "bad-op", false)
			return
		}
		sr := &specRun{s: newSpec()}
		var so []string
		for _, tk := range toks {
			if tk.op == "wait" {
				so = append(so, "unsupported")
				continue
			}
			tk.t = 0
			o, _, _ := sr.step(tk)
			so = append(so, o)
		}
		out := "-"
		if len(so) > 0 {
			out = strings.Join(so, ";")
		}
		r.Emit(line, out, false)
	case len(f) == 3 && (f[0] == "hist" || f[0] == "synth"):
		runHist(r, f[0], atoi(f[1]), f[2], line)
	case f[0] == "gosrace":
		g := strings.Split(line, " ")
		if len(g) != 6 {
			r.Emit(line, "bad-op", false)
			return
		}
		seed, n, th, keys, calls := atoi(g[1]), atoi(g[2]), atoi(g[3]), atoi(g[4]), atoi(g[5])
		if seed < 0 || n <= 0 || n&(n-1) != 0 || th <= 0 || keys <= 0 || calls < 0 {
			r.Emit(line, "bad-op", false)
			return
		}
		runGosRace(r, uint64(seed), n, th, keys, calls, line)
	case f[0] == "valrace" && len(f) == 3:
		// oracle only: the outcome depends on the schedule, so there is nothing to diff against the model
		n, att := atoi(f[1]), atoi(f[2])
		if n > 0 && n&(n-1) == 0 && att > 0 {
			runValRace(r, n, att, line)
		}
	default:
		r.Emit(line, "bad-op", false)
	}
}

// genScript builds a random script; it runs the specification alongside so that `wait`/`chk` only name
// channels that have been handed out.
func genScript(rng *lib.Rng, emode bool, maxLen, keys int) string {
	sr := &specRun{s: newSpec(), emode: emode}
	var toks []string
	surfaced := []int{}
	n := 1 + rng.Intn(maxLen)
	blocks := 0
	for i := 0; i < n; i++ {
		t := rng.Intn(4)
		if sr.busy(t) {
			continue
		}
		k, v := rng.Intn(keys), 1+rng.Intn(9)
		var s string
		if emode {
			switch rng.Intn(10) {
			case 0:
				s = fmt.Sprintf("%d:add:%d:%d", t, k, v)
			case 1:
				s = fmt.Sprintf("%d:aog:%d:%d", t, k, v)
			case 2:
				s = fmt.Sprintf("%d:set:%d:%d", t, k, v)
			case 3:
				s = fmt.Sprintf("%d:seterr:%d:%d", t, k, v)
			case 4, 5:
				s = fmt.Sprintf("%d:get:%d", t, k)
			case 6:
				s = fmt.Sprintf("%d:range", t)
			default:
				e := 0
				if rng.Chance(25) {
					e = v
				}
				s = fmt.Sprintf("%d:gos:%d:%d:%d", t, k, v, e)
			}
		} else {
			switch rng.Intn(12) {
			case 0, 1:
				s = fmt.Sprintf("%d:add:%d:%d", t, k, v)
			case 2:
				s = fmt.Sprintf("%d:aog:%d:%d", t, k, v)
			case 3:
				s = fmt.Sprintf("%d:set:%d:%d", t, k, v)
			case 4:
				s = fmt.Sprintf("%d:get:%d", t, k)
			case 5, 6:
				s = fmt.Sprintf("%d:gow:%d", t, k)
			case 7:
				s = fmt.Sprintf("%d:has:%d", t, k)
			case 8:
				s = fmt.Sprintf("%d:vals", t)
			default:
				if len(surfaced) == 0 {
					s = fmt.Sprintf("%d:gow:%d", t, k)
				} else if rng.Bool() {
					s = fmt.Sprintf("%d:chk:%d", t, lib.Pick(rng, surfaced))
				} else {
					s = fmt.Sprintf("%d:wait:%d", t, lib.Pick(rng, surfaced))
				}
			}
		}
		tk, _ := parseScript(s)
		before := len(sr.blocked)
		o, woke, _ := sr.step(tk[0])
		if o == "blocked" {
			if blocks >= 2 { // each blocked thread costs a confirmation delay on the real map: keep them few
				sr.blocked = sr.blocked[:before]
				continue
			}
			blocks++
		}
		_ = woke
		if tk[0].op == "gow" {
			if e, ok := sr.s.m[tk[0].a[0]]; ok && !e.isVal {
				surfaced = append(surfaced, e.ch)
			}
		}
		toks = append(toks, s)
	}
	if len(toks) == 0 {
		return "-"
	}
	return strings.Join(toks, ";")
}

func main() {
	r := lib.Start()
	defer r.Finish()
	r.Rule = "script with at least two different operations; recorded history with at least three operations; every GetOrSet race; distinct by op line"
	if ops := r.ReplayOps(); ops != nil {
		for _, op := range ops {
			runOp(r, op)
		}
		return
	}
	// 1. exhaustive: every script of up to L operations over two keys (one thread, no blocking)
	alpha := []string{"add:0:%d", "add:1:%d", "set:0:%d", "set:1:%d", "aog:0:%d", "aog:1:%d", "get:0", "get:1", "gow:0", "gow:1", "has:0", "has:1", "vals"}
	L := r.N(3, 4)
	var rec func(prefix []string, depth int)
	rec = func(prefix []string, depth int) {
		if len(prefix) > 0 {
			for _, n := range []int{1, 2} {
				if n == 2 && len(prefix) != L {
					continue
				}
				line := fmt.Sprintf("seq %d %s", n, strings.Join(prefix, ";"))
				runOp(r, line)
				r.Count("seq-exhaustive")
			}
		}
		if depth == L {
			return
		}
		for _, a := range alpha {
			s := "0:" + a
			if strings.Contains(a, "%d") {
				s = "0:" + fmt.Sprintf(a, depth+1)
			}
			rec(append(prefix, s), depth+1)
		}
	}
	rec(nil, 0)
	r.Exhaust = true
	// 2. random multi-thread scripts with blocking and wake-ups
	var lines []string
	for i := 0; i < r.N(1500, 20000); i++ {
		n := []int{1, 2, 4, 8}[r.Rng.Intn(4)]
		lines = append(lines, fmt.Sprintf("seq %d %s", n, genScript(r.Rng, false, 14, 2+r.Rng.Intn(4))))
	}
	runScripts(r, lines, "seq-random")
	lines = nil
	for i := 0; i < r.N(1000, 15000); i++ {
		n := []int{1, 2, 4}[r.Rng.Intn(3)]
		lines = append(lines, fmt.Sprintf("eseq %d %s", n, genScript(r.Rng, true, 12, 2+r.Rng.Intn(3))))
	}
	runScripts(r, lines, "eseq-random")
	// 3. malformed lines
	for _, l := range []string{"seq 0 0:add:1:1", "seq 3 0:add:1:1", "seq 4 0:gos:1:1:0", "eseq 4 0:gow:1", "seq 4 0:add:1", "seq 4 x", "foo", "seq 4 0:seterr:1:0", "hist 2 0:1:2:zap:1:t | -", "gosrace 1 0 1 1 1"} {
		runOp(r, l)
		r.Count("malformed")
	}
	// 4. concurrent histories on the real map, checked by porcupine; certificate re-checked by the Lean spec
	for i := 0; i < r.N(1200, 20000); i++ {
		n := []int{1, 1, 2, 4}[r.Rng.Intn(4)]
		threads := 2 + r.Rng.Intn(5)
		keys := 1 + r.Rng.Intn(2)
		withVals := n == 1 && r.Rng.Chance(40) // whole-map Values is one critical section only with one shard
		per := 1 + r.Rng.Intn(10)
		if !withVals && r.Rng.Chance(30) {
			per = 20 + r.Rng.Intn(60) // long programs: the threads really run at the same time
		}
		runRecorded(r, n, threads, per, keys, withVals)
	}
	for i := 0; i < r.N(1500, 40000); i++ {
		runContended(r, []int{1, 4}[r.Rng.Intn(2)])
	}
	// 4b. multi-shard Values inside histories: only the weak guarantee is checked there
	for i := 0; i < r.N(100, 2000); i++ {
		plans := genPlans(r.Rng, 3, 4, 3, true)
		h, _ := record(4, plans)
		r.Count("hist-multishard-values")
		for _, o := range h {
			if o.out == "panic" {
				r.OracleFail("map-operation-panicked", histLine("hist", 4, h, nil, false), fmt.Sprintf("%s on key %d panicked", o.op, o.k))
				break
			}
		}
		if msg := weakValues(h); msg != "" {
			r.OracleFail("values-weak-guarantee", histLine("hist", 4, h, nil, false), msg)
		}
	}
	// 5. concurrent GetOrSet
	for i := 0; i < r.N(150, 3000); i++ {
		runOp(r, fmt.Sprintf("gosrace %d %d %d %d %d", r.Rng.Intn(1<<30), []int{1, 4}[r.Rng.Intn(2)], 2+r.Rng.Intn(7), 1+r.Rng.Intn(3), 1+r.Rng.Intn(4)))
	}
	// 6. Values across shards is not one snapshot (known finding): try to exhibit it
	runOp(r, fmt.Sprintf("valrace %d %d", 1<<12, r.N(400, 4000)))
}
