// C34 harness: fs.RecursiveCopyOrLinkFile on generated trees (files with contents and permission bits, hard-linked
// pairs, nested directories, empty directories, relative and absolute symlinks) created under $VERIF_SCRATCH, against
// the Lean model (correspondence) and against a direct statement of the property (oracle).
package main

import (
	"bytes"
	"encoding/hex"
	"fmt"
	"os"
	"path/filepath"
	"sort"
	"strconv"
	"strings"
	"syscall"
	"unicode/utf8"

	"github.com/thought-machine/please/src/fs"
	"verif/harness/lib"
)

type inode struct {
	perm    int
	content []byte
}

type node struct {
	name   string
	kind   byte // 'd', 'f' (ino), 'l' (target)
	ino    int
	target string
	kids   []*node
}

func validEntry(n string) bool {
	return n != "" && n != "." && n != ".." && !strings.ContainsAny(n, "/\x00") && len(n) <= 255 && utf8.ValidString(n)
}

func unhex(s string) (out string, ok bool) {
	defer func() {
		if recover() != nil {
			ok = false
		}
	}()
	out = lib.UnHex(s)
	return out, utf8.ValidString(out) && s == lib.Hex(out)
}

func hexBytes(b []byte) string {
	if len(b) == 0 {
		return "-"
	}
	return hex.EncodeToString(b)
}

func encTree(kids []*node) string {
	var toks []string
	var rec func(ns []*node)
	rec = func(ns []*node) {
		for _, n := range ns {
			switch n.kind {
			case 'd':
				toks = append(toks, "d"+lib.Hex(n.name))
				rec(n.kids)
				toks = append(toks, "^")
			case 'f':
				toks = append(toks, "f"+lib.Hex(n.name)+":"+strconv.Itoa(n.ino))
			case 'l':
				toks = append(toks, "l"+lib.Hex(n.name)+":"+lib.Hex(n.target))
			}
		}
	}
	rec(kids)
	if len(toks) == 0 {
		return "_"
	}
	return strings.Join(toks, ",")
}

func decTree(s string, nIno int) ([]*node, bool) {
	if s == "_" {
		return nil, true
	}
	toks := strings.Split(s, ",")
	pos := 0
	ok := true
	var rec func(top bool) []*node
	rec = func(top bool) []*node {
		var out []*node
		for pos < len(toks) {
			t := toks[pos]
			pos++
			if t == "^" {
				if top {
					ok = false
				}
				return out
			}
			if len(t) < 2 {
				ok = false
				return out
			}
			parts := strings.Split(t[1:], ":")
			nm, good := unhex(parts[0])
			if !good || !validEntry(nm) {
				ok = false
				return out
			}
			for _, o := range out {
				if o.name == nm {
					ok = false
				}
			}
			n := &node{name: nm, kind: t[0]}
			switch {
			case t[0] == 'd' && len(parts) == 1:
				n.kids = rec(false)
			case t[0] == 'f' && len(parts) == 2:
				i, err := strconv.Atoi(parts[1])
				if err != nil || i < 0 || i >= nIno || strconv.Itoa(i) != parts[1] {
					ok = false
					return out
				}
				n.ino = i
			case t[0] == 'l' && len(parts) == 2:
				tg, good := unhex(parts[1])
				if !good || tg == "" || strings.ContainsRune(tg, 0) {
					ok = false
					return out
				}
				n.target = tg
			default:
				ok = false
				return out
			}
			out = append(out, n)
		}
		if !top {
			ok = false
		}
		return out
	}
	r := rec(true)
	return r, ok
}

func encInodes(is []inode) string {
	if len(is) == 0 {
		return "_"
	}
	p := make([]string, len(is))
	for i, x := range is {
		p[i] = strconv.Itoa(x.perm) + ":" + hexBytes(x.content)
	}
	return strings.Join(p, ";")
}

func decInodes(s string) ([]inode, bool) {
	if s == "_" {
		return nil, true
	}
	var out []inode
	for _, e := range strings.Split(s, ";") {
		pc := strings.Split(e, ":")
		if len(pc) != 2 {
			return nil, false
		}
		perm, err := strconv.Atoi(pc[0])
		if err != nil || perm < 0 || strconv.Itoa(perm) != pc[0] {
			return nil, false
		}
		var c []byte
		if pc[1] != "-" {
			c, err = hex.DecodeString(pc[1])
			if err != nil || hex.EncodeToString(c) != pc[1] || len(c) == 0 {
				return nil, false
			}
		}
		out = append(out, inode{perm, c})
	}
	return out, true
}

// materialise creates the tree; every inode already exists as a file in a keep-alive directory outside the tree (so
// that no inode number is freed and reused by the kernel while the case runs) and is hard-linked into place.
func materialise(dir string, kids []*node, inos []inode, first map[int]string) error {
	for _, n := range kids {
		p := filepath.Join(dir, n.name)
		var err error
		switch n.kind {
		case 'd':
			if err = os.Mkdir(p, 0o755); err == nil {
				err = materialise(p, n.kids, inos, first)
			}
		case 'f':
			err = os.Link(first[n.ino], p)
		case 'l':
			err = os.Symlink(n.target, p)
		}
		if err != nil {
			return err
		}
	}
	return nil
}

type key struct{ dev, ino uint64 }

func statKey(p string) (key, os.FileInfo, error) {
	fi, err := os.Lstat(p)
	if err != nil {
		return key{}, nil, err
	}
	st := fi.Sys().(*syscall.Stat_t)
	return key{uint64(st.Dev), st.Ino}, fi, nil
}

// dump renders what is at path p (named name) in the protocol's token format.
func dump(p, name string, known map[key]int, k int, seen *[]key, toks *[]string) error {
	ky, fi, err := statKey(p)
	if err != nil {
		return err
	}
	switch {
	case fi.Mode()&os.ModeSymlink != 0:
		t, err := os.Readlink(p)
		if err != nil {
			return err
		}
		*toks = append(*toks, "l"+lib.Hex(name)+":"+lib.Hex(t))
	case fi.IsDir():
		*toks = append(*toks, "d"+lib.Hex(name))
		es, err := os.ReadDir(p)
		if err != nil {
			return err
		}
		names := make([]string, len(es))
		for i, e := range es {
			names[i] = e.Name()
		}
		sort.Strings(names)
		for _, n := range names {
			if err := dump(filepath.Join(p, n), n, known, k, seen, toks); err != nil {
				return err
			}
		}
		*toks = append(*toks, "^")
	default:
		c, err := os.ReadFile(p)
		if err != nil {
			return err
		}
		idx, ok := known[ky]
		if !ok {
			idx = -1
			for j, s := range *seen {
				if s == ky {
					idx = k + j
				}
			}
			if idx < 0 {
				idx = k + len(*seen)
				*seen = append(*seen, ky)
			}
		}
		*toks = append(*toks, fmt.Sprintf("f%s:%d:%d:%s", lib.Hex(name), idx, int(fi.Mode().Perm()), hexBytes(c)))
	}
	return nil
}

func findTop(kids []*node, name string) *node {
	for _, k := range kids {
		if k.name == name {
			return k
		}
	}
	return nil
}

var (
	scratch string
	caseNo  int
)

// same: structural comparison for the oracle (directories entry for entry, symlink targets verbatim, file bytes;
// same inode when linking).
func same(src, dst string, link bool, detail *string) bool {
	ks, fs1, err1 := statKey(src)
	kd, fd, err2 := statKey(dst)
	if err1 != nil || err2 != nil {
		*detail = fmt.Sprintf("missing: %s (%v) / %s (%v)", src, err1, dst, err2)
		return false
	}
	switch {
	case fs1.Mode()&os.ModeSymlink != 0:
		a, _ := os.Readlink(src)
		b, err := os.Readlink(dst)
		if fd.Mode()&os.ModeSymlink == 0 || err != nil || a != b {
			*detail = fmt.Sprintf("symlink %s -> %q became %v %q", filepath.Base(src), a, fd.Mode().Type(), b)
			return false
		}
	case fs1.IsDir():
		if !fd.IsDir() {
			*detail = "directory " + filepath.Base(src) + " became " + fd.Mode().Type().String()
			return false
		}
		a, _ := os.ReadDir(src)
		b, _ := os.ReadDir(dst)
		if len(a) != len(b) {
			*detail = fmt.Sprintf("directory %s: %d entries became %d", filepath.Base(src), len(a), len(b))
			return false
		}
		for i := range a {
			if a[i].Name() != b[i].Name() || !same(filepath.Join(src, a[i].Name()), filepath.Join(dst, b[i].Name()), link, detail) {
				if *detail == "" {
					*detail = "entry names differ in " + filepath.Base(src)
				}
				return false
			}
		}
	default:
		if !fd.Mode().IsRegular() {
			*detail = "file " + filepath.Base(src) + " became " + fd.Mode().Type().String()
			return false
		}
		a, _ := os.ReadFile(src)
		b, _ := os.ReadFile(dst)
		if !bytes.Equal(a, b) {
			*detail = "contents of " + filepath.Base(src) + " differ"
			return false
		}
		if link && ks != kd {
			*detail = filepath.Base(src) + " was copied, not hard-linked"
			return false
		}
	}
	return true
}

func snapshot(p string) string {
	var toks []string
	seen := []key{}
	if err := dump(p, "x", map[key]int{}, 0, &seen, &toks); err != nil {
		return "err:" + err.Error()
	}
	return strings.Join(toks, ",")
}

func runOp(r *lib.Run, op string) {
	f := strings.Split(op, " ")
	if len(f) != 8 || f[0] != "copy" || (f[2] != "0" && f[2] != "1") || (f[3] != "0" && f[3] != "1") {
		r.Emit(op, "bad-op", false)
		return
	}
	mode, err := strconv.Atoi(f[1])
	from, ok1 := unhex(f[4])
	to, ok2 := unhex(f[5])
	inos, ok3 := decInodes(f[6])
	if err != nil || mode < 0 || strconv.Itoa(mode) != f[1] || !ok1 || !ok2 || !ok3 {
		r.Emit(op, "bad-op", false)
		return
	}
	kids, ok4 := decTree(f[7], len(inos))
	if !ok4 || !validEntry(to) || from == to {
		r.Emit(op, "bad-op", false)
		return
	}
	src := findTop(kids, from)
	if src == nil {
		r.Emit(op, "no-source", false)
		return
	}
	link, fallback := f[2] == "1", f[3] == "1"
	caseNo++
	dir := filepath.Join(scratch, fmt.Sprintf("t%d", caseNo))
	if err := os.Mkdir(dir, 0o755); err != nil {
		panic(err)
	}
	defer func() {
		filepath.Walk(dir, func(p string, fi os.FileInfo, err error) error { // make everything removable again
			if err == nil && fi.IsDir() {
				os.Chmod(p, 0o755)
			}
			return nil
		})
		os.RemoveAll(dir)
	}()
	first := map[int]string{}
	keep := dir + ".keep"
	if err := os.Mkdir(keep, 0o755); err != nil {
		panic(err)
	}
	defer os.RemoveAll(keep)
	for i, ino := range inos {
		p := filepath.Join(keep, strconv.Itoa(i))
		if err := os.WriteFile(p, ino.content, 0o600); err != nil {
			panic(err)
		}
		if err := os.Chmod(p, os.FileMode(ino.perm)); err != nil {
			panic(err)
		}
		first[i] = p
	}
	if err := materialise(dir, kids, inos, first); err != nil {
		panic(fmt.Sprintf("cannot create tree for %s: %v", op, err))
	}
	known := map[key]int{}
	for i, p := range first {
		k, _, err := statKey(p)
		if err != nil {
			panic(err)
		}
		known[k] = i
	}
	fromP, toP := filepath.Join(dir, from), filepath.Join(dir, to)
	before := snapshot(fromP)
	// everything else in the directory (other trees a pre-existing destination may be hard-linked into)
	bystanders := func() string {
		var parts []string
		for _, k := range kids {
			if k.name != from && k.name != to {
				parts = append(parts, k.name+"="+snapshot(filepath.Join(dir, k.name)))
			}
		}
		return strings.Join(parts, ";")
	}
	othersBefore := bystanders()
	_, _, existedErr := statKey(toP)
	fresh := existedErr != nil

	cerr := fs.RecursiveCopyOrLinkFile(fromP, toP, os.FileMode(mode), link, fallback)

	after := snapshot(fromP)
	out := "error"
	if cerr == nil {
		var toks []string
		seen := []key{}
		if err := dump(toP, to, known, len(inos), &seen, &toks); err != nil {
			out = "error-reading-destination"
		} else {
			out = strings.Join(toks, ",")
			if before == after {
				out += " src-same"
			} else {
				out += " src-CHANGED"
			}
		}
	}

	// direct oracle
	if before != after {
		r.OracleFail("source-modified", op, "before="+before+" after="+after)
	}
	if oa := bystanders(); oa != othersBefore {
		r.OracleFail("bystander-tree-modified", op, "a tree that is neither source nor destination changed: before="+othersBefore+" after="+oa)
		if cerr == nil && !strings.HasSuffix(out, "CHANGED") {
			out += " others-CHANGED"
		}
	}
	nontrivial := false
	if fresh {
		r.Count("dest:fresh")
		detail := ""
		switch {
		case cerr != nil:
			detail = "copy failed: " + cerr.Error()
		case !same(fromP, toP, link, &detail):
		default:
			r.Count("oracle:faithful")
			nontrivial = src.kind == 'd' && len(src.kids) > 0
		}
		if detail != "" {
			class := "unexplained"
			if src.kind == 'l' && !link {
				class = "toplevel-symlink-dereferenced"
			}
			r.OracleFail(class, op, detail)
		}
	} else {
		r.Count("dest:pre-existing")
	}
	if cerr != nil {
		r.Count("result:error")
	}
	r.Emit(op, out, nontrivial)
}

// ---------------------------------------------------------------- generator

var names = []string{"a", "b", "c.txt", "bin", "lib", "x y", "é", "e", "d", "l", "ln", ".hid", "out", "z", "t", "s.sh", "BUILD"}
var targets = []string{"a", "../a", "./b", "d/c.txt", "../../x", "/nonexistent/abs", "", "e", "..", "a/../b", "é"}
var perms = []int{0o644, 0o755, 0o444, 0o555, 0o600, 0o700, 0o664, 0o400}
var modes = []int{0, 0o444, 0o555, 0o644, 0o755, 0o664, 0o775, 0o600}

type gen struct {
	r    *lib.Run
	inos []inode
}

func (g *gen) newInode() int {
	rng := g.r.Rng
	n := rng.Intn(6)
	if rng.Chance(10) {
		n = 200 + rng.Intn(300)
	}
	c := make([]byte, n)
	for i := range c {
		c[i] = byte(rng.Intn(256))
	}
	g.inos = append(g.inos, inode{lib.Pick(rng, perms), c})
	return len(g.inos) - 1
}

func (g *gen) file(name string) *node {
	rng := g.r.Rng
	if len(g.inos) > 0 && rng.Chance(20) {
		g.r.Count("gen:hard-linked-pair")
		return &node{name: name, kind: 'f', ino: rng.Intn(len(g.inos))}
	}
	return &node{name: name, kind: 'f', ino: g.newInode()}
}

func (g *gen) tree(depth, maxDepth int) []*node {
	rng := g.r.Rng
	n := rng.Intn(5)
	used := map[string]bool{}
	var out []*node
	for i := 0; i < n; i++ {
		nm := lib.Pick(rng, names)
		if used[nm] {
			continue
		}
		used[nm] = true
		switch x := rng.Intn(100); {
		case x < 30 && depth < maxDepth:
			d := &node{name: nm, kind: 'd', kids: g.tree(depth+1, maxDepth)}
			if len(d.kids) == 0 {
				g.r.Count("gen:empty-dir")
			}
			out = append(out, d)
		case x < 80:
			out = append(out, g.file(nm))
		default:
			t := lib.Pick(rng, targets)
			if t == "" {
				t = nm + "x"
			}
			g.r.Count("gen:nested-symlink")
			out = append(out, &node{name: nm, kind: 'l', target: t})
		}
	}
	return out
}

func (g *gen) one(maxDepth int) string {
	rng := g.r.Rng
	g.inos = nil
	var top []*node
	// the source
	var src *node
	switch x := rng.Intn(100); {
	case x < 70:
		src = &node{name: "src", kind: 'd', kids: g.tree(1, maxDepth)}
		g.r.Count("src:dir")
	case x < 85:
		src = g.file("src")
		src.name = "src"
		g.r.Count("src:file")
	default:
		// a top-level symlink: to a sibling file, a sibling directory, a file inside it, another symlink, or nothing
		t := lib.Pick(rng, []string{"tf", "td", "td/in", "tl", "missing"})
		src = &node{name: "src", kind: 'l', target: t}
		g.r.Count("src:symlink")
	}
	top = append(top, src)
	top = append(top, g.file("tf"))
	top = append(top, &node{name: "td", kind: 'd', kids: []*node{g.file("in")}})
	top = append(top, &node{name: "tl", kind: 'l', target: "tf"})
	// the destination: mostly fresh, sometimes something is already there
	if rng.Chance(25) {
		var d *node
		switch x := rng.Intn(100); {
		case x < 35:
			d = g.file("dst")
		case x < 45:
			d = &node{name: "dst", kind: 'l', target: "missing"}
		case x < 50:
			d = &node{name: "dst", kind: 'l', target: "tf"}
		default:
			d = &node{name: "dst", kind: 'd', kids: g.preexisting(src)}
		}
		d.name = "dst"
		top = append(top, d)
	}
	mode := lib.Pick(rng, modes)
	link, fallback := rng.Chance(50), rng.Chance(50)
	if rng.Chance(30) { // the two public entry points
		if rng.Bool() {
			link, fallback = false, false // RecursiveCopy
		} else {
			mode, link, fallback = 0, true, true // RecursiveLink
		}
	}
	b := func(x bool) string {
		if x {
			return "1"
		}
		return "0"
	}
	return strings.Join([]string{"copy", strconv.Itoa(mode), b(link), b(fallback), lib.Hex("src"), lib.Hex("dst"), encInodes(g.inos), encTree(top)}, " ")
}

// preexisting destination directory: a few entries, some of which collide with source entries (never a symlink to a
// directory: os.MkdirAll would follow it and write elsewhere, which the model does not describe)
func (g *gen) preexisting(src *node) []*node {
	rng := g.r.Rng
	var out []*node
	used := map[string]bool{}
	if src.kind == 'd' {
		for _, k := range src.kids {
			if rng.Chance(40) && !used[k.name] {
				used[k.name] = true
				switch x := rng.Intn(100); {
				case x < 50:
					out = append(out, g.file(k.name))
				case x < 75:
					out = append(out, &node{name: k.name, kind: 'd'})
				default:
					out = append(out, &node{name: k.name, kind: 'l', target: "missing"})
				}
			}
		}
	}
	if rng.Chance(50) && !used["other"] {
		out = append(out, g.file("other"))
	}
	return out
}

// exhaustive family: every source kind x mode x (link, fallback) x destination state
func exhaustive(r *lib.Run) {
	inos := []inode{{0o755, []byte{1, 2}}, {0o600, []byte{}}, {0o444, []byte{9}}}
	f := func(n string, i int) *node { return &node{name: n, kind: 'f', ino: i} }
	l := func(n, t string) *node { return &node{name: n, kind: 'l', target: t} }
	d := func(n string, k ...*node) *node { return &node{name: n, kind: 'd', kids: k} }
	srcs := []*node{
		d("src"),
		d("src", f("a", 0), f("b", 0), d("e"), l("l", "../tf"), d("d", f("c", 1), l("up", ".."))),
		d("src", d("d", d("d", d("d", f("deep", 2))))),
		f("src", 0), f("src", 1),
		l("src", "tf"), l("src", "td"), l("src", "td/in"), l("src", "tl"), l("src", "missing"),
	}
	dsts := []*node{nil, f("dst", 2), d("dst"), d("dst", f("a", 2), d("d", f("c", 2))), d("dst", d("a")), l("dst", "missing"), d("dst", l("l", "missing"))}
	for _, s := range srcs {
		for _, ds := range dsts {
			for _, mode := range []int{0, 0o444, 0o755} {
				for _, lf := range [][2]string{{"0", "0"}, {"1", "0"}, {"1", "1"}, {"0", "1"}} {
					top := []*node{s, f("tf", 2), d("td", f("in", 1)), l("tl", "tf")}
					if ds != nil {
						top = append(top, ds)
					}
					runOp(r, strings.Join([]string{"copy", strconv.Itoa(mode), lf[0], lf[1], lib.Hex("src"), lib.Hex("dst"), encInodes(inos), encTree(top)}, " "))
					r.Count("exhaustive-family")
				}
			}
		}
	}
}

// otherFsTemp returns a fresh directory on a file system other than the one holding `here` ("" if none is available).
func otherFsTemp(here string) string {
	k0, _, err := statKey(here)
	if err != nil {
		return ""
	}
	for _, base := range []string{"/dev/shm", "/run/shm", "/tmp", "/var/tmp"} {
		k, fi, err := statKey(base)
		if err != nil || !fi.IsDir() || k.dev == k0.dev {
			continue
		}
		if d, err := os.MkdirTemp(base, "verif-c34-"); err == nil {
			return d
		}
	}
	return ""
}

func main() {
	r := lib.Start()
	defer r.Finish()
	r.Rule = "source is a non-empty directory, destination fresh, copy succeeded and reproduces it; distinct by op line"
	syscall.Umask(0o022)
	scratch = os.Getenv("VERIF_SCRATCH")
	if scratch == "" {
		scratch = r.OutDir
	}
	scratch, _ = filepath.Abs(filepath.Join(scratch, "c34-trees"))
	if err := os.MkdirAll(scratch, 0o755); err != nil {
		panic(err)
	}
	defer os.RemoveAll(scratch)
	// A temp dir on ANOTHER file system: fs.WriteFile stages next to the destination today and ignores it; should it
	// ever stage in $TMPDIR, rename(2) fails with EXDEV here and the in-place fallback of renameFile becomes reachable.
	if td := otherFsTemp(scratch); td != "" {
		os.Setenv("TMPDIR", td)
		defer os.RemoveAll(td)
		r.Count("env:TMPDIR-on-another-filesystem")
	}
	if ops := r.ReplayOps(); ops != nil {
		for _, op := range ops {
			runOp(r, op)
		}
		return
	}
	exhaustive(r)
	r.Exhaust = true
	g := &gen{r: r}
	for i := 0; i < r.N(2500, 25000); i++ {
		runOp(r, g.one(r.N(3, 4)))
	}
	for _, op := range []string{"copy", "copy 420 0 0 73 74 _", "copy 420 2 0 73 74 _ _", "copy 420 0 0 73 73 _ d73,^", "copy 420 0 0 73 74 _ f73:0", "copy 0420 0 0 73 74 _ d73,^", "zzz"} {
		runOp(r, op)
		r.Count("malformed")
	}
}
