// C38 harness: translation validation of `plz fmt`.
//
// For every generated (or repository) BUILD program the real per-file formatting step is run (src/format via
// c38_verif.go), then
//
//	(i)   before and after are evaluated with the real asp interpreter (values of all package-level names, every
//	      target with every printed attribute) and compared,
//	(ii)  the token streams of before / after (real lexer) are compared modulo layout, and the same comparison
//	      is made by the Lean lexer model (Driver/C38.lean) — the correspondence stream,
//	(iii) a second formatting pass must be the identity,
//	(iv)  please's own `simplify` step (merging consecutive subincludes) is run on statement lists and compared
//	      with the Lean model, for which simplify_preserves / simplify_idem are proved.
//
// ops:
//
//	fmt <hex-before> <hex-after>   `after` is what the real formatter produced on this run (recomputed on replay)
//	simp <stmts>                   stmts = ';'-separated: s:<l1>,<l2>… (subinclude of string labels; s:- = no args)
//	                               | n (subinclude with a non-string argument) | o (some other statement)
package main

import (
	"bytes"
	"encoding/hex"
	"encoding/json"
	"fmt"
	"io"
	"os"
	"path/filepath"
	"sort"
	"strconv"
	"strings"
	"time"

	"github.com/thought-machine/please/src/cli"
	"github.com/thought-machine/please/src/core"
	"github.com/thought-machine/please/src/format"
	"github.com/thought-machine/please/src/parse"
	"github.com/thought-machine/please/src/parse/asp"
	"github.com/thought-machine/please/src/query"
	"verif/harness/lib"
)

func hexB(b []byte) string {
	if len(b) == 0 {
		return "-"
	}
	return hex.EncodeToString(b)
}

func unhex(s string) ([]byte, bool) {
	if s == "-" {
		return nil, true
	}
	b, err := hex.DecodeString(s)
	return b, err == nil
}

// ---------------------------------------------------------------- real formatter

var scratch string
var fileN int

func formatReal(before []byte) (after []byte, err error) {
	fileN++
	dir := filepath.Join(scratch, "fmt", strconv.Itoa(fileN%64))
	os.MkdirAll(dir, 0o755)
	fn := filepath.Join(dir, "BUILD")
	if err := os.WriteFile(fn, before, 0o644); err != nil {
		panic(err)
	}
	if _, err := format.FormatFileForVerif(fn); err != nil {
		return nil, err
	}
	after, err = os.ReadFile(fn)
	return after, err
}

// ---------------------------------------------------------------- real evaluation

func capture(f func()) string {
	old := os.Stdout
	r, w, _ := os.Pipe()
	os.Stdout = w
	done := make(chan string)
	go func() { var b bytes.Buffer; io.Copy(&b, r); done <- b.String() }()
	f()
	w.Close()
	os.Stdout = old
	return <-done
}

type evaluator struct {
	state *core.BuildState
	p     *asp.Parser
	n     int
}

func newEval() *evaluator {
	s := core.NewDefaultBuildState()
	parse.InitParser(s)
	return &evaluator{state: s, p: parse.GetAspParser(s)}
}

type evalResult struct {
	parsed  bool
	err     string
	globals []string
	targets map[string]map[string]interface{}
}

// eval with a watchdog: a BUILD file that waits for a target to be built (subinclude of a real target, …)
// would block for ever in a harness that builds nothing.
func (e *evaluator) eval(data []byte) evalResult {
	if bytes.Contains(data, []byte("subinclude(")) {
		return evalResult{err: "skipped: subinclude needs a build"}
	}
	ch := make(chan evalResult, 1)
	go func() { ch <- e.eval1(data) }()
	select {
	case res := <-ch:
		return res
	case <-time.After(5 * time.Second):
		*e = *newEval() // the old state is owned by the stuck goroutine
		return evalResult{err: "skipped: evaluation blocked"}
	}
}

func (e *evaluator) eval1(data []byte) evalResult {
	e.n++
	if e.n%2000 == 0 { // keep the graph small
		*e = *newEval()
		e.n = 1
	}
	pkg := core.NewPackage(fmt.Sprintf("zqpkg%d", e.n))
	pkg.Filename = pkg.Name + "/BUILD"
	globals, parsed, err := asp.EvalForVerifC38(e.p, pkg, data, pkg.Filename)
	if err != nil {
		msg := err.Error()
		if i := strings.Index(msg, "\n"); i >= 0 {
			msg = msg[:i]
		}
		return evalResult{parsed: parsed, err: strings.ReplaceAll(msg, pkg.Name, "PKG")}
	}
	var labels []core.BuildLabel
	for _, t := range pkg.AllTargets() {
		labels = append(labels, t.Label)
	}
	res := evalResult{parsed: true, targets: map[string]map[string]interface{}{}}
	for _, g := range globals {
		res.globals = append(res.globals, strings.ReplaceAll(g, pkg.Name, "PKG"))
	}
	if len(labels) > 0 {
		out := capture(func() { query.Print(e.state, labels, nil, nil, false, true) })
		out = strings.ReplaceAll(out, pkg.Name, "PKG")
		if err := json.Unmarshal([]byte(out), &res.targets); err != nil {
			res.err = "query print: " + err.Error()
		}
	}
	return res
}

func canon(v interface{}, sortLists bool) string {
	if sortLists {
		v = sortedCopy(v)
	}
	b, _ := json.Marshal(v)
	return string(b)
}

func sortedCopy(v interface{}) interface{} {
	switch x := v.(type) {
	case []interface{}:
		out := make([]interface{}, len(x))
		for i := range x {
			out[i] = sortedCopy(x[i])
		}
		sort.Slice(out, func(i, j int) bool { return canon(out[i], false) < canon(out[j], false) })
		return out
	case map[string]interface{}:
		out := map[string]interface{}{}
		for k, e := range x {
			out[k] = sortedCopy(e)
		}
		return out
	case map[string]map[string]interface{}:
		out := map[string]interface{}{}
		for k, e := range x {
			out[k] = sortedCopy(e)
		}
		return out
	}
	return v
}

// ---------------------------------------------------------------- token streams modulo layout

type tok struct {
	ty  int
	val string
}

// layoutNormal: drop EOL / Unindent, and a comma directly before a closing bracket.
func layoutNormal(ts []asp.VerifToken) []tok {
	var out []tok
	for _, t := range ts {
		if t.Type == -6 || t.Type == -7 {
			continue
		}
		if (t.Type == ')' || t.Type == ']' || t.Type == '}') && len(out) > 0 && out[len(out)-1].ty == ',' {
			out = out[:len(out)-1]
		}
		out = append(out, tok{t.Type, t.Value})
	}
	return out
}

func lexVerdictSide(data []byte) ([]tok, string) {
	ts, o := asp.LexForVerif(data, "verif.build", 0)
	if o.Class != "ok" {
		return nil, fmt.Sprintf("%d", o.Offset)
	}
	return layoutNormal(ts), ""
}

func tokenVerdict(before, after []byte) string {
	tb, eb := lexVerdictSide(before)
	ta, ea := lexVerdictSide(after)
	switch {
	case eb != "" && ea != "":
		return "lexfail-both"
	case eb != "":
		return "lexfail-before:" + eb
	case ea != "":
		return "lexfail-after:" + ea
	}
	n := len(tb)
	if len(ta) < n {
		n = len(ta)
	}
	for i := 0; i < n; i++ {
		if tb[i] != ta[i] {
			return fmt.Sprintf("diff:%d", i)
		}
	}
	if len(tb) != len(ta) {
		return fmt.Sprintf("diff:%d", n)
	}
	return fmt.Sprintf("same:%d", len(tb))
}

// ---------------------------------------------------------------- ops

var evB, evA *evaluator

func runFmt(r *lib.Run, before []byte, tag string) {
	after, ferr := formatReal(before)
	if ferr != nil {
		// buildtools cannot parse it: `plz fmt` reports the error and leaves the file alone
		r.Count("fmt:formatter-rejects")
		rb := evB.eval(before)
		if rb.err == "" {
			r.Count("fmt:formatter-rejects-what-asp-accepts")
		}
		r.Emit("fmt "+hexB(before)+" "+hexB(before), tokenVerdict(before, before), false)
		return
	}
	op := "fmt " + hexB(before) + " " + hexB(after)
	verdict := tokenVerdict(before, after)
	r.Count("fmt:tokens-" + strings.SplitN(verdict, ":", 2)[0])
	changed := !bytes.Equal(before, after)
	if changed {
		r.Count("fmt:changed")
	}
	// (iii) a second pass is the identity
	again, err2 := formatReal(after)
	if err2 != nil {
		r.OracleFail("fmt-output-rejected-by-formatter", op, err2.Error())
	} else if !bytes.Equal(again, after) {
		r.OracleFail("fmt-not-idempotent", op, fmt.Sprintf("second pass differs (%d vs %d bytes)", len(after), len(again)))
	}
	// (i) evaluation before / after
	rb := evB.eval(before)
	nontrivial := false
	if rb.err != "" {
		r.Count("fmt:before-not-accepted")
		if !rb.parsed {
			r.Count("fmt:before-not-parsed")
		}
	} else {
		ra := evA.eval(after)
		nontrivial = changed && (len(rb.targets) > 0 || len(rb.globals) > 0)
		r.Count("fmt:evaluated")
		if len(rb.targets) > 0 {
			r.Count("fmt:evaluated-with-targets")
		}
		switch {
		case ra.err != "" && !ra.parsed && strings.Contains(ra.err, "Unknown symbol \\"):
			r.OracleFail("fmt-backslash-continuation", op, ra.err)
		case ra.err != "" && !ra.parsed && strings.Contains(ra.err, "unexpected token o") && bytes.Contains(after, []byte("-0o")) && !bytes.Contains(before, []byte("-0o")):
			r.OracleFail("fmt-negative-octal", op, ra.err)
		case ra.err != "" && !ra.parsed:
			r.OracleFail("fmt-output-rejected", op, ra.err)
		case ra.err != "":
			r.OracleFail("fmt-output-fails-evaluation", op, ra.err)
		default:
			gb, ga := strings.Join(rb.globals, "\n"), strings.Join(ra.globals, "\n")
			tb, ta := canon(rb.targets, false), canon(ra.targets, false)
			if gb != ga {
				cls := "fmt-changes-values"
				if isPrecedenceParens(before, after, rb.globals, ra.globals) {
					cls = "fmt-is-precedence-parens"
				}
				r.OracleFail(cls, op, firstDiff(gb, ga))
			}
			if tb != ta {
				if canon(rb.targets, true) == canon(ra.targets, true) {
					r.OracleFail("fmt-sorts-list-attribute", op, firstDiff(tb, ta))
				} else {
					r.OracleFail("fmt-changes-targets", op, firstDiff(tb, ta))
				}
			}
		}
	}
	r.Count(tag)
	r.Emit(op, verdict, nontrivial)
}

// stmtRuns splits a token stream into statements (runs between EOL / Unindent tokens), keyed by the leading
// identifier; each run is layout-normalised and stripped of parentheses.
func stmtRuns(data []byte) (map[string][][]tok, map[string]bool) {
	ts, o := asp.LexForVerif(data, "verif.build", 0)
	if o.Class != "ok" {
		return nil, nil
	}
	runs := map[string][][]tok{}
	hasIs := map[string]bool{}
	var cur []asp.VerifToken
	flush := func() {
		if len(cur) > 0 && cur[0].Type == -2 {
			key := cur[0].Value
			var out []tok
			for _, t := range layoutNormal(cur) {
				if t.ty == '(' || t.ty == ')' {
					continue
				}
				if t.ty == -2 && t.val == "is" {
					hasIs[key] = true
				}
				out = append(out, t)
			}
			runs[key] = append(runs[key], out)
		}
		cur = nil
	}
	for _, t := range ts {
		if t.Type == -6 || t.Type == -7 || t.Type == -1 {
			flush()
			continue
		}
		cur = append(cur, t)
	}
	flush()
	return runs, hasIs
}

// isPrecedenceParens is the class predicate of the known `is` precedence defect: every package-level name
// whose value changed is assigned by statements that use the `is` operator and that differ before / after
// (modulo layout) only in parentheses.
func isPrecedenceParens(before, after []byte, gb, ga []string) bool {
	vals := func(gs []string) map[string]string {
		m := map[string]string{}
		for _, g := range gs {
			if i := strings.Index(g, "="); i > 0 {
				m[g[:i]] = g[i+1:]
			}
		}
		return m
	}
	mb, ma := vals(gb), vals(ga)
	rb, isB := stmtRuns(before)
	ra, _ := stmtRuns(after)
	if rb == nil || ra == nil || len(mb) != len(ma) {
		return false
	}
	changed := 0
	for name, v := range mb {
		if ma[name] == v {
			continue
		}
		changed++
		if !isB[name] || len(rb[name]) != len(ra[name]) {
			return false
		}
		for k := range rb[name] {
			x, y := rb[name][k], ra[name][k]
			if len(x) != len(y) {
				return false
			}
			for q := range x {
				if x[q] != y[q] {
					return false
				}
			}
		}
	}
	return changed > 0
}

func firstDiff(a, b string) string {
	i := 0
	for i < len(a) && i < len(b) && a[i] == b[i] {
		i++
	}
	s := i - 40
	if s < 0 {
		s = 0
	}
	e := func(x string) string {
		if i+60 < len(x) {
			return x[s : i+60]
		}
		return x[s:]
	}
	return "before …" + e(a) + "… after …" + e(b) + "…"
}

// statement lists for simplify
func stmtSource(code string, i int) string {
	switch {
	case code == "o":
		return []string{fmt.Sprintf("x%d = %d", i, i), fmt.Sprintf("filegroup(name = \"f%d\")", i), fmt.Sprintf("def f%d():\n    pass", i), "include(\"//a:b\")", fmt.Sprintf("# c\ny%d = [subinclude]", i)}[i%5]
	case code == "n":
		return []string{"subinclude(LABEL)", "subinclude(\"//a:b\", hash = \"h\")", "subinclude(\"//x:\" + y)", "subinclude(*labels)", "subinclude(cfg.label)"}[i%5]
	case strings.HasPrefix(code, "s:"):
		if code == "s:-" {
			return "subinclude()"
		}
		ls := strings.Split(code[2:], ",")
		for j := range ls {
			ls[j] = strconv.Quote(ls[j])
		}
		return "subinclude(" + strings.Join(ls, ", ") + ")"
	}
	return ""
}

func runSimp(r *lib.Run, op string, codes []string) {
	var src strings.Builder
	for i, c := range codes {
		s := stmtSource(c, i)
		if s == "" {
			r.Emit(op, "bad-op", false)
			return
		}
		src.WriteString(s + "\n")
	}
	before, after, err := format.SimplifyForVerif([]byte(src.String()))
	if err != nil {
		r.Emit(op, "parse-error", false)
		r.OracleFail("simp-generator", op, err.Error())
		return
	}
	enc := func(ds []string) string {
		// other:<k> -> o<k>;  non-string subincludes are "other" for simplify as well
		out := make([]string, len(ds))
		for i, d := range ds {
			if strings.HasPrefix(d, "sub:") {
				if d == "sub:" {
					out[i] = "s:-"
				} else {
					out[i] = "s:" + d[4:]
				}
			} else {
				out[i] = "o" + strings.TrimPrefix(d, "other:")
			}
		}
		if len(out) == 0 {
			return "-"
		}
		return strings.Join(out, ";")
	}
	// direct oracle: the flattened sequence (labels in order, other statements as barriers) is unchanged,
	// no two mergeable subincludes remain adjacent
	flat := func(ds []string) string {
		var f []string
		for _, d := range ds {
			if strings.HasPrefix(d, "sub:") {
				if d != "sub:" {
					f = append(f, strings.Split(d[4:], ",")...)
				}
			} else {
				f = append(f, "|"+d)
			}
		}
		return strings.Join(f, " ")
	}
	if flat(before) != flat(after) {
		r.OracleFail("simplify-changes-label-sequence", op, flat(before)+" => "+flat(after))
	}
	for i := 0; i+1 < len(after); i++ {
		if strings.HasPrefix(after[i], "sub:") && strings.HasPrefix(after[i+1], "sub:") {
			r.OracleFail("simplify-leaves-adjacent-subincludes", op, enc(after))
			break
		}
	}
	nsub := 0
	for _, c := range codes {
		if strings.HasPrefix(c, "s:") {
			nsub++
		}
	}
	r.Emit(op, enc(after), nsub >= 2)
}

func runOp(r *lib.Run, op string) {
	f := strings.Split(op, " ")
	switch {
	case len(f) == 3 && f[0] == "fmt":
		if b, ok := unhex(f[1]); ok {
			runFmt(r, b, "fmt:replayed")
			return
		}
	case len(f) == 2 && f[0] == "simp":
		if f[1] == "-" {
			runSimp(r, op, nil)
		} else {
			runSimp(r, op, strings.Split(f[1], ";"))
		}
		return
	}
	r.Emit(op, "bad-op", false)
}

// ---------------------------------------------------------------- generators

type gen struct {
	rng   *lib.Rng
	noisy bool // layout noise: quotes, spacing, trailing commas, parentheses, line breaks
	names map[string]string
	sorted bool // keep list literals sorted and keyword arguments in canonical order (no buildifier rewrites expected)
}

func (g *gen) q(s string) string {
	if g.noisy && g.rng.Chance(40) && !strings.ContainsAny(s, "'\\") {
		return "'" + s + "'"
	}
	return "\"" + s + "\""
}

func (g *gen) sp() string {
	if g.noisy {
		return lib.Pick(g.rng, []string{"", " ", " ", "  "})
	}
	return " "
}

func (g *gen) paren(s string) string {
	if g.noisy && g.rng.Chance(15) {
		return "(" + s + ")"
	}
	return s
}

var words = []string{"a", "b", "lib", "main", "x.go", "y.go", "//pkg:pkg", "//third_party/go:z", ":local", "b.txt", "a.txt", "z", "src/m.c", "v1.2", "PUBLIC", "//a/b/c:c", "//a/b:x_test"}

func (g *gen) strLit() string {
	w := lib.Pick(g.rng, words)
	switch g.rng.Intn(10) {
	case 0:
		return "r" + g.q(strings.ReplaceAll(w, ".", `\.`)+`\d+`)
	case 1:
		return "f" + g.q("p-{sv}-"+w)
	case 2:
		if g.rng.Chance(50) {
			return g.q(w) + " " + g.q(lib.Pick(g.rng, words)) // implicit concatenation
		}
		return g.q(w)
	case 3:
		return g.q("it's " + w)
	case 4:
		return g.q(w + `\n` + `\t` + `\\`)
	case 5:
		return g.q("say \\\"" + w + "\\\"")
	default:
		return g.q(w)
	}
}

func (g *gen) strExpr(d int) string {
	if d <= 0 {
		return g.strLit()
	}
	switch g.rng.Intn(9) {
	case 0:
		return g.paren(g.strExpr(d-1) + g.sp() + "+" + g.sp() + g.strExpr(d-1))
	case 1:
		return g.paren(g.strExpr(d-1) + " if " + g.boolExpr(d-1) + " else " + g.strExpr(d-1))
	case 2:
		return "sv"
	case 3:
		return g.q("{}-{}") + ".format(" + g.strExpr(d-1) + "," + g.sp() + g.intExpr(d-1) + ")"
	case 4:
		return g.q(",") + ".join(" + g.listExpr(d-1) + ")"
	case 5:
		return "str(" + g.intExpr(d-1) + ")"
	case 6:
		return g.strLit() + ".upper()"
	case 7:
		return g.listExpr(d-1) + "[0]"
	default:
		return g.strLit()
	}
}

func (g *gen) intExpr(d int) string {
	if d <= 0 {
		return lib.Pick(g.rng, []string{"0", "1", "2", "7", "42", "-3", "0o17", "100", "iv"})
	}
	switch g.rng.Intn(8) {
	case 0:
		return g.paren(g.intExpr(d-1) + g.sp() + lib.Pick(g.rng, []string{"+", "-", "*"}) + g.sp() + g.intExpr(d-1))
	case 1:
		return "len(" + g.listExpr(d-1) + ")"
	case 2:
		return g.paren(g.intExpr(d-1) + " if " + g.boolExpr(d-1) + " else " + g.intExpr(d-1))
	case 3:
		return "(" + g.intExpr(d-1) + " + 1) * 2"
	case 4:
		return g.intExpr(d-1) + " % 5"
	case 5:
		return "-" + g.paren(g.intExpr(d-1))
	default:
		return g.intExpr(0)
	}
}

func (g *gen) boolExpr(d int) string {
	if d <= 0 {
		return lib.Pick(g.rng, []string{"True", "False", "bv"})
	}
	switch g.rng.Intn(9) {
	case 0:
		return g.paren(g.intExpr(d-1) + g.sp() + lib.Pick(g.rng, []string{"<", ">", "<=", ">=", "==", "!="}) + g.sp() + g.intExpr(d-1))
	case 1:
		return g.paren(g.boolExpr(d-1) + " and " + g.boolExpr(d-1))
	case 2:
		return g.paren(g.boolExpr(d-1) + " or " + g.boolExpr(d-1))
	case 3:
		return "not " + g.paren(g.boolExpr(d-1))
	case 4:
		return g.paren(g.strLit() + " in " + g.listExpr(d-1))
	case 5:
		return g.paren(g.strLit() + " not in " + g.listExpr(d-1))
	case 6:
		return g.paren("nv is None")
	case 7:
		return g.paren("sv is not None")
	default:
		return g.boolExpr(0)
	}
}

func (g *gen) items(n int, f func() string) string {
	its := make([]string, n)
	for i := range its {
		its[i] = f()
	}
	if g.sorted {
		sort.Strings(its)
	}
	if !g.noisy || n == 0 {
		return strings.Join(its, ", ")
	}
	switch g.rng.Intn(4) {
	case 0: // one per line, trailing comma
		return "\n    " + strings.Join(its, ",\n    ") + ",\n"
	case 1: // odd indentation, no trailing comma
		return "\n  " + strings.Join(its, ",\n        ") + "\n"
	case 2:
		return strings.Join(its, ",") + ","
	default:
		return strings.Join(its, ", ")
	}
}

func (g *gen) listExpr(d int) string {
	if d <= 0 {
		return lib.Pick(g.rng, []string{"lv", "[" + g.items(1+g.rng.Intn(3), func() string { return g.q(lib.Pick(g.rng, words)) }) + "]"})
	}
	switch g.rng.Intn(8) {
	case 0:
		return "[" + g.sp() + g.strExpr(d-1) + " for e in " + g.listExpr(d-1) + g.sp() + "]"
	case 1:
		return "[e + " + g.strLit() + " for e in " + g.listExpr(d-1) + " if e != " + g.strLit() + "]"
	case 2:
		return g.paren(g.listExpr(d-1) + g.sp() + "+" + g.sp() + g.listExpr(d-1))
	case 3:
		return "[a + b for a in " + g.listExpr(d-1) + " for b in " + g.listExpr(0) + "]"
	case 4:
		return g.listExpr(d-1) + "[1:]"
	case 5:
		return "sorted(" + g.listExpr(d-1) + ")"
	case 6:
		return "(" + g.listExpr(d-1) + " if " + g.boolExpr(d-1) + " else [])"
	default:
		return "[" + g.items(g.rng.Intn(4), func() string { return g.strExpr(d - 1) }) + "]"
	}
}

func (g *gen) dictExpr(d int) string {
	mk := func() string {
		return "{" + g.items(g.rng.Intn(3), func() string { return g.q(lib.Pick(g.rng, words)) + ":" + g.sp() + g.intExpr(d-1) }) + "}"
	}
	switch g.rng.Intn(4) {
	case 0:
		return mk() + " | " + mk()
	case 1:
		return "{k: len(k) for k in " + g.listExpr(d-1) + "}"
	default:
		return mk()
	}
}

type kwarg struct{ k, v string }

func (g *gen) call(fn string, args []kwarg) string {
	if !g.sorted {
		lib.Shuffle(g.rng, args)
	}
	parts := make([]string, len(args))
	for i, a := range args {
		parts[i] = a.k + g.sp() + "=" + g.sp() + a.v
	}
	if g.noisy && g.rng.Chance(50) {
		return fn + "(" + strings.Join(parts, ", ") + ")"
	}
	return fn + "(\n    " + strings.Join(parts, ",\n    ") + ",\n)"
}

func (g *gen) labelList(n int) string {
	return "[" + g.items(n, func() string {
		return g.q(lib.Pick(g.rng, []string{":dep0", "//pkg:pkg", "//a/b:b", "//a/b:c", "//third_party/go:z", ":dep1", "//z:z"}))
	}) + "]"
}

func (g *gen) fileList(n int) string {
	return "[" + g.items(n, func() string {
		return g.q(lib.Pick(g.rng, []string{"b.txt", "a.txt", "m.go", "z.go", "dir/f.c", "a.go", "B.txt", "_x.py"}))
	}) + "]"
}

func (g *gen) program() []byte {
	var b strings.Builder
	nl := func() {
		b.WriteString("\n")
		if g.noisy && g.rng.Chance(25) {
			b.WriteString(lib.Pick(g.rng, []string{"\n", "\n\n", "# comment\n", "  \n"}))
		}
	}
	// fixed prelude so that every variable the expression generators mention exists
	b.WriteString("sv = " + g.strLit())
	nl()
	b.WriteString("iv = " + g.intExpr(0))
	nl()
	b.WriteString("bv = " + lib.Pick(g.rng, []string{"True", "False"}))
	nl()
	b.WriteString("nv = None")
	nl()
	b.WriteString("lv = [" + g.items(2, func() string { return g.q(lib.Pick(g.rng, words)) }) + "]")
	nl()
	n := 2 + g.rng.Intn(6)
	for i := 0; i < n; i++ {
		switch g.rng.Intn(12) {
		case 0, 1:
			fmt.Fprintf(&b, "s%d%s=%s%s", i, g.sp(), g.sp(), g.strExpr(2))
		case 2:
			fmt.Fprintf(&b, "i%d = %s", i, g.intExpr(2))
		case 3:
			fmt.Fprintf(&b, "b%d = %s", i, g.boolExpr(2))
		case 4:
			fmt.Fprintf(&b, "l%d = %s", i, g.listExpr(2))
		case 5:
			fmt.Fprintf(&b, "d%d = %s", i, g.dictExpr(2))
		case 6: // def with type annotations, aliases, defaults, docstring, return type
			args := []string{"a" + g.sp() + ":" + g.sp() + "str"}
			if g.rng.Bool() {
				args = append(args, "b"+g.sp()+":"+g.sp()+"int"+g.sp()+"|"+g.sp()+"str"+g.sp()+"="+g.sp()+g.intExpr(0))
			}
			if g.rng.Bool() {
				args = append(args, "c:list&cs&old_c=[]")
			}
			if g.rng.Chance(12) { // buildtools rejects an alias without a type annotation (asp accepts it)
				args = append(args, "d"+g.sp()+"&"+g.sp()+"dd = "+g.strLit())
			} else if g.rng.Bool() {
				args = append(args, "d"+g.sp()+":"+g.sp()+"str"+g.sp()+"&"+g.sp()+"dd = "+g.strLit())
			}
			ret := ""
			if g.rng.Bool() {
				ret = " -> str"
			}
			fmt.Fprintf(&b, "def fn%d(%s)%s:\n", i, strings.Join(args, ","+g.sp()), ret)
			if g.rng.Chance(40) {
				b.WriteString(lib.Pick(g.rng, []string{"    \"\"\"Doc string.\"\"\"\n", "    \"\"\"Doc.\n\n      More   text.\n    \"\"\"\n", "    '''single'''\n"}))
			}
			if g.rng.Bool() {
				b.WriteString("    if a:\n        return a + " + g.strLit() + "\n")
			}
			b.WriteString("    return " + g.strExpr(1))
			nl()
			fmt.Fprintf(&b, "r%d = fn%d(%s)", i, i, g.strLit())
			if g.rng.Bool() {
				nl()
				fmt.Fprintf(&b, "q%d = fn%d(a = sv)", i, i)
			}
		case 7:
			fmt.Fprintf(&b, "for e%d in %s:\n    lv += [e%d]", i, g.listExpr(1), i)
			if g.rng.Bool() {
				fmt.Fprintf(&b, "\n    if e%d == %s:\n        continue", i, g.strLit())
			}
		case 8:
			fmt.Fprintf(&b, "if %s:\n    c%d = %s\nelif %s:\n    c%d = %s\nelse:\n    c%d = %s", g.boolExpr(1), i, g.strExpr(1), g.boolExpr(1), i, g.strExpr(0), i, g.strLit())
		case 9, 10: // targets
			kind := g.rng.Intn(3)
			name := fmt.Sprintf("t%d", i)
			switch kind {
			case 0:
				b.WriteString(g.call("filegroup", []kwarg{{"name", g.q(name)}, {"srcs", g.fileList(1 + g.rng.Intn(3))}, {"deps", g.labelList(g.rng.Intn(3))}, {"visibility", "[" + g.q("PUBLIC") + "]"}, {"labels", g.listExpr(1)}}))
			case 1:
				b.WriteString(g.call("genrule", []kwarg{{"name", g.q(name)}, {"srcs", g.fileList(g.rng.Intn(3))}, {"outs", "[" + g.q(name+".out") + "]"}, {"cmd", g.strExpr(2)}, {"deps", g.labelList(g.rng.Intn(3))}, {"tools", g.labelList(g.rng.Intn(2))}, {"test_only", g.boolExpr(0)}}))
			default:
				b.WriteString(g.call("build_rule", []kwarg{{"name", g.q(name)}, {"srcs", g.fileList(g.rng.Intn(3))}, {"outs", "[" + g.q(name+".o") + "]"}, {"cmd", "{" + g.q("opt") + ": " + g.strExpr(1) + ", " + g.q("dbg") + ": " + g.strLit() + "}"}, {"labels", g.listExpr(0)}, {"binary", g.boolExpr(1)}, {"tag", g.q("tg")}}))
			}
		default:
			fmt.Fprintf(&b, "assert %s, %s", lib.Pick(g.rng, []string{"True", "1 == 1", "sv"}), g.strLit())
		}
		nl()
	}
	return []byte(b.String())
}

var fixedPrograms = []string{
	"x = \"a\" \"b\"\n",
	"filegroup(name = \"x\", srcs = [\"b.txt\", \"a.txt\"])\n",
	"x = ((y is not None)) if False else 1\n",
	"a = r'a\\raw\\string'\nb = r'a\\\"raw'\n",
	"def f(arg: int | str & oldarg & oldarg2 = 10):\n    pass\nv = f(oldarg = 3)\n",
	"x = 0777\ny = 0o17\n",
	"s = ('a' +\n     'b' +\n     'c')\n",
	"genrule(name='g', cmd='echo', outs=['o'], srcs=['z', 'y'], deps=['//pkg:pkg', ':g0'])\n",
	"x = [\n  1,\n     2,3]\ny = { 'b':1,'a' :2 }\n",
	"x = 1 if True else 2 if False else 3\n",
	"l = [x for x in ['b', 'a'] if x]\nd = {'a': 1} | {'b': 2}\n",
	"x = f'{CONFIG.OS}_{CONFIG.ARCH}'\n",
	"x = \"\"\"multi\nline\"\"\"\ny = '''it's'''\n",
	"x = 'say \"hi\"'\ny = \"it's\"\nz = 'both \\' and \"'\n",
	"def f(a, b = 1):\n    '''doc'''\n    return a\n\n\n\nx = f(1,\n   b = 2)\n",
	"x = -1\ny = - 1\nz = 1 - -1\n",
	"x = not True\ny = 1 if not x else 2\n",
	"x = [1, 2, 3][1:]\ny = 'abc'[:2]\nz = 'abc'[1]\n",
	"text_file(name = 't', content = 'a' 'b')\n",
	"x = 1 # trailing comment\n# leading\ny = 2\n",
	"x = lambda a, b=1: a + b\ny = x(1)\n",
	"if True:\n  x = 1\nelse:\n        x = 2\n",
}

var subWords = []string{"//build_defs:a", "//build_defs:b", "///go//build_defs:go", "//x:y", ":z"}

func simpCase(rng *lib.Rng, n int) string {
	var cs []string
	for i := 0; i < n; i++ {
		switch rng.Intn(10) {
		case 0, 1:
			cs = append(cs, "o")
		case 2:
			cs = append(cs, "n")
		case 3:
			cs = append(cs, "s:-")
		default:
			k := 1 + rng.Intn(3)
			ls := make([]string, k)
			for j := range ls {
				ls[j] = lib.Pick(rng, subWords)
			}
			cs = append(cs, "s:"+strings.Join(ls, ","))
		}
	}
	if len(cs) == 0 {
		return "-"
	}
	return strings.Join(cs, ";")
}

func repoFiles() [][]byte {
	root := os.Getenv("VERIF_REPO")
	if root == "" {
		root = "/repo"
	}
	var paths []string
	filepath.Walk(root, func(p string, info os.FileInfo, err error) error {
		if err != nil {
			return nil
		}
		if info.IsDir() {
			if n := info.Name(); n == ".git" || n == "plz-out" {
				return filepath.SkipDir
			}
			return nil
		}
		n := info.Name()
		if (n == "BUILD" || n == "BUILD.plz" || strings.HasSuffix(n, ".build_defs") || strings.HasSuffix(n, ".build")) && info.Size() <= 32<<10 {
			paths = append(paths, p)
		}
		return nil
	})
	sort.Strings(paths)
	var out [][]byte
	for _, p := range paths {
		if b, err := os.ReadFile(p); err == nil {
			out = append(out, b)
		}
	}
	return out
}

func main() {
	cli.InitLogging(cli.MinVerbosity)
	r := lib.Start()
	defer r.Finish()
	scratch = os.Getenv("VERIF_SCRATCH")
	if scratch == "" {
		scratch = r.OutDir
	}
	evB, evA = newEval(), newEval()
	r.Rule = "fmt: the formatter changed the text and the program evaluates to at least one value or target; simp: at least two string-only subincludes; distinct by op line"
	if ops := r.ReplayOps(); ops != nil {
		for _, op := range ops {
			runOp(r, op)
		}
		return
	}
	// simplify: exhaustive over the 4-letter statement alphabet up to length 5 (6 in thorough), then random
	alpha := []string{"o", "n", "s:-", "s://a:b", "s://c:d,//e:f"}
	var rec func(cur []string, n int)
	rec = func(cur []string, n int) {
		if len(cur) == 0 {
			runOp(r, "simp -")
		} else {
			runOp(r, "simp "+strings.Join(cur, ";"))
		}
		r.Count("simp-exhaustive")
		if n == 0 {
			return
		}
		for _, a := range alpha {
			rec(append(append([]string{}, cur...), a), n-1)
		}
	}
	rec(nil, r.N(4, 5))
	r.Exhaust = true
	for i := 0; i < r.N(300, 5000); i++ {
		runOp(r, "simp "+simpCase(r.Rng, 1+r.Rng.Intn(12)))
		r.Count("simp-random")
	}
	// formatter: fixed programs, the repository's own files, generated programs
	for _, p := range fixedPrograms {
		runFmt(r, []byte(p), "fmt:fixed")
	}
	files := repoFiles()
	for i, f := range files {
		if !r.Thorough() && i%3 != 0 {
			continue
		}
		runFmt(r, f, "fmt:repo-file")
	}
	for i := 0; i < r.N(400, 8000); i++ {
		g := &gen{rng: r.Rng, noisy: r.Rng.Chance(75), sorted: r.Rng.Chance(50)}
		tag := "fmt:generated"
		if g.sorted {
			tag = "fmt:generated-canonical-order"
		}
		runFmt(r, g.program(), tag)
	}
	// statement lists with subincludes through the whole formatter (tokens + idempotence; not evaluated)
	for i := 0; i < r.N(100, 1500); i++ {
		var src strings.Builder
		cs := strings.Split(simpCase(r.Rng, 1+r.Rng.Intn(8)), ";")
		for j, c := range cs {
			if s := stmtSource(c, j); s != "" {
				src.WriteString(s + "\n")
			}
		}
		runFmt(r, []byte(src.String()), "fmt:subinclude-lists")
	}
}
