// c11: end-to-end correspondence for C11 (test results are reused only when the runtime inputs are unchanged;
// failing results are never reused; incremental `plz test` = fresh `plz test`) against Driver/C11.lean.
//
// Generated repositories hold genrules (the tiny command language of e2ebuild: cat / catfirst / mkdir / const) and
// gentest targets whose pass/fail is a function of data files, data directories, dependency outputs, their own
// output and the test command (true / false / test -f / grep -qx).  Every build command appends `B<label>` and
// every test command `T<label>` to a log outside the repo, so "ran vs cached" is observable.  After every step
// of an edit history the real `plz test` ($VERIF_PLZ) runs in a scratch repo; its per-test report (pass / fail /
// error, cached or executed, results file left behind), exit status and the executed sets are compared with the
// Lean model, and — the direct oracle — with a fresh `plz test` of the same tree in a fresh directory.
package main

import (
	"encoding/hex"
	"encoding/xml"
	"fmt"
	"os"
	"os/exec"
	"path/filepath"
	"sort"
	"strings"
	"sync"
	"time"

	"verif/harness/lib"
)

type target struct {
	Label, Kind, Out, Const string // Kind: cat|catfirst|mkdir|const (genrule); none|cat|catfirst (test)
	Srcs                    []string
	IsTest                  bool
	Data                    []string
	NoOut, Writes           bool
	TCmd                    []string // tt | ff | has <path> | grep <path> <hexword>
}

func pkgOf(label string) string  { return strings.SplitN(strings.TrimPrefix(label, "//"), ":", 2)[0] }
func nameOf(label string) string { return strings.SplitN(label, ":", 2)[1] }
func isLabel(s string) bool      { return strings.HasPrefix(s, "//") }
func hx(s string) string {
	if s == "" {
		return "-"
	}
	return hex.EncodeToString([]byte(s))
}
func joinOr(xs []string) string {
	if len(xs) == 0 {
		return "-"
	}
	return strings.Join(xs, ",")
}
func splitList(s string) []string {
	if s == "-" {
		return nil
	}
	return strings.Split(s, ",")
}
func b01(b bool) string {
	if b {
		return "1"
	}
	return "0"
}

// ---------------------------------------------------------------- abstract repo state

type repoState struct {
	files   map[string]string
	inplace map[string]bool // the last edit of that path was done in place (truncate + rewrite of the same inode)
	targets map[string]*target
	order   []string
}

func newState() *repoState {
	return &repoState{files: map[string]string{}, inplace: map[string]bool{}, targets: map[string]*target{}}
}

func (s *repoState) put(t *target) {
	if _, ok := s.targets[t.Label]; !ok {
		s.order = append(s.order, t.Label)
	}
	s.targets[t.Label] = t
}

func (s *repoState) apply(op string) bool {
	f := strings.Split(op, " ")
	switch f[0] {
	case "file", "filei":
		if len(f) != 3 {
			return false
		}
		s.files[f[1]] = lib.UnHex(f[2])
		s.inplace[f[1]] = f[0] == "filei"
	case "rmfile":
		if len(f) != 2 {
			return false
		}
		delete(s.files, f[1])
	case "target":
		if len(f) < 5 {
			return false
		}
		t := &target{Label: f[1], Kind: f[2], Out: f[4], Srcs: splitList(f[3])}
		switch t.Kind {
		case "const":
			if len(f) != 6 {
				return false
			}
			t.Const = lib.UnHex(f[5])
		case "cat", "catfirst", "mkdir", "fg":
			if len(f) != 5 {
				return false
			}
		default:
			return false
		}
		s.put(t)
	case "test":
		// test <label> <bkind> <srcs> <out> <data> <noout> <writes> <tcmd…>
		if len(f) < 9 {
			return false
		}
		t := &target{Label: f[1], Kind: f[2], Srcs: splitList(f[3]), Out: f[4], IsTest: true, Data: splitList(f[5]),
			NoOut: f[6] == "1", Writes: f[7] == "1", TCmd: f[8:]}
		if t.Out == "-" {
			t.Out = ""
		}
		if (f[6] != "0" && f[6] != "1") || (f[7] != "0" && f[7] != "1") {
			return false
		}
		switch t.Kind {
		case "none", "cat", "catfirst":
		default:
			return false
		}
		switch {
		case len(t.TCmd) == 1 && (t.TCmd[0] == "tt" || t.TCmd[0] == "ff"):
		case len(t.TCmd) == 2 && t.TCmd[0] == "has":
		case len(t.TCmd) == 3 && t.TCmd[0] == "grep":
		default:
			return false
		}
		s.put(t)
	case "deltarget":
		if len(f) != 2 {
			return false
		}
		delete(s.targets, f[1])
		for i, l := range s.order {
			if l == f[1] {
				s.order = append(s.order[:i:i], s.order[i+1:]...)
				break
			}
		}
	default:
		return false
	}
	return true
}

func (s *repoState) deps(l string) []string {
	var out []string
	t := s.targets[l]
	for _, x := range t.Srcs {
		if isLabel(x) {
			out = append(out, x)
		}
	}
	for _, x := range t.Data {
		if isLabel(x) {
			out = append(out, x)
		}
	}
	return out
}

func (s *repoState) closure(req []string) []string {
	var order []string
	seen := map[string]bool{}
	ok := true
	var visit func(l string, depth int)
	visit = func(l string, depth int) {
		if seen[l] || !ok {
			return
		}
		if s.targets[l] == nil || depth > len(s.targets)+1 {
			ok = false
			return
		}
		seen[l] = true
		for _, d := range s.deps(l) {
			visit(d, depth+1)
		}
		order = append(order, l)
	}
	for _, l := range req {
		visit(l, 0)
	}
	if !ok {
		return nil
	}
	return order
}

func (s *repoState) dependents(l string) []string {
	var out []string
	for _, o := range s.order {
		for _, d := range s.deps(o) {
			if d == l {
				out = append(out, o)
			}
		}
	}
	return out
}

func (s *repoState) tests() []string {
	var out []string
	for _, l := range s.order {
		if s.targets[l].IsTest {
			out = append(out, l)
		}
	}
	return out
}

func (s *repoState) genrules() []string {
	var out []string
	for _, l := range s.order {
		if !s.targets[l].IsTest {
			out = append(out, l)
		}
	}
	return out
}

// ---------------------------------------------------------------- real repository on disk

type realRepo struct{ root, home, log, plz, cache string } // cache "" = no artifact cache

const catBody = `if [ -d $f ]; then (cd $f && find . -type f | LC_ALL=C sort | while read g; do echo $g; cat $g; done); else cat $f; fi`

func (r *realRepo) buildCmd(t *target) string {
	pre := "echo B" + t.Label + " >> " + r.log + "; "
	switch t.Kind {
	case "cat":
		return pre + "for f in $SRCS; do " + catBody + "; done > $OUT"
	case "catfirst":
		return pre + "set -- $SRCS; for f in ${1:-}; do " + catBody + "; done > $OUT"
	case "mkdir":
		return pre + "set -- $SRCS; mkdir $OUT; while read n c; do echo $c > $OUT/$n; done < $1"
	case "const":
		return pre + "echo " + t.Const + " > $OUT"
	}
	panic("kind " + t.Kind)
}

func (r *realRepo) testCmd(t *target) string {
	pre := "echo T" + t.Label + " >> " + r.log + "; "
	var chk string
	switch t.TCmd[0] {
	case "tt":
		chk = "true"
	case "ff":
		chk = "false"
	case "has":
		chk = "test -f " + t.TCmd[1]
	case "grep":
		chk = "grep -qx " + lib.UnHex(t.TCmd[2]) + " " + t.TCmd[1]
	}
	if !t.Writes {
		return pre + chk
	}
	return pre + "if " + chk + "; then { echo '=== RUN T'; echo '--- PASS: T (0.00s)'; echo PASS; } > $RESULTS_FILE; " +
		"else { echo '=== RUN T'; echo '--- FAIL: T (0.00s)'; echo FAIL; } > $RESULTS_FILE; exit 1; fi"
}

func quoteList(xs []string) string {
	q := make([]string, len(xs))
	for i, x := range xs {
		q[i] = fmt.Sprintf("%q", x)
	}
	return strings.Join(q, ", ")
}

// putFile brings one file of the working tree to the wanted contents: untouched when it already has them (the inode and
// whatever hangs on it stay), otherwise rewritten IN PLACE (same inode: hard links into plz-out see the new bytes at
// once, xattrs stay) or replaced by a rename (new inode), as the history says.
func putFile(path string, content []byte, inplace bool) error {
	if old, err := os.ReadFile(path); err == nil {
		if string(old) == string(content) {
			return nil
		}
		if inplace {
			return os.WriteFile(path, content, 0o644)
		}
	}
	os.MkdirAll(filepath.Dir(path), 0o755)
	tmp := path + ".tmp~"
	if err := os.WriteFile(tmp, content, 0o644); err != nil {
		return err
	}
	return os.Rename(tmp, path)
}

func (r *realRepo) write(s *repoState) error {
	want := map[string][]byte{".plzconfig": []byte("[cache]\ndir = " + r.cache + "\n")}
	for p, c := range s.files {
		want[p] = []byte(c)
	}
	byPkg := map[string][]string{}
	for _, l := range s.order {
		byPkg[pkgOf(l)] = append(byPkg[pkgOf(l)], l)
	}
	for pkg, ls := range byPkg {
		var b strings.Builder
		for _, l := range ls {
			t := s.targets[l]
			if t.Kind == "fg" {
				fmt.Fprintf(&b, "filegroup(name=%q, srcs=[%s], visibility=[\"PUBLIC\"])\n", nameOf(l), quoteList(t.Srcs))
				continue
			}
			if !t.IsTest {
				fmt.Fprintf(&b, "genrule(name=%q, srcs=[%s], outs=[%q], cmd=%q, visibility=[\"PUBLIC\"])\n",
					nameOf(l), quoteList(t.Srcs), t.Out, r.buildCmd(t))
				continue
			}
			fmt.Fprintf(&b, "gentest(name=%q, test_cmd=%q, data=[%s], no_test_output=%s, visibility=[\"PUBLIC\"]",
				nameOf(l), r.testCmd(t), quoteList(t.Data), map[bool]string{true: "True", false: "False"}[t.NoOut])
			if t.Kind != "none" {
				fmt.Fprintf(&b, ", srcs=[%s], outs=[%q], cmd=%q", quoteList(t.Srcs), t.Out, r.buildCmd(t))
			}
			b.WriteString(")\n")
		}
		want[filepath.Join(pkg, "BUILD")] = []byte(b.String())
	}
	// remove what is no longer part of the tree (never plz-out), then bring every wanted file up to date
	filepath.Walk(r.root, func(p string, info os.FileInfo, err error) error {
		if err != nil || p == r.root {
			return nil
		}
		rel, _ := filepath.Rel(r.root, p)
		if rel == "plz-out" {
			return filepath.SkipDir
		}
		if !info.IsDir() {
			if _, ok := want[rel]; !ok {
				os.Remove(p)
			}
		}
		return nil
	})
	for _, d := range []string{"p", "q"} { // directories that became empty must go (a data directory without files)
		ents, _ := os.ReadDir(filepath.Join(r.root, d))
		for _, e := range ents {
			if e.IsDir() {
				if sub, _ := os.ReadDir(filepath.Join(r.root, d, e.Name())); len(sub) == 0 {
					os.Remove(filepath.Join(r.root, d, e.Name()))
				}
			}
		}
	}
	for rel, c := range want {
		if err := putFile(filepath.Join(r.root, rel), c, s.inplace[rel]); err != nil {
			return err
		}
	}
	return nil
}

type xmlSuites struct {
	Suites []xmlSuite `xml:"testsuite"`
}
type xmlSuite struct {
	Name     string `xml:"name,attr"`
	Package  string `xml:"package,attr"`
	Tests    int    `xml:"tests,attr"`
	Failures int    `xml:"failures,attr"`
	Errors   int    `xml:"errors,attr"`
	Props    []struct {
		Name  string `xml:"name,attr"`
		Value string `xml:"value,attr"`
	} `xml:"properties>property"`
}

type report struct {
	res    string // pass | fail | error
	cached bool
}

// test runs `plz test` and returns the executed build / test log entries, the per-label report and the exit code.
func (r *realRepo) test(labels []string, flags string) (bran, tran []string, reps map[string]report, rc int, out string) {
	before := readLog(r.log)
	xmlPath := filepath.Join(r.root, "plz-out/log/test_results.xml")
	os.Remove(xmlPath)
	args := []string{"test", "-p", "-v", "error", "--noupdate", "--num_threads", "2"}
	switch flags {
	case "rerun":
		args = append(args, "--rerun")
	case "runs2":
		args = append(args, "--num_runs", "2")
	}
	args = append(args, labels...)
	var b []byte
	for attempt := 0; ; attempt++ {
		cmd := exec.Command(r.plz, args...)
		cmd.Dir = r.root
		cmd.Env = []string{"HOME=" + r.home, "XDG_CACHE_HOME=" + r.home + "/.cache", "XDG_CONFIG_HOME=" + r.home + "/.config",
			"PATH=/usr/local/bin:/usr/bin:/bin", "LC_ALL=C", "GOMAXPROCS=2"}
		done := make(chan struct{})
		var err error
		go func() { b, err = cmd.CombinedOutput(); close(done) }()
		select {
		case <-done:
		case <-time.After(300 * time.Second):
			cmd.Process.Kill()
			<-done
			return nil, nil, nil, 124, "timeout"
		}
		rc = 0
		if err != nil {
			rc = 1
			ee, isExit := err.(*exec.ExitError)
			if isExit {
				rc = ee.ExitCode()
			}
			// the process could not be started, or was killed by a signal before it printed anything (a loaded
			// machine: EAGAIN / OOM): nothing of the invocation is observable, run it again
			if (!isExit || rc == -1) && len(b) == 0 && len(readLog(r.log)) == len(before) && attempt < 3 {
				time.Sleep(time.Duration(attempt+1) * time.Second)
				continue
			}
			if !isExit || rc == -1 {
				b = append(b, []byte(" [exec: "+err.Error()+"]")...)
			}
		}
		break
	}
	after := readLog(r.log)
	for _, e := range after[len(before):] {
		if strings.HasPrefix(e, "B") {
			bran = append(bran, e[1:])
		} else if strings.HasPrefix(e, "T") {
			tran = append(tran, e[1:])
		}
	}
	sort.Strings(bran)
	sort.Strings(tran)
	reps = map[string]report{}
	if xb, e := os.ReadFile(xmlPath); e == nil {
		var xs xmlSuites
		if xml.Unmarshal(xb, &xs) == nil {
			for _, su := range xs.Suites {
				rep := report{res: "pass"}
				if su.Failures > 0 {
					rep.res = "fail"
				} else if su.Errors > 0 {
					rep.res = "error"
				}
				for _, p := range su.Props {
					if p.Name == "cached" && p.Value == "true" {
						rep.cached = true
					}
				}
				reps["//"+strings.ReplaceAll(su.Package, ".", "/")+":"+su.Name] = rep
			}
		}
	}
	return bran, tran, reps, rc, string(b)
}

func readLog(p string) []string {
	b, err := os.ReadFile(p)
	if err != nil {
		return nil
	}
	return strings.Fields(string(b))
}

func (r *realRepo) outPath(t *target) string {
	dir := "plz-out/gen"
	if t.IsTest {
		dir = "plz-out/bin"
	}
	return filepath.Join(r.root, dir, pkgOf(t.Label), t.Out)
}

func (r *realRepo) resultsPath(l string) string {
	return filepath.Join(r.root, "plz-out/bin", pkgOf(l), ".test_results_"+nameOf(l))
}

// tree renders a path (file or one-level directory) canonically.
func diskTree(p string) string {
	st, err := os.Lstat(p)
	if err != nil {
		return "missing"
	}
	if !st.IsDir() {
		b, _ := os.ReadFile(p)
		return "f:" + hx(string(b))
	}
	ents, _ := os.ReadDir(p)
	parts := []string{}
	for _, e := range ents {
		if e.IsDir() {
			parts = append(parts, e.Name()+"=DIR")
			continue
		}
		b, _ := os.ReadFile(filepath.Join(p, e.Name()))
		parts = append(parts, e.Name()+"="+hx(string(b)))
	}
	return "d:" + strings.Join(parts, ",")
}

func srcTree(s *repoState, p string) string {
	if c, ok := s.files[p]; ok {
		return "f:" + hx(c)
	}
	var names []string
	for f := range s.files {
		if strings.HasPrefix(f, p+"/") && !strings.Contains(f[len(p)+1:], "/") {
			names = append(names, f[len(p)+1:])
		}
	}
	sort.Strings(names)
	parts := make([]string, len(names))
	for i, n := range names {
		parts[i] = n + "=" + hx(s.files[p+"/"+n])
	}
	return "d:" + strings.Join(parts, ",")
}

func decodeHex(s string) string {
	if s == "-" {
		return ""
	}
	b, err := hex.DecodeString(s)
	if err != nil {
		return "\x00" + s
	}
	return string(b)
}

// contentOnly erases entry names from a tree rendering (what the path hash covers today).
func contentOnly(tree string) string {
	if strings.HasPrefix(tree, "f:") {
		return decodeHex(tree[2:])
	}
	if strings.HasPrefix(tree, "d:") {
		var b strings.Builder
		if tree[2:] == "" {
			return ""
		}
		for _, e := range strings.Split(tree[2:], ",") {
			kv := strings.SplitN(e, "=", 2)
			b.WriteString(decodeHex(kv[1]))
		}
		return b.String()
	}
	return "\x00" + tree
}

// view: what a test can observe at run time, independent of the Lean model: the rule text parts that
// ruleHash(runtime=true) concatenates for it, and the (name, tree) list of its runtime files as they are on disk.
type view struct {
	ruleParts []string
	noOut     bool
	names     []string
	trees     []string
}

func (r *realRepo) viewOf(s *repoState, l string) view {
	t := s.targets[l]
	v := view{noOut: t.NoOut}
	v.ruleParts = append(v.ruleParts, "srcs:"+strings.Join(t.Srcs, "\x00"), "kind:"+t.Kind, "out:"+t.Out)
	v.ruleParts = append(v.ruleParts, t.Data...)
	v.ruleParts = append(v.ruleParts, "\x01"+strings.Join(t.TCmd, " ")+map[bool]string{true: "+results", false: ""}[t.Writes])
	seen := map[string]bool{}
	add := func(name, tree string) {
		if !seen[name] {
			seen[name] = true
			v.names = append(v.names, name)
			v.trees = append(v.trees, tree)
		}
	}
	if t.Kind != "none" {
		add(t.Out, diskTree(r.outPath(t)))
	}
	for _, d := range t.Data {
		if isLabel(d) {
			dt := s.targets[d]
			add(pkgOf(d)+"/"+dt.Out, diskTree(r.outPath(dt)))
		} else {
			add(pkgOf(l)+"/"+d, srcTree(s, pkgOf(l)+"/"+d))
		}
	}
	return v
}

func eqList(a, b []string) bool {
	if len(a) != len(b) {
		return false
	}
	for i := range a {
		if a[i] != b[i] {
			return false
		}
	}
	return true
}

// classify names the root cause of a stale reuse: `then` is the view the stored pass was produced from, `now` the
// current one.  The class predicates follow the coded pre-image: unframed rule text, no file names, directories
// by content only, no_test_output not hashed.  Anything these do not explain is a new violation.
// classifyAny: with an artifact cache a reused pass may stem from ANY earlier passing run of the label.
func classifyAny(thens []view, now view) string {
	for i := len(thens) - 1; i >= 0; i-- {
		if c := classify(thens[i], now); c != "stale-result-despite-distinct-runtime-hash" {
			return c
		}
	}
	return "stale-result-despite-distinct-runtime-hash"
}

func classify(then, now view) string {
	co := func(ts []string) []string {
		o := make([]string, len(ts))
		for i, t := range ts {
			o[i] = contentOnly(t)
		}
		return o
	}
	codedEq := strings.Join(then.ruleParts, "") == strings.Join(now.ruleParts, "") && eqList(co(then.trees), co(now.trees))
	if !codedEq {
		return "stale-result-despite-distinct-runtime-hash"
	}
	switch {
	case !eqList(then.ruleParts, now.ruleParts):
		return "runtime-rule-hash-unframed"
	case !eqList(then.names, now.names):
		return "runtime-hash-omits-file-names"
	case !eqList(then.trees, now.trees):
		return "runtime-dir-hash-ignores-entry-names"
	case then.noOut != now.noOut:
		return "runtime-hash-omits-no-test-output"
	}
	return "incremental-differs-from-fresh"
}

// ---------------------------------------------------------------- generator

var textPool = []string{"ok\n", "no\n", "ok\nno\n", "", "x\n", "no\nok\n"}
var namesPool = []string{"a ok\nb no\n", "a ok\nz no\n", "a no\n", "a ok\n", "b ok\na no\n", "c ok\nb no\n", "a no\nb ok\n"}
var constPool = []string{"ok", "no", "k1"}
var dataFiles = []string{"d.txt", "e.txt", "ab", "c", "a", "bc"}
var dirNames = []string{"dd", "de"}
var entryNames = []string{"a", "b", "z"}
var words = []string{"ok", "no"}

type gen struct {
	r     *lib.Rng
	s     *repoState
	ops   []string
	n     int
	cache bool // this history runs with [cache] dir configured
	prev  map[string]string
}

func (g *gen) emit(op string) {
	g.ops = append(g.ops, op)
	if !g.s.apply(op) {
		panic("generator produced a malformed op: " + op)
	}
}

func (g *gen) writeFile(p string) {
	if old, ok := g.s.files[p]; ok {
		if g.prev == nil {
			g.prev = map[string]string{}
		}
		g.prev[p] = old
	}
	c := lib.Pick(g.r, textPool)
	if strings.HasSuffix(p, "names.txt") {
		c = lib.Pick(g.r, namesPool)
	}
	if _, exists := g.s.files[p]; exists && g.r.Chance(50) {
		g.emit("filei " + p + " " + hx(c)) // truncate + rewrite of the same inode
		return
	}
	g.emit("file " + p + " " + hx(c)) // new file, or replaced by a rename (new inode)
}

func (g *gen) ensureFile(p string) {
	if _, ok := g.s.files[p]; !ok {
		g.writeFile(p)
	}
}

func (g *gen) dirEntries(p string) []string {
	var out []string
	for f := range g.s.files {
		if strings.HasPrefix(f, p+"/") {
			out = append(out, f)
		}
	}
	sort.Strings(out)
	return out
}

func (g *gen) ensureDir(p string) {
	if len(g.dirEntries(p)) == 0 {
		n := 1 + g.r.Intn(2)
		names := append([]string{}, entryNames...)
		lib.Shuffle(g.r, names)
		for _, e := range names[:n] {
			g.writeFile(p + "/" + e)
		}
	}
}

func (g *gen) targetOp(t *target) string {
	if !t.IsTest {
		op := fmt.Sprintf("target %s %s %s %s", t.Label, t.Kind, joinOr(t.Srcs), t.Out)
		if t.Kind == "const" {
			op += " " + hx(t.Const)
		}
		return op
	}
	out := t.Out
	if out == "" {
		out = "-"
	}
	return fmt.Sprintf("test %s %s %s %s %s %s %s %s", t.Label, t.Kind, joinOr(t.Srcs), out, joinOr(t.Data), b01(t.NoOut), b01(t.Writes),
		strings.Join(t.TCmd, " "))
}

func (g *gen) newGenrule() *target {
	g.n++
	pkg := lib.Pick(g.r, []string{"p", "q", "p"})
	name := fmt.Sprintf("g%d", g.n)
	t := &target{Label: "//" + pkg + ":" + name, Out: name + ".out"}
	if g.r.Chance(35) { // a filegroup over one source file: its output in plz-out is a HARD LINK of that file
		f := lib.Pick(g.r, []string{"d.txt", "e.txt", "x.txt", "y.txt"})
		taken := false
		for _, l := range g.s.order {
			if o := g.s.targets[l]; o.Kind == "fg" && pkgOf(l) == pkg && o.Out == f {
				taken = true
			}
		}
		if !taken {
			g.ensureFile(pkg + "/" + f)
			t.Kind, t.Srcs, t.Out = "fg", []string{f}, f
			return t
		}
	}
	g.fillGenrule(t)
	return t
}

// fgSources: the source files that reach plz-out through a filegroup (hard links).
func (g *gen) fgSources() []string {
	var out []string
	for _, l := range g.s.order {
		if t := g.s.targets[l]; t.Kind == "fg" {
			out = append(out, pkgOf(l)+"/"+t.Srcs[0])
		}
	}
	return out
}

func (g *gen) fillGenrule(t *target) {
	pkg := pkgOf(t.Label)
	t.Srcs, t.Const = nil, ""
	switch g.r.Intn(8) {
	case 0, 1:
		t.Kind, t.Const = "const", lib.Pick(g.r, constPool)
	case 2:
		t.Kind = "mkdir"
		g.ensureFile(pkg + "/names.txt")
		t.Srcs = []string{"names.txt"}
	case 3, 4:
		t.Kind = "catfirst"
	default:
		t.Kind = "cat"
	}
	if t.Kind == "cat" || t.Kind == "catfirst" {
		fs := []string{"x.txt", "y.txt"}
		lib.Shuffle(g.r, fs)
		for _, f := range fs[:1+g.r.Intn(2)] {
			g.ensureFile(pkg + "/" + f)
			t.Srcs = append(t.Srcs, f)
		}
	}
}

// observable paths of a test: where its runtime files (and plausible near misses) are in the test directory.
func (g *gen) candidatePaths(t *target) []string {
	pkg := pkgOf(t.Label)
	var c []string
	if t.Kind != "none" {
		c = append(c, t.Out, t.Out) // a test's own output sits at the top of its runtime directory
	}
	for _, d := range t.Data {
		if isLabel(d) {
			dt := g.s.targets[d]
			base := pkgOf(d) + "/" + dt.Out
			if dt.Kind == "mkdir" {
				for _, e := range entryNames {
					c = append(c, base+"/"+e)
				}
			} else {
				c = append(c, base, base)
			}
		} else if len(g.dirEntries(pkg+"/"+d)) > 0 {
			for _, e := range entryNames {
				c = append(c, pkg+"/"+d+"/"+e)
			}
		} else {
			c = append(c, pkg+"/"+d, pkg+"/"+d)
		}
	}
	if len(c) == 0 {
		c = append(c, pkg+"/zz")
	}
	return c
}

// contentAt predicts the contents of an observable path when that is easy (source files); "" otherwise.
func (g *gen) contentAt(path string) (string, bool) {
	c, ok := g.s.files[path]
	return c, ok
}

func (g *gen) randomTCmd(t *target) []string {
	cands := g.candidatePaths(t)
	switch k := g.r.Intn(12); {
	case k == 0:
		return []string{"tt"}
	case k == 1:
		return []string{"ff"}
	case k <= 5:
		return []string{"has", lib.Pick(g.r, cands)}
	default:
		p := lib.Pick(g.r, cands)
		w := lib.Pick(g.r, words)
		if c, ok := g.contentAt(p); ok && g.r.Chance(70) { // a word the file has (when it has one)
			for _, l := range strings.Split(c, "\n") {
				if l == "ok" || l == "no" {
					w = l
					break
				}
			}
		}
		return []string{"grep", p, hx(w)}
	}
}

func (g *gen) randomData(t *target) {
	pkg := pkgOf(t.Label)
	t.Data = nil
	n := 1 + g.r.Intn(3)
	gr := g.s.genrules()
	for i := 0; i < n; i++ {
		switch k := g.r.Intn(10); {
		case k <= 2: // a data file
			f := lib.Pick(g.r, dataFiles)
			g.ensureFile(pkg + "/" + f)
			t.Data = append(t.Data, f)
		case k <= 5: // a data directory
			d := lib.Pick(g.r, dirNames)
			g.ensureDir(pkg + "/" + d)
			t.Data = append(t.Data, d)
		default: // a dependency
			if len(gr) > 0 {
				t.Data = append(t.Data, lib.Pick(g.r, gr))
			}
		}
	}
	// no duplicates (plz de-duplicates by destination; keep the op canonical)
	seen := map[string]bool{}
	var d []string
	for _, x := range t.Data {
		dest := pkg + "/" + x // where the entry lands in the test directory
		if isLabel(x) {
			dest = pkgOf(x) + "/" + g.s.targets[x].Out
		}
		if !seen[dest] {
			seen[dest] = true
			d = append(d, x)
		}
	}
	t.Data = d
}

func (g *gen) newTest() *target {
	g.n++
	pkg := lib.Pick(g.r, []string{"p", "q", "p"})
	name := fmt.Sprintf("t%d", g.n)
	t := &target{Label: "//" + pkg + ":" + name, IsTest: true, Kind: "none", NoOut: true}
	if g.r.Chance(30) {
		t.Kind = lib.Pick(g.r, []string{"cat", "catfirst"})
		t.Out = name + ".bin"
		fs := []string{"x.txt", "y.txt"}
		lib.Shuffle(g.r, fs)
		for _, f := range fs[:1+g.r.Intn(2)] {
			g.ensureFile(pkg + "/" + f)
			t.Srcs = append(t.Srcs, f)
		}
		if gr := g.s.genrules(); len(gr) > 0 && g.r.Chance(30) {
			if d := lib.Pick(g.r, gr); g.s.targets[d].Kind != "mkdir" {
				t.Srcs = append(t.Srcs, d)
			}
		}
	}
	if g.r.Chance(35) {
		t.NoOut, t.Writes = false, true
	} else if g.r.Chance(10) {
		t.Writes = true // writes a results file nobody reads
	}
	g.randomData(t)
	t.TCmd = g.randomTCmd(t)
	return t
}

func clone(t *target) *target {
	c := *t
	c.Srcs = append([]string{}, t.Srcs...)
	c.Data = append([]string{}, t.Data...)
	c.TCmd = append([]string{}, t.TCmd...)
	return &c
}

// edit applies one random edit; kinds that do not apply to the current tree are re-drawn.
func (g *gen) edit(run *lib.Run) {
	for try := 0; try < 8; try++ {
		if g.tryEdit(run) {
			return
		}
	}
	run.Count("edit-none")
}

func (g *gen) tryEdit(run *lib.Run) bool {
	tests, gr := g.s.tests(), g.s.genrules()
	t := clone(g.s.targets[lib.Pick(g.r, tests)])
	pkg := pkgOf(t.Label)
	if g.cache && len(g.prev) > 0 && g.r.Chance(35) { // put a file back to what it was before its last edit (A -> B -> A)
		var paths []string
		for p := range g.prev {
			if _, ok := g.s.files[p]; ok && g.s.files[p] != g.prev[p] {
				paths = append(paths, p)
			}
		}
		if len(paths) > 0 {
			sort.Strings(paths)
			p := lib.Pick(g.r, paths)
			g.emit("file " + p + " " + hx(g.prev[p]))
			run.Count("edit-file-content-back")
			return true
		}
	}
	switch k := g.r.Intn(20); {
	case k <= 2: // edit the contents of a file some test can see (data file, file in a data dir, source of a dep)
		var paths []string
		for p := range g.s.files {
			paths = append(paths, p)
		}
		if len(paths) == 0 {
			return false
		}
		sort.Strings(paths)
		pick := lib.Pick(g.r, paths)
		if fs := g.fgSources(); len(fs) > 0 && g.r.Chance(50) {
			pick = lib.Pick(g.r, fs)
			run.Count("edit-file-behind-filegroup")
		}
		before := len(g.ops)
		g.writeFile(pick)
		if strings.HasPrefix(g.ops[before], "filei ") {
			run.Count("edit-file-content-in-place")
		} else {
			run.Count("edit-file-content-by-rename")
		}
		run.Count("edit-file-content")
		return true
	case k == 3 || k == 4: // rename a file inside a data directory (same bytes)
		run.Count("try-rename-in-data-dir")
		for _, d := range t.Data {
			if es := g.dirEntries(pkg + "/" + d); len(es) > 0 && !isLabel(d) {
				old := lib.Pick(g.r, es)
				nn := pkg + "/" + d + "/" + lib.Pick(g.r, entryNames)
				if _, exists := g.s.files[nn]; exists {
					return false
				}
				c := g.s.files[old]
				g.emit("rmfile " + old)
				g.emit("file " + nn + " " + hx(c))
				run.Count("edit-rename-in-data-dir")
				return true
			}
		}
	case k == 5: // rename a data file (same bytes) and update the data list
		for i, d := range t.Data {
			if _, ok := g.s.files[pkg+"/"+d]; ok && !isLabel(d) {
				nn := lib.Pick(g.r, dataFiles)
				if _, exists := g.s.files[pkg+"/"+nn]; exists || nn == d || len(g.usersOfFile(pkg, d)) > 1 {
					return false
				}
				for _, x := range t.Data {
					if x == nn {
						return false
					}
				}
				c := g.s.files[pkg+"/"+d]
				g.emit("rmfile " + pkg + "/" + d)
				g.emit("file " + pkg + "/" + nn + " " + hx(c))
				t.Data[i] = nn
				g.emit(g.targetOp(t))
				run.Count("edit-rename-data-file")
				return true
			}
		}
	case k == 6 || k == 7: // re-split two adjacent data names: [ab, c] <-> [a, bc], contents kept (unframed rule text)
		return g.resplit(run, t)
	case k == 8 || k == 9: // change the test command
		t.TCmd = g.randomTCmd(t)
		g.emit(g.targetOp(t))
		run.Count("edit-test-cmd")
		return true
	case k == 10: // change the data list
		g.randomData(t)
		if g.r.Chance(50) {
			t.TCmd = g.randomTCmd(t)
		}
		g.emit(g.targetOp(t))
		run.Count("edit-data-list")
		return true
	case k == 11: // toggle no_test_output / whether the command writes results
		if g.r.Chance(60) {
			t.NoOut = !t.NoOut
			run.Count("edit-toggle-no_test_output")
		} else {
			t.Writes = !t.Writes
			run.Count("edit-toggle-writes-results")
		}
		g.emit(g.targetOp(t))
		return true
	case (k == 12 || k == 13) && len(gr) > 0: // rename a dependency's output (same bytes)
		var cand []string
		for _, d := range t.Data {
			if isLabel(d) {
				cand = append(cand, d)
			}
		}
		if len(cand) == 0 {
			cand = gr
		}
		d := clone(g.s.targets[lib.Pick(g.r, cand)])
		if d.Kind == "fg" { // a filegroup's output name IS its source
			return false
		}
		// always a name never used before: plz leaves the old output (with its stamp) in plz-out, so going BACK to an
		// earlier name would legitimately find it up to date — a per-file memory the model does not keep
		g.n++
		d.Out = fmt.Sprintf("%s.o%d", nameOf(d.Label), g.n)
		g.emit(g.targetOp(d))
		run.Count("edit-rename-dep-output")
		return true
	case (k == 14 || k == 15) && len(gr) > 0: // redefine a dependency; cat<->catfirst with one source rebuilds it to identical bytes
		d := clone(g.s.targets[lib.Pick(g.r, gr)])
		if d.Kind == "fg" {
			return false
		}
		if (d.Kind == "cat" || d.Kind == "catfirst") && len(d.Srcs) == 1 {
			d.Kind = map[string]string{"cat": "catfirst", "catfirst": "cat"}[d.Kind]
			run.Count("edit-dep-rebuilt-identical")
		} else if d.Kind == "const" && g.r.Chance(50) { // const -> cat of a file with the same text: identical bytes again
			f := "k_" + d.Const + ".txt"
			g.emit("file " + pkgOf(d.Label) + "/" + f + " " + hx(d.Const+"\n"))
			d.Kind, d.Srcs, d.Const = "cat", []string{f}, ""
			run.Count("edit-dep-rebuilt-identical")
		} else {
			g.fillGenrule(d)
			run.Count("edit-redefine-dep")
		}
		g.emit(g.targetOp(d))
		return true
	case (k == 16 || k == 17) && g.cache && g.r.Chance(70): // rm -rf plz-out (only interesting with the artifact cache)
		g.ops = append(g.ops, "wipe")
		run.Count("edit-wipe-plz-out")
		return true
	case k == 16: // the user removes a results file
		g.ops = append(g.ops, "rmres "+t.Label)
		run.Count("edit-rmres")
		return true
	case k == 17: // the user removes an output from plz-out
		var cand []string
		for _, l := range g.s.order {
			if g.s.targets[l].Out != "" {
				cand = append(cand, l)
			}
		}
		if len(cand) > 0 {
			g.ops = append(g.ops, "rmout "+lib.Pick(g.r, cand))
			run.Count("edit-rmout")
			return true
		}
	case k == 18 && len(tests) < 3: // add a test
		g.emit(g.targetOp(g.newTest()))
		run.Count("edit-add-test")
		return true
	case k == 19 && t.Kind != "none": // a test with its own build: switch cat<->catfirst (same bytes with one source)
		t.Kind = map[string]string{"cat": "catfirst", "catfirst": "cat"}[t.Kind]
		g.emit(g.targetOp(t))
		run.Count("edit-own-build-cmd")
		return true
	}
	return false
}

func (g *gen) usersOfFile(pkg, f string) []string {
	var out []string
	for _, l := range g.s.order {
		t := g.s.targets[l]
		if pkgOf(l) != pkg {
			continue
		}
		for _, x := range append(append([]string{}, t.Srcs...), t.Data...) {
			if x == f {
				out = append(out, l)
			}
		}
	}
	return out
}

func (g *gen) resplit(run *lib.Run, t *target) bool {
	pkg := pkgOf(t.Label)
	for i := 0; i+1 < len(t.Data); i++ {
		a, b := t.Data[i], t.Data[i+1]
		var na, nb string
		switch {
		case a == "ab" && b == "c":
			na, nb = "a", "bc"
		case a == "a" && b == "bc":
			na, nb = "ab", "c"
		default:
			continue
		}
		_, e1 := g.s.files[pkg+"/"+na]
		_, e2 := g.s.files[pkg+"/"+nb]
		if e1 || e2 || len(g.usersOfFile(pkg, a)) > 1 || len(g.usersOfFile(pkg, b)) > 1 {
			return false
		}
		ca, cb := g.s.files[pkg+"/"+a], g.s.files[pkg+"/"+b]
		g.emit("rmfile " + pkg + "/" + a)
		g.emit("rmfile " + pkg + "/" + b)
		g.emit("file " + pkg + "/" + na + " " + hx(ca))
		g.emit("file " + pkg + "/" + nb + " " + hx(cb))
		t.Data[i], t.Data[i+1] = na, nb
		g.emit(g.targetOp(t))
		run.Count("edit-resplit-data-names")
		return true
	}
	// make the shape available for a later step
	_, e1 := g.s.files[pkg+"/ab"]
	_, e2 := g.s.files[pkg+"/c"]
	_, e3 := g.s.files[pkg+"/a"]
	_, e4 := g.s.files[pkg+"/bc"]
	if !e1 && !e2 && !e3 && !e4 && g.r.Chance(50) {
		g.writeFile(pkg + "/ab")
		g.writeFile(pkg + "/c")
		t.Data = []string{"ab", "c"}
		t.TCmd = []string{lib.Pick(g.r, []string{"has", "has", "grep"}), pkg + "/" + lib.Pick(g.r, []string{"ab", "ab", "c", "a", "bc"})}
		if t.TCmd[0] == "grep" {
			t.TCmd = append(t.TCmd, hx(lib.Pick(g.r, words)))
		}
		g.emit(g.targetOp(t))
		run.Count("edit-setup-resplit")
		return true
	}
	return false
}

func (g *gen) history(run *lib.Run, steps int) []string {
	g.ops = []string{"reset"}
	g.s = newState()
	g.prev = nil
	g.cache = g.r.Chance(35)
	if g.cache {
		g.ops = append(g.ops, "cacheon")
		run.Count("history-with-artifact-cache")
	}
	for i, n := 0, 1+g.r.Intn(3); i < n; i++ {
		g.emit(g.targetOp(g.newGenrule()))
	}
	for i, n := 0, 1+g.r.Intn(3); i < n; i++ {
		g.emit(g.targetOp(g.newTest()))
	}
	for st := 0; st < steps; st++ {
		if st > 0 {
			ne := g.r.Intn(3)
			if g.r.Chance(15) || (st == 1 && g.r.Chance(50)) { // often two runs on the first tree before anything changes
				ne = 0
			} else if ne == 0 {
				ne = 1
			}
			if ne == 0 {
				run.Count("step-no-edit")
			}
			for e := 0; e < ne; e++ {
				g.edit(run)
			}
		}
		tests := g.s.tests()
		var req []string
		if g.r.Chance(70) {
			req = tests
		} else {
			for _, l := range tests {
				if g.r.Chance(50) {
					req = append(req, l)
				}
			}
			if len(req) == 0 {
				req = []string{lib.Pick(g.r, tests)}
			}
		}
		flags := "-"
		if st > 0 && g.r.Chance(8) {
			flags = "rerun"
		} else if st > 0 && g.r.Chance(6) {
			flags = "runs2"
		}
		g.ops = append(g.ops, "run "+strings.Join(req, ",")+" "+flags)
		g.ops = append(g.ops, "fresh "+strings.Join(req, ","))
	}
	return g.ops
}

// ---------------------------------------------------------------- executor + oracles

type result struct {
	op, out    string
	nontrivial bool
}
type oracleFail struct{ class, detail string }

// infra: the invocation failed for reasons outside plz (harness timeout on a loaded machine, exec failure, signal).
func infra(rc int, out string) bool {
	return rc == 124 || rc == -1 || strings.Contains(out, "[exec: ")
}

func splitHistories(ops []string) [][]string {
	var hs [][]string
	for _, op := range ops {
		if op == "reset" || len(hs) == 0 {
			hs = append(hs, nil)
		}
		hs[len(hs)-1] = append(hs[len(hs)-1], op)
	}
	return hs
}

func runHistory(idx int, ops []string, scratch, plz string) ([]result, []oracleFail, map[string]int) {
	dir := filepath.Join(scratch, fmt.Sprintf("h%d", idx))
	os.RemoveAll(dir)
	defer os.RemoveAll(dir)
	mk := func(p string) string { os.MkdirAll(filepath.Join(dir, p), 0o755); return filepath.Join(dir, p) }
	rr := &realRepo{root: mk("repo"), home: mk("home"), log: filepath.Join(dir, "log"), plz: plz}
	s := newState()
	var res []result
	var fails []oracleFail
	counts := map[string]int{}
	var done []string // ops executed so far: the replayable witness of an oracle failure
	fail := func(class, note string) {
		fails = append(fails, oracleFail{class, strings.Join(done, "\n") + "\n# " + note})
		counts["oracle:"+class]++
	}
	nfresh := 0
	lastRes := map[string]string{}   // label -> outcome of its last incremental report
	lastIncr := map[string]report{}  // reports of the last incremental run (for the fresh comparison)
	passViews := map[string][]view{} // label -> what the test observed whenever a pass of it was stored
	cacheMode := false
	haveStored := map[string]bool{} // label -> a results file is on disk
	lastEditedSince := map[string]bool{}
	for _, op := range ops {
		done = append(done, op)
		f := strings.Split(op, " ")
		switch f[0] {
		case "reset":
			res = append(res, result{op, "ok", false})
		case "file", "filei", "rmfile", "target", "test", "deltarget":
			if !s.apply(op) {
				res = append(res, result{op, "bad-op", false})
				continue
			}
			for l := range lastEditedSince {
				lastEditedSince[l] = true
			}
			res = append(res, result{op, "ok", false})
		case "cacheon":
			if len(f) != 1 {
				res = append(res, result{op, "bad-op", false})
				continue
			}
			rr.cache = mk("cache")
			cacheMode = true
			res = append(res, result{op, "ok", false})
		case "wipe":
			if len(f) != 1 {
				res = append(res, result{op, "bad-op", false})
				continue
			}
			os.RemoveAll(filepath.Join(rr.root, "plz-out"))
			for l := range haveStored {
				haveStored[l] = false
			}
			for l := range lastEditedSince {
				lastEditedSince[l] = true // the results file is gone: a cached report now needs the artifact cache
			}
			res = append(res, result{op, "ok", false})
		case "rmout":
			if len(f) == 2 {
				if t := s.targets[f[1]]; t != nil && t.Out != "" {
					os.RemoveAll(rr.outPath(t))
				}
				res = append(res, result{op, "ok", false})
			} else {
				res = append(res, result{op, "bad-op", false})
			}
		case "rmres":
			if len(f) == 2 {
				if isLabel(f[1]) && strings.Contains(f[1], ":") {
					os.Remove(rr.resultsPath(f[1]))
					haveStored[f[1]] = false
				}
				res = append(res, result{op, "ok", false})
			} else {
				res = append(res, result{op, "bad-op", false})
			}
		case "run":
			if len(f) != 3 || (f[2] != "-" && f[2] != "rerun" && f[2] != "runs2") {
				res = append(res, result{op, "bad-op", false})
				continue
			}
			req := splitList(f[1])
			order := s.closure(req)
			if order == nil {
				res = append(res, result{op, "error", false})
				continue
			}
			if err := rr.write(s); err != nil {
				panic(err)
			}
			bran, tran, reps, rc, out := rr.test(req, f[2])
			sorted := append([]string{}, req...)
			sort.Strings(sorted)
			complete := true
			parts := make([]string, 0, len(sorted))
			prev := ""
			for _, l := range sorted {
				if l == prev {
					continue
				}
				prev = l
				rep, ok := reps[l]
				if !ok {
					complete = false
					parts = append(parts, l+"=notbuilt")
					continue
				}
				_, e := os.Stat(rr.resultsPath(l))
				stored := e == nil
				mode := "run"
				if rep.cached {
					mode = "cached"
				}
				parts = append(parts, l+"="+rep.res+":"+mode+":"+map[bool]string{true: "stored", false: "none"}[stored])
			}
			if infra(rc, out) {
				// timeout / could not be started / killed by a signal: says nothing about the property and leaves the
				// repository in an unknown state: the whole history is dropped (counted, see main)
				return nil, nil, map[string]int{"history-dropped-infrastructure-failure": 1}
			}
			if !complete || (rc != 0 && rc != 7) {
				res = append(res, result{op, fmt.Sprintf("error:%d", rc), false})
				fail("plz-test-failed-unexpectedly", "plz output: "+strings.ReplaceAll(out, "\n", " | "))
				continue
			}
			rcs := "0"
			if rc != 0 {
				rcs = "1"
			}
			res = append(res, result{op, "bran=" + strings.Join(bran, ",") + "|tran=" + strings.Join(tran, ",") + "|" +
				strings.Join(parts, ";") + "|rc=" + rcs, true})
			// ---- direct oracles that need no fresh run
			executed := map[string]int{}
			for _, l := range tran {
				executed[l]++
			}
			allPass := true
			for l, rep := range reps {
				if rep.res != "pass" {
					allPass = false
				}
				if rep.cached && rep.res != "pass" {
					fail("failing-result-reported-as-cached", l+" reported "+rep.res+" [cached] at: "+op)
				}
				// (with the artifact cache these two only follow from injectivity of the runtime hash — an older passing
				// tree whose hash collides is restored — so there the fresh-run comparison below decides and classifies)
				if rep.cached && lastRes[l] != "pass" && !cacheMode {
					fail("failing-result-reused", l+" reported cached although its previous run was '"+lastRes[l]+"' at: "+op)
				}
				if rep.cached && executed[l] > 0 {
					fail("cached-report-but-executed", l+" at: "+op)
				}
				if !rep.cached && executed[l] == 0 {
					fail("fresh-report-but-not-executed", l+" at: "+op)
				}
				if lastRes[l] != "" && lastRes[l] != "pass" && executed[l] == 0 && !cacheMode {
					fail("failing-test-not-executed-again", l+" did not pass before and was not executed at: "+op)
				}
				if rep.cached && !haveStored[l] {
					counts["report-cached-from-artifact-cache"]++
				}
				switch {
				case rep.cached:
					counts["report-cached-pass"]++
				case rep.res == "pass":
					counts["report-run-pass"]++
				default:
					counts["report-run-"+rep.res]++
				}
				if lastRes[l] != "" && lastRes[l] != rep.res {
					counts["outcome-flipped"]++
				}
				for _, d := range s.targets[l].Data {
					if !isLabel(d) {
						if _, isFile := s.files[pkgOf(l)+"/"+d]; !isFile {
							counts["report-of-test-with-directory-data"]++
							break
						}
					}
				}
				if lastRes[l] != "" && lastRes[l] == rep.res && lastEditedSince[l] && !rep.cached {
					counts["outcome-kept-after-edit-reexecuted"]++
				}
				if lastRes[l] != "" && lastRes[l] != "pass" && executed[l] > 0 && !lastEditedSince[l] {
					counts["failing-test-executed-again-unchanged"]++
				}
				if rep.cached && len(bran) > 0 {
					counts["cached-although-a-dependency-was-rebuilt"]++
				}
			}
			if (rc == 0) != allPass {
				fail("exit-status-disagrees-with-report", fmt.Sprintf("rc=%d allPass=%v at: %s", rc, allPass, op))
			}
			for l, rep := range reps {
				_, e := os.Stat(rr.resultsPath(l))
				haveStored[l] = e == nil
				if !rep.cached && rep.res == "pass" && haveStored[l] {
					passViews[l] = append(passViews[l], rr.viewOf(s, l))
				}
				lastRes[l] = rep.res
				lastEditedSince[l] = false
			}
			lastIncr = reps
			if len(tran) == 0 {
				counts["step-all-cached"]++
			}
			if f[2] != "-" {
				counts["flag-"+f[2]]++
			}
		case "fresh":
			if len(f) != 2 {
				res = append(res, result{op, "bad-op", false})
				continue
			}
			req := splitList(f[1])
			order := s.closure(req)
			if order == nil {
				res = append(res, result{op, "error", false})
				continue
			}
			nfresh++
			fr := &realRepo{root: mk(fmt.Sprintf("fresh%d/repo", nfresh)), home: mk(fmt.Sprintf("fresh%d/home", nfresh)),
				log: filepath.Join(dir, fmt.Sprintf("fresh%d/log", nfresh)), plz: plz}
			if cacheMode {
				fr.cache = mk(fmt.Sprintf("fresh%d/cache", nfresh))
			}
			if err := fr.write(s); err != nil {
				panic(err)
			}
			_, _, reps, rc, out := fr.test(req, "-")
			sorted := append([]string{}, req...)
			sort.Strings(sorted)
			complete := true
			var parts []string
			prev := ""
			for _, l := range sorted {
				if l == prev {
					continue
				}
				prev = l
				rep, ok := reps[l]
				if !ok {
					complete = false
					continue
				}
				parts = append(parts, l+"="+rep.res)
			}
			if infra(rc, out) {
				return nil, nil, map[string]int{"history-dropped-infrastructure-failure": 1}
			}
			if !complete || (rc != 0 && rc != 7) {
				res = append(res, result{op, fmt.Sprintf("error:%d", rc), false})
				fail("fresh-plz-test-failed-unexpectedly", "plz output: "+strings.ReplaceAll(out, "\n", " | "))
				os.RemoveAll(filepath.Join(dir, fmt.Sprintf("fresh%d", nfresh)))
				continue
			}
			res = append(res, result{op, "fresh|" + strings.Join(parts, ";"), true})
			// ---- THE direct oracle: incremental report = fresh report, per requested test
			for _, l := range sorted {
				inc, ok := lastIncr[l]
				if !ok || inc.res == reps[l].res {
					continue
				}
				note := fmt.Sprintf("%s: incremental %s (cached=%v), fresh %s at: %s", l, inc.res, inc.cached, reps[l].res, op)
				vi, vf := rr.viewOf(s, l), fr.viewOf(s, l)
				switch {
				case !eqList(vi.trees, vf.trees):
					// what the incremental plz-out feeds the test differs from a fresh build: the build phase is stale (C01)
					class := "stale-build-output-fed-to-test"
					same := len(vi.trees) == len(vf.trees)
					for i := 0; same && i < len(vi.trees); i++ {
						same = contentOnly(vi.trees[i]) == contentOnly(vf.trees[i])
					}
					if same {
						class = "stale-output-dir-hash-ignores-entry-names"
					}
					fail(class, note)
				case inc.cached:
					fail(classifyAny(passViews[l], vi), note)
				default:
					fail("incremental-differs-from-fresh", note)
				}
			}
			os.RemoveAll(filepath.Join(dir, fmt.Sprintf("fresh%d", nfresh)))
		default:
			res = append(res, result{op, "bad-op", false})
		}
	}
	return res, fails, counts
}

func main() {
	r := lib.Start()
	defer r.Finish()
	r.Rule = "a `plz test` step (incremental or fresh) of a generated edit history; distinct by op line"
	plz := os.Getenv("VERIF_PLZ")
	scratch := os.Getenv("VERIF_SCRATCH")
	if scratch == "" {
		scratch = r.OutDir
	}
	scratch, _ = filepath.Abs(filepath.Join(scratch, "e2e"))
	os.MkdirAll(scratch, 0o755)
	defer os.RemoveAll(scratch)
	var ops []string
	if rp := r.ReplayOps(); rp != nil {
		ops = rp
	} else {
		g := &gen{r: r.Rng}
		nh := r.N(20, 160)
		for i := 0; i < nh; i++ {
			ops = append(ops, g.history(r, 4+r.Rng.Intn(3))...)
		}
		// a malformed stream: both sides must reject it
		ops = append(ops, "reset", "run", "test //p:t1 none - - - 1 0 zz", "test //p:t1 bogus - - - 1 0 tt", "fresh", "rmres", "target //p:g9 cat", "cacheon 1", "wipe x", "frobnicate 1")
	}
	hs := splitHistories(ops)
	type hres struct {
		res    []result
		fails  []oracleFail
		counts map[string]int
	}
	out := make([]hres, len(hs))
	var wg sync.WaitGroup
	sem := make(chan struct{}, 8)
	for i := range hs {
		wg.Add(1)
		sem <- struct{}{}
		go func(i int) {
			defer wg.Done()
			defer func() { <-sem }()
			a, b, c := runHistory(i, hs[i], scratch, plz)
			out[i] = hres{a, b, c}
		}(i)
	}
	wg.Wait()
	dropped := 0
	for _, h := range out {
		dropped += h.counts["history-dropped-infrastructure-failure"]
	}
	if dropped*2 > len(hs) {
		r.OracleFail("plz-infrastructure-failures", strings.Join(hs[0], "\n"),
			fmt.Sprintf("%d of %d histories dropped: plz could not be run (timeouts / exec failures)", dropped, len(hs)))
	}
	for i, h := range out {
		for _, x := range h.res {
			r.Emit(x.op, x.out, x.nontrivial)
		}
		for _, f := range h.fails {
			r.OracleFail(f.class, f.detail, fmt.Sprintf("history %d", i))
		}
		keys := make([]string, 0, len(h.counts))
		for k := range h.counts {
			keys = append(keys, k)
		}
		sort.Strings(keys)
		for _, k := range keys {
			for j := 0; j < h.counts[k]; j++ {
				r.Count(k)
			}
		}
	}
}
