// C39 harness: core.ReadDefaultConfigFiles over an in-memory fs + ApplyOverrides, against the Lean model
// (Driver/C39.lean) and against an independent reference that applies the sources in the documented order.
package main

import (
	"bytes"
	"fmt"
	iofs "io/fs"
	"os"
	"regexp"
	"runtime"
	"strconv"
	"strings"

	"github.com/thought-machine/please/src/cli"
	"github.com/thought-machine/please/src/core"
	"verif/harness/lib"
)

// ---------------------------------------------------------------- option table (same as Model/Config.lean `table`)

type kind int

const (
	kStr kind = iota
	kBool
	kList
	kMapKey
	kPlugin
)

type option struct {
	name    string // override name: section.field
	section string // section header text
	field   string
	kind    kind
	get     func(c *core.Configuration) any // string | *string (nil = absent) | []string | *[]string
	def     any                             // documented default (independent of the extractor: written from docs/config.html)
	numeric bool
}

func urls(u []cli.URL) []string {
	out := make([]string, len(u))
	for i, x := range u {
		out[i] = string(x)
	}
	return out
}

func mapKey(m map[string]string, k string) any {
	if v, ok := m[k]; ok {
		return &v
	}
	return (*string)(nil)
}

func pluginKey(c *core.Configuration, k string) any {
	p, ok := c.Plugin["foo"]
	if !ok || p == nil {
		return (*[]string)(nil)
	}
	v, ok := p.ExtraValues[k]
	if !ok {
		return (*[]string)(nil)
	}
	return &v
}

var options = []option{
	{"build.lang", "build", "lang", kStr, func(c *core.Configuration) any { return c.Build.Lang }, "en_GB.UTF-8", false},
	{"build.config", "build", "config", kStr, func(c *core.Configuration) any { return c.Build.Config }, "opt", false},
	{"please.numoldversions", "please", "numoldversions", kStr, func(c *core.Configuration) any { return strconv.Itoa(c.Please.NumOldVersions) }, "10", true},
	{"build.xattrs", "build", "xattrs", kBool, func(c *core.Configuration) any { return strconv.FormatBool(c.Build.Xattrs) }, "true", false},
	{"parse.buildfilename", "parse", "buildfilename", kList, func(c *core.Configuration) any { return c.Parse.BuildFileName }, []string{"BUILD", "BUILD.plz"}, false},
	{"parse.blacklistdirs", "parse", "blacklistdirs", kList, func(c *core.Configuration) any { return c.Parse.BlacklistDirs }, []string{}, false},
	{"parse.builddefsdir", "parse", "builddefsdir", kList, func(c *core.Configuration) any { return c.Parse.BuildDefsDir }, []string{"build_defs"}, false},
	{"java.defaultmavenrepo", "java", "defaultmavenrepo", kList, func(c *core.Configuration) any { return urls(c.Java.DefaultMavenRepo) }, []string{"https://repo1.maven.org/maven2", "https://jcenter.bintray.com/"}, false},
	{"buildconfig.Foo-Bar", "buildconfig", "Foo-Bar", kMapKey, func(c *core.Configuration) any { return mapKey(c.BuildConfig, "Foo-Bar") }, (*string)(nil), false},
	{"buildconfig.foo-bar", "buildconfig", "foo-bar", kMapKey, func(c *core.Configuration) any { return mapKey(c.BuildConfig, "foo-bar") }, (*string)(nil), false},
	{"plugin.foo.key", `plugin "foo"`, "key", kPlugin, func(c *core.Configuration) any { return pluginKey(c, "key") }, (*[]string)(nil), false},
	{"plugin.foo.other", `plugin "foo"`, "other", kPlugin, func(c *core.Configuration) any { return pluginKey(c, "other") }, (*[]string)(nil), false},
	{"display.updatetitle", "display", "updatetitle", kBool, func(c *core.Configuration) any { return strconv.FormatBool(c.Display.UpdateTitle) }, "false", false},
	// cli.Version: a field whose UnmarshalFlag works on the existing value (the ">=" flag is part of the value)
	{"please.version", "please", "version", kStr, func(c *core.Configuration) any {
		if !c.Please.Version.IsSet {
			return ""
		}
		return c.Please.Version.String()
	}, "", false},
}

const optVersion = 13

// ---------------------------------------------------------------- scenario

type stmt struct {
	opt   int
	blank bool
	val   string
}

type source struct {
	role    string
	profile int // -1: the file itself
	stmts   []stmt
}

type override struct {
	opt int
	val string
}

type scenario struct {
	profiles int
	xdgDirs  int
	xdgHome  bool
	sources  []source
	ovs      []override
}

func (sc *scenario) op() string {
	var b strings.Builder
	fmt.Fprintf(&b, "cfg p=%d x=%d,%d", sc.profiles, sc.xdgDirs, b2i(sc.xdgHome))
	for _, s := range sc.sources {
		p := "-"
		if s.profile >= 0 {
			p = strconv.Itoa(s.profile)
		}
		st := make([]string, len(s.stmts))
		for i, x := range s.stmts {
			if x.blank {
				st[i] = fmt.Sprintf("%d!", x.opt)
			} else {
				st[i] = fmt.Sprintf("%d=%s", x.opt, lib.Hex(x.val))
			}
		}
		body := strings.Join(st, ";")
		if body == "" {
			body = "-"
		}
		fmt.Fprintf(&b, " s:%s:%s:%s", s.role, p, body)
	}
	for _, o := range sc.ovs {
		fmt.Fprintf(&b, " o:%d=%s", o.opt, lib.Hex(o.val))
	}
	return b.String()
}

func b2i(b bool) int {
	if b {
		return 1
	}
	return 0
}

func parseOp(op string) (*scenario, bool) {
	f := strings.Split(op, " ")
	if f[0] != "cfg" {
		return nil, false
	}
	sc := &scenario{}
	bad := false
	atoi := func(s string) int {
		n, err := strconv.Atoi(s)
		if err != nil || n < 0 {
			bad = true
		}
		return n
	}
	unhex := func(s string) string {
		defer func() {
			if recover() != nil {
				bad = true
			}
		}()
		return lib.UnHex(s)
	}
	for _, t := range f[1:] {
		switch {
		case strings.HasPrefix(t, "p="):
			sc.profiles = atoi(t[2:])
		case strings.HasPrefix(t, "x="):
			p := strings.Split(t[2:], ",")
			if len(p) != 2 {
				return nil, false
			}
			sc.xdgDirs, sc.xdgHome = atoi(p[0]), atoi(p[1]) != 0
		case strings.HasPrefix(t, "s:"):
			p := strings.Split(t, ":")
			if len(p) != 4 {
				return nil, false
			}
			s := source{role: p[1], profile: -1}
			if p[2] != "-" {
				s.profile = atoi(p[2])
			}
			if p[3] != "-" {
				for _, x := range strings.Split(p[3], ";") {
					if strings.HasSuffix(x, "!") {
						s.stmts = append(s.stmts, stmt{opt: atoi(x[:len(x)-1]), blank: true})
					} else {
						kv := strings.Split(x, "=")
						if len(kv) != 2 {
							return nil, false
						}
						s.stmts = append(s.stmts, stmt{opt: atoi(kv[0]), val: unhex(kv[1])})
					}
				}
			}
			sc.sources = append(sc.sources, s)
		case strings.HasPrefix(t, "o:"):
			kv := strings.Split(t[2:], "=")
			if len(kv) != 2 {
				return nil, false
			}
			sc.ovs = append(sc.ovs, override{atoi(kv[0]), unhex(kv[1])})
		default:
			return nil, false
		}
	}
	for _, s := range sc.sources {
		for _, x := range s.stmts {
			if x.opt >= len(options) {
				bad = true
			}
		}
	}
	for _, o := range sc.ovs {
		if o.opt >= len(options) {
			bad = true
		}
	}
	return sc, !bad
}

// ---------------------------------------------------------------- the real code over an in-memory fs

type memFS map[string]string
type memFile struct{ *bytes.Reader }

func (memFile) Stat() (iofs.FileInfo, error) { return nil, fmt.Errorf("no stat") }
func (memFile) Close() error                 { return nil }
func (m memFS) Open(name string) (iofs.File, error) {
	if s, ok := m[name]; ok {
		return memFile{bytes.NewReader([]byte(s))}, nil
	}
	return nil, &iofs.PathError{Op: "open", Path: name, Err: iofs.ErrNotExist}
}

func rolePath(role string) string {
	switch role {
	case "machine":
		return "/etc/please/plzconfig"
	case "user":
		return "/h/.config/please/plzconfig"
	case "xdghome":
		return "/xh/plzconfig"
	case "repo":
		return "/r/.plzconfig"
	case "arch":
		return "/r/.plzconfig_" + runtime.GOOS + "_" + runtime.GOARCH
	case "local":
		return "/r/.plzconfig.local"
	}
	if strings.HasPrefix(role, "xdgdir") {
		return "/x" + role[6:] + "/plzconfig"
	}
	return "/nowhere/" + role
}

var safeVal = regexp.MustCompile(`^[A-Za-z0-9_./:{}-]+$`)

// render writes the statements as config file text; style bits vary the surface syntax
// (quoting, name case, repeated section headers, comments) without changing the meaning.
func render(stmts []stmt, style uint64) string {
	var b strings.Builder
	if style&1 != 0 {
		b.WriteString("; generated\n")
	}
	last := ""
	for i, s := range stmts {
		o := options[s.opt]
		if o.section != last || style&2 != 0 {
			fmt.Fprintf(&b, "[%s]\n", o.section)
			last = o.section
		}
		name := o.field
		if o.kind != kMapKey && o.kind != kPlugin {
			switch (style >> (3 + uint(i%8))) & 3 {
			case 1:
				name = strings.ToUpper(name)
			case 2:
				name = strings.ToUpper(name[:1]) + name[1:]
			}
		}
		if s.blank {
			b.WriteString(name + "\n")
			continue
		}
		if safeVal.MatchString(s.val) && style&4 != 0 {
			fmt.Fprintf(&b, "%s = %s\n", name, s.val)
		} else {
			q := strings.ReplaceAll(strings.ReplaceAll(s.val, `\`, `\\`), `"`, `\"`)
			fmt.Fprintf(&b, "%s = \"%s\"  # c\n", name, q)
		}
	}
	return b.String()
}

func profileName(i int) string { return "p" + strconv.Itoa(i) }

type result struct {
	err   string // "", "err", "operr"
	vals  []any
	debug string
}

func runReal(sc *scenario, style uint64) result {
	m := memFS{}
	for _, s := range sc.sources {
		p := rolePath(s.role)
		if s.profile >= 0 {
			p += "." + profileName(s.profile)
		}
		m[p] = render(s.stmts, style)
	}
	// decoys that must never be read: a relative XDG entry, a profile that was not asked for
	m["rel/plzconfig"] = "[build]\nlang = DECOY\n"
	m["/r/.plzconfig.notaprofile"] = "[build]\nlang = DECOY\n"
	core.RepoRoot = "/r"
	os.Setenv("HOME", "/h")
	os.Unsetenv("XDG_CONFIG_DIRS")
	os.Unsetenv("XDG_CONFIG_HOME")
	if sc.xdgDirs > 0 {
		d := []string{}
		for i := 0; i < sc.xdgDirs; i++ {
			d = append(d, "/x"+strconv.Itoa(i))
			if i == 0 {
				d = append(d, "rel")
			}
		}
		os.Setenv("XDG_CONFIG_DIRS", strings.Join(d, ":"))
	}
	if sc.xdgHome {
		os.Setenv("XDG_CONFIG_HOME", "/xh")
	}
	profiles := make([]core.ConfigProfile, sc.profiles)
	for i := range profiles {
		profiles[i] = core.ConfigProfile(profileName(i))
	}
	c, err := core.ReadDefaultConfigFiles(m, profiles)
	if err != nil {
		return result{err: "err", debug: err.Error()}
	}
	if len(sc.ovs) > 0 {
		ov := map[string]string{}
		for _, o := range sc.ovs {
			ov[options[o.opt].name] = o.val
		}
		if err := c.ApplyOverrides(ov); err != nil {
			return result{err: "operr", debug: err.Error()}
		}
	}
	r := result{}
	for _, o := range options {
		r.vals = append(r.vals, o.get(c))
	}
	return r
}

func showList(l []string) string {
	h := make([]string, len(l))
	for i, x := range l {
		h[i] = lib.Hex(x)
	}
	return "[" + strings.Join(h, ",") + "]"
}

func showVal(v any) string {
	switch x := v.(type) {
	case string:
		return lib.Hex(x)
	case *string:
		if x == nil {
			return "~"
		}
		return lib.Hex(*x)
	case []string:
		return showList(x)
	case *[]string:
		if x == nil {
			return "~"
		}
		return showList(*x)
	}
	return "?"
}

func (r result) String() string {
	if r.err != "" {
		return r.err
	}
	p := make([]string, len(r.vals))
	for i, v := range r.vals {
		p[i] = strconv.Itoa(i) + "=" + showVal(v)
	}
	return strings.Join(p, "|")
}

// ---------------------------------------------------------------- the reference (the property as stated)

// documentedOrder: lowest priority first; each file is followed by its profile files.
func documentedOrder(sc *scenario) [][2]any {
	files := []string{"machine"}
	for i := 0; i < sc.xdgDirs; i++ {
		files = append(files, "xdgdir"+strconv.Itoa(i))
	}
	files = append(files, "user")
	if sc.xdgHome {
		files = append(files, "xdghome")
	}
	files = append(files, "repo", "arch", "local")
	var out [][2]any
	for _, f := range files {
		out = append(out, [2]any{f, -1})
		for p := 0; p < sc.profiles; p++ {
			out = append(out, [2]any{f, p})
		}
	}
	return out
}

type refOut struct {
	err      bool
	vals     []any
	perFile  [][]stmt // statements per read source, in order (for the class predicates)
	override map[int]*string
}

func reference(sc *scenario) refOut {
	var seq [][]stmt
	for _, n := range documentedOrder(sc) {
		for _, s := range sc.sources {
			if s.role == n[0].(string) && s.profile == n[1].(int) {
				seq = append(seq, s.stmts)
				break
			}
		}
	}
	out := refOut{perFile: seq, override: map[int]*string{}}
	for _, o := range sc.ovs {
		v := o.val
		out.override[o.opt] = &v
	}
	for i, o := range options {
		switch o.kind {
		case kStr, kBool, kMapKey:
			var cur *string
			if d, ok := o.def.(string); ok {
				cur = &d
			}
			for _, f := range seq {
				for _, s := range f {
					if s.opt != i {
						continue
					}
					v := s.val
					if s.blank {
						switch o.kind {
						case kStr:
							out.err = true // a blank is not a value for a string/int option: the file is rejected
						case kBool:
							v = "true"
						default:
							v = ""
						}
					}
					cur = &v
				}
			}
			if ov := out.override[i]; ov != nil {
				cur = ov
			}
			if o.kind == kMapKey {
				out.vals = append(out.vals, cur)
			} else {
				out.vals = append(out.vals, *cur)
			}
		case kList, kPlugin:
			set := false
			var cur []string
			for _, f := range seq {
				for _, s := range f {
					if s.opt != i {
						continue
					}
					set = true
					if s.blank {
						cur = nil // a blank value clears everything set before it
					} else {
						cur = append(cur, s.val)
					}
				}
			}
			if ov := out.override[i]; ov != nil {
				set = true
				if o.kind == kPlugin {
					cur = []string{*ov}
				} else {
					cur = strings.Split(*ov, ",") // a command-line override replaces the whole list
				}
			}
			if o.kind == kPlugin {
				if !set {
					out.vals = append(out.vals, (*[]string)(nil))
				} else {
					c := append([]string{}, cur...)
					out.vals = append(out.vals, &c)
				}
			} else {
				if !set { // documented defaults apply only to options that no source sets
					cur = o.def.([]string)
				}
				out.vals = append(out.vals, append([]string{}, cur...))
			}
		}
	}
	return out
}

func eqList(a, b []string) bool {
	if len(a) != len(b) {
		return false
	}
	for i := range a {
		if a[i] != b[i] {
			return false
		}
	}
	return true
}

// classify names the root cause of a difference between the reference and the real value of option i.
// Known classes are recognised by re-computing what that specific deviation would produce; anything else
// is reported under a generic class (and so is never covered by a known finding).
func classify(sc *scenario, ref refOut, i int, real any) string {
	o := options[i]
	switch o.kind {
	case kList:
		got := real.([]string)
		want := ref.vals[i].([]string)
		if ref.override[i] != nil {
			return "override-list-mismatch"
		}
		mentioned := false
		for _, f := range ref.perFile {
			for _, s := range f {
				if s.opt == i {
					mentioned = true
				}
			}
		}
		def := o.def.([]string)
		if i == 7 {
			// pre-populated slice: the code's value = default ++ (whatever follows the last blank)
			cur := append([]string{}, def...)
			for _, f := range ref.perFile {
				for _, s := range f {
					if s.opt == i {
						if s.blank {
							cur = nil
						} else {
							cur = append(cur, s.val)
						}
					}
				}
			}
			if eqList(cur, got) && mentioned {
				return "prepopulated-list-default-kept"
			}
			return "list-mismatch"
		}
		if mentioned && len(want) == 0 && len(def) > 0 && eqList(got, def) {
			return "list-default-after-blank"
		}
		return "list-mismatch"
	case kPlugin:
		// the code: the last file that mentions the key supplies its values, blank = ""
		var lastVals []string
		n, blankInLast := 0, false
		for _, f := range ref.perFile {
			var v []string
			has, bl := false, false
			for _, s := range f {
				if s.opt == i {
					has = true
					if s.blank {
						bl = true
					}
					v = append(v, s.val)
				}
			}
			if has {
				n++
				lastVals, blankInLast = v, bl
			}
		}
		gp := real.(*[]string)
		if ref.override[i] == nil && gp != nil && eqList(*gp, lastVals) {
			if n >= 2 {
				return "plugin-list-replaced-per-file"
			}
			if blankInLast {
				return "plugin-blank-appends-empty"
			}
		}
		return "plugin-mismatch"
	case kMapKey:
		// -o buildconfig.Foo-Bar:v lands on key foo-bar
		if ov := ref.override[8]; ov != nil && (i == 8 || i == 9) {
			return "override-mapkey-lowercased"
		}
		return "mapkey-mismatch"
	}
	if i == optVersion {
		// the ">=" of a lower layer survives a higher layer that sets a plain version
		want, _ := ref.vals[i].(string)
		got, _ := real.(string)
		sticky := false
		for _, f := range ref.perFile {
			for _, s := range f {
				if s.opt == i && strings.HasPrefix(s.val, ">=") {
					sticky = true
				}
			}
		}
		if sticky && got == ">="+want {
			return "version-gte-sticky"
		}
	}
	return "single-mismatch"
}

func oracle(r *lib.Run, sc *scenario, op string, real result) {
	ref := reference(sc)
	if ref.err {
		if real.err != "err" {
			r.OracleFail("blank-on-string-accepted", op, real.String())
		}
		return
	}
	if real.err == "err" {
		r.OracleFail("unexpected-read-error", op, real.debug)
		return
	}
	if real.err == "operr" {
		// the only documented way an override can fail here: a plugin override without any plugin section
		for _, o := range sc.ovs {
			if options[o.opt].kind == kPlugin {
				return
			}
		}
		r.OracleFail("unexpected-override-error", op, real.debug)
		return
	}
	seen := map[string]bool{}
	for i := range options {
		if showVal(ref.vals[i]) != showVal(real.vals[i]) {
			cls := classify(sc, ref, i, real.vals[i])
			if !seen[cls] {
				seen[cls] = true
				r.OracleFail(cls, op, fmt.Sprintf("option %s: reference %s, real %s", options[i].name, showVal(ref.vals[i]), showVal(real.vals[i])))
			}
		}
	}
}

// ---------------------------------------------------------------- ops

func runOp(r *lib.Run, op string) {
	sc, ok := parseOp(op)
	if !ok {
		r.Emit(op, "bad-op", false)
		return
	}
	style := r.Rng.U64()
	real := runReal(sc, style)
	// surface syntax must not matter: a second rendering gives the same result
	if r2 := runReal(sc, ^style); r2.String() != real.String() {
		r.OracleFail("rendering-dependent", op, real.String()+" vs "+r2.String())
	}
	oracle(r, sc, op, real)
	nsrc := 0
	for _, s := range sc.sources {
		if len(s.stmts) > 0 {
			nsrc++
		}
	}
	r.Emit(op, real.String(), nsrc >= 2 || (nsrc >= 1 && len(sc.ovs) > 0))
}

var alphabet = []string{"a", "b", "BUILD", "x,y", ",", "", " ", " lead", "trail ", "a=b", "#no", ";semi", `q"uote`, `back\slash`, "[sect]", "über", "日本", "a b c", "$HOME", "~", "//x:y", "true", "0"}

func genVal(r *lib.Run, o int) string {
	switch {
	case options[o].numeric:
		return strconv.Itoa(r.Rng.Intn(100))
	case options[o].kind == kBool:
		return lib.Pick(r.Rng, []string{"true", "false"})
	case o == optVersion: // with and without the >= prefix
		return lib.Pick(r.Rng, []string{"1.2.3", ">=1.2.3", "17.0.0", ">=17.0.0", "16.28.1", ">=0.0.1"})
	case o == 7: // cli.URL: the value must parse as a URL, anything else is a (legitimate) read error
		return lib.Pick(r.Rng, []string{"http://a", "https://b/c", "http://d?e=f", "u", "http://x,y", "https://repo1.maven.org/maven2"})
	}
	return lib.Pick(r.Rng, alphabet)
}

var roles = []string{"machine", "user", "repo", "arch", "local"}

func allRoles(sc *scenario) []string {
	rs := append([]string{}, roles...)
	for i := 0; i < sc.xdgDirs; i++ {
		rs = append(rs, "xdgdir"+strconv.Itoa(i))
	}
	if sc.xdgHome {
		rs = append(rs, "xdghome")
	}
	return rs
}

func genScenario(r *lib.Run) *scenario {
	sc := &scenario{profiles: r.Rng.Intn(3)}
	if r.Rng.Chance(20) {
		sc.xdgDirs = r.Rng.Intn(3)
		sc.xdgHome = r.Rng.Bool()
		r.Count("xdg")
	}
	// a few "hot" options so that the same option is set in several layers
	hot := []int{r.Rng.Intn(len(options)), r.Rng.Intn(len(options)), r.Rng.Intn(len(options))}
	rs := allRoles(sc)
	type key struct {
		role string
		p    int
	}
	var keys []key
	for _, ro := range rs {
		keys = append(keys, key{ro, -1})
		for p := 0; p < sc.profiles; p++ {
			keys = append(keys, key{ro, p})
		}
	}
	lib.Shuffle(r.Rng, keys)
	n := r.Rng.Intn(len(keys) + 1)
	if n > 6 && r.Rng.Chance(70) {
		n = 1 + r.Rng.Intn(6)
	}
	blankP := lib.Pick(r.Rng, []int{0, 10, 25})
	for _, k := range keys[:n] {
		s := source{role: k.role, profile: k.p}
		for j := r.Rng.Intn(5); j > 0; j-- {
			o := lib.Pick(r.Rng, hot)
			if r.Rng.Chance(25) {
				o = r.Rng.Intn(len(options))
			}
			st := stmt{opt: o}
			if r.Rng.Chance(blankP) && (options[o].kind != kStr || r.Rng.Chance(5)) {
				st.blank = true
				r.Count("blank:" + [...]string{"str", "bool", "list", "mapkey", "plugin"}[options[o].kind])
			} else {
				st.val = genVal(r, o)
			}
			s.stmts = append(s.stmts, st)
		}
		sc.sources = append(sc.sources, s)
		if k.p >= 0 {
			r.Count("profile-source")
		}
	}
	if r.Rng.Chance(40) {
		used := map[int]bool{}
		for j := 1 + r.Rng.Intn(2); j > 0; j-- {
			o := lib.Pick(r.Rng, hot)
			if r.Rng.Chance(30) {
				o = r.Rng.Intn(len(options))
			}
			// at most one override per field: 8 and 9 both land on "foo-bar" and Go's map order would decide
			// please.version is a struct field: ApplyOverrides refuses it ("can't override config field of type struct")
			if o == optVersion || used[o] || (o == 8 && used[9]) || (o == 9 && used[8]) {
				continue
			}
			used[o] = true
			sc.ovs = append(sc.ovs, override{o, genVal(r, o)})
			r.Count("override:" + [...]string{"str", "bool", "list", "mapkey", "plugin"}[options[o].kind])
		}
	}
	return sc
}

func main() {
	cli.InitLogging(cli.MinVerbosity)
	r := lib.Start()
	defer r.Finish()
	r.Rule = "at least two non-empty sources, or one plus an override; distinct by op line"
	if ops := r.ReplayOps(); ops != nil {
		for _, op := range ops {
			runOp(r, op)
		}
		return
	}
	// (1) exhaustive: one string option and one list option over every subset of the ten sources
	//     {machine,user,repo,arch,local} x {file, profile p0}; value = name of the source
	type key struct {
		role string
		p    int
	}
	var keys []key
	for _, ro := range roles {
		keys = append(keys, key{ro, -1}, key{ro, 0})
	}
	for _, opt := range []int{0, 4} {
		for mask := 0; mask < 1<<len(keys); mask++ {
			sc := &scenario{profiles: 1}
			for i, k := range keys {
				if mask&(1<<i) != 0 {
					v := k.role
					if k.p >= 0 {
						v += ".p0"
					}
					sc.sources = append(sc.sources, source{k.role, k.p, []stmt{{opt: opt, val: v}}})
				}
			}
			runOp(r, sc.op())
			r.Count("exhaustive-subsets")
		}
	}
	// (2) list option: every sequence of length <= 4 over {value, blank} spread over two layers, with and without override
	for n := 0; n <= 4; n++ {
		for mask := 0; mask < 1<<n; mask++ {
			for cut := 0; cut <= n; cut++ {
				for ov := 0; ov < 2; ov++ {
					var a, b []stmt
					for i := 0; i < n; i++ {
						st := stmt{opt: 5, val: "v" + strconv.Itoa(i)}
						if mask&(1<<i) != 0 {
							st = stmt{opt: 5, blank: true}
						}
						if i < cut {
							a = append(a, st)
						} else {
							b = append(b, st)
						}
					}
					sc := &scenario{sources: []source{{"repo", -1, a}, {"local", -1, b}}}
					if ov == 1 {
						sc.ovs = []override{{5, "o1,o2"}}
					}
					runOp(r, sc.op())
					r.Count("exhaustive-list-seqs")
				}
			}
		}
	}
	// (2b) please.version: every ordered pair of the ten sources x {plain, >=} x {plain, >=}, and triples along the documented order
	vv := []string{"1.2.3", ">=1.2.3", "17.0.0", ">=17.0.0"}
	for i, k1 := range keys {
		for j, k2 := range keys {
			if i == j {
				continue
			}
			for a := 0; a < 2; a++ {
				for b := 2; b < 4; b++ {
					sc := &scenario{profiles: 1, sources: []source{
						{k1.role, k1.p, []stmt{{opt: optVersion, val: vv[a]}}}, {k2.role, k2.p, []stmt{{opt: optVersion, val: vv[b]}}}}}
					runOp(r, sc.op())
					r.Count("version-layer-pairs")
				}
			}
		}
	}
	r.Exhaust = true
	// (3) random scenarios
	for i := 0; i < r.N(3000, 60000); i++ {
		sc := genScenario(r)
		runOp(r, sc.op())
		r.Count("random")
	}
	// (4) malformed lines: both sides must say bad-op
	for _, op := range []string{"cfg p=x", "cfg s:repo:-", "cfg o:1", "nonsense", "cfg s:repo:-:99=61", "cfg s:repo:-:0=zz"} {
		runOp(r, op)
		r.Count("malformed")
	}
}
