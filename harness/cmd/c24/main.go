// C24 harness: query.Changes and query.DiffGraphs of the real code on real build graphs, against the Lean
// model (Driver/C24.lean, exact reported label set) and against an independent reference: every target that
// consumes a changed file (source, data or file tool), every target whose definition changed, and — with
// an unlimited level — everything that transitively depends on those must be reported.
//
// Op line:
//
//	changes <level 0|u|N> <files> <changed0> <names> <pkgs> <nodes> <adj> <inputs> <tools> <labels> <include> <exclude>
//
//	<files>     changed files, repo-relative clean paths, "," separated ("-" = none)
//	<changed0>  ids DiffGraphs found changed before looking at files (empty for query.Changes)
//	<names>     pkg:name per id ("." is the root package)
//	<pkgs>      registered package names ("." = root)
//	<nodes>     ids in AllTargets order; <adj> id:deps;… flattened DeclaredDependencies/ProvideFor
//	<inputs>    id:path|path|…;…  the String() of AllSources()++AllData() of each target ("-" = none)
//	<tools>     id:path|…;…  local file tools (AllTools() that are FileLabels)
//	<labels>    id:label|label;…  target.Labels
//	<include> <exclude>  state.Include / state.Exclude: entries separated by ';', an entry is a comma-separated list of
//	            labels that a target must ALL have (`plz query changes` always excludes `manual`)
//
// Output: ids of the reported labels in label order.
package main

import (
	"fmt"
	"sort"
	"strings"

	"github.com/thought-machine/please/src/cli"
	"github.com/thought-machine/please/src/core"
	"github.com/thought-machine/please/src/query"
	"verif/harness/lib"
)

func init() { cli.InitLogging(cli.MinVerbosity) }

type tspec struct {
	name        string // pkg:name, pkg "." = root
	deps        []int
	srcs, data  []string // file names relative to the package (may be directories)
	tools       []string // local file tools
	cmd         string
	labels      []string
	testCmd     string // non-empty: a test
	binary      bool
	srcLabelsOf []int // sources that are other targets (labels)
}

type gspec struct {
	t    []tspec
	pkgs []string // extra registered packages (no targets)
}

type world struct {
	state   *core.BuildState
	targets []*core.BuildTarget
	labels  []core.BuildLabel
	idOf    map[core.BuildLabel]int
	n       int
	nodes   []int
	adj     [][]int
	inputs  [][]string
	tools   [][]string
	pkgs    []string
}

func splitName(s string) (string, string) {
	i := strings.LastIndex(s, ":")
	p := s[:i]
	if p == "." {
		p = ""
	}
	return p, s[i+1:]
}

var sharedState *core.BuildState

func build(g *gspec) *world { return buildIn(g, nil) }

// buildShared reuses one BuildState (creating one costs milliseconds and megabytes) with a fresh graph.
func buildShared(g *gspec) *world {
	if sharedState == nil {
		sharedState = core.NewDefaultBuildState()
	}
	sharedState.Graph = core.NewGraph()
	return buildIn(g, sharedState)
}

func buildIn(g *gspec, st *core.BuildState) *world {
	if st == nil {
		st = core.NewDefaultBuildState()
	}
	w := &world{state: st, idOf: map[core.BuildLabel]int{}, n: len(g.t)}
	pkgs := map[string]*core.Package{}
	addPkg := func(p string) *core.Package {
		if pkgs[p] == nil {
			pkgs[p] = core.NewPackage(p)
			w.state.Graph.AddPackage(pkgs[p])
		}
		return pkgs[p]
	}
	for id, ts := range g.t {
		p, n := splitName(ts.name)
		l := core.NewBuildLabel(p, n)
		w.idOf[l] = id
		w.labels = append(w.labels, l)
	}
	for id, ts := range g.t {
		p, _ := splitName(ts.name)
		t := core.NewBuildTarget(w.labels[id])
		t.IsBinary = ts.binary
		t.Command = ts.cmd
		for _, l := range ts.labels {
			t.AddLabel(l)
		}
		if ts.testCmd != "" {
			t.Test = new(core.TestFields)
			t.Test.Command = ts.testCmd
			t.IsBinary = true
		}
		for _, f := range ts.srcs {
			t.AddSource(core.FileLabel{File: f, Package: p})
		}
		for _, s := range ts.srcLabelsOf {
			t.AddSource(w.labels[s])
		}
		for _, f := range ts.data {
			t.AddDatum(core.FileLabel{File: f, Package: p})
		}
		for _, f := range ts.tools {
			t.AddTool(core.FileLabel{File: f, Package: p})
		}
		for _, d := range ts.deps {
			if d != id {
				t.AddDependency(w.labels[d])
			}
		}
		w.state.Graph.AddTarget(t)
		addPkg(p).AddTarget(t)
		w.targets = append(w.targets, t)
	}
	for _, p := range g.pkgs {
		if p == "." {
			p = ""
		}
		addPkg(p)
	}
	for _, t := range w.state.Graph.AllTargets() {
		w.nodes = append(w.nodes, w.idOf[t.Label])
	}
	w.adj = make([][]int, w.n)
	w.inputs = make([][]string, w.n)
	w.tools = make([][]string, w.n)
	for id, t := range w.targets {
		for _, tl := range t.AllTools() {
			if fl, ok := tl.(core.FileLabel); ok {
				w.tools[id] = append(w.tools[id], fl.File)
			}
		}
		for _, l := range t.DeclaredDependencies() {
			for _, p := range w.state.Graph.TargetOrDie(l).ProvideFor(t) {
				w.adj[id] = append(w.adj[id], w.idOf[p])
			}
		}
		for _, in := range append(t.AllSources(), t.AllData()...) {
			w.inputs[id] = append(w.inputs[id], in.String())
		}
	}
	for p := range pkgs {
		if p == "" {
			p = "."
		}
		w.pkgs = append(w.pkgs, p)
	}
	sort.Strings(w.pkgs)
	return w
}

func lvlStr(l int) string {
	if l == -1 {
		return "u"
	}
	return fmt.Sprint(l)
}

// filt: the --include / --exclude configuration of the query
type filt struct{ include, exclude []string }

func (f filt) field(xs []string) string { return dash(strings.Join(xs, ";")) }

// included: the reference reading of --include/--exclude (independent of core.BuildTarget.ShouldInclude): a target is shown
// when it carries all labels of some include entry (or there is no include entry) and not all labels of any exclude entry.
func included(labels []string, f filt) bool {
	has := func(entry string) bool {
		for _, l := range strings.Split(entry, ",") {
			found := false
			for _, x := range labels {
				if x == l {
					found = true
				}
			}
			if !found {
				return false
			}
		}
		return true
	}
	ok := len(f.include) == 0
	for _, e := range f.include {
		if has(e) {
			ok = true
		}
	}
	for _, e := range f.exclude {
		if has(e) {
			return false
		}
	}
	return ok
}

// withFilter runs fn with the state's include/exclude set, and restores the state afterwards.
func withFilter(st *core.BuildState, f filt, fn func()) {
	oi, oe := st.Include, st.Exclude
	st.Include, st.Exclude = f.include, f.exclude
	defer func() { st.Include, st.Exclude = oi, oe }()
	fn()
}

// withinSteps: targets that reach a seed along at most n dependency edges (n < 0: any number)
func (w *world) withinSteps(seed map[int]bool, n int) map[int]bool {
	dist := map[int]int{}
	for k := range seed {
		dist[k] = 0
	}
	for changed := true; changed; {
		changed = false
		for a := 0; a < w.n; a++ {
			for _, b := range w.adj[a] {
				if db, ok := dist[b]; ok {
					if da, ok2 := dist[a]; !ok2 || db+1 < da {
						dist[a] = db + 1
						changed = true
					}
				}
			}
		}
	}
	out := map[int]bool{}
	for k, d := range dist {
		if n < 0 || d <= n {
			out[k] = true
		}
	}
	return out
}

func dash(s string) string {
	if s == "" {
		return "-"
	}
	return s
}

func (w *world) opLine(g *gspec, level int, files []string, changed0 []int, fl filt) string {
	names := make([]string, len(g.t))
	for i, t := range g.t {
		names[i] = t.name
	}
	var adj, ins, tls, lbs []string
	for id := 0; id < w.n; id++ {
		lbs = append(lbs, fmt.Sprintf("%d:%s", id, dash(strings.Join(w.targets[id].Labels, "|"))))
		adj = append(adj, fmt.Sprintf("%d:%s", id, lib.Nats(w.adj[id])))
		ins = append(ins, fmt.Sprintf("%d:%s", id, dash(strings.Join(w.inputs[id], "|"))))
		tls = append(tls, fmt.Sprintf("%d:%s", id, dash(strings.Join(w.tools[id], "|"))))
	}
	return strings.Join([]string{"changes", lvlStr(level), dash(strings.Join(files, ",")), lib.Nats(changed0), dash(strings.Join(names, ",")),
		dash(strings.Join(w.pkgs, ",")), lib.Nats(w.nodes), dash(strings.Join(adj, ";")), dash(strings.Join(ins, ";")), dash(strings.Join(tls, ";")), dash(strings.Join(lbs, ";")),
		fl.field(fl.include), fl.field(fl.exclude)}, " ")
}

func (w *world) ids(ls core.BuildLabels) []int {
	var out []int
	for _, l := range ls {
		out = append(out, w.idOf[l])
	}
	return out
}

// ---------------------------------------------------------------- reference

// closest registered package directory of a file
func (w *world) closestPkg(file string) (string, bool) {
	has := map[string]bool{}
	for _, p := range w.pkgs {
		if p == "." {
			p = ""
		}
		has[p] = true
	}
	parts := strings.Split(file, "/")
	for k := len(parts) - 1; k >= 0; k-- {
		d := strings.Join(parts[:k], "/")
		if has[d] {
			return d, true
		}
	}
	return "", false
}

// consumes: file is a source / data file / file tool of the target, or lies inside a directory that is one
func consumes(g *gspec, id int, file string) (bool, bool) {
	p, _ := splitName(g.t[id].name)
	under := func(x string) bool {
		full := x
		if p != "" {
			full = p + "/" + x
		}
		return file == full || strings.HasPrefix(file, full+"/")
	}
	for _, x := range append(append([]string{}, g.t[id].srcs...), g.t[id].data...) {
		if under(x) {
			return true, false
		}
	}
	for _, x := range g.t[id].tools {
		if under(x) {
			return true, true
		}
	}
	return false, false
}

func (w *world) dependents(seed map[int]bool) map[int]bool {
	out := map[int]bool{}
	for k := range seed {
		out[k] = true
	}
	for changed := true; changed; {
		changed = false
		for a := 0; a < w.n; a++ {
			if out[a] {
				continue
			}
			for _, b := range w.adj[a] {
				if out[b] {
					out[a] = true
					changed = true
					break
				}
			}
		}
	}
	return out
}

func runChanges(r *lib.Run, g *gspec, w *world, files []string, level int, fl filt, tag string) {
	op := w.opLine(g, level, files, nil, fl)
	var got []int
	res := lib.Safely(func() string {
		withFilter(w.state, fl, func() { got = w.ids(query.Changes(w.state, files, level, false)) })
		return lib.Nats(got)
	})
	gotSet := map[int]bool{}
	for _, x := range got {
		gotSet[x] = true
	}
	inc := func(id int) bool { return included(w.targets[id].Labels, fl) }
	direct := map[int]bool{}
	viaSrc := map[int]bool{} // consumers through a source or data file (not only through a file tool)
	for _, f := range files {
		cp, ok := w.closestPkg(f)
		for id := 0; id < w.n; id++ {
			c, viaTool := consumes(g, id, f)
			if !c {
				continue
			}
			p, _ := splitName(g.t[id].name)
			if !ok || cp != p {
				continue // the file belongs to a nearer package: this target cannot use it
			}
			direct[id] = true
			if !viaTool {
				viaSrc[id] = true
			}
			if !gotSet[id] && inc(id) {
				cls := "changes-consumer-missed"
				if viaTool {
					cls = "changes-file-tool-not-a-source"
				}
				r.OracleFail(cls, op, fmt.Sprintf("target %d (%s) consumes %s but is not reported; reported: %s", id, w.labels[id], f, res))
			}
		}
	}
	hiddenSeed := false
	for id := range direct {
		if !inc(id) {
			hiddenSeed = true
		}
	}
	if level != 0 {
		fromSrc := w.withinSteps(viaSrc, level)
		for id := range w.withinSteps(direct, level) {
			if !gotSet[id] && !direct[id] && inc(id) {
				cls := "changes-dependent-missed"
				if !fromSrc[id] { // only below a target that consumes the file as a tool: same root cause
					cls = "changes-file-tool-not-a-source"
				}
				r.OracleFail(cls, op, fmt.Sprintf("target %d (%s) depends (within the level) on a target that consumes a changed file but is not reported; include=%v exclude=%v; reported: %s", id, w.labels[id], fl.include, fl.exclude, res))
			}
		}
	}
	for _, id := range got {
		if !inc(id) {
			r.OracleFail("changes-reports-filtered-target", op, fmt.Sprintf("target %d (%s) is excluded by include=%v exclude=%v but is reported", id, w.labels[id], fl.include, fl.exclude))
		}
	}
	r.Count(tag)
	if len(fl.include)+len(fl.exclude) > 0 {
		r.Count("filtered-query")
		if hiddenSeed && level != 0 {
			r.Count("filtered-query:a-directly-changed-target-is-hidden")
		}
	}
	r.Emit(op, res, len(direct) > 0)
}

// runDiff: before/after graphs; `edited` are the targets whose definition differs (by construction).
func runDiff(r *lib.Run, gb, ga *gspec, edited []int, collide []int, files []string, level int, fl filt, tag string) {
	wb, wa := build(gb), build(ga)
	var c0 []int
	lib.Safely(func() string { c0 = wa.ids(query.DiffGraphs(wb.state, wa.state, nil, 0, false)); return "" })
	op := wa.opLine(ga, level, files, c0, fl)
	var got []int
	res := lib.Safely(func() string {
		withFilter(wa.state, fl, func() { got = wa.ids(query.DiffGraphs(wb.state, wa.state, files, level, false)) })
		return lib.Nats(got)
	})
	inc := func(id int) bool { return included(wa.targets[id].Labels, fl) }
	gotSet := map[int]bool{}
	for _, x := range got {
		gotSet[x] = true
	}
	isCollide := map[int]bool{}
	for _, x := range collide {
		isCollide[x] = true
	}
	seed := map[int]bool{}
	for _, id := range edited {
		seed[id] = true
		if !gotSet[id] && inc(id) {
			cls := "changes-definition-change-missed"
			if isCollide[id] {
				cls = "changes-rulehash-unframed"
			}
			r.OracleFail(cls, op, fmt.Sprintf("the definition of target %d (%s) changed but it is not reported; reported: %s", id, wa.labels[id], res))
		}
	}
	if level != 0 {
		for id := range wa.withinSteps(seed, level) {
			if !gotSet[id] && !seed[id] && inc(id) {
				// dependents of a collided (missed) definition change share its root cause
				cls := "changes-dependent-missed"
				onlyCollide := true
				for _, e := range edited {
					if !isCollide[e] && wa.withinSteps(map[int]bool{e: true}, level)[id] {
						onlyCollide = false
					}
				}
				if onlyCollide && len(collide) > 0 {
					cls = "changes-rulehash-unframed"
				}
				r.OracleFail(cls, op, fmt.Sprintf("target %d (%s) depends on a target whose definition changed but is not reported; reported: %s", id, wa.labels[id], res))
			}
		}
	}
	r.Count(tag)
	r.Emit(op, res, len(edited) > 0)
}

// ---------------------------------------------------------------- replay

func replayOp(r *lib.Run, op string) {
	f := strings.Split(op, " ")
	bad := func() { r.Emit(op, "bad-op", false) }
	if len(f) != 13 || f[0] != "changes" {
		bad()
		return
	}
	level := 0
	switch {
	case f[1] == "u":
		level = -1
	default:
		n := 0
		if f[1] == "" || len(f[1]) > 4 {
			bad()
			return
		}
		for _, c := range f[1] {
			if c < '0' || c > '9' {
				bad()
				return
			}
			n = n*10 + int(c-'0')
		}
		level = n
	}
	// replay supports the query.Changes form (no before-graph can be rebuilt from the op line): changed0 must be empty
	if f[3] != "-" {
		r.Count("replay-skipped:diff-op")
		return
	}
	var files []string
	if f[2] != "-" {
		files = strings.Split(f[2], ",")
	}
	g := &gspec{}
	if f[4] != "-" {
		for _, nm := range strings.Split(f[4], ",") {
			if i := strings.LastIndex(nm, ":"); i <= 0 || i == len(nm)-1 {
				r.Count("replay-skipped:unusable-names")
				return
			}
			g.t = append(g.t, tspec{name: nm})
		}
	}
	n := len(g.t)
	if f[5] != "-" {
		g.pkgs = strings.Split(f[5], ",")
	}
	// structure the model reads must be well formed
	okList := func(s string, bound int, exact int) ([]int, bool) {
		if s == "-" {
			return nil, exact <= 0
		}
		var out []int
		for _, p := range strings.Split(s, ",") {
			v := 0
			if p == "" || len(p) > 6 {
				return nil, false
			}
			for _, c := range p {
				if c < '0' || c > '9' {
					return nil, false
				}
				v = v*10 + int(c-'0')
			}
			if v >= bound {
				return nil, false
			}
			out = append(out, v)
		}
		return out, exact < 0 || len(out) == exact
	}
	nodes, ok := okList(f[6], n, n)
	if !ok {
		bad()
		return
	}
	cnt := map[int]int{}
	for _, x := range nodes {
		cnt[x]++
	}
	for i := 0; i < n; i++ {
		if cnt[i] != 1 {
			bad()
			return
		}
	}
	got := map[int]bool{}
	if f[7] != "-" {
		for _, e := range strings.Split(f[7], ";") {
			kv := strings.Split(e, ":")
			if len(kv) != 2 {
				bad()
				return
			}
			k, ok1 := okList(kv[0], n, 1)
			ds, ok2 := okList(kv[1], n, -1)
			if !ok1 || !ok2 || got[k[0]] {
				bad()
				return
			}
			got[k[0]] = true
			g.t[k[0]].deps = ds
		}
	}
	if len(got) != n {
		bad()
		return
	}
	got = map[int]bool{}
	if f[8] != "-" {
		for _, e := range strings.Split(f[8], ";") {
			i := strings.Index(e, ":")
			if i <= 0 {
				bad()
				return
			}
			k, ok1 := okList(e[:i], n, 1)
			if !ok1 || got[k[0]] || e[i+1:] == "" {
				bad()
				return
			}
			got[k[0]] = true
			if e[i+1:] != "-" {
				for _, s := range strings.Split(e[i+1:], "|") {
					if s == "" {
						bad()
						return
					}
					if strings.HasPrefix(s, "//") || strings.HasPrefix(s, "/") {
						r.Count("replay-skipped:label-input")
						return
					}
					g.t[k[0]].srcs = append(g.t[k[0]].srcs, s) // data and sources are one list to the code under test
				}
			}
		}
	}
	if len(got) != n {
		bad()
		return
	}
	got = map[int]bool{}
	if f[9] != "-" {
		for _, e := range strings.Split(f[9], ";") {
			i := strings.Index(e, ":")
			if i <= 0 {
				bad()
				return
			}
			k, ok1 := okList(e[:i], n, 1)
			if !ok1 || got[k[0]] || e[i+1:] == "" {
				bad()
				return
			}
			got[k[0]] = true
			if e[i+1:] != "-" {
				for _, s := range strings.Split(e[i+1:], "|") {
					if s == "" {
						bad()
						return
					}
					g.t[k[0]].tools = append(g.t[k[0]].tools, s)
				}
			}
		}
	}
	if len(got) != n {
		bad()
		return
	}
	// labels and filters
	got = map[int]bool{}
	if f[10] != "-" {
		for _, e := range strings.Split(f[10], ";") {
			kv := strings.Split(e, ":")
			if len(kv) != 2 || kv[1] == "" {
				bad()
				return
			}
			k, ok1 := okList(kv[0], n, 1)
			if !ok1 || got[k[0]] {
				bad()
				return
			}
			got[k[0]] = true
			if kv[1] != "-" {
				for _, l := range strings.Split(kv[1], "|") {
					if l == "" {
						bad()
						return
					}
					g.t[k[0]].labels = append(g.t[k[0]].labels, l)
				}
			}
		}
	}
	if len(got) != n {
		bad()
		return
	}
	var fl filt
	for i, dst := range []*[]string{&fl.include, &fl.exclude} {
		if f[11+i] == "-" {
			continue
		}
		for _, e := range strings.Split(f[11+i], ";") {
			for _, l := range strings.Split(e, ",") {
				if l == "" {
					bad()
					return
				}
			}
			*dst = append(*dst, e)
		}
	}
	w := buildShared(g)
	runChanges(r, g, w, files, level, fl, "replay")
}

// ---------------------------------------------------------------- generators

var pkgTree = []string{".", "a", "a/b", "a/b/c", "d", "d/e"}

func randomGraph(r *lib.Run) *gspec {
	g := r.Rng
	gs := &gspec{}
	// which directories are packages
	var pk []string
	for _, p := range pkgTree {
		if g.Chance(65) {
			pk = append(pk, p)
		}
	}
	if len(pk) == 0 {
		pk = []string{"a"}
	}
	if g.Chance(20) {
		gs.pkgs = append(gs.pkgs, lib.Pick(g, pkgTree)) // a package without targets
	}
	files := []string{"x.go", "y.go", "dir/z.go", "dir/sub/w.go", "t.txt", "dir", "dir/sub", "tool.sh", "lib/x.go"}
	n := 2 + g.Intn(7)
	for i := 0; i < n; i++ {
		p := lib.Pick(g, pk)
		ts := tspec{name: fmt.Sprintf("%s:%s%d", p, "tT"[g.Intn(2):][:1], i), cmd: "echo " + fmt.Sprint(g.Intn(3))}
		for k := 0; k < g.Intn(3); k++ {
			ts.srcs = append(ts.srcs, lib.Pick(g, files))
		}
		if g.Chance(35) {
			ts.data = append(ts.data, lib.Pick(g, files))
		}
		if g.Chance(15) {
			ts.tools = append(ts.tools, lib.Pick(g, files))
		}
		if g.Chance(25) {
			ts.testCmd = "run"
		}
		for _, l := range []string{"manual", "go", "py"} {
			if g.Chance(22) {
				ts.labels = append(ts.labels, l)
			}
		}
		if g.Chance(20) {
			ts.binary = true
		}
		gs.t = append(gs.t, ts)
	}
	for a := 0; a < n; a++ {
		for b := a + 1; b < n; b++ {
			if g.Chance(25) {
				gs.t[a].deps = append(gs.t[a].deps, b)
			}
		}
		if g.Chance(10) && a+1 < n {
			gs.t[a].srcLabelsOf = append(gs.t[a].srcLabelsOf, a+1+g.Intn(n-a-1))
		}
	}
	return gs
}

// randomFilter: no filter, the `--exclude manual` that `plz query changes` always adds, or user -i / -e flags
func randomFilter(r *lib.Run) filt {
	g := r.Rng
	switch g.Intn(6) {
	case 0, 1:
		return filt{}
	case 2, 3:
		return filt{exclude: []string{"manual"}}
	case 4:
		return filt{include: []string{lib.Pick(g, []string{"go", "py", "go,py"})}, exclude: []string{"manual"}}
	default:
		return filt{include: []string{"go", "py"}, exclude: []string{lib.Pick(g, []string{"manual", "manual,go", "py"})}}
	}
}

// hiddenSeedCase plants the delicate shape: the target that sits directly on the changed file carries an excluded label
// (or lacks the included one) and has dependants that are shown.
func hiddenSeedCase(r *lib.Run) (*gspec, []string, filt) {
	g := r.Rng
	gs := &gspec{}
	k := 2 + g.Intn(4)
	fl := filt{exclude: []string{"manual"}}
	seedLabels := []string{"manual"}
	if g.Chance(35) {
		fl = filt{include: []string{"go"}}
		seedLabels = nil
	}
	gs.t = append(gs.t, tspec{name: "a:gen", srcs: []string{"x.go"}, labels: seedLabels, cmd: "gen"})
	for i := 1; i < k; i++ {
		ts := tspec{name: fmt.Sprintf("a:t%d", i), cmd: "c", labels: []string{"go"}}
		ts.deps = append(ts.deps, g.Intn(i)) // a chain / tree hanging off the hidden seed
		if g.Chance(20) {
			ts.labels = append(ts.labels, "manual")
		}
		if g.Chance(25) {
			ts.srcs = append(ts.srcs, "y.go")
		}
		gs.t = append(gs.t, ts)
	}
	files := []string{"a/x.go"}
	if g.Chance(20) {
		files = append(files, "a/y.go")
	}
	return gs, files, fl
}

// filesFor picks changed files that mostly hit what the targets of the graph declare: an input itself, a file
// inside a directory input, the same relative name seen from another package, or an unrelated file.
func filesFor(r *lib.Run, gs *gspec) []string {
	g := r.Rng
	var out []string
	for k := 0; k < 1+g.Intn(3); k++ {
		if g.Chance(30) {
			out = append(out, randomFiles(r)[0])
			continue
		}
		t := gs.t[g.Intn(len(gs.t))]
		p, _ := splitName(t.name)
		all := append(append(append([]string{}, t.srcs...), t.data...), t.tools...)
		if len(all) == 0 {
			out = append(out, randomFiles(r)[0])
			continue
		}
		f := lib.Pick(g, all)
		if g.Chance(35) {
			f += "/" + lib.Pick(g, []string{"in.go", "deep/in.go", "sub/w.go"})
		}
		if g.Chance(15) { // seen from a different directory
			p = lib.Pick(g, []string{"", "a", "a/b", "d"})
		}
		if p != "" {
			f = p + "/" + f
		}
		out = append(out, f)
	}
	return out
}

func randomFiles(r *lib.Run) []string {
	g := r.Rng
	dirs := []string{"", "a/", "a/b/", "a/b/c/", "d/", "d/e/", "zz/"}
	names := []string{"x.go", "y.go", "dir/z.go", "dir/sub/w.go", "t.txt", "tool.sh", "lib/x.go", "other.go", "dir/other.go"}
	var out []string
	for k := 0; k < 1+g.Intn(3); k++ {
		out = append(out, lib.Pick(g, dirs)+lib.Pick(g, names))
	}
	return out
}

func clone(g *gspec) *gspec {
	c := &gspec{pkgs: append([]string{}, g.pkgs...)}
	for _, t := range g.t {
		t2 := t
		t2.deps = append([]int{}, t.deps...)
		t2.srcs = append([]string{}, t.srcs...)
		t2.data = append([]string{}, t.data...)
		t2.tools = append([]string{}, t.tools...)
		t2.labels = append([]string{}, t.labels...)
		t2.srcLabelsOf = append([]int{}, t.srcLabelsOf...)
		c.t = append(c.t, t2)
	}
	return c
}

// edit applies one definition edit to target id of ga; returns whether it is an edit whose attribute pre-image
// concatenates to the same bytes (the unframed rule hash of C08).
func edit(r *lib.Run, ga *gspec, id int) (bool, string) {
	g := r.Rng
	t := &ga.t[id]
	switch g.Intn(8) {
	case 0:
		t.cmd += " changed"
		return false, "cmd"
	case 1:
		t.srcs = append(t.srcs, "added.go")
		return false, "src-added"
	case 2:
		t.labels = append(t.labels, "newlabel")
		return false, "label-added"
	case 3:
		t.data = append(t.data, "added.txt")
		return false, "data-added"
	case 4:
		if t.testCmd != "" {
			t.testCmd += " -v"
			return false, "test-cmd"
		}
		t.binary = !t.binary
		return false, "binary-flag"
	case 5:
		t.tools = append(t.tools, "newtool.sh")
		return false, "file-tool-added"
	case 6:
		if len(t.deps) > 0 && len(t.srcLabelsOf) == 0 {
			t.deps = t.deps[:len(t.deps)-1]
			return false, "dep-removed"
		}
		t.cmd += "x"
		return false, "cmd"
	default:
		// two sources "ab","c" become "a","bc": the definition differs, the concatenated pre-image does not
		t.srcs = []string{"a", "bc"}
		return true, "srcs-resplit"
	}
}

func main() {
	r := lib.Start()
	defer r.Finish()
	r.Rule = "some target consumes a changed file / some definition changed; distinct by op line"
	if ops := r.ReplayOps(); ops != nil {
		for _, op := range ops {
			replayOp(r, op)
		}
		return
	}
	// the canonical witness of the known finding changes-rulehash-unframed (needs a before-graph, so it cannot live in
	// the corpus as a replayable op): srcs ["ab","c"] become ["a","bc"]
	{
		gb := &gspec{t: []tspec{{name: "a:lib", srcs: []string{"ab", "c"}, cmd: "cat $SRCS"}, {name: "a:bin", deps: []int{0}, cmd: "true"}}}
		ga := clone(gb)
		ga.t[0].srcs = []string{"a", "bc"}
		runDiff(r, gb, ga, []int{0}, []int{0}, nil, -1, filt{}, "planted-rulehash-witness")
	}
	for i := 0; i < r.N(4000, 40000); i++ {
		gs := randomGraph(r)
		w := buildShared(gs)
		for k := 0; k < 3; k++ {
			lvl := []int{-1, -1, 0, 1, 2}[r.Rng.Intn(5)]
			runChanges(r, gs, w, filesFor(r, gs), lvl, randomFilter(r), "changes")
		}
	}
	// the directly changed target is hidden by the filter, its dependants are not
	for i := 0; i < r.N(800, 10000); i++ {
		gs, files, fl := hiddenSeedCase(r)
		w := buildShared(gs)
		runChanges(r, gs, w, files, []int{-1, -1, 1, 2, 3, 0}[r.Rng.Intn(6)], fl, "hidden-seed")
	}
	for i := 0; i < r.N(400, 6000); i++ {
		gb := randomGraph(r)
		ga := clone(gb)
		var edited, collide []int
		for k := 0; k < 1+r.Rng.Intn(2); k++ {
			id := r.Rng.Intn(len(ga.t))
			dup := false
			for _, e := range edited {
				dup = dup || e == id
			}
			if dup {
				continue
			}
			if r.Rng.Chance(12) { // make the re-split edit meaningful: before has "ab","c"
				gb.t[id].srcs = []string{"ab", "c"}
				ga.t[id].srcs = []string{"a", "bc"}
				edited, collide = append(edited, id), append(collide, id)
				r.Count("edit:srcs-resplit")
				continue
			}
			c, what := edit(r, ga, id)
			if c {
				gb.t[id].srcs = []string{"ab", "c"}
				collide = append(collide, id)
			}
			edited = append(edited, id)
			r.Count("edit:" + what)
		}
		if r.Rng.Chance(15) { // a new target
			ga.t = append(ga.t, tspec{name: "a:newtarget", cmd: "new"})
			edited = append(edited, len(ga.t)-1)
			r.Count("edit:new-target")
		}
		var files []string
		if r.Rng.Chance(30) {
			files = filesFor(r, ga)
		}
		runDiff(r, gb, ga, edited, collide, files, []int{-1, -1, 0, 1, 2}[r.Rng.Intn(5)], randomFilter(r), "diff")
	}
	for _, op := range []string{"changes", "changes x - - .:a . 0 0:- 0:- 0:- 0:- - -", "changes u - - .:a . 0,0 0:- 0:- 0:- 0:- - -", "changes u - - .:a . 0 0:1 0:- 0:- 0:- - -",
		"changes u - - .:a . 0 0:- 0: 0:- 0:- - -", "changes u - - .:a . 0 0:- 1:- 0:- 0:- - -", "changes u - - .:a . 0 0:- 0:- 0:-", "changes u - - .:a . 0 0:- 0:- 0:- 0: - -",
		"changes u - - .:a . 0 0:- 0:- 0:- 0:- go,, -"} {
		replayOp(r, op)
	}
}
