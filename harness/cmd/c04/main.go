// C04 harness: trace validation.  The real plz binary ($VERIF_PLZ) builds generated DAGs of genrules at
// -n 1,2,4,16; every command appends flock-protected start/end events to a log outside the repository.  The
// direct oracle checks the raw log ("no second start", "start only after every dependency's successful end",
// "every needed target built exactly once", "dependency outputs present"); the Lean driver replays the same
// trace through the scheduler model as an acceptor (every event must be enabled).
package main

import (
	"fmt"
	"os"
	"strings"
	"sync"
	"time"

	"verif/harness/lib"
	"verif/harness/sched"
)

type outcome struct {
	line, out string
	nontriv   bool
	counts    []string
	fails     [][3]string
}

const wallLimit = 120 * time.Second

// judge applies the direct oracle to one observed run and renders the canonical outcome.
func judge(c *sched.Case, ev []sched.Event, rc int, line string) *outcome {
	o := &outcome{line: line}
	fail := func(class, detail string) { o.fails = append(o.fails, [3]string{class, line, detail}) }
	for _, v := range c.CheckLog(ev) {
		fail(v.Class, v.Detail)
	}
	built, failed := sched.Summary(ev)
	needed := c.Needed()
	isBuilt := map[int]bool{}
	for _, b := range built {
		isBuilt[b] = true
		if !needed[b] {
			fail("built-unneeded-target", fmt.Sprintf("target %d is not a dependency of any requested target", b))
		}
	}
	if rc == 124 {
		fail("did-not-terminate", "plz was killed at the wall-clock limit")
	}
	if len(failed) == 0 {
		if rc != 0 {
			fail("exit-nonzero-without-failure", fmt.Sprintf("exit status %d although no command failed", rc))
		}
		for t := range needed {
			if !isBuilt[t] && rc == 0 {
				fail("needed-target-not-built", fmt.Sprintf("target %d was requested (transitively) but never built; exit status 0", t))
			}
		}
	}
	rcs := "0"
	if rc != 0 {
		rcs = "nz"
	}
	o.out = fmt.Sprintf("ok built=%s failed=%s rc=%s", sched.Ints(built), sched.Ints(failed), rcs)
	if len(o.fails) > 0 {
		o.out = "violation " + o.out
	}
	o.nontriv = len(c.Targets) >= 3
	if m := sched.MaxConcurrent(ev); m >= 2 {
		o.counts = append(o.counts, "runs-with-concurrent-commands")
		if m >= 4 {
			o.counts = append(o.counts, "runs-with-4+-concurrent-commands")
		}
	}
	o.counts = append(o.counts, fmt.Sprintf("par=%d", c.Par))
	return o
}

func traceLine(c *sched.Case, ev []sched.Event, rc int) string {
	return fmt.Sprintf("trace %s ev=%s rc=%d", c.Encode(), sched.EventsString(ev), rc)
}

// splitTrace separates "trace <case> ev=.. rc=.." into its parts.
func splitTrace(line string) (*sched.Case, []sched.Event, int, bool) {
	f := strings.Fields(line)
	if len(f) < 4 || f[0] != "trace" {
		return nil, nil, 0, false
	}
	evs, rcs := f[len(f)-2], f[len(f)-1]
	if !strings.HasPrefix(evs, "ev=") || !strings.HasPrefix(rcs, "rc=") {
		return nil, nil, 0, false
	}
	c, ok := sched.Decode(strings.Join(f[1:len(f)-2], " "))
	if !ok {
		return nil, nil, 0, false
	}
	ev, ok := sched.ParseEvents(evs[3:])
	var rc int
	if _, err := fmt.Sscanf(rcs[3:], "%d", &rc); err != nil || !ok {
		return nil, nil, 0, false
	}
	return c, ev, rc, true
}

var caseID struct {
	sync.Mutex
	n int
}

func nextID() int {
	caseID.Lock()
	defer caseID.Unlock()
	caseID.n++
	return caseID.n
}

// execute runs plz for the case and judges the run.
// envSensitive: outcomes that a starved machine can produce on its own (the log-based classes never are).
var envSensitive = map[string]bool{"did-not-terminate": true, "exit-nonzero-without-failure": true,
	"needed-target-not-built": true, "keep-going-skipped-buildable-target": true}

// suspicious: every failure of the outcome is environment-sensitive.
func suspicious(o *outcome) bool {
	if len(o.fails) == 0 {
		return false
	}
	for _, f := range o.fails {
		if !envSensitive[f[0]] {
			return false
		}
	}
	return true
}

// confirm re-runs a suspicious case with nothing else of this harness running: the failure is reported only if
// it shows again (the first occurrence is still counted).
func confirm(c *sched.Case, o *outcome) *outcome {
	if !suspicious(o) {
		return o
	}
	o2 := executeOnce(c)
	for _, k := range o.counts {
		if strings.HasPrefix(k, "killed-at-limit") {
			o2.counts = append(o2.counts, "first-run-"+k)
		}
	}
	if len(o2.fails) == 0 {
		o2.counts = append(o2.counts, "not-reproduced-on-rerun:"+o.fails[0][0])
		return o2
	}
	o2.fails[0][2] += " | reproduced on an isolated re-run"
	return o2
}

func execute(c *sched.Case) *outcome { return confirm(c, executeOnce(c)) }

func executeOnce(c *sched.Case) *outcome {
	res, err := c.Run(os.Getenv("VERIF_PLZ"), os.Getenv("VERIF_SCRATCH"), nextID(), wallLimit)
	if err != nil {
		return &outcome{line: "run " + c.Encode(), out: "harness-error " + err.Error()}
	}
	o := judge(c, res.Events, res.RC, traceLine(c, res.Events, res.RC))
	if res.RC == 124 {
		o.counts = append(o.counts, fmt.Sprintf("killed-at-limit-after-%ds-without-events", int(res.Idle.Seconds())/10*10))
		if len(o.fails) > 0 {
			o.fails[0][2] += fmt.Sprintf(" | last event %.0f s before the kill", res.Idle.Seconds())
		}
	}
	if len(o.fails) > 0 && res.Output != "" {
		o.fails[0][2] += " | plz said: " + strings.ReplaceAll(lastLines(res.Output, 6), "\n", " / ")
	}
	return o
}

func lastLines(s string, n int) string {
	l := strings.Split(strings.TrimSpace(s), "\n")
	if len(l) > n {
		l = l[len(l)-n:]
	}
	return strings.Join(l, "\n")
}

func flush(r *lib.Run, o *outcome) {
	for _, f := range o.fails {
		r.OracleFail(f[0], f[1], f[2])
	}
	r.Emit(o.line, o.out, o.nontriv)
	for _, c := range o.counts {
		r.Count(c)
	}
}

func runOp(r *lib.Run, line string) {
	switch {
	case strings.HasPrefix(line, "trace "):
		c, ev, rc, ok := splitTrace(line)
		if !ok {
			r.Emit(line, "bad-op", false)
			return
		}
		flush(r, judge(c, ev, rc, line))
	case strings.HasPrefix(line, "run "):
		c, ok := sched.Decode(strings.TrimPrefix(line, "run "))
		if !ok {
			r.Emit(line, "bad-op", false)
			return
		}
		flush(r, execute(c))
	default:
		r.Emit(line, "bad-op", false)
	}
}

// ---------------------------------------------------------------- generator

// querySub: `plz query deps` (NeedBuild off) on packages that subinclude targets. 0 depends on 1, whose package
// subincludes the slow 3, so the queuer that activated 0 without building it sits for a while waiting for that package
// to be parsed; meanwhile package 2 subincludes 0 and thereby forces its build, which must still wait for 1.
func querySub(rng *lib.Rng, r *lib.Run) *sched.Case {
	c := &sched.Case{Query: true}
	c.Targets = []sched.Target{
		{Pkg: 0, Deps: []int{1}},
		{Pkg: 1, SleepMs: 600 + rng.Intn(600)},
		{Pkg: 2},
		{Pkg: 3, SleepMs: 900 + rng.Intn(900)},
	}
	c.Subs = [][2]int{{1, 3}, {2, 0}}
	c.Roots = []int{0, 2}
	if rng.Bool() {
		c.Roots = []int{2, 0}
	}
	if rng.Bool() { // a second dependency of 0, in the package of 1
		c.Targets = append(c.Targets, sched.Target{Pkg: 1, SleepMs: rng.Intn(300)})
		c.Targets[0].Deps = append(c.Targets[0].Deps, len(c.Targets)-1)
	}
	r.Count("shape:query-subinclude")
	return c
}

func genDAG(rng *lib.Rng, r *lib.Run, force string) *sched.Case {
	if force == "query-subinclude" {
		return querySub(rng, r)
	}
	shapes := []string{"random", "random", "diamond", "fanin", "chain", "layers", "tworoots", "provides-late"}
	shape := lib.Pick(rng, shapes)
	if force != "" {
		shape = force
	}
	r.Count("shape:" + shape)
	c := &sched.Case{}
	add := func(deps ...int) int {
		c.Targets = append(c.Targets, sched.Target{Deps: deps, SleepMs: rng.Intn(25)})
		return len(c.Targets) - 1
	}
	switch shape {
	case "provides-late":
		// t requires "lang" and depends on d; d provides {"lang": [p1..pk]} (one declared dependency resolves to
		// several targets); p1's post-build function attaches the slow x to t while t is waiting
		k := 2 + rng.Intn(2)
		var ps []int
		for i := 0; i < k; i++ {
			ps = append(ps, add())
		}
		d := add()
		c.Targets[d].Provides = ps
		x := add()
		c.Targets[x].SleepMs = 400 + rng.Intn(600)
		var extra []int
		if rng.Bool() {
			extra = append(extra, add())
		}
		t := add(append([]int{d}, extra...)...)
		c.Targets[t].Requires = true
		adder := ps[rng.Intn(len(ps))]
		c.Targets[adder].PostAdd = [][2]int{{t, x}}
		top := t
		if rng.Bool() {
			top = add(t)
		}
		c.Roots = []int{top}
	case "diamond":
		a := add()
		k := 2 + rng.Intn(4)
		var mid []int
		for i := 0; i < k; i++ {
			mid = append(mid, add(a))
		}
		top := add(mid...)
		if rng.Bool() {
			top = add(top, a)
		}
		c.Roots = []int{top}
	case "fanin":
		k := 3 + rng.Intn(9)
		var leaves []int
		for i := 0; i < k; i++ {
			leaves = append(leaves, add())
		}
		c.Roots = []int{add(leaves...)}
	case "chain":
		k := 2 + rng.Intn(7)
		cur := add()
		for i := 0; i < k; i++ {
			cur = add(cur)
		}
		c.Roots = []int{cur}
	case "layers":
		prev := []int{add(), add()}
		for l := 0; l < 2+rng.Intn(3); l++ {
			var next []int
			for i := 0; i < 2+rng.Intn(3); i++ {
				var ds []int
				for _, p := range prev {
					if rng.Chance(60) {
						ds = append(ds, p)
					}
				}
				if len(ds) == 0 {
					ds = []int{prev[0]}
				}
				next = append(next, add(ds...))
			}
			prev = next
		}
		c.Roots = []int{add(prev...)}
	default:
		n := 2 + rng.Intn(13)
		for i := 0; i < n; i++ {
			var ds []int
			for j := 0; j < i; j++ {
				if rng.Chance(30) {
					ds = append(ds, j)
				}
			}
			add(ds...)
		}
		c.Roots = []int{n - 1}
		if shape == "tworoots" && n > 2 {
			c.Roots = append(c.Roots, rng.Intn(n-1))
		}
	}
	pkgs := 1 + rng.Intn(3)
	if shape == "provides-late" {
		pkgs = 1 // add_dep and the provide labels are package-relative
	}
	for i := range c.Targets {
		c.Targets[i].Pkg = rng.Intn(pkgs)
	}
	if pkgs > 1 {
		r.Count("multi-package")
	}
	return c
}

func main() {
	r := lib.Start()
	defer r.Finish()
	r.Rule = "DAG with at least three targets, one plz invocation; distinct by case and observed trace"
	if ops := r.ReplayOps(); ops != nil {
		for _, op := range ops {
			runOp(r, op)
		}
		return
	}
	if os.Getenv("VERIF_PLZ") == "" {
		panic("VERIF_PLZ not set")
	}
	var cases []*sched.Case
	for i := 0; i < r.N(12, 100); i++ {
		force := ""
		if i%4 == 1 {
			force = "provides-late" // every run has the require/provide + late add_dep shape several times
		}
		if i%6 == 2 {
			force = "query-subinclude"
		}
		base := genDAG(r.Rng, r, force)
		for _, par := range []int{1, 2, 4, 16} {
			c := *base
			c.Par = par
			cases = append(cases, &c)
		}
	}
	outs := make([]*outcome, len(cases))
	var wg sync.WaitGroup
	sem := make(chan struct{}, 6)
	for i, c := range cases {
		wg.Add(1)
		sem <- struct{}{}
		go func(i int, c *sched.Case) {
			defer wg.Done()
			defer func() { <-sem }()
			outs[i] = executeOnce(c)
		}(i, c)
	}
	wg.Wait()
	for i, o := range outs {
		o = confirm(cases[i], o)
		flush(r, o)
		r.Count("plz-runs")
	}
	for _, l := range []string{"trace x", "run deps=0: pk=0 roots=1 n=1 kg=0 fail=- bad=- miss=-", "foo", "trace deps=0: pk=0 roots=0 n=1 kg=0 fail=- bad=- miss=- ev=Q0 rc=0"} {
		runOp(r, l)
		r.Count("malformed")
	}
}
