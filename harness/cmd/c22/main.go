// C22 harness: plz.FindAllBuildFiles on generated directory trees (created under $VERIF_SCRATCH) against the Lean
// model (correspondence) and against an independent component-wise reference (direct oracle).
package main

import (
	"fmt"
	"os"
	"path/filepath"
	"sort"
	"strings"
	"unicode/utf8"

	"github.com/thought-machine/please/src/core"
	"github.com/thought-machine/please/src/plz"
	"verif/harness/lib"
)

// ---------------------------------------------------------------- trees

type node struct {
	name string
	kind byte // 'd' directory, 'f' regular file, 'l' symlink to a directory, 's' symlink to a regular file
	kids []*node
}

type conf struct {
	buildNames, experimental, blacklist []string
	prefix                              string
}

func encTree(kids []*node) string {
	if len(kids) == 0 {
		return "_"
	}
	var toks []string
	var rec func(ns []*node)
	rec = func(ns []*node) {
		for _, n := range ns {
			toks = append(toks, string(n.kind)+lib.Hex(n.name))
			if n.kind == 'd' {
				rec(n.kids)
				toks = append(toks, "^")
			}
		}
	}
	rec(kids)
	return strings.Join(toks, ",")
}

func decTree(s string) ([]*node, bool) {
	if s == "_" {
		return nil, true
	}
	toks := strings.Split(s, ",")
	pos := 0
	ok := true
	var rec func(top bool) []*node
	rec = func(top bool) []*node {
		var out []*node
		for pos < len(toks) {
			t := toks[pos]
			pos++
			if t == "^" {
				if top {
					ok = false
				}
				return out
			}
			if len(t) < 2 || !strings.ContainsRune("dfls", rune(t[0])) {
				ok = false
				return out
			}
			nm, good := unhex(t[1:])
			if !good {
				ok = false
				return out
			}
			if !validEntry(nm) {
				ok = false
				return out
			}
			for _, o := range out {
				if o.name == nm {
					ok = false
				}
			}
			n := &node{name: nm, kind: t[0]}
			if n.kind == 'd' {
				n.kids = rec(false)
			}
			out = append(out, n)
		}
		if !top {
			ok = false
		}
		return out
	}
	r := rec(true)
	return r, ok
}

func validEntry(n string) bool {
	return n != "" && n != "." && n != ".." && !strings.ContainsAny(n, "/\x00") && len(n) <= 255 && utf8.ValidString(n)
}

func unhex(s string) (out string, ok bool) {
	defer func() {
		if recover() != nil {
			ok = false
		}
	}()
	out = lib.UnHex(s)
	return out, utf8.ValidString(out) && s == lib.Hex(out) // lower-case hex of valid UTF-8 only
}

func encList(xs []string) string {
	if len(xs) == 0 {
		return "_"
	}
	p := make([]string, len(xs))
	for i, x := range xs {
		p[i] = lib.Hex(x)
	}
	return strings.Join(p, ";")
}

func decList(s string) ([]string, bool) {
	if s == "_" {
		return nil, true
	}
	var out []string
	for _, p := range strings.Split(s, ";") {
		x, ok := unhex(p)
		if !ok {
			return nil, false
		}
		out = append(out, x)
	}
	return out, true
}

func materialise(dir string, kids []*node, sentinel string) error {
	for _, n := range kids {
		p := filepath.Join(dir, n.name)
		var err error
		switch n.kind {
		case 'd':
			if err = os.Mkdir(p, 0o755); err == nil {
				err = materialise(p, n.kids, sentinel)
			}
		case 'f':
			err = os.WriteFile(p, nil, 0o644)
		case 'l':
			err = os.Symlink(".", p) // resolves to the containing directory: a symlink to a directory
		case 's':
			err = os.Symlink(sentinel, p)
		}
		if err != nil {
			return err
		}
	}
	return nil
}

func find(kids []*node, comps []string) (*node, bool) {
	cur := &node{kind: 'd', kids: kids}
	for _, c := range comps {
		if cur.kind != 'd' {
			return nil, false
		}
		var nx *node
		for _, k := range cur.kids {
			if k.name == c {
				nx = k
			}
		}
		if nx == nil {
			return nil, false
		}
		cur = nx
	}
	return cur, true
}

// ---------------------------------------------------------------- reference (independent of the Lean model)

func pathStr(comps []string) string {
	if len(comps) == 0 {
		return "."
	}
	return strings.Join(comps, "/")
}

func contains(xs []string, x string) bool {
	for _, y := range xs {
		if x == y {
			return true
		}
	}
	return false
}

// A blacklist entry names the entry itself (last component) or a whole leading run of path components.
func blacklisted(c conf, comps []string, strPrefix bool) bool {
	b := "."
	if len(comps) > 0 {
		b = comps[len(comps)-1]
	}
	for _, d := range c.blacklist {
		if d == b {
			return true
		}
		for k := 1; k <= len(comps); k++ {
			if d == strings.Join(comps[:k], "/") {
				return true
			}
		}
		if strPrefix && strings.HasPrefix(pathStr(comps), d) { // the pinned code's test (finding blacklist-string-prefix)
			return true
		}
	}
	return false
}

func excludedDir(c conf, comps []string, strPrefix bool) bool {
	if len(comps) > 0 {
		b := comps[len(comps)-1]
		if b == "plz-out" || strings.HasPrefix(b, ".") {
			return true
		}
	}
	return contains(c.experimental, pathStr(comps)) || blacklisted(c, comps, strPrefix)
}

// ref lists the BUILD files `//comps/...` must yield.  strPrefix / cut switch on the two known deviations of the
// pinned code (used only to *classify* an oracle failure by root cause, never to accept one).
func ref(c conf, comps []string, n *node, strPrefix, cut bool) []string {
	var out []string
	if n.kind != 'd' || excludedDir(c, comps, strPrefix) {
		return out
	}
	kids := append([]*node{}, n.kids...)
	sort.Slice(kids, func(i, j int) bool { return kids[i].name < kids[j].name })
	for _, k := range kids {
		kc := append(append([]string{}, comps...), k.name)
		if k.kind == 'd' {
			out = append(out, ref(c, kc, k, strPrefix, cut)...)
			continue
		}
		isBuild := contains(c.buildNames, k.name) && k.name != "plz-out"
		if isBuild {
			out = append(out, pathStr(kc))
		}
		if cut && k.kind != 'l' && (k.name == "plz-out" || (!isBuild && contains(c.experimental, pathStr(kc))) || blacklisted(c, kc, strPrefix)) {
			break // godirwalk: SkipDir for a non-directory drops the remaining siblings (finding nondir-skipdir-cuts-siblings)
		}
	}
	return out
}

// eqs compares as sets with multiplicity: the property speaks about which packages are found; the order in which
// they are sent is checked by the correspondence with the model, not by the oracle.
func eqs(a, b []string) bool {
	a, b = append([]string{}, a...), append([]string{}, b...)
	sort.Strings(a)
	sort.Strings(b)
	if len(a) != len(b) {
		return false
	}
	for i := range a {
		if a[i] != b[i] {
			return false
		}
	}
	return true
}

// ---------------------------------------------------------------- one case

var (
	config   *core.Configuration
	scratch  string
	sentinel string
	caseNo   int
	home     string
)

func showNames(xs []string) string {
	if len(xs) == 0 {
		return "_"
	}
	p := make([]string, len(xs))
	for i, x := range xs {
		p[i] = lib.Hex(x)
	}
	return strings.Join(p, ",")
}

func mkOp(root string, c conf, kids []*node) string {
	return strings.Join([]string{"walk", lib.Hex(root), lib.Hex(c.prefix), encList(c.buildNames), encList(c.experimental),
		encList(c.blacklist), encTree(kids)}, " ")
}

func runOp(r *lib.Run, op string) {
	f := strings.Split(op, " ")
	if len(f) != 7 || f[0] != "walk" {
		r.Emit(op, "bad-op", false)
		return
	}
	root, ok1 := unhex(f[1])
	pfx, ok2 := unhex(f[2])
	bn, ok3 := decList(f[3])
	ex, ok4 := decList(f[4])
	bl, ok5 := decList(f[5])
	kids, ok6 := decTree(f[6])
	if !(ok1 && ok2 && ok3 && ok4 && ok5 && ok6) {
		r.Emit(op, "bad-op", false)
		return
	}
	c := conf{bn, ex, bl, pfx}
	var comps []string
	if root != "" {
		comps = strings.Split(root, "/")
	}
	rn, found := find(kids, comps)
	if !found {
		r.Emit(op, "no-root", false)
		return
	}
	if rn.kind != 'd' {
		// fs.WalkMode hands a non-directory root straight to the callback and FindAllBuildFiles log.Fatalf's when that
		// returns SkipDir; `//file/...` is outside C22 (and would kill the harness), so it is not run.
		r.Emit(op, "root-not-dir", false)
		return
	}
	// the real code, on a real directory tree
	caseNo++
	dir := filepath.Join(scratch, fmt.Sprintf("t%d", caseNo))
	if err := os.Mkdir(dir, 0o755); err != nil {
		panic(err)
	}
	if err := materialise(dir, kids, sentinel); err != nil {
		panic(fmt.Sprintf("cannot create tree for %s: %v", op, err))
	}
	if err := os.Chdir(dir); err != nil {
		panic(err)
	}
	config.Parse.BuildFileName = bn
	config.Parse.ExperimentalDir = ex
	config.Parse.BlacklistDirs = bl
	var got []string
	for name := range plz.FindAllBuildFiles(config, root, pfx) {
		got = append(got, name)
	}
	os.Chdir(home)
	os.RemoveAll(dir)

	// direct oracle: only for what C22 speaks about (`//dir/...`: prefix "", dir is a directory, sane config)
	nontrivial := false
	if pfx == "" && rn.kind == 'd' && !contains(bn, "plz-out") {
		want := ref(c, comps, rn, false, false)
		nontrivial = len(want) > 0 && (len(bl) > 0 || len(ex) > 0)
		sp, ct, both := ref(c, comps, rn, true, false), ref(c, comps, rn, false, true), ref(c, comps, rn, true, true)
		if !eqs(sp, want) {
			r.Count("reaches:string-prefix-deviation")
		}
		if !eqs(ct, want) {
			r.Count("reaches:nondir-cut-deviation")
		}
		if eqs(got, want) {
			r.Count("oracle-agree")
		} else {
			class := "unexplained"
			switch { // an output both deviations explain alone is attributed to the sibling cut
			case eqs(got, ct):
				class = "nondir-skipdir-cuts-siblings"
			case eqs(got, sp):
				class = "blacklist-string-prefix"
			case eqs(got, both):
				class = "blacklist-string-prefix+nondir-skipdir-cuts-siblings"
			}
			r.OracleFail(class, op, fmt.Sprintf("FindAllBuildFiles=%q specified=%q", got, want))
		}
	} else {
		r.Count("no-oracle(prefix/root-not-dir/config)")
	}
	r.Emit(op, showNames(got), nontrivial)
}

// ---------------------------------------------------------------- generator

var pool = []string{"BUILD", "BUILD.plz", "a", "ab", "abc", "b", "out", "output", "out.txt", "plz-out", "plz-out2",
	".hid", ".git", "x y", "é", "src", "srcs", "third_party", "third_party2", "exp", "experimental", "B", "(1)", "a+b",
	"node_modules", "m", "q", "zz", "BUILD.bazel", "日本"}

type gen struct {
	r     *lib.Run
	dirs  [][]string // component paths of generated directories
	files [][]string
}

func (g *gen) tree(comps []string, depth, maxDepth int, bn []string) []*node {
	rng := g.r.Rng
	n := rng.Intn(5)
	if depth == 0 {
		n = 1 + rng.Intn(5)
	}
	used := map[string]bool{}
	var out []*node
	add := func(nd *node) {
		if used[nd.name] {
			return
		}
		used[nd.name] = true
		out = append(out, nd)
		p := append(append([]string{}, comps...), nd.name)
		if nd.kind == 'd' {
			g.dirs = append(g.dirs, p)
			nd.kids = g.tree(p, depth+1, maxDepth, bn)
		} else {
			g.files = append(g.files, p)
		}
	}
	if rng.Chance(60) && len(bn) > 0 {
		k := byte('f')
		switch x := rng.Intn(100); { // BUILD files that are symlinks (to a regular file elsewhere) are packages too
		case x < 14:
			k = 's'
			g.r.Count("gen:BUILD-is-symlink-to-file")
		case x < 17:
			k = 'l'
		case x < 20:
			k = 'd'
		}
		if k != 'd' || depth < maxDepth {
			add(&node{name: lib.Pick(rng, bn), kind: k})
		}
	}
	for i := 0; i < n; i++ {
		nm := lib.Pick(rng, pool)
		switch x := rng.Intn(100); {
		case x < 50 && depth < maxDepth:
			add(&node{name: nm, kind: 'd'})
		case x < 90:
			add(&node{name: nm, kind: 'f'})
		case x < 95:
			add(&node{name: nm, kind: 'l'})
		default:
			add(&node{name: nm, kind: 's'})
		}
	}
	return out
}

func (g *gen) entry() string {
	rng := g.r.Rng
	pickPath := func(ps [][]string) string {
		if len(ps) == 0 {
			return lib.Pick(rng, pool)
		}
		return strings.Join(lib.Pick(rng, ps), "/")
	}
	switch x := rng.Intn(100); {
	case x < 25:
		return lib.Pick(rng, pool)
	case x < 50:
		return pickPath(g.dirs)
	case x < 65: // a proper string prefix of a directory path: the adversarial case
		p := pickPath(g.dirs)
		if rs := []rune(p); len(rs) > 1 { // cut at a rune boundary: names and config strings are valid UTF-8
			return string(rs[:1+rng.Intn(len(rs)-1)])
		}
		return p
	case x < 75:
		p := pickPath(g.dirs)
		return filepath.Base(p)
	case x < 85:
		return pickPath(g.files)
	case x < 92:
		return filepath.Base(pickPath(g.files))
	case x < 96:
		return pickPath(g.dirs) + "/"
	case x < 98:
		return "./" + pickPath(g.dirs)
	default:
		return ""
	}
}

func (g *gen) one(maxDepth int) string {
	rng := g.r.Rng
	g.dirs, g.files = nil, nil
	bn := []string{"BUILD", "BUILD.plz"}
	switch x := rng.Intn(100); {
	case x < 8:
		bn = []string{"B"}
	case x < 14:
		bn = []string{"BUILD.bazel", "BUILD"}
	case x < 18:
		bn = []string{"m", "BUILD"}
	case x < 19:
		bn = nil
	}
	kids := g.tree(nil, 0, maxDepth, bn)
	c := conf{buildNames: bn}
	for i := rng.Intn(4); i > 0; i-- {
		c.blacklist = append(c.blacklist, g.entry())
	}
	if rng.Chance(35) {
		for i := 1 + rng.Intn(2); i > 0; i-- {
			c.experimental = append(c.experimental, g.entry())
		}
	}
	root := ""
	switch x := rng.Intn(100); {
	case x < 65:
	case x < 92 && len(g.dirs) > 0:
		root = strings.Join(lib.Pick(rng, g.dirs), "/")
		g.r.Count("root:subdir")
	case x < 96 && len(g.files) > 0:
		root = strings.Join(lib.Pick(rng, g.files), "/")
		g.r.Count("root:non-directory")
	case x < 98:
		root = "nonexistent"
		g.r.Count("root:missing")
	}
	if rng.Chance(8) {
		if len(g.dirs) > 0 && rng.Bool() {
			c.prefix = strings.Join(lib.Pick(rng, g.dirs), "/")
		} else {
			c.prefix = lib.Pick(rng, pool)
		}
		g.r.Count("prefix:non-empty")
	}
	if len(c.blacklist) > 0 {
		g.r.Count("blacklist:non-empty")
	}
	if len(c.experimental) > 0 {
		g.r.Count("experimental:non-empty")
	}
	return mkOp(root, c, kids)
}

// exhaustive family: every combination of a few entry shapes and blacklist entries that share prefixes
func exhaustive(r *lib.Run) {
	build := func() *node { return &node{name: "BUILD", kind: 'f'} }
	pkg := func(name string, extra ...*node) *node {
		return &node{name: name, kind: 'd', kids: append([]*node{build()}, extra...)}
	}
	aShapes := []func() *node{
		func() *node { return nil },
		func() *node { return &node{name: "a", kind: 'f'} },
		func() *node { return &node{name: "a", kind: 'd'} },
		func() *node { return pkg("a") },
		func() *node { return pkg("a", pkg("ab")) },
		func() *node { return &node{name: "a", kind: 'l'} },
		func() *node { return &node{name: "a", kind: 'd', kids: []*node{{name: "BUILD", kind: 's'}}} }, // BUILD is a symlink to a file
	}
	abShapes := []func() *node{
		func() *node { return nil },
		func() *node { return &node{name: "ab", kind: 'f'} },
		func() *node { return pkg("ab") },
		func() *node { return pkg("ab", pkg("a")) },
	}
	bShapes := []func() *node{
		func() *node { return nil },
		func() *node { return pkg("b") },
		func() *node { return pkg("plz-out") },
		func() *node { return &node{name: "plz-out", kind: 'f'} },
	}
	bls := [][]string{nil, {"a"}, {"ab"}, {"a/ab"}, {"b"}, {"a", "b"}, {"ab/a"}, {"a/"}}
	exps := [][]string{nil, {"a"}, {"ab"}}
	for _, withRootBuild := range []bool{false, true} {
		for _, fa := range aShapes {
			for _, fab := range abShapes {
				for _, fb := range bShapes {
					for _, bl := range bls {
						for _, ex := range exps {
							var kids []*node
							if withRootBuild {
								kids = append(kids, build())
							}
							for _, n := range []*node{fa(), fab(), fb()} {
								if n != nil {
									kids = append(kids, n)
								}
							}
							runOp(r, mkOp("", conf{buildNames: []string{"BUILD"}, blacklist: bl, experimental: ex}, kids))
							r.Count("exhaustive-family")
						}
					}
				}
			}
		}
	}
}

func main() {
	r := lib.Start()
	defer r.Finish()
	r.Rule = "the specification lists at least one package and a blacklist or experimental entry is configured; distinct by op line"
	var err error
	home, err = os.Getwd()
	if err != nil {
		panic(err)
	}
	scratch = os.Getenv("VERIF_SCRATCH")
	if scratch == "" {
		scratch = r.OutDir
	}
	scratch, _ = filepath.Abs(filepath.Join(scratch, "c22-trees"))
	if err := os.MkdirAll(scratch, 0o755); err != nil {
		panic(err)
	}
	defer os.RemoveAll(scratch)
	sentinel = filepath.Join(scratch, "sentinel-file")
	if err := os.WriteFile(sentinel, []byte("x"), 0o644); err != nil {
		panic(err)
	}
	config = core.DefaultConfiguration()

	if ops := r.ReplayOps(); ops != nil {
		for _, op := range ops {
			runOp(r, op)
		}
		return
	}
	exhaustive(r)
	r.Exhaust = true
	g := &gen{r: r}
	for i := 0; i < r.N(2500, 25000); i++ {
		runOp(r, g.one(r.N(3, 4)))
	}
	// malformed stream
	for _, op := range []string{"walk", "walk - - _ _ _", "walk - - _ _ _ x", "walk zz - _ _ _ _", "walk - - _ _ _ d61", "walk - - _ _ _ ^", "nonsense 1 2"} {
		runOp(r, op)
		r.Count("malformed")
	}
}
